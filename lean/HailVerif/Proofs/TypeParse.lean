import HailVerif.Proofs.TypeStr
/-! `dtype (str t) = t`: the PEG parser of the model run on printed types (C31). -/
namespace HailVerif.TypeStr

variable (cc : Classes)

/-- what can follow a printed type inside a printed type: nothing, `>`, `,`, `)` or `}` -/
def Follow (rest : Str) : Prop := rest = [] ∨ ∃ p r, rest = p :: r ∧ (p = 62 ∨ p = 44 ∨ p = 41 ∨ p = 125)

mutual
/-- fuel that suffices to parse the printed form -/
def weight : HType → Nat
  | .array t | .ndarray t _ | .set t | .stream t | .interval t => weight t + 1
  | .dict k v => weight k + weight v + 1
  | .struct fs => weightFields fs + 1
  | .tuple ts => weightTypes ts + 1
  | _ => 1
def weightFields : List (Str × HType) → Nat
  | [] => 0
  | (_, t) :: r => weight t + weightFields r + 1
def weightTypes : List HType → Nat
  | [] => 0
  | t :: r => weight t + weightTypes r + 1
end

theorem length_le_weightFields (fs : List (Str × HType)) : fs.length ≤ weightFields fs := by
  induction fs with
  | nil => simp [weightFields]
  | cons p fs ih => obtain ⟨n, t⟩ := p; simp [weightFields]; omega

theorem length_le_weightTypes (ts : List HType) : ts.length ≤ weightTypes ts := by
  induction ts with
  | nil => simp [weightTypes]
  | cons t ts ih => simp [weightTypes]; omega

/-- `", " + escape(f) + ": " + str(t)` for every further field -/
def fieldTail : List (Str × HType) → Str
  | [] => []
  | (n, t) :: r => cp% ", " ++ escapeParsable n ++ cp% ": " ++ str cc t ++ fieldTail r

def typeTail : List HType → Str
  | [] => []
  | t :: r => cp% ", " ++ str cc t ++ typeTail r

theorem strFields_cons (n : Str) (t : HType) (r : List (Str × HType)) :
    strFields cc ((n, t) :: r) = escapeParsable n ++ cp% ": " ++ str cc t ++ fieldTail cc r := by
  induction r generalizing n t with
  | nil => simp [strFields, fieldTail]
  | cons p r ih => obtain ⟨m, u⟩ := p; simp [strFields, fieldTail, ih]

theorem strTypes_cons (t : HType) (r : List HType) : strTypes cc (t :: r) = str cc t ++ typeTail cc r := by
  induction r generalizing t with
  | nil => simp [strTypes, typeTail]
  | cons u r ih => simp [strTypes, typeTail, ih]

theorem follow_skipWs (rest : Str) (h : Follow rest) : skipWs cc rest = rest := by
  rcases h with rfl | ⟨p, r, rfl, hp⟩
  · rfl
  · apply skipWs_of_nonspace
    rcases hp with h | h | h | h <;> subst h <;> (rw [isSpace_ascii cc _ (by decide)]; decide)

theorem pType_space (f : Nat) (s : Str) : pType cc f (32 :: s) = pType cc f s := by
  cases f with
  | zero => rfl
  | succ f =>
    have h32 : cc.isSpace 32 = true := by rw [isSpace_ascii cc _ (by decide)]; decide
    simp [pType, skipWs, h32]

theorem pIdentifier_space (s : Str) : pIdentifier cc (32 :: s) = pIdentifier cc s := by
  have h32 : cc.isSpace 32 = true := by rw [isSpace_ascii cc _ (by decide)]; decide
  simp [pIdentifier, skipWs, h32]

set_option linter.unusedSimpArgs false

/-- evaluate the ordered choice on a text that starts with literal characters -/
macro "peg_simp" : tactic =>
  `(tactic| simp [pAlternatives, firstOf, pUnary, pKeyword, pLit2, pLit, pDict, pLocus, pNDArray, pStruct, pTuple, pAngle1,
      skipWs, Classes.isSpace, asciiSpace])

theorem pType_succ (f : Nat) (s : Str) :
    pType cc (f + 1) s = match pAlternatives cc (pType cc f) f (skipWs cc s) with
      | some (t, r) => some (t, skipWs cc r)
      | none => none := rfl

theorem follow_gt (rest : Str) : Follow (62 :: rest) := Or.inr ⟨62, rest, rfl, Or.inl rfl⟩
theorem follow_comma (rest : Str) : Follow (44 :: rest) := Or.inr ⟨44, rest, rfl, Or.inr (Or.inl rfl)⟩
theorem follow_paren (rest : Str) : Follow (41 :: rest) := Or.inr ⟨41, rest, rfl, Or.inr (Or.inr (Or.inl rfl))⟩
theorem follow_brace (rest : Str) : Follow (125 :: rest) := Or.inr ⟨125, rest, rfl, Or.inr (Or.inr (Or.inr rfl))⟩

theorem pType_prim (t : HType) (kw : Str) (f : Nat) (rest : Str) (hr : Follow rest)
    (halt : ∀ rec k, pAlternatives cc rec k (kw ++ rest) = some (t, rest))
    (hws : skipWs cc (kw ++ rest) = kw ++ rest) :
    pType cc (f + 1) (kw ++ rest) = some (t, rest) := by
  rw [pType_succ, hws, halt]
  simp [follow_skipWs cc rest hr]

mutual
theorem pType_str : (t : HType) → WF t → ∀ f, weight t ≤ f → ∀ rest, Follow rest →
    pType cc f (str cc t ++ rest) = some (t, rest)
  | .void, _, f, hf, rest, hr => by
    cases f with
    | zero => simp [weight] at hf
    | succ f => exact pType_prim cc _ (cp% "void") f rest hr (fun _ _ => by peg_simp) (by peg_simp)
  | .int32, _, f, hf, rest, hr => by
    cases f with
    | zero => simp [weight] at hf
    | succ f => exact pType_prim cc _ (cp% "int32") f rest hr (fun _ _ => by peg_simp) (by peg_simp)
  | .int64, _, f, hf, rest, hr => by
    cases f with
    | zero => simp [weight] at hf
    | succ f => exact pType_prim cc _ (cp% "int64") f rest hr (fun _ _ => by peg_simp) (by peg_simp)
  | .float32, _, f, hf, rest, hr => by
    cases f with
    | zero => simp [weight] at hf
    | succ f => exact pType_prim cc _ (cp% "float32") f rest hr (fun _ _ => by peg_simp) (by peg_simp)
  | .float64, _, f, hf, rest, hr => by
    cases f with
    | zero => simp [weight] at hf
    | succ f => exact pType_prim cc _ (cp% "float64") f rest hr (fun _ _ => by peg_simp) (by peg_simp)
  | .bool, _, f, hf, rest, hr => by
    cases f with
    | zero => simp [weight] at hf
    | succ f => exact pType_prim cc _ (cp% "bool") f rest hr (fun _ _ => by peg_simp) (by peg_simp)
  | .call, _, f, hf, rest, hr => by
    cases f with
    | zero => simp [weight] at hf
    | succ f => exact pType_prim cc _ (cp% "call") f rest hr (fun _ _ => by peg_simp) (by peg_simp)
  | .rngState, _, f, hf, rest, hr => by
    cases f with
    | zero => simp [weight] at hf
    | succ f => exact pType_prim cc _ (cp% "rng_state") f rest hr (fun _ _ => by peg_simp) (by peg_simp)
  | .str, _, f, hf, rest, hr => by
    cases f with
    | zero => simp [weight] at hf
    | succ f =>
      refine pType_prim cc _ (cp% "str") f rest hr (fun _ _ => ?_) (by peg_simp)
      rcases hr with rfl | ⟨p, r, rfl, hp⟩
      · peg_simp
      · rcases hp with h | h | h | h <;> subst h <;> peg_simp
  | .array t, hwf, f, hf, rest, hr => by
    cases f with
    | zero => simp [weight] at hf
    | succ f =>
      have ih := pType_str t (by simpa [WF] using hwf) f (by simp [weight] at hf; omega) (62 :: rest) (follow_gt rest)
      rw [pType_succ]
      simp only [str, List.append_assoc, List.cons_append, List.nil_append]
      peg_simp
      simp [ih, pLit, follow_skipWs cc rest hr]
  | .set t, hwf, f, hf, rest, hr => by
    cases f with
    | zero => simp [weight] at hf
    | succ f =>
      have ih := pType_str t (by simpa [WF] using hwf) f (by simp [weight] at hf; omega) (62 :: rest) (follow_gt rest)
      rw [pType_succ]
      simp only [str, List.append_assoc, List.cons_append, List.nil_append]
      peg_simp
      simp [ih, pLit, follow_skipWs cc rest hr]
  | .stream t, hwf, f, hf, rest, hr => by
    cases f with
    | zero => simp [weight] at hf
    | succ f =>
      have ih := pType_str t (by simpa [WF] using hwf) f (by simp [weight] at hf; omega) (62 :: rest) (follow_gt rest)
      rw [pType_succ]
      simp only [str, List.append_assoc, List.cons_append, List.nil_append]
      peg_simp
      simp [ih, pLit, follow_skipWs cc rest hr]
  | .interval t, hwf, f, hf, rest, hr => by
    cases f with
    | zero => simp [weight] at hf
    | succ f =>
      have ih := pType_str t (by simpa [WF] using hwf) f (by simp [weight] at hf; omega) (62 :: rest) (follow_gt rest)
      rw [pType_succ]
      simp only [str, List.append_assoc, List.cons_append, List.nil_append]
      peg_simp
      simp [ih, pLit, follow_skipWs cc rest hr]
  | .dict k v, hwf, f, hf, rest, hr => by
    cases f with
    | zero => simp [weight] at hf
    | succ f =>
      have hwf' : WF k ∧ WF v := by simpa [WF] using hwf
      have ihv := pType_str v hwf'.2 f (by simp [weight] at hf; omega) (62 :: rest) (follow_gt rest)
      have ihk := pType_str k hwf'.1 f (by simp [weight] at hf; omega) (44 :: 32 :: (str cc v ++ 62 :: rest)) (follow_comma _)
      rw [pType_succ]
      simp only [str, List.append_assoc, List.cons_append, List.nil_append]
      peg_simp
      simp [ihk, pLit, pType_space, ihv, follow_skipWs cc rest hr]
  | .ndarray t n, hwf, f, hf, rest, hr => by
    cases f with
    | zero => simp [weight] at hf
    | succ f =>
      have ih := pType_str t (by simpa [WF] using hwf) f (by simp [weight] at hf; omega)
        (44 :: 32 :: (natDigits n ++ 62 :: rest)) (follow_comma _)
      have hnat := pNat_natDigits cc n 62 rest (Or.inr (Or.inl rfl))
      rw [pType_succ]
      simp only [str, List.append_assoc, List.cons_append, List.nil_append]
      peg_simp
      simp [ih, pLit, hnat, follow_skipWs cc rest hr]
  | .locus rg, hwf, f, hf, rest, hr => by
    cases f with
    | zero => simp [weight] at hf
    | succ f =>
      have hv : ValidStr rg := by simpa [WF] using hwf
      have hid := pIdentifier_escape cc rg hv 62 rest (Or.inr (Or.inl rfl))
      rw [pType_succ]
      simp only [str, List.append_assoc, List.cons_append, List.nil_append]
      peg_simp
      simp [hid, pLit, follow_skipWs cc rest hr]
  | .struct [], hwf, f, hf, rest, hr => by
    cases f with
    | zero => simp [weight] at hf
    | succ f =>
      rw [pType_succ]
      simp only [str, strFields, List.append_assoc, List.cons_append, List.nil_append]
      peg_simp
      simp [pField, pIdentifier, pSimpleIdentifier, pEscapedIdentifier, spanWord, skipWs, Classes.isSpace, Classes.isWord,
        asciiSpace, asciiWord, asciiLetter, asciiDigit, pLit, follow_skipWs cc rest hr]
  | .struct ((n, t) :: more), hwf, f, hf, rest, hr => by
    cases f with
    | zero => simp [weight] at hf
    | succ f =>
      have hwf' : ((n :: more.map Prod.fst).Nodup) ∧ ValidStr n ∧ WF t ∧ WFFields more := by simpa [WF, WFFields] using hwf
      have hw : weight t + weightFields more + 1 ≤ f := by simp [weight, weightFields] at hf; omega
      have hlen := length_le_weightFields more
      have hloop := pFields_loop more hwf'.2.2.2 f (by omega) f (by omega) rest
      have hf1 : Follow (fieldTail cc more ++ 125 :: rest) := by
        cases more with
        | nil => exact follow_brace rest
        | cons p r => obtain ⟨m, u⟩ := p; simp only [fieldTail, List.cons_append, List.append_assoc]; exact follow_comma _
      have iht := pType_str t hwf'.2.2.1 f (by omega) (fieldTail cc more ++ 125 :: rest) hf1
      have hid := pIdentifier_escape cc n hwf'.2.1 58 (32 :: (str cc t ++ (fieldTail cc more ++ 125 :: rest)))
        (Or.inl rfl)
      rw [pType_succ]
      simp only [str, strFields_cons, List.append_assoc, List.cons_append, List.nil_append]
      peg_simp
      have hdict : dictOf ((n, t) :: more) = (n, t) :: more := dictOf_nodup _ (by simpa using hwf'.1)
      simp [pField, hid, pLit, pType_space, iht, hloop, hdict, follow_skipWs cc rest hr]
  | .tuple [], hwf, f, hf, rest, hr => by
    cases f with
    | zero => simp [weight] at hf
    | succ f =>
      have hnone : pType cc f (41 :: rest) = none := by
        cases f with
        | zero => rfl
        | succ f => rw [pType_succ]; peg_simp
      rw [pType_succ]
      simp only [str, strTypes, List.append_assoc, List.cons_append, List.nil_append]
      peg_simp
      simp [hnone, pLit, follow_skipWs cc rest hr]
  | .tuple (t :: more), hwf, f, hf, rest, hr => by
    cases f with
    | zero => simp [weight] at hf
    | succ f =>
      have hwf' : WF t ∧ WFTypes more := by simpa [WF, WFTypes] using hwf
      have hw : weight t + weightTypes more + 1 ≤ f := by simp [weight, weightTypes] at hf; omega
      have hlen := length_le_weightTypes more
      have hloop := pTypes_loop more hwf'.2 f (by omega) f (by omega) rest
      have hf1 : Follow (typeTail cc more ++ 41 :: rest) := by
        cases more with
        | nil => exact follow_paren rest
        | cons u r => simp only [typeTail, List.cons_append, List.append_assoc]; exact follow_comma _
      have iht := pType_str t hwf'.1 f (by omega) (typeTail cc more ++ 41 :: rest) hf1
      rw [pType_succ]
      simp only [str, strTypes_cons, List.append_assoc, List.cons_append, List.nil_append]
      peg_simp
      simp [iht, hloop, pLit, follow_skipWs cc rest hr]
theorem pFields_loop : (fs : List (Str × HType)) → WFFields fs → ∀ f, weightFields fs ≤ f → ∀ k, fs.length ≤ k →
    ∀ rest, pFieldsLoop cc (pType cc f) k (fieldTail cc fs ++ 125 :: rest) = (fs, 125 :: rest)
  | [], _, f, _, k, _, rest => by
    cases k <;> simp [fieldTail, pFieldsLoop, pLit]
  | (n, t) :: more, hwf, f, hf, k, hk, rest => by
    cases k with
    | zero => simp at hk
    | succ k =>
      have hwf' : ValidStr n ∧ WF t ∧ WFFields more := by simpa [WFFields] using hwf
      have hw : weight t + weightFields more + 1 ≤ f := by simpa [weightFields] using hf
      have hloop := pFields_loop more hwf'.2.2 f (by omega) k (by simp at hk; omega) rest
      have hf1 : Follow (fieldTail cc more ++ 125 :: rest) := by
        cases more with
        | nil => exact follow_brace rest
        | cons p r => obtain ⟨m, u⟩ := p; simp only [fieldTail, List.cons_append, List.append_assoc]; exact follow_comma _
      have iht := pType_str t hwf'.2.1 f (by omega) (fieldTail cc more ++ 125 :: rest) hf1
      have hid := pIdentifier_escape cc n hwf'.1 58 (32 :: (str cc t ++ (fieldTail cc more ++ 125 :: rest)))
        (Or.inl rfl)
      simp only [fieldTail, List.append_assoc, List.cons_append, List.nil_append]
      simp [pFieldsLoop, pLit, pField, pIdentifier_space, hid, pType_space, iht, hloop]
theorem pTypes_loop : (ts : List HType) → WFTypes ts → ∀ f, weightTypes ts ≤ f → ∀ k, ts.length ≤ k →
    ∀ rest, pTypesLoop (pType cc f) k (typeTail cc ts ++ 41 :: rest) = (ts, 41 :: rest)
  | [], _, f, _, k, _, rest => by
    cases k <;> simp [typeTail, pTypesLoop, pLit]
  | t :: more, hwf, f, hf, k, hk, rest => by
    cases k with
    | zero => simp at hk
    | succ k =>
      have hwf' : WF t ∧ WFTypes more := by simpa [WFTypes] using hwf
      have hw : weight t + weightTypes more + 1 ≤ f := by simpa [weightTypes] using hf
      have hloop := pTypes_loop more hwf'.2 f (by omega) k (by simp at hk; omega) rest
      have hf1 : Follow (typeTail cc more ++ 41 :: rest) := by
        cases more with
        | nil => exact follow_paren rest
        | cons u r => simp only [typeTail, List.cons_append, List.append_assoc]; exact follow_comma _
      have iht := pType_str t hwf'.1 f (by omega) (typeTail cc more ++ 41 :: rest) hf1
      simp only [typeTail, List.append_assoc, List.cons_append, List.nil_append]
      simp [pTypesLoop, pLit, pType_space, iht, hloop]
end

mutual
theorem weight_le_length : (t : HType) → weight t ≤ (str cc t).length
  | .void | .int32 | .int64 | .float32 | .float64 | .bool | .call | .str | .rngState | .locus _ => by
    simp [weight, str]
  | .array t | .set t | .stream t | .interval t => by
    have := weight_le_length t; simp [weight, str]; omega
  | .ndarray t n => by have := weight_le_length t; simp [weight, str]; omega
  | .dict k v => by
    have := weight_le_length k; have := weight_le_length v; simp [weight, str]; omega
  | .struct [] => by simp [weight, weightFields, str]
  | .struct ((n, t) :: more) => by
    have := weight_le_length t; have := weightFields_le more
    simp [weight, weightFields, str, strFields_cons]; omega
  | .tuple [] => by simp [weight, weightTypes, str]
  | .tuple (t :: more) => by
    have := weight_le_length t; have := weightTypes_le more
    simp [weight, weightTypes, str, strTypes_cons]; omega
theorem weightFields_le : (fs : List (Str × HType)) → weightFields fs ≤ (fieldTail cc fs).length
  | [] => by simp [weightFields]
  | (n, t) :: more => by
    have := weight_le_length t; have := weightFields_le more
    simp [weightFields, fieldTail]; omega
theorem weightTypes_le : (ts : List HType) → weightTypes ts ≤ (typeTail cc ts).length
  | [] => by simp [weightTypes]
  | t :: more => by
    have := weight_le_length t; have := weightTypes_le more
    simp [weightTypes, typeTail]; omega
end

/-- `dtype(str(t)) == t` on the model -/
theorem dtype_str (t : HType) (h : WF t) : dtype cc (str cc t) = some t := by
  have := pType_str cc t h ((str cc t).length + 1) (by have := weight_le_length cc t; omega) [] (Or.inl rfl)
  simp only [List.append_nil] at this
  simp [dtype, this]

end HailVerif.TypeStr

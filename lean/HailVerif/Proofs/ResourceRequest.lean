import HailVerif.Model.ResourceRequest
import Mathlib.Tactic.Linarith
/-! Helper lemmas for C12: arithmetic of the request conversion, the doubling search, the selection loops. -/
namespace HailVerif.Resources
open HailVerif.Generated.Machines

/-! ### ceiling division -/

theorem le_ceilDiv_mul {a b : Nat} (hb : 0 < b) : a ≤ ceilDiv a b * b := by
  unfold ceilDiv
  have h1 := Nat.div_add_mod (a + b - 1) b
  have h2 := Nat.mod_lt (a + b - 1) hb
  have h3 : (a + b - 1) / b * b = b * ((a + b - 1) / b) := Nat.mul_comm _ _
  omega

theorem ceilDiv_le_of_le_mul {a b c : Nat} (hb : 0 < b) (h : a ≤ c * b) : ceilDiv a b ≤ c := by
  unfold ceilDiv
  have : a + b - 1 < (c + 1) * b := by
    have : (c + 1) * b = c * b + b := by rw [Nat.add_mul, Nat.one_mul]
    omega
  have := (Nat.div_lt_iff_lt_mul hb).mpr this
  omega

/-! ### `adjust_cores_for_packability` -/

theorem packGo_spec : ∀ (fuel p c k : Nat), p = 250 * 2 ^ k → (k = 0 ∨ 250 * 2 ^ (k - 1) < c) → c ≤ p * 2 ^ fuel →
    ∃ j, packGo fuel p c = 250 * 2 ^ j ∧ c ≤ 250 * 2 ^ j ∧ (j = 0 ∨ 250 * 2 ^ (j - 1) < c) := by
  intro fuel
  induction fuel with
  | zero =>
    intro p c k hp hk hc
    refine ⟨k, ?_, ?_, hk⟩
    · simp [packGo, hp]
    · simpa [hp] using hc
  | succ n ih =>
    intro p c k hp hk hc
    unfold packGo
    split
    next hle => exact ⟨k, hp, by omega, hk⟩
    next hgt =>
      refine ih (2 * p) c (k + 1) ?_ ?_ ?_
      · rw [hp, Nat.pow_succ]; omega
      · right; simp only [Nat.add_sub_cancel]; omega
      · rw [Nat.pow_succ] at hc
        have : 2 * p * 2 ^ n = p * (2 ^ n * 2) := by
          rw [Nat.mul_comm 2 p, Nat.mul_assoc, Nat.mul_comm 2 (2 ^ n)]
        omega

theorem packable_exists (c : Nat) :
    ∃ j, packable c = 250 * 2 ^ j ∧ c ≤ 250 * 2 ^ j ∧ (j = 0 ∨ 250 * 2 ^ (j - 1) < c) := by
  unfold packable
  refine packGo_spec c 250 c 0 (by simp) (Or.inl rfl) ?_
  have := Nat.lt_two_pow_self (n := c)
  have : 2 ^ c ≤ 250 * 2 ^ c := Nat.le_mul_of_pos_left _ (by omega)
  omega

theorem packable_min {c i j : Nat} (hj : j = 0 ∨ 250 * 2 ^ (j - 1) < c) (hi : c ≤ 250 * 2 ^ i) :
    250 * 2 ^ j ≤ 250 * 2 ^ i := by
  apply Nat.mul_le_mul_left
  apply Nat.pow_le_pow_right (by omega)
  rcases hj with rfl | hj
  · omega
  · have h : 2 ^ (j - 1) < 2 ^ i := by omega
    have := (Nat.pow_lt_pow_iff_right (a := 2) (by omega)).mp h
    omega

/-! ### tables -/

theorem lookup_mem {α β : Type} [BEq α] [LawfulBEq α] {l : List (α × β)} {k : α} {v : β}
    (h : l.lookup k = some v) : (k, v) ∈ l := by
  induction l with
  | nil => simp [List.lookup] at h
  | cons x xs ih =>
    obtain ⟨a, b⟩ := x
    simp only [List.lookup] at h
    split at h
    next heq =>
      have : k = a := by simpa using heq
      simp at h; subst h; subst this; simp
    next => exact List.mem_cons_of_mem _ (ih h)

theorem gcp_perCore_pos : ∀ e ∈ gcpMemoryPerCoreMiB, 0 < e.2 := by decide
theorem azure_perCore_pos : ∀ e ∈ azureMemoryPerCoreMiB, 0 < e.2 := by decide

theorem memPerCore_pos {cloud : Cloud} {wt : String} {pc : Nat} (h : memPerCoreBytes cloud wt = some pc) : 0 < pc := by
  cases cloud
  · simp only [memPerCoreBytes, Option.map_eq_some_iff] at h
    obtain ⟨v, hv, rfl⟩ := h
    have := gcp_perCore_pos _ (lookup_mem hv)
    simp at this ⊢; omega
  · simp only [memPerCoreBytes, Option.map_eq_some_iff] at h
    obtain ⟨v, hv, rfl⟩ := h
    have := azure_perCore_pos _ (lookup_mem hv)
    simp at this ⊢; omega

def maxStorageGiB : Cloud → Nat
  | .gcp => gcpMaxPersistentSsdGiB
  | .azure => azureMaxPersistentSsdGiB

theorem minStorage_le_max (cloud : Cloud) : minStorageBytes cloud ≤ maxStorageGiB cloud * 1024 ^ 3 := by
  cases cloud <;> decide +kernel

theorem maxStorageBytes_eq (cloud : Cloud) : maxStorageBytes cloud = maxStorageGiB cloud * 1024 ^ 3 := by
  cases cloud <;> rfl

/-! ### storage -/

theorem storageGiB_spec {cloud : Cloud} {bytes sg : Nat} {az : Bool} (h : storageGiB cloud bytes az = some sg) :
    bytes ≤ maxStorageBytes cloud ∧ bytes ≤ sg * 1024 ^ 3 ∧ sg ≤ maxStorageGiB cloud ∧
      (az = false → minStorageBytes cloud ≤ sg * 1024 ^ 3) := by
  unfold storageGiB at h
  split at h
  · simp at h
  next hle =>
    split at h
    next hz =>
      simp only [Bool.and_eq_true, beq_iff_eq] at hz
      simp only [Option.some.injEq] at h
      subst h
      refine ⟨by omega, by omega, by omega, ?_⟩
      intro haz; rw [haz] at hz; simp at hz
    next hnz =>
      simp only [Option.some.injEq] at h
      subst h
      have hpos : 0 < 1024 ^ 3 := by decide +kernel
      have h1 := le_ceilDiv_mul (a := max (minStorageBytes cloud) bytes) hpos
      have h2 : ceilDiv (max (minStorageBytes cloud) bytes) (1024 ^ 3) ≤ maxStorageGiB cloud := by
        apply ceilDiv_le_of_le_mul hpos
        have := minStorage_le_max cloud
        have := maxStorageBytes_eq cloud
        generalize (1024 : Nat) ^ 3 = G at *
        omega
      generalize (1024 : Nat) ^ 3 = G at *
      refine ⟨by omega, by omega, h2, fun _ => by omega⟩

theorem storageGiB_none {cloud : Cloud} {bytes : Nat} {az : Bool} :
    storageGiB cloud bytes az = none ↔ bytes > maxStorageBytes cloud := by
  unfold storageGiB
  split
  · simp [*]
  · split <;> simp [*]

/-! ### `PoolConfig.convert_requests_to_resources` -/

/-- the worker type of the pool is one its cloud knows -/
def Pool.WellFormed (p : Pool) : Prop := (memPerCoreBytes p.cloud p.workerType).isSome

/-- some packable core count on a worker of this pool covers the request -/
def CanHold (p : Pool) (cores mem storage : Nat) : Prop :=
  storage ≤ maxStorageBytes p.cloud ∧
  ∃ pc, memPerCoreBytes p.cloud p.workerType = some pc ∧
    ∃ k, cores ≤ 250 * 2 ^ k ∧ mem ≤ 250 * 2 ^ k * pc / 1000 ∧ 250 * 2 ^ k ≤ p.workerCores * 1000

theorem convert_some {p : Pool} {cores mem storage c m sg : Nat} (h : p.convert cores mem storage = .some (c, m, sg)) :
    ∃ pc, memPerCoreBytes p.cloud p.workerType = some pc ∧ storageGiB p.cloud storage true = some sg ∧
      c = packable (adjustForMemory cores mem pc) ∧ m = coresToMemory c pc ∧ c ≤ p.workerCores * 1000 := by
  unfold Pool.convert at h
  split at h
  · simp at h
  next sg' hs =>
    split at h
    · simp at h
    next pc hpc =>
      dsimp only at h
      split at h
      next hle =>
        simp only [Res.some.injEq, Prod.mk.injEq] at h
        obtain ⟨rfl, rfl, rfl⟩ := h
        exact ⟨pc, hpc, hs, rfl, rfl, hle⟩
      · simp at h

theorem adjust_covers {cores mem pc c : Nat} (hpc : 0 < pc) (hc : adjustForMemory cores mem pc ≤ c) :
    cores ≤ c ∧ mem ≤ coresToMemory c pc := by
  unfold adjustForMemory at hc
  have h1 : cores ≤ c := by omega
  have h2 : ceilDiv (mem * 1000) pc ≤ c := by omega
  refine ⟨h1, ?_⟩
  unfold coresToMemory
  rw [Nat.le_div_iff_mul_le (by omega)]
  have := le_ceilDiv_mul (a := mem * 1000) hpc
  have : ceilDiv (mem * 1000) pc * pc ≤ c * pc := Nat.mul_le_mul_right _ h2
  omega

theorem convert_granted {p : Pool} {cores mem storage c m sg : Nat} (h : p.convert cores mem storage = .some (c, m, sg)) :
    cores ≤ c ∧ mem ≤ m ∧ storage ≤ sg * 1024 ^ 3 ∧ c ≤ p.workerCores * 1000 ∧ sg ≤ maxStorageGiB p.cloud ∧
    (∃ k, c = 250 * 2 ^ k) ∧
    ∃ pc, memPerCoreBytes p.cloud p.workerType = some pc ∧ m = c * pc / 1000 ∧ m ≤ p.workerCores * pc := by
  obtain ⟨pc, hpc, hs, hc, hm, hfit⟩ := convert_some h
  have hpos := memPerCore_pos hpc
  obtain ⟨j, hj, hle, -⟩ := packable_exists (adjustForMemory cores mem pc)
  rw [← hc] at hj
  rw [← hj] at hle
  obtain ⟨h1, h2⟩ := adjust_covers hpos hle
  obtain ⟨-, hs2, hs3, -⟩ := storageGiB_spec hs
  refine ⟨h1, by rw [hm]; exact h2, hs2, hfit, hs3, ⟨j, hj⟩, pc, hpc, hm, ?_⟩
  rw [hm]; unfold coresToMemory
  calc c * pc / 1000 ≤ p.workerCores * 1000 * pc / 1000 := Nat.div_le_div_right (Nat.mul_le_mul_right _ hfit)
    _ = p.workerCores * pc := by
      rw [Nat.mul_assoc, Nat.mul_comm 1000 pc, ← Nat.mul_assoc]; exact Nat.mul_div_cancel _ (by omega)

theorem convert_ne_err {p : Pool} (hw : p.WellFormed) (cores mem storage : Nat) : p.convert cores mem storage ≠ .err := by
  unfold Pool.convert
  unfold Pool.WellFormed at hw
  split
  · simp
  · split
    next h => rw [h] at hw; simp at hw
    next => dsimp only; split <;> simp

theorem convert_none_iff {p : Pool} (hw : p.WellFormed) (cores mem storage : Nat) :
    p.convert cores mem storage = .none ↔ ¬ CanHold p cores mem storage := by
  constructor
  · intro h ⟨hst, pc, hpc, k, hk1, hk2, hk3⟩
    unfold Pool.convert at h
    split at h
    next hs => rw [storageGiB_none] at hs; omega
    next sg hs =>
      rw [hpc] at h
      dsimp only at h
      split at h
      · simp at h
      next hgt =>
        apply hgt
        have hpos := memPerCore_pos hpc
        obtain ⟨j, hj, -, hmin⟩ := packable_exists (adjustForMemory cores mem pc)
        have hadj : adjustForMemory cores mem pc ≤ 250 * 2 ^ k := by
          unfold adjustForMemory
          have : ceilDiv (mem * 1000) pc ≤ 250 * 2 ^ k := by
            apply ceilDiv_le_of_le_mul hpos
            have := (Nat.le_div_iff_mul_le (by omega : 0 < 1000)).mp hk2
            omega
          omega
        have := packable_min hmin hadj
        omega
  · intro h
    cases hc : p.convert cores mem storage with
    | err => exact absurd hc (convert_ne_err hw _ _ _)
    | none => rfl
    | some r =>
      exfalso; apply h
      obtain ⟨c, m, sg⟩ := r
      obtain ⟨h1, h2, -, h4, -, ⟨k, hk⟩, pc, hpc, hm, -⟩ := convert_granted hc
      obtain ⟨pc', hpc', hs, -⟩ := convert_some hc
      obtain ⟨hs1, -⟩ := storageGiB_spec hs
      exact ⟨hs1, pc, hpc, k, by omega, by rw [← hk, ← hm]; exact h2, by omega⟩

/-! ### the two pool selections -/

def Pool.Matches (p : Pool) (cloud : Cloud) (label : String) (preemptible : Bool) : Prop :=
  p.cloud = cloud ∧ p.preemptible = preemptible ∧ p.label = label

theorem matchesReq_iff {p : Pool} {cloud : Cloud} {label : String} {pre : Bool} :
    p.matchesReq cloud label pre = true ↔ p.Matches cloud label pre := by
  simp [Pool.matchesReq, Pool.Matches, and_assoc]

/-- `g` is what pool `p` grants for the request -/
def GrantedBy (p : Pool) (cores mem storage : Nat) (g : Granted) : Prop :=
  p.convert cores mem storage = .some (g.coresMcpu, g.memBytes, g.storageGiB) ∧ g.coll = p.name

theorem byWorkerType_some {cloud : Cloud} {label wt : String} {pre : Bool} {cores mem storage : Nat} {g : Granted} :
    ∀ {pools : List Pool}, selectByWorkerType cloud label wt pre cores mem storage pools = .some g →
      ∃ p ∈ pools, p.Matches cloud label pre ∧ p.workerType = wt ∧ GrantedBy p cores mem storage g := by
  intro pools
  induction pools with
  | nil => intro h; simp [selectByWorkerType] at h
  | cons p ps ih =>
    intro h
    unfold selectByWorkerType at h
    split at h
    next hm =>
      simp only [Bool.and_eq_true, beq_iff_eq] at hm
      split at h
      · simp at h
      next r hr =>
        simp only [Res.some.injEq] at h
        subst h
        exact ⟨p, by simp, matchesReq_iff.mp hm.1, hm.2, by simpa using hr, rfl⟩
      next =>
        obtain ⟨q, hq, hrest⟩ := ih h
        exact ⟨q, List.mem_cons_of_mem _ hq, hrest⟩
    next =>
      obtain ⟨q, hq, hrest⟩ := ih h
      exact ⟨q, List.mem_cons_of_mem _ hq, hrest⟩

theorem byWorkerType_none {cloud : Cloud} {label wt : String} {pre : Bool} {cores mem storage : Nat} :
    ∀ {pools : List Pool}, (∀ p ∈ pools, p.WellFormed) →
      (selectByWorkerType cloud label wt pre cores mem storage pools = .none ↔
        ∀ p ∈ pools, p.Matches cloud label pre → p.workerType = wt → p.convert cores mem storage = .none) := by
  intro pools
  induction pools with
  | nil => intro _; simp [selectByWorkerType]
  | cons p ps ih =>
    intro hw
    have ihp := ih (fun q hq => hw q (List.mem_cons_of_mem _ hq))
    unfold selectByWorkerType
    split
    next hm =>
      simp only [Bool.and_eq_true, beq_iff_eq] at hm
      have hmm := matchesReq_iff.mp hm.1
      split
      next he => exact absurd he (convert_ne_err (hw p (by simp)) _ _ _)
      next r hr =>
        constructor
        · intro h; simp at h
        · intro h; have := h p (by simp) hmm hm.2; rw [hr] at this; simp at this
      next hn =>
        rw [ihp]
        constructor
        · intro h q hq
          rcases List.mem_cons.mp hq with rfl | hq
          · intro _ _; exact hn
          · exact h q hq
        · intro h q hq; exact h q (List.mem_cons_of_mem _ hq)
    next hnm =>
      rw [ihp]
      constructor
      · intro h q hq
        rcases List.mem_cons.mp hq with rfl | hq
        · intro h1 h2; exfalso; apply hnm
          simp only [Bool.and_eq_true, beq_iff_eq]; exact ⟨matchesReq_iff.mpr h1, h2⟩
        · exact h q hq
      · intro h q hq; exact h q (List.mem_cons_of_mem _ hq)

theorem byWorkerType_ne_err {cloud : Cloud} {label wt : String} {pre : Bool} {cores mem storage : Nat} :
    ∀ {pools : List Pool}, (∀ p ∈ pools, p.WellFormed) →
      selectByWorkerType cloud label wt pre cores mem storage pools ≠ .err := by
  intro pools
  induction pools with
  | nil => intro _; simp [selectByWorkerType]
  | cons p ps ih =>
    intro hw
    have ihp := ih (fun q hq => hw q (List.mem_cons_of_mem _ hq))
    unfold selectByWorkerType
    split
    · split
      next he => exact absurd he (convert_ne_err (hw p (by simp)) _ _ _)
      · simp
      · exact ihp
    · exact ihp

section cheapest
variable {price : Pool → String → Nat × Nat × Nat → Nat} {locs : List String} {cloud : Cloud} {label : String} {pre : Bool}
  {cores mem storage : Nat}

theorem cheapestGo_some {g : Granted} :
    ∀ {pools : List Pool} {op : Option Nat} {or : Option Granted},
      cheapestGo price locs cloud label pre cores mem storage pools op or = .some g →
      or = some g ∨ ∃ p ∈ pools, p.Matches cloud label pre ∧ GrantedBy p cores mem storage g := by
  intro pools
  induction pools with
  | nil =>
    intro op or h
    cases or with
    | none => simp [cheapestGo] at h
    | some g' => simp [cheapestGo] at h; left; rw [h]
  | cons p ps ih =>
    intro op or h
    unfold cheapestGo at h
    have lift : ∀ {op' or'}, cheapestGo price locs cloud label pre cores mem storage ps op' or' = .some g →
        (or' = or ∨ ∃ r, p.convert cores mem storage = .some r ∧ p.Matches cloud label pre ∧
          or' = some ⟨p.name, r.1, r.2.1, r.2.2⟩) →
        or = some g ∨ ∃ q ∈ p :: ps, q.Matches cloud label pre ∧ GrantedBy q cores mem storage g := by
      intro op' or' h' hor
      rcases ih h' with h1 | ⟨q, hq, hrest⟩
      · rcases hor with rfl | ⟨r, hr, hm, rfl⟩
        · left; exact h1
        · right
          simp only [Option.some.injEq] at h1
          subst h1
          exact ⟨p, by simp, hm, by simpa [GrantedBy] using hr, rfl⟩
      · right; exact ⟨q, List.mem_cons_of_mem _ hq, hrest⟩
    split at h
    next hm =>
      split at h
      · simp at h
      · exact lift h (Or.inl rfl)
      next r hr =>
        dsimp only at h
        split at h
        · exact lift h (Or.inr ⟨r, hr, matchesReq_iff.mp hm, rfl⟩)
        · exact lift h (Or.inl rfl)
    · exact lift h (Or.inl rfl)

theorem cheapestGo_none :
    ∀ {pools : List Pool} {op : Option Nat} {or : Option Granted}, (∀ p ∈ pools, p.WellFormed) → (or = none → op = none) →
      (cheapestGo price locs cloud label pre cores mem storage pools op or = .none ↔
        or = none ∧ ∀ p ∈ pools, p.Matches cloud label pre → p.convert cores mem storage = .none) := by
  intro pools
  induction pools with
  | nil =>
    intro op or _ _
    cases or <;> simp [cheapestGo]
  | cons p ps ih =>
    intro op or hw hinv
    have hwp : ∀ q ∈ ps, q.WellFormed := fun q hq => hw q (List.mem_cons_of_mem _ hq)
    unfold cheapestGo
    split
    next hm =>
      have hmm := matchesReq_iff.mp hm
      split
      next he => exact absurd he (convert_ne_err (hw p (by simp)) _ _ _)
      next hn =>
        rw [ih hwp hinv]
        constructor
        · rintro ⟨h1, h2⟩
          refine ⟨h1, fun q hq => ?_⟩
          rcases List.mem_cons.mp hq with rfl | hq
          · intro _; exact hn
          · exact h2 q hq
        · rintro ⟨h1, h2⟩; exact ⟨h1, fun q hq => h2 q (List.mem_cons_of_mem _ hq)⟩
      next r hr =>
        dsimp only
        split
        next hb =>
          rw [ih hwp (by simp)]
          constructor
          · rintro ⟨h1, -⟩; simp at h1
          · rintro ⟨-, h2⟩; have := h2 p (by simp) hmm; rw [hr] at this; simp at this
        next hb =>
          -- not better: then a result is already held
          have hor : or ≠ none := by
            intro hno
            rw [hinv hno] at hb
            simp [isBetter] at hb
          rw [ih hwp hinv]
          constructor
          · rintro ⟨h1, -⟩; exact absurd h1 hor
          · rintro ⟨h1, -⟩; exact absurd h1 hor
    next hnm =>
      rw [ih hwp hinv]
      constructor
      · rintro ⟨h1, h2⟩
        refine ⟨h1, fun q hq => ?_⟩
        rcases List.mem_cons.mp hq with rfl | hq
        · intro hmq; exact absurd (matchesReq_iff.mpr hmq) hnm
        · exact h2 q hq
      · rintro ⟨h1, h2⟩; exact ⟨h1, fun q hq => h2 q (List.mem_cons_of_mem _ hq)⟩

theorem cheapestGo_ne_err :
    ∀ {pools : List Pool} {op : Option Nat} {or : Option Granted}, (∀ p ∈ pools, p.WellFormed) →
      cheapestGo price locs cloud label pre cores mem storage pools op or ≠ .err := by
  intro pools
  induction pools with
  | nil => intro op or _; cases or <;> simp [cheapestGo]
  | cons p ps ih =>
    intro op or hw
    have hwp : ∀ q ∈ ps, q.WellFormed := fun q hq => hw q (List.mem_cons_of_mem _ hq)
    unfold cheapestGo
    split
    · split
      next he => exact absurd he (convert_ne_err (hw p (by simp)) _ _ _)
      · exact ih hwp
      · dsimp only; split <;> exact ih hwp
    · exact ih hwp

end cheapest

end HailVerif.Resources

import HailVerif.Proofs.BatchDBCancel
import HailVerif.Model.BatchActors
/-!
Helper lemmas for C41 (uncommitted updates are invisible) and C39 (job lifecycle protocol).

Part 1 (C41): table-level characterisations of every transaction (`<op>_tables`, `gu_<op>`), the two invariants
`PendInv` / `GroupsGate`, the per-transaction hypothesis `OpOK` that excludes the two known defects, and
`inv_step : OpOK s op → Inv s → Inv (step s op).1`.
Part 2 (C39): attempts are never deleted, `AttemptInv`, `complete` / `schedule` on a given job row, the rank measure.
-/
namespace HailVerif.BatchDB

/-! ## which tables a stage touches: groups and updates -/

/-- the two tables `GroupsGate` reads -/
def gu (s : State) : List Group × List Update := (s.groups, s.updates)

theorem gu_groups {s s' : State} (h : gu s' = gu s) : s'.groups = s.groups := congrArg Prod.fst h
theorem gu_updates {s s' : State} (h : gu s' = gu s) : s'.updates = s.updates := congrArg Prod.snd h

@[simp] theorem gu_updateJobs (s : State) (p : Job → Bool) (f : Job → Job) : gu (updateJobs s p f) = gu s := rfl
@[simp] theorem gu_updateAttempts (s : State) (d : Nat) (p : Attempt → Bool)
    (f : Generated.AttemptsTrigger.Row → Generated.AttemptsTrigger.Row) : gu (updateAttempts s d p f) = gu s := rfl
@[simp] theorem gu_addAttempt (s : State) (b j : Nat) (a i : Option Nat) (c : Int) : gu (addAttempt s b j a i c).1 = gu s := by
  unfold gu; simp
@[simp] theorem gu_freeAdd (s : State) (i : Option Nat) (d : Int) : gu (freeAdd s i d) = gu s := rfl
@[simp] theorem gu_endAttempts (s : State) (d : Nat) (p : Attempt → Bool) (ts : Int) (r : String) :
    gu (endAttempts s d p ts r) = gu s := rfl
@[simp] theorem gu_schedulePrep (s : State) (b j a i : Nat) (job : Job) : gu (schedulePrep s b j a i job) = gu s := by
  unfold schedulePrep; simp
@[simp] theorem gu_startPrep (s : State) (b j a i : Nat) (ts : Int) (d : Nat) (job : Job) :
    gu (startPrep s b j a i ts d job) = gu s := by
  unfold startPrep; simp
@[simp] theorem gu_unschedulePrep (s : State) (b j a i : Nat) (e : Int) (r : String) (d : Nat) (job : Job) :
    gu (unschedulePrep s b j a i e r d job) = gu s := by
  unfold unschedulePrep; dsimp only; split_ifs <;> simp
@[simp] theorem gu_completePrep (s : State) (b j : Nat) (att inst : Option Nat) (st e : Option Int) (r : String) (d : Nat)
    (job : Job) : gu (completePrep s b j att inst st e r d job) = gu s := by
  unfold completePrep; dsimp only
  cases att <;> dsimp only <;> split_ifs <;> simp
@[simp] theorem gu_completeBatchIfDone (s : State) (b : Nat) : gu (completeBatchIfDone s b) = gu s := rfl
@[simp] theorem gu_cancelApply (s : State) (b g : Nat) : gu (cancelApply s b g) = gu s := rfl
@[simp] theorem gu_deactivateApply (s : State) (n : Nat) (r : String) (ts : Int) (d : Nat) :
    gu (deactivateApply s n r ts d) = gu s := rfl

theorem gu_cancelGroup (s : State) (b g : Nat) : gu (cancelGroup s b g).1 = gu s := by
  unfold cancelGroup; split_ifs <;> rfl
theorem gu_deleteBatch (s : State) (b : Nat) : gu (deleteBatch s b).1 = gu s := by
  unfold deleteBatch; split
  · rfl
  · split_ifs <;> rfl
theorem gu_newInstance (s : State) (n : Nat) (c : Int) (p : Bool) : gu (newInstance s n c p).1 = gu s := by
  unfold newInstance; split_ifs <;> rfl
theorem gu_activate (s : State) (n : Nat) : gu (activate s n).1 = gu s := by
  unfold activate; model_split <;> rfl
theorem gu_markDeleted (s : State) (n : Nat) : gu (markDeleted s n).1 = gu s := by
  unfold markDeleted; model_split <;> rfl
theorem gu_addResources (s : State) (b j a : Nat) (res : List (Nat × Int)) (d : Nat) :
    gu (addResources s b j a res d).1 = gu s := by
  unfold addResources; split_ifs <;> rfl
theorem gu_deactivate (s : State) (n : Nat) (r : String) (ts : Int) (d : Nat) : gu (deactivate s n r ts d).1 = gu s := by
  unfold deactivate; split
  · rfl
  · split_ifs
    · rfl
    · simp
theorem gu_schedule (s : State) (b j a i : Nat) : gu (schedule s b j a i).1 = gu s := by
  unfold schedule; split
  · rfl
  · split_ifs <;> simp
theorem gu_startLike (s : State) (b j a i : Nat) (ts : Int) (d : Nat) (need : IState) (ns : JState) :
    gu (startLike s b j a i ts d need ns).1 = gu s := by
  unfold startLike; split
  · rfl
  · split_ifs <;> simp
theorem gu_unschedule (s : State) (b j a i : Nat) (e : Int) (r : String) (d : Nat) :
    gu (unschedule s b j a i e r d).1 = gu s := by
  unfold unschedule; split
  · rfl
  · split_ifs <;> simp
theorem gu_insertJobs (s : State) (b upd user : Nat) (specs : List JobSpec) : gu (insertJobs s b upd user specs).1 = gu s := by
  unfold insertJobs
  split
  · rfl
  · split
    · split <;> rfl
    · rfl

/-! ## committed flags only grow -/

theorem updCommitted_congr {s s' : State} (e : s'.updates = s.updates) (b u : Nat) :
    updCommitted s' b u = updCommitted s b u := by
  unfold updCommitted findUpdate; rw [e]

/-- updates only appended, or rewritten in place keeping (batch, id) and never resetting `committed` -/
theorem updCommitted_mono_map {s s' : State} (F : Update → Update) (new : List Update)
    (hF : ∀ x, (F x).batch = x.batch ∧ (F x).id = x.id ∧ (x.committed = true → (F x).committed = true))
    (e : s'.updates = s.updates.map F ++ new) (b u : Nat) (h : updCommitted s b u = true) :
    updCommitted s' b u = true := by
  unfold updCommitted at *
  cases hx : findUpdate s b u with
  | none => simp [hx] at h
  | some x =>
    simp only [hx] at h
    have : findUpdate s' b u = some (F x) := by
      unfold findUpdate at *
      rw [e]
      apply find?_map_append_some _ F _ _ _ _ hx
      intro y; simp [(hF y).1, (hF y).2.1]
    simp only [this]
    exact (hF x).2.2 h

theorem groupRunning_mem {s : State} {b g : Nat} (h : groupRunning s b g = true) :
    ∃ x ∈ s.groups, x.batch = b ∧ x.id = g ∧ x.state = .running := by
  unfold groupRunning at h
  cases hx : findGroup s b g with
  | none => simp [hx] at h
  | some x =>
    simp only [hx, decide_eq_true_eq] at h
    unfold findGroup at hx
    have hp := List.find?_some hx
    simp only [decide_eq_true_eq] at hp
    exact ⟨x, List.mem_of_find?_eq_some hx, hp.1, hp.2, h⟩

/-! ## the two invariants behind C41 -/

/-- the scheduler never sees a job of an uncommitted update, and jobs of uncommitted updates other than the first one
are Pending -/
def UncommittedInvisible (s : State) : Prop :=
  ∀ x ∈ s.jobs, updCommitted s x.batch x.update = false →
    schedulable s x = false ∧ (x.update ≠ 1 → x.state = .Pending)

/-- jobs of an uncommitted non-initial update are Pending -/
def PendInv (s : State) : Prop :=
  ∀ x ∈ s.jobs, updCommitted s x.batch x.update = false → x.update ≠ 1 → x.state = .Pending

/-- no group of a batch is `running` before the batch's first update is committed -/
def GroupsGate (s : State) : Prop := ∀ g ∈ s.groups, g.state = .running → updCommitted s g.batch 1 = true

theorem uncommittedInvisible_of {s : State} (hP : PendInv s) (hG : GroupsGate s) : UncommittedInvisible s := by
  intro x hx hc
  refine ⟨?_, hP x hx hc⟩
  by_cases h1 : x.update = 1
  · cases hs : schedulable s x with
    | false => rfl
    | true =>
      exfalso
      unfold schedulable at hs
      simp only [Bool.and_eq_true] at hs
      obtain ⟨g, hg, hb, _, hst⟩ := groupRunning_mem hs.1.2
      have := hG g hg hst
      rw [hb, ← h1, hc] at this
      exact absurd this (by simp)
  · have := hP x hx hc h1
    unfold schedulable
    simp [this]

theorem pendInv_init : PendInv init := by intro x hx; simp [init] at hx
theorem groupsGate_init : GroupsGate init := by intro x hx; simp [init] at hx

/-- across `s → s'`: the invariant holds in `s'`, and every job row of `s` whose update is not the first one and is still
uncommitted in `s'` is carried over UNCHANGED (no UPDATE touched it: no trigger fired for it, no tally counted it) -/
def PendStep (s s' : State) : Prop :=
  PendInv s' ∧ ∀ x ∈ s.jobs, updCommitted s' x.batch x.update = false → x.update ≠ 1 → x ∈ s'.jobs

theorem PendStep.refl {s : State} (hP : PendInv s) : PendStep s s := ⟨hP, fun _ hx _ _ => hx⟩

/-- generic preservation of `PendInv`: job rows rewritten by a frame `F` (which leaves the Pending rows of uncommitted
non-initial updates alone) and new rows appended -/
theorem pendStep_of_map {s s' : State} (hP : PendInv s) (F : Job → Job) (hF : JobFrame F) (new : List Job)
    (ej : s'.jobs = s.jobs.map F ++ new)
    (hmono : ∀ b u, updCommitted s b u = true → updCommitted s' b u = true)
    (hF' : ∀ x ∈ s.jobs, updCommitted s' x.batch x.update = false → x.update ≠ 1 → x.state = .Pending → F x = x)
    (hnew : ∀ x ∈ new, updCommitted s' x.batch x.update = false → x.update ≠ 1 → x.state = .Pending) : PendStep s s' := by
  have hc0 : ∀ x : Job, updCommitted s' x.batch x.update = false → updCommitted s x.batch x.update = false := by
    intro x hc
    cases h0 : updCommitted s x.batch x.update with
    | false => rfl
    | true => rw [hmono _ _ h0] at hc; exact absurd hc (by simp)
  constructor
  · intro x' hx' hc h1
    rw [ej] at hx'
    rcases List.mem_append.mp hx' with h | h
    · rw [List.mem_map] at h
      obtain ⟨x, hx, rfl⟩ := h
      obtain ⟨e1, _, e3, _⟩ := hF x
      rw [e1, e3] at hc
      rw [e3] at h1
      have hpend := hP x hx (hc0 x hc) h1
      rw [hF' x hx hc h1 hpend]; exact hpend
    · exact hnew x' h hc h1
  · intro x hx hc h1
    have hpend := hP x hx (hc0 x hc) h1
    rw [ej]
    apply List.mem_append_left
    rw [List.mem_map]
    exact ⟨x, hx, hF' x hx hc h1 hpend⟩

/-- jobs and updates untouched -/
theorem pendStep_of_eq {s s' : State} (hP : PendInv s) (ej : s'.jobs = s.jobs) (eu : s'.updates = s.updates) : PendStep s s' := by
  refine ⟨?_, fun x hx _ _ => by rw [ej]; exact hx⟩
  intro x hx hc h1
  rw [ej] at hx
  rw [updCommitted_congr eu] at hc
  exact hP x hx hc h1

/-- a further change that touches neither jobs nor updates -/
theorem PendStep.of_eq_right {s s1 s2 : State} (h : PendStep s s1) (ej : s2.jobs = s1.jobs) (eu : s2.updates = s1.updates) :
    PendStep s s2 := by
  refine ⟨?_, fun x hx hc h1 => by rw [ej]; exact h.2 x hx (by rw [← updCommitted_congr eu]; exact hc) h1⟩
  intro x hx hc h1
  rw [ej] at hx
  rw [updCommitted_congr eu] at hc
  exact h.1 x hx hc h1

theorem groupsGate_of_eq {s s' : State} (hG : GroupsGate s) (e : gu s' = gu s) : GroupsGate s' := by
  intro g hg hst
  rw [gu_groups e] at hg
  rw [updCommitted_congr (gu_updates e)]
  exact hG g hg hst

/-- generic preservation of `GroupsGate` -/
theorem groupsGate_of_map {s s' : State} (hG : GroupsGate s) (F : Group → Group) (hF : GroupFrame F) (new : List Group)
    (eg : s'.groups = s.groups.map F ++ new)
    (hmono : ∀ b u, updCommitted s b u = true → updCommitted s' b u = true)
    (hF' : ∀ g ∈ s.groups, (F g).state = .running → g.state = .running ∨ updCommitted s' g.batch 1 = true)
    (hnew : ∀ g ∈ new, g.state = .running → updCommitted s' g.batch 1 = true) : GroupsGate s' := by
  intro g' hg' hst
  rw [eg] at hg'
  rcases List.mem_append.mp hg' with h | h
  · rw [List.mem_map] at h
    obtain ⟨g, hg, rfl⟩ := h
    rw [(hF g).1]
    rcases hF' g hg hst with h1 | h1
    · exact hmono _ _ (hG g hg h1)
    · exact h1
  · exact hnew g' h hst

/-! ## per-transaction preservation -/

theorem pendStep_updateJobs (s0 s : State) (ej : s.jobs = s0.jobs) (eu : s.updates = s0.updates) (hP : PendInv s0)
    (p : Job → Bool) (f : Job → Job) (hf : JobFrame f)
    (h : ∀ x ∈ s0.jobs, p x = true → x.state = .Pending → updCommitted s0 x.batch x.update = false → x.update ≠ 1 →
      f x = x) : PendStep s0 (updateJobs s p f) := by
  have eu' : (updateJobs s p f).updates = s0.updates := eu
  refine pendStep_of_map hP (fun j => if p j then f j else j) (JobFrame.ite p hf) []
    (by rw [updateJobs_jobs, ej, List.append_nil]) (fun b u hc => by rw [updCommitted_congr eu']; exact hc) ?_ (by simp)
  intro x hx hc h1 hst
  rw [updCommitted_congr eu'] at hc
  by_cases hp : p x = true
  · simp only [hp, if_true]; exact h x hx hp hst hc h1
  · simp only [hp]; rfl

theorem inv_createBatch (s : State) (u bp t : Nat) (hP : PendInv s) (hG : GroupsGate s) :
    PendStep s (createBatch s u bp t).1 ∧ GroupsGate (createBatch s u bp t).1 := by
  unfold createBatch
  model_split
  · exact ⟨PendStep.refl hP, hG⟩
  · refine ⟨pendStep_of_eq hP rfl rfl, groupsGate_of_map hG id GroupFrame.id _ (by simp; rfl) (fun _ _ h => h)
      (fun _ _ h => Or.inl h) ?_⟩
    intro g hg hst
    simp only [List.mem_singleton] at hg
    subst hg
    exact absurd hst (by simp)

theorem createUpdate_tables (s : State) (b t nj ng u : Nat) :
    ∃ new, (createUpdate s b t nj ng u).1.updates = s.updates ++ new ∧ (createUpdate s b t nj ng u).1.jobs = s.jobs ∧
      (createUpdate s b t nj ng u).1.groups = s.groups := by
  unfold createUpdate
  model_split
  all_goals first | exact ⟨_, rfl, rfl, rfl⟩ | exact ⟨[], (List.append_nil _).symm, rfl, rfl⟩

theorem inv_createUpdate (s : State) (b t nj ng u : Nat) (hP : PendInv s) (hG : GroupsGate s) :
    PendStep s (createUpdate s b t nj ng u).1 ∧ GroupsGate (createUpdate s b t nj ng u).1 := by
  obtain ⟨new, eu, ej, eg⟩ := createUpdate_tables s b t nj ng u
  have hm := fun b' u' => updCommitted_mono_map (s := s) (s' := (createUpdate s b t nj ng u).1) id new
    (fun _ => ⟨rfl, rfl, fun h => h⟩) (by rw [List.map_id]; exact eu) b' u'
  exact ⟨pendStep_of_map hP id JobFrame.id [] (by simp [ej]) hm (fun _ _ _ _ _ => rfl) (by simp),
    groupsGate_of_map hG id GroupFrame.id [] (by simp [eg]) hm (fun _ _ h => Or.inl h) (by simp)⟩

/-! `insertGroups`: new group rows are `complete` -/

theorem insertGroup_tables (s s' : State) (b upd gid parent : Nat) (h : insertGroup s b upd gid parent = some s') :
    (∃ g, s'.groups = s.groups ++ [g] ∧ g.state = .complete) ∧ s'.updates = s.updates := by
  unfold insertGroup at h; split_ifs at h; simp only [Option.some.injEq] at h; subst h
  exact ⟨⟨_, rfl, rfl⟩, rfl⟩

theorem foldGroups_tables (b upd : Nat) (u : Update) (specs : List GroupSpec) :
    ∀ (s s' : State), specs.foldl (groupSpecStep b upd u) (some s) = some s' →
      (∃ new, s'.groups = s.groups ++ new ∧ ∀ g ∈ new, g.state = .complete) ∧ s'.updates = s.updates := by
  induction specs with
  | nil => intro s s' h; simp at h; subst h; exact ⟨⟨[], by simp, by simp⟩, rfl⟩
  | cons sp rest ih =>
    intro s s' h
    simp only [List.foldl_cons] at h
    cases hmid : groupSpecStep b upd u (some s) sp with
    | none => rw [hmid, foldGroups_none] at h; exact absurd h (by simp)
    | some mid =>
      rw [hmid] at h
      obtain ⟨⟨new, e1, h1⟩, e2⟩ := ih mid s' h
      obtain ⟨⟨g, e3, h3⟩, e4⟩ := insertGroup_tables s mid b upd _ _ (by simpa [groupSpecStep] using hmid)
      refine ⟨⟨g :: new, by rw [e1, e3]; simp, ?_⟩, e2.trans e4⟩
      intro x hx
      rcases List.mem_cons.mp hx with rfl | hx
      · exact h3
      · exact h1 x hx

theorem insertGroups_tables (s : State) (b upd user : Nat) (specs : List GroupSpec) :
    (∃ new, (insertGroups s b upd user specs).1.groups = s.groups ++ new ∧ ∀ g ∈ new, g.state = .complete) ∧
      (insertGroups s b upd user specs).1.updates = s.updates := by
  unfold insertGroups
  model_split
  all_goals first | exact ⟨⟨[], by simp, by simp⟩, rfl⟩ | skip
  next s' hr => exact foldGroups_tables b upd _ _ s s' hr

theorem inv_insertGroups (s : State) (b upd user : Nat) (specs : List GroupSpec) (hP : PendInv s) (hG : GroupsGate s) :
    PendStep s (insertGroups s b upd user specs).1 ∧ GroupsGate (insertGroups s b upd user specs).1 := by
  obtain ⟨⟨new, eg, hnew⟩, eu⟩ := insertGroups_tables s b upd user specs
  refine ⟨pendStep_of_eq hP (insertGroups_jobs s b upd user specs) eu,
    groupsGate_of_map hG id GroupFrame.id new (by simp [eg]) (fun b' u' h => by rw [updCommitted_congr eu]; exact h)
      (fun _ _ h => Or.inl h) ?_⟩
  intro g hg hst
  rw [hnew g hg] at hst
  exact absurd hst (by simp)

/-! `insertJobs`: rows of a non-initial update are inserted Pending -/

theorem findUpdate_some {s : State} {b upd : Nat} {u : Update} (h : findUpdate s b upd = some u) :
    u ∈ s.updates ∧ u.batch = b ∧ u.id = upd := by
  unfold findUpdate at h
  have := List.find?_some h
  exact ⟨List.mem_of_find?_eq_some h, by simpa using this⟩

theorem inv_insertJobs (s : State) (b upd user : Nat) (specs : List JobSpec) (hP : PendInv s) (hG : GroupsGate s) :
    PendStep s (insertJobs s b upd user specs).1 ∧ GroupsGate (insertJobs s b upd user specs).1 := by
  refine ⟨?_, groupsGate_of_eq hG (gu_insertJobs s b upd user specs)⟩
  unfold insertJobs
  split
  · exact PendStep.refl hP
  · split
    · rename_i u bt hu _
      split
      · exact PendStep.refl hP
      · refine pendStep_of_map hP id JobFrame.id (List.map (mkJob u b) _) (by simp only [insertJobsApply, List.map_id]; rfl) (fun _ _ h => h)
          (fun _ _ _ _ _ => rfl) ?_
        intro x hx _ h1
        rw [List.mem_map] at hx
        obtain ⟨sp, _, rfl⟩ := hx
        have hid : (mkJob u b sp).update = u.id := rfl
        rw [hid] at h1
        show (if u.id = 1 ∧ _ then JState.Ready else JState.Pending) = JState.Pending
        rw [if_neg (fun h => h1 h.1)]
    · exact PendStep.refl hP

/-! driver-side procedures: they only move jobs that are Ready / Creating / Running -/

theorem pending_ne {st : JState} (h : st = .Pending) : ¬ (st = .Ready ∨ st = .Creating ∨ st = .Running) := by
  subst h; simp

theorem inv_schedule (s : State) (hu : JobsUnique s) (b j a i : Nat) (hP : PendInv s) (hG : GroupsGate s) :
    PendStep s (schedule s b j a i).1 ∧ GroupsGate (schedule s b j a i).1 := by
  refine ⟨?_, groupsGate_of_eq hG (gu_schedule s b j a i)⟩
  unfold schedule
  split
  · exact PendStep.refl hP
  · rename_i job hj
    replace hj := findJobFk_some hj
    split_ifs with hg
    · refine pendStep_updateJobs s _ (by simp) (gu_updates (gu_schedulePrep s b j a i job)) hP _ _
        (jobFrame_setStateAttempt _ _) ?_
      intro x hx hp hst _ _
      have := eq_of_isJob hu hj hx hp
      subst this
      rw [hst] at hg
      exact absurd hg.1 (by simp)
    · exact pendStep_of_eq hP (by simp) (gu_updates (gu_schedulePrep s b j a i job))

theorem inv_startLike (s : State) (hu : JobsUnique s) (b j a i : Nat) (ts : Int) (d : Nat) (need : IState) (ns : JState)
    (hP : PendInv s) (hG : GroupsGate s) :
    PendStep s (startLike s b j a i ts d need ns).1 ∧ GroupsGate (startLike s b j a i ts d need ns).1 := by
  refine ⟨?_, groupsGate_of_eq hG (gu_startLike s b j a i ts d need ns)⟩
  unfold startLike
  split
  · exact PendStep.refl hP
  · rename_i job hj
    replace hj := findJobFk_some hj
    split_ifs with hg
    · refine pendStep_updateJobs s _ (by simp) (gu_updates (gu_startPrep s b j a i ts d job)) hP _ _
        (jobFrame_setStateAttempt _ _) ?_
      intro x hx hp hst _ _
      have := eq_of_isJob hu hj hx hp
      subst this
      rw [hst] at hg
      exact absurd hg.1 (by simp)
    · exact pendStep_of_eq hP (by simp) (gu_updates (gu_startPrep s b j a i ts d job))

theorem inv_unschedule (s : State) (hu : JobsUnique s) (b j a i : Nat) (e : Int) (r : String) (d : Nat)
    (hP : PendInv s) (hG : GroupsGate s) :
    PendStep s (unschedule s b j a i e r d).1 ∧ GroupsGate (unschedule s b j a i e r d).1 := by
  refine ⟨?_, groupsGate_of_eq hG (gu_unschedule s b j a i e r d)⟩
  unfold unschedule
  split
  · exact PendStep.refl hP
  · rename_i job hj
    split_ifs with hg
    · refine pendStep_updateJobs s _ (by simp) (gu_updates (gu_unschedulePrep s b j a i e r d job)) hP _ _
        (jobFrame_setStateAttempt _ _) ?_
      intro x hx hp hst _ _
      have := eq_of_isJob hu hj hx hp
      subst this
      rw [hst] at hg
      exact absurd hg.1 (by simp)
    · exact pendStep_of_eq hP (by simp) (gu_updates (gu_unschedulePrep s b j a i e r d job))

theorem inv_deactivate (s : State) (n : Nat) (r : String) (ts : Int) (d : Nat) (hP : PendInv s) (hG : GroupsGate s) :
    PendStep s (deactivate s n r ts d).1 ∧ GroupsGate (deactivate s n r ts d).1 := by
  refine ⟨?_, groupsGate_of_eq hG (gu_deactivate s n r ts d)⟩
  unfold deactivate
  split
  · exact PendStep.refl hP
  · split_ifs
    · exact PendStep.refl hP
    · unfold deactivateApply
      have h1 := pendStep_updateJobs s (endAttempts s d (fun a => a.inst = some n) ts r) rfl rfl hP
        (onInstance (endAttempts s d (fun a => a.inst = some n) ts r) n) (setStateAttempt .Ready none)
        (jobFrame_setStateAttempt _ _) (by
          intro x _ hp hst _ _
          unfold onInstance at hp
          rw [hst] at hp
          simp at hp)
      exact h1.of_eq_right rfl rfl

/-! `complete` -/

/-- the group rewrite of `mark_job_group_complete` -/
def mgcF (s : State) (b g : Nat) (x : Group) : Group :=
  if x.batch = b ∧ (ancestorsOf s b g).contains x.id ∧ x.nCompleted = x.nJobs then { x with state := .complete } else x

/-- the group rewrite of the tally UPDATE -/
def tallyF (s : State) (b g : Nat) (ns : JState) (x : Group) : Group :=
  if x.batch = b ∧ (ancestorsOf s b g).contains x.id then tally ns x else x

theorem markGroupsComplete_groups (s : State) (b g : Nat) : (markGroupsComplete s b g).groups = s.groups.map (mgcF s b g) := rfl
theorem tallyGroups_groups (s : State) (b g : Nat) (ns : JState) : (tallyGroups s b g ns).groups = s.groups.map (tallyF s b g ns) := rfl

theorem groupFrame_mgcF (s : State) (b g : Nat) : GroupFrame (mgcF s b g) := by
  intro x; unfold mgcF; split_ifs <;> exact ⟨rfl, rfl, rfl, rfl⟩
theorem groupFrame_tallyF (s : State) (b g : Nat) (ns : JState) : GroupFrame (tallyF s b g ns) := by
  intro x; unfold tallyF; split_ifs <;> exact ⟨rfl, rfl, rfl, rfl⟩

theorem mgcF_running (s : State) (b g : Nat) (x : Group) (h : (mgcF s b g x).state = .running) : x.state = .running := by
  unfold mgcF at h; split_ifs at h
  exact h
theorem tallyF_state (s : State) (b g : Nat) (ns : JState) (x : Group) : (tallyF s b g ns x).state = x.state := by
  unfold tallyF; split_ifs <;> rfl

/-- the job-row rewrite of an effective `mark_job_complete`: the job itself, then its children -/
def completeF (s : State) (b j : Nat) (att : Option Nat) (ns : JState) : Job → Job :=
  (fun y => if isChildOf s b j y then childUpdate ns y else y) ∘ (fun y => if isJob b j y then setStateAttempt ns att y else y)

theorem jobFrame_completeF (s : State) (b j : Nat) (att : Option Nat) (ns : JState) : JobFrame (completeF s b j att ns) :=
  (JobFrame.ite _ (jobFrame_setStateAttempt ns att)).comp (JobFrame.ite _ (jobFrame_childUpdate ns))

/-- what `mark_job_complete` does to jobs / groups / updates: nothing, or (job found, current attempt, runnable state) the
job-row rewrite `completeF` and a group rewrite that never turns a group `running` -/
theorem complete_tables (s : State) (b j : Nat) (att inst : Option Nat) (ns : JState) (st e : Option Int) (r : String)
    (d : Nat) :
    ((complete s b j att inst ns st e r d).1.jobs = s.jobs ∧ gu (complete s b j att inst ns st e r d).1 = gu s) ∨
    ∃ job, findJob s b j = some job ∧ (job.state = .Ready ∨ job.state = .Creating ∨ job.state = .Running) ∧
      ¬ (job.attempt.isSome ∧ att.isSome ∧ job.attempt ≠ att) ∧
      (complete s b j att inst ns st e r d).1.jobs = s.jobs.map (completeF s b j att ns) ∧
      (complete s b j att inst ns st e r d).1.updates = s.updates ∧
      ∃ G, GroupFrame G ∧ (∀ g, (G g).state = .running → g.state = .running) ∧
        (complete s b j att inst ns st e r d).1.groups = s.groups.map G := by
  unfold complete
  split
  · exact Or.inl ⟨rfl, rfl⟩
  · rename_i job hj
    split_ifs with h1 h2 h3
    · exact Or.inl ⟨by simp, by simp⟩
    · right
      refine ⟨job, findJobFk_some hj, h2, h1, ?_, ?_, ?_⟩
      · rw [updateJobs_jobs]
        unfold completeJob completeF
        simp only [markGroupsComplete_jobs, completeBatchIfDone_jobs, tallyGroups_jobs, updateJobs_jobs, completePrep_jobs,
          List.map_map]
      · exact gu_updates (s' := completePrep s b j att inst st e r d job) (gu_completePrep s b j att inst st e r d job)
      · unfold completeJob
        refine ⟨mgcF (completeBatchIfDone (tallyGroups (updateJobs (completePrep s b j att inst st e r d job) (isJob b j)
            (setStateAttempt ns att)) b job.group ns) b) b job.group ∘
          tallyF (updateJobs (completePrep s b j att inst st e r d job) (isJob b j) (setStateAttempt ns att)) b job.group ns,
          (groupFrame_tallyF _ b job.group ns).comp (groupFrame_mgcF _ b job.group), ?_, ?_⟩
        · intro g hg
          have := mgcF_running _ _ _ _ hg
          rwa [tallyF_state] at this
        · show (markGroupsComplete _ b job.group).groups = _
          rw [markGroupsComplete_groups]
          show List.map _ (tallyGroups _ b job.group ns).groups = _
          rw [tallyGroups_groups]
          show List.map _ (List.map _ (completePrep s b j att inst st e r d job).groups) = _
          rw [gu_groups (gu_completePrep s b j att inst st e r d job), List.map_map]
    · exact Or.inl ⟨by simp, by simp⟩
    · exact Or.inl ⟨by simp, by simp⟩

theorem isChildOf_frame (s : State) (b j : Nat) {F : Job → Job} (hF : JobFrame F) (x : Job) :
    isChildOf s b j (F x) = isChildOf s b j x := by
  unfold isChildOf; rw [(hF x).1, (hF x).2.1]

/-- no child of `j` lies in an uncommitted update (the hypothesis excluding the known defect) -/
def ChildrenCommitted (s : State) (b j : Nat) : Prop :=
  ∀ x ∈ s.jobs, isChildOf s b j x = true → updCommitted s x.batch x.update = true

theorem inv_complete (s : State) (hu : JobsUnique s) (b j : Nat) (att inst : Option Nat) (ns : JState) (st e : Option Int)
    (r : String) (d : Nat) (hok : ChildrenCommitted s b j) (hP : PendInv s) (hG : GroupsGate s) :
    PendStep s (complete s b j att inst ns st e r d).1 ∧ GroupsGate (complete s b j att inst ns st e r d).1 := by
  rcases complete_tables s b j att inst ns st e r d with ⟨ej, eg⟩ | ⟨job, hj, hst, _, ej, eu, G, hGF, hGr, eg⟩
  · exact ⟨pendStep_of_eq hP ej (gu_updates eg), groupsGate_of_eq hG eg⟩
  · have hm : ∀ b' u', updCommitted s b' u' = true → updCommitted (complete s b j att inst ns st e r d).1 b' u' = true :=
      fun b' u' h => by rw [updCommitted_congr eu]; exact h
    refine ⟨pendStep_of_map hP _ (jobFrame_completeF s b j att ns) [] (by rw [ej, List.append_nil]) hm ?_ (by simp),
      groupsGate_of_map hG G hGF [] (by rw [eg, List.append_nil]) hm (fun g _ h => Or.inl (hGr g h)) (by simp)⟩
    intro x hx hc _ hpend
    rw [updCommitted_congr eu] at hc
    have h1 : isJob b j x = false := by
      cases h : isJob b j x with
      | false => rfl
      | true =>
        have := eq_of_isJob hu hj hx h
        subst this
        exact absurd hst (pending_ne hpend)
    have h2 : isChildOf s b j x = false := by
      cases h : isChildOf s b j x with
      | false => rfl
      | true => rw [hok x hx h] at hc; exact absurd hc (by simp)
    simp only [completeF, Function.comp, h1, Bool.false_eq_true, if_false, h2]

/-! `commitUpdate` -/

/-- the `batch_updates` rewrite of `commit_batch_update` -/
def commitF (b upd : Nat) (x : Update) : Update := if x.batch = b ∧ x.id = upd then { x with committed := true } else x

theorem commitF_frame (b upd : Nat) (x : Update) :
    (commitF b upd x).batch = x.batch ∧ (commitF b upd x).id = x.id ∧ (x.committed = true → (commitF b upd x).committed = true) := by
  unfold commitF; split_ifs
  · exact ⟨rfl, rfl, fun _ => rfl⟩
  · exact ⟨rfl, rfl, fun h => h⟩

theorem commit_groups_aux {b : Nat} (l l' : List Group) (p : Group → Prop) (inst : DecidablePred p)
    (st : Group → GState) (n : Group → Int)
    (h : l' = l.map (fun g => @ite _ (p g) (inst g) { g with state := st g, nJobs := n g } g))
    (hp : ∀ g, p g → g.batch = b) :
    ∃ G, GroupFrame G ∧ (∀ g, (G g).state = .running → g.state = .running ∨ g.batch = b) ∧ l' = l.map G := by
  refine ⟨_, groupFrame_setStateJobs p st n, ?_, h⟩
  intro g hg
  split_ifs at hg with c1
  · exact Or.inr (hp g c1)
  · exact Or.inl hg

/-- what `commit_batch_update` does to updates / groups / jobs when it takes effect (`s'` = state after) -/
def CommitTables (s : State) (b upd : Nat) (s' : State) : Prop :=
    s' = s ∨
    ∃ u, findUpdate s b upd = some u ∧ u.committed = false ∧
      s'.updates = s.updates.map (commitF b upd) ∧
      (∃ G, GroupFrame G ∧ (∀ g, (G g).state = .running → g.state = .running ∨ g.batch = b) ∧
        s'.groups = s.groups.map G) ∧
      (s'.jobs = s.jobs ∨
        (upd ≠ 1 ∧ ∃ (p : Job → Bool) (R : Job → Job),
          (∀ x, p x = true → x.batch = b ∧ u.startJob ≤ x.id ∧ x.id < u.startJob + u.nJobs) ∧ JobFrame R ∧
          (∀ x, (R x).state = .Ready ∨ (R x).state = .Pending) ∧
          s'.jobs = s.jobs.map (fun x => if p x then R x else x)))

theorem commitUpdate_tables (s : State) (b upd : Nat) : CommitTables s b upd (commitUpdate s b upd).1 := by
  unfold commitUpdate
  model_split
  all_goals first | exact Or.inl rfl | skip
  all_goals
    have hu := ‹findUpdate s b upd = some _›
    have hc := ‹¬ _ = true›
    simp only [Bool.not_eq_true] at hc
    right
  all_goals first
    | exact ⟨_, hu, hc, rfl, ⟨id, GroupFrame.id, fun g h => Or.inl h, (List.map_id _).symm⟩, Or.inl rfl⟩
    | skip
  · exact ⟨_, hu, hc, rfl, commit_groups_aux _ _ _ _ _ _ rfl (fun _ h => And.left h), Or.inl rfl⟩
  · refine ⟨_, hu, hc, rfl, commit_groups_aux _ _ _ _ _ _ rfl (fun _ h => And.left h),
      Or.inr ⟨‹_›, _, _, ?_, ?_, ?_, rfl⟩⟩
    · intro x hx; simpa using hx
    · intro x
      refine ⟨rfl, rfl, rfl, rfl, rfl, rfl, rfl, ?_⟩
      intro hx; dsimp only; split_ifs <;> simp_all
    · intro x; dsimp only; split_ifs
      · exact Or.inl rfl
      · exact Or.inr rfl

theorem updCommitted_after_commit {s s' : State} {b upd : Nat} {u : Update} (hu : findUpdate s b upd = some u)
    (eu : s'.updates = s.updates.map (commitF b upd)) : updCommitted s' b upd = true := by
  have : findUpdate s' b upd = some (commitF b upd u) := by
    unfold findUpdate at *
    rw [eu]
    have := find?_map_append_some (fun x : Update => decide (x.batch = b ∧ x.id = upd)) (commitF b upd)
      (by intro y; simp [(commitF_frame b upd y).1, (commitF_frame b upd y).2.1]) s.updates [] u hu
    simpa using this
  unfold updCommitted
  rw [this]
  obtain ⟨_, h1, h2⟩ := findUpdate_some hu
  simp [commitF, h1, h2]

/-- every job whose id lies in the range reserved for update `upd` of batch `b` belongs to that update (C08: the front end
does not validate job ids against the reserved range, so this is a hypothesis, not an invariant) -/
def RangeOK (s : State) (b upd : Nat) : Prop :=
  match findUpdate s b upd with
  | some u => ∀ x ∈ s.jobs, x.batch = b → u.startJob ≤ x.id → x.id < u.startJob + u.nJobs → x.update = upd
  | none => True

instance (s : State) (b upd : Nat) : Decidable (RangeOK s b upd) := by
  unfold RangeOK; split <;> infer_instance

/-- updates are committed in order as far as the first one is concerned, and the committed update owns its id range -/
def CommitOK (s : State) (b upd : Nat) : Prop := (upd = 1 ∨ updCommitted s b 1 = true) ∧ RangeOK s b upd

theorem inv_commitUpdate (s : State) (b upd : Nat) (hok : CommitOK s b upd) (hP : PendInv s) (hG : GroupsGate s) :
    PendStep s (commitUpdate s b upd).1 ∧ GroupsGate (commitUpdate s b upd).1 := by
  rcases commitUpdate_tables s b upd with e | ⟨u, hu, _, eu, ⟨G, hGF, hGr, eg⟩, hjobs⟩
  · rw [e]; exact ⟨PendStep.refl hP, hG⟩
  · have hm : ∀ b' u', updCommitted s b' u' = true → updCommitted (commitUpdate s b upd).1 b' u' = true :=
      fun b' u' h => updCommitted_mono_map (commitF b upd) [] (commitF_frame b upd) (by rw [eu, List.append_nil]) b' u' h
    have hafter := updCommitted_after_commit hu eu
    constructor
    · rcases hjobs with ej | ⟨_, p, R, hp, hR, _, ej⟩
      · exact pendStep_of_map hP id JobFrame.id [] (by rw [ej]; simp) hm (fun _ _ _ _ _ => rfl) (by simp)
      · refine pendStep_of_map hP _ (JobFrame.ite p hR) [] (by rw [ej, List.append_nil]) hm ?_ (by simp)
        intro x hx hc _ hpend
        by_cases hpx : p x = true
        · exfalso
          obtain ⟨h1, h2, h3⟩ := hp x hpx
          have hr := hok.2
          unfold RangeOK at hr
          rw [hu] at hr
          have := hr x hx h1 h2 h3
          rw [h1, this, hafter] at hc
          exact absurd hc (by simp)
        · simp only [hpx]; rfl
    · refine groupsGate_of_map hG G hGF [] (by rw [eg, List.append_nil]) hm ?_ (by simp)
      intro g _ hg
      rcases hGr g hg with h | h
      · exact Or.inl h
      · right
        rw [h]
        rcases hok.1 with h1 | h1
        · rw [← h1]; exact hafter
        · exact hm _ _ h1

/-! ## the step lemma -/

/-- The per-transaction hypothesis of the partial theorem (decidable on the pre-state):
* `complete b j`: no job listing `j` as a parent belongs to an uncommitted update — excludes the known defect
  (`mark_job_complete`'s child UPDATE has no `committed` check);
* `commitUpdate b u`: `u = 1` or update 1 of the batch is already committed (neither `commit_batch_update` nor
  `_create_batch_update` enforces this order), and every job in `u`'s reserved id range belongs to `u` (C08, unchecked). -/
def OpOK (s : State) : Op → Prop
  | .complete b j _ _ _ _ _ _ _ => ChildrenCommitted s b j
  | .commitUpdate b u => CommitOK s b u
  | _ => True

instance (s : State) (b j : Nat) : Decidable (ChildrenCommitted s b j) := by unfold ChildrenCommitted; infer_instance
instance (s : State) (b u : Nat) : Decidable (CommitOK s b u) := by unfold CommitOK; infer_instance
instance (s : State) (op : Op) : Decidable (OpOK s op) := by cases op <;> unfold OpOK <;> infer_instance

/-- every transaction of the history satisfies `OpOK` in the state it is applied to -/
def HistOK : State → List Op → Prop
  | _, [] => True
  | s, op :: rest => OpOK s op ∧ HistOK (step s op).1 rest

instance : ∀ (s : State) (ops : List Op), Decidable (HistOK s ops)
  | _, [] => by unfold HistOK; infer_instance
  | s, op :: rest => by
    unfold HistOK
    have := instDecidableHistOK (step s op).1 rest
    infer_instance

theorem inv_step (s : State) (hu : JobsUnique s) (op : Op) (hok : OpOK s op) (hP : PendInv s) (hG : GroupsGate s) :
    PendStep s (step s op).1 ∧ GroupsGate (step s op).1 := by
  cases op with
  | createBatch u bp t => exact inv_createBatch s u bp t hP hG
  | createUpdate b t nj ng u => exact inv_createUpdate s b t nj ng u hP hG
  | insertGroups b u usr specs => exact inv_insertGroups s b u usr specs hP hG
  | insertJobs b u usr specs => exact inv_insertJobs s b u usr specs hP hG
  | commitUpdate b u => exact inv_commitUpdate s b u hok hP hG
  | cancelGroup b g =>
    exact ⟨pendStep_of_eq hP (cancelGroup_jobs s b g) (gu_updates (gu_cancelGroup s b g)), groupsGate_of_eq hG (gu_cancelGroup s b g)⟩
  | deleteBatch b =>
    exact ⟨pendStep_of_eq hP (deleteBatch_jobs s b) (gu_updates (gu_deleteBatch s b)), groupsGate_of_eq hG (gu_deleteBatch s b)⟩
  | newInstance n c p =>
    exact ⟨pendStep_of_eq hP (newInstance_jobs s n c p) (gu_updates (gu_newInstance s n c p)),
      groupsGate_of_eq hG (gu_newInstance s n c p)⟩
  | activate n => exact ⟨pendStep_of_eq hP (activate_jobs s n) (gu_updates (gu_activate s n)), groupsGate_of_eq hG (gu_activate s n)⟩
  | deactivate n r ts d => exact inv_deactivate s n r ts d hP hG
  | markDeleted n =>
    exact ⟨pendStep_of_eq hP (markDeleted_jobs s n) (gu_updates (gu_markDeleted s n)), groupsGate_of_eq hG (gu_markDeleted s n)⟩
  | schedule b j a i => exact inv_schedule s hu b j a i hP hG
  | creating b j a i ts d => exact inv_startLike s hu b j a i ts d _ _ hP hG
  | started b j a i ts d => exact inv_startLike s hu b j a i ts d _ _ hP hG
  | complete b j a i ns st e r d => exact inv_complete s hu b j a i ns st e r d hok hP hG
  | unschedule b j a i e r d => exact inv_unschedule s hu b j a i e r d hP hG
  | addResources b j a res d =>
    exact ⟨pendStep_of_eq hP (addResources_jobs s b j a res d) (gu_updates (gu_addResources s b j a res d)),
      groupsGate_of_eq hG (gu_addResources s b j a res d)⟩
  | heartbeat atts ts d => exact ⟨pendStep_of_eq hP rfl rfl, groupsGate_of_eq hG rfl⟩
  | cleanupStaging => exact ⟨pendStep_of_eq hP rfl rfl, groupsGate_of_eq hG rfl⟩
  | cleanupCancellable => exact ⟨pendStep_of_eq hP rfl rfl, groupsGate_of_eq hG rfl⟩
  | compact => exact ⟨pendStep_of_eq hP rfl rfl, groupsGate_of_eq hG rfl⟩

/-- the invariant along a history all of whose transactions satisfy `OpOK` -/
theorem inv_run (ops : List Op) : ∀ (s : State), JobsUnique s → PendInv s → GroupsGate s → HistOK s ops →
    PendInv (ops.foldl (fun s op => (step s op).1) s) ∧ GroupsGate (ops.foldl (fun s op => (step s op).1) s) := by
  induction ops with
  | nil => intro s _ hP hG _; exact ⟨hP, hG⟩
  | cons op rest ih =>
    intro s hu hP hG hok
    obtain ⟨h1, h2⟩ := inv_step s hu op hok.1 hP hG
    exact ih _ ((shape_step s op).unique hu) h1.1 h2 hok.2

end HailVerif.BatchDB

namespace HailVerif.BatchDB
open HailVerif.Generated.AttemptsTrigger (Row)

/-! # Part 2 (C39) -/

/-! ## attempt rows are never deleted and keep their key -/

def attKey (a : Attempt) : Nat × Nat × Nat := (a.batch, a.job, a.id)
def attKeys (s : State) : List (Nat × Nat × Nat) := s.attempts.map attKey

theorem findAttempt_isSome_iff (s : State) (b j a : Nat) : (findAttempt s b j a).isSome = true ↔ (b, j, a) ∈ attKeys s := by
  unfold findAttempt attKeys
  rw [List.find?_isSome, List.mem_map]
  constructor
  · rintro ⟨x, hx, hp⟩
    simp only [decide_eq_true_eq] at hp
    exact ⟨x, hx, by simp [attKey, hp.1, hp.2.1, hp.2.2]⟩
  · rintro ⟨x, hx, hk⟩
    simp only [attKey, Prod.mk.injEq] at hk
    exact ⟨x, hx, by simp [hk.1, hk.2.1, hk.2.2]⟩

theorem findAttempt_mem {s : State} {b j a : Nat} {x : Attempt} (h : findAttempt s b j a = some x) :
    x ∈ s.attempts ∧ x.batch = b ∧ x.job = j ∧ x.id = a := by
  unfold findAttempt at h
  have := List.find?_some h
  exact ⟨List.mem_of_find?_eq_some h, by simpa using this⟩

/-- (batch, job, attempt_id) is a key of `attempts` -/
def AttUnique (s : State) : Prop := (attKeys s).Nodup

/-- what a transaction may do to `attempts`: the keys of `s` are still there in `s'`, and key uniqueness is kept -/
def AttSub (s s' : State) : Prop := attKeys s ⊆ attKeys s' ∧ (AttUnique s → AttUnique s')

theorem AttSub.refl (s : State) : AttSub s s := ⟨List.Subset.refl _, fun h => h⟩
theorem AttSub.trans {a b c : State} (h1 : AttSub a b) (h2 : AttSub b c) : AttSub a c :=
  ⟨List.Subset.trans h1.1 h2.1, fun h => h2.2 (h1.2 h)⟩
theorem AttSub.of_eq {s s' : State} (e : s'.attempts = s.attempts) : AttSub s s' := by
  unfold AttSub AttUnique attKeys; rw [e]; exact ⟨List.Subset.refl _, fun h => h⟩

theorem attKeys_updateAttempts (s : State) (d : Nat) (p : Attempt → Bool) (f : Row → Row) :
    attKeys (updateAttempts s d p f) = attKeys s := by
  unfold attKeys updateAttempts
  simp only [List.map_map]
  apply List.map_congr_left
  intro a _
  simp only [Function.comp]
  split_ifs <;> rfl

theorem attSub_updateAttempts (s : State) (d : Nat) (p : Attempt → Bool) (f : Row → Row) : AttSub s (updateAttempts s d p f) := by
  unfold AttSub AttUnique; rw [attKeys_updateAttempts]; exact ⟨List.Subset.refl _, fun h => h⟩

theorem attSub_addAttempt (s : State) (b j : Nat) (a i : Option Nat) (c : Int) : AttSub s (addAttempt s b j a i c).1 := by
  unfold addAttempt
  split
  · exact AttSub.refl s
  · rename_i a'
    split
    · exact AttSub.refl s
    · rename_i hnone
      have hfresh : (b, j, a') ∉ attKeys s := by
        intro hm
        rw [← findAttempt_isSome_iff, hnone] at hm
        exact absurd hm (by simp)
      unfold AttSub AttUnique attKeys
      simp only [List.map_append, List.map_cons, List.map_nil]
      refine ⟨List.subset_append_left _ _, fun hnd => ?_⟩
      rw [List.nodup_append]
      refine ⟨hnd, by simp, ?_⟩
      intro k hk k' hk' hkk
      simp only [List.mem_singleton] at hk'
      subst hkk; subst hk'
      exact hfresh hk

/-- after `add_attempt` with an attempt id, the row exists -/
theorem addAttempt_exists (s : State) (b j a : Nat) (i : Option Nat) (c : Int) :
    (b, j, a) ∈ attKeys (addAttempt s b j (some a) i c).1 := by
  unfold addAttempt
  simp only
  split
  · rename_i x hx
    rw [← findAttempt_isSome_iff, hx]; rfl
  · unfold attKeys
    simp [attKey]

theorem attSub_freeAdd (s : State) (i : Option Nat) (d : Int) : AttSub s (freeAdd s i d) := AttSub.of_eq rfl
theorem attSub_updateJobs (s : State) (p : Job → Bool) (f : Job → Job) : AttSub s (updateJobs s p f) := AttSub.of_eq rfl
theorem attSub_endAttempts (s : State) (d : Nat) (p : Attempt → Bool) (ts : Int) (r : String) : AttSub s (endAttempts s d p ts r) :=
  attSub_updateAttempts s d p _

theorem attSub_schedulePrep (s : State) (b j a i : Nat) (job : Job) : AttSub s (schedulePrep s b j a i job) :=
  attSub_addAttempt s b j _ _ _
theorem attSub_startPrep (s : State) (b j a i : Nat) (ts : Int) (d : Nat) (job : Job) : AttSub s (startPrep s b j a i ts d job) :=
  (attSub_addAttempt s b j _ _ _).trans (attSub_updateAttempts _ d _ _)
theorem attSub_unschedulePrep (s : State) (b j a i : Nat) (e : Int) (r : String) (d : Nat) (job : Job) :
    AttSub s (unschedulePrep s b j a i e r d job) := by
  unfold unschedulePrep; dsimp only; split_ifs
  · exact (attSub_endAttempts s d _ e r).trans (attSub_freeAdd _ _ _)
  · exact attSub_endAttempts s d _ e r
theorem attSub_completePrep (s : State) (b j : Nat) (att inst : Option Nat) (st e : Option Int) (r : String) (d : Nat)
    (job : Job) : AttSub s (completePrep s b j att inst st e r d job) := by
  unfold completePrep; dsimp only
  have h1 := attSub_addAttempt s b j att inst job.cores
  cases att with
  | none => dsimp only; split_ifs
            · exact h1.trans (attSub_freeAdd _ _ _)
            · exact h1
  | some a => dsimp only; split_ifs
              · exact (h1.trans (attSub_updateAttempts _ d _ _)).trans (attSub_freeAdd _ _ _)
              · exact h1.trans (attSub_updateAttempts _ d _ _)

theorem schedulePrep_exists (s : State) (b j a i : Nat) (job : Job) : (b, j, a) ∈ attKeys (schedulePrep s b j a i job) :=
  addAttempt_exists s b j a _ _
theorem startPrep_exists (s : State) (b j a i : Nat) (ts : Int) (d : Nat) (job : Job) :
    (b, j, a) ∈ attKeys (startPrep s b j a i ts d job) := by
  unfold startPrep; rw [attKeys_updateAttempts]; exact addAttempt_exists s b j a _ _

/-! transactions that do not touch `attempts` -/

theorem createBatch_attempts (s : State) (u bp t : Nat) : (createBatch s u bp t).1.attempts = s.attempts := by
  unfold createBatch; model_split
theorem createUpdate_attempts (s : State) (b t nj ng u : Nat) : (createUpdate s b t nj ng u).1.attempts = s.attempts := by
  unfold createUpdate; model_split
theorem cancelGroup_attempts (s : State) (b g : Nat) : (cancelGroup s b g).1.attempts = s.attempts := by
  unfold cancelGroup; split_ifs <;> rfl
theorem deleteBatch_attempts (s : State) (b : Nat) : (deleteBatch s b).1.attempts = s.attempts := by
  unfold deleteBatch; split
  · rfl
  · split_ifs <;> rfl
theorem newInstance_attempts (s : State) (n : Nat) (c : Int) (p : Bool) : (newInstance s n c p).1.attempts = s.attempts := by
  unfold newInstance; split_ifs <;> rfl
theorem activate_attempts (s : State) (n : Nat) : (activate s n).1.attempts = s.attempts := by
  unfold activate; model_split <;> rfl
theorem markDeleted_attempts (s : State) (n : Nat) : (markDeleted s n).1.attempts = s.attempts := by
  unfold markDeleted; model_split <;> rfl
theorem addResources_attempts (s : State) (b j a : Nat) (res : List (Nat × Int)) (d : Nat) :
    (addResources s b j a res d).1.attempts = s.attempts := by
  unfold addResources; split_ifs <;> rfl
theorem insertJobs_attempts (s : State) (b upd user : Nat) (specs : List JobSpec) :
    (insertJobs s b upd user specs).1.attempts = s.attempts := by
  unfold insertJobs
  split
  · rfl
  · split
    · split <;> rfl
    · rfl
theorem insertGroup_attempts (s s' : State) (b upd gid parent : Nat) (h : insertGroup s b upd gid parent = some s') :
    s'.attempts = s.attempts := by
  unfold insertGroup at h; split_ifs at h; simp only [Option.some.injEq] at h; subst h; rfl
theorem foldGroups_attempts (b upd : Nat) (u : Update) (specs : List GroupSpec) :
    ∀ (s s' : State), specs.foldl (groupSpecStep b upd u) (some s) = some s' → s'.attempts = s.attempts := by
  induction specs with
  | nil => intro s s' h; simp at h; subst h; rfl
  | cons sp rest ih =>
    intro s s' h
    simp only [List.foldl_cons] at h
    cases hmid : groupSpecStep b upd u (some s) sp with
    | none => rw [hmid, foldGroups_none] at h; exact absurd h (by simp)
    | some mid =>
      rw [hmid] at h
      rw [ih mid s' h, insertGroup_attempts s mid b upd _ _ (by simpa [groupSpecStep] using hmid)]
theorem insertGroups_attempts (s : State) (b upd user : Nat) (specs : List GroupSpec) :
    (insertGroups s b upd user specs).1.attempts = s.attempts := by
  unfold insertGroups
  model_split
  next s' hr => exact foldGroups_attempts b upd _ _ s s' hr
theorem commitUpdate_attempts (s : State) (b upd : Nat) : (commitUpdate s b upd).1.attempts = s.attempts := by
  unfold commitUpdate; model_split <;> rfl

/-! ## the safety invariant of C39: a job that is Creating / Running has a current attempt, and its row exists -/

def AttemptInv (s : State) : Prop :=
  ∀ x ∈ s.jobs, startedState x.state → ∃ a, x.attempt = some a ∧ (x.batch, x.id, a) ∈ attKeys s

theorem attemptInv_init : AttemptInv init := by intro x hx; simp [init] at hx

theorem attemptInv_of_map {s s' : State} (hI : AttemptInv s) (F : Job → Job) (hF : JobFrame F) (new : List Job)
    (ej : s'.jobs = s.jobs.map F ++ new) (hsub : AttSub s s')
    (hF' : ∀ x ∈ s.jobs, startedState (F x).state →
      (startedState x.state ∧ (F x).attempt = x.attempt) ∨ ∃ a, (F x).attempt = some a ∧ (x.batch, x.id, a) ∈ attKeys s')
    (hnew : ∀ x ∈ new, ¬ startedState x.state) : AttemptInv s' := by
  intro x' hx' hst
  rw [ej] at hx'
  rcases List.mem_append.mp hx' with h | h
  · rw [List.mem_map] at h
    obtain ⟨x, hx, rfl⟩ := h
    rw [(hF x).1, (hF x).2.1]
    rcases hF' x hx hst with ⟨h1, h2⟩ | h1
    · obtain ⟨a, ha, hk⟩ := hI x hx h1
      exact ⟨a, by rw [h2, ha], hsub.1 hk⟩
    · exact h1
  · exact absurd hst (hnew x' h)

theorem attemptInv_of_eq {s s' : State} (hI : AttemptInv s) (ej : s'.jobs = s.jobs) (hsub : AttSub s s') : AttemptInv s' :=
  attemptInv_of_map hI id JobFrame.id [] (by simp [ej]) hsub (fun _ _ h => Or.inl ⟨h, rfl⟩) (by simp)

theorem attemptInv_updateJobs (s0 s : State) (ej : s.jobs = s0.jobs) (hsub : AttSub s0 s) (hI : AttemptInv s0)
    (p : Job → Bool) (f : Job → Job) (hf : JobFrame f)
    (h : ∀ x ∈ s0.jobs, p x = true → startedState (f x).state →
      ∃ a, (f x).attempt = some a ∧ (x.batch, x.id, a) ∈ attKeys s) : AttemptInv (updateJobs s p f) := by
  refine attemptInv_of_map hI (fun j => if p j then f j else j) (JobFrame.ite p hf) []
    (by rw [updateJobs_jobs, ej, List.append_nil]) (hsub.trans (attSub_updateJobs s p f)) ?_ (by simp)
  intro x hx hst
  by_cases hp : p x = true
  · simp only [hp, if_true] at hst ⊢
    exact Or.inr (h x hx hp hst)
  · simp only [hp] at hst ⊢
    exact Or.inl ⟨hst, rfl⟩

theorem not_started_of {st : JState} (h : st = .Ready ∨ st = .Pending ∨ st.terminal = true) : ¬ startedState st := by
  unfold startedState
  rcases h with h | h | h
  · subst h; simp
  · subst h; simp
  · cases st <;> simp_all [JState.terminal]

theorem attemptInv_schedule (s : State) (b j a i : Nat) (hI : AttemptInv s) : AttemptInv (schedule s b j a i).1 := by
  unfold schedule
  split
  · exact hI
  · rename_i job hj
    split_ifs with hg
    · refine attemptInv_updateJobs s _ (by simp) (attSub_schedulePrep s b j a i job) hI _ _ (jobFrame_setStateAttempt _ _) ?_
      intro x _ hp _
      unfold isJob at hp
      simp only [decide_eq_true_eq] at hp
      exact ⟨a, rfl, by rw [hp.1, hp.2]; exact schedulePrep_exists s b j a i job⟩
    · exact attemptInv_of_eq hI (by simp) (attSub_schedulePrep s b j a i job)

theorem attemptInv_startLike (s : State) (b j a i : Nat) (ts : Int) (d : Nat) (need : IState) (ns : JState) (hI : AttemptInv s) :
    AttemptInv (startLike s b j a i ts d need ns).1 := by
  unfold startLike
  split
  · exact hI
  · rename_i job hj
    split_ifs with hg
    · refine attemptInv_updateJobs s _ (by simp) (attSub_startPrep s b j a i ts d job) hI _ _ (jobFrame_setStateAttempt _ _) ?_
      intro x _ hp _
      unfold isJob at hp
      simp only [decide_eq_true_eq] at hp
      exact ⟨a, rfl, by rw [hp.1, hp.2]; exact startPrep_exists s b j a i ts d job⟩
    · exact attemptInv_of_eq hI (by simp) (attSub_startPrep s b j a i ts d job)

theorem attemptInv_unschedule (s : State) (b j a i : Nat) (e : Int) (r : String) (d : Nat) (hI : AttemptInv s) :
    AttemptInv (unschedule s b j a i e r d).1 := by
  unfold unschedule
  split
  · exact hI
  · rename_i job hj
    split_ifs with hg
    · refine attemptInv_updateJobs s _ (by simp) (attSub_unschedulePrep s b j a i e r d job) hI _ _
        (jobFrame_setStateAttempt _ _) ?_
      intro x _ _ hst
      exact absurd hst (notStarted_setReady _ x)
    · exact attemptInv_of_eq hI (by simp) (attSub_unschedulePrep s b j a i e r d job)

theorem attemptInv_deactivate (s : State) (n : Nat) (r : String) (ts : Int) (d : Nat) (hI : AttemptInv s) :
    AttemptInv (deactivate s n r ts d).1 := by
  unfold deactivate
  split
  · exact hI
  · split_ifs
    · exact hI
    · unfold deactivateApply
      have h1 := attemptInv_updateJobs s (endAttempts s d (fun a => a.inst = some n) ts r) rfl (attSub_endAttempts s d _ ts r) hI
        (onInstance (endAttempts s d (fun a => a.inst = some n) ts r) n) (setStateAttempt .Ready none)
        (jobFrame_setStateAttempt _ _) (by intro x _ _ hst; exact absurd hst (notStarted_setReady _ x))
      exact attemptInv_of_eq h1 rfl (AttSub.of_eq rfl)

theorem attemptInv_insertJobs (s : State) (b upd user : Nat) (specs : List JobSpec) (hI : AttemptInv s) :
    AttemptInv (insertJobs s b upd user specs).1 := by
  have hsub : AttSub s (insertJobs s b upd user specs).1 := AttSub.of_eq (insertJobs_attempts s b upd user specs)
  revert hsub
  unfold insertJobs
  split
  · intro _; exact hI
  · split
    · rename_i u bt hu _
      split
      · intro _; exact hI
      · intro hsub
        refine attemptInv_of_map hI id JobFrame.id (List.map (mkJob u b) _) (by simp only [insertJobsApply, List.map_id]; rfl)
          hsub (fun _ _ h => Or.inl ⟨h, rfl⟩) ?_
        intro x hx
        rw [List.mem_map] at hx
        obtain ⟨sp, _, rfl⟩ := hx
        have hs : (mkJob u b sp).state = .Ready ∨ (mkJob u b sp).state = .Pending := by
          unfold mkJob; dsimp only; split_ifs <;> simp
        rcases hs with h | h
        · exact not_started_of (Or.inl h)
        · exact not_started_of (Or.inr (Or.inl h))
    · intro _; exact hI

theorem attemptInv_commitUpdate (s : State) (b upd : Nat) (hI : AttemptInv s) : AttemptInv (commitUpdate s b upd).1 := by
  have hsub : AttSub s (commitUpdate s b upd).1 := AttSub.of_eq (commitUpdate_attempts s b upd)
  rcases commitUpdate_tables s b upd with e | ⟨u, _, _, _, _, hjobs⟩
  · rw [e]; exact hI
  · rcases hjobs with ej | ⟨_, p, R, _, hR, hst, ej⟩
    · exact attemptInv_of_eq hI ej hsub
    · refine attemptInv_of_map hI _ (JobFrame.ite p hR) [] (by rw [ej, List.append_nil]) hsub ?_ (by simp)
      intro x _ hs
      by_cases hp : p x = true
      · simp only [hp, if_true] at hs
        exfalso
        rcases hst x with h | h <;> rw [h] at hs <;> simp [startedState] at hs
      · simp only [hp] at hs ⊢
        exact Or.inl ⟨hs, rfl⟩

theorem attSub_complete (s : State) (b j : Nat) (att inst : Option Nat) (ns : JState) (st e : Option Int) (r : String)
    (d : Nat) : AttSub s (complete s b j att inst ns st e r d).1 := by
  unfold complete
  split
  · exact AttSub.refl s
  · split_ifs
    · exact attSub_completePrep s b j att inst st e r d _
    · exact (attSub_completePrep s b j att inst st e r d _).trans (AttSub.of_eq rfl)
    · exact attSub_completePrep s b j att inst st e r d _
    · exact attSub_completePrep s b j att inst st e r d _

theorem attemptInv_complete (s : State) (b j : Nat) (att inst : Option Nat) (ns : JState) (st e : Option Int) (r : String)
    (d : Nat) (hns : ns.terminal = true) (hI : AttemptInv s) : AttemptInv (complete s b j att inst ns st e r d).1 := by
  have hsub := attSub_complete s b j att inst ns st e r d
  rcases complete_tables s b j att inst ns st e r d with ⟨ej, _⟩ | ⟨job, _, _, _, ej, _, _⟩
  · exact attemptInv_of_eq hI ej hsub
  · refine attemptInv_of_map hI _ (jobFrame_completeF s b j att ns) [] (by rw [ej, List.append_nil]) hsub ?_ (by simp)
    intro x _ hs
    simp only [completeF, Function.comp] at hs ⊢
    by_cases h2 : isChildOf s b j (if isJob b j x = true then setStateAttempt ns att x else x) = true
    · simp only [h2, if_true] at hs
      exfalso
      unfold childUpdate startedState at hs
      dsimp only at hs
      split_ifs at hs <;> simp at hs
    · simp only [h2] at hs ⊢
      by_cases h1 : isJob b j x = true
      · simp only [h1, if_true] at hs
        exact absurd hs (not_started_of (Or.inr (Or.inr hns)))
      · simp only [h1] at hs ⊢
        exact Or.inl ⟨hs, rfl⟩

theorem attemptInv_heartbeat (s : State) (atts : List (Nat × Nat × Nat)) (ts : Int) (d : Nat) (hI : AttemptInv s) :
    AttemptInv (heartbeat s atts ts d).1 := by
  unfold heartbeat
  have h := attSub_updateAttempts s d (fun x => atts.contains (x.batch, x.job, x.id)) (fun r => { r with rollup_time := some ts })
  exact attemptInv_of_eq (s' := updateAttempts s d (fun x => atts.contains (x.batch, x.job, x.id))
    (fun r => { r with rollup_time := some ts })) hI rfl h

theorem attSub_schedule (s : State) (b j a i : Nat) : AttSub s (schedule s b j a i).1 := by
  unfold schedule
  split
  · exact AttSub.refl s
  · split_ifs
    · exact (attSub_schedulePrep s b j a i _).trans (AttSub.of_eq rfl)
    · exact attSub_schedulePrep s b j a i _

theorem attSub_startLike (s : State) (b j a i : Nat) (ts : Int) (d : Nat) (need : IState) (ns : JState) :
    AttSub s (startLike s b j a i ts d need ns).1 := by
  unfold startLike
  split
  · exact AttSub.refl s
  · split_ifs
    · exact (attSub_startPrep s b j a i ts d _).trans (AttSub.of_eq rfl)
    · exact attSub_startPrep s b j a i ts d _

theorem attSub_unschedule (s : State) (b j a i : Nat) (e : Int) (r : String) (d : Nat) :
    AttSub s (unschedule s b j a i e r d).1 := by
  unfold unschedule
  split
  · exact AttSub.refl s
  · split_ifs
    · exact (attSub_unschedulePrep s b j a i e r d _).trans (AttSub.of_eq rfl)
    · exact attSub_unschedulePrep s b j a i e r d _

theorem attSub_deactivate (s : State) (n : Nat) (r : String) (ts : Int) (d : Nat) : AttSub s (deactivate s n r ts d).1 := by
  unfold deactivate
  split
  · exact AttSub.refl s
  · split_ifs
    · exact AttSub.refl s
    · unfold deactivateApply
      exact (attSub_endAttempts s d _ ts r).trans (AttSub.of_eq rfl)

theorem attSub_heartbeat (s : State) (atts : List (Nat × Nat × Nat)) (ts : Int) (d : Nat) : AttSub s (heartbeat s atts ts d).1 := by
  unfold heartbeat
  exact attSub_updateAttempts s d (fun x => atts.contains (x.batch, x.job, x.id)) (fun r => { r with rollup_time := some ts })

/-- every transaction keeps the attempt rows (and their key uniqueness) -/
theorem attSub_step (s : State) (op : Op) : AttSub s (step s op).1 := by
  cases op with
  | createBatch u bp t => exact AttSub.of_eq (createBatch_attempts s u bp t)
  | createUpdate b t nj ng u => exact AttSub.of_eq (createUpdate_attempts s b t nj ng u)
  | insertGroups b u usr specs => exact AttSub.of_eq (insertGroups_attempts s b u usr specs)
  | insertJobs b u usr specs => exact AttSub.of_eq (insertJobs_attempts s b u usr specs)
  | commitUpdate b u => exact AttSub.of_eq (commitUpdate_attempts s b u)
  | cancelGroup b g => exact AttSub.of_eq (cancelGroup_attempts s b g)
  | deleteBatch b => exact AttSub.of_eq (deleteBatch_attempts s b)
  | newInstance n c p => exact AttSub.of_eq (newInstance_attempts s n c p)
  | activate n => exact AttSub.of_eq (activate_attempts s n)
  | deactivate n r ts d => exact attSub_deactivate s n r ts d
  | markDeleted n => exact AttSub.of_eq (markDeleted_attempts s n)
  | schedule b j a i => exact attSub_schedule s b j a i
  | creating b j a i ts d => exact attSub_startLike s b j a i ts d _ _
  | started b j a i ts d => exact attSub_startLike s b j a i ts d _ _
  | complete b j a i ns st e r d => exact attSub_complete s b j a i ns st e r d
  | unschedule b j a i e r d => exact attSub_unschedule s b j a i e r d
  | addResources b j a res d => exact AttSub.of_eq (addResources_attempts s b j a res d)
  | heartbeat atts ts d => exact attSub_heartbeat s atts ts d
  | cleanupStaging => exact AttSub.of_eq rfl
  | cleanupCancellable => exact AttSub.of_eq rfl
  | compact => exact AttSub.of_eq rfl

theorem attSub_run (ops : List Op) : ∀ s : State, AttSub s (ops.foldl (fun s op => (step s op).1) s) := by
  induction ops with
  | nil => intro s; exact AttSub.refl s
  | cons op rest ih => intro s; exact (attSub_step s op).trans (ih _)

/-- with unique keys, at most one attempt row has a given key -/
theorem attempts_same_key_le_one (s : State) (hu : AttUnique s) (k : Nat × Nat × Nat) (p : Attempt → Bool)
    (hp : ∀ a ∈ s.attempts, p a = true → attKey a = k) : (s.attempts.filter p).length ≤ 1 := by
  have hnd : ((s.attempts.filter p).map attKey).Nodup :=
    List.Nodup.sublist (List.Sublist.map attKey List.filter_sublist) hu
  have hall : ∀ a ∈ s.attempts.filter p, attKey a = k := by
    intro a ha
    rw [List.mem_filter] at ha
    exact hp a ha.1 ha.2
  generalize s.attempts.filter p = l at hnd hall
  match l with
  | [] => simp
  | [_] => simp
  | a :: b :: rest =>
    exfalso
    simp only [List.map_cons, List.nodup_cons, List.mem_cons, not_or] at hnd
    exact hnd.1.1 ((hall a (by simp)).trans (hall b (by simp)).symm)

theorem attemptInv_step (s : State) (op : Op) (hwf : op.WF) (hI : AttemptInv s) : AttemptInv (step s op).1 := by
  cases op with
  | createBatch u bp t => exact attemptInv_of_eq hI (createBatch_jobs s u bp t) (AttSub.of_eq (createBatch_attempts s u bp t))
  | createUpdate b t nj ng u =>
    exact attemptInv_of_eq hI (createUpdate_jobs s b t nj ng u) (AttSub.of_eq (createUpdate_attempts s b t nj ng u))
  | insertGroups b u usr specs =>
    exact attemptInv_of_eq hI (insertGroups_jobs s b u usr specs) (AttSub.of_eq (insertGroups_attempts s b u usr specs))
  | insertJobs b u usr specs => exact attemptInv_insertJobs s b u usr specs hI
  | commitUpdate b u => exact attemptInv_commitUpdate s b u hI
  | cancelGroup b g => exact attemptInv_of_eq hI (cancelGroup_jobs s b g) (AttSub.of_eq (cancelGroup_attempts s b g))
  | deleteBatch b => exact attemptInv_of_eq hI (deleteBatch_jobs s b) (AttSub.of_eq (deleteBatch_attempts s b))
  | newInstance n c p => exact attemptInv_of_eq hI (newInstance_jobs s n c p) (AttSub.of_eq (newInstance_attempts s n c p))
  | activate n => exact attemptInv_of_eq hI (activate_jobs s n) (AttSub.of_eq (activate_attempts s n))
  | deactivate n r ts d => exact attemptInv_deactivate s n r ts d hI
  | markDeleted n => exact attemptInv_of_eq hI (markDeleted_jobs s n) (AttSub.of_eq (markDeleted_attempts s n))
  | schedule b j a i => exact attemptInv_schedule s b j a i hI
  | creating b j a i ts d => exact attemptInv_startLike s b j a i ts d _ _ hI
  | started b j a i ts d => exact attemptInv_startLike s b j a i ts d _ _ hI
  | complete b j a i ns st e r d => exact attemptInv_complete s b j a i ns st e r d hwf hI
  | unschedule b j a i e r d => exact attemptInv_unschedule s b j a i e r d hI
  | addResources b j a res d =>
    exact attemptInv_of_eq hI (addResources_jobs s b j a res d) (AttSub.of_eq (addResources_attempts s b j a res d))
  | heartbeat atts ts d => exact attemptInv_heartbeat s atts ts d hI
  | cleanupStaging => exact attemptInv_of_eq hI rfl (AttSub.of_eq rfl)
  | cleanupCancellable => exact attemptInv_of_eq hI rfl (AttSub.of_eq rfl)
  | compact => exact attemptInv_of_eq hI rfl (AttSub.of_eq rfl)

/-! ## instance state is not changed by attempt bookkeeping -/

theorem instState_map {s s' : State} (F : Instance → Instance) (hF : ∀ i, (F i).name = i.name ∧ (F i).state = i.state)
    (e : s'.instances = s.instances.map F) (inst : Option Nat) : instState s' inst = instState s inst := by
  unfold instState
  cases inst with
  | none => rfl
  | some n =>
    simp only [Option.bind_some]
    unfold findInstance
    rw [e, List.find?_map]
    have : ((fun x : Instance => decide (x.name = n)) ∘ F) = (fun x : Instance => decide (x.name = n)) := by
      funext i; simp [(hF i).1]
    rw [this]
    cases List.find? (fun x : Instance => decide (x.name = n)) s.instances with
    | none => rfl
    | some i => simp [(hF i).2]

theorem instState_addAttempt (s : State) (b j : Nat) (a i : Option Nat) (c : Int) (inst : Option Nat) :
    instState (addAttempt s b j a i c).1 inst = instState s inst := by
  unfold addAttempt
  split
  · rfl
  · split
    · rfl
    · exact instState_map _ (by intro x; split_ifs <;> exact ⟨rfl, rfl⟩) rfl inst

/-! ## `add_attempt`'s foreign key on `instances` -/

theorem findJobFk_of_not_fails {s : State} {b j : Nat} {att inst : Option Nat} (h : attemptFkFails s b j att inst = false) :
    findJobFk s b j att inst = findJob s b j := by
  unfold findJobFk; rw [h]; rfl

theorem findJobFk_cases (s : State) (b j : Nat) (att inst : Option Nat) :
    findJobFk s b j att inst = none ∨ findJobFk s b j att inst = findJob s b j := by
  unfold findJobFk; split_ifs
  · exact Or.inl rfl
  · exact Or.inr rfl

/-- a known instance never trips the foreign key -/
theorem attemptFkFails_of_inst {s : State} {b j a inst : Nat} {st : IState} (hi : instState s (some inst) = some st) :
    attemptFkFails s b j (some a) (some inst) = false := by
  unfold attemptFkFails
  unfold instState at hi
  simp only [Option.bind_some] at hi
  cases hf : findInstance s inst with
  | none => rw [hf] at hi; simp at hi
  | some _ => simp [hf]

/-- neither does an attempt row that already exists, nor a NULL attempt id -/
theorem attemptFkFails_of_exists {s : State} {b j a : Nat} {inst : Option Nat} (h : (findAttempt s b j a).isSome = true) :
    attemptFkFails s b j (some a) inst = false := by
  unfold attemptFkFails
  cases inst with
  | none => rfl
  | some n =>
    cases hf : findAttempt s b j a with
    | none => rw [hf] at h; simp at h
    | some _ => simp [hf]

theorem attemptFkFails_none (s : State) (b j : Nat) (inst : Option Nat) : attemptFkFails s b j none inst = false := rfl

/-! ## `schedule` on a Ready job that is not cancelled, on an active instance -/

theorem findJob_updateJobs_isJob (s : State) (hu : JobsUnique s) (b j : Nat) (x : Job) (hj : findJob s b j = some x)
    (f : Job → Job) (hf : JobFrame f) : findJob (updateJobs s (isJob b j) f) b j = some (f x) := by
  obtain ⟨hm, hb, hi⟩ := mem_of_findJob hj
  have := findJob_map (s := s) (s' := updateJobs s (isJob b j) f) (JobFrame.ite _ hf) (updateJobs_jobs s _ f) hu x hm
  rw [hb, hi] at this
  rw [this]
  simp [isJob, hb, hi]

theorem schedule_effective (s : State) (hu : JobsUnique s) (b j a inst : Nat) (x : Job) (hj : findJob s b j = some x)
    (hst : x.state = .Ready ∨ x.state = .Creating) (hc : jobCancelled s x = false) (hi : instState s (some inst) = some .active) :
    (schedule s b j a inst).2 = .ok 0 ∧
      (schedule s b j a inst).1.jobs = s.jobs.map (fun y => if isJob b j y then setStateAttempt .Running (some a) y else y) ∧
      findJob (schedule s b j a inst).1 b j = some (setStateAttempt .Running (some a) x) := by
  have hi' : instState (schedulePrep s b j a inst x) (some inst) = some .active := by
    unfold schedulePrep; rw [instState_addAttempt]; exact hi
  unfold schedule
  rw [findJobFk_of_not_fails (attemptFkFails_of_inst hi), hj]
  simp only [hst, hc, hi', and_self, if_true]
  refine ⟨trivial, by rw [updateJobs_jobs, schedulePrep_jobs], ?_⟩
  have hu' : JobsUnique (schedulePrep s b j a inst x) := JobsUnique.of_jobs_eq (schedulePrep_jobs s b j a inst x) hu
  have hj' : findJob (schedulePrep s b j a inst x) b j = some x := by
    rw [findJob_congr (schedulePrep_jobs s b j a inst x)]; exact hj
  exact findJob_updateJobs_isJob _ hu' b j x hj' _ (jobFrame_setStateAttempt _ _)

/-! ## the rank measure -/

theorem rankSum_eq (s : State) : rankSum s = sumBy (fun x => rank x.state) s.jobs := rfl

theorem sumBy_nonpos {α : Type} (w : α → Int) (l : List α) (h : ∀ x ∈ l, w x ≤ 0) : sumBy w l ≤ 0 := by
  induction l with
  | nil => simp [sumBy]
  | cons x l ih =>
    rw [sumBy_cons]
    have h1 := h x (by simp)
    have h2 := ih (fun y hy => h y (by simp [hy]))
    omega

theorem sumBy_neg {α : Type} (w : α → Int) (l : List α) (h : ∀ x ∈ l, w x ≤ 0) (x : α) (hx : x ∈ l) (hneg : w x < 0) :
    sumBy w l < 0 := by
  induction l with
  | nil => simp at hx
  | cons y l ih =>
    rw [sumBy_cons]
    have h1 := h y (by simp)
    have h2 := sumBy_nonpos w l (fun z hz => h z (by simp [hz]))
    rcases List.mem_cons.mp hx with rfl | hm
    · omega
    · have := ih (fun z hz => h z (by simp [hz])) hm
      omega

/-- rewriting the job rows by `F`: if no row's rank goes up and some row's rank goes down, the rank sum goes down -/
theorem rankSum_map_lt {s s' : State} (F : Job → Job) (e : s'.jobs = s.jobs.map F)
    (hle : ∀ x ∈ s.jobs, rank (F x).state ≤ rank x.state) (x : Job) (hx : x ∈ s.jobs) (hlt : rank (F x).state < rank x.state) :
    rankSum s' < rankSum s := by
  rw [rankSum_eq, rankSum_eq, e, sumBy_map_diff]
  have := sumBy_neg (fun x => rank (F x).state - rank x.state) s.jobs (fun y hy => by have := hle y hy; omega) x hx (by omega)
  omega

theorem rank_pos {st : JState} (h : st = .Ready ∨ st = .Creating ∨ st = .Running) : 0 < rank st := by
  rcases h with h | h | h <;> subst h <;> decide

theorem rank_terminal {st : JState} (h : st.terminal = true) : rank st = 0 := by
  cases st <;> simp_all [JState.terminal, rank]

/-- children of `j` are all Pending (what C05 `ready_iff_parents_done` gives for a non-terminal parent) -/
def ChildrenPending (s : State) (b j : Nat) : Prop := ∀ y ∈ s.jobs, isChildOf s b j y = true → y.state = .Pending

instance (s : State) (b j : Nat) : Decidable (ChildrenPending s b j) := by unfold ChildrenPending; infer_instance

/-- the row rewrite of an effective completion never raises a rank when the children are Pending, and turns the job's own
row terminal -/
theorem completeF_rank (s : State) (hu : JobsUnique s) (b j : Nat) (att : Option Nat) (ns : JState) (job : Job)
    (hj : findJob s b j = some job) (hst : job.state = .Ready ∨ job.state = .Creating ∨ job.state = .Running)
    (hns : ns.terminal = true) (hch : ChildrenPending s b j) :
    (∀ x ∈ s.jobs, rank (completeF s b j att ns x).state ≤ rank x.state) ∧
      completeF s b j att ns job = setStateAttempt ns att job := by
  have hself : isChildOf s b j job = false := by
    cases h : isChildOf s b j job with
    | false => rfl
    | true =>
      have := hch job (mem_of_findJob hj).1 h
      exact absurd hst (pending_ne this)
  have hisjob : isJob b j job = true := by
    obtain ⟨_, h1, h2⟩ := mem_of_findJob hj
    simp [isJob, h1, h2]
  constructor
  · intro x hx
    simp only [completeF, Function.comp]
    by_cases h1 : isJob b j x = true
    · have := eq_of_isJob hu hj hx h1
      subst this
      have h2 : isChildOf s b j (setStateAttempt ns att x) = false := by
        rw [isChildOf_frame s b j (jobFrame_setStateAttempt ns att)]; exact hself
      simp only [h1, if_true, h2, Bool.false_eq_true, if_false]
      show rank ns ≤ _
      rw [rank_terminal hns]
      exact Int.le_of_lt (rank_pos hst)
    · simp only [h1, Bool.false_eq_true, if_false]
      by_cases h2 : isChildOf s b j x = true
      · simp only [h2, if_true]
        rw [hch x hx h2]
        unfold childUpdate
        dsimp only
        split_ifs <;> decide
      · simp only [h2, Bool.false_eq_true, if_false]; exact Int.le_refl _
  · simp only [completeF, Function.comp, hisjob, if_true]
    rw [isChildOf_frame s b j (jobFrame_setStateAttempt ns att), hself]
    simp

theorem complete_effective_jobs (s : State) (b j : Nat) (att inst : Option Nat) (ns : JState)
    (st e : Option Int) (r : String) (d : Nat) (job : Job) (hj : findJob s b j = some job)
    (hst : job.state = .Ready ∨ job.state = .Creating ∨ job.state = .Running)
    (hatt : ¬ (job.attempt.isSome ∧ att.isSome ∧ job.attempt ≠ att)) (hfk : attemptFkFails s b j att inst = false) :
    (complete s b j att inst ns st e r d).2 = .ok 0 ∧
      (complete s b j att inst ns st e r d).1.jobs = s.jobs.map (completeF s b j att ns) := by
  unfold complete
  rw [findJobFk_of_not_fails hfk, hj]
  dsimp only
  rw [if_neg hatt, if_pos hst]
  refine ⟨rfl, ?_⟩
  rw [updateJobs_jobs]
  unfold completeJob completeF
  simp only [markGroupsComplete_jobs, completeBatchIfDone_jobs, tallyGroups_jobs, updateJobs_jobs, completePrep_jobs,
    List.map_map]

/-- An effective `mark_job_complete` (job Ready / Creating / Running, attempt guard and foreign keys passed, terminal outcome) whose children
are Pending: the job's row becomes terminal with the reported attempt, no row's rank goes up, the rank sum goes down. -/
theorem complete_effective (s : State) (hu : JobsUnique s) (b j : Nat) (att inst : Option Nat) (ns : JState)
    (st e : Option Int) (r : String) (d : Nat) (job : Job) (hj : findJob s b j = some job)
    (hst : job.state = .Ready ∨ job.state = .Creating ∨ job.state = .Running)
    (hatt : ¬ (job.attempt.isSome ∧ att.isSome ∧ job.attempt ≠ att)) (hfk : attemptFkFails s b j att inst = false)
    (hns : ns.terminal = true) (hch : ChildrenPending s b j) :
    (complete s b j att inst ns st e r d).2 = .ok 0 ∧
    findJob (complete s b j att inst ns st e r d).1 b j = some (setStateAttempt ns att job) ∧
    (∀ x ∈ s.jobs, ∀ x', findJob (complete s b j att inst ns st e r d).1 x.batch x.id = some x' → rank x'.state ≤ rank x.state) ∧
    rankSum (complete s b j att inst ns st e r d).1 < rankSum s := by
  obtain ⟨hrc, ej⟩ := complete_effective_jobs s b j att inst ns st e r d job hj hst hatt hfk
  obtain ⟨hle, hrow⟩ := completeF_rank s hu b j att ns job hj hst hns hch
  have hm := (mem_of_findJob hj).1
  have hfind : ∀ x ∈ s.jobs, findJob (complete s b j att inst ns st e r d).1 x.batch x.id = some (completeF s b j att ns x) :=
    fun x hx => findJob_map (jobFrame_completeF s b j att ns) ej hu x hx
  refine ⟨hrc, ?_, ?_, ?_⟩
  · have := hfind job hm
    rw [(mem_of_findJob hj).2.1, (mem_of_findJob hj).2.2, hrow] at this
    exact this
  · intro x hx x' hx'
    rw [hfind x hx] at hx'
    cases hx'
    exact hle x hx
  · exact rankSum_map_lt _ ej hle job hm (by
      rw [hrow]; show rank ns < _
      rw [rank_terminal hns]; exact rank_pos hst)

/-- `schedule_job` taking effect lowers the rank sum (Ready 3 / Creating 2 → Running 1) -/
theorem schedule_effective_rank (s : State) (hu : JobsUnique s) (b j a inst : Nat) (x : Job) (hj : findJob s b j = some x)
    (hst : x.state = .Ready ∨ x.state = .Creating) (hc : jobCancelled s x = false) (hi : instState s (some inst) = some .active) :
    rankSum (schedule s b j a inst).1 < rankSum s := by
  obtain ⟨_, ej, _⟩ := schedule_effective s hu b j a inst x hj hst hc hi
  have hm := (mem_of_findJob hj).1
  have hisjob : isJob b j x = true := by
    obtain ⟨_, h1, h2⟩ := mem_of_findJob hj
    simp [isJob, h1, h2]
  refine rankSum_map_lt _ ej ?_ x hm ?_
  · intro y hy
    by_cases h1 : isJob b j y = true
    · have := eq_of_isJob hu hj hy h1
      subst this
      simp only [h1, if_true]
      show rank .Running ≤ _
      rcases hst with h | h <;> rw [h] <;> decide
    · simp only [h1]; exact Int.le_refl _
  · simp only [hisjob, if_true]
    show rank .Running < _
    rcases hst with h | h <;> rw [h] <;> decide

/-! ## stale and repeated messages -/

@[simp] theorem completePrep_batches (s : State) (b j : Nat) (att inst : Option Nat) (st e : Option Int) (r : String) (d : Nat)
    (job : Job) : (completePrep s b j att inst st e r d job).batches = s.batches := by
  unfold completePrep; dsimp only
  cases att <;> dsimp only <;> split_ifs <;> simp [freeAdd]

/-- a completion report for an attempt other than the job's current one: rc 2 (or, when the reported attempt is new and
names an unknown instance, the foreign-key error) — no job row, group row or batch row changes -/
theorem complete_stale (s : State) (b j a a' : Nat) (inst : Option Nat) (ns : JState) (st e : Option Int) (r : String)
    (d : Nat) (job : Job) (hj : findJob s b j = some job) (hcur : job.attempt = some a) (hne : a' ≠ a) :
    ((complete s b j (some a') inst ns st e r d).2 = .ok 2 ∨ (complete s b j (some a') inst ns st e r d).2 = .err "no-job") ∧
    (attemptFkFails s b j (some a') inst = false → (complete s b j (some a') inst ns st e r d).2 = .ok 2) ∧
    (complete s b j (some a') inst ns st e r d).1.jobs = s.jobs ∧
    (complete s b j (some a') inst ns st e r d).1.groups = s.groups ∧
    (complete s b j (some a') inst ns st e r d).1.batches = s.batches := by
  have hg : job.attempt.isSome ∧ (some a').isSome ∧ job.attempt ≠ some a' := by
    rw [hcur]; exact ⟨rfl, rfl, fun h => hne (Option.some.inj h).symm⟩
  unfold complete
  rcases findJobFk_cases s b j (some a') inst with hn | hs
  · rw [hn]
    refine ⟨Or.inr rfl, ?_, rfl, rfl, rfl⟩
    intro hfk
    rw [findJobFk_of_not_fails hfk, hj] at hn
    exact absurd hn (by simp)
  · rw [hs, hj]
    dsimp only
    rw [if_pos hg]
    exact ⟨Or.inl rfl, fun _ => rfl, completePrep_jobs .., gu_groups (gu_completePrep ..), completePrep_batches ..⟩

/-- a job that is Running is not re-scheduled, re-started or re-created by a repeated driver message: no job row changes -/
theorem running_not_restarted (s : State) (b j a i : Nat) (ts : Int) (d : Nat) (x : Job) (hj : findJob s b j = some x)
    (hst : x.state = .Running) :
    ((schedule s b j a i).2 = .ok 1 ∨ (schedule s b j a i).2 = .err "no-job") ∧ (schedule s b j a i).1.jobs = s.jobs ∧
    (started s b j a i ts d).1.jobs = s.jobs ∧ (creating s b j a i ts d).1.jobs = s.jobs := by
  rcases findJobFk_cases s b j (some a) (some i) with hn | hs
  · refine ⟨?_, ?_, ?_, ?_⟩
    · unfold schedule; rw [hn]; exact Or.inr rfl
    · unfold schedule; rw [hn]
    · unfold started startLike; rw [hn]
    · unfold creating startLike; rw [hn]
  · refine ⟨?_, ?_, ?_, ?_⟩
    · unfold schedule; rw [hs, hj]; simp [hst]
    · unfold schedule; rw [hs, hj]; simp [hst]
    · unfold started startLike; rw [hs, hj]; simp [hst]
    · unfold creating startLike; rw [hs, hj]; simp [hst]

/-! ## no deadlock: a minimal non-terminal job is not Pending -/

/-- C05 (`ready_iff_parents_done`) + C08 (parents exist and precede), as one explicit hypothesis: a Pending job has a
non-terminal parent row with a smaller id in the same batch -/
def ParentsGate (s : State) : Prop :=
  ∀ x ∈ s.jobs, x.state = .Pending →
    ∃ y ∈ s.jobs, y.batch = x.batch ∧ s.parents.contains (x.batch, x.id, y.id) = true ∧ y.id < x.id ∧ y.state.terminal = false

instance (s : State) : Decidable (ParentsGate s) := by unfold ParentsGate; infer_instance

theorem exists_active_of_nonterminal (s : State) (hg : ParentsGate s) :
    ∀ (n : Nat) (x : Job), x ∈ s.jobs → x.id = n → x.state.terminal = false →
      ∃ y ∈ s.jobs, y.batch = x.batch ∧ (y.state = .Ready ∨ y.state = .Creating ∨ y.state = .Running) := by
  intro n
  induction n using Nat.strongRecOn with
  | ind n ih =>
    intro x hx hn hnt
    by_cases hp : x.state = .Pending
    · obtain ⟨y, hy, hb, _, hlt, hyt⟩ := hg x hx hp
      obtain ⟨z, hz, hzb, hzs⟩ := ih y.id (by omega) y hy rfl hyt
      exact ⟨z, hz, hzb.trans hb, hzs⟩
    · refine ⟨x, hx, rfl, ?_⟩
      cases hs : x.state <;> simp_all [JState.terminal]

/-! ## enabledness of the actors -/

theorem le_sum_of_mem (l : List Nat) (x : Nat) (h : x ∈ l) : x ≤ l.sum := by
  induction l with
  | nil => simp at h
  | cons y l ih =>
    simp only [List.sum_cons]
    rcases List.mem_cons.mp h with rfl | hm
    · omega
    · have := ih hm; omega

/-- a fresh attempt id always exists (the scheduler draws `secret_alnum_string(6)`) -/
theorem exists_fresh_attempt (s : State) (b j : Nat) : ∃ a, findAttempt s b j a = none := by
  refine ⟨(s.attempts.map (·.id)).sum + 1, ?_⟩
  cases h : findAttempt s b j ((s.attempts.map (·.id)).sum + 1) with
  | none => rfl
  | some x =>
    obtain ⟨hm, _, _, hid⟩ := findAttempt_mem h
    have := le_sum_of_mem (s.attempts.map (·.id)) x.id (List.mem_map.mpr ⟨x, hm, rfl⟩)
    omega

theorem schedulable_not_cancelled {s : State} {x : Job} (h : schedulable s x = true) :
    x.state = .Ready ∧ groupRunning s x.batch x.group = true ∧ jobCancelled s x = false := by
  unfold schedulable at h
  simp only [Bool.and_eq_true, decide_eq_true_eq, Bool.or_eq_true, Bool.not_eq_true'] at h
  refine ⟨h.1.1, h.1.2, ?_⟩
  unfold jobCancelled
  rcases h.2 with h1 | ⟨h1, h2⟩
  · simp [h1]
  · simp [h1, h2]

/-- a Ready job in a running group is picked by the scheduler or by the canceller's Ready loop -/
theorem ready_dichotomy (s : State) (x : Job) (hst : x.state = .Ready) (hgr : groupRunning s x.batch x.group = true) :
    schedulable s x = true ∨ cancellableReady s x = true := by
  unfold schedulable cancellableReady
  simp only [hst, hgr, decide_true, Bool.true_and]
  cases x.alwaysRun <;> cases x.cancelled <;> cases groupCancelled s x.batch x.group <;> simp

theorem cancellableReady_iff (s : State) (x : Job) :
    cancellableReady s x = true ↔ x.state = .Ready ∧ groupRunning s x.batch x.group = true ∧ jobCancelled s x = true := by
  unfold cancellableReady jobCancelled
  simp only [Bool.and_eq_true, decide_eq_true_eq, Bool.or_eq_true, Bool.not_eq_true']
  constructor
  · rintro ⟨⟨⟨h1, h2⟩, h3⟩, h4⟩; exact ⟨h1, h2, h3, h4.symm⟩
  · rintro ⟨h1, h2, h3, h4⟩; exact ⟨⟨⟨h1, h2⟩, h3⟩, h4.symm⟩

theorem isChildOf_self_of_pending {s : State} {b j : Nat} {x : Job} (hch : ChildrenPending s b j) (hx : x ∈ s.jobs)
    (hst : x.state = .Ready ∨ x.state = .Creating ∨ x.state = .Running) : isChildOf s b j x = false := by
  cases h : isChildOf s b j x with
  | false => rfl
  | true => exact absurd hst (pending_ne (hch x hx h))

/-! ## the canceller's Running loop -/

@[simp] theorem unschedulePrep_cancelled (s : State) (b j a i : Nat) (e : Int) (r : String) (d : Nat) (job : Job) :
    (unschedulePrep s b j a i e r d job).cancelled = s.cancelled := by
  unfold unschedulePrep; dsimp only; split_ifs <;> rfl

theorem groupRunning_congr {s s' : State} (e : s'.groups = s.groups) (b g : Nat) : groupRunning s' b g = groupRunning s b g := by
  unfold groupRunning findGroup; rw [e]

theorem groupCancelled_congr {s s' : State} (e : s'.groups = s.groups) (ec : s'.cancelled = s.cancelled) (b g : Nat) :
    groupCancelled s' b g = groupCancelled s b g := by
  unfold groupCancelled ancestorsOf findGroup; rw [e, ec]

/-- `unschedule_job` for the current attempt of a Creating / Running job: the job goes back to Ready with no current attempt;
groups and cancellation marks are untouched -/
theorem unschedule_effective (s : State) (hu : JobsUnique s) (b j a inst : Nat) (e : Int) (r : String) (d : Nat) (x : Job)
    (hj : findJob s b j = some x) (hst : x.state = .Creating ∨ x.state = .Running) (hcur : x.attempt = some a) :
    (unschedule s b j a inst e r d).2 = .ok 0 ∧
    findJob (unschedule s b j a inst e r d).1 b j = some (setStateAttempt .Ready none x) ∧
    (unschedule s b j a inst e r d).1.groups = s.groups ∧ (unschedule s b j a inst e r d).1.cancelled = s.cancelled := by
  unfold unschedule
  rw [hj]
  dsimp only
  rw [if_pos ⟨hst, hcur⟩]
  refine ⟨rfl, ?_, gu_groups (s' := unschedulePrep s b j a inst e r d x) (gu_unschedulePrep s b j a inst e r d x),
    unschedulePrep_cancelled s b j a inst e r d x⟩
  have hu' : JobsUnique (unschedulePrep s b j a inst e r d x) :=
    JobsUnique.of_jobs_eq (unschedulePrep_jobs s b j a inst e r d x) hu
  have hj' : findJob (unschedulePrep s b j a inst e r d x) b j = some x := by
    rw [findJob_congr (unschedulePrep_jobs s b j a inst e r d x)]; exact hj
  exact findJob_updateJobs_isJob _ hu' b j x hj' _ (jobFrame_setStateAttempt _ _)

end HailVerif.BatchDB

import HailVerif.Proofs.BatchDBCancel
import HailVerif.Model.BatchActors
/-!
Helper lemmas for C41 (uncommitted updates are invisible) and C39 (job lifecycle protocol).

Part 1 (C41): table-level characterisations of every transaction (`<op>_tables`, `gu_<op>`), the two invariants
`PendInv` / `GroupsGate`, the per-transaction hypothesis `OpOK` that excludes the two known defects, and
`inv_step : OpOK s op → Inv s → Inv (step s op).1`.
Part 2 (C39): attempts are never deleted, `AttemptInv`, `complete` / `schedule` on a given job row, the rank measure.
-/
namespace HailVerif.BatchDB

/-! ## which tables a stage touches: groups and updates -/

/-- the two tables `GroupsGate` reads -/
def gu (s : State) : List Group × List Update := (s.groups, s.updates)

theorem gu_groups {s s' : State} (h : gu s' = gu s) : s'.groups = s.groups := congrArg Prod.fst h
theorem gu_updates {s s' : State} (h : gu s' = gu s) : s'.updates = s.updates := congrArg Prod.snd h

@[simp] theorem gu_updateJobs (s : State) (p : Job → Bool) (f : Job → Job) : gu (updateJobs s p f) = gu s := rfl
@[simp] theorem gu_updateAttempts (s : State) (d : Nat) (p : Attempt → Bool)
    (f : Generated.AttemptsTrigger.Row → Generated.AttemptsTrigger.Row) : gu (updateAttempts s d p f) = gu s := rfl
@[simp] theorem gu_addAttempt (s : State) (b j : Nat) (a i : Option Nat) (c : Int) : gu (addAttempt s b j a i c).1 = gu s := by
  unfold gu; simp
@[simp] theorem gu_freeAdd (s : State) (i : Option Nat) (d : Int) : gu (freeAdd s i d) = gu s := rfl
@[simp] theorem gu_endAttempts (s : State) (d : Nat) (p : Attempt → Bool) (ts : Int) (r : String) :
    gu (endAttempts s d p ts r) = gu s := rfl
@[simp] theorem gu_schedulePrep (s : State) (b j a i : Nat) (job : Job) : gu (schedulePrep s b j a i job) = gu s := by
  unfold schedulePrep; simp
@[simp] theorem gu_startPrep (s : State) (b j a i : Nat) (ts : Int) (d : Nat) (job : Job) :
    gu (startPrep s b j a i ts d job) = gu s := by
  unfold startPrep; simp
@[simp] theorem gu_unschedulePrep (s : State) (b j a i : Nat) (e : Int) (r : String) (d : Nat) (job : Job) :
    gu (unschedulePrep s b j a i e r d job) = gu s := by
  unfold unschedulePrep; dsimp only; split_ifs <;> simp
@[simp] theorem gu_completePrep (s : State) (b j : Nat) (att inst : Option Nat) (st e : Option Int) (r : String) (d : Nat)
    (job : Job) : gu (completePrep s b j att inst st e r d job) = gu s := by
  unfold completePrep; dsimp only
  cases att <;> dsimp only <;> split_ifs <;> simp
@[simp] theorem gu_completeBatchIfDone (s : State) (b : Nat) : gu (completeBatchIfDone s b) = gu s := rfl
@[simp] theorem gu_cancelApply (s : State) (b g : Nat) : gu (cancelApply s b g) = gu s := rfl
@[simp] theorem gu_deactivateApply (s : State) (n : Nat) (r : String) (ts : Int) (d : Nat) :
    gu (deactivateApply s n r ts d) = gu s := rfl

theorem gu_cancelGroup (s : State) (b g : Nat) : gu (cancelGroup s b g).1 = gu s := by
  unfold cancelGroup; split_ifs <;> rfl
theorem gu_deleteBatch (s : State) (b : Nat) : gu (deleteBatch s b).1 = gu s := by
  unfold deleteBatch; split
  · rfl
  · split_ifs <;> rfl
theorem gu_newInstance (s : State) (n : Nat) (c : Int) (p : Bool) : gu (newInstance s n c p).1 = gu s := by
  unfold newInstance; split_ifs <;> rfl
theorem gu_activate (s : State) (n : Nat) : gu (activate s n).1 = gu s := by
  unfold activate; model_split <;> rfl
theorem gu_markDeleted (s : State) (n : Nat) : gu (markDeleted s n).1 = gu s := by
  unfold markDeleted; model_split <;> rfl
theorem gu_addResources (s : State) (b j a : Nat) (res : List (Nat × Int)) (d : Nat) :
    gu (addResources s b j a res d).1 = gu s := by
  unfold addResources; split_ifs <;> rfl
theorem gu_deactivate (s : State) (n : Nat) (r : String) (ts : Int) (d : Nat) : gu (deactivate s n r ts d).1 = gu s := by
  unfold deactivate; split
  · rfl
  · split_ifs
    · rfl
    · simp
theorem gu_schedule (s : State) (b j a i : Nat) : gu (schedule s b j a i).1 = gu s := by
  unfold schedule; split
  · rfl
  · split_ifs <;> simp
theorem gu_startLike (s : State) (b j a i : Nat) (ts : Int) (d : Nat) (need : IState) (ns : JState) :
    gu (startLike s b j a i ts d need ns).1 = gu s := by
  unfold startLike; split
  · rfl
  · split_ifs <;> simp
theorem gu_unschedule (s : State) (b j a i : Nat) (e : Int) (r : String) (d : Nat) :
    gu (unschedule s b j a i e r d).1 = gu s := by
  unfold unschedule; split
  · rfl
  · split_ifs <;> simp
theorem gu_insertJobs (s : State) (b upd user : Nat) (specs : List JobSpec) : gu (insertJobs s b upd user specs).1 = gu s := by
  unfold insertJobs
  split
  · rfl
  · split
    · split <;> rfl
    · rfl

/-! ## committed flags only grow -/

theorem updCommitted_congr {s s' : State} (e : s'.updates = s.updates) (b u : Nat) :
    updCommitted s' b u = updCommitted s b u := by
  unfold updCommitted findUpdate; rw [e]

/-- updates only appended, or rewritten in place keeping (batch, id) and never resetting `committed` -/
theorem updCommitted_mono_map {s s' : State} (F : Update → Update) (new : List Update)
    (hF : ∀ x, (F x).batch = x.batch ∧ (F x).id = x.id ∧ (x.committed = true → (F x).committed = true))
    (e : s'.updates = s.updates.map F ++ new) (b u : Nat) (h : updCommitted s b u = true) :
    updCommitted s' b u = true := by
  unfold updCommitted at *
  cases hx : findUpdate s b u with
  | none => simp [hx] at h
  | some x =>
    simp only [hx] at h
    have : findUpdate s' b u = some (F x) := by
      unfold findUpdate at *
      rw [e]
      apply find?_map_append_some _ F _ _ _ _ hx
      intro y; simp [(hF y).1, (hF y).2.1]
    simp only [this]
    exact (hF x).2.2 h

theorem groupRunning_mem {s : State} {b g : Nat} (h : groupRunning s b g = true) :
    ∃ x ∈ s.groups, x.batch = b ∧ x.id = g ∧ x.state = .running := by
  unfold groupRunning at h
  cases hx : findGroup s b g with
  | none => simp [hx] at h
  | some x =>
    simp only [hx, decide_eq_true_eq] at h
    unfold findGroup at hx
    have hp := List.find?_some hx
    simp only [decide_eq_true_eq] at hp
    exact ⟨x, List.mem_of_find?_eq_some hx, hp.1, hp.2, h⟩

/-! ## the two invariants behind C41 -/

/-- the scheduler never sees a job of an uncommitted update, and jobs of uncommitted updates other than the first one
are Pending -/
def UncommittedInvisible (s : State) : Prop :=
  ∀ x ∈ s.jobs, updCommitted s x.batch x.update = false →
    schedulable s x = false ∧ (x.update ≠ 1 → x.state = .Pending)

/-- jobs of an uncommitted non-initial update are Pending -/
def PendInv (s : State) : Prop :=
  ∀ x ∈ s.jobs, updCommitted s x.batch x.update = false → x.update ≠ 1 → x.state = .Pending

/-- no group of a batch is `running` before the batch's first update is committed -/
def GroupsGate (s : State) : Prop := ∀ g ∈ s.groups, g.state = .running → updCommitted s g.batch 1 = true

theorem uncommittedInvisible_of {s : State} (hP : PendInv s) (hG : GroupsGate s) : UncommittedInvisible s := by
  intro x hx hc
  refine ⟨?_, hP x hx hc⟩
  by_cases h1 : x.update = 1
  · cases hs : schedulable s x with
    | false => rfl
    | true =>
      exfalso
      unfold schedulable at hs
      simp only [Bool.and_eq_true] at hs
      obtain ⟨g, hg, hb, _, hst⟩ := groupRunning_mem hs.1.2
      have := hG g hg hst
      rw [hb, ← h1, hc] at this
      exact absurd this (by simp)
  · have := hP x hx hc h1
    unfold schedulable
    simp [this]

theorem pendInv_init : PendInv init := by intro x hx; simp [init] at hx
theorem groupsGate_init : GroupsGate init := by intro x hx; simp [init] at hx

/-- generic preservation of `PendInv`: job rows rewritten by a frame `F` and new rows appended -/
theorem pendInv_of_map {s s' : State} (hP : PendInv s) (F : Job → Job) (hF : JobFrame F) (new : List Job)
    (ej : s'.jobs = s.jobs.map F ++ new)
    (hmono : ∀ b u, updCommitted s b u = true → updCommitted s' b u = true)
    (hF' : ∀ x ∈ s.jobs, updCommitted s' x.batch x.update = false → x.update ≠ 1 → x.state = .Pending →
      (F x).state = .Pending)
    (hnew : ∀ x ∈ new, updCommitted s' x.batch x.update = false → x.update ≠ 1 → x.state = .Pending) : PendInv s' := by
  intro x' hx' hc h1
  rw [ej] at hx'
  rcases List.mem_append.mp hx' with h | h
  · rw [List.mem_map] at h
    obtain ⟨x, hx, rfl⟩ := h
    obtain ⟨e1, _, e3, _⟩ := hF x
    rw [e1, e3] at hc
    rw [e3] at h1
    have hc0 : updCommitted s x.batch x.update = false := by
      cases h0 : updCommitted s x.batch x.update with
      | false => rfl
      | true => rw [hmono _ _ h0] at hc; exact absurd hc (by simp)
    exact hF' x hx hc h1 (hP x hx hc0 h1)
  · exact hnew x' h hc h1

/-- jobs, groups and updates all untouched -/
theorem pendInv_of_eq {s s' : State} (hP : PendInv s) (ej : s'.jobs = s.jobs) (eu : s'.updates = s.updates) : PendInv s' := by
  intro x hx hc h1
  rw [ej] at hx
  rw [updCommitted_congr eu] at hc
  exact hP x hx hc h1

theorem groupsGate_of_eq {s s' : State} (hG : GroupsGate s) (e : gu s' = gu s) : GroupsGate s' := by
  intro g hg hst
  rw [gu_groups e] at hg
  rw [updCommitted_congr (gu_updates e)]
  exact hG g hg hst

/-- generic preservation of `GroupsGate` -/
theorem groupsGate_of_map {s s' : State} (hG : GroupsGate s) (F : Group → Group) (hF : GroupFrame F) (new : List Group)
    (eg : s'.groups = s.groups.map F ++ new)
    (hmono : ∀ b u, updCommitted s b u = true → updCommitted s' b u = true)
    (hF' : ∀ g ∈ s.groups, (F g).state = .running → g.state = .running ∨ updCommitted s' g.batch 1 = true)
    (hnew : ∀ g ∈ new, g.state = .running → updCommitted s' g.batch 1 = true) : GroupsGate s' := by
  intro g' hg' hst
  rw [eg] at hg'
  rcases List.mem_append.mp hg' with h | h
  · rw [List.mem_map] at h
    obtain ⟨g, hg, rfl⟩ := h
    rw [(hF g).1]
    rcases hF' g hg hst with h1 | h1
    · exact hmono _ _ (hG g hg h1)
    · exact h1
  · exact hnew g' h hst

/-! ## per-transaction preservation -/

theorem pendInv_updateJobs (s0 s : State) (ej : s.jobs = s0.jobs) (eu : s.updates = s0.updates) (hP : PendInv s0)
    (p : Job → Bool) (f : Job → Job) (hf : JobFrame f)
    (h : ∀ x ∈ s0.jobs, p x = true → x.state = .Pending → updCommitted s0 x.batch x.update = false → x.update ≠ 1 →
      (f x).state = .Pending) : PendInv (updateJobs s p f) := by
  have eu' : (updateJobs s p f).updates = s0.updates := eu
  refine pendInv_of_map hP (fun j => if p j then f j else j) (JobFrame.ite p hf) []
    (by rw [updateJobs_jobs, ej, List.append_nil]) (fun b u hc => by rw [updCommitted_congr eu']; exact hc) ?_ (by simp)
  intro x hx hc h1 hst
  rw [updCommitted_congr eu'] at hc
  by_cases hp : p x = true
  · simp only [hp, if_true]; exact h x hx hp hst hc h1
  · simp only [hp]; exact hst

theorem inv_createBatch (s : State) (u bp t : Nat) (hP : PendInv s) (hG : GroupsGate s) :
    PendInv (createBatch s u bp t).1 ∧ GroupsGate (createBatch s u bp t).1 := by
  unfold createBatch
  model_split
  · exact ⟨hP, hG⟩
  · refine ⟨pendInv_of_eq hP rfl rfl, groupsGate_of_map hG id GroupFrame.id _ (by simp; rfl) (fun _ _ h => h)
      (fun _ _ h => Or.inl h) ?_⟩
    intro g hg hst
    simp only [List.mem_singleton] at hg
    subst hg
    exact absurd hst (by simp)

theorem createUpdate_tables (s : State) (b t nj ng u : Nat) :
    ∃ new, (createUpdate s b t nj ng u).1.updates = s.updates ++ new ∧ (createUpdate s b t nj ng u).1.jobs = s.jobs ∧
      (createUpdate s b t nj ng u).1.groups = s.groups := by
  unfold createUpdate
  model_split
  all_goals first | exact ⟨_, rfl, rfl, rfl⟩ | exact ⟨[], (List.append_nil _).symm, rfl, rfl⟩

theorem inv_createUpdate (s : State) (b t nj ng u : Nat) (hP : PendInv s) (hG : GroupsGate s) :
    PendInv (createUpdate s b t nj ng u).1 ∧ GroupsGate (createUpdate s b t nj ng u).1 := by
  obtain ⟨new, eu, ej, eg⟩ := createUpdate_tables s b t nj ng u
  have hm := fun b' u' => updCommitted_mono_map (s := s) (s' := (createUpdate s b t nj ng u).1) id new
    (fun _ => ⟨rfl, rfl, fun h => h⟩) (by rw [List.map_id]; exact eu) b' u'
  exact ⟨pendInv_of_map hP id JobFrame.id [] (by simp [ej]) hm (fun _ _ _ _ h => h) (by simp),
    groupsGate_of_map hG id GroupFrame.id [] (by simp [eg]) hm (fun _ _ h => Or.inl h) (by simp)⟩

/-! `insertGroups`: new group rows are `complete` -/

theorem insertGroup_tables (s s' : State) (b upd gid parent : Nat) (h : insertGroup s b upd gid parent = some s') :
    (∃ g, s'.groups = s.groups ++ [g] ∧ g.state = .complete) ∧ s'.updates = s.updates := by
  unfold insertGroup at h; split_ifs at h; simp only [Option.some.injEq] at h; subst h
  exact ⟨⟨_, rfl, rfl⟩, rfl⟩

theorem foldGroups_tables (b upd : Nat) (u : Update) (specs : List GroupSpec) :
    ∀ (s s' : State), specs.foldl (groupSpecStep b upd u) (some s) = some s' →
      (∃ new, s'.groups = s.groups ++ new ∧ ∀ g ∈ new, g.state = .complete) ∧ s'.updates = s.updates := by
  induction specs with
  | nil => intro s s' h; simp at h; subst h; exact ⟨⟨[], by simp, by simp⟩, rfl⟩
  | cons sp rest ih =>
    intro s s' h
    simp only [List.foldl_cons] at h
    cases hmid : groupSpecStep b upd u (some s) sp with
    | none => rw [hmid, foldGroups_none] at h; exact absurd h (by simp)
    | some mid =>
      rw [hmid] at h
      obtain ⟨⟨new, e1, h1⟩, e2⟩ := ih mid s' h
      obtain ⟨⟨g, e3, h3⟩, e4⟩ := insertGroup_tables s mid b upd _ _ (by simpa [groupSpecStep] using hmid)
      refine ⟨⟨g :: new, by rw [e1, e3]; simp, ?_⟩, e2.trans e4⟩
      intro x hx
      rcases List.mem_cons.mp hx with rfl | hx
      · exact h3
      · exact h1 x hx

theorem insertGroups_tables (s : State) (b upd user : Nat) (specs : List GroupSpec) :
    (∃ new, (insertGroups s b upd user specs).1.groups = s.groups ++ new ∧ ∀ g ∈ new, g.state = .complete) ∧
      (insertGroups s b upd user specs).1.updates = s.updates := by
  unfold insertGroups
  model_split
  all_goals first | exact ⟨⟨[], by simp, by simp⟩, rfl⟩ | skip
  next s' hr => exact foldGroups_tables b upd _ _ s s' hr

theorem inv_insertGroups (s : State) (b upd user : Nat) (specs : List GroupSpec) (hP : PendInv s) (hG : GroupsGate s) :
    PendInv (insertGroups s b upd user specs).1 ∧ GroupsGate (insertGroups s b upd user specs).1 := by
  obtain ⟨⟨new, eg, hnew⟩, eu⟩ := insertGroups_tables s b upd user specs
  refine ⟨pendInv_of_eq hP (insertGroups_jobs s b upd user specs) eu,
    groupsGate_of_map hG id GroupFrame.id new (by simp [eg]) (fun b' u' h => by rw [updCommitted_congr eu]; exact h)
      (fun _ _ h => Or.inl h) ?_⟩
  intro g hg hst
  rw [hnew g hg] at hst
  exact absurd hst (by simp)

/-! `insertJobs`: rows of a non-initial update are inserted Pending -/

theorem findUpdate_some {s : State} {b upd : Nat} {u : Update} (h : findUpdate s b upd = some u) :
    u ∈ s.updates ∧ u.batch = b ∧ u.id = upd := by
  unfold findUpdate at h
  have := List.find?_some h
  exact ⟨List.mem_of_find?_eq_some h, by simpa using this⟩

theorem inv_insertJobs (s : State) (b upd user : Nat) (specs : List JobSpec) (hP : PendInv s) (hG : GroupsGate s) :
    PendInv (insertJobs s b upd user specs).1 ∧ GroupsGate (insertJobs s b upd user specs).1 := by
  refine ⟨?_, groupsGate_of_eq hG (gu_insertJobs s b upd user specs)⟩
  unfold insertJobs
  split
  · exact hP
  · split
    · rename_i u bt hu _
      split
      · exact hP
      · refine pendInv_of_map hP id JobFrame.id (List.map (mkJob u b) _) (by simp only [insertJobsApply, List.map_id]; rfl) (fun _ _ h => h)
          (fun _ _ _ _ h => h) ?_
        intro x hx _ h1
        rw [List.mem_map] at hx
        obtain ⟨sp, _, rfl⟩ := hx
        have hid : (mkJob u b sp).update = u.id := rfl
        rw [hid] at h1
        show (if u.id = 1 ∧ _ then JState.Ready else JState.Pending) = JState.Pending
        rw [if_neg (fun h => h1 h.1)]
    · exact hP

/-! driver-side procedures: they only move jobs that are Ready / Creating / Running -/

theorem pending_ne {st : JState} (h : st = .Pending) : ¬ (st = .Ready ∨ st = .Creating ∨ st = .Running) := by
  subst h; simp

theorem inv_schedule (s : State) (hu : JobsUnique s) (b j a i : Nat) (hP : PendInv s) (hG : GroupsGate s) :
    PendInv (schedule s b j a i).1 ∧ GroupsGate (schedule s b j a i).1 := by
  refine ⟨?_, groupsGate_of_eq hG (gu_schedule s b j a i)⟩
  unfold schedule
  split
  · exact hP
  · rename_i job hj
    split_ifs with hg
    · refine pendInv_updateJobs s _ (by simp) (gu_updates (gu_schedulePrep s b j a i job)) hP _ _
        (jobFrame_setStateAttempt _ _) ?_
      intro x hx hp hst _ _
      have := eq_of_isJob hu hj hx hp
      subst this
      rw [hst] at hg
      exact absurd hg.1 (by simp)
    · exact pendInv_of_eq hP (by simp) (gu_updates (gu_schedulePrep s b j a i job))

theorem inv_startLike (s : State) (hu : JobsUnique s) (b j a i : Nat) (ts : Int) (d : Nat) (need : IState) (ns : JState)
    (hP : PendInv s) (hG : GroupsGate s) :
    PendInv (startLike s b j a i ts d need ns).1 ∧ GroupsGate (startLike s b j a i ts d need ns).1 := by
  refine ⟨?_, groupsGate_of_eq hG (gu_startLike s b j a i ts d need ns)⟩
  unfold startLike
  split
  · exact hP
  · rename_i job hj
    split_ifs with hg
    · refine pendInv_updateJobs s _ (by simp) (gu_updates (gu_startPrep s b j a i ts d job)) hP _ _
        (jobFrame_setStateAttempt _ _) ?_
      intro x hx hp hst _ _
      have := eq_of_isJob hu hj hx hp
      subst this
      rw [hst] at hg
      exact absurd hg.1 (by simp)
    · exact pendInv_of_eq hP (by simp) (gu_updates (gu_startPrep s b j a i ts d job))

theorem inv_unschedule (s : State) (hu : JobsUnique s) (b j a i : Nat) (e : Int) (r : String) (d : Nat)
    (hP : PendInv s) (hG : GroupsGate s) :
    PendInv (unschedule s b j a i e r d).1 ∧ GroupsGate (unschedule s b j a i e r d).1 := by
  refine ⟨?_, groupsGate_of_eq hG (gu_unschedule s b j a i e r d)⟩
  unfold unschedule
  split
  · exact hP
  · rename_i job hj
    split_ifs with hg
    · refine pendInv_updateJobs s _ (by simp) (gu_updates (gu_unschedulePrep s b j a i e r d job)) hP _ _
        (jobFrame_setStateAttempt _ _) ?_
      intro x hx hp hst _ _
      have := eq_of_isJob hu hj hx hp
      subst this
      rw [hst] at hg
      exact absurd hg.1 (by simp)
    · exact pendInv_of_eq hP (by simp) (gu_updates (gu_unschedulePrep s b j a i e r d job))

theorem inv_deactivate (s : State) (n : Nat) (r : String) (ts : Int) (d : Nat) (hP : PendInv s) (hG : GroupsGate s) :
    PendInv (deactivate s n r ts d).1 ∧ GroupsGate (deactivate s n r ts d).1 := by
  refine ⟨?_, groupsGate_of_eq hG (gu_deactivate s n r ts d)⟩
  unfold deactivate
  split
  · exact hP
  · split_ifs
    · exact hP
    · unfold deactivateApply
      have h1 := pendInv_updateJobs s (endAttempts s d (fun a => a.inst = some n) ts r) rfl rfl hP
        (onInstance (endAttempts s d (fun a => a.inst = some n) ts r) n) (setStateAttempt .Ready none)
        (jobFrame_setStateAttempt _ _) (by
          intro x _ hp hst _ _
          unfold onInstance at hp
          rw [hst] at hp
          simp at hp)
      exact pendInv_of_eq h1 rfl rfl

/-! `complete` -/

/-- the group rewrite of `mark_job_group_complete` -/
def mgcF (s : State) (b g : Nat) (x : Group) : Group :=
  if x.batch = b ∧ (ancestorsOf s b g).contains x.id ∧ x.nCompleted = x.nJobs then { x with state := .complete } else x

/-- the group rewrite of the tally UPDATE -/
def tallyF (s : State) (b g : Nat) (ns : JState) (x : Group) : Group :=
  if x.batch = b ∧ (ancestorsOf s b g).contains x.id then tally ns x else x

theorem markGroupsComplete_groups (s : State) (b g : Nat) : (markGroupsComplete s b g).groups = s.groups.map (mgcF s b g) := rfl
theorem tallyGroups_groups (s : State) (b g : Nat) (ns : JState) : (tallyGroups s b g ns).groups = s.groups.map (tallyF s b g ns) := rfl

theorem groupFrame_mgcF (s : State) (b g : Nat) : GroupFrame (mgcF s b g) := by
  intro x; unfold mgcF; split_ifs <;> exact ⟨rfl, rfl, rfl, rfl⟩
theorem groupFrame_tallyF (s : State) (b g : Nat) (ns : JState) : GroupFrame (tallyF s b g ns) := by
  intro x; unfold tallyF; split_ifs <;> exact ⟨rfl, rfl, rfl, rfl⟩

theorem mgcF_running (s : State) (b g : Nat) (x : Group) (h : (mgcF s b g x).state = .running) : x.state = .running := by
  unfold mgcF at h; split_ifs at h
  exact h
theorem tallyF_state (s : State) (b g : Nat) (ns : JState) (x : Group) : (tallyF s b g ns x).state = x.state := by
  unfold tallyF; split_ifs <;> rfl

/-- the job-row rewrite of an effective `mark_job_complete`: the job itself, then its children -/
def completeF (s : State) (b j : Nat) (att : Option Nat) (ns : JState) : Job → Job :=
  (fun y => if isChildOf s b j y then childUpdate ns y else y) ∘ (fun y => if isJob b j y then setStateAttempt ns att y else y)

theorem jobFrame_completeF (s : State) (b j : Nat) (att : Option Nat) (ns : JState) : JobFrame (completeF s b j att ns) :=
  (JobFrame.ite _ (jobFrame_setStateAttempt ns att)).comp (JobFrame.ite _ (jobFrame_childUpdate ns))

/-- what `mark_job_complete` does to jobs / groups / updates: nothing, or (job found, current attempt, runnable state) the
job-row rewrite `completeF` and a group rewrite that never turns a group `running` -/
theorem complete_tables (s : State) (b j : Nat) (att inst : Option Nat) (ns : JState) (st e : Option Int) (r : String)
    (d : Nat) :
    ((complete s b j att inst ns st e r d).1.jobs = s.jobs ∧ gu (complete s b j att inst ns st e r d).1 = gu s) ∨
    ∃ job, findJob s b j = some job ∧ (job.state = .Ready ∨ job.state = .Creating ∨ job.state = .Running) ∧
      ¬ (job.attempt.isSome ∧ att.isSome ∧ job.attempt ≠ att) ∧
      (complete s b j att inst ns st e r d).1.jobs = s.jobs.map (completeF s b j att ns) ∧
      (complete s b j att inst ns st e r d).1.updates = s.updates ∧
      ∃ G, GroupFrame G ∧ (∀ g, (G g).state = .running → g.state = .running) ∧
        (complete s b j att inst ns st e r d).1.groups = s.groups.map G := by
  unfold complete
  split
  · exact Or.inl ⟨rfl, rfl⟩
  · rename_i job hj
    split_ifs with h1 h2 h3
    · exact Or.inl ⟨by simp, by simp⟩
    · right
      refine ⟨job, hj, h2, h1, ?_, ?_, ?_⟩
      · rw [updateJobs_jobs]
        unfold completeJob completeF
        simp only [markGroupsComplete_jobs, completeBatchIfDone_jobs, tallyGroups_jobs, updateJobs_jobs, completePrep_jobs,
          List.map_map]
      · exact gu_updates (s' := completePrep s b j att inst st e r d job) (gu_completePrep s b j att inst st e r d job)
      · unfold completeJob
        refine ⟨mgcF (completeBatchIfDone (tallyGroups (updateJobs (completePrep s b j att inst st e r d job) (isJob b j)
            (setStateAttempt ns att)) b job.group ns) b) b job.group ∘
          tallyF (updateJobs (completePrep s b j att inst st e r d job) (isJob b j) (setStateAttempt ns att)) b job.group ns,
          (groupFrame_tallyF _ b job.group ns).comp (groupFrame_mgcF _ b job.group), ?_, ?_⟩
        · intro g hg
          have := mgcF_running _ _ _ _ hg
          rwa [tallyF_state] at this
        · show (markGroupsComplete _ b job.group).groups = _
          rw [markGroupsComplete_groups]
          show List.map _ (tallyGroups _ b job.group ns).groups = _
          rw [tallyGroups_groups]
          show List.map _ (List.map _ (completePrep s b j att inst st e r d job).groups) = _
          rw [gu_groups (gu_completePrep s b j att inst st e r d job), List.map_map]
    · exact Or.inl ⟨by simp, by simp⟩
    · exact Or.inl ⟨by simp, by simp⟩

theorem isChildOf_frame (s : State) (b j : Nat) {F : Job → Job} (hF : JobFrame F) (x : Job) :
    isChildOf s b j (F x) = isChildOf s b j x := by
  unfold isChildOf; rw [(hF x).1, (hF x).2.1]

/-- no child of `j` lies in an uncommitted update (the hypothesis excluding the known defect) -/
def ChildrenCommitted (s : State) (b j : Nat) : Prop :=
  ∀ x ∈ s.jobs, isChildOf s b j x = true → updCommitted s x.batch x.update = true

theorem inv_complete (s : State) (hu : JobsUnique s) (b j : Nat) (att inst : Option Nat) (ns : JState) (st e : Option Int)
    (r : String) (d : Nat) (hok : ChildrenCommitted s b j) (hP : PendInv s) (hG : GroupsGate s) :
    PendInv (complete s b j att inst ns st e r d).1 ∧ GroupsGate (complete s b j att inst ns st e r d).1 := by
  rcases complete_tables s b j att inst ns st e r d with ⟨ej, eg⟩ | ⟨job, hj, hst, _, ej, eu, G, hGF, hGr, eg⟩
  · exact ⟨pendInv_of_eq hP ej (gu_updates eg), groupsGate_of_eq hG eg⟩
  · have hm : ∀ b' u', updCommitted s b' u' = true → updCommitted (complete s b j att inst ns st e r d).1 b' u' = true :=
      fun b' u' h => by rw [updCommitted_congr eu]; exact h
    refine ⟨pendInv_of_map hP _ (jobFrame_completeF s b j att ns) [] (by rw [ej, List.append_nil]) hm ?_ (by simp),
      groupsGate_of_map hG G hGF [] (by rw [eg, List.append_nil]) hm (fun g _ h => Or.inl (hGr g h)) (by simp)⟩
    intro x hx hc _ hpend
    rw [updCommitted_congr eu] at hc
    have h1 : isJob b j x = false := by
      cases h : isJob b j x with
      | false => rfl
      | true =>
        have := eq_of_isJob hu hj hx h
        subst this
        exact absurd hst (pending_ne hpend)
    have h2 : isChildOf s b j x = false := by
      cases h : isChildOf s b j x with
      | false => rfl
      | true => rw [hok x hx h] at hc; exact absurd hc (by simp)
    simp only [completeF, Function.comp, h1, Bool.false_eq_true, if_false, h2]
    exact hpend

/-! `commitUpdate` -/

/-- the `batch_updates` rewrite of `commit_batch_update` -/
def commitF (b upd : Nat) (x : Update) : Update := if x.batch = b ∧ x.id = upd then { x with committed := true } else x

theorem commitF_frame (b upd : Nat) (x : Update) :
    (commitF b upd x).batch = x.batch ∧ (commitF b upd x).id = x.id ∧ (x.committed = true → (commitF b upd x).committed = true) := by
  unfold commitF; split_ifs
  · exact ⟨rfl, rfl, fun _ => rfl⟩
  · exact ⟨rfl, rfl, fun h => h⟩

theorem commit_groups_aux {b : Nat} (l l' : List Group) (p : Group → Prop) (inst : DecidablePred p)
    (st : Group → GState) (n : Group → Int)
    (h : l' = l.map (fun g => @ite _ (p g) (inst g) { g with state := st g, nJobs := n g } g))
    (hp : ∀ g, p g → g.batch = b) :
    ∃ G, GroupFrame G ∧ (∀ g, (G g).state = .running → g.state = .running ∨ g.batch = b) ∧ l' = l.map G := by
  refine ⟨_, groupFrame_setStateJobs p st n, ?_, h⟩
  intro g hg
  split_ifs at hg with c1
  · exact Or.inr (hp g c1)
  · exact Or.inl hg

/-- what `commit_batch_update` does to updates / groups / jobs when it takes effect (`s'` = state after) -/
def CommitTables (s : State) (b upd : Nat) (s' : State) : Prop :=
    s' = s ∨
    ∃ u, findUpdate s b upd = some u ∧ u.committed = false ∧
      s'.updates = s.updates.map (commitF b upd) ∧
      (∃ G, GroupFrame G ∧ (∀ g, (G g).state = .running → g.state = .running ∨ g.batch = b) ∧
        s'.groups = s.groups.map G) ∧
      (s'.jobs = s.jobs ∨
        (upd ≠ 1 ∧ ∃ (p : Job → Bool) (R : Job → Job),
          (∀ x, p x = true → x.batch = b ∧ u.startJob ≤ x.id ∧ x.id < u.startJob + u.nJobs) ∧ JobFrame R ∧
          (∀ x, (R x).state = .Ready ∨ (R x).state = .Pending) ∧
          s'.jobs = s.jobs.map (fun x => if p x then R x else x)))

theorem commitUpdate_tables (s : State) (b upd : Nat) : CommitTables s b upd (commitUpdate s b upd).1 := by
  unfold commitUpdate
  model_split
  all_goals first | exact Or.inl rfl | skip
  all_goals
    have hu := ‹findUpdate s b upd = some _›
    have hc := ‹¬ _ = true›
    simp only [Bool.not_eq_true] at hc
    right
  all_goals first
    | exact ⟨_, hu, hc, rfl, ⟨id, GroupFrame.id, fun g h => Or.inl h, (List.map_id _).symm⟩, Or.inl rfl⟩
    | skip
  · exact ⟨_, hu, hc, rfl, commit_groups_aux _ _ _ _ _ _ rfl (fun _ h => And.left h), Or.inl rfl⟩
  · refine ⟨_, hu, hc, rfl, commit_groups_aux _ _ _ _ _ _ rfl (fun _ h => And.left h),
      Or.inr ⟨‹_›, _, _, ?_, ?_, ?_, rfl⟩⟩
    · intro x hx; simpa using hx
    · intro x
      refine ⟨rfl, rfl, rfl, rfl, rfl, rfl, rfl, ?_⟩
      intro hx; dsimp only; split_ifs <;> simp_all
    · intro x; dsimp only; split_ifs
      · exact Or.inl rfl
      · exact Or.inr rfl

theorem updCommitted_after_commit {s s' : State} {b upd : Nat} {u : Update} (hu : findUpdate s b upd = some u)
    (eu : s'.updates = s.updates.map (commitF b upd)) : updCommitted s' b upd = true := by
  have : findUpdate s' b upd = some (commitF b upd u) := by
    unfold findUpdate at *
    rw [eu]
    have := find?_map_append_some (fun x : Update => decide (x.batch = b ∧ x.id = upd)) (commitF b upd)
      (by intro y; simp [(commitF_frame b upd y).1, (commitF_frame b upd y).2.1]) s.updates [] u hu
    simpa using this
  unfold updCommitted
  rw [this]
  obtain ⟨_, h1, h2⟩ := findUpdate_some hu
  simp [commitF, h1, h2]

/-- every job whose id lies in the range reserved for update `upd` of batch `b` belongs to that update (C08: the front end
does not validate job ids against the reserved range, so this is a hypothesis, not an invariant) -/
def RangeOK (s : State) (b upd : Nat) : Prop :=
  match findUpdate s b upd with
  | some u => ∀ x ∈ s.jobs, x.batch = b → u.startJob ≤ x.id → x.id < u.startJob + u.nJobs → x.update = upd
  | none => True

instance (s : State) (b upd : Nat) : Decidable (RangeOK s b upd) := by
  unfold RangeOK; split <;> infer_instance

/-- updates are committed in order as far as the first one is concerned, and the committed update owns its id range -/
def CommitOK (s : State) (b upd : Nat) : Prop := (upd = 1 ∨ updCommitted s b 1 = true) ∧ RangeOK s b upd

theorem inv_commitUpdate (s : State) (b upd : Nat) (hok : CommitOK s b upd) (hP : PendInv s) (hG : GroupsGate s) :
    PendInv (commitUpdate s b upd).1 ∧ GroupsGate (commitUpdate s b upd).1 := by
  rcases commitUpdate_tables s b upd with e | ⟨u, hu, _, eu, ⟨G, hGF, hGr, eg⟩, hjobs⟩
  · rw [e]; exact ⟨hP, hG⟩
  · have hm : ∀ b' u', updCommitted s b' u' = true → updCommitted (commitUpdate s b upd).1 b' u' = true :=
      fun b' u' h => updCommitted_mono_map (commitF b upd) [] (commitF_frame b upd) (by rw [eu, List.append_nil]) b' u' h
    have hafter := updCommitted_after_commit hu eu
    constructor
    · rcases hjobs with ej | ⟨_, p, R, hp, hR, _, ej⟩
      · exact pendInv_of_map hP id JobFrame.id [] (by rw [ej]; simp) hm (fun _ _ _ _ h => h) (by simp)
      · refine pendInv_of_map hP _ (JobFrame.ite p hR) [] (by rw [ej, List.append_nil]) hm ?_ (by simp)
        intro x hx hc _ hpend
        by_cases hpx : p x = true
        · exfalso
          obtain ⟨h1, h2, h3⟩ := hp x hpx
          have hr := hok.2
          unfold RangeOK at hr
          rw [hu] at hr
          have := hr x hx h1 h2 h3
          rw [h1, this, hafter] at hc
          exact absurd hc (by simp)
        · simp only [hpx]; exact hpend
    · refine groupsGate_of_map hG G hGF [] (by rw [eg, List.append_nil]) hm ?_ (by simp)
      intro g _ hg
      rcases hGr g hg with h | h
      · exact Or.inl h
      · right
        rw [h]
        rcases hok.1 with h1 | h1
        · rw [← h1]; exact hafter
        · exact hm _ _ h1

/-! ## the step lemma -/

/-- The per-transaction hypothesis of the partial theorem (decidable on the pre-state):
* `complete b j`: no job listing `j` as a parent belongs to an uncommitted update — excludes the known defect
  (`mark_job_complete`'s child UPDATE has no `committed` check);
* `commitUpdate b u`: `u = 1` or update 1 of the batch is already committed (neither `commit_batch_update` nor
  `_create_batch_update` enforces this order), and every job in `u`'s reserved id range belongs to `u` (C08, unchecked). -/
def OpOK (s : State) : Op → Prop
  | .complete b j _ _ _ _ _ _ _ => ChildrenCommitted s b j
  | .commitUpdate b u => CommitOK s b u
  | _ => True

instance (s : State) (b j : Nat) : Decidable (ChildrenCommitted s b j) := by unfold ChildrenCommitted; infer_instance
instance (s : State) (b u : Nat) : Decidable (CommitOK s b u) := by unfold CommitOK; infer_instance
instance (s : State) (op : Op) : Decidable (OpOK s op) := by cases op <;> unfold OpOK <;> infer_instance

/-- every transaction of the history satisfies `OpOK` in the state it is applied to -/
def HistOK : State → List Op → Prop
  | _, [] => True
  | s, op :: rest => OpOK s op ∧ HistOK (step s op).1 rest

instance : ∀ (s : State) (ops : List Op), Decidable (HistOK s ops)
  | _, [] => by unfold HistOK; infer_instance
  | s, op :: rest => by
    unfold HistOK
    have := instDecidableHistOK (step s op).1 rest
    infer_instance

theorem inv_step (s : State) (hu : JobsUnique s) (op : Op) (hok : OpOK s op) (hP : PendInv s) (hG : GroupsGate s) :
    PendInv (step s op).1 ∧ GroupsGate (step s op).1 := by
  cases op with
  | createBatch u bp t => exact inv_createBatch s u bp t hP hG
  | createUpdate b t nj ng u => exact inv_createUpdate s b t nj ng u hP hG
  | insertGroups b u usr specs => exact inv_insertGroups s b u usr specs hP hG
  | insertJobs b u usr specs => exact inv_insertJobs s b u usr specs hP hG
  | commitUpdate b u => exact inv_commitUpdate s b u hok hP hG
  | cancelGroup b g =>
    exact ⟨pendInv_of_eq hP (cancelGroup_jobs s b g) (gu_updates (gu_cancelGroup s b g)), groupsGate_of_eq hG (gu_cancelGroup s b g)⟩
  | deleteBatch b =>
    exact ⟨pendInv_of_eq hP (deleteBatch_jobs s b) (gu_updates (gu_deleteBatch s b)), groupsGate_of_eq hG (gu_deleteBatch s b)⟩
  | newInstance n c p =>
    exact ⟨pendInv_of_eq hP (newInstance_jobs s n c p) (gu_updates (gu_newInstance s n c p)),
      groupsGate_of_eq hG (gu_newInstance s n c p)⟩
  | activate n => exact ⟨pendInv_of_eq hP (activate_jobs s n) (gu_updates (gu_activate s n)), groupsGate_of_eq hG (gu_activate s n)⟩
  | deactivate n r ts d => exact inv_deactivate s n r ts d hP hG
  | markDeleted n =>
    exact ⟨pendInv_of_eq hP (markDeleted_jobs s n) (gu_updates (gu_markDeleted s n)), groupsGate_of_eq hG (gu_markDeleted s n)⟩
  | schedule b j a i => exact inv_schedule s hu b j a i hP hG
  | creating b j a i ts d => exact inv_startLike s hu b j a i ts d _ _ hP hG
  | started b j a i ts d => exact inv_startLike s hu b j a i ts d _ _ hP hG
  | complete b j a i ns st e r d => exact inv_complete s hu b j a i ns st e r d hok hP hG
  | unschedule b j a i e r d => exact inv_unschedule s hu b j a i e r d hP hG
  | addResources b j a res d =>
    exact ⟨pendInv_of_eq hP (addResources_jobs s b j a res d) (gu_updates (gu_addResources s b j a res d)),
      groupsGate_of_eq hG (gu_addResources s b j a res d)⟩
  | heartbeat atts ts d => exact ⟨pendInv_of_eq hP rfl rfl, groupsGate_of_eq hG rfl⟩
  | cleanupStaging => exact ⟨pendInv_of_eq hP rfl rfl, groupsGate_of_eq hG rfl⟩
  | cleanupCancellable => exact ⟨pendInv_of_eq hP rfl rfl, groupsGate_of_eq hG rfl⟩
  | compact => exact ⟨pendInv_of_eq hP rfl rfl, groupsGate_of_eq hG rfl⟩

/-- the invariant along a history all of whose transactions satisfy `OpOK` -/
theorem inv_run (ops : List Op) : ∀ (s : State), JobsUnique s → PendInv s → GroupsGate s → HistOK s ops →
    PendInv (ops.foldl (fun s op => (step s op).1) s) ∧ GroupsGate (ops.foldl (fun s op => (step s op).1) s) := by
  induction ops with
  | nil => intro s _ hP hG _; exact ⟨hP, hG⟩
  | cons op rest ih =>
    intro s hu hP hG hok
    obtain ⟨h1, h2⟩ := inv_step s hu op hok.1 hP hG
    exact ih _ ((shape_step s op).unique hu) h1 h2 hok.2

end HailVerif.BatchDB

import HailVerif.Model.TxRetry
/-! Helper lemmas for `Props/C27.lean`. -/
namespace HailVerif.TxRetry

variable {σ W : Type} (step : σ → W → Except Err σ) (handler : W → Err → Err)

/-- `PrometheusSQLTimer.__aexit__` returns a falsy value (`Generated.SqlTimer.aexitTruthy = false`, re-read from
`gear/gear/metrics.py` on every run), so the timer around an instrumented statement never changes its outcome: an
exception raised by `cursor.execute` propagates exactly as it does for a statement issued without a `query_name`. -/
theorem timed_eq (named : Bool) (cur : σ) (r : Except Err σ) : timed named cur r = r := by
  cases r <;> simp [timed, Generated.SqlTimer.aexitTruthy]

/-- an attempt whose injected fault did not fire ran exactly the statements of the body -/
theorem exec_ok_imp_faultfree (ws : List (Bool × W)) : ∀ (cur : σ) (f : Option (Nat × Err)) (s : σ),
    exec step handler cur ws f = .ok s → exec step handler cur ws none = .ok s := by
  induction ws with
  | nil =>
    intro cur f s h
    cases f with
    | none => exact h
    | some p =>
      obtain ⟨i, e⟩ := p
      cases i with
      | zero => simp [exec] at h
      | succ i => simpa [exec] using h
  | cons w ws ih =>
    obtain ⟨q, w⟩ := w
    intro cur f s h
    cases f with
    | none => exact h
    | some p =>
      obtain ⟨i, e⟩ := p
      cases i with
      | zero => simp [exec, timed_eq] at h
      | succ i =>
        simp only [exec, timed_eq] at h ⊢
        cases hs : step cur w with
        | error e' => simp [hs] at h
        | ok cur' =>
          simp only [hs] at h ⊢
          exact ih cur' _ s h

/-- a committed attempt leaves exactly the state produced by the body's statements -/
theorem attempt_ok (db db' : σ) (body : List (Bool × W)) (f : Option (Nat × Err))
    (h : attempt step handler db body f = (db', none)) : exec step handler db body none = .ok db' := by
  unfold attempt at h
  simp only [Conn.begin] at h
  split at h
  · cases hx : exec step handler db body none with
    | error e => simp [hx, Conn.rollback] at h
    | ok cur => simp [hx, Conn.commit] at h
  · cases hx : exec step handler db body f with
    | error e => simp [hx, Conn.rollback] at h
    | ok cur =>
      simp [hx, Conn.commit] at h
      subst h
      exact exec_ok_imp_faultfree step handler body db f cur hx

/-- a failed attempt leaves the database as it found it — or, when the calling task was cancelled while the COMMIT was in flight,
with the whole body applied (the shielded commit completes) -/
theorem attempt_err (db db' : σ) (body : List (Bool × W)) (f : Option (Nat × Err)) (e : Err)
    (h : attempt step handler db body f = (db', some e)) : db' = db ∨ (e = cancelled ∧ exec step handler db body none = .ok db') := by
  unfold attempt at h
  simp only [Conn.begin] at h
  split at h
  · cases hx : exec step handler db body none with
    | error e' =>
      simp [hx, Conn.rollback] at h
      exact Or.inl h.1.symm
    | ok cur =>
      simp [hx, Conn.commit] at h
      exact Or.inr ⟨h.2.symm, by rw [h.1]⟩
  · cases hx : exec step handler db body f with
    | error e' =>
      simp [hx, Conn.rollback] at h
      exact Or.inl h.1.symm
    | ok cur => simp [hx, Conn.commit] at h

theorem retryable_ne_cancelled (e : Err) (hr : retryable e = true) : e ≠ cancelled := by
  intro h; subst h; simp [retryable, cancelled] at hr

/-- an attempt that failed with a retryable error left the database as it found it -/
theorem attempt_err_retryable (db db' : σ) (body : List (Bool × W)) (f : Option (Nat × Err)) (e : Err)
    (h : attempt step handler db body f = (db', some e)) (hr : retryable e = true) : db' = db := by
  rcases attempt_err step handler db db' body f e h with h1 | ⟨h1, _⟩
  · exact h1
  · exact absurd h1 (retryable_ne_cancelled e hr)

theorem runFrom_spec (db : σ) (body : List (Bool × W)) (scripts : List (Option (Nat × Err))) : ∀ n,
    ((runFrom step handler n db body scripts).error = none → exec step handler db body none = .ok (runFrom step handler n db body scripts).db) ∧
    (∀ e, (runFrom step handler n db body scripts).error = some e → (runFrom step handler n db body scripts).db = db ∨
      (e = cancelled ∧ exec step handler db body none = .ok (runFrom step handler n db body scripts).db)) := by
  induction scripts with
  | nil =>
    intro n
    simp only [runFrom]
    rcases ha : attempt step handler db body none with ⟨db', err⟩
    cases err with
    | none => exact ⟨fun _ => attempt_ok step handler db db' body none ha, fun e h => by simp at h⟩
    | some e =>
      refine ⟨fun h => by simp at h, fun e' he' => ?_⟩
      simp at he'; subst he'
      exact attempt_err step handler db db' body none e ha
  | cons f fs ih =>
    intro n
    simp only [runFrom]
    rcases ha : attempt step handler db body f with ⟨db', err⟩
    cases err with
    | none => exact ⟨fun _ => attempt_ok step handler db db' body f ha, fun e h => by simp at h⟩
    | some e =>
      by_cases hr : retryable e = true
      · have hdb : db' = db := attempt_err_retryable step handler db db' body f e ha hr
        subst hdb
        simp only [hr, if_true]
        exact ih (n + 1)
      · simp only [hr]
        refine ⟨fun h => by simp at h, fun e' he' => ?_⟩
        simp at he'; subst he'
        exact attempt_err step handler db db' body f e ha

theorem attempts_runFrom_ge (db : σ) (body : List (Bool × W)) (scripts : List (Option (Nat × Err))) : ∀ n,
    n + 1 ≤ (runFrom step handler n db body scripts).attempts := by
  induction scripts generalizing db with
  | nil => intro n; simp only [runFrom]; rcases attempt step handler db body none with ⟨_, _⟩; simp
  | cons f fs ih =>
    intro n
    simp only [runFrom]
    rcases attempt step handler db body f with ⟨db', err⟩
    cases err with
    | none => simp
    | some e =>
      by_cases hr : retryable e = true
      · simp only [hr, if_true]
        have := ih db' (n + 1)
        omega
      · simp [hr]

end HailVerif.TxRetry

import HailVerif.Proofs.BatchDBCancel
/-!
Helper lemmas for C04 / C05: the job lifecycle relation, what every transaction does to the `jobs`, `job_parents`
and `batch_updates` tables, and the invariants that make `commit_batch_update` and the child UPDATE of
`mark_job_complete` lifecycle-safe.
-/
namespace HailVerif.BatchDB

/-! ## the lifecycle relation -/

def JState.active (st : JState) : Bool := decide (st = .Ready) || decide (st = .Creating) || decide (st = .Running)

/-- the allowed moves of `jobs.state` within one transaction (reflexive) -/
def allowed (a b : JState) : Bool :=
  decide (a = b) ||
  match a with
  | .Pending => decide (b = .Ready)
  | .Ready => decide (b = .Creating) || decide (b = .Running) || b.terminal
  | .Creating => decide (b = .Running) || decide (b = .Ready) || b.terminal
  | .Running => decide (b = .Ready) || b.terminal
  | _ => false

theorem allowed_refl (a : JState) : allowed a a = true := by simp [allowed]

theorem allowed_terminal {a b : JState} (ha : a.terminal = true) (h : allowed a b = true) : b = a := by
  cases a <;> cases b <;> simp_all [allowed, JState.terminal]

theorem allowed_pending {b : JState} (h : allowed .Pending b = true) : b = .Pending ∨ b = .Ready := by
  cases b <;> simp_all [allowed]

theorem allowed_active_terminal {a b : JState} (ha : a.active = true) (hb : b.terminal = true) : allowed a b = true := by
  cases a <;> cases b <;> simp_all [allowed, JState.terminal, JState.active]

theorem active_not_terminal {a : JState} (ha : a.active = true) : a.terminal = false := by
  cases a <;> simp_all [JState.terminal, JState.active]

theorem active_not_pending {a : JState} (ha : a.active = true) : a ≠ .Pending := by
  cases a <;> simp_all [JState.active]

theorem isRunnable_eq (st : JState) : isRunnable st = !st.terminal := by
  cases st <;> simp [isRunnable, JState.terminal]

/-! ## lookups after an in-place update / an append -/

theorem findJob_mapF {s s' : State} {F : Job → Job} (hF : JobFrame F) (e : s'.jobs = s.jobs.map F) (b j : Nat) :
    findJob s' b j = (findJob s b j).map F := by
  unfold findJob
  rw [e, List.find?_map]
  congr 1
  congr 1
  funext y
  simp [(hF y).1, (hF y).2.1]

theorem findJob_append_some {s s' : State} {new : List Job} (e : s'.jobs = s.jobs ++ new) {b j : Nat} {x : Job}
    (h : findJob s b j = some x) : findJob s' b j = some x := by
  unfold findJob at *
  rw [e, List.find?_append, h]; rfl

theorem findJob_append_none {s s' : State} {new : List Job} (e : s'.jobs = s.jobs ++ new) {b j : Nat}
    (h : findJob s b j = none) : findJob s' b j = new.find? (fun x => x.batch = b ∧ x.id = j) := by
  unfold findJob at *
  rw [e, List.find?_append, h]; rfl

theorem findJob_isSome_of_mem {s : State} {x : Job} (hx : x ∈ s.jobs) : (findJob s x.batch x.id).isSome = true := by
  unfold findJob
  rw [List.find?_isSome]
  exact ⟨x, hx, by simp⟩

/-- the three tables the lifecycle invariants read -/
def Same3 (s s' : State) : Prop := s'.jobs = s.jobs ∧ s'.parents = s.parents ∧ s'.updates = s.updates

/-- `job_parents` and `batch_updates` untouched -/
def SamePU (s s' : State) : Prop := s'.parents = s.parents ∧ s'.updates = s.updates

theorem SamePU.refl (s : State) : SamePU s s := ⟨rfl, rfl⟩
theorem SamePU.trans {a b c : State} (h1 : SamePU a b) (h2 : SamePU b c) : SamePU a c :=
  ⟨h2.1.trans h1.1, h2.2.trans h1.2⟩

theorem samePU_updateJobs (s : State) (p : Job → Bool) (f : Job → Job) : SamePU s (updateJobs s p f) := ⟨rfl, rfl⟩
theorem samePU_updateAttempts (s : State) (d : Nat) (p : Attempt → Bool)
    (f : Generated.AttemptsTrigger.Row → Generated.AttemptsTrigger.Row) : SamePU s (updateAttempts s d p f) := ⟨rfl, rfl⟩
theorem samePU_addAttempt (s : State) (b j : Nat) (a i : Option Nat) (c : Int) : SamePU s (addAttempt s b j a i c).1 :=
  ⟨by simp, by simp⟩
theorem samePU_freeAdd (s : State) (i : Option Nat) (d : Int) : SamePU s (freeAdd s i d) := ⟨rfl, rfl⟩
theorem samePU_endAttempts (s : State) (d : Nat) (p : Attempt → Bool) (ts : Int) (r : String) :
    SamePU s (endAttempts s d p ts r) := ⟨rfl, rfl⟩

theorem samePU_schedulePrep (s : State) (b j a i : Nat) (job : Job) : SamePU s (schedulePrep s b j a i job) :=
  samePU_addAttempt s b j _ _ _

theorem samePU_startPrep (s : State) (b j a i : Nat) (ts : Int) (d : Nat) (job : Job) :
    SamePU s (startPrep s b j a i ts d job) :=
  (samePU_addAttempt s b j _ _ _).trans (samePU_updateAttempts _ d _ _)

theorem samePU_completePrep (s : State) (b j : Nat) (att inst : Option Nat) (st e : Option Int) (r : String) (d : Nat)
    (job : Job) : SamePU s (completePrep s b j att inst st e r d job) := by
  unfold completePrep
  dsimp only
  have h1 := samePU_addAttempt s b j att inst job.cores
  cases att with
  | none => dsimp only; split_ifs
            · exact h1.trans (samePU_freeAdd _ _ _)
            · exact h1
  | some a => dsimp only; split_ifs
              · exact (h1.trans (samePU_updateAttempts _ d _ _)).trans (samePU_freeAdd _ _ _)
              · exact h1.trans (samePU_updateAttempts _ d _ _)

theorem samePU_unschedulePrep (s : State) (b j a i : Nat) (e : Int) (r : String) (d : Nat) (job : Job) :
    SamePU s (unschedulePrep s b j a i e r d job) := by
  unfold unschedulePrep
  dsimp only
  split_ifs
  · exact (samePU_endAttempts s d _ e r).trans (samePU_freeAdd _ _ _)
  · exact samePU_endAttempts s d _ e r

theorem samePU_completeJob (s : State) (b j : Nat) (att : Option Nat) (ns : JState) (job : Job) :
    SamePU s (completeJob s b j att ns job) := ⟨rfl, rfl⟩

theorem samePU_deactivateApply (s : State) (n : Nat) (r : String) (ts : Int) (d : Nat) :
    SamePU s (deactivateApply s n r ts d) := ⟨rfl, rfl⟩

/-! ## transactions that touch none of the three tables -/

theorem same3_createBatch (s : State) (u bp t : Nat) : Same3 s (createBatch s u bp t).1 := by
  unfold createBatch; model_split <;> exact ⟨rfl, rfl, rfl⟩
theorem same3_cancelGroup (s : State) (b g : Nat) : Same3 s (cancelGroup s b g).1 := by
  unfold cancelGroup; split_ifs <;> exact ⟨rfl, rfl, rfl⟩
theorem same3_deleteBatch (s : State) (b : Nat) : Same3 s (deleteBatch s b).1 := by
  unfold deleteBatch; split
  · exact ⟨rfl, rfl, rfl⟩
  · split_ifs <;> exact ⟨rfl, rfl, rfl⟩
theorem same3_newInstance (s : State) (n : Nat) (c : Int) (p : Bool) : Same3 s (newInstance s n c p).1 := by
  unfold newInstance; split_ifs <;> exact ⟨rfl, rfl, rfl⟩
theorem same3_activate (s : State) (n : Nat) : Same3 s (activate s n).1 := by
  unfold activate; model_split <;> exact ⟨rfl, rfl, rfl⟩
theorem same3_markDeleted (s : State) (n : Nat) : Same3 s (markDeleted s n).1 := by
  unfold markDeleted; model_split <;> exact ⟨rfl, rfl, rfl⟩
theorem same3_addResources (s : State) (b j a : Nat) (res : List (Nat × Int)) (d : Nat) :
    Same3 s (addResources s b j a res d).1 := by
  unfold addResources; split_ifs <;> exact ⟨rfl, rfl, rfl⟩

theorem same3_insertGroup (s s' : State) (b upd gid parent : Nat) (h : insertGroup s b upd gid parent = some s') :
    Same3 s s' := by
  unfold insertGroup at h; split_ifs at h; simp only [Option.some.injEq] at h; subst h; exact ⟨rfl, rfl, rfl⟩

theorem Same3.refl (s : State) : Same3 s s := ⟨rfl, rfl, rfl⟩
theorem Same3.trans {a b c : State} (h1 : Same3 a b) (h2 : Same3 b c) : Same3 a c :=
  ⟨h2.1.trans h1.1, h2.2.1.trans h1.2.1, h2.2.2.trans h1.2.2⟩

theorem same3_foldGroups (b upd : Nat) (u : Update) (specs : List GroupSpec) :
    ∀ (s s' : State), specs.foldl (groupSpecStep b upd u) (some s) = some s' → Same3 s s' := by
  induction specs with
  | nil => intro s s' h; simp at h; subst h; exact Same3.refl s
  | cons sp rest ih =>
    intro s s' h
    simp only [List.foldl_cons] at h
    cases hmid : groupSpecStep b upd u (some s) sp with
    | none => rw [hmid, foldGroups_none] at h; exact absurd h (by simp)
    | some mid =>
      rw [hmid] at h
      exact (same3_insertGroup s mid b upd _ _ (by simpa [groupSpecStep] using hmid)).trans (ih mid s' h)

theorem same3_insertGroups (s : State) (b upd user : Nat) (specs : List GroupSpec) :
    Same3 s (insertGroups s b upd user specs).1 := by
  unfold insertGroups
  model_split
  all_goals first | exact Same3.refl s | skip
  next s' hr => exact same3_foldGroups b upd _ _ s s' hr

/-! ## driver-side transactions: some Ready / Creating / Running rows move to another of these states -/

structure DriverStep (s s' : State) : Prop where
  jobs : ∃ (p : Job → Bool) (st : JState) (a : Option Nat),
    s'.jobs = s.jobs.map (fun y => if p y then setStateAttempt st a y else y) ∧ st.active = true ∧
    ∀ y ∈ s.jobs, p y = true → y.state.active = true ∧ allowed y.state st = true
  pu : SamePU s s'

theorem driverStep_of_same {s s' : State} (e : s'.jobs = s.jobs) (pu : SamePU s s') : DriverStep s s' :=
  ⟨⟨fun _ => false, .Ready, none, by simp [e], rfl, by intro y _ h; simp at h⟩, pu⟩

theorem driverStep_schedule (s : State) (hu : JobsUnique s) (b j a i : Nat) : DriverStep s (schedule s b j a i).1 := by
  unfold schedule
  split
  · exact driverStep_of_same rfl (SamePU.refl s)
  · rename_i job hj
    replace hj := findJobFk_some hj
    split_ifs with hg
    · refine ⟨⟨isJob b j, .Running, some a, by rw [updateJobs_jobs, schedulePrep_jobs], rfl, ?_⟩,
        (samePU_schedulePrep s b j a i job).trans (samePU_updateJobs _ _ _)⟩
      intro y hy hp
      have := eq_of_isJob hu hj hy hp
      subst this
      rcases hg.1 with h | h <;> simp [h, JState.active, allowed]
    · exact driverStep_of_same (by simp) (samePU_schedulePrep s b j a i job)

theorem driverStep_startLike (s : State) (hu : JobsUnique s) (b j a i : Nat) (ts : Int) (d : Nat) (need : IState)
    (ns : JState) (hns : ns = .Creating ∨ ns = .Running) : DriverStep s (startLike s b j a i ts d need ns).1 := by
  unfold startLike
  split
  · exact driverStep_of_same rfl (SamePU.refl s)
  · rename_i job hj
    replace hj := findJobFk_some hj
    split_ifs with hg
    · refine ⟨⟨isJob b j, ns, some a, by rw [updateJobs_jobs, startPrep_jobs], by rcases hns with h | h <;> simp [h, JState.active], ?_⟩,
        (samePU_startPrep s b j a i ts d job).trans (samePU_updateJobs _ _ _)⟩
      intro y hy hp
      have := eq_of_isJob hu hj hy hp
      subst this
      rcases hns with h | h <;> simp [h, hg.1, JState.active, allowed]
    · exact driverStep_of_same (by simp) (samePU_startPrep s b j a i ts d job)

theorem driverStep_unschedule (s : State) (hu : JobsUnique s) (b j a i : Nat) (e : Int) (r : String) (d : Nat) :
    DriverStep s (unschedule s b j a i e r d).1 := by
  unfold unschedule
  split
  · exact driverStep_of_same rfl (SamePU.refl s)
  · rename_i job hj
    split_ifs with hg
    · refine ⟨⟨isJob b j, .Ready, none, by rw [updateJobs_jobs, unschedulePrep_jobs], rfl, ?_⟩,
        (samePU_unschedulePrep s b j a i e r d job).trans (samePU_updateJobs _ _ _)⟩
      intro y hy hp
      have := eq_of_isJob hu hj hy hp
      subst this
      rcases hg.1 with h | h <;> simp [h, JState.active, allowed]
    · exact driverStep_of_same (by simp) (samePU_unschedulePrep s b j a i e r d job)

theorem driverStep_deactivate (s : State) (n : Nat) (r : String) (ts : Int) (d : Nat) :
    DriverStep s (deactivate s n r ts d).1 := by
  unfold deactivate
  split
  · exact driverStep_of_same rfl (SamePU.refl s)
  · split_ifs
    · exact driverStep_of_same rfl (SamePU.refl s)
    · refine ⟨⟨onInstance (endAttempts s d (fun a => a.inst = some n) ts r) n, .Ready, none, rfl, rfl, ?_⟩,
        samePU_deactivateApply s n r ts d⟩
      intro y _ hp
      unfold onInstance at hp
      simp only [Bool.and_eq_true, Bool.or_eq_true, decide_eq_true_eq] at hp
      rcases hp.1 with h | h <;> simp [h, JState.active, allowed]

theorem foldl_max_some (f : Option Update → Update → Option Update) (hf0 : ∀ u, f none u = some u)
    (hf1 : ∀ m u, f (some m) u = if u.id > m.id then some u else some m) (l : List Update) :
    ∀ (acc : Option Update) (m : Update), l.foldl f acc = some m →
      (m ∈ l ∨ acc = some m) ∧ (∀ x ∈ l, x.id ≤ m.id) ∧ (∀ a, acc = some a → a.id ≤ m.id) := by
  induction l with
  | nil => intro acc m h; simp at h; subst h; simp
  | cons y l ih =>
    intro acc m h
    simp only [List.foldl_cons] at h
    obtain ⟨h1, h2, h3⟩ := ih _ m h
    cases acc with
    | none =>
      rw [hf0] at h1 h3
      refine ⟨?_, ?_, by simp⟩
      · rcases h1 with h | h
        · exact Or.inl (List.mem_cons_of_mem _ h)
        · simp at h; subst h; exact Or.inl (by simp)
      · intro x hx
        rcases List.mem_cons.mp hx with rfl | hx
        · exact h3 _ rfl
        · exact h2 x hx
    | some a =>
      rw [hf1] at h1 h3
      split_ifs at h1 h3 with hgt
      · refine ⟨?_, ?_, ?_⟩
        · rcases h1 with h | h
          · exact Or.inl (List.mem_cons_of_mem _ h)
          · simp at h; subst h; exact Or.inl (by simp)
        · intro x hx
          rcases List.mem_cons.mp hx with rfl | hx
          · exact h3 _ rfl
          · exact h2 x hx
        · intro a' ha'; simp at ha'; subst ha'; have := h3 _ rfl; omega
      · refine ⟨?_, ?_, ?_⟩
        · rcases h1 with h | h
          · exact Or.inl (List.mem_cons_of_mem _ h)
          · exact Or.inr h
        · intro x hx
          rcases List.mem_cons.mp hx with rfl | hx
          · have := h3 _ rfl; omega
          · exact h2 x hx
        · intro a' ha'; simp at ha'; subst ha'; exact h3 _ rfl

theorem foldl_max_none (f : Option Update → Update → Option Update) (hf0 : ∀ u, f none u = some u)
    (hf1 : ∀ m u, f (some m) u = if u.id > m.id then some u else some m) (l : List Update) :
    ∀ (acc : Option Update), l.foldl f acc = none → acc = none ∧ l = [] := by
  induction l with
  | nil => intro acc h; simpa using h
  | cons y l ih =>
    intro acc h
    simp only [List.foldl_cons] at h
    have := (ih _ h).1
    cases acc with
    | none => rw [hf0] at this; simp at this
    | some a => rw [hf1] at this; split_ifs at this

/-- `batch_updates` rows of one batch have increasing ids and consecutive, disjoint job-id ranges; (batch, id) is a key -/
def UpdOrdered (s : State) : Prop :=
  ∀ u ∈ s.updates, ∀ u' ∈ s.updates, u.batch = u'.batch →
    (u.id < u'.id → u.startJob + u.nJobs ≤ u'.startJob) ∧ (u.id = u'.id → u = u') ∧ 1 ≤ u.id

theorem createUpdate_cases (s : State) (ho : UpdOrdered s) (b t nj ng usr : Nat) :
    Same3 s (createUpdate s b t nj ng usr).1 ∨
    ((createUpdate s b t nj ng usr).1.jobs = s.jobs ∧ (createUpdate s b t nj ng usr).1.parents = s.parents ∧
      ∃ n : Update, (createUpdate s b t nj ng usr).1.updates = s.updates ++ [n] ∧ n.batch = b ∧ n.committed = false ∧
        1 ≤ n.id ∧ ∀ x ∈ s.updates, x.batch = b → x.id < n.id ∧ x.startJob + x.nJobs ≤ n.startJob) := by
  unfold createUpdate
  split
  · exact Or.inl (Same3.refl s)
  · split
    · exact Or.inl (Same3.refl s)
    · split
      · exact Or.inl (Same3.refl s)
      · split
        · exact Or.inl (Same3.refl s)
        · split
          · exact Or.inl (Same3.refl s)
          · dsimp only
            right
            refine ⟨rfl, rfl, _, rfl, rfl, rfl, ?_, ?_⟩
            · dsimp only; split <;> simp
            · intro x hx hxb
              have hxf : x ∈ List.filter (fun x => decide (x.batch = b)) s.updates := by simp [hx, hxb]
              dsimp only
              split
              · rename_i m hm
                obtain ⟨h1, h2, -⟩ := foldl_max_some _ (fun _ => rfl) (fun _ _ => rfl) _ _ _ hm
                simp only [reduceCtorEq, or_false, List.mem_filter, decide_eq_true_eq] at h1
                have hle := h2 x hxf
                obtain ⟨k1, k2, -⟩ := ho x hx m h1.1 (by rw [hxb, h1.2])
                dsimp only
                refine ⟨by omega, ?_⟩
                rcases Nat.lt_or_ge x.id m.id with hlt | hge
                · have := k1 hlt; omega
                · have := k2 (by omega); subst this; omega
              · rename_i hn
                have := (foldl_max_none _ (fun _ => rfl) (fun _ _ => rfl) _ _ hn).2
                rw [this] at hxf; simp at hxf

/-! ## `_create_jobs`, `commit_batch_update`, `mark_job_complete`: what they do to the three tables -/

/-- `job_parents` rows written by a bunch -/
def specParents (u : Update) (b : Nat) (specs : List JobSpec) : List (Nat × Nat × Nat) :=
  specs.flatMap fun sp => (jobParents u sp).map fun p => (b, sp.relId + u.startJob - 1, p)

theorem insertJobs_cases (s : State) (b upd user : Nat) (specs : List JobSpec) :
    Same3 s (insertJobs s b upd user specs).1 ∨
    ∃ u bt first, findUpdate s b upd = some u ∧ insertJobsReject s b user u bt first specs = none ∧
      (insertJobs s b upd user specs).1.jobs = s.jobs ++ specs.map (mkJob u b) ∧
      (insertJobs s b upd user specs).1.parents = s.parents ++ specParents u b specs ∧
      (insertJobs s b upd user specs).1.updates = s.updates := by
  unfold insertJobs
  split
  · exact Or.inl (Same3.refl s)
  · split
    · split
      · exact Or.inl (Same3.refl s)
      · rename_i hrej
        rename_i _ _ u bt hu hb _
        exact Or.inr ⟨u, bt, _, hu, hrej, rfl, rfl, rfl⟩
    · exact Or.inl (Same3.refl s)

/-- parents of job `c` as `commit_batch_update` reads them -/
def parentsOf (s : State) (b c : Nat) : List Nat := (s.parents.filter fun r => r.1 = b ∧ r.2.1 = c).map (·.2.2)

/-- the recomputation of `commit_batch_update` for one job row, reading parents and their states in `s` -/
def recomputeJob (s : State) (b : Nat) (j : Job) : Job :=
  let pstates := (parentsOf s b j.id).map fun p => (findJob s b p).map (·.state)
  let nParents : Int := (parentsOf s b j.id).length
  let nPending : Int := (pstates.filter fun st => match st with | some x => isRunnable x | none => false).length
  let nSucceeded : Int := (pstates.filter fun st => st = some .Success).length
  { j with
    state := if nPending = 0 then .Ready else .Pending
    npp := nPending
    cancelled := if nSucceeded = nParents - nPending then j.cancelled else true }

def inUpdRange (b : Nat) (u : Update) (j : Job) : Bool := j.batch = b ∧ u.startJob ≤ j.id ∧ j.id < u.startJob + u.nJobs

def markCommitted (b upd : Nat) (x : Update) : Update :=
  if x.batch = b ∧ x.id = upd then { x with committed := true } else x

theorem jobFrame_recomputeJob (s : State) (b : Nat) : JobFrame (recomputeJob s b) := by
  intro x
  refine ⟨rfl, rfl, rfl, rfl, rfl, rfl, rfl, ?_⟩
  intro hx; unfold recomputeJob; dsimp only; split_ifs <;> simp_all

theorem commitUpdate_cases (s : State) (b upd : Nat) :
    Same3 s (commitUpdate s b upd).1 ∨
    ∃ u, findUpdate s b upd = some u ∧ u.committed = false ∧
      (commitUpdate s b upd).1.parents = s.parents ∧
      (commitUpdate s b upd).1.updates = s.updates.map (markCommitted b upd) ∧
      (((upd = 1 ∨ u.nJobs = 0) ∧ (commitUpdate s b upd).1.jobs = s.jobs) ∨
       (upd ≠ 1 ∧ (commitUpdate s b upd).1.jobs =
          s.jobs.map (fun j => if inUpdRange b u j then recomputeJob s b j else j))) := by
  unfold commitUpdate
  split
  · exact Or.inl (Same3.refl s)
  · rename_i u hu
    split
    · exact Or.inl (Same3.refl s)
    · rename_i hc
      dsimp only
      split
      · exact Or.inl (Same3.refl s)
      · split
        · rename_i h0
          exact Or.inr ⟨u, hu, by simpa using hc, rfl, rfl, Or.inl ⟨Or.inr h0, rfl⟩⟩
        · split
          · rename_i h1
            exact Or.inr ⟨u, hu, by simpa using hc, rfl, rfl, Or.inl ⟨Or.inl h1, rfl⟩⟩
          · rename_i h1
            exact Or.inr ⟨u, hu, by simpa using hc, rfl, rfl, Or.inr ⟨h1, rfl⟩⟩

/-- the two UPDATEs of `mark_job_complete` on one row: the completing job gets its state, then children are released -/
def completeMap (s : State) (b j : Nat) (att : Option Nat) (ns : JState) (y : Job) : Job :=
  (fun y => if isChildOf s b j y then childUpdate ns y else y) (if isJob b j y then setStateAttempt ns att y else y)

theorem jobFrame_completeMap (s : State) (b j : Nat) (att : Option Nat) (ns : JState) :
    JobFrame (completeMap s b j att ns) :=
  (JobFrame.ite _ (jobFrame_setStateAttempt ns att)).comp (JobFrame.ite _ (jobFrame_childUpdate ns))

theorem complete_cases (s : State) (b j : Nat) (att inst : Option Nat) (ns : JState) (st e : Option Int) (r : String)
    (d : Nat) :
    SamePU s (complete s b j att inst ns st e r d).1 ∧
    ((complete s b j att inst ns st e r d).1.jobs = s.jobs ∧
        (∀ job, findJob s b j = some job → (complete s b j att inst ns st e r d).2 = .ok 0 → job.state.terminal = true) ∨
     ∃ job, findJob s b j = some job ∧ job.state.active = true ∧ (job.attempt = none ∨ att = none ∨ job.attempt = att) ∧
      (complete s b j att inst ns st e r d).2 = .ok 0 ∧
      (complete s b j att inst ns st e r d).1.jobs = s.jobs.map (completeMap s b j att ns)) := by
  unfold complete
  split
  · -- no job row, or `add_attempt` violated the foreign key on `instances`: nothing written, never `ok 0`
    exact ⟨SamePU.refl s, Or.inl ⟨rfl, by intro job _ h; revert h; dsimp only; split_ifs <;> simp⟩⟩
  · rename_i job hj
    replace hj := findJobFk_some hj
    split_ifs with h1 h2 h3
    · exact ⟨samePU_completePrep .., Or.inl ⟨by simp, by intro _ _ h; simp at h⟩⟩
    · refine ⟨((samePU_completePrep s b j att inst st e r d job).trans (samePU_completeJob _ b j att ns job)).trans
        (samePU_updateJobs _ _ _), Or.inr ⟨job, hj, ?_, ?_, rfl, ?_⟩⟩
      · rcases h2 with h | h | h <;> simp [h, JState.active]
      · cases hja : job.attempt with
        | none => exact Or.inl rfl
        | some a =>
          right
          rw [hja] at h1
          cases hatt : att with
          | none => exact Or.inl rfl
          | some a' => right; rw [hatt] at h1; simpa using h1
      · rw [updateJobs_jobs]
        unfold completeJob
        simp only [markGroupsComplete_jobs, completeBatchIfDone_jobs, tallyGroups_jobs, updateJobs_jobs, completePrep_jobs,
          List.map_map]
        rfl
    · exact ⟨samePU_completePrep .., Or.inl ⟨by simp, by intro job' hj' _; rw [hj] at hj'; cases hj'; exact h3⟩⟩
    · exact ⟨samePU_completePrep .., Or.inl ⟨by simp, by intro _ _ h; simp at h⟩⟩

/-! ## one description of every transaction -/

/-- what the transaction `op` does to `jobs`, `job_parents` and `batch_updates` -/
inductive StepDesc (s : State) (op : Op) (s' : State) : Prop
  | same (h : Same3 s s')
  | newUpdate (b : Nat) (n : Update) (hj : s'.jobs = s.jobs) (hp : s'.parents = s.parents)
      (hu : s'.updates = s.updates ++ [n]) (hb : n.batch = b) (hc : n.committed = false) (h1 : 1 ≤ n.id)
      (hlt : ∀ x ∈ s.updates, x.batch = b → x.id < n.id ∧ x.startJob + x.nJobs ≤ n.startJob)
  | insert (b upd user : Nat) (specs : List JobSpec) (u : Update) (bt : Batch) (first : JobSpec)
      (hop : op = .insertJobs b upd user specs) (hu : findUpdate s b upd = some u)
      (hrej : insertJobsReject s b user u bt first specs = none) (hj : s'.jobs = s.jobs ++ specs.map (mkJob u b))
      (hp : s'.parents = s.parents ++ specParents u b specs) (hupd : s'.updates = s.updates)
  | commit (b upd : Nat) (u : Update) (hu : findUpdate s b upd = some u) (hc : u.committed = false)
      (hp : s'.parents = s.parents) (hupd : s'.updates = s.updates.map (markCommitted b upd))
      (hj : ((upd = 1 ∨ u.nJobs = 0) ∧ s'.jobs = s.jobs) ∨
        (upd ≠ 1 ∧ s'.jobs = s.jobs.map (fun j => if inUpdRange b u j then recomputeJob s b j else j)))
  | driver (h : DriverStep s s')
  | complete (b j : Nat) (att inst : Option Nat) (ns : JState) (st e : Option Int) (r : String) (d : Nat) (job : Job)
      (hop : op = .complete b j att inst ns st e r d) (hj : findJob s b j = some job)
      (hact : job.state.active = true) (hatt : job.attempt = none ∨ att = none ∨ job.attempt = att) (hpu : SamePU s s')
      (hjobs : s'.jobs = s.jobs.map (completeMap s b j att ns))

theorem stepDesc (s : State) (hu : JobsUnique s) (ho : UpdOrdered s) (op : Op) :
    StepDesc s op (step s op).1 := by
  cases op with
  | createBatch u bp t => exact .same (same3_createBatch s u bp t)
  | createUpdate b t nj ng u =>
    rcases createUpdate_cases s ho b t nj ng u with h | ⟨hj, hp, n, h1, h2, h3, h4, h5⟩
    · exact .same h
    · exact .newUpdate b n hj hp h1 h2 h3 h4 h5
  | insertGroups b u usr specs => exact .same (same3_insertGroups s b u usr specs)
  | insertJobs b u usr specs =>
    rcases insertJobs_cases s b u usr specs with h | ⟨u', bt, first, h1, h2, h3, h4, h5⟩
    · exact .same h
    · exact .insert b u usr specs u' bt first rfl h1 h2 h3 h4 h5
  | commitUpdate b u =>
    rcases commitUpdate_cases s b u with h | ⟨u', h1, h2, h3, h4, h5⟩
    · exact .same h
    · exact .commit b u u' h1 h2 h3 h4 h5
  | cancelGroup b g => exact .same (same3_cancelGroup s b g)
  | deleteBatch b => exact .same (same3_deleteBatch s b)
  | newInstance n c p => exact .same (same3_newInstance s n c p)
  | activate n => exact .same (same3_activate s n)
  | deactivate n r ts d => exact .driver (driverStep_deactivate s n r ts d)
  | markDeleted n => exact .same (same3_markDeleted s n)
  | schedule b j a i => exact .driver (driverStep_schedule s hu b j a i)
  | creating b j a i ts d => exact .driver (driverStep_startLike s hu b j a i ts d _ _ (Or.inl rfl))
  | started b j a i ts d => exact .driver (driverStep_startLike s hu b j a i ts d _ _ (Or.inr rfl))
  | complete b j a i ns st e r d =>
    obtain ⟨hpu, h | ⟨job, h1, h2, h3, _, h5⟩⟩ := complete_cases s b j a i ns st e r d
    · exact .same ⟨h.1, hpu.1, hpu.2⟩
    · exact .complete b j a i ns st e r d job rfl h1 h2 h3 hpu h5
  | unschedule b j a i e r d => exact .driver (driverStep_unschedule s hu b j a i e r d)
  | addResources b j a res d => exact .same (same3_addResources s b j a res d)
  | heartbeat atts ts d => exact .same ⟨rfl, rfl, rfl⟩
  | cleanupStaging => exact .same ⟨rfl, rfl, rfl⟩
  | cleanupCancellable => exact .same ⟨rfl, rfl, rfl⟩
  | compact => exact .same ⟨rfl, rfl, rfl⟩

/-! ## a Pending job never starts or completes (no hypothesis beyond key uniqueness) -/

theorem childUpdate_state (ns : JState) (x : Job) : (childUpdate ns x).state = .Pending ∨ (childUpdate ns x).state = .Ready := by
  unfold childUpdate; dsimp only; split_ifs <;> simp

theorem recomputeJob_state (s : State) (b : Nat) (x : Job) :
    (recomputeJob s b x).state = .Pending ∨ (recomputeJob s b x).state = .Ready := by
  unfold recomputeJob; dsimp only; split_ifs <;> simp

theorem pending_step {s s' : State} {op : Op} (h : StepDesc s op s') (hu : JobsUnique s) (x : Job) (hx : x ∈ s.jobs)
    (hp : x.state = .Pending) (x' : Job) (hx' : findJob s' x.batch x.id = some x') :
    x'.state = .Pending ∨ x'.state = .Ready := by
  have hfind := findJob_of_mem hu x hx
  cases h with
  | same h => rw [findJob_congr h.1, hfind] at hx'; cases hx'; exact Or.inl hp
  | newUpdate b n hj => rw [findJob_congr hj, hfind] at hx'; cases hx'; exact Or.inl hp
  | insert b upd user specs u bt first hop hu' hrej hj =>
    rw [findJob_append_some hj hfind] at hx'; cases hx'; exact Or.inl hp
  | commit b upd u hu' hc hp' hupd hj =>
    rcases hj with ⟨_, hj⟩ | ⟨_, hj⟩
    · rw [findJob_congr hj, hfind] at hx'; cases hx'; exact Or.inl hp
    · rw [findJob_mapF (JobFrame.ite _ (jobFrame_recomputeJob s b)) hj, hfind] at hx'
      simp only [Option.map_some, Option.some.injEq] at hx'
      subst hx'
      split_ifs
      · exact recomputeJob_state s b x
      · exact Or.inl hp
  | driver h =>
    obtain ⟨⟨p, st, a, hj, _, hall⟩, _⟩ := h
    rw [findJob_mapF (JobFrame.ite _ (jobFrame_setStateAttempt st a)) hj, hfind] at hx'
    simp only [Option.map_some, Option.some.injEq] at hx'
    subst hx'
    split_ifs with hpx
    · have := (hall x hx hpx).1; rw [hp] at this; simp [JState.active] at this
    · exact Or.inl hp
  | complete b j att inst ns st e r d job hop hj hact hatt hpu hjobs =>
    rw [findJob_mapF (jobFrame_completeMap s b j att ns) hjobs, hfind] at hx'
    simp only [Option.map_some, Option.some.injEq] at hx'
    subst hx'
    unfold completeMap
    have hnj : isJob b j x = false := by
      cases hc : isJob b j x with
      | false => rfl
      | true =>
        have := eq_of_isJob hu hj hx hc
        subst this; rw [hp] at hact; simp [JState.active] at hact
    simp only [hnj, Bool.false_eq_true, if_false]
    split_ifs
    · exact childUpdate_state ns x
    · exact Or.inl hp

/-! ## `batch_updates` lookups -/

theorem mem_of_findUpdate {s : State} {b u : Nat} {x : Update} (h : findUpdate s b u = some x) :
    x ∈ s.updates ∧ x.batch = b ∧ x.id = u := by
  unfold findUpdate at h
  have := List.find?_some h
  exact ⟨List.mem_of_find?_eq_some h, by simpa using this⟩

theorem findUpdate_of_mem {s : State} (ho : UpdOrdered s) {x : Update} (hx : x ∈ s.updates) :
    findUpdate s x.batch x.id = some x := by
  unfold findUpdate
  cases h : s.updates.find? (fun y => decide (y.batch = x.batch ∧ y.id = x.id)) with
  | none =>
    rw [List.find?_eq_none] at h
    exact absurd (h x hx) (by simp)
  | some y =>
    have hm := List.mem_of_find?_eq_some h
    have hp := List.find?_some h
    simp only [decide_eq_true_eq] at hp
    rw [(ho y hm x hx hp.1).2.1 hp.2]

theorem findUpdate_append_some {s s' : State} {new : List Update} (e : s'.updates = s.updates ++ new) {b u : Nat}
    {x : Update} (h : findUpdate s b u = some x) : findUpdate s' b u = some x := by
  unfold findUpdate at *
  rw [e, List.find?_append, h]; rfl

theorem findUpdate_congr {s s' : State} (e : s'.updates = s.updates) (b u : Nat) : findUpdate s' b u = findUpdate s b u := by
  unfold findUpdate; rw [e]

theorem updCommitted_congr {s s' : State} (e : s'.updates = s.updates) (b u : Nat) :
    updCommitted s' b u = updCommitted s b u := by
  unfold updCommitted; rw [findUpdate_congr e]

theorem findUpdate_markCommitted {s s' : State} {b upd : Nat} (e : s'.updates = s.updates.map (markCommitted b upd))
    (b' u' : Nat) : findUpdate s' b' u' = (findUpdate s b' u').map (markCommitted b upd) := by
  unfold findUpdate
  rw [e, List.find?_map]
  congr 1
  congr 1
  funext y
  simp only [Function.comp, markCommitted]
  split_ifs <;> rfl

theorem updCommitted_markCommitted {s s' : State} {b upd : Nat} (e : s'.updates = s.updates.map (markCommitted b upd))
    (b' u' : Nat) :
    updCommitted s' b' u' = (updCommitted s b' u' || (decide (b' = b ∧ u' = upd) && (findUpdate s b' u').isSome)) := by
  unfold updCommitted
  rw [findUpdate_markCommitted e]
  cases h : findUpdate s b' u' with
  | none => simp
  | some x =>
    obtain ⟨_, hb, hi⟩ := mem_of_findUpdate h
    simp only [Option.map_some, Option.isSome_some, Bool.and_true]
    unfold markCommitted
    rw [hb, hi]
    by_cases hc : b' = b ∧ u' = upd <;> simp [hc]

theorem updOrdered_append {s s' : State} (ho : UpdOrdered s) {n : Update} (e : s'.updates = s.updates ++ [n])
    (h1 : 1 ≤ n.id) (hlt : ∀ x ∈ s.updates, x.batch = n.batch → x.id < n.id ∧ x.startJob + x.nJobs ≤ n.startJob) :
    UpdOrdered s' := by
  intro u hu u' hu' hb
  rw [e] at hu hu'
  simp only [List.mem_append, List.mem_singleton] at hu hu'
  rcases hu with hu | rfl <;> rcases hu' with hu' | rfl
  · exact ho u hu u' hu' hb
  · have := hlt u hu hb
    exact ⟨fun _ => by omega, fun h => by omega, (ho u hu u hu rfl).2.2⟩
  · have := hlt u' hu' hb.symm
    exact ⟨fun h => by omega, fun h => by omega, h1⟩
  · exact ⟨fun h => by omega, fun _ => rfl, h1⟩

theorem updOrdered_markCommitted {s s' : State} (ho : UpdOrdered s) {b upd : Nat}
    (e : s'.updates = s.updates.map (markCommitted b upd)) : UpdOrdered s' := by
  have hk : ∀ x : Update, (markCommitted b upd x).batch = x.batch ∧ (markCommitted b upd x).id = x.id ∧
      (markCommitted b upd x).startJob = x.startJob ∧ (markCommitted b upd x).nJobs = x.nJobs := by
    intro x; unfold markCommitted; split_ifs <;> simp
  intro u hu u' hu' hb
  rw [e, List.mem_map] at hu hu'
  obtain ⟨v, hv, rfl⟩ := hu
  obtain ⟨v', hv', rfl⟩ := hu'
  rw [(hk v).1, (hk v').1] at hb
  obtain ⟨k1, k2, k3⟩ := ho v hv v' hv' hb
  rw [(hk v).2.1, (hk v').2.1, (hk v).2.2.1, (hk v).2.2.2, (hk v').2.2.1]
  exact ⟨k1, fun h => by rw [k2 h], k3⟩

/-- two updates of one batch whose job-id ranges share an id are the same row -/
theorem upd_eq_of_overlap {s : State} (ho : UpdOrdered s) {u u' : Update} (hu : u ∈ s.updates) (hu' : u' ∈ s.updates)
    (hb : u.batch = u'.batch) {i : Nat} (h1 : u.startJob ≤ i ∧ i < u.startJob + u.nJobs)
    (h2 : u'.startJob ≤ i ∧ i < u'.startJob + u'.nJobs) : u = u' := by
  obtain ⟨k1, k2, _⟩ := ho u hu u' hu' hb
  obtain ⟨k1', _, _⟩ := ho u' hu' u hu hb.symm
  rcases Nat.lt_trichotomy u.id u'.id with h | h | h
  · have := k1 h; omega
  · exact k2 h
  · have := k1' h; omega

/-! ## parents and their completion status -/

/-- the parent has reached a terminal state (a parent id without a job row never has) -/
def parentDone (s : State) (b p : Nat) : Bool := match findJob s b p with | some y => y.state.terminal | none => false

/-- number of parents of job `c` that are not done -/
def nPendingParents (s : State) (b c : Nat) : Nat := ((parentsOf s b c).filter fun p => !parentDone s b p).length

/-- `SUM(state IN ('Pending','Ready','Creating','Running'))` of `commit_batch_update`: parents without a row do not count -/
def nRunnableParents (s : State) (b c : Nat) : Nat :=
  ((parentsOf s b c).filter fun p => match findJob s b p with | some y => isRunnable y.state | none => false).length

theorem mem_parentsOf {s : State} {b c p : Nat} : p ∈ parentsOf s b c ↔ (b, c, p) ∈ s.parents := by
  unfold parentsOf
  simp only [List.mem_map, List.mem_filter, decide_eq_true_eq]
  constructor
  · rintro ⟨⟨b', c', p'⟩, ⟨hm, h1, h2⟩, h3⟩
    simp only at h1 h2 h3; subst h1 h2 h3; exact hm
  · intro h; exact ⟨(b, c, p), ⟨h, rfl, rfl⟩, rfl⟩

theorem parentsOf_nodup {s : State} (h : s.parents.Nodup) (b c : Nat) : (parentsOf s b c).Nodup := by
  unfold parentsOf
  rw [List.Nodup, List.pairwise_map]
  refine List.Pairwise.imp_of_mem ?_ (h.filter _)
  rintro ⟨b1, c1, p1⟩ ⟨b2, c2, p2⟩ h1 h2 hne he
  simp only [List.mem_filter, decide_eq_true_eq] at h1 h2
  simp only at he
  obtain ⟨_, rfl, rfl⟩ := h1
  obtain ⟨_, rfl, rfl⟩ := h2
  exact hne (by rw [he])

theorem parentsOf_congr {s s' : State} (e : s'.parents = s.parents) (b c : Nat) : parentsOf s' b c = parentsOf s b c := by
  unfold parentsOf; rw [e]

theorem parentDone_congr {s s' : State} (e : s'.jobs = s.jobs) (b p : Nat) : parentDone s' b p = parentDone s b p := by
  unfold parentDone; rw [findJob_congr e]

theorem nPendingParents_congr {s s' : State} (ep : s'.parents = s.parents) (b c : Nat)
    (hd : ∀ p ∈ parentsOf s b c, parentDone s' b p = parentDone s b p) :
    nPendingParents s' b c = nPendingParents s b c := by
  unfold nPendingParents
  rw [parentsOf_congr ep]
  congr 1
  apply List.filter_congr
  intro p hp; rw [hd p hp]

theorem nRunnable_eq_nPending {s : State} {b c : Nat} (hex : ∀ p ∈ parentsOf s b c, (findJob s b p).isSome = true) :
    nRunnableParents s b c = nPendingParents s b c := by
  unfold nRunnableParents nPendingParents
  congr 1
  apply List.filter_congr
  intro p hp
  unfold parentDone
  cases h : findJob s b p with
  | none => have := hex p hp; rw [h] at this; simp at this
  | some y => simp [isRunnable_eq]

theorem filter_pstates (s : State) (b : Nat) (l : List Nat) (q : Option JState → Bool) (h0 : q none = false)
    (h1 : ∀ x, q (some x) = isRunnable x) :
    ((List.map (fun p => (findJob s b p).map (·.state)) l).filter q).length =
      (l.filter fun p => match findJob s b p with | some y => isRunnable y.state | none => false).length := by
  rw [List.filter_map, List.length_map]
  congr 1
  apply List.filter_congr
  intro p _
  simp only [Function.comp]
  cases findJob s b p <;> simp [h0, h1]

theorem recomputeJob_eq (s : State) (b : Nat) (x : Job) :
    (recomputeJob s b x).state = (if nRunnableParents s b x.id = 0 then .Ready else .Pending) ∧
    (recomputeJob s b x).npp = (nRunnableParents s b x.id : Int) := by
  unfold recomputeJob
  dsimp only
  rw [filter_pstates s b (parentsOf s b x.id) _ rfl (fun _ => rfl)]
  change _ ∧ ((nRunnableParents s b x.id : Nat) : Int) = _
  change (if ((nRunnableParents s b x.id : Nat) : Int) = 0 then _ else _) = _ ∧ _
  refine ⟨?_, rfl⟩
  by_cases h : nRunnableParents s b x.id = 0 <;> simp [h]

/-- counting after one more parent became done -/
theorem length_filter_remove {l : List Nat} (hnd : l.Nodup) (q q' : Nat → Bool) (j : Nat) (hj : j ∈ l) (hq : q j = true)
    (hq' : ∀ p ∈ l, q' p = (q p && decide (p ≠ j))) : (l.filter q').length + 1 = (l.filter q).length := by
  induction l with
  | nil => simp at hj
  | cons y l ih =>
    rw [List.nodup_cons] at hnd
    by_cases hy : y = j
    · subst hy
      have h1 : q' y = false := by rw [hq' y (by simp)]; simp
      have h2 : l.filter q' = l.filter q := by
        apply List.filter_congr
        intro p hp
        have : p ≠ y := fun h => hnd.1 (h ▸ hp)
        rw [hq' p (by simp [hp])]; simp [this]
      simp [h1, hq, h2]
    · have hjl : j ∈ l := by
        rcases List.mem_cons.mp hj with h | h
        · exact absurd h.symm hy
        · exact h
      have := ih hnd.2 hjl (fun p hp => hq' p (by simp [hp]))
      have h1 : q' y = q y := by rw [hq' y (by simp)]; simp [hy]
      by_cases hqy : q y = true
      · simp [h1, hqy]; omega
      · simp [h1, hqy]; omega

theorem two_le_length_of_mem {l : List Nat} {a b : Nat} (ha : a ∈ l) (hb : b ∈ l) (hab : a ≠ b) : 2 ≤ l.length := by
  match l, ha, hb with
  | [], ha, _ => simp at ha
  | [x], ha, hb => simp at ha hb; exact absurd (ha.trans hb.symm) hab
  | _ :: _ :: _, _, _ => simp

theorem sum_map_ite_zero {α : Type} (l : List α) (c : α → Prop) [DecidablePred c] (g : α → Nat) (h : ∀ y ∈ l, ¬ c y) :
    (l.map fun y => if c y then g y else 0).sum = 0 := by
  induction l with
  | nil => rfl
  | cons y l ih =>
    simp only [List.map_cons, List.sum_cons, h y (by simp), if_false, Nat.zero_add]
    exact ih (fun z hz => h z (by simp [hz]))

theorem sum_map_ite_key {α : Type} (l : List α) (key : α → Nat) (g : α → Nat) (hnd : (l.map key).Nodup) (x : α) (hx : x ∈ l) :
    (l.map fun y => if key y = key x then g y else 0).sum = g x := by
  induction l with
  | nil => simp at hx
  | cons y l ih =>
    simp only [List.map_cons, List.nodup_cons] at hnd
    simp only [List.map_cons, List.sum_cons]
    rcases List.mem_cons.mp hx with rfl | hm
    · have : (l.map fun y => if key y = key x then g y else 0).sum = 0 := by
        apply sum_map_ite_zero
        intro z hz h
        exact hnd.1 (by rw [← h]; exact List.mem_map_of_mem hz)
      simp [this]
    · have hne : key y ≠ key x := fun h => hnd.1 (by rw [h]; exact List.mem_map_of_mem hm)
      simp [hne, ih hnd.2 hm]

/-! ## explicit hypotheses on the history -/

/-- C08's well-formedness of a submitted bunch, which `_create_jobs` does NOT enforce: every job id lies in the
update's reserved range and every parent id names a job that already exists or is part of the same bunch -/
def specsOK (s : State) : Op → Bool
  | .insertJobs b upd _ specs =>
    match findUpdate s b upd with
    | some u => specs.all fun sp => decide (1 ≤ sp.relId) && decide (sp.relId ≤ u.nJobs) &&
        (jobParents u sp).all fun p =>
          (findJob s b p).isSome || (specs.map fun sp' => sp'.relId + u.startJob - 1).contains p
    | none => true
  | _ => true

/-- the excluded defect (C41): `mark_job_complete` releases children with no `committed` check.  The hypothesis says
the completing job has no child in an uncommitted update other than update 1 -/
def noEarlyChild (s : State) : Op → Bool
  | .complete b j _ _ _ _ _ _ _ =>
    s.jobs.all fun x => !isChildOf s b j x || decide (x.update = 1) || updCommitted s x.batch x.update
  | _ => true

/-! ## the lifecycle invariant -/

/-- admissible relations between the number of parents not done and `n_pending_parents`: `≤` (all the lifecycle needs)
and `=` (C05; needs one more hypothesis on first-update bunches) -/
structure NppRel (R : Int → Int → Prop) : Prop where
  refl : ∀ a, R a a
  le : ∀ a c, R a c → a ≤ c
  pred : ∀ a c, R a c → R (a - 1) (c - 1)

theorem nppRel_le : NppRel (· ≤ ·) := ⟨Int.le_refl, fun _ _ h => h, fun _ _ h => by omega⟩
theorem nppRel_eq : NppRel (· = ·) := ⟨fun _ => rfl, fun _ _ h => by omega, fun _ _ h => by omega⟩

structure LInv (R : Int → Int → Prop) (s : State) : Prop where
  uniq : JobsUnique s
  upd : UpdOrdered s
  /-- every job lies in the reserved id range of its update -/
  range : ∀ x ∈ s.jobs, ∃ u, findUpdate s x.batch x.update = some u ∧ u.startJob ≤ x.id ∧ x.id < u.startJob + u.nJobs
  /-- `job_parents` rows join existing jobs on both sides -/
  pex : ∀ r ∈ s.parents, (findJob s r.1 r.2.1).isSome = true ∧ (findJob s r.1 r.2.2).isSome = true
  pnd : s.parents.Nodup
  /-- jobs of an uncommitted update other than update 1 are Pending -/
  unc : ∀ x ∈ s.jobs, x.update ≠ 1 → updCommitted s x.batch x.update = false → x.state = .Pending
  /-- a job with a parent that is not done is Pending -/
  pp : ∀ r ∈ s.parents, ∀ c p, findJob s r.1 r.2.1 = some c → findJob s r.1 r.2.2 = some p → p.state.terminal = false →
    c.state = .Pending
  /-- `n_pending_parents` of a Pending job (update 1 or committed) is `R`-related to the number of its parents not done -/
  npp : ∀ x ∈ s.jobs, x.state = .Pending → (x.update = 1 ∨ updCommitted s x.batch x.update = true) →
    R (nPendingParents s x.batch x.id : Int) x.npp

variable {R : Int → Int → Prop}

theorem linv_init : LInv R init :=
  ⟨by simp [JobsUnique, init], by intro u hu; simp [init] at hu, by intro x hx; simp [init] at hx,
   by intro r hr; simp [init] at hr, by simp [init], by intro x hx; simp [init] at hx, by intro r hr; simp [init] at hr,
   by intro x hx; simp [init] at hx⟩

theorem linv_same3 {s s' : State} (h : Same3 s s') (hi : LInv R s) : LInv R s' := by
  obtain ⟨h1, h2, h3⟩ := h
  cases s; cases s'
  simp only at h1 h2 h3
  subst h1 h2 h3
  exact ⟨hi.uniq, hi.upd, hi.range, hi.pex, hi.pnd, hi.unc, hi.pp, hi.npp⟩

theorem parentDone_mapF {s s' : State} {F : Job → Job} (hF : JobFrame F) (e : s'.jobs = s.jobs.map F)
    (ht : ∀ x ∈ s.jobs, (F x).state.terminal = x.state.terminal) (b p : Nat) : parentDone s' b p = parentDone s b p := by
  unfold parentDone
  rw [findJob_mapF hF e]
  cases h : findJob s b p with
  | none => rfl
  | some y => exact ht y (mem_of_findJob h).1

/-- an in-place update that keeps every row's class (Pending / active / which terminal state) and `n_pending_parents` -/
theorem linv_mapClass {s s' : State} (hi : LInv R s) (hu' : JobsUnique s') {F : Job → Job} (hF : JobFrame F)
    (hj : s'.jobs = s.jobs.map F) (hpu : SamePU s s')
    (hcls : ∀ x ∈ s.jobs, ((F x).state = .Pending ↔ x.state = .Pending) ∧ (F x).state.terminal = x.state.terminal ∧
      (F x).npp = x.npp) : LInv R s' := by
  obtain ⟨hp, hupd⟩ := hpu
  have hdone := parentDone_mapF hF hj (fun x hx => (hcls x hx).2.1)
  refine ⟨hu', by unfold UpdOrdered; rw [hupd]; exact hi.upd, ?_, ?_, by rw [hp]; exact hi.pnd, ?_, ?_, ?_⟩
  · intro x' hx'
    rw [hj, List.mem_map] at hx'
    obtain ⟨x, hx, rfl⟩ := hx'
    rw [(hF x).1, (hF x).2.1, (hF x).2.2.1, findUpdate_congr hupd]
    exact hi.range x hx
  · intro r hr
    rw [hp] at hr
    rw [findJob_mapF hF hj, findJob_mapF hF hj, Option.isSome_map, Option.isSome_map]
    exact hi.pex r hr
  · intro x' hx' h1 h2
    rw [hj, List.mem_map] at hx'
    obtain ⟨x, hx, rfl⟩ := hx'
    rw [(hF x).1, (hF x).2.2.1, updCommitted_congr hupd] at h2
    rw [(hF x).2.2.1] at h1
    exact (hcls x hx).1.mpr (hi.unc x hx h1 h2)
  · intro r hr c' p' hc' hp' hnt
    rw [hp] at hr
    rw [findJob_mapF hF hj] at hc' hp'
    cases hc : findJob s r.1 r.2.1 with
    | none => rw [hc] at hc'; simp at hc'
    | some c =>
      cases hpp : findJob s r.1 r.2.2 with
      | none => rw [hpp] at hp'; simp at hp'
      | some p =>
        rw [hc] at hc'; rw [hpp] at hp'
        simp only [Option.map_some, Option.some.injEq] at hc' hp'
        subst hc' hp'
        rw [(hcls p (mem_of_findJob hpp).1).2.1] at hnt
        exact (hcls c (mem_of_findJob hc).1).1.mpr (hi.pp r hr c p hc hpp hnt)
  · intro x' hx' h1 h2
    rw [hj, List.mem_map] at hx'
    obtain ⟨x, hx, rfl⟩ := hx'
    rw [(hF x).1, (hF x).2.1, (hcls x hx).2.2, nPendingParents_congr hp _ _ (fun p _ => hdone _ p)]
    rw [(hF x).1, (hF x).2.2.1, updCommitted_congr hupd] at h2
    exact hi.npp x hx ((hcls x hx).1.mp h1) h2

theorem linv_driver {s s' : State} (hi : LInv R s) (hu' : JobsUnique s') (h : DriverStep s s') : LInv R s' := by
  obtain ⟨⟨p, st, a, hj, hst, hall⟩, hpu⟩ := h
  refine linv_mapClass hi hu' (JobFrame.ite _ (jobFrame_setStateAttempt st a)) hj hpu ?_
  intro x hx
  by_cases hpx : p x = true
  · simp only [hpx, if_true]
    have hact := (hall x hx hpx).1
    refine ⟨?_, ?_, rfl⟩
    · constructor
      · intro h; simp only [setStateAttempt] at h; rw [h] at hst; simp [JState.active] at hst
      · intro h; rw [h] at hact; simp [JState.active] at hact
    · simp only [setStateAttempt]; rw [active_not_terminal hst, active_not_terminal hact]
  · simp [hpx]

theorem linv_newUpdate {s s' : State} (hi : LInv R s) (b : Nat) (n : Update) (hj : s'.jobs = s.jobs)
    (hp : s'.parents = s.parents) (hu : s'.updates = s.updates ++ [n]) (hb : n.batch = b) (h1 : 1 ≤ n.id)
    (hlt : ∀ x ∈ s.updates, x.batch = b → x.id < n.id ∧ x.startJob + x.nJobs ≤ n.startJob) : LInv R s' := by
  have hcom : ∀ x ∈ s.jobs, updCommitted s' x.batch x.update = updCommitted s x.batch x.update := by
    intro x hx
    obtain ⟨u, hfu, _⟩ := hi.range x hx
    unfold updCommitted
    rw [findUpdate_append_some hu hfu, hfu]
  have hdone : ∀ b p, parentDone s' b p = parentDone s b p := fun b p => parentDone_congr hj b p
  refine ⟨JobsUnique.of_jobs_eq hj hi.uniq, updOrdered_append hi.upd hu h1 (by rw [hb]; exact hlt), ?_, ?_,
    by rw [hp]; exact hi.pnd, ?_, ?_, ?_⟩
  · intro x hx
    rw [hj] at hx
    obtain ⟨u, hfu, hr⟩ := hi.range x hx
    exact ⟨u, findUpdate_append_some hu hfu, hr⟩
  · intro r hr
    rw [hp] at hr
    rw [findJob_congr hj, findJob_congr hj]
    exact hi.pex r hr
  · intro x hx h1 h2
    rw [hj] at hx
    rw [hcom x hx] at h2
    exact hi.unc x hx h1 h2
  · intro r hr c p hc hpp hnt
    rw [hp] at hr
    rw [findJob_congr hj] at hc hpp
    exact hi.pp r hr c p hc hpp hnt
  · intro x hx h1 h2
    rw [hj] at hx
    rw [hcom x hx] at h2
    rw [nPendingParents_congr hp _ _ (fun p _ => hdone _ p)]
    exact hi.npp x hx h1 h2

/-! ## `commit_batch_update` preserves the invariant -/

theorem inUpdRange_update {s : State} (hi : LInv R s) {b upd : Nat} {u : Update} (hu : findUpdate s b upd = some u)
    {x : Job} (hx : x ∈ s.jobs) (hr : inUpdRange b u x = true) : x.batch = b ∧ x.update = upd := by
  unfold inUpdRange at hr
  simp only [decide_eq_true_eq] at hr
  obtain ⟨u', hu', hr'⟩ := hi.range x hx
  obtain ⟨hm, hb, hid⟩ := mem_of_findUpdate hu
  obtain ⟨hm', hb', hid'⟩ := mem_of_findUpdate hu'
  have := upd_eq_of_overlap hi.upd hm hm' (by rw [hb, hb', hr.1]) hr.2 hr'
  subst this
  exact ⟨hr.1, by rw [← hid', hid]⟩

theorem inUpdRange_of_update {s : State} (hi : LInv R s) {b upd : Nat} {u : Update} (hu : findUpdate s b upd = some u)
    {x : Job} (hx : x ∈ s.jobs) (hb : x.batch = b) (hupd : x.update = upd) : inUpdRange b u x = true := by
  obtain ⟨u', hu', hr'⟩ := hi.range x hx
  rw [hb, hupd, hu] at hu'
  cases hu'
  unfold inUpdRange
  simp [hb, hr']

theorem nRunnable_pos_of_parent {s : State} {b c pid : Nat} {p : Job} (hr : (b, c, pid) ∈ s.parents)
    (hp : findJob s b pid = some p) (hnt : p.state.terminal = false) : nRunnableParents s b c ≠ 0 := by
  unfold nRunnableParents
  intro h
  rw [List.length_eq_zero_iff, List.filter_eq_nil_iff] at h
  have := h pid (mem_parentsOf.mpr hr)
  rw [hp] at this
  simp [isRunnable_eq, hnt] at this

theorem linv_commit {s s' : State} (hR : NppRel R) (hi : LInv R s) (hu' : JobsUnique s') {b upd : Nat} {u : Update}
    (hu : findUpdate s b upd = some u) (hc : u.committed = false) (hp : s'.parents = s.parents)
    (hupd : s'.updates = s.updates.map (markCommitted b upd))
    (hj : ((upd = 1 ∨ u.nJobs = 0) ∧ s'.jobs = s.jobs) ∨
      (upd ≠ 1 ∧ s'.jobs = s.jobs.map (fun j => if inUpdRange b u j then recomputeJob s b j else j))) : LInv R s' := by
  -- one description of both cases
  obtain ⟨F, hF, hjobs, ha, hb⟩ : ∃ F : Job → Job, JobFrame F ∧ s'.jobs = s.jobs.map F ∧
      (∀ x ∈ s.jobs, F x = x ∨ (upd ≠ 1 ∧ x.batch = b ∧ x.update = upd ∧ F x = recomputeJob s b x)) ∧
      (∀ x ∈ s.jobs, x.batch = b → x.update = upd → upd ≠ 1 → F x = recomputeJob s b x) := by
    rcases hj with ⟨h0, hj⟩ | ⟨h1, hj⟩
    · refine ⟨id, JobFrame.id, by simp [hj], fun x _ => Or.inl rfl, ?_⟩
      intro x hx hxb hxu hne
      exfalso
      rcases h0 with h0 | h0
      · exact hne h0
      · have := inUpdRange_of_update hi hu hx hxb hxu
        unfold inUpdRange at this
        simp only [decide_eq_true_eq] at this
        omega
    · refine ⟨_, JobFrame.ite _ (jobFrame_recomputeJob s b), hj, ?_, ?_⟩
      · intro x hx
        by_cases hr : inUpdRange b u x = true
        · right
          obtain ⟨k1, k2⟩ := inUpdRange_update hi hu hx hr
          exact ⟨h1, k1, k2, by simp [hr]⟩
        · left; simp [hr]
      · intro x hx hxb hxu _
        simp [inUpdRange_of_update hi hu hx hxb hxu]
  have hunc_s : updCommitted s b upd = false := by unfold updCommitted; rw [hu]; exact hc
  have hpend : ∀ x ∈ s.jobs, upd ≠ 1 → x.batch = b → x.update = upd → x.state = .Pending := by
    intro x hx h1 hxb hxu
    exact hi.unc x hx (by rw [hxu]; exact h1) (by rw [hxb, hxu]; exact hunc_s)
  have hterm : ∀ x ∈ s.jobs, (F x).state.terminal = x.state.terminal := by
    intro x hx
    rcases ha x hx with h | ⟨h1, hxb, hxu, h⟩
    · rw [h]
    · rw [h, hpend x hx h1 hxb hxu]
      rcases recomputeJob_state s b x with h | h <;> rw [h] <;> rfl
  have hdone := parentDone_mapF hF hjobs hterm
  have hnpp : ∀ x ∈ s.jobs, nPendingParents s' x.batch x.id = nPendingParents s x.batch x.id :=
    fun x _ => nPendingParents_congr hp _ _ (fun p _ => hdone _ p)
  have hnrun : ∀ x ∈ s.jobs, nRunnableParents s x.batch x.id = nPendingParents s x.batch x.id := by
    intro x _
    apply nRunnable_eq_nPending
    intro p hpm
    exact (hi.pex _ (mem_parentsOf.mp hpm)).2
  refine ⟨hu', updOrdered_markCommitted hi.upd hupd, ?_, ?_, by rw [hp]; exact hi.pnd, ?_, ?_, ?_⟩
  · intro x' hx'
    rw [hjobs, List.mem_map] at hx'
    obtain ⟨x, hx, rfl⟩ := hx'
    rw [(hF x).1, (hF x).2.1, (hF x).2.2.1, findUpdate_markCommitted hupd]
    obtain ⟨u0, hfu, hr⟩ := hi.range x hx
    refine ⟨markCommitted b upd u0, by rw [hfu]; rfl, ?_⟩
    unfold markCommitted; split_ifs <;> exact hr
  · intro r hr
    rw [hp] at hr
    rw [findJob_mapF hF hjobs, findJob_mapF hF hjobs, Option.isSome_map, Option.isSome_map]
    exact hi.pex r hr
  · intro x' hx' h1 h2
    rw [hjobs, List.mem_map] at hx'
    obtain ⟨x, hx, rfl⟩ := hx'
    rw [(hF x).2.2.1] at h1
    rw [(hF x).1, (hF x).2.2.1, updCommitted_markCommitted hupd] at h2
    simp only [Bool.or_eq_false_iff, Bool.and_eq_false_iff, decide_eq_false_iff_not] at h2
    have hxp := hi.unc x hx h1 h2.1
    rcases ha x hx with h | ⟨_, hxb, hxu, _⟩
    · rw [h]; exact hxp
    · exfalso
      obtain ⟨u0, hfu, _⟩ := hi.range x hx
      rcases h2.2 with h | h
      · exact h ⟨hxb, hxu⟩
      · rw [hfu] at h; simp at h
  · intro r hr c' p' hc' hp' hnt
    rw [hp] at hr
    rw [findJob_mapF hF hjobs] at hc' hp'
    cases hcf : findJob s r.1 r.2.1 with
    | none => rw [hcf] at hc'; simp at hc'
    | some c =>
      cases hpf : findJob s r.1 r.2.2 with
      | none => rw [hpf] at hp'; simp at hp'
      | some p =>
        rw [hcf] at hc'; rw [hpf] at hp'
        simp only [Option.map_some, Option.some.injEq] at hc' hp'
        subst hc' hp'
        obtain ⟨hcm, hcb, hcid⟩ := mem_of_findJob hcf
        rw [hterm p (mem_of_findJob hpf).1] at hnt
        have hcp := hi.pp r hr c p hcf hpf hnt
        rcases ha c hcm with h | ⟨_, hxb, _, h⟩
        · rw [h]; exact hcp
        · rw [h, (recomputeJob_eq s b c).1, if_neg]
          have hrb : r.1 = b := by rw [← hcb, hxb]
          refine nRunnable_pos_of_parent (pid := r.2.2) ?_ (by rw [← hrb]; exact hpf) hnt
          rw [← hrb, hcid]; exact hr
  · intro x' hx' h1 h2
    rw [hjobs, List.mem_map] at hx'
    obtain ⟨x, hx, rfl⟩ := hx'
    rw [(hF x).1, (hF x).2.1, hnpp x hx]
    rw [(hF x).1, (hF x).2.2.1, updCommitted_markCommitted hupd] at h2
    have hrec : x.batch = b → F x = recomputeJob s b x → R (nPendingParents s x.batch x.id : Int) (F x).npp := by
      intro hxb h
      rw [h, (recomputeJob_eq s b x).2, ← hxb, hnrun x hx]
      exact hR.refl _
    rcases ha x hx with h | ⟨_, hxb, hxu, h⟩
    · by_cases hold : x.update = 1 ∨ updCommitted s x.batch x.update = true
      · rw [h] at h1 ⊢
        exact hi.npp x hx h1 hold
      · simp only [not_or, Bool.not_eq_true] at hold
        rcases h2 with h2 | h2
        · exact absurd h2 hold.1
        · simp only [hold.2, Bool.false_or, Bool.and_eq_true, decide_eq_true_eq] at h2
          exact hrec h2.1.1 (hb x hx h2.1.1 h2.1.2 (by rw [← h2.1.2]; exact hold.1))
    · exact hrec hxb h

/-! ## `mark_job_complete` preserves the invariant (unless it releases a child of an uncommitted update) -/

theorem isChildOf_frame (s : State) (b j : Nat) (x y : Job) (hb : y.batch = x.batch) (hid : y.id = x.id) :
    isChildOf s b j y = isChildOf s b j x := by
  unfold isChildOf; rw [hb, hid]

theorem isChildOf_iff {s : State} {b j : Nat} {x : Job} :
    isChildOf s b j x = true ↔ x.batch = b ∧ (b, x.id, j) ∈ s.parents := by
  unfold isChildOf; simp

/-- what the two UPDATEs do to each row, given the invariant -/
theorem completeMap_cases {s : State} (hi : LInv R s) {b j : Nat} (att : Option Nat) (ns : JState) {job : Job}
    (hj : findJob s b j = some job) (hact : job.state.active = true) (x : Job) (hx : x ∈ s.jobs) :
    (x = job ∧ completeMap s b j att ns x = setStateAttempt ns att x) ∨
    (x ≠ job ∧ isChildOf s b j x = true ∧ x.state = .Pending ∧ completeMap s b j att ns x = childUpdate ns x) ∨
    (x ≠ job ∧ isChildOf s b j x = false ∧ completeMap s b j att ns x = x) := by
  obtain ⟨hjm, hjb, hjid⟩ := mem_of_findJob hj
  have hpend : isChildOf s b j x = true → x.state = .Pending := by
    intro hc
    obtain ⟨hxb, hxp⟩ := isChildOf_iff.mp hc
    refine hi.pp _ hxp x job ?_ hj (active_not_terminal hact)
    have := findJob_of_mem hi.uniq x hx
    rw [hxb] at this; exact this
  by_cases hxj : x = job
  · left
    refine ⟨hxj, ?_⟩
    have h1 : isJob b j x = true := by subst hxj; simp [isJob, hjb, hjid]
    have h2 : isChildOf s b j x = false := by
      cases hc : isChildOf s b j x with
      | false => rfl
      | true =>
        have := hpend hc
        rw [hxj] at this; rw [this] at hact; simp [JState.active] at hact
    unfold completeMap
    simp only [h1, if_true]
    rw [isChildOf_frame s b j x (setStateAttempt ns att x) rfl rfl, h2]
    simp
  · right
    have h1 : isJob b j x = false := by
      cases hc : isJob b j x with
      | false => rfl
      | true => exact absurd (eq_of_isJob hi.uniq hj hx hc) hxj
    unfold completeMap
    simp only [h1, Bool.false_eq_true, if_false]
    cases hc : isChildOf s b j x with
    | true => left; exact ⟨hxj, rfl, hpend hc, by simp⟩
    | false => right; exact ⟨hxj, rfl, by simp⟩

theorem noEarlyChild_spec {s : State} {b j : Nat} {att inst : Option Nat} {ns : JState} {st e : Option Int} {r : String}
    {d : Nat} (h : noEarlyChild s (.complete b j att inst ns st e r d) = true) (x : Job) (hx : x ∈ s.jobs)
    (hc : isChildOf s b j x = true) : x.update = 1 ∨ updCommitted s x.batch x.update = true := by
  unfold noEarlyChild at h
  rw [List.all_eq_true] at h
  have := h x hx
  simpa [hc] using this

theorem childUpdate_eq (ns : JState) (x : Job) :
    (childUpdate ns x).state = (if x.npp = 1 then .Ready else .Pending) ∧ (childUpdate ns x).npp = x.npp - 1 := ⟨rfl, rfl⟩

theorem linv_complete {s s' : State} (hR : NppRel R) (hi : LInv R s) (hu' : JobsUnique s') {b j : Nat} {att inst : Option Nat} {ns : JState}
    {st e : Option Int} {r : String} {d : Nat} {job : Job} (hns : ns.terminal = true) (hj : findJob s b j = some job)
    (hact : job.state.active = true) (hpu : SamePU s s') (hjobs : s'.jobs = s.jobs.map (completeMap s b j att ns))
    (hne : noEarlyChild s (.complete b j att inst ns st e r d) = true) : LInv R s' := by
  obtain ⟨hp, hupd⟩ := hpu
  have hF := jobFrame_completeMap s b j att ns
  have hcases := completeMap_cases hi att ns hj hact
  obtain ⟨hjm, hjb, hjid⟩ := mem_of_findJob hj
  have hjnt := active_not_terminal hact
  -- completion status of parents: only (b, j) changes
  have hdone : ∀ b' p, parentDone s' b' p = (parentDone s b' p || decide (b' = b ∧ p = j)) := by
    intro b' p
    unfold parentDone
    rw [findJob_mapF hF hjobs]
    cases hf : findJob s b' p with
    | none =>
      have : ¬ (b' = b ∧ p = j) := by rintro ⟨rfl, rfl⟩; rw [hj] at hf; simp at hf
      simp [this]
    | some y =>
      obtain ⟨hym, hyb, hyid⟩ := mem_of_findJob hf
      simp only [Option.map_some]
      rcases hcases y hym with ⟨h1, h2⟩ | ⟨h1, _, h3, h4⟩ | ⟨h1, _, h4⟩
      · rw [h2]; subst h1
        have : b' = b ∧ p = j := ⟨by rw [← hyb, hjb], by rw [← hyid, hjid]⟩
        simp [setStateAttempt, hns, this]
      · have : ¬ (b' = b ∧ p = j) := by rintro ⟨rfl, rfl⟩; rw [hj] at hf; cases hf; exact h1 rfl
        rw [h4, h3]
        rcases childUpdate_state ns y with h | h <;> simp [h, this, JState.terminal]
      · have : ¬ (b' = b ∧ p = j) := by rintro ⟨rfl, rfl⟩; rw [hj] at hf; cases hf; exact h1 rfl
        rw [h4]; simp [this]
  have hjdone : parentDone s b j = false := by unfold parentDone; rw [hj]; exact hjnt
  -- the count of parents not done
  have hcount_child : ∀ x ∈ s.jobs, isChildOf s b j x = true →
      nPendingParents s' x.batch x.id + 1 = nPendingParents s x.batch x.id := by
    intro x _ hc
    obtain ⟨hxb, hxp⟩ := isChildOf_iff.mp hc
    unfold nPendingParents
    rw [parentsOf_congr hp, hxb]
    refine length_filter_remove (parentsOf_nodup hi.pnd b x.id) _ _ j (mem_parentsOf.mpr hxp) (by simp [hjdone]) ?_
    intro p _
    rw [hdone]
    by_cases hpj : p = j <;> simp [hpj]
  have hcount_other : ∀ x ∈ s.jobs, isChildOf s b j x = false →
      nPendingParents s' x.batch x.id = nPendingParents s x.batch x.id := by
    intro x _ hc
    refine nPendingParents_congr hp _ _ ?_
    intro p hpm
    rw [hdone]
    have : ¬ (x.batch = b ∧ p = j) := by
      rintro ⟨hxb, rfl⟩
      have := isChildOf_iff.mpr ⟨hxb, by rw [← hxb]; exact mem_parentsOf.mp hpm⟩
      rw [hc] at this; simp at this
    simp [this]
  refine ⟨hu', by unfold UpdOrdered; rw [hupd]; exact hi.upd, ?_, ?_, by rw [hp]; exact hi.pnd, ?_, ?_, ?_⟩
  · intro x' hx'
    rw [hjobs, List.mem_map] at hx'
    obtain ⟨x, hx, rfl⟩ := hx'
    rw [(hF x).1, (hF x).2.1, (hF x).2.2.1, findUpdate_congr hupd]
    exact hi.range x hx
  · intro r hr
    rw [hp] at hr
    rw [findJob_mapF hF hjobs, findJob_mapF hF hjobs, Option.isSome_map, Option.isSome_map]
    exact hi.pex r hr
  · intro x' hx' h1 h2
    rw [hjobs, List.mem_map] at hx'
    obtain ⟨x, hx, rfl⟩ := hx'
    rw [(hF x).1, (hF x).2.2.1, updCommitted_congr hupd] at h2
    rw [(hF x).2.2.1] at h1
    have hxp := hi.unc x hx h1 h2
    rcases hcases x hx with ⟨k1, _⟩ | ⟨_, k2, _, _⟩ | ⟨_, _, k4⟩
    · subst k1; rw [hxp] at hact; simp [JState.active] at hact
    · rcases noEarlyChild_spec hne x hx k2 with h | h
      · exact absurd h h1
      · rw [h2] at h; simp at h
    · rw [k4]; exact hxp
  · intro r hr c' p' hc' hp' hnt
    rw [hp] at hr
    rw [findJob_mapF hF hjobs] at hc' hp'
    cases hcf : findJob s r.1 r.2.1 with
    | none => rw [hcf] at hc'; simp at hc'
    | some c =>
      cases hpf : findJob s r.1 r.2.2 with
      | none => rw [hpf] at hp'; simp at hp'
      | some p =>
        rw [hcf] at hc'; rw [hpf] at hp'
        simp only [Option.map_some, Option.some.injEq] at hc' hp'
        subst hc' hp'
        obtain ⟨hcm, hcb, hcid⟩ := mem_of_findJob hcf
        obtain ⟨hpm, hpb, hpid⟩ := mem_of_findJob hpf
        -- the parent is not the completing job and was not done before
        have hpne : p ≠ job ∧ p.state.terminal = false := by
          rcases hcases p hpm with ⟨k1, k2⟩ | ⟨k1, _, k3, _⟩ | ⟨k1, _, k4⟩
          · rw [k2] at hnt; simp [setStateAttempt, hns] at hnt
          · exact ⟨k1, by rw [k3]; rfl⟩
          · exact ⟨k1, by rw [k4] at hnt; exact hnt⟩
        have hcp := hi.pp r hr c p hcf hpf hpne.2
        rcases hcases c hcm with ⟨k1, _⟩ | ⟨_, k2, _, k4⟩ | ⟨_, _, k4⟩
        · subst k1; rw [hcp] at hact; simp [JState.active] at hact
        · rw [k4, (childUpdate_eq ns c).1, if_neg]
          intro hn1
          obtain ⟨hcb', hcj⟩ := isChildOf_iff.mp k2
          have hrb : r.1 = b := by rw [← hcb, hcb']
          have hq := hR.le _ _ (hi.npp c hcm hcp (noEarlyChild_spec hne c hcm k2))
          have h2le : 2 ≤ nPendingParents s c.batch c.id := by
            unfold nPendingParents
            refine two_le_length_of_mem (a := r.2.2) (b := j) ?_ ?_ ?_
            · rw [List.mem_filter]
              refine ⟨mem_parentsOf.mpr (by rw [hcb, hcid]; exact hr), ?_⟩
              unfold parentDone; rw [hcb, hpf]; simp [hpne.2]
            · rw [List.mem_filter]
              refine ⟨mem_parentsOf.mpr (by rw [hcb']; exact hcj), ?_⟩
              rw [hcb', hjdone]; rfl
            · intro h
              apply hpne.1
              rw [hrb, h, hj] at hpf
              cases hpf; rfl
          omega
        · rw [k4]; exact hcp
  · intro x' hx' h1 h2
    rw [hjobs, List.mem_map] at hx'
    obtain ⟨x, hx, rfl⟩ := hx'
    rw [(hF x).1, (hF x).2.2.1, updCommitted_congr hupd] at h2
    rw [(hF x).1, (hF x).2.1]
    rcases hcases x hx with ⟨_, k2⟩ | ⟨_, k2, k3, k4⟩ | ⟨_, k2, k4⟩
    · rw [k2] at h1; simp only [setStateAttempt] at h1; rw [h1] at hns; simp [JState.terminal] at hns
    · rw [k4, (childUpdate_eq ns x).2]
      have h3 := hR.pred _ _ (hi.npp x hx k3 h2)
      have h4 := hcount_child x hx k2
      have : (nPendingParents s' x.batch x.id : Int) = (nPendingParents s x.batch x.id : Int) - 1 := by omega
      rw [this]; exact h3
    · rw [k4] at h1 ⊢
      rw [hcount_other x hx k2]
      exact hi.npp x hx h1 h2

/-! ## `_create_jobs` preserves the invariant (for well-formed bunches) -/

theorem insertJobsReject_parentsNodup {s : State} {b user : Nat} {u : Update} {bt : Batch} {first : JobSpec}
    {specs : List JobSpec} (h : insertJobsReject s b user u bt first specs = none) :
    ∀ sp ∈ specs, (jobParents u sp).Nodup := by
  unfold insertJobsReject at h
  dsimp only at h
  split_ifs at h with h1 h2 hids hany
  · split at h <;> simp at h
  · intro sp hsp
    simp only [List.any_eq_true, not_exists, not_and, decide_eq_true_eq, Decidable.not_not] at hany
    exact hany sp hsp

theorem specsOK_spec {s : State} {b upd user : Nat} {specs : List JobSpec} {u : Update}
    (h : specsOK s (.insertJobs b upd user specs) = true) (hu : findUpdate s b upd = some u) :
    ∀ sp ∈ specs, 1 ≤ sp.relId ∧ sp.relId ≤ u.nJobs ∧ ∀ p ∈ jobParents u sp,
      (findJob s b p).isSome = true ∨ ∃ sp' ∈ specs, p = sp'.relId + u.startJob - 1 := by
  simp only [specsOK, hu] at h
  simp only [List.all_eq_true, Bool.and_eq_true, decide_eq_true_eq, Bool.or_eq_true, List.contains_iff_mem,
    List.mem_map] at h
  intro sp hsp
  obtain ⟨⟨h1, h2⟩, h3⟩ := h sp hsp
  refine ⟨h1, h2, ?_⟩
  intro p hp
  rcases h3 p hp with h | ⟨sp', hsp', he⟩
  · exact Or.inl h
  · exact Or.inr ⟨sp', hsp', he.symm⟩

theorem mem_specParents {u : Update} {b : Nat} {specs : List JobSpec} {r : Nat × Nat × Nat} :
    r ∈ specParents u b specs ↔ ∃ sp ∈ specs, ∃ p ∈ jobParents u sp, r = (b, sp.relId + u.startJob - 1, p) := by
  unfold specParents
  simp only [List.mem_flatMap, List.mem_map]
  constructor
  · rintro ⟨sp, hsp, p, hp, rfl⟩; exact ⟨sp, hsp, p, hp, rfl⟩
  · rintro ⟨sp, hsp, p, hp, rfl⟩; exact ⟨sp, hsp, p, hp, rfl⟩

theorem nodup_map_inj {α β : Type} {f : α → β} {l : List α} (h : (l.map f).Nodup) {x y : α} (hx : x ∈ l) (hy : y ∈ l)
    (e : f x = f y) : x = y := by
  induction l with
  | nil => simp at hx
  | cons z l ih =>
    simp only [List.map_cons, List.nodup_cons, List.mem_map, not_exists, not_and] at h
    rcases List.mem_cons.mp hx with rfl | hx' <;> rcases List.mem_cons.mp hy with rfl | hy'
    · rfl
    · exact absurd e.symm (h.1 y hy')
    · exact absurd e (h.1 x hx')
    · exact ih h.2 hx' hy'

def specId (u : Update) (sp : JobSpec) : Nat := sp.relId + u.startJob - 1

theorem mkJob_id (u : Update) (b : Nat) (sp : JobSpec) : (mkJob u b sp).id = specId u sp := rfl

theorem specIds_nodup {u : Update} {b : Nat} {specs : List JobSpec} (h : ((specs.map (mkJob u b)).map (·.id)).Nodup) :
    (specs.map (specId u)).Nodup := by
  rw [List.map_map] at h; exact h

theorem filter_specParents_nil {u : Update} {b : Nat} {l : List JobSpec} {cid : Nat}
    (h : ∀ sp ∈ l, specId u sp ≠ cid) :
    (specParents u b l).filter (fun r => decide (r.1 = b ∧ r.2.1 = cid)) = [] := by
  rw [List.filter_eq_nil_iff]
  intro r hr
  obtain ⟨sp, hsp, p, _, rfl⟩ := mem_specParents.mp hr
  have := h sp hsp
  simp only [specId] at this
  simp [this]

theorem specParents_cons (u : Update) (b : Nat) (sp : JobSpec) (l : List JobSpec) :
    specParents u b (sp :: l) = (jobParents u sp).map (fun p => (b, specId u sp, p)) ++ specParents u b l := by
  simp [specParents, specId]

/-- the `job_parents` rows of one job of the bunch, read back -/
theorem parents_of_spec {u : Update} {b : Nat} {specs : List JobSpec} (hnd : (specs.map (specId u)).Nodup) {sp : JobSpec}
    (hsp : sp ∈ specs) :
    ((specParents u b specs).filter (fun r => decide (r.1 = b ∧ r.2.1 = specId u sp))).map (·.2.2) = jobParents u sp := by
  induction specs with
  | nil => simp at hsp
  | cons sp0 rest ih =>
    simp only [List.map_cons, List.nodup_cons, List.mem_map, not_exists, not_and] at hnd
    rw [specParents_cons, List.filter_append, List.map_append]
    rcases List.mem_cons.mp hsp with rfl | hm
    · rw [filter_specParents_nil (l := rest) (fun sp' hsp' => hnd.1 sp' hsp')]
      rw [List.filter_eq_self.mpr (by intro r hr; rw [List.mem_map] at hr; obtain ⟨p, _, rfl⟩ := hr; simp)]
      rw [List.map_nil, List.append_nil, List.map_map]
      exact (List.map_congr_left (fun p _ => rfl)).trans (List.map_id _)
    · have hne : specId u sp0 ≠ specId u sp := fun h => hnd.1 sp hm h.symm
      rw [List.filter_eq_nil_iff.mpr (by
        intro r hr; rw [List.mem_map] at hr; obtain ⟨p, _, rfl⟩ := hr; simp [hne])]
      simpa using ih hnd.2 hm

theorem specParents_nodup {u : Update} {b : Nat} {specs : List JobSpec} (hpn : ∀ sp ∈ specs, (jobParents u sp).Nodup)
    (hnd : (specs.map (specId u)).Nodup) : (specParents u b specs).Nodup := by
  induction specs with
  | nil => simp [specParents]
  | cons sp0 rest ih =>
    simp only [List.map_cons, List.nodup_cons, List.mem_map, not_exists, not_and] at hnd
    rw [specParents_cons, List.nodup_append]
    refine ⟨?_, ih (fun sp h => hpn sp (by simp [h])) hnd.2, ?_⟩
    · rw [List.Nodup, List.pairwise_map]
      exact List.Pairwise.imp (fun h he => h (by simpa using he)) (hpn sp0 (by simp))
    · intro r hr r' hr' he
      subst he
      rw [List.mem_map] at hr
      obtain ⟨p, _, rfl⟩ := hr
      obtain ⟨sp, hsp, p', _, he⟩ := mem_specParents.mp hr'
      simp only [Prod.mk.injEq] at he
      exact hnd.1 sp hsp he.2.1.symm

theorem findJob_isSome_append {s s' : State} {new : List Job} (e : s'.jobs = s.jobs ++ new) {b j : Nat}
    (h : (findJob s b j).isSome = true) : (findJob s' b j).isSome = true := by
  rw [Option.isSome_iff_exists] at h
  obtain ⟨x, hx⟩ := h
  rw [findJob_append_some e hx]; rfl

theorem mkJob_pending_of_parent (u : Update) (b : Nat) (sp : JobSpec) {p : Nat} (hp : p ∈ jobParents u sp) :
    (mkJob u b sp).state = .Pending := by
  have : sp.absParents.length + sp.relParents.length ≠ 0 := by
    intro h
    have h1 : sp.absParents = [] := List.eq_nil_of_length_eq_zero (by omega)
    have h2 : sp.relParents = [] := List.eq_nil_of_length_eq_zero (by omega)
    simp [jobParents, h1, h2] at hp
  have hn : ¬ (u.id = 1 ∧ sp.absParents.length + sp.relParents.length = 0) := fun h => this h.2
  simp only [mkJob]
  rw [if_neg hn]

theorem mkJob_npp (u : Update) (b : Nat) (sp : JobSpec) : (mkJob u b sp).npp = ((jobParents u sp).length : Int) := by
  simp [mkJob, jobParents]

theorem linv_insert {s s' : State} (hi : LInv R s) (hu' : JobsUnique s') {b upd user : Nat} {specs : List JobSpec}
    {u : Update} {bt : Batch} {first : JobSpec} (hu : findUpdate s b upd = some u)
    (hrej : insertJobsReject s b user u bt first specs = none) (hj : s'.jobs = s.jobs ++ specs.map (mkJob u b))
    (hp : s'.parents = s.parents ++ specParents u b specs) (hupd : s'.updates = s.updates)
    (hok : specsOK s (.insertJobs b upd user specs) = true)
    (hins : ∀ sp ∈ specs, u.id = 1 →
      R (((jobParents u sp).filter fun p => !parentDone s' b p).length : Int) ((jobParents u sp).length : Int)) :
    LInv R s' := by
  obtain ⟨hall, hnd, hunc, -⟩ := insertJobsReject_none hrej
  have hpn := insertJobsReject_parentsNodup hrej
  have hspec := specsOK_spec hok hu
  have hids := specIds_nodup hnd
  obtain ⟨_, hub, huid⟩ := mem_of_findUpdate hu
  have hfresh : ∀ sp ∈ specs, findJob s b (specId u sp) = none :=
    fun sp hsp => (hall (mkJob u b sp) (List.mem_map_of_mem hsp)).2.2
  have hnewmem : ∀ sp ∈ specs, mkJob u b sp ∈ s'.jobs := by
    intro sp hsp; rw [hj]; exact List.mem_append_right _ (List.mem_map_of_mem hsp)
  have hnewfind : ∀ sp ∈ specs, findJob s' b (specId u sp) = some (mkJob u b sp) :=
    fun sp hsp => findJob_of_mem hu' _ (hnewmem sp hsp)
  have holdfind : ∀ {b' i : Nat} {x : Job}, findJob s b' i = some x → findJob s' b' i = some x :=
    fun h => findJob_append_some hj h
  have hdone_old : ∀ b' p, (findJob s b' p).isSome = true → parentDone s' b' p = parentDone s b' p := by
    intro b' p h
    rw [Option.isSome_iff_exists] at h
    obtain ⟨x, hx⟩ := h
    unfold parentDone; rw [holdfind hx, hx]
  -- no old `job_parents` row has a child id of the bunch; no new row has an old child
  have hold_child : ∀ r ∈ s.parents, ∀ sp ∈ specs, ¬ (r.1 = b ∧ r.2.1 = specId u sp) := by
    rintro r hr sp hsp ⟨h1, h2⟩
    have := (hi.pex r hr).1
    rw [h1, h2, hfresh sp hsp] at this; simp at this
  have hcommitted : updCommitted s b upd = false := by unfold updCommitted; rw [hu]; exact hunc
  refine ⟨hu', by unfold UpdOrdered; rw [hupd]; exact hi.upd, ?_, ?_, ?_, ?_, ?_, ?_⟩
  · -- range
    intro x hx
    rw [hj, List.mem_append] at hx
    rcases hx with hx | hx
    · rw [findUpdate_congr hupd]; exact hi.range x hx
    · rw [List.mem_map] at hx
      obtain ⟨sp, hsp, rfl⟩ := hx
      obtain ⟨h1, h2, -⟩ := hspec sp hsp
      refine ⟨u, ?_, ?_, ?_⟩
      · rw [findUpdate_congr hupd]
        show findUpdate s b u.id = some u
        rw [huid]; exact hu
      · rw [mkJob_id]; unfold specId; omega
      · rw [mkJob_id]; unfold specId; omega
  · -- pex
    intro r hr
    rw [hp, List.mem_append] at hr
    rcases hr with hr | hr
    · exact ⟨findJob_isSome_append hj (hi.pex r hr).1, findJob_isSome_append hj (hi.pex r hr).2⟩
    · obtain ⟨sp, hsp, p, hpm, rfl⟩ := mem_specParents.mp hr
      refine ⟨by show (findJob s' b (specId u sp)).isSome = true; rw [hnewfind sp hsp]; rfl, ?_⟩
      rcases (hspec sp hsp).2.2 p hpm with h | ⟨sp', hsp', rfl⟩
      · exact findJob_isSome_append hj h
      · show (findJob s' b (specId u sp')).isSome = true
        rw [hnewfind sp' hsp']; rfl
  · -- pnd
    rw [hp, List.nodup_append]
    refine ⟨hi.pnd, specParents_nodup hpn hids, ?_⟩
    intro r hr r' hr' he
    subst he
    obtain ⟨sp, hsp, p, _, rfl⟩ := mem_specParents.mp hr'
    exact hold_child _ hr sp hsp ⟨rfl, rfl⟩
  · -- unc
    intro x hx h1 h2
    rw [hj, List.mem_append] at hx
    rcases hx with hx | hx
    · rw [updCommitted_congr hupd] at h2; exact hi.unc x hx h1 h2
    · rw [List.mem_map] at hx
      obtain ⟨sp, _, rfl⟩ := hx
      have : u.id ≠ 1 := h1
      simp [mkJob, this]
  · -- pp
    intro r hr c p hc hpf hnt
    rw [hp, List.mem_append] at hr
    rcases hr with hr | hr
    · obtain ⟨k1, k2⟩ := hi.pex r hr
      rw [Option.isSome_iff_exists] at k1 k2
      obtain ⟨c0, hc0⟩ := k1
      obtain ⟨p0, hp0⟩ := k2
      rw [holdfind hc0] at hc; rw [holdfind hp0] at hpf
      cases hc; cases hpf
      exact hi.pp r hr c p hc0 hp0 hnt
    · obtain ⟨sp, hsp, pid, hpm, rfl⟩ := mem_specParents.mp hr
      have : findJob s' b (specId u sp) = some c := hc
      rw [hnewfind sp hsp] at this
      cases this
      exact mkJob_pending_of_parent u b sp hpm
  · -- npp
    intro x hx h1 h2
    rw [hj, List.mem_append] at hx
    rcases hx with hx | hx
    · rw [updCommitted_congr hupd] at h2
      have : nPendingParents s' x.batch x.id = nPendingParents s x.batch x.id := by
        have hpo : parentsOf s' x.batch x.id = parentsOf s x.batch x.id := by
          have hnil : (specParents u b specs).filter (fun r => decide (r.1 = x.batch ∧ r.2.1 = x.id)) = [] := by
            rw [List.filter_eq_nil_iff]
            intro r hr
            obtain ⟨sp, hsp, p, _, rfl⟩ := mem_specParents.mp hr
            simp only [decide_eq_true_eq]
            rintro ⟨h1', h2'⟩
            have := findJob_of_mem hi.uniq x hx
            rw [← h1', ← h2'] at this
            have h0 := hfresh sp hsp
            unfold specId at h0
            rw [h0] at this; simp at this
          unfold parentsOf
          rw [hp, List.filter_append, hnil, List.append_nil]
        unfold nPendingParents
        rw [hpo]
        congr 1
        apply List.filter_congr
        intro p hpm
        rw [hdone_old _ _ (hi.pex _ (mem_parentsOf.mp hpm)).2]
      rw [this]
      exact hi.npp x hx h1 h2
    · rw [List.mem_map] at hx
      obtain ⟨sp, hsp, rfl⟩ := hx
      rw [mkJob_npp]
      have hpo : parentsOf s' b (specId u sp) = jobParents u sp := by
        have hnil : s.parents.filter (fun r => decide (r.1 = b ∧ r.2.1 = specId u sp)) = [] := by
          rw [List.filter_eq_nil_iff]
          intro r hr
          simp only [decide_eq_true_eq]
          exact hold_child r hr sp hsp
        unfold parentsOf
        rw [hp, List.filter_append, hnil, List.nil_append]
        exact parents_of_spec hids hsp
      have hu1 : u.id = 1 := by
        rcases h2 with h2 | h2
        · exact h2
        · exfalso
          have : updCommitted s' b u.id = true := h2
          rw [updCommitted_congr hupd, huid, hcommitted] at this
          simp at this
      show R ((nPendingParents s' b (specId u sp) : Nat) : Int) _
      unfold nPendingParents
      rw [hpo]
      exact hins sp hsp hu1

/-! ## the invariant is preserved by every well-formed transaction outside the excluded defect -/

theorem linv_step_gen (hR : NppRel R) (s : State) (hi : LInv R s) (op : Op) (hwf : op.WF) (hok : specsOK s op = true)
    (hne : noEarlyChild s op = true)
    (hins : ∀ b upd user specs u, op = .insertJobs b upd user specs → findUpdate s b upd = some u → u.id = 1 → ∀ sp ∈ specs,
      R (((jobParents u sp).filter fun p => !parentDone (step s op).1 b p).length : Int) ((jobParents u sp).length : Int)) :
    LInv R (step s op).1 := by
  have hu' := (shape_step s op).unique hi.uniq
  have hd := stepDesc s hi.uniq hi.upd op
  cases hd with
  | same h => exact linv_same3 h hi
  | newUpdate b n hj hp hu hb hc h1 hlt => exact linv_newUpdate hi b n hj hp hu hb h1 hlt
  | insert b upd user specs u bt first hop hu hrej hj hp hupd =>
    subst hop; exact linv_insert hi hu' hu hrej hj hp hupd hok
      (fun sp hsp h1 => hins b upd user specs u rfl hu h1 sp hsp)
  | commit b upd u hu hc hp hupd hj => exact linv_commit hR hi hu' hu hc hp hupd hj
  | driver h => exact linv_driver hi hu' h
  | complete b j att inst ns st e r d job hop hj hact hatt hpu hjobs =>
    subst hop; exact linv_complete hR hi hu' hwf hj hact hpu hjobs hne

/-- the `≤` instance: no further hypothesis -/
theorem linv_step (s : State) (hi : LInv (· ≤ ·) s) (op : Op) (hwf : op.WF) (hok : specsOK s op = true)
    (hne : noEarlyChild s op = true) : LInv (· ≤ ·) (step s op).1 :=
  linv_step_gen nppRel_le s hi op hwf hok hne
    (fun _ _ _ _ _ _ _ _ _ _ => Int.ofNat_le.mpr (List.length_filter_le _ _))

/-- with the invariant, every transaction moves every job row along the lifecycle relation -/
theorem allowed_step {s s' : State} {op : Op} (h : StepDesc s op s') (hwf : op.WF) (hi : LInv R s) (x : Job) (hx : x ∈ s.jobs)
    (x' : Job)
    (hx' : findJob s' x.batch x.id = some x') : allowed x.state x'.state = true := by
  have hfind := findJob_of_mem hi.uniq x hx
  cases h with
  | same h => rw [findJob_congr h.1, hfind] at hx'; cases hx'; exact allowed_refl _
  | newUpdate b n hj => rw [findJob_congr hj, hfind] at hx'; cases hx'; exact allowed_refl _
  | insert b upd user specs u bt first hop hu' hrej hj =>
    rw [findJob_append_some hj hfind] at hx'; cases hx'; exact allowed_refl _
  | commit b upd u hu hc hp' hupd hj =>
    rcases hj with ⟨_, hj⟩ | ⟨h1, hj⟩
    · rw [findJob_congr hj, hfind] at hx'; cases hx'; exact allowed_refl _
    · rw [findJob_mapF (JobFrame.ite _ (jobFrame_recomputeJob s b)) hj, hfind] at hx'
      simp only [Option.map_some, Option.some.injEq] at hx'
      subst hx'
      by_cases hr : inUpdRange b u x = true
      · obtain ⟨k1, k2⟩ := inUpdRange_update hi hu hx hr
        have hunc : updCommitted s b upd = false := by unfold updCommitted; rw [hu]; exact hc
        have hp := hi.unc x hx (by rw [k2]; exact h1) (by rw [k1, k2]; exact hunc)
        simp only [hr, if_true]
        rw [hp]
        rcases recomputeJob_state s b x with h | h <;> rw [h] <;> rfl
      · simp only [hr]; exact allowed_refl _
  | driver h =>
    obtain ⟨⟨p, st, a, hj, _, hall⟩, _⟩ := h
    rw [findJob_mapF (JobFrame.ite _ (jobFrame_setStateAttempt st a)) hj, hfind] at hx'
    simp only [Option.map_some, Option.some.injEq] at hx'
    subst hx'
    by_cases hpx : p x = true
    · simp only [hpx, if_true]; exact (hall x hx hpx).2
    · simp only [hpx]; exact allowed_refl _
  | complete b j att inst ns st e r d job hop hj hact hatt hpu hjobs =>
    subst hop
    have hns : ns.terminal = true := hwf
    rw [findJob_mapF (jobFrame_completeMap s b j att ns) hjobs, hfind] at hx'
    simp only [Option.map_some, Option.some.injEq] at hx'
    subst hx'
    rcases completeMap_cases hi att ns hj hact x hx with ⟨k1, k2⟩ | ⟨_, _, k3, k4⟩ | ⟨_, _, k4⟩
    · rw [k2]; subst k1; exact allowed_active_terminal hact hns
    · rw [k4, k3]
      rcases childUpdate_state ns x with h | h <;> rw [h] <;> rfl
    · rw [k4]; exact allowed_refl _

/-! ## unconditional structure of `batch_updates` -/

theorem updOrdered_init : UpdOrdered init := by intro u hu; simp [init] at hu

theorem updOrdered_of_eq {s s' : State} (e : s'.updates = s.updates) (ho : UpdOrdered s) : UpdOrdered s' := by
  unfold UpdOrdered; rw [e]; exact ho

theorem updOrdered_step (s : State) (hu : JobsUnique s) (ho : UpdOrdered s) (op : Op) : UpdOrdered (step s op).1 := by
  cases stepDesc s hu ho op with
  | same h => exact updOrdered_of_eq h.2.2 ho
  | newUpdate b n hj hp hupd hb hc h1 hlt => exact updOrdered_append ho hupd h1 (by rw [hb]; exact hlt)
  | insert b upd user specs u bt first hop hu' hrej hj hp hupd => exact updOrdered_of_eq hupd ho
  | commit b upd u hu' hc hp hupd hj => exact updOrdered_markCommitted ho hupd
  | driver h => exact updOrdered_of_eq h.pu.2 ho
  | complete b j att inst ns st e r d job hop hj hact hatt hpu hjobs => exact updOrdered_of_eq hpu.2 ho

/-- Boolean form of `Op.WF` -/
def wfB : Op → Bool
  | .complete _ _ _ _ ns _ _ _ _ => ns.terminal
  | _ => true

theorem wf_of_wfB {op : Op} (h : wfB op = true) : op.WF := by
  cases op <;> first | exact h | trivial

/-! ## tallies: one completion counts once -/

/-- (n_completed, n_succeeded, n_failed, n_cancelled) of a group row -/
def tallyOf (g : Group) : Int × Int × Int × Int := (g.nCompleted, g.nSucceeded, g.nFailed, g.nCancelled)

/-- what one completion with state `ns` adds -/
def tallyInc (ns : JState) : Int × Int × Int × Int :=
  (1, b2i (ns ≠ .Cancelled ∧ ns ≠ .Error ∧ ns ≠ .Failed), b2i (ns = .Error ∨ ns = .Failed), b2i (ns = .Cancelled))

def tallyAdd (a c : Int × Int × Int × Int) : Int × Int × Int × Int := (a.1 + c.1, a.2.1 + c.2.1, a.2.2.1 + c.2.2.1, a.2.2.2 + c.2.2.2)

@[simp] theorem completePrep_groups (s : State) (b j : Nat) (att inst : Option Nat) (st e : Option Int) (r : String) (d : Nat)
    (job : Job) : (completePrep s b j att inst st e r d job).groups = s.groups := by
  unfold completePrep; dsimp only
  cases att <;> dsimp only <;> split_ifs <;> simp [freeAdd]

theorem ancestorsOf_congr {s s' : State} (e : s'.groups = s.groups) (b g : Nat) : ancestorsOf s' b g = ancestorsOf s b g := by
  unfold ancestorsOf findGroup; rw [e]

theorem tallyOf_tally (ns : JState) (g : Group) : tallyOf (tally ns g) = tallyAdd (tallyOf g) (tallyInc ns) := rfl

def tallyKey (g : Group) : Nat × Nat × (Int × Int × Int × Int) := (g.batch, g.id, tallyOf g)

theorem markGroupsComplete_tallies (s : State) (b g : Nat) :
    (markGroupsComplete s b g).groups.map tallyKey = s.groups.map tallyKey := by
  unfold markGroupsComplete
  simp only [List.map_map]
  apply List.map_congr_left
  intro x _
  simp only [Function.comp]
  split_ifs <;> rfl

theorem tallyGroups_tallies (s : State) (b g : Nat) (ns : JState) :
    (tallyGroups s b g ns).groups.map tallyKey = s.groups.map (fun x => (x.batch, x.id,
      if x.batch = b ∧ x.id ∈ ancestorsOf s b g then tallyAdd (tallyOf x) (tallyInc ns) else tallyOf x)) := by
  unfold tallyGroups
  simp only [List.map_map]
  apply List.map_congr_left
  intro x _
  simp only [Function.comp, List.contains_iff_mem]
  split_ifs <;> rfl

/-- the group table after `mark_job_complete` took its main branch: identity columns kept, the tallies of the job's
group and of every ancestor get `tallyInc`, all other rows keep theirs -/
theorem completeJob_tallies (s : State) (b j : Nat) (att : Option Nat) (ns : JState) (job : Job) :
    (completeJob s b j att ns job).groups.map tallyKey =
      s.groups.map (fun g => (g.batch, g.id,
        if g.batch = b ∧ g.id ∈ ancestorsOf s b job.group then tallyAdd (tallyOf g) (tallyInc ns) else tallyOf g)) := by
  unfold completeJob
  rw [markGroupsComplete_tallies]
  show (tallyGroups (updateJobs s (isJob b j) (setStateAttempt ns att)) b job.group ns).groups.map tallyKey = _
  rw [tallyGroups_tallies]
  rfl

/-- **one completion counts once**: `mark_job_complete` answering rc 0 on a job that was Ready / Creating / Running adds
`tallyInc` to the job's group and every ancestor, and to no other group; on an already terminal job, or with a stale
attempt id (rc 2), or on a Pending job (rc 1) it changes no group row at all -/
theorem complete_tallies (s : State) (b j : Nat) (att inst : Option Nat) (ns : JState) (st e : Option Int) (r : String)
    (d : Nat) (job : Job) (hj : findJob s b j = some job) :
    (job.state.active = true → (complete s b j att inst ns st e r d).2 = .ok 0 →
      (complete s b j att inst ns st e r d).1.groups.map tallyKey = s.groups.map (fun g => (g.batch, g.id,
        if g.batch = b ∧ g.id ∈ ancestorsOf s b job.group then tallyAdd (tallyOf g) (tallyInc ns) else tallyOf g))) ∧
    ((job.state.active = false ∨ (complete s b j att inst ns st e r d).2 ≠ .ok 0) →
      (complete s b j att inst ns st e r d).1.groups = s.groups) := by
  unfold complete findJobFk
  by_cases hf : attemptFkFails s b j att inst = true
  · -- `add_attempt` violated the foreign key on `instances`: nothing written, never `ok 0`
    rw [if_pos hf]
    exact ⟨fun _ h => by revert h; dsimp only; split_ifs <;> simp, fun _ => rfl⟩
  rw [if_neg hf, hj]
  dsimp only
  split_ifs with h1 h2 h3
  · exact ⟨fun _ h => by simp at h, fun _ => by simp⟩
  · refine ⟨fun _ _ => ?_, fun h => ?_⟩
    · rw [updateJobs_groups, completeJob_tallies]
      have : ancestorsOf (completePrep s b j att inst st e r d job) b job.group = ancestorsOf s b job.group :=
        ancestorsOf_congr (by simp) _ _
      rw [this, completePrep_groups]
    · exfalso
      rcases h with h | h
      · rcases h2 with k | k | k <;> rw [k] at h <;> simp [JState.active] at h
      · exact h rfl
  · refine ⟨fun ha _ => ?_, fun _ => by simp⟩
    exfalso
    exact h2 (by cases hs : job.state <;> simp_all [JState.active])
  · refine ⟨fun _ h => by simp at h, fun _ => by simp⟩

/-! ## C05 helpers -/

theorem find?_map_frame {α : Type} (p : α → Bool) (F : α → α) (hF : ∀ x, p (F x) = p x) (l : List α) :
    (l.map F).find? p = (l.find? p).map F := by
  rw [List.find?_map]
  congr 1
  congr 1
  funext y
  exact hF y

/-- `add_attempt` changes no instance's state (only free cores) -/
theorem instState_addAttempt (s : State) (b j : Nat) (a i : Option Nat) (c : Int) (n : Option Nat) :
    instState (addAttempt s b j a i c).1 n = instState s n := by
  unfold addAttempt
  split
  · rfl
  · split
    · rfl
    · dsimp only
      unfold instState
      cases n with
      | none => rfl
      | some n =>
        simp only [Option.bind_some, findInstance]
        rw [find?_map_frame]
        · cases List.find? (fun x => decide (x.name = n)) s.instances with
          | none => rfl
          | some x => simp only [Option.map_some]; split_ifs <;> rfl
        · intro x; split_ifs <;> rfl

theorem instState_updateAttempts (s : State) (d : Nat) (p : Attempt → Bool)
    (f : Generated.AttemptsTrigger.Row → Generated.AttemptsTrigger.Row) (n : Option Nat) :
    instState (updateAttempts s d p f) n = instState s n := rfl

/-- always-run jobs are never "cancelled" for the guards, whatever their mark and their groups -/
theorem jobCancelled_alwaysRun (s : State) (x : Job) (h : x.alwaysRun = true) : jobCancelled s x = false := by
  unfold jobCancelled; simp [h]

theorem findJob_updateJobs_isJob (s : State) {b j : Nat} {job : Job} (hj : findJob s b j = some job) (f : Job → Job)
    (hf : JobFrame f) : findJob (updateJobs s (isJob b j) f) b j = some (f job) := by
  rw [findJob_mapF (JobFrame.ite _ hf) (updateJobs_jobs s _ f), hj]
  obtain ⟨_, hb, hid⟩ := mem_of_findJob hj
  simp [isJob, hb, hid]

theorem parentDone_append_false {s s' : State} {new : List Job} (e : s'.jobs = s.jobs ++ new)
    (hnew : ∀ y ∈ new, y.state.terminal = false) {b p : Nat} (h : parentDone s b p = false) :
    parentDone s' b p = false := by
  unfold parentDone at *
  cases hf : findJob s b p with
  | some y => rw [findJob_append_some e hf]; rw [hf] at h; exact h
  | none =>
    rw [findJob_append_none e hf]
    cases hn : new.find? (fun x => decide (x.batch = b ∧ x.id = p)) with
    | none => rfl
    | some y => exact hnew y (List.mem_of_find?_eq_some hn)

theorem mkJob_not_terminal (u : Update) (b : Nat) (sp : JobSpec) : (mkJob u b sp).state.terminal = false := by
  simp only [mkJob]; split_ifs <;> rfl

/-- extra hypothesis for the exact count: a bunch of update 1 names no parent that is already done (first-update jobs
are not run before the update is committed: the batch is not `running` until then) -/
def firstFresh (s : State) : Op → Bool
  | .insertJobs b upd _ specs =>
    match findUpdate s b upd with
    | some u => decide (u.id ≠ 1) || specs.all fun sp => (jobParents u sp).all fun p => !parentDone s b p
    | none => true
  | _ => true

/-- the `=` instance of the invariant step -/
theorem linv_step_eq (s : State) (hi : LInv (· = ·) s) (op : Op) (hwf : op.WF) (hok : specsOK s op = true)
    (hne : noEarlyChild s op = true) (hff : firstFresh s op = true) : LInv (· = ·) (step s op).1 := by
  refine linv_step_gen nppRel_eq s hi op hwf hok hne ?_
  intro b upd user specs u hop hu hu1 sp hsp
  subst hop
  simp only [firstFresh, hu, hu1, ne_eq, not_true_eq_false, decide_false, Bool.false_or, List.all_eq_true,
    Bool.not_eq_true'] at hff
  have hall : ∀ p ∈ jobParents u sp, parentDone (step s (.insertJobs b upd user specs)).1 b p = false := by
    intro p hp
    have h0 := hff sp hsp p hp
    rcases insertJobs_cases s b upd user specs with hsame | ⟨u', bt, first, _, _, hj, _, _⟩
    · show parentDone (insertJobs s b upd user specs).1 b p = false
      rw [parentDone_congr hsame.1]; exact h0
    · refine parentDone_append_false (s' := (insertJobs s b upd user specs).1) hj ?_ h0
      intro y hy
      rw [List.mem_map] at hy
      obtain ⟨sp', _, rfl⟩ := hy
      exact mkJob_not_terminal u' b sp'
  rw [List.filter_eq_self.mpr (by intro p hp; rw [hall p hp]; rfl)]

theorem linv_le_of_eq {s : State} (h : LInv (· = ·) s) : LInv (· ≤ ·) s :=
  ⟨h.uniq, h.upd, h.range, h.pex, h.pnd, h.unc, h.pp, fun x hx h1 h2 => Int.le_of_eq (h.npp x hx h1 h2)⟩

/-- the row of a child after its parent's `mark_job_complete` took the main branch -/
theorem complete_child_row (s : State) (hu : JobsUnique s) (b j : Nat) (att inst : Option Nat) (ns : JState)
    (st e : Option Int) (r : String) (d : Nat) (job : Job) (hj : findJob s b j = some job) (hact : job.state.active = true)
    (hrc : (complete s b j att inst ns st e r d).2 = .ok 0) (x : Job) (hx : x ∈ s.jobs) (hc : isChildOf s b j x = true) :
    ∃ x', findJob (complete s b j att inst ns st e r d).1 x.batch x.id = some x' ∧ x'.alwaysRun = x.alwaysRun ∧
      (x'.state = .Pending ∨ x'.state = .Ready) ∧ (ns ≠ .Success → x'.cancelled = true) ∧
      (ns = .Success → x'.cancelled = x.cancelled) := by
  obtain ⟨_, h | ⟨job', _, _, _, _, hjobs⟩⟩ := complete_cases s b j att inst ns st e r d
  · have := h.2 job hj hrc
    rw [active_not_terminal hact] at this; simp at this
  · have hF := jobFrame_completeMap s b j att ns
    refine ⟨completeMap s b j att ns x, ?_, (hF x).2.2.2.2.1, ?_, ?_, ?_⟩
    · rw [findJob_mapF hF hjobs, findJob_of_mem hu x hx]; rfl
    all_goals
      unfold completeMap
      dsimp only
      have hc' : isChildOf s b j (if isJob b j x = true then setStateAttempt ns att x else x) = true := by
        rw [isChildOf_frame s b j x _ (by split_ifs <;> rfl) (by split_ifs <;> rfl)]; exact hc
      rw [if_pos hc']
    · exact childUpdate_state ns _
    · intro hns; simp [childUpdate, hns]
    · intro hns; simp only [childUpdate, hns, if_true]; split_ifs <;> rfl

/-! ## tallies: which transactions touch group rows, batch ids and the batch id counter -/

/-- what the tally invariant reads of a group row -/
def groupKey (g : Group) : Nat × Nat × List Nat × (Int × Int × Int × Int) := (g.batch, g.id, g.ancestors, tallyOf g)

/-- group rows keep their keys, ancestors and tallies (in order), batch rows keep their ids, no batch id is allocated -/
def Quiet (s s' : State) : Prop :=
  s'.groups.map groupKey = s.groups.map groupKey ∧ s'.batches.map (·.id) = s.batches.map (·.id) ∧ s'.nextBatch = s.nextBatch

theorem Quiet.refl (s : State) : Quiet s s := ⟨rfl, rfl, rfl⟩
theorem Quiet.trans {a b c : State} (h1 : Quiet a b) (h2 : Quiet b c) : Quiet a c :=
  ⟨h2.1.trans h1.1, h2.2.1.trans h1.2.1, h2.2.2.trans h1.2.2⟩
theorem Quiet.of_eq {s s' : State} (hg : s'.groups = s.groups) (hb : s'.batches = s.batches) (hn : s'.nextBatch = s.nextBatch) :
    Quiet s s' := ⟨by rw [hg], by rw [hb], hn⟩

theorem quiet_updateJobs (s : State) (p : Job → Bool) (f : Job → Job) : Quiet s (updateJobs s p f) := ⟨rfl, rfl, rfl⟩
theorem quiet_updateAttempts (s : State) (d : Nat) (p : Attempt → Bool)
    (f : Generated.AttemptsTrigger.Row → Generated.AttemptsTrigger.Row) : Quiet s (updateAttempts s d p f) := ⟨rfl, rfl, rfl⟩
theorem quiet_addAttempt (s : State) (b j : Nat) (a i : Option Nat) (c : Int) : Quiet s (addAttempt s b j a i c).1 := by
  unfold addAttempt; repeat' split
  all_goals exact ⟨rfl, rfl, rfl⟩
theorem quiet_freeAdd (s : State) (i : Option Nat) (d : Int) : Quiet s (freeAdd s i d) := ⟨rfl, rfl, rfl⟩
theorem quiet_endAttempts (s : State) (d : Nat) (p : Attempt → Bool) (ts : Int) (r : String) :
    Quiet s (endAttempts s d p ts r) := ⟨rfl, rfl, rfl⟩
theorem quiet_schedulePrep (s : State) (b j a i : Nat) (job : Job) : Quiet s (schedulePrep s b j a i job) :=
  quiet_addAttempt s b j _ _ _
theorem quiet_startPrep (s : State) (b j a i : Nat) (ts : Int) (d : Nat) (job : Job) :
    Quiet s (startPrep s b j a i ts d job) :=
  (quiet_addAttempt s b j _ _ _).trans (quiet_updateAttempts _ d _ _)

theorem quiet_completePrep (s : State) (b j : Nat) (att inst : Option Nat) (st e : Option Int) (r : String) (d : Nat)
    (job : Job) : Quiet s (completePrep s b j att inst st e r d job) := by
  unfold completePrep
  dsimp only
  have h1 := quiet_addAttempt s b j att inst job.cores
  cases att with
  | none => dsimp only; split_ifs
            · exact h1.trans (quiet_freeAdd _ _ _)
            · exact h1
  | some a => dsimp only; split_ifs
              · exact (h1.trans (quiet_updateAttempts _ d _ _)).trans (quiet_freeAdd _ _ _)
              · exact h1.trans (quiet_updateAttempts _ d _ _)

theorem quiet_unschedulePrep (s : State) (b j a i : Nat) (e : Int) (r : String) (d : Nat) (job : Job) :
    Quiet s (unschedulePrep s b j a i e r d job) := by
  unfold unschedulePrep
  dsimp only
  split_ifs
  · exact (quiet_endAttempts s d _ e r).trans (quiet_freeAdd _ _ _)
  · exact quiet_endAttempts s d _ e r

theorem quiet_createUpdate (s : State) (b t nj ng u : Nat) : Quiet s (createUpdate s b t nj ng u).1 := by
  unfold createUpdate; model_split <;> exact ⟨rfl, rfl, rfl⟩
theorem quiet_insertJobs (s : State) (b upd user : Nat) (specs : List JobSpec) : Quiet s (insertJobs s b upd user specs).1 := by
  unfold insertJobs; model_split <;> exact ⟨rfl, rfl, rfl⟩
theorem quiet_cancelGroup (s : State) (b g : Nat) : Quiet s (cancelGroup s b g).1 := by
  unfold cancelGroup; split_ifs <;> exact ⟨rfl, rfl, rfl⟩
theorem map_id_ite {α β : Type} (l : List α) (key : α → β) (c : α → Prop) [DecidablePred c] (f : α → α)
    (hf : ∀ x, key (f x) = key x) : (l.map fun x => if c x then f x else x).map key = l.map key := by
  rw [List.map_map]; apply List.map_congr_left; intro x _; simp only [Function.comp]; split_ifs
  · exact hf x
  · rfl
theorem quiet_deleteBatch (s : State) (b : Nat) : Quiet s (deleteBatch s b).1 := by
  unfold deleteBatch; split
  · exact Quiet.refl s
  · split_ifs
    · exact Quiet.refl s
    · exact ⟨rfl, map_id_ite _ _ _ _ (fun _ => rfl), rfl⟩
    · exact ⟨rfl, map_id_ite _ _ _ _ (fun _ => rfl), rfl⟩
theorem quiet_newInstance (s : State) (n : Nat) (c : Int) (p : Bool) : Quiet s (newInstance s n c p).1 := by
  unfold newInstance; split_ifs <;> exact ⟨rfl, rfl, rfl⟩
theorem quiet_activate (s : State) (n : Nat) : Quiet s (activate s n).1 := by
  unfold activate; model_split <;> exact ⟨rfl, rfl, rfl⟩
theorem quiet_markDeleted (s : State) (n : Nat) : Quiet s (markDeleted s n).1 := by
  unfold markDeleted; model_split <;> exact ⟨rfl, rfl, rfl⟩
theorem quiet_addResources (s : State) (b j a : Nat) (res : List (Nat × Int)) (d : Nat) :
    Quiet s (addResources s b j a res d).1 := by
  unfold addResources; split_ifs <;> exact ⟨rfl, rfl, rfl⟩
theorem quiet_deactivate (s : State) (n : Nat) (r : String) (ts : Int) (d : Nat) : Quiet s (deactivate s n r ts d).1 := by
  unfold deactivate; split
  · exact Quiet.refl s
  · split_ifs
    · exact Quiet.refl s
    · exact ⟨rfl, rfl, rfl⟩
theorem quiet_schedule (s : State) (b j a i : Nat) : Quiet s (schedule s b j a i).1 := by
  unfold schedule; split
  · exact Quiet.refl s
  · split_ifs
    · exact (quiet_schedulePrep s b j a i _).trans (quiet_updateJobs _ _ _)
    · exact quiet_schedulePrep s b j a i _
theorem quiet_startLike (s : State) (b j a i : Nat) (ts : Int) (d : Nat) (need : IState) (ns : JState) :
    Quiet s (startLike s b j a i ts d need ns).1 := by
  unfold startLike; split
  · exact Quiet.refl s
  · split_ifs
    · exact (quiet_startPrep s b j a i ts d _).trans (quiet_updateJobs _ _ _)
    · exact quiet_startPrep s b j a i ts d _
theorem quiet_unschedule (s : State) (b j a i : Nat) (e : Int) (r : String) (d : Nat) :
    Quiet s (unschedule s b j a i e r d).1 := by
  unfold unschedule; split
  · exact Quiet.refl s
  · split_ifs
    · exact (quiet_unschedulePrep s b j a i e r d _).trans (quiet_updateJobs _ _ _)
    · exact quiet_unschedulePrep s b j a i e r d _

theorem quiet_commitUpdate (s : State) (b upd : Nat) : Quiet s (commitUpdate s b upd).1 := by
  unfold commitUpdate
  model_split
  all_goals first | exact Quiet.refl s | exact ⟨rfl, rfl, rfl⟩ | skip
  all_goals
    refine ⟨map_id_ite _ _ _ _ (fun _ => rfl), map_id_ite _ _ _ _ (fun _ => rfl), rfl⟩

/-! ## tallies: the recount and what group lookups depend on -/

/-- the four components of a tally -/
def comp (i : Fin 4) (t : Int × Int × Int × Int) : Int :=
  match i with
  | 0 => t.1 | 1 => t.2.1 | 2 => t.2.2.1 | 3 => t.2.2.2

theorem comp_add (i : Fin 4) (a c : Int × Int × Int × Int) : comp i (tallyAdd a c) = comp i a + comp i c := by
  match i with
  | 0 => rfl | 1 => rfl | 2 => rfl | 3 => rfl

/-- what a job contributes to the tallies of the groups above it -/
def contrib (st : JState) : Int × Int × Int × Int := if st.terminal then tallyInc st else (0, 0, 0, 0)

theorem comp_zero (i : Fin 4) : comp i (0, 0, 0, 0) = 0 := by
  match i with
  | 0 => rfl | 1 => rfl | 2 => rfl | 3 => rfl

theorem contrib_of_not_terminal {st : JState} (h : st.terminal = false) : contrib st = (0, 0, 0, 0) := by
  simp [contrib, h]

/-- job `x` lies in group `gid` of batch `b` or below it -/
def under (s : State) (b gid : Nat) (x : Job) : Bool := decide (x.batch = b) && (ancestorsOf s x.batch x.group).contains gid

/-- the recount: component `i` of the tallies group (b, gid) should have -/
def recount (i : Fin 4) (s : State) (b gid : Nat) : Int :=
  sumBy (fun x => if under s b gid x then comp i (contrib x.state) else 0) s.jobs

theorem findGroup_keys (s : State) (b g : Nat) :
    (findGroup s b g).map groupKey = (s.groups.map groupKey).find? (fun k => decide (k.1 = b ∧ k.2.1 = g)) := by
  unfold findGroup
  rw [List.find?_map]
  rfl

theorem ancestorsOf_keys {s s' : State} (h : s'.groups.map groupKey = s.groups.map groupKey) (b g : Nat) :
    ancestorsOf s' b g = ancestorsOf s b g := by
  have h1 := findGroup_keys s b g
  have h2 := findGroup_keys s' b g
  rw [h, ← h1] at h2
  unfold ancestorsOf
  cases hf : findGroup s b g with
  | none =>
    cases hf' : findGroup s' b g with
    | none => rfl
    | some v' => rw [hf, hf'] at h2; simp at h2
  | some v =>
    cases hf' : findGroup s' b g with
    | none => rw [hf, hf'] at h2; simp at h2
    | some v' =>
      rw [hf, hf'] at h2
      simp only [Option.map_some, Option.some.injEq, groupKey, Prod.mk.injEq] at h2
      exact h2.2.2.1

theorem findGroup_isSome_keys {s s' : State} (h : s'.groups.map groupKey = s.groups.map groupKey) (b g : Nat) :
    (findGroup s' b g).isSome = (findGroup s b g).isSome := by
  have h1 := findGroup_keys s b g
  have h2 := findGroup_keys s' b g
  rw [h, ← h1] at h2
  cases hf : findGroup s b g <;> cases hf' : findGroup s' b g <;> rw [hf, hf'] at h2 <;> simp at h2 <;> rfl

theorem mem_keys {s s' : State} (h : s'.groups.map groupKey = s.groups.map groupKey) {g' : Group} (hg : g' ∈ s'.groups) :
    ∃ g ∈ s.groups, groupKey g = groupKey g' := by
  have : groupKey g' ∈ s'.groups.map groupKey := List.mem_map_of_mem hg
  rw [h, List.mem_map] at this
  exact this

theorem findGroup_append_some {s s' : State} {new : List Group} (e : s'.groups = s.groups ++ new) {b g : Nat}
    (h : (findGroup s b g).isSome = true) : findGroup s' b g = findGroup s b g := by
  unfold findGroup at *
  rw [e, List.find?_append]
  cases hf : List.find? (fun x => decide (x.batch = b ∧ x.id = g)) s.groups with
  | none => rw [hf] at h; simp at h
  | some x => rfl

theorem ancestorsOf_append_some {s s' : State} {new : List Group} (e : s'.groups = s.groups ++ new) {b g : Nat}
    (h : (findGroup s b g).isSome = true) : ancestorsOf s' b g = ancestorsOf s b g := by
  unfold ancestorsOf; rw [findGroup_append_some e h]

theorem mem_of_findGroup {s : State} {b g : Nat} {x : Group} (h : findGroup s b g = some x) :
    x ∈ s.groups ∧ x.batch = b ∧ x.id = g := by
  unfold findGroup at h
  have := List.find?_some h
  exact ⟨List.mem_of_find?_eq_some h, by simpa using this⟩

theorem findGroup_isSome_of_mem {s : State} {x : Group} (hx : x ∈ s.groups) : (findGroup s x.batch x.id).isSome = true := by
  unfold findGroup
  rw [List.find?_isSome]
  exact ⟨x, hx, by simp⟩

/-- the recount only reads job rows' batch / group / state and the ancestor lists of their groups -/
theorem recount_map_append (i : Fin 4) {s s' : State} {F : Job → Job} {new : List Job} (hF : JobFrame F)
    (e : s'.jobs = s.jobs.map F ++ new) (hanc : ∀ x ∈ s.jobs, ancestorsOf s' x.batch x.group = ancestorsOf s x.batch x.group)
    (hnew : ∀ y ∈ new, y.state.terminal = false) (b gid : Nat) :
    recount i s' b gid = recount i s b gid +
      sumBy (fun x => if under s b gid x then comp i (contrib (F x).state) - comp i (contrib x.state) else 0) s.jobs := by
  unfold recount
  rw [e, sumBy_append]
  have hz : sumBy (fun x => if under s' b gid x then comp i (contrib x.state) else 0) new = 0 := by
    apply sumBy_zero
    intro y hy
    rw [contrib_of_not_terminal (hnew y hy), comp_zero]; simp
  rw [hz, Int.add_zero]
  have : sumBy (fun x => if under s' b gid x then comp i (contrib x.state) else 0) (s.jobs.map F) =
      sumBy (fun x => if under s b gid x then comp i (contrib (F x).state) else 0) s.jobs := by
    unfold sumBy
    rw [List.map_map]
    congr 1
    apply List.map_congr_left
    intro x hx
    have hu : under s' b gid (F x) = under s b gid x := by
      unfold under; rw [(hF x).1, (hF x).2.2.2.1, hanc x hx]
    simp only [Function.comp, hu]
  rw [this]
  unfold sumBy
  induction s.jobs with
  | nil => rfl
  | cons x l ih =>
    simp only [List.map_cons, List.sum_cons, ih]
    split_ifs <;> omega

/-! ## the tally invariant -/

structure TInv (s : State) : Prop where
  gself : GroupsSelf s
  /-- every job's group has a row -/
  jgrp : ∀ x ∈ s.jobs, (findGroup s x.batch x.group).isSome = true
  /-- ancestor lists name existing groups -/
  closed : ∀ g ∈ s.groups, ∀ a ∈ g.ancestors, (findGroup s g.batch a).isSome = true
  bids : ∀ bt ∈ s.batches, bt.id < s.nextBatch
  gbatch : ∀ g ∈ s.groups, g.batch < s.nextBatch
  /-- every tally of every group row equals the recount over the jobs in the group or below it -/
  exact : ∀ g ∈ s.groups, ∀ i : Fin 4, comp i (tallyOf g) = recount i s g.batch g.id

theorem tinv_init : TInv init :=
  ⟨groupsSelf_init, by intro x hx; simp [init] at hx, by intro x hx; simp [init] at hx, by intro x hx; simp [init] at hx,
   by intro x hx; simp [init] at hx, by intro x hx; simp [init] at hx⟩

/-- the job table after a transaction that completes nothing: rows updated in place keeping their contribution, new rows
not terminal and in existing groups -/
def JQuiet (s s' : State) : Prop :=
  ∃ (F : Job → Job) (new : List Job), JobFrame F ∧ s'.jobs = s.jobs.map F ++ new ∧
    (∀ x ∈ s.jobs, contrib (F x).state = contrib x.state) ∧ (∀ y ∈ new, y.state.terminal = false) ∧
    (∀ y ∈ new, (findGroup s y.batch y.group).isSome = true)

theorem jquiet_of_eq {s s' : State} (e : s'.jobs = s.jobs) : JQuiet s s' :=
  ⟨id, [], JobFrame.id, by simp [e], fun _ _ => rfl, by simp, by simp⟩

theorem contrib_active {a b : JState} (ha : a.active = true) (hb : b.active = true) : contrib b = contrib a := by
  rw [contrib_of_not_terminal (active_not_terminal ha), contrib_of_not_terminal (active_not_terminal hb)]

theorem jquiet_of_stepDesc {R : Int → Int → Prop} {s s' : State} {op : Op} (hd : StepDesc s op s') (hi : LInv R s)
    (hnc : ∀ b j att inst ns st e r d, op ≠ .complete b j att inst ns st e r d) : JQuiet s s' := by
  cases hd with
  | same h => exact jquiet_of_eq h.1
  | newUpdate b n hj => exact jquiet_of_eq hj
  | insert b upd user specs u bt first hop hu hrej hj hp hupd =>
    refine ⟨id, _, JobFrame.id, by simpa using hj, fun _ _ => rfl, ?_, ?_⟩
    · intro y hy; rw [List.mem_map] at hy; obtain ⟨sp, _, rfl⟩ := hy; exact mkJob_not_terminal u b sp
    · intro y hy
      have hb : y.batch = b := by rw [List.mem_map] at hy; obtain ⟨sp, _, rfl⟩ := hy; rfl
      rw [hb]; exact ((insertJobsReject_none hrej).1 y hy).2.1
  | commit b upd u hu hc hp hupd hj =>
    rcases hj with ⟨_, hj⟩ | ⟨h1, hj⟩
    · exact jquiet_of_eq hj
    · refine ⟨_, [], JobFrame.ite _ (jobFrame_recomputeJob s b), by simpa using hj, ?_, by simp, by simp⟩
      intro x hx
      by_cases hr : inUpdRange b u x = true
      · simp only [hr, if_true]
        obtain ⟨k1, k2⟩ := inUpdRange_update hi hu hx hr
        have hunc : updCommitted s b upd = false := by unfold updCommitted; rw [hu]; exact hc
        have hp := hi.unc x hx (by rw [k2]; exact h1) (by rw [k1, k2]; exact hunc)
        rw [hp]
        rcases recomputeJob_state s b x with h | h <;> rw [h] <;> rfl
      · simp [hr]
  | driver h =>
    obtain ⟨⟨p, st, a, hj, hst, hall⟩, _⟩ := h
    refine ⟨_, [], JobFrame.ite _ (jobFrame_setStateAttempt st a), by simpa using hj, ?_, by simp, by simp⟩
    intro x hx
    by_cases hpx : p x = true
    · simp only [hpx, if_true]
      exact contrib_active (hall x hx hpx).1 hst
    · simp [hpx]
  | complete b j att inst ns st e r d job hop => exact absurd hop (hnc b j att inst ns st e r d)

theorem findGroup_some_of_isSome {s : State} {b g : Nat} (h : (findGroup s b g).isSome = true) :
    ∃ x, findGroup s b g = some x := Option.isSome_iff_exists.mp h

/-- a transaction that touches no tally and completes no job preserves the tally invariant -/
theorem tinv_quiet {s s' : State} (ht : TInv s) (hq : Quiet s s') (hjq : JQuiet s s') : TInv s' := by
  obtain ⟨hk, hb, hn⟩ := hq
  obtain ⟨F, new, hF, hj, hcon, hnew, hnewg⟩ := hjq
  have hanc : ∀ b g, ancestorsOf s' b g = ancestorsOf s b g := ancestorsOf_keys hk
  have hsome : ∀ b g, (findGroup s' b g).isSome = (findGroup s b g).isSome := findGroup_isSome_keys hk
  refine ⟨?_, ?_, ?_, ?_, ?_, ?_⟩
  · intro g' hg'
    obtain ⟨g, hg, he⟩ := mem_keys hk hg'
    simp only [groupKey, Prod.mk.injEq] at he
    rw [← he.2.1, ← he.2.2.1]; exact ht.gself g hg
  · intro x' hx'
    rw [hj, List.mem_append] at hx'
    rcases hx' with hx' | hx'
    · rw [List.mem_map] at hx'
      obtain ⟨x, hx, rfl⟩ := hx'
      rw [(hF x).1, (hF x).2.2.2.1, hsome]; exact ht.jgrp x hx
    · rw [hsome]; exact hnewg x' hx'
  · intro g' hg' a ha
    obtain ⟨g, hg, he⟩ := mem_keys hk hg'
    simp only [groupKey, Prod.mk.injEq] at he
    rw [hsome, ← he.1]
    exact ht.closed g hg a (by rw [he.2.2.1]; exact ha)
  · intro bt hbt
    have : bt.id ∈ s'.batches.map (·.id) := List.mem_map_of_mem hbt
    rw [hb, List.mem_map] at this
    obtain ⟨bt0, h0, he⟩ := this
    rw [hn, ← he]; exact ht.bids bt0 h0
  · intro g' hg'
    obtain ⟨g, hg, he⟩ := mem_keys hk hg'
    simp only [groupKey, Prod.mk.injEq] at he
    rw [hn, ← he.1]; exact ht.gbatch g hg
  · intro g' hg' i
    obtain ⟨g, hg, he⟩ := mem_keys hk hg'
    simp only [groupKey, Prod.mk.injEq] at he
    rw [← he.2.2.2, ← he.1, ← he.2.1, ht.exact g hg i,
      recount_map_append i hF hj (fun x _ => hanc _ _) hnew g.batch g.id]
    have : sumBy (fun x => if under s g.batch g.id x then comp i (contrib (F x).state) - comp i (contrib x.state) else 0)
        s.jobs = 0 := by
      apply sumBy_zero
      intro x hx
      rw [hcon x hx]; simp
    rw [this, Int.add_zero]

/-! ## tallies: the three transactions that touch group rows -/

theorem markGroupsComplete_keys (s : State) (b g : Nat) :
    (markGroupsComplete s b g).groups.map groupKey = s.groups.map groupKey := by
  unfold markGroupsComplete
  exact map_id_ite _ _ _ _ (fun _ => rfl)

theorem tallyGroups_keys (s : State) (b g : Nat) (ns : JState) :
    (tallyGroups s b g ns).groups.map groupKey = s.groups.map (fun x => (x.batch, x.id, x.ancestors,
      if x.batch = b ∧ x.id ∈ ancestorsOf s b g then tallyAdd (tallyOf x) (tallyInc ns) else tallyOf x)) := by
  unfold tallyGroups
  simp only [List.map_map]
  apply List.map_congr_left
  intro x _
  simp only [Function.comp, List.contains_iff_mem]
  split_ifs <;> rfl

theorem completeJob_keys (s : State) (b j : Nat) (att : Option Nat) (ns : JState) (job : Job) :
    (completeJob s b j att ns job).groups.map groupKey =
      s.groups.map (fun g => (g.batch, g.id, g.ancestors,
        if g.batch = b ∧ g.id ∈ ancestorsOf s b job.group then tallyAdd (tallyOf g) (tallyInc ns) else tallyOf g)) := by
  unfold completeJob
  rw [markGroupsComplete_keys]
  show (tallyGroups (updateJobs s (isJob b j) (setStateAttempt ns att)) b job.group ns).groups.map groupKey = _
  rw [tallyGroups_keys]
  rfl

theorem completeBatchIfDone_bids (s : State) (b : Nat) :
    (completeBatchIfDone s b).batches.map (·.id) = s.batches.map (·.id) := by
  unfold completeBatchIfDone
  exact map_id_ite _ _ _ _ (fun _ => rfl)

/-- `mark_job_complete`: either no tally / batch id changes, or the main branch was taken -/
theorem complete_quiet_or_fired (s : State) (b j : Nat) (att inst : Option Nat) (ns : JState) (st e : Option Int)
    (r : String) (d : Nat) :
    (Quiet s (complete s b j att inst ns st e r d).1 ∧ (complete s b j att inst ns st e r d).1.jobs = s.jobs) ∨
    ∃ job, findJob s b j = some job ∧ job.state.active = true ∧
      (complete s b j att inst ns st e r d).1.jobs = s.jobs.map (completeMap s b j att ns) ∧
      (complete s b j att inst ns st e r d).1.groups.map groupKey = s.groups.map (fun g => (g.batch, g.id, g.ancestors,
        if g.batch = b ∧ g.id ∈ ancestorsOf s b job.group then tallyAdd (tallyOf g) (tallyInc ns) else tallyOf g)) ∧
      (complete s b j att inst ns st e r d).1.batches.map (·.id) = s.batches.map (·.id) ∧
      (complete s b j att inst ns st e r d).1.nextBatch = s.nextBatch := by
  unfold complete
  split
  · exact Or.inl ⟨Quiet.refl s, rfl⟩
  · rename_i job hj
    replace hj := findJobFk_some hj
    have hq := quiet_completePrep s b j att inst st e r d job
    split_ifs with h1 h2 h3
    · exact Or.inl ⟨hq, by simp⟩
    · refine Or.inr ⟨job, hj, by rcases h2 with h | h | h <;> simp [h, JState.active], ?_, ?_, ?_, ?_⟩
      · rw [updateJobs_jobs]
        unfold completeJob
        simp only [markGroupsComplete_jobs, completeBatchIfDone_jobs, tallyGroups_jobs, updateJobs_jobs, completePrep_jobs,
          List.map_map]
        rfl
      · rw [updateJobs_groups, completeJob_keys]
        have : ancestorsOf (completePrep s b j att inst st e r d job) b job.group = ancestorsOf s b job.group :=
          ancestorsOf_congr (by simp) _ _
        rw [this, completePrep_groups]
      · rw [updateJobs_batches]
        show (completeBatchIfDone (tallyGroups (updateJobs (completePrep s b j att inst st e r d job) (isJob b j)
          (setStateAttempt ns att)) b job.group ns) b).batches.map (·.id) = _
        rw [completeBatchIfDone_bids]
        exact hq.2.1
      · exact hq.2.2
    · exact Or.inl ⟨hq, by simp⟩
    · exact Or.inl ⟨hq, by simp⟩

theorem sumBy_single {α : Type} (w : α → Int) (l : List α) (hnd : l.Nodup) (x0 : α) (hx0 : x0 ∈ l)
    (hz : ∀ x ∈ l, x ≠ x0 → w x = 0) : sumBy w l = w x0 := by
  induction l with
  | nil => simp at hx0
  | cons y l ih =>
    rw [List.nodup_cons] at hnd
    rw [sumBy_cons]
    rcases List.mem_cons.mp hx0 with rfl | hm
    · rw [sumBy_zero l w (fun x hx => hz x (by simp [hx]) (fun h => hnd.1 (h ▸ hx)))]; omega
    · have hy : y ≠ x0 := fun h => hnd.1 (h ▸ hm)
      rw [hz y (by simp) hy, ih hnd.2 hm (fun x hx => hz x (by simp [hx]))]; omega

theorem nodup_of_map_nodup {α β : Type} (f : α → β) (l : List α) (h : (l.map f).Nodup) : l.Nodup := by
  induction l with
  | nil => exact List.nodup_nil
  | cons x l ih =>
    simp only [List.map_cons, List.nodup_cons] at h ⊢
    exact ⟨fun hm => h.1 (List.mem_map_of_mem hm), ih h.2⟩

theorem jobs_nodup {s : State} (hu : JobsUnique s) : s.jobs.Nodup := nodup_of_map_nodup jobKey _ hu

/-- identity columns of a group row -/
def idKey (g : Group) : Nat × Nat × List Nat := (g.batch, g.id, g.ancestors)

theorem findGroup_idkeys (s : State) (b g : Nat) :
    (findGroup s b g).map idKey = (s.groups.map idKey).find? (fun k => decide (k.1 = b ∧ k.2.1 = g)) := by
  unfold findGroup
  rw [List.find?_map]
  rfl

theorem ancestorsOf_idkeys {s s' : State} (h : s'.groups.map idKey = s.groups.map idKey) (b g : Nat) :
    ancestorsOf s' b g = ancestorsOf s b g := by
  have h1 := findGroup_idkeys s b g
  have h2 := findGroup_idkeys s' b g
  rw [h, ← h1] at h2
  unfold ancestorsOf
  cases hf : findGroup s b g with
  | none =>
    cases hf' : findGroup s' b g with
    | none => rfl
    | some v' => rw [hf, hf'] at h2; simp at h2
  | some v =>
    cases hf' : findGroup s' b g with
    | none => rw [hf, hf'] at h2; simp at h2
    | some v' =>
      rw [hf, hf'] at h2
      simp only [Option.map_some, Option.some.injEq, idKey, Prod.mk.injEq] at h2
      exact h2.2.2

theorem findGroup_isSome_idkeys {s s' : State} (h : s'.groups.map idKey = s.groups.map idKey) (b g : Nat) :
    (findGroup s' b g).isSome = (findGroup s b g).isSome := by
  have h1 := findGroup_idkeys s b g
  have h2 := findGroup_idkeys s' b g
  rw [h, ← h1] at h2
  cases hf : findGroup s b g <;> cases hf' : findGroup s' b g <;> rw [hf, hf'] at h2 <;> simp at h2 <;> rfl

/-- one more group row with zero tallies under which no job lies -/
theorem tinv_addGroup {s s' : State} (ht : TInv s) (G : Group) (hg : s'.groups = s.groups ++ [G]) (hj : s'.jobs = s.jobs)
    (hbt : ∀ bt ∈ s'.batches, bt.id < s'.nextBatch) (hn : s.nextBatch ≤ s'.nextBatch) (hGb : G.batch < s'.nextBatch)
    (hself : G.id ∈ G.ancestors) (hz : tallyOf G = (0, 0, 0, 0))
    (hclosed : ∀ a ∈ G.ancestors, a = G.id ∨ (findGroup s G.batch a).isSome = true)
    (hnojob : ∀ x ∈ s.jobs, under s' G.batch G.id x = false) : TInv s' := by
  have hsome : ∀ b g, (findGroup s b g).isSome = true → (findGroup s' b g).isSome = true := by
    intro b g h; rw [findGroup_append_some hg h]; exact h
  have hunder : ∀ x ∈ s.jobs, ∀ b gid, under s' b gid x = under s b gid x := by
    intro x hx b gid
    unfold under
    rw [ancestorsOf_append_some hg (ht.jgrp x hx)]
  have hGmem : G ∈ s'.groups := by rw [hg]; simp
  refine ⟨?_, ?_, ?_, hbt, ?_, ?_⟩
  · intro g hg'
    rw [hg, List.mem_append, List.mem_singleton] at hg'
    rcases hg' with h | rfl
    · exact ht.gself g h
    · exact hself
  · intro x hx
    rw [hj] at hx
    exact hsome _ _ (ht.jgrp x hx)
  · intro g hg' a ha
    rw [hg, List.mem_append, List.mem_singleton] at hg'
    rcases hg' with h | rfl
    · exact hsome _ _ (ht.closed g h a ha)
    · rcases hclosed a ha with rfl | h
      · exact findGroup_isSome_of_mem hGmem
      · exact hsome _ _ h
  · intro g hg'
    rw [hg, List.mem_append, List.mem_singleton] at hg'
    rcases hg' with h | rfl
    · exact Nat.lt_of_lt_of_le (ht.gbatch g h) hn
    · exact hGb
  · intro g hg' i
    rw [hg, List.mem_append, List.mem_singleton] at hg'
    rcases hg' with h | rfl
    · rw [ht.exact g h i]
      unfold recount
      rw [hj]
      apply sumBy_congr
      intro x hx
      rw [hunder x hx]
    · rw [hz, comp_zero]
      unfold recount
      rw [hj]
      symm
      apply sumBy_zero
      intro x hx
      rw [hnojob x hx]; rfl

theorem tinv_createBatch (s : State) (ht : TInv s) (u bp t : Nat) : TInv (createBatch s u bp t).1 := by
  unfold createBatch
  split
  · exact ht
  · dsimp only
    refine tinv_addGroup ht (Group.mk s.nextBatch 0 [0] none .complete 0 0 0 0 0) rfl rfl ?_ (Nat.le_succ _)
      (Nat.lt_succ_self _) (by simp) rfl (by intro a ha; left; simpa using ha) ?_
    · intro bt hbt
      simp only [List.mem_append, List.mem_singleton] at hbt
      rcases hbt with h | rfl
      · exact Nat.lt_succ_of_lt (ht.bids bt h)
      · exact Nat.lt_succ_self _
    · intro x hx
      obtain ⟨grp, hgrp⟩ := findGroup_some_of_isSome (ht.jgrp x hx)
      obtain ⟨hm, hb, _⟩ := mem_of_findGroup hgrp
      have := ht.gbatch grp hm
      have hne : x.batch ≠ s.nextBatch := by omega
      simp [under, hne]

theorem tinv_insertGroup (s s' : State) (ht : TInv s) (b upd gid parent : Nat) (hb : b < s.nextBatch)
    (h : insertGroup s b upd gid parent = some s') : TInv s' ∧ s'.nextBatch = s.nextBatch := by
  unfold insertGroup at h
  split_ifs at h with h1 h2 h3 h4
  simp only [Option.some.injEq] at h
  subst h
  refine ⟨?_, rfl⟩
  have hfresh : findGroup s b gid = none := by simpa using h2
  refine tinv_addGroup ht (Group.mk b gid (gid :: ancestorsOf s b parent) (some upd) .complete 0 0 0 0 0) rfl rfl ht.bids
    (Nat.le_refl _) hb (by simp) rfl ?_ ?_
  · intro a ha
    simp only [List.mem_cons] at ha
    rcases ha with rfl | ha
    · exact Or.inl rfl
    · right
      unfold ancestorsOf at ha
      cases hp : findGroup s b parent with
      | none => rw [hp] at ha; simp at ha
      | some prow =>
        rw [hp] at ha
        obtain ⟨hm, hpb, _⟩ := mem_of_findGroup hp
        have := ht.closed prow hm a ha
        rw [hpb] at this; exact this
  · intro x hx
    unfold under
    simp only [Bool.and_eq_false_iff, decide_eq_false_iff_not]
    by_cases hxb : x.batch = b
    · right
      rw [ancestorsOf_append_some (s := s) rfl (ht.jgrp x hx)]
      obtain ⟨grp, hgrp⟩ := findGroup_some_of_isSome (ht.jgrp x hx)
      obtain ⟨hm, hgb, _⟩ := mem_of_findGroup hgrp
      unfold ancestorsOf
      rw [hgrp]
      cases hcon : grp.ancestors.contains gid with
      | false => rfl
      | true =>
        have hmem : gid ∈ grp.ancestors := by simpa using hcon
        have := ht.closed grp hm gid hmem
        rw [hgb, hxb, hfresh] at this
        simp at this
    · exact Or.inl hxb

theorem tinv_foldGroups (b upd : Nat) (u : Update) (specs : List GroupSpec) :
    ∀ (s s' : State), TInv s → b < s.nextBatch → specs.foldl (groupSpecStep b upd u) (some s) = some s' → TInv s' := by
  induction specs with
  | nil => intro s s' ht _ h; simp at h; subst h; exact ht
  | cons sp rest ih =>
    intro s s' ht hb h
    simp only [List.foldl_cons] at h
    cases hmid : groupSpecStep b upd u (some s) sp with
    | none => rw [hmid, foldGroups_none] at h; exact absurd h (by simp)
    | some mid =>
      rw [hmid] at h
      obtain ⟨htm, hnm⟩ := tinv_insertGroup s mid ht b upd _ _ hb (by simpa [groupSpecStep] using hmid)
      exact ih mid s' htm (by rw [hnm]; exact hb) h

theorem mem_of_findBatch {s : State} {b : Nat} {x : Batch} (h : findBatch s b = some x) : x ∈ s.batches ∧ x.id = b := by
  unfold findBatch at h
  have := List.find?_some h
  exact ⟨List.mem_of_find?_eq_some h, by simpa using this⟩

theorem tinv_insertGroups (s : State) (ht : TInv s) (b upd user : Nat) (specs : List GroupSpec) :
    TInv (insertGroups s b upd user specs).1 := by
  unfold insertGroups
  split
  · exact ht
  · split
    · rename_i u bt hu hbt
      split_ifs
      · exact ht
      · exact ht
      · exact ht
      · dsimp only
        split
        · rename_i s' hr
          obtain ⟨hm, hid⟩ := mem_of_findBatch hbt
          exact tinv_foldGroups b upd u _ s s' ht (by rw [← hid]; exact ht.bids bt hm) hr
        · exact ht
    · exact ht

variable {R : Int → Int → Prop}

theorem contrib_terminal {st : JState} (h : st.terminal = true) : contrib st = tallyInc st := by simp [contrib, h]

/-- the main branch of `mark_job_complete` keeps tallies and recount in step -/
theorem tinv_complete {s s' : State} (hi : LInv R s) (ht : TInv s) {b j : Nat} {att : Option Nat} {ns : JState} {job : Job}
    (hns : ns.terminal = true) (hj : findJob s b j = some job) (hact : job.state.active = true)
    (hjobs : s'.jobs = s.jobs.map (completeMap s b j att ns))
    (hkeys : s'.groups.map groupKey = s.groups.map (fun g => (g.batch, g.id, g.ancestors,
      if g.batch = b ∧ g.id ∈ ancestorsOf s b job.group then tallyAdd (tallyOf g) (tallyInc ns) else tallyOf g)))
    (hb : s'.batches.map (·.id) = s.batches.map (·.id)) (hn : s'.nextBatch = s.nextBatch) : TInv s' := by
  have hF := jobFrame_completeMap s b j att ns
  obtain ⟨hjm, hjb, hjid⟩ := mem_of_findJob hj
  have hid : s'.groups.map idKey = s.groups.map idKey := by
    have := congrArg (List.map (fun k : Nat × Nat × List Nat × (Int × Int × Int × Int) => (k.1, k.2.1, k.2.2.1))) hkeys
    rw [List.map_map, List.map_map] at this
    exact this
  have hanc : ∀ b g, ancestorsOf s' b g = ancestorsOf s b g := ancestorsOf_idkeys hid
  have hsome : ∀ b g, (findGroup s' b g).isSome = (findGroup s b g).isSome := findGroup_isSome_idkeys hid
  have hmem : ∀ g' ∈ s'.groups, ∃ g ∈ s.groups, g'.batch = g.batch ∧ g'.id = g.id ∧ g'.ancestors = g.ancestors ∧
      tallyOf g' = if g.batch = b ∧ g.id ∈ ancestorsOf s b job.group then tallyAdd (tallyOf g) (tallyInc ns) else tallyOf g := by
    intro g' hg'
    have : groupKey g' ∈ s'.groups.map groupKey := List.mem_map_of_mem hg'
    rw [hkeys, List.mem_map] at this
    obtain ⟨g, hg, he⟩ := this
    simp only [groupKey, Prod.mk.injEq] at he
    exact ⟨g, hg, he.1.symm, he.2.1.symm, he.2.2.1.symm, he.2.2.2.symm⟩
  refine ⟨?_, ?_, ?_, ?_, ?_, ?_⟩
  · intro g' hg'
    obtain ⟨g, hg, e1, e2, e3, _⟩ := hmem g' hg'
    rw [e2, e3]; exact ht.gself g hg
  · intro x' hx'
    rw [hjobs, List.mem_map] at hx'
    obtain ⟨x, hx, rfl⟩ := hx'
    rw [(hF x).1, (hF x).2.2.2.1, hsome]; exact ht.jgrp x hx
  · intro g' hg' a ha
    obtain ⟨g, hg, e1, e2, e3, _⟩ := hmem g' hg'
    rw [hsome, e1]; exact ht.closed g hg a (by rw [← e3]; exact ha)
  · intro bt hbt
    have : bt.id ∈ s'.batches.map (·.id) := List.mem_map_of_mem hbt
    rw [hb, List.mem_map] at this
    obtain ⟨bt0, h0, he⟩ := this
    rw [hn, ← he]; exact ht.bids bt0 h0
  · intro g' hg'
    obtain ⟨g, hg, e1, _⟩ := hmem g' hg'
    rw [hn, e1]; exact ht.gbatch g hg
  · intro g' hg' i
    obtain ⟨g, hg, e1, e2, e3, e4⟩ := hmem g' hg'
    rw [e1, e2, e4, recount_map_append i hF (new := []) (by simpa using hjobs) (fun x _ => hanc _ _) (by simp) g.batch g.id]
    -- only the completing job changes its contribution
    have hsum : sumBy (fun x => if under s g.batch g.id x then
        comp i (contrib (completeMap s b j att ns x).state) - comp i (contrib x.state) else 0) s.jobs =
        if under s g.batch g.id job then comp i (tallyInc ns) else 0 := by
      rw [sumBy_single _ _ (jobs_nodup hi.uniq) job hjm]
      · obtain ⟨_, k2⟩ | ⟨k1, _⟩ | ⟨k1, _⟩ := completeMap_cases hi att ns hj hact job hjm
        · rw [k2]
          simp only [setStateAttempt]
          rw [contrib_terminal hns, contrib_of_not_terminal (active_not_terminal hact), comp_zero, Int.sub_zero]
        · exact absurd rfl k1
        · exact absurd rfl k1
      · intro x hx hne
        rcases completeMap_cases hi att ns hj hact x hx with ⟨k1, _⟩ | ⟨_, _, k3, k4⟩ | ⟨_, _, k4⟩
        · exact absurd k1 hne
        · rw [k4, k3]
          rcases childUpdate_state ns x with h | h <;> rw [h] <;> simp [contrib, JState.terminal]
        · rw [k4]; simp
    rw [hsum]
    have hcond : (under s g.batch g.id job = true) ↔ (g.batch = b ∧ g.id ∈ ancestorsOf s b job.group) := by
      unfold under
      rw [hjb]
      simp only [Bool.and_eq_true, decide_eq_true_eq, List.contains_iff_mem]
      constructor
      · rintro ⟨h1, h2⟩; exact ⟨h1.symm, h2⟩
      · rintro ⟨h1, h2⟩; exact ⟨h1.symm, h2⟩
    by_cases hc : g.batch = b ∧ g.id ∈ ancestorsOf s b job.group
    · rw [if_pos hc, if_pos (hcond.mpr hc), comp_add, ht.exact g hg i]
    · rw [if_neg hc, if_neg (fun h => hc (hcond.mp h)), ht.exact g hg i, Int.add_zero]

/-- every transaction of a good history preserves the tally invariant -/
theorem tinv_step (s : State) (hi : LInv R s) (ht : TInv s) (op : Op) (hwf : op.WF) : TInv (step s op).1 := by
  have hd := stepDesc s hi.uniq hi.upd op
  have quiet : ∀ (_ : Quiet s (step s op).1)
      (_ : ∀ b j att inst ns st e r d, op ≠ .complete b j att inst ns st e r d), TInv (step s op).1 :=
    fun hq hnc => tinv_quiet ht hq (jquiet_of_stepDesc hd hi hnc)
  cases op with
  | createBatch u bp t => exact tinv_createBatch s ht u bp t
  | createUpdate b t nj ng u => exact quiet (quiet_createUpdate s b t nj ng u) (by intros; exact Op.noConfusion)
  | insertGroups b u usr specs => exact tinv_insertGroups s ht b u usr specs
  | insertJobs b u usr specs => exact quiet (quiet_insertJobs s b u usr specs) (by intros; exact Op.noConfusion)
  | commitUpdate b u => exact quiet (quiet_commitUpdate s b u) (by intros; exact Op.noConfusion)
  | cancelGroup b g => exact quiet (quiet_cancelGroup s b g) (by intros; exact Op.noConfusion)
  | deleteBatch b => exact quiet (quiet_deleteBatch s b) (by intros; exact Op.noConfusion)
  | newInstance n c p => exact quiet (quiet_newInstance s n c p) (by intros; exact Op.noConfusion)
  | activate n => exact quiet (quiet_activate s n) (by intros; exact Op.noConfusion)
  | deactivate n r ts d => exact quiet (quiet_deactivate s n r ts d) (by intros; exact Op.noConfusion)
  | markDeleted n => exact quiet (quiet_markDeleted s n) (by intros; exact Op.noConfusion)
  | schedule b j a i => exact quiet (quiet_schedule s b j a i) (by intros; exact Op.noConfusion)
  | creating b j a i ts d => exact quiet (quiet_startLike s b j a i ts d _ _) (by intros; exact Op.noConfusion)
  | started b j a i ts d => exact quiet (quiet_startLike s b j a i ts d _ _) (by intros; exact Op.noConfusion)
  | unschedule b j a i e r d => exact quiet (quiet_unschedule s b j a i e r d) (by intros; exact Op.noConfusion)
  | addResources b j a res d => exact quiet (quiet_addResources s b j a res d) (by intros; exact Op.noConfusion)
  | heartbeat atts ts d => exact quiet ⟨rfl, rfl, rfl⟩ (by intros; exact Op.noConfusion)
  | cleanupStaging => exact quiet ⟨rfl, rfl, rfl⟩ (by intros; exact Op.noConfusion)
  | cleanupCancellable => exact quiet ⟨rfl, rfl, rfl⟩ (by intros; exact Op.noConfusion)
  | compact => exact quiet ⟨rfl, rfl, rfl⟩ (by intros; exact Op.noConfusion)
  | complete b j att inst ns st e r d =>
    rcases complete_quiet_or_fired s b j att inst ns st e r d with ⟨hq, hjobs⟩ | ⟨job, hj, hact, hjobs, hkeys, hb, hn⟩
    · exact tinv_quiet ht hq (jquiet_of_eq hjobs)
    · exact tinv_complete hi ht hwf hj hact hjobs hkeys hb hn

end HailVerif.BatchDB

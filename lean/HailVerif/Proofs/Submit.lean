import HailVerif.Model.Submit
import HailVerif.Proofs.Bunch
/-! Helper lemmas for the caller-level part of C19: the pending-spec buffers of `aioclient.Batch`. -/
namespace HailVerif.Submit
open HailVerif.Bunch

variable {α : Type}

theorem createBunches_flatten (size : α → Nat) (groups jobs : List α) (maxBytes maxN : Nat) {bs : List (List α)}
    (h : createBunches size groups jobs maxBytes maxN = some bs) : bs.flatten = groups ++ jobs := by
  unfold createBunches at h
  split at h
  · exact absurd h (by simp)
  next hl =>
    have := go_spec size maxBytes maxN (by omega) (groups ++ jobs) [] [] 0 bs
      ⟨by simp [bytes], by simp, Or.inl rfl⟩ h
    simpa using this.1

theorem filter_group_tagged (gs js : List α) :
    (((gs.map fun x => (Typ.group, x)) ++ (js.map fun x => (Typ.job, x))).filter fun p => p.1 == Typ.group).map Prod.snd = gs := by
  rw [List.filter_append]
  have h1 : ((gs.map fun x => (Typ.group, x)).filter fun p => p.1 == Typ.group) = gs.map fun x => (Typ.group, x) := by
    apply List.filter_eq_self.2
    intro p hp
    obtain ⟨x, _, rfl⟩ := List.mem_map.1 hp
    rfl
  have h2 : ((js.map fun x => (Typ.job, x)).filter fun p => p.1 == Typ.group) = [] := by
    apply List.filter_eq_nil_iff.2
    intro p hp
    obtain ⟨x, _, rfl⟩ := List.mem_map.1 hp
    simp
  rw [h1, h2, List.append_nil, List.map_map]
  simp [Function.comp_def]

theorem filter_job_tagged (gs js : List α) :
    (((gs.map fun x => (Typ.group, x)) ++ (js.map fun x => (Typ.job, x))).filter fun p => p.1 == Typ.job).map Prod.snd = js := by
  rw [List.filter_append]
  have h1 : ((js.map fun x => (Typ.job, x)).filter fun p => p.1 == Typ.job) = js.map fun x => (Typ.job, x) := by
    apply List.filter_eq_self.2
    intro p hp
    obtain ⟨x, _, rfl⟩ := List.mem_map.1 hp
    rfl
  have h2 : ((gs.map fun x => (Typ.group, x)).filter fun p => p.1 == Typ.job) = [] := by
    apply List.filter_eq_nil_iff.2
    intro p hp
    obtain ⟨x, _, rfl⟩ := List.mem_map.1 hp
    simp
  rw [h1, h2, List.nil_append, List.map_map]
  simp [Function.comp_def]

/-- the bunches of a state carry exactly its pending specs: job groups, then jobs -/
theorem bunchesOf_flatten (size : α → Nat) (s : St α) (maxBytes maxN : Nat) {bs : List (List (Typ × α))}
    (h : bunchesOf size s maxBytes maxN = some bs) :
    bs.flatten = (s.groupSpecs.map fun x => (Typ.group, x)) ++ (s.jobSpecs.map fun x => (Typ.job, x)) :=
  createBunches_flatten _ _ _ _ _ h

/-- the object lists and the spec lists grow and are reset together -/
def Inv (s : St α) : Prop := s.nGroups = s.groupSpecs.length ∧ s.nJobs = s.jobSpecs.length

theorem inv_init : Inv (St.init : St α) := ⟨rfl, rfl⟩

/-- a submit with an injected request failure either behaves like the plain submit (assertion, or there is no k-th
request) or fails: nothing but `created` changes -/
theorem step_failing (size : α → Nat) (s : St α) (maxBytes maxN k : Nat) :
    step size s (.submitFailing maxBytes maxN k) = step size s (.submit maxBytes maxN) ∨
    ∃ c, step size s (.submitFailing maxBytes maxN k) = ({ s with created := c }, some .failed) := by
  simp only [step]
  cases bunchesOf size s maxBytes maxN with
  | none => left; rfl
  | some bs =>
    simp only
    split
    · left; rfl
    · right; exact ⟨_, rfl⟩

theorem inv_step (size : α → Nat) (s : St α) (op : Op α) (h : Inv s) : Inv (step size s op).1 := by
  cases op with
  | createGroup x => exact ⟨by simp [step, h.1], h.2⟩
  | createJob x => exact ⟨h.1, by simp [step, h.2]⟩
  | submit b n =>
    cases hb : bunchesOf size s b n with
    | none => simpa [step, finish, hb] using h
    | some bs => simp [step, finish, hb, Inv]
  | submitFailing b n k =>
    rcases step_failing size s b n k with e | ⟨c, e⟩
    · rw [e]
      cases hb : bunchesOf size s b n with
      | none => simpa [step, finish, hb] using h
      | some bs => simp [step, finish, hb, Inv]
    · rw [e]; exact h

/-- everything about one `submit()` -/
theorem step_submit (size : α → Nat) (s : St α) (maxBytes maxN : Nat) :
    (bunchesOf size s maxBytes maxN = none ∧ step size s (.submit maxBytes maxN) = (s, some .raised)) ∨
    (∃ bs r, bunchesOf size s maxBytes maxN = some bs ∧ step size s (.submit maxBytes maxN) = (⟨[], 0, [], 0, true⟩, some r) ∧
      r.groups = s.groupSpecs ∧ r.jobs = s.jobSpecs ∧
      (∀ w, r = .sent w → w.bunches = bs ∧
        ((s.created = false ∧ w.announcedGroups = s.groupSpecs.length ∧ w.announcedJobs = s.jobSpecs.length) ∨
         (s.created = true ∧ w.announcedGroups = s.nGroups ∧ w.announcedJobs = s.nJobs)))) := by
  cases hb : bunchesOf size s maxBytes maxN with
  | none => left; exact ⟨rfl, by simp [step, hb]⟩
  | some bs =>
    right
    have hf := bunchesOf_flatten size s maxBytes maxN hb
    have hg : (Wire.mk 0 0 bs).groups = s.groupSpecs := by
      simp only [Wire.groups, hf]; exact filter_group_tagged _ _
    have hj : (Wire.mk 0 0 bs).jobs = s.jobSpecs := by
      simp only [Wire.jobs, hf]; exact filter_job_tagged _ _
    simp only [Wire.groups, Wire.jobs] at hg hj
    cases hc : s.created with
    | false =>
      refine ⟨bs, .sent ⟨s.groupSpecs.length, s.jobSpecs.length, bs⟩, rfl, by simp [step, finish, hb, hc], ?_, ?_, ?_⟩
      · simpa [Result.groups, Wire.groups] using hg
      · simpa [Result.jobs, Wire.jobs] using hj
      · intro w hw; cases hw; exact ⟨rfl, Or.inl ⟨rfl, rfl, rfl⟩⟩
    | true =>
      by_cases he : bs.isEmpty = true
      · have hnil : bs = [] := List.isEmpty_iff.1 he
        subst hnil
        simp only [List.flatten_nil] at hf
        have h1 : s.groupSpecs = [] := by
          have := congrArg List.length hf; simp at this; exact List.eq_nil_of_length_eq_zero (by omega)
        have h2 : s.jobSpecs = [] := by
          have := congrArg List.length hf; simp at this; exact List.eq_nil_of_length_eq_zero (by omega)
        refine ⟨[], .quiet, rfl, by simp [step, finish, hb, hc], by simp [Result.groups, h1], by simp [Result.jobs, h2], ?_⟩
        intro w hw; cases hw
      · refine ⟨bs, .sent ⟨s.nGroups, s.nJobs, bs⟩, rfl, by simp [step, finish, hb, hc, he], ?_, ?_, ?_⟩
        · simpa [Result.groups, Wire.groups] using hg
        · simpa [Result.jobs, Wire.jobs] using hj
        · intro w hw; cases hw; exact ⟨rfl, Or.inr ⟨rfl, rfl, rfl⟩⟩

theorem run_groups (size : α → Nat) : ∀ (ops : List (Op α)) (s : St α),
    ((run size s ops).2.flatMap Result.groups) ++ (run size s ops).1.groupSpecs = s.groupSpecs ++ createdGroups ops := by
  intro ops
  induction ops with
  | nil => intro s; simp [run, createdGroups]
  | cons op ops ih =>
    intro s
    cases op with
    | createGroup x =>
      have := ih ({ s with groupSpecs := s.groupSpecs ++ [x], nGroups := s.nGroups + 1 })
      simp only [run, step, Option.toList, List.nil_append, createdGroups] at this ⊢
      simpa using this
    | createJob x =>
      have := ih ({ s with jobSpecs := s.jobSpecs ++ [x], nJobs := s.nJobs + 1 })
      simp only [run, step, Option.toList, List.nil_append, createdGroups] at this ⊢
      simpa using this
    | submit b n =>
      rcases step_submit size s b n with ⟨_, hs⟩ | ⟨bs, r, _, hs, hg, _, _⟩
      · have := ih s
        simp only [run, hs, Option.toList, createdGroups, List.flatMap_cons, List.cons_append, List.nil_append, Result.groups] at this ⊢
        simpa using this
      · have := ih (⟨[], 0, [], 0, true⟩ : St α)
        simp only [run, hs, Option.toList, createdGroups, List.flatMap_cons, List.cons_append, List.nil_append] at this ⊢
        rw [List.append_assoc, this, hg]
    | submitFailing b n k =>
      rcases step_failing size s b n k with e | ⟨c, e⟩
      · rcases step_submit size s b n with ⟨_, hs⟩ | ⟨bs, r, _, hs, hg, _, _⟩
        · have := ih s
          rw [hs] at e
          simp only [run, e, Option.toList, createdGroups, List.flatMap_cons, List.cons_append, List.nil_append, Result.groups] at this ⊢
          simpa using this
        · have := ih (⟨[], 0, [], 0, true⟩ : St α)
          rw [hs] at e
          simp only [run, e, Option.toList, createdGroups, List.flatMap_cons, List.cons_append, List.nil_append] at this ⊢
          rw [List.append_assoc, this, hg]
      · have := ih ({ s with created := c })
        simp only [run, e, Option.toList, createdGroups, List.flatMap_cons, List.cons_append, List.nil_append, Result.groups] at this ⊢
        simpa using this

theorem run_jobs (size : α → Nat) : ∀ (ops : List (Op α)) (s : St α),
    ((run size s ops).2.flatMap Result.jobs) ++ (run size s ops).1.jobSpecs = s.jobSpecs ++ createdJobs ops := by
  intro ops
  induction ops with
  | nil => intro s; simp [run, createdJobs]
  | cons op ops ih =>
    intro s
    cases op with
    | createGroup x =>
      have := ih ({ s with groupSpecs := s.groupSpecs ++ [x], nGroups := s.nGroups + 1 })
      simp only [run, step, Option.toList, List.nil_append, createdJobs] at this ⊢
      simpa using this
    | createJob x =>
      have := ih ({ s with jobSpecs := s.jobSpecs ++ [x], nJobs := s.nJobs + 1 })
      simp only [run, step, Option.toList, List.nil_append, createdJobs] at this ⊢
      simpa using this
    | submit b n =>
      rcases step_submit size s b n with ⟨_, hs⟩ | ⟨bs, r, _, hs, _, hj, _⟩
      · have := ih s
        simp only [run, hs, Option.toList, createdJobs, List.flatMap_cons, List.cons_append, List.nil_append, Result.jobs] at this ⊢
        simpa using this
      · have := ih (⟨[], 0, [], 0, true⟩ : St α)
        simp only [run, hs, Option.toList, createdJobs, List.flatMap_cons, List.cons_append, List.nil_append] at this ⊢
        rw [List.append_assoc, this, hj]
    | submitFailing b n k =>
      rcases step_failing size s b n k with e | ⟨c, e⟩
      · rcases step_submit size s b n with ⟨_, hs⟩ | ⟨bs, r, _, hs, _, hj, _⟩
        · have := ih s
          rw [hs] at e
          simp only [run, e, Option.toList, createdJobs, List.flatMap_cons, List.cons_append, List.nil_append, Result.jobs] at this ⊢
          simpa using this
        · have := ih (⟨[], 0, [], 0, true⟩ : St α)
          rw [hs] at e
          simp only [run, e, Option.toList, createdJobs, List.flatMap_cons, List.cons_append, List.nil_append] at this ⊢
          rw [List.append_assoc, this, hj]
      · have := ih ({ s with created := c })
        simp only [run, e, Option.toList, createdJobs, List.flatMap_cons, List.cons_append, List.nil_append, Result.jobs] at this ⊢
        simpa using this

theorem inv_run (size : α → Nat) : ∀ (ops : List (Op α)) (s : St α), Inv s → Inv (run size s ops).1 := by
  intro ops
  induction ops with
  | nil => intro s h; exact h
  | cons op ops ih => intro s h; simp only [run]; exact ih _ (inv_step size s op h)

theorem step_announced (size : α → Nat) (s : St α) (maxBytes maxN : Nat) (h : Inv s) {s' : St α} {w : Wire α}
    (hs : step size s (.submit maxBytes maxN) = (s', some (.sent w))) :
    w.announcedGroups = w.groups.length ∧ w.announcedJobs = w.jobs.length := by
  rcases step_submit size s maxBytes maxN with ⟨_, h2⟩ | ⟨bs, r, _, h2, hg, hj, hw⟩
  · rw [h2] at hs; cases hs
  · rw [h2] at hs
    simp only [Prod.mk.injEq, Option.some.injEq] at hs
    obtain ⟨_, rfl⟩ := hs
    simp only [Result.groups, Result.jobs] at hg hj
    rcases (hw w rfl).2 with ⟨_, a, b⟩ | ⟨_, a, b⟩
    · rw [a, b, hg, hj]; exact ⟨rfl, rfl⟩
    · rw [a, b, hg, hj]; exact h

theorem run_announced (size : α → Nat) : ∀ (ops : List (Op α)) (s : St α), Inv s →
    ∀ w, Result.sent w ∈ (run size s ops).2 → w.announcedGroups = w.groups.length ∧ w.announcedJobs = w.jobs.length := by
  intro ops
  induction ops with
  | nil => intro s _ w hw; simp [run] at hw
  | cons op ops ih =>
    intro s h w hw
    simp only [run, List.mem_append] at hw
    rcases hw with hw | hw
    · cases op with
      | createGroup x => simp [step] at hw
      | createJob x => simp [step] at hw
      | submit b n =>
        cases hr : (step size s (.submit b n)).2 with
        | none => rw [hr] at hw; simp at hw
        | some r =>
          rw [hr] at hw
          simp only [Option.toList, List.mem_singleton] at hw
          subst hw
          exact step_announced size s b n h (s' := (step size s (.submit b n)).1) (by rw [← hr])
      | submitFailing b n k =>
        rcases step_failing size s b n k with e | ⟨c, e⟩
        · rw [e] at hw
          cases hr : (step size s (.submit b n)).2 with
          | none => rw [hr] at hw; simp at hw
          | some r =>
            rw [hr] at hw
            simp only [Option.toList, List.mem_singleton] at hw
            subst hw
            exact step_announced size s b n h (s' := (step size s (.submit b n)).1) (by rw [← hr])
        · rw [e] at hw; simp at hw
    · exact ih _ (inv_step size s op h) w hw

/-- an attempt that fails (request error) or is stopped by an assertion leaves every pending buffer as it was -/
theorem step_unsuccessful_keeps (size : α → Nat) (s : St α) (op : Op α) (s' : St α) (r : Result α)
    (hop : (∃ b n, op = .submit b n) ∨ (∃ b n k, op = .submitFailing b n k))
    (h : step size s op = (s', some r)) (hr : r = .failed ∨ r = .raised) :
    s'.groupSpecs = s.groupSpecs ∧ s'.jobSpecs = s.jobSpecs ∧ s'.nGroups = s.nGroups ∧ s'.nJobs = s.nJobs := by
  have plain : ∀ b n, step size s (.submit b n) = (s', some r) → s'.groupSpecs = s.groupSpecs ∧ s'.jobSpecs = s.jobSpecs ∧
      s'.nGroups = s.nGroups ∧ s'.nJobs = s.nJobs := by
    intro b n h
    simp only [step] at h
    cases hb : bunchesOf size s b n with
    | none =>
      rw [hb] at h
      simp only [Prod.mk.injEq] at h
      rw [← h.1]; exact ⟨rfl, rfl, rfl, rfl⟩
    | some bs =>
      rw [hb] at h
      simp only [finish, Prod.mk.injEq, Option.some.injEq] at h
      obtain ⟨_, h⟩ := h
      rcases hr with rfl | rfl
      · split at h
        · cases h
        · split at h <;> cases h
      · split at h
        · cases h
        · split at h <;> cases h
  rcases hop with ⟨b, n, rfl⟩ | ⟨b, n, k, rfl⟩
  · exact plain b n h
  · rcases step_failing size s b n k with e | ⟨c, e⟩
    · rw [e] at h; exact plain b n h
    · rw [e] at h
      simp only [Prod.mk.injEq] at h
      rw [← h.1]; exact ⟨rfl, rfl, rfl, rfl⟩

/-- any number of unsuccessful attempts in a row leave the pending buffers as they were -/
theorem run_unsuccessful_keeps (size : α → Nat) : ∀ (ops : List (Op α)) (s : St α),
    (∀ op ∈ ops, (∃ b n, op = .submit b n) ∨ (∃ b n k, op = .submitFailing b n k)) →
    (∀ r ∈ (run size s ops).2, r = .failed ∨ r = .raised) →
    (run size s ops).1.groupSpecs = s.groupSpecs ∧ (run size s ops).1.jobSpecs = s.jobSpecs ∧
    (run size s ops).1.nGroups = s.nGroups ∧ (run size s ops).1.nJobs = s.nJobs := by
  intro ops
  induction ops with
  | nil => intro s _ _; exact ⟨rfl, rfl, rfl, rfl⟩
  | cons op ops ih =>
    intro s hops hres
    have hop := hops op (by simp)
    cases hst : step size s op with
    | mk s1 r1 =>
      have hr1 : ∃ r, r1 = some r := by
        rcases hop with ⟨b, n, rfl⟩ | ⟨b, n, k, rfl⟩
        · rcases step_submit size s b n with ⟨_, e⟩ | ⟨_, r, _, e, _⟩
          · rw [e] at hst; cases hst; exact ⟨_, rfl⟩
          · rw [e] at hst; cases hst; exact ⟨_, rfl⟩
        · rcases step_failing size s b n k with e | ⟨c, e⟩
          · rcases step_submit size s b n with ⟨_, e2⟩ | ⟨_, r, _, e2, _⟩
            · rw [e, e2] at hst; cases hst; exact ⟨_, rfl⟩
            · rw [e, e2] at hst; cases hst; exact ⟨_, rfl⟩
          · rw [e] at hst; cases hst; exact ⟨_, rfl⟩
      obtain ⟨r, rfl⟩ := hr1
      simp only [run, hst] at hres ⊢
      have hr := hres r (by simp)
      obtain ⟨a1, a2, a3, a4⟩ := step_unsuccessful_keeps size s op s1 r hop hst hr
      obtain ⟨b1, b2, b3, b4⟩ := ih s1 (fun o ho => hops o (List.mem_cons_of_mem _ ho))
        (fun x hx => hres x (by simp [hx]))
      exact ⟨b1.trans a1, b2.trans a2, b3.trans a3, b4.trans a4⟩

end HailVerif.Submit

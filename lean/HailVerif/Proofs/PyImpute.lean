import HailVerif.Model.PyImpute
/-!
# Lemmas about the `impute_type` model (C36): numeric promotion, lists of scalars
-/
namespace HailVerif.PyImpute
open HailVerif.ExprIR (HType Fields Types)

/-! ## numeric promotion (`unify_types_limited`): bool ≤ int32 ≤ int64 ≤ float32 ≤ float64 -/

def hRank : HType → Option Nat
  | .bool => some 0
  | .int32 => some 1
  | .int64 => some 2
  | .float32 => some 3
  | .float64 => some 4
  | _ => none

/-- `s` can be promoted to `t` -/
def numLe (s t : HType) : Bool :=
  match hRank s, hRank t with
  | some a, some b => decide (a ≤ b)
  | _, _ => false

/-- a value that can be stored at a numeric type can be stored at every wider numeric type -/
theorem hasTypePy_promote {s t : HType} {v : PyVal} (h : numLe s t = true) (hv : HasTypePy s v) : HasTypePy t v := by
  unfold HasTypePy at *
  cases s <;> cases t <;> simp [numLe, hRank] at h <;> cases v <;> simp_all [checkPy] <;> omega

/-! ## lists of scalars -/

def scalar : PyVal → Bool
  | .none | .bool _ | .int _ | .float _ | .str _ => true
  | _ => false

def scalarPT : PT → Bool
  | .hole | .bool | .int32 | .int64 | .float64 | .str => true
  | _ => false

/-- `p` is `u` or a numeric type that is promoted to `u` -/
def ptLe (p u : PT) : Bool :=
  PT.beq p u || (match numRank p, numRank u with
    | some a, some b => decide (a ≤ b)
    | _, _ => false)

theorem impute_scalar {x : PyVal} (hx : scalar x = true) {p : PT} (h : impute x = some p) : scalarPT p = true := by
  cases x <;> simp [scalar] at hx <;> simp only [impute] at h
  case int n =>
    split at h
    · simp only [Option.some.injEq] at h; subst h; rfl
    · split at h
      · simp only [Option.some.injEq] at h; subst h; rfl
      · simp at h
  all_goals (simp only [Option.some.injEq] at h; subst h; rfl)

theorem foldl_max_ge (ts : List PT) (m : Nat) :
    m ≤ ts.foldl (fun m t => max m ((numRank t).getD 0)) m ∧
      ∀ p ∈ ts, (numRank p).getD 0 ≤ ts.foldl (fun m t => max m ((numRank t).getD 0)) m := by
  induction ts generalizing m with
  | nil => simp
  | cons t r ih =>
    simp only [List.foldl_cons, List.mem_cons, forall_eq_or_imp]
    have := ih (max m ((numRank t).getD 0))
    refine ⟨by omega, by omega, this.2⟩

theorem numRank_ofRank_of_mem {ts : List PT} (hn : ∀ p ∈ ts, (numRank p).isSome = true) (p : PT) (hp : p ∈ ts) :
    ptLe p (ofRank (ts.foldl (fun m t => max m ((numRank t).getD 0)) 0)) = true := by
  have h1 := (foldl_max_ge ts 0).2 p hp
  have hb : ∀ q ∈ ts, (numRank q).getD 0 ≤ 4 := by
    intro q _; cases q <;> simp [numRank]
  have h2 : ts.foldl (fun m t => max m ((numRank t).getD 0)) 0 ≤ 4 := by
    have : ∀ (l : List PT) (m : Nat), m ≤ 4 → (∀ q ∈ l, (numRank q).getD 0 ≤ 4) →
        l.foldl (fun m t => max m ((numRank t).getD 0)) m ≤ 4 := by
      intro l
      induction l with
      | nil => intro m hm _; simpa using hm
      | cons t r ih =>
        intro m hm hq
        simp only [List.foldl_cons]
        apply ih
        · have := hq t (by simp); omega
        · intro q hq'; exact hq q (by simp [hq'])
    exact this ts 0 (by omega) hb
  have h3 : ts.foldl (fun m t => max m ((numRank t).getD 0)) 0 ≠ 3 := by
    -- rank 3 (float32) is never produced by `numRank`
    have : ∀ (l : List PT) (m : Nat), m ≠ 3 → l.foldl (fun m t => max m ((numRank t).getD 0)) m ≠ 3 := by
      intro l
      induction l with
      | nil => intro m hm; simpa using hm
      | cons t r ih =>
        intro m hm
        simp only [List.foldl_cons]
        apply ih
        cases t <;> simp [numRank] <;> omega
    exact this ts 0 (by omega)
  have hpn := hn p hp
  generalize ts.foldl (fun m t => max m ((numRank t).getD 0)) 0 = M at *
  have : M = 0 ∨ M = 1 ∨ M = 2 ∨ M = 4 := by omega
  rcases this with rfl | rfl | rfl | rfl <;> cases p <;> simp_all [numRank, ofRank, ptLe, PT.beq]

/-- `super_unify_types` on scalar types: the result is one of them or the numeric type all of them are promoted to -/
theorem superUnify_scalar (fuel : Nat) (ts : List PT) (hs : ∀ p ∈ ts, scalarPT p = true) (u : PT)
    (h : superUnify (fuel + 1) ts = some u) : scalarPT u = true ∧ isHole u = false ∧ ∀ p ∈ ts, isHole p = true ∨ ptLe p u = true := by
  simp only [superUnify] at h
  generalize hf : ts.filter (fun t => !isHole t) = fs at h
  have hmem : ∀ p, p ∈ fs ↔ p ∈ ts ∧ isHole p = false := by
    intro p; rw [← hf]; simp [List.mem_filter]
  cases fs with
  | nil => simp at h
  | cons t0 r =>
    have ht0 := (hmem t0).1 (by simp)
    have key : ∀ (hu : ∀ p ∈ t0 :: r, ptLe p u = true), scalarPT u = true → isHole u = false →
        scalarPT u = true ∧ isHole u = false ∧ ∀ p ∈ ts, isHole p = true ∨ ptLe p u = true := by
      intro hu h1 h2
      refine ⟨h1, h2, ?_⟩
      intro p hp
      cases hh : isHole p
      · exact Or.inr (hu p ((hmem p).2 ⟨hp, hh⟩))
      · exact Or.inl rfl
    simp only [] at h
    split at h
    · rename_i hnum
      split at h
      · rename_i hall
        simp only [Option.some.injEq] at h; subst h
        apply key
        · intro p hp
          have := (List.all_eq_true.mp hall) p hp
          simp [ptLe, this]
        · exact hs _ ht0.1
        · exact ht0.2
      · simp only [Option.some.injEq] at h; subst h
        have hn : ∀ p ∈ t0 :: r, (numRank p).isSome = true := List.all_eq_true.mp hnum
        have h0 := numRank_ofRank_of_mem hn
        apply key h0
        · generalize (List.foldl (fun m t => max m ((numRank t).getD 0)) 0 (t0 :: r)) = M
          cases M with
          | zero => rfl
          | succ M => cases M with
            | zero => rfl
            | succ M => cases M <;> rfl
        · generalize (List.foldl (fun m t => max m ((numRank t).getD 0)) 0 (t0 :: r)) = M
          cases M with
          | zero => rfl
          | succ M => cases M with
            | zero => rfl
            | succ M => cases M <;> rfl
    · split at h
      · simp at h
      · have hsc := hs _ ht0.1
        have hh := ht0.2
        have hall : (t0 :: r).all (fun t => PT.beq t t0) = true ∧ u = t0 := by
          cases t0 <;> simp only [scalarPT, isHole, Bool.false_eq_true, Bool.true_eq_false] at hsc hh <;>
            (split at h <;> simp_all) <;> (obtain ⟨h1, rfl⟩ := h; exact h1)
        obtain ⟨hall, rfl⟩ := hall
        apply key
        · intro p hp
          have := (List.all_eq_true.mp hall) p hp
          simp [ptLe, this]
        · exact hsc
        · exact hh

theorem PT.beq_scalar {p u : PT} (hp : scalarPT p = true) (h : PT.beq p u = true) : p = u := by
  cases p <;> simp [scalarPT] at hp <;> cases u <;> simp_all [PT.beq]

/-- a scalar value fits every type its own imputed type is promoted to -/
theorem scalar_fits {x : PyVal} (hx : scalar x = true) {p u : PT} (hp : impute x = some p)
    (hle : isHole p = true ∨ ptLe p u = true) (hu : scalarPT u = true) {t : HType} (ht : fill u = some t) :
    checkPy t x = true := by
  cases x <;> simp [scalar] at hx
  case none => cases t <;> simp [checkPy]
  case bool b =>
    simp only [impute, Option.some.injEq] at hp; subst hp
    cases u <;> simp [scalarPT] at hu <;> simp [fill] at ht <;> subst ht <;>
      simp_all [isHole, ptLe, PT.beq, numRank, checkPy]
  case int n =>
    simp only [impute] at hp
    split at hp
    · simp only [Option.some.injEq] at hp; subst hp
      cases u <;> simp [scalarPT] at hu <;> simp [fill] at ht <;> subst ht <;>
        simp_all [isHole, ptLe, PT.beq, numRank, checkPy] <;> omega
    · split at hp
      · simp only [Option.some.injEq] at hp; subst hp
        cases u <;> simp [scalarPT] at hu <;> simp [fill] at ht <;> subst ht <;>
          simp_all [isHole, ptLe, PT.beq, numRank, checkPy]
      · simp at hp
  case float n =>
    simp only [impute, Option.some.injEq] at hp; subst hp
    cases u <;> simp [scalarPT] at hu <;> simp [fill] at ht <;> subst ht <;>
      simp_all [isHole, ptLe, PT.beq, numRank, checkPy]
  case str s =>
    simp only [impute, Option.some.injEq] at hp; subst hp
    cases u <;> simp [scalarPT] at hu <;> simp [fill] at ht <;> subst ht <;>
      simp_all [isHole, ptLe, PT.beq, numRank, checkPy]

theorem imputeAll_fwd : ∀ (xs : PyVals) (ts : List PT), imputeAll xs = some ts →
    ∀ x ∈ xs.toList, ∃ p ∈ ts, impute x = some p
  | .nil, _, _, x, hx => by simp [PyVals.toList] at hx
  | .cons v r, ts, h, x, hx => by
    simp only [imputeAll, Option.bind_eq_some_iff, Option.map_eq_some_iff] at h
    obtain ⟨t, ht, rs, hrs, rfl⟩ := h
    simp only [PyVals.toList, List.mem_cons] at hx
    rcases hx with rfl | hx
    · exact ⟨t, by simp, ht⟩
    · obtain ⟨p, hp, hxp⟩ := imputeAll_fwd r rs hrs x hx
      exact ⟨p, by simp [hp], hxp⟩

theorem imputeAll_bwd : ∀ (xs : PyVals) (ts : List PT), imputeAll xs = some ts →
    ∀ p ∈ ts, ∃ x ∈ xs.toList, impute x = some p
  | .nil, ts, h, p, hp => by simp [imputeAll] at h; subst h; simp at hp
  | .cons v r, ts, h, p, hp => by
    simp only [imputeAll, Option.bind_eq_some_iff, Option.map_eq_some_iff] at h
    obtain ⟨t, ht, rs, hrs, rfl⟩ := h
    simp only [List.mem_cons] at hp
    rcases hp with rfl | hp
    · exact ⟨v, by simp [PyVals.toList], ht⟩
    · obtain ⟨x, hx, hxp⟩ := imputeAll_bwd r rs hrs p hp
      exact ⟨x, by simp [PyVals.toList, hx], hxp⟩

/-- **Lists of scalars** (`None`, `bool`, `int`, `float`, `str`, in any mixture the function accepts): every element can be
stored at the element type `impute_type` reports — including Python `bool`s and `int`s in a list promoted to a wider type. -/
theorem impute_scalar_list_sound (xs : PyVals) (hs : ∀ x ∈ xs.toList, scalar x = true) (t : HType)
    (h : imputeType (.list xs) = some t) : HasTypePy t (.list xs) := by
  unfold HasTypePy
  simp only [imputeType, impute, Option.bind_eq_some_iff] at h
  obtain ⟨p, hp, hfill⟩ := h
  split at hp
  · simp only [Option.some.injEq] at hp; subst hp; simp [fill] at hfill
  · simp only [Option.bind_eq_some_iff] at hp
    obtain ⟨ts, hts, hu⟩ := hp
    split at hu <;> simp only [Option.some.injEq, reduceCtorEq] at hu
    rename_i u hsu
    subst hu
    simp only [fill, Option.map_eq_some_iff] at hfill
    obtain ⟨t', ht', rfl⟩ := hfill
    have hsc : ∀ p ∈ ts, scalarPT p = true := by
      intro p hp
      obtain ⟨x, hx, hxp⟩ := imputeAll_bwd xs ts hts p hp
      exact impute_scalar (hs x hx) hxp
    have hB := superUnify_scalar (xs.depth + 1) ts hsc u hsu
    simp only [checkPy, List.all_eq_true]
    intro x hx
    obtain ⟨p, hp, hxp⟩ := imputeAll_fwd xs ts hts x hx
    exact scalar_fits (hs x hx) hxp (hB.2.2 p hp) hB.1 ht'

end HailVerif.PyImpute

import HailVerif.Proofs.BatchDBUnique
/-!
Helper lemmas for C07: a job that is cancelled (own mark or any ancestor group) and not always-run is never moved
into `Creating` or `Running` by any transaction.
-/
namespace HailVerif.BatchDB

def startedState (st : JState) : Prop := st = .Creating ∨ st = .Running

instance (st : JState) : Decidable (startedState st) := by unfold startedState; infer_instance

/-- across `s → s'`, no cancelled job of `s` enters Creating/Running -/
def NoStart (s s' : State) : Prop :=
  ∀ x ∈ s.jobs, jobCancelled s x = true → ∀ x', findJob s' x.batch x.id = some x' →
    startedState x'.state → x'.state = x.state

theorem findJob_congr {s s' : State} (e : s'.jobs = s.jobs) (b j : Nat) : findJob s' b j = findJob s b j := by
  unfold findJob; rw [e]

theorem noStart_of_jobs_eq {s s' : State} (hu : JobsUnique s) (e : s'.jobs = s.jobs) : NoStart s s' := by
  intro x hx _ x' hx' _
  rw [findJob_congr e, findJob_of_mem hu x hx] at hx'
  cases hx'; rfl

/-- the row found after `jobs.map F` -/
theorem findJob_map {s s' : State} {F : Job → Job} (hF : JobFrame F) (e : s'.jobs = s.jobs.map F) (hu : JobsUnique s)
    (x : Job) (hx : x ∈ s.jobs) : findJob s' x.batch x.id = some (F x) := by
  have h0 := findJob_of_mem hu x hx
  unfold findJob at *
  rw [e]
  have := find?_map_append_some (fun y => decide (y.batch = x.batch ∧ y.id = x.id)) F
    (by intro y; simp [(hF y).1, (hF y).2.1]) s.jobs [] x h0
  simpa using this

/-- `UPDATE jobs` on a state with the same job rows as `s0`: enough that the rewritten rows never enter
Creating/Running when cancelled -/
theorem noStart_updateJobs (s0 s : State) (e : s.jobs = s0.jobs) (hu : JobsUnique s0) (p : Job → Bool) (f : Job → Job)
    (hf : JobFrame f)
    (h : ∀ x ∈ s0.jobs, p x = true → jobCancelled s0 x = true → startedState (f x).state → (f x).state = x.state) :
    NoStart s0 (updateJobs s p f) := by
  intro x hx hc x' hx' hst
  have hu' : JobsUnique s := JobsUnique.of_jobs_eq e hu
  have hxs : x ∈ s.jobs := by rw [e]; exact hx
  have := findJob_map (s := s) (s' := updateJobs s p f) (JobFrame.ite p hf) (updateJobs_jobs s p f) hu' x hxs
  rw [this] at hx'
  cases hx'
  by_cases hp : p x = true
  · simp only [hp, if_true] at hst ⊢
    exact h x hx hp hc hst
  · simp [hp]

/-- the row selected by key is the one `findJob` returned -/
theorem eq_of_isJob {s : State} (hu : JobsUnique s) {b j : Nat} {job x : Job} (hj : findJob s b j = some job)
    (hx : x ∈ s.jobs) (hp : isJob b j x = true) : x = job := by
  unfold isJob at hp
  simp at hp
  have := findJob_of_mem hu x hx
  rw [hp.1, hp.2, hj] at this
  cases this; rfl

theorem notStarted_setReady (a : Option Nat) (x : Job) : ¬ startedState (setStateAttempt .Ready a x).state := by
  unfold startedState setStateAttempt; simp

end HailVerif.BatchDB

namespace HailVerif.BatchDB

/-- well-formed worker/driver messages: a completion report carries a terminal state (the callers in
`driver/job.py`, `driver/main.py` and `canceller.py` pass 'Success' | 'Failed' | 'Error' | 'Cancelled') -/
def Op.WF : Op → Prop
  | .complete _ _ _ _ ns _ _ _ _ => ns.terminal = true
  | _ => True

@[simp] theorem schedulePrep_jobs (s : State) (b j a i : Nat) (job : Job) : (schedulePrep s b j a i job).jobs = s.jobs := by
  unfold schedulePrep; simp
@[simp] theorem startPrep_jobs (s : State) (b j a i : Nat) (ts : Int) (d : Nat) (job : Job) :
    (startPrep s b j a i ts d job).jobs = s.jobs := by
  unfold startPrep; simp
@[simp] theorem freeAdd_jobs (s : State) (i : Option Nat) (d : Int) : (freeAdd s i d).jobs = s.jobs := rfl
@[simp] theorem endAttempts_jobs (s : State) (d : Nat) (p : Attempt → Bool) (ts : Int) (r : String) :
    (endAttempts s d p ts r).jobs = s.jobs := rfl
@[simp] theorem unschedulePrep_jobs (s : State) (b j a i : Nat) (e : Int) (r : String) (d : Nat) (job : Job) :
    (unschedulePrep s b j a i e r d job).jobs = s.jobs := by
  unfold unschedulePrep; dsimp only; split_ifs <;> simp
@[simp] theorem completePrep_jobs (s : State) (b j : Nat) (att inst : Option Nat) (st e : Option Int) (r : String) (d : Nat)
    (job : Job) : (completePrep s b j att inst st e r d job).jobs = s.jobs := by
  unfold completePrep; dsimp only
  cases att <;> dsimp only <;> split_ifs <;> simp
@[simp] theorem markGroupsComplete_jobs (s : State) (b g : Nat) : (markGroupsComplete s b g).jobs = s.jobs := rfl
@[simp] theorem completeBatchIfDone_jobs (s : State) (b : Nat) : (completeBatchIfDone s b).jobs = s.jobs := rfl
@[simp] theorem tallyGroups_jobs (s : State) (b g : Nat) (ns : JState) : (tallyGroups s b g ns).jobs = s.jobs := rfl

theorem noStart_schedule (s : State) (hu : JobsUnique s) (b j a i : Nat) : NoStart s (schedule s b j a i).1 := by
  unfold schedule
  split
  · exact noStart_of_jobs_eq hu rfl
  · rename_i job hj
    replace hj := findJobFk_some hj
    split_ifs with hg
    · refine noStart_updateJobs s _ (by simp) hu _ _ (jobFrame_setStateAttempt _ _) ?_
      intro x hx hp hc _
      have := eq_of_isJob hu hj hx hp
      subst this
      rw [hg.2.1] at hc; exact absurd hc (by simp)
    · exact noStart_of_jobs_eq hu (by simp)

theorem noStart_startLike (s : State) (hu : JobsUnique s) (b j a i : Nat) (ts : Int) (d : Nat) (need : IState) (ns : JState) :
    NoStart s (startLike s b j a i ts d need ns).1 := by
  unfold startLike
  split
  · exact noStart_of_jobs_eq hu rfl
  · rename_i job hj
    replace hj := findJobFk_some hj
    split_ifs with hg
    · refine noStart_updateJobs s _ (by simp) hu _ _ (jobFrame_setStateAttempt _ _) ?_
      intro x hx hp hc _
      have := eq_of_isJob hu hj hx hp
      subst this
      rw [hg.2.1] at hc; exact absurd hc (by simp)
    · exact noStart_of_jobs_eq hu (by simp)

theorem noStart_unschedule (s : State) (hu : JobsUnique s) (b j a i : Nat) (e : Int) (r : String) (d : Nat) :
    NoStart s (unschedule s b j a i e r d).1 := by
  unfold unschedule
  split
  · exact noStart_of_jobs_eq hu rfl
  · split_ifs
    · refine noStart_updateJobs s _ (by simp) hu _ _ (jobFrame_setStateAttempt _ _) ?_
      intro x _ _ _ hst; exact absurd hst (notStarted_setReady _ x)
    · exact noStart_of_jobs_eq hu (by simp)

theorem noStart_deactivate (s : State) (hu : JobsUnique s) (n : Nat) (r : String) (ts : Int) (d : Nat) :
    NoStart s (deactivate s n r ts d).1 := by
  unfold deactivate
  split
  · exact noStart_of_jobs_eq hu rfl
  · split_ifs
    · exact noStart_of_jobs_eq hu rfl
    · unfold deactivateApply
      intro x hx hc x' hx' hst
      have h1 := noStart_updateJobs s (endAttempts s d (fun a => a.inst = some n) ts r) (by simp) hu
        (onInstance (endAttempts s d (fun a => a.inst = some n) ts r) n) (setStateAttempt .Ready none)
        (jobFrame_setStateAttempt _ _) (by intro y _ _ _ hs; exact absurd hs (notStarted_setReady _ y))
      exact h1 x hx hc x' (by rw [← hx']; exact (findJob_congr rfl _ _).symm) hst

theorem notStarted_recompute (st : JState) (c : Prop) [Decidable c] : ¬ startedState (if c then JState.Ready else JState.Pending) := by
  unfold startedState; split_ifs <;> simp

theorem noStart_commitUpdate (s : State) (hu : JobsUnique s) (b upd : Nat) : NoStart s (commitUpdate s b upd).1 := by
  unfold commitUpdate
  model_split
  all_goals first | exact noStart_of_jobs_eq hu rfl | skip
  refine noStart_updateJobs s _ rfl hu _ _ ?_ ?_
  · intro x
    refine ⟨rfl, rfl, rfl, rfl, rfl, rfl, rfl, ?_⟩
    intro hx; dsimp only; split_ifs <;> simp_all
  · intro x _ _ _ hst
    exact absurd hst (notStarted_recompute .Ready _)

theorem noStart_complete (s : State) (hu : JobsUnique s) (b j : Nat) (att inst : Option Nat) (ns : JState)
    (st e : Option Int) (r : String) (d : Nat) (hns : ns.terminal = true) :
    NoStart s (complete s b j att inst ns st e r d).1 := by
  unfold complete
  split
  · exact noStart_of_jobs_eq hu rfl
  · rename_i job _
    split_ifs
    · exact noStart_of_jobs_eq hu (by simp)
    · -- the job row gets the terminal state, then the children become Ready / Pending
      intro x hx hc x' hx' hst
      have e1 : (completeJob (completePrep s b j att inst st e r d job) b j att ns job).jobs =
          s.jobs.map (fun y => if isJob b j y then setStateAttempt ns att y else y) := by
        unfold completeJob; simp [updateJobs_jobs]
      have hF1 : JobFrame (fun y => if isJob b j y then setStateAttempt ns att y else y) :=
        JobFrame.ite _ (jobFrame_setStateAttempt ns att)
      have hF2 : JobFrame (fun y => if isChildOf s b j y then childUpdate ns y else y) :=
        JobFrame.ite _ (jobFrame_childUpdate ns)
      have e2 : (updateJobs (completeJob (completePrep s b j att inst st e r d job) b j att ns job) (isChildOf s b j)
          (childUpdate ns)).jobs = s.jobs.map ((fun y => if isChildOf s b j y then childUpdate ns y else y) ∘
            (fun y => if isJob b j y then setStateAttempt ns att y else y)) := by
        rw [updateJobs_jobs, e1, List.map_map]
      have := findJob_map (hF1.comp hF2) e2 hu x hx
      rw [this] at hx'
      cases hx'
      simp only [Function.comp] at hst ⊢
      -- case analysis: child or not, completing job or not
      by_cases hc2 : isChildOf s b j (if isJob b j x then setStateAttempt ns att x else x) = true
      · simp only [hc2, if_true] at hst
        exfalso
        unfold childUpdate startedState at hst
        dsimp only at hst
        split_ifs at hst <;> simp at hst
      · simp only [hc2] at hst ⊢
        by_cases hj1 : isJob b j x = true
        · simp only [hj1, if_true] at hst
          exfalso
          unfold setStateAttempt startedState at hst
          cases ns <;> simp_all [JState.terminal]
        · simp [hj1]
    · exact noStart_of_jobs_eq hu (by simp)
    · exact noStart_of_jobs_eq hu (by simp)

end HailVerif.BatchDB

namespace HailVerif.BatchDB

theorem createBatch_jobs (s : State) (u bp t : Nat) : (createBatch s u bp t).1.jobs = s.jobs := by
  unfold createBatch; model_split <;> rfl
theorem createUpdate_jobs (s : State) (b t nj ng u : Nat) : (createUpdate s b t nj ng u).1.jobs = s.jobs := by
  unfold createUpdate; model_split <;> rfl
theorem cancelGroup_jobs (s : State) (b g : Nat) : (cancelGroup s b g).1.jobs = s.jobs := by
  unfold cancelGroup; split_ifs <;> rfl
theorem deleteBatch_jobs (s : State) (b : Nat) : (deleteBatch s b).1.jobs = s.jobs := by
  unfold deleteBatch; split
  · rfl
  · split_ifs <;> rfl
theorem newInstance_jobs (s : State) (n : Nat) (c : Int) (p : Bool) : (newInstance s n c p).1.jobs = s.jobs := by
  unfold newInstance; split_ifs <;> rfl
theorem activate_jobs (s : State) (n : Nat) : (activate s n).1.jobs = s.jobs := by
  unfold activate; model_split <;> rfl
theorem markDeleted_jobs (s : State) (n : Nat) : (markDeleted s n).1.jobs = s.jobs := by
  unfold markDeleted; model_split <;> rfl
theorem addResources_jobs (s : State) (b j a : Nat) (res : List (Nat × Int)) (d : Nat) :
    (addResources s b j a res d).1.jobs = s.jobs := by
  unfold addResources; split_ifs <;> rfl

theorem insertGroup_jobs (s s' : State) (b upd gid parent : Nat) (h : insertGroup s b upd gid parent = some s') :
    s'.jobs = s.jobs := by
  unfold insertGroup at h; split_ifs at h; simp only [Option.some.injEq] at h; subst h; rfl

theorem foldGroups_jobs (b upd : Nat) (u : Update) (specs : List GroupSpec) :
    ∀ (s s' : State), specs.foldl (groupSpecStep b upd u) (some s) = some s' → s'.jobs = s.jobs := by
  induction specs with
  | nil => intro s s' h; simp at h; subst h; rfl
  | cons sp rest ih =>
    intro s s' h
    simp only [List.foldl_cons] at h
    cases hmid : groupSpecStep b upd u (some s) sp with
    | none => rw [hmid, foldGroups_none] at h; exact absurd h (by simp)
    | some mid =>
      rw [hmid] at h
      rw [ih mid s' h, insertGroup_jobs s mid b upd _ _ (by simpa [groupSpecStep] using hmid)]

theorem insertGroups_jobs (s : State) (b upd user : Nat) (specs : List GroupSpec) :
    (insertGroups s b upd user specs).1.jobs = s.jobs := by
  unfold insertGroups
  model_split
  all_goals first | rfl | skip
  next s' hr => exact foldGroups_jobs b upd _ _ s s' hr

theorem noStart_step (s : State) (hu : JobsUnique s) (op : Op) (hwf : op.WF) : NoStart s (step s op).1 := by
  cases op with
  | createBatch u bp t => exact noStart_of_jobs_eq hu (createBatch_jobs s u bp t)
  | createUpdate b t nj ng u => exact noStart_of_jobs_eq hu (createUpdate_jobs s b t nj ng u)
  | insertGroups b u usr specs => exact noStart_of_jobs_eq hu (insertGroups_jobs s b u usr specs)
  | insertJobs b u usr specs =>
    -- rows are only appended: an existing key still finds the old row
    intro x hx hc x' hx' hst
    have hjobs : ∃ new, (insertJobs s b u usr specs).1.jobs = s.jobs ++ new := by
      unfold insertJobs
      split
      · exact ⟨[], by simp⟩
      · split
        · split
          · exact ⟨[], by simp⟩
          · exact ⟨_, rfl⟩
        · exact ⟨[], by simp⟩
    obtain ⟨new, e⟩ := hjobs
    have : findJob (insertJobs s b u usr specs).1 x.batch x.id = some x := by
      have h0 := findJob_of_mem hu x hx
      unfold findJob at *
      rw [e, List.find?_append, h0]; rfl
    rw [show (step s (Op.insertJobs b u usr specs)).1 = (insertJobs s b u usr specs).1 from rfl, this] at hx'
    cases hx'; rfl
  | commitUpdate b u => exact noStart_commitUpdate s hu b u
  | cancelGroup b g => exact noStart_of_jobs_eq hu (cancelGroup_jobs s b g)
  | deleteBatch b => exact noStart_of_jobs_eq hu (deleteBatch_jobs s b)
  | newInstance n c p => exact noStart_of_jobs_eq hu (newInstance_jobs s n c p)
  | activate n => exact noStart_of_jobs_eq hu (activate_jobs s n)
  | deactivate n r ts d => exact noStart_deactivate s hu n r ts d
  | markDeleted n => exact noStart_of_jobs_eq hu (markDeleted_jobs s n)
  | schedule b j a i => exact noStart_schedule s hu b j a i
  | creating b j a i ts d => exact noStart_startLike s hu b j a i ts d _ _
  | started b j a i ts d => exact noStart_startLike s hu b j a i ts d _ _
  | complete b j a i ns st e r d => exact noStart_complete s hu b j a i ns st e r d hwf
  | unschedule b j a i e r d => exact noStart_unschedule s hu b j a i e r d
  | addResources b j a res d => exact noStart_of_jobs_eq hu (addResources_jobs s b j a res d)
  | heartbeat atts ts d => exact noStart_of_jobs_eq hu rfl
  | cleanupStaging => exact noStart_of_jobs_eq hu rfl
  | cleanupCancellable => exact noStart_of_jobs_eq hu rfl
  | compact => exact noStart_of_jobs_eq hu rfl

end HailVerif.BatchDB

import HailVerif.Proofs.ValueEncBits
import HailVerif.Proofs.ValueEncNd
import HailVerif.Proofs.CallPack
/-! `decode ∘ encode = id` on the model of the binary encoding (C33). -/
set_option linter.unusedSimpArgs false
set_option linter.unusedVariables false
namespace HailVerif.ValueEnc
open HailVerif.TypeStr HailVerif.Values

/-- eliminate the value constructors that do not have the type (and `None`) -/
macro "ill_typed" ht:ident hna:ident : tactic =>
  `(tactic| first | exact absurd rfl $hna | (simp [HasType] at $ht:ident; done) | skip)

/-- `_convert_from_encoding(_convert_to_encoding(v))` for `v` that is not `None`, in any context -/
def Codec (t : HType) : Prop :=
  ∀ v, v ≠ .na → HasType t v → EncOK t v →
    ∃ bs, encode t v = some bs ∧ ∀ rest, decode t (bs ++ rest) = some (fOrder v, rest)

theorem fOrderList_eq_map (xs : List Value) : fOrderList xs = xs.map fOrder := by
  induction xs with
  | nil => rfl
  | cons x xs ih => simp [fOrderList, ih]

theorem fOrderEntries_eq_map (es : List (Value × Value)) : fOrderEntries es = es.map fun p => (fOrder p.1, fOrder p.2) := by
  induction es with
  | nil => rfl
  | cons p es ih => obtain ⟨a, b⟩ := p; simp [fOrderEntries, ih]

theorem isNa_false_of_ne (x : Value) (h : x ≠ .na) : isNa x = false := by
  cases x <;> first | exact absurd rfl h | rfl

theorem naOrEmpty_of_ne (x : Value) (h : x ≠ .na) (enc : Value → Option Bytes) : naOrEmpty x enc = enc x := by
  cases x <;> first | exact absurd rfl h | rfl

/-! ## sequences of possibly missing elements of one type -/

theorem flagged_of_codec (t : HType) (hc : Codec t) : ∀ (ys : List Value), (∀ y ∈ ys, HasType t y ∧ EncOK t y) →
    ∃ body, concatOpt (ys.map fun x => naOrEmpty x (encode t)) = some body ∧
      ∀ mb i rest, (∀ j (hj : j < ys.length), missingAt mb (i + j) = some (isNa ys[j])) →
        readFlagged (decode t) mb i ys.length (body ++ rest) = some (fOrderList ys, rest) := by
  intro ys
  induction ys with
  | nil => intro _; exact ⟨[], rfl, fun mb i rest _ => rfl⟩
  | cons y ys ih =>
    intro h
    obtain ⟨body, hb1, hb2⟩ := ih (fun z hz => h z (by simp [hz]))
    have shift : ∀ mb i, (∀ j (hj : j < (y :: ys).length), missingAt mb (i + j) = some (isNa (y :: ys)[j])) →
        ∀ j (hj : j < ys.length), missingAt mb (i + 1 + j) = some (isNa ys[j]) := by
      intro mb i hm j hj
      have := hm (j + 1) (by simp; omega)
      simpa [Nat.add_assoc, Nat.add_comm 1 j] using this
    by_cases hna : y = .na
    · subst hna
      have hn : naOrEmpty Value.na (encode t) = some [] := rfl
      refine ⟨body, by simp only [List.map_cons, hn, concatOpt, hb1]; rfl, ?_⟩
      intro mb i rest hm
      have h0 := hm 0 (by simp)
      simp only [Nat.add_zero, List.getElem_cons_zero, isNa] at h0
      simp only [List.length_cons, readFlagged, h0, hb2 mb (i + 1) rest (shift mb i hm), fOrderList, fOrder]
      rfl
    · obtain ⟨b, he, hd⟩ := hc y hna (h y (by simp)).1 (h y (by simp)).2
      refine ⟨b ++ body, by simp only [List.map_cons, naOrEmpty_of_ne y hna, he, concatOpt, hb1]; rfl, ?_⟩
      intro mb i rest hm
      have h0 := hm 0 (by simp)
      simp only [Nat.add_zero, List.getElem_cons_zero, isNa_false_of_ne y hna] at h0
      simp only [List.length_cons, readFlagged, h0, List.append_assoc, hd (body ++ rest),
        hb2 mb (i + 1) rest (shift mb i hm), fOrderList]
      rfl

/-- a sequence of required entries read one after the other -/
theorem many_of_entries {α β : Type} (enc : α → Option Bytes) (rd : Bytes → Option (β × Bytes)) (norm : α → β) :
    ∀ (es : List α), (∀ p ∈ es, ∃ b, enc p = some b ∧ ∀ rest, rd (b ++ rest) = some (norm p, rest)) →
      ∃ body, concatOpt (es.map enc) = some body ∧ ∀ rest, readMany rd es.length (body ++ rest) = some (es.map norm, rest) := by
  intro es
  induction es with
  | nil => intro _; exact ⟨[], rfl, fun _ => rfl⟩
  | cons p es ih =>
    intro h
    obtain ⟨b, he, hd⟩ := h p (by simp)
    obtain ⟨body, hb1, hb2⟩ := ih (fun q hq => h q (by simp [hq]))
    refine ⟨b ++ body, by simp only [List.map_cons, he, concatOpt, hb1]; rfl, ?_⟩
    intro rest
    simp [readMany, List.append_assoc, hd, hb2]

theorem hasTypeFields_length : ∀ (fs : List (Str × HType)) (xs : List Value), HasTypeFields fs xs → fs.length = xs.length
  | [], [], _ => rfl
  | [], _ :: _, h => by simp [HasTypeFields] at h
  | _ :: _, [], h => by simp [HasTypeFields] at h
  | (_, _) :: fs, _ :: xs, h => by
    have := hasTypeFields_length fs xs (by simp [HasTypeFields] at h; exact h.2)
    simp [this]

theorem hasTypeTuple_length : ∀ (ts : List HType) (xs : List Value), HasTypeTuple ts xs → ts.length = xs.length
  | [], [], _ => rfl
  | [], _ :: _, h => by simp [HasTypeTuple] at h
  | _ :: _, [], h => by simp [HasTypeTuple] at h
  | _ :: ts, _ :: xs, h => by
    have := hasTypeTuple_length ts xs (by simp [HasTypeTuple] at h; exact h.2)
    simp [this]

/-! ## scalars inside n-d arrays -/

theorem fOrder_numeric (t : HType) (hnum : isNumeric t = true) (x : Value) (ht : HasType t x) : fOrder x = x := by
  cases t <;> simp [isNumeric] at hnum <;> cases x <;> first | rfl | (simp [HasType] at ht; done)

theorem map_fOrder_numeric (t : HType) (hnum : isNumeric t = true) (xs : List Value) (h : ∀ x ∈ xs, HasType t x) :
    xs.map fOrder = xs := by
  induction xs with
  | nil => rfl
  | cons x xs ih => simp [fOrder_numeric t hnum x (h x (by simp)), ih (fun y hy => h y (by simp [hy]))]

theorem mem_interleave {α : Type} (x : α) : ∀ (m : Nat) (rows : List (List α)), x ∈ interleave m rows → ∃ r ∈ rows, x ∈ r := by
  intro m
  induction m with
  | zero => intro rows h; simp [interleave] at h
  | succ m ih =>
    intro rows h
    simp only [interleave, List.mem_append, List.mem_filterMap] at h
    rcases h with ⟨r, hr, hx⟩ | h
    · exact ⟨r, hr, List.mem_of_mem_head? hx⟩
    · obtain ⟨r', hr', hx⟩ := ih _ h
      simp only [List.mem_map] at hr'
      obtain ⟨r, hr, rfl⟩ := hr'
      exact ⟨r, hr, List.mem_of_mem_tail hx⟩

theorem mem_chunks {α : Type} (n : Nat) : ∀ (k : Nat) (xs c : List α), c ∈ chunks n k xs → ∀ x ∈ c, x ∈ xs := by
  intro k
  induction k with
  | zero => intro xs c h; simp [chunks] at h
  | succ k ih =>
    intro xs c h x hx
    simp only [chunks, List.mem_cons] at h
    rcases h with rfl | h
    · exact List.mem_of_mem_take hx
    · exact List.mem_of_mem_drop (ih _ c h x hx)

theorem mem_toColMajor {α : Type} (x : α) : ∀ (shape : List Nat) (xs : List α), x ∈ toColMajor shape xs → x ∈ xs := by
  intro shape
  induction shape with
  | nil => intro xs h; exact h
  | cons d rest ih =>
    intro xs h
    simp only [toColMajor] at h
    obtain ⟨r, hr, hx⟩ := mem_interleave x _ _ h
    simp only [List.mem_map] at hr
    obtain ⟨c, hc, rfl⟩ := hr
    exact mem_chunks _ _ _ c hc x (ih c hx)

theorem dims_roundtrip : ∀ (shape : List Nat), (∀ d ∈ shape, d < 9223372036854775808) →
    ∃ dims, concatOpt (shape.map fun (d : Nat) => writeInt64 d) = some dims ∧
      ∀ rest, readMany readInt64 shape.length (dims ++ rest) = some (shape.map fun (d : Nat) => (d : Int), rest) := by
  intro shape h
  have := many_of_entries (fun (d : Nat) => writeInt64 d) readInt64 (fun (d : Nat) => (d : Int)) shape (by
    intro d hd
    have hlt := h d hd
    obtain ⟨bs, h1, _, h3⟩ := readInt64_write (d : Int) (by omega) []
    refine ⟨bs, h1, fun rest => ?_⟩
    obtain ⟨bs', h1', _, h3'⟩ := readInt64_write (d : Int) (by omega) rest
    rw [h1] at h1'; cases h1'; exact h3')
  exact this

/-! ## calls (C34) -/

theorem call_roundtrip (alleles : List Nat) (phased : Bool) (h : CallPack.InRange ⟨alleles, phased⟩) (rest : Bytes) :
    ∃ bs, callEnc alleles phased = some bs ∧
      (match readInt32 (bs ++ rest) with
        | some (i, r) => (CallPack.decodeCall i).map fun c => (Value.call c.alleles c.phased, r)
        | none => none) = some (Value.call alleles phased, rest) := by
  have he := CallPack.encodeCall_inRange h
  have hd := CallPack.decode_word h
  have hfit := CallPack.wrap_fits (CallPack.wordOf_lt h) (CallPack.wordOf_ne h)
  have hrange : -2147483648 ≤ CallPack.wrapInt32 (CallPack.wordOf ⟨alleles, phased⟩) ∧
      CallPack.wrapInt32 (CallPack.wordOf ⟨alleles, phased⟩) < 2147483648 := by
    unfold CallPack.writeInt32 at hfit
    split at hfit
    · rename_i hr; norm_num at hr; exact hr
    · cases hfit
  obtain ⟨bs, h1, _, h3⟩ := readInt32_write _ hrange rest
  refine ⟨bs, by simp [callEnc, he, h1], ?_⟩
  simp [h3, hd]

theorem missingOf_pair (a b : Value) : missingOf [a, b] = [packBits [isNa a, isNa b]] := by
  simp [missingOf, missingBytes]

theorem missingOf_four (a b c d : Value) : missingOf [a, b, c, d] = [packBits [isNa a, isNa b, isNa c, isNa d]] := by
  simp [missingOf, missingBytes]

/-- one optional component after its missing bit -/
theorem side_of_codec (t : HType) (hc : Codec t) (x : Value) (ht : HasType t x) (hok : EncOK t x) :
    ∃ b, naOrEmpty x (encode t) = some b ∧
      ∀ rest, (if isNa x = true then some (Value.na, b ++ rest) else decode t (b ++ rest)) = some (fOrder x, rest) := by
  by_cases hna : x = .na
  · subst hna; exact ⟨[], rfl, fun rest => rfl⟩
  · obtain ⟨b, h1, h2⟩ := hc x hna ht hok
    exact ⟨b, by rw [naOrEmpty_of_ne x hna]; exact h1, fun rest => by simp [isNa_false_of_ne x hna, h2]⟩

theorem lookupBit_pack (fl : List Bool) (j : Nat) (hj : j < fl.length) : lookupBit (packBits fl) j = fl[j] := by
  rw [lookupBit_packBits]; simp [hj]

/-! ## one lemma per type class -/

theorem codec_empty (t : HType) (h : ∀ v, v ≠ .na → ¬ HasType t v) : Codec t :=
  fun v hna ht _ => absurd ht (h v hna)

theorem codec_void : Codec .void := codec_empty _ (fun v hna ht => by cases v <;> ill_typed ht hna)
theorem codec_rngState : Codec .rngState := codec_empty _ (fun v hna ht => by cases v <;> ill_typed ht hna)
theorem codec_stream (t : HType) : Codec (.stream t) := codec_empty _ (fun v hna ht => by cases v <;> ill_typed ht hna)

theorem codec_int32 : Codec .int32 := fun v hna ht hok => by
  cases v <;> ill_typed ht hna
  rename_i i
  have hr : -2147483648 ≤ i ∧ i < 2147483648 := by simpa [HasType] using ht
  obtain ⟨bs, h1, _, _⟩ := readInt32_write i hr []
  refine ⟨bs, h1, fun rest => ?_⟩
  obtain ⟨bs', h1', _, h3'⟩ := readInt32_write i hr rest
  rw [h1] at h1'; cases h1'
  show (readInt32 (bs ++ rest)).map _ = _
  rw [h3']; rfl

theorem codec_int64 : Codec .int64 := fun v hna ht hok => by
  cases v <;> ill_typed ht hna
  rename_i i
  have hr : -9223372036854775808 ≤ i ∧ i < 9223372036854775808 := by simpa [HasType] using ht
  obtain ⟨bs, h1, _, _⟩ := readInt64_write i hr []
  refine ⟨bs, h1, fun rest => ?_⟩
  obtain ⟨bs', h1', _, h3'⟩ := readInt64_write i hr rest
  rw [h1] at h1'; cases h1'
  show (readInt64 (bs ++ rest)).map _ = _
  rw [h3']; rfl

theorem codec_float32 : Codec .float32 := fun v hna ht hok => by
  cases v <;> ill_typed ht hna
  rename_i f
  refine ⟨_, rfl, fun rest => ?_⟩
  show (readFloat32 (leBytes 4 (f32Bits f) ++ rest)).map _ = _
  rw [readFloat32_write f (by simpa [HasType] using ht)]; rfl

theorem codec_float64 : Codec .float64 := fun v hna ht hok => by
  cases v <;> ill_typed ht hna
  rename_i f
  refine ⟨_, rfl, fun rest => ?_⟩
  show (readFloat64 (leBytes 8 (f64Bits f) ++ rest)).map _ = _
  rw [readFloat64_write f (by simpa [HasType] using ht)]; rfl

theorem codec_bool : Codec .bool := fun v hna ht hok => by
  cases v <;> ill_typed ht hna
  rename_i b
  refine ⟨_, rfl, fun rest => ?_⟩
  cases b <;> rfl

theorem codec_str : Codec .str := fun v hna ht hok => by
  cases v <;> ill_typed ht hna
  rename_i s
  have hs : ScalarStr s := by simpa [HasType] using ht
  have hl : 4 * s.length < 2147483648 := by simpa [EncOK] using hok
  obtain ⟨bs, h1, _⟩ := readStr_write s hs hl []
  refine ⟨bs, h1, fun rest => ?_⟩
  obtain ⟨bs', h1', h3'⟩ := readStr_write s hs hl rest
  rw [h1] at h1'; cases h1'
  show (readStr (bs ++ rest)).map _ = _
  rw [h3']; rfl

theorem codec_call : Codec .call := fun v hna ht hok => by
  cases v <;> ill_typed ht hna
  rename_i alleles phased
  have hin : CallPack.InRange ⟨alleles, phased⟩ := by simpa [EncOK] using hok
  obtain ⟨bs, h1, _⟩ := call_roundtrip alleles phased hin []
  refine ⟨bs, h1, fun rest => ?_⟩
  obtain ⟨bs', h1', h3'⟩ := call_roundtrip alleles phased hin rest
  rw [h1] at h1'; cases h1'
  exact h3'

theorem codec_locus (rg : Str) : Codec (.locus rg) := fun v hna ht hok => by
  cases v <;> ill_typed ht hna
  rename_i contig pos
  have ht' : ScalarStr contig ∧ -2147483648 ≤ pos ∧ pos < 2147483648 := by simpa [HasType] using ht
  have hl : 4 * contig.length < 2147483648 := by simpa [EncOK] using hok
  obtain ⟨a, ha, _⟩ := readStr_write contig ht'.1 hl []
  obtain ⟨b, hb, _, _⟩ := readInt32_write pos ht'.2 []
  refine ⟨0 :: (a ++ b), by show encLocus contig pos = _; unfold encLocus; rw [ha, hb], fun rest => ?_⟩
  obtain ⟨a', ha', hra⟩ := readStr_write contig ht'.1 hl (b ++ rest)
  rw [ha] at ha'; cases ha'
  obtain ⟨b', hb', _, hrb⟩ := readInt32_write pos ht'.2 rest
  rw [hb] at hb'; cases hb'
  have l0 : lookupBit 0 0 = false := by decide
  have l1 : lookupBit 0 1 = false := by decide
  show decLocus (0 :: (a ++ b) ++ rest) = _
  simp only [decLocus, List.cons_append, l0, l1, List.append_assoc, hra, hrb, Bool.false_eq_true, if_false, Option.map_some]
  rfl

theorem codec_interval (t : HType) (hc : Codec t) : Codec (.interval t) := fun v hna ht hok => by
  cases v <;> ill_typed ht hna
  rename_i s e is ie
  have ht' : HasType t s ∧ HasType t e := by simpa [HasType] using ht
  have hok' : EncOK t s ∧ EncOK t e := by simpa [EncOK] using hok
  obtain ⟨body, hb1, hb2⟩ := flagged_of_codec t hc [s, e] (by
    intro y hy; simp only [List.mem_cons, List.mem_nil_iff, or_false] at hy
    rcases hy with rfl | rfl
    · exact ⟨ht'.1, hok'.1⟩
    · exact ⟨ht'.2, hok'.2⟩)
  cases hs : naOrEmpty s (encode t) with
  | none => simp [concatOpt, hs] at hb1
  | some a =>
    cases he : naOrEmpty e (encode t) with
    | none => simp [concatOpt, hs, he] at hb1
    | some b =>
      have hbody : body = a ++ b := by
        simp only [List.map_cons, List.map_nil, hs, he, concatOpt, Option.map_some, List.append_nil] at hb1
        cases hb1; rfl
      refine ⟨missingOf [s, e, .bool is, .bool ie] ++ a ++ b ++ [if is then 1 else 0] ++ [if ie then 1 else 0], by
        show encInterval (encode t) s e is ie = _
        unfold encInterval; rw [hs, he], fun rest => ?_⟩
      have hmb : ∀ j (hj : j < [s, e].length),
          missingAt [packBits [isNa s, isNa e, false, false]] (0 + j) = some (isNa [s, e][j]) := by
        intro j hj
        have hj' : j < 2 := by simpa using hj
        have h8 : j / 8 = 0 := by omega
        have hm : j % 8 = j := by omega
        simp only [missingAt, Nat.zero_add, h8, hm, List.getElem?_cons_zero, Option.map_some]
        rw [lookupBit_pack _ j (by simp; omega)]
        match j, hj' with
        | 0, _ => rfl
        | 1, _ => rfl
      have hrf := hb2 [packBits [isNa s, isNa e, false, false]] 0
        ([if is then 1 else 0] ++ [if ie then 1 else 0] ++ rest) hmb
      have l2 : lookupBit (packBits [isNa s, isNa e, false, false]) 2 = false := by
        rw [lookupBit_pack _ 2 (by simp)]; rfl
      have l3 : lookupBit (packBits [isNa s, isNa e, false, false]) 3 = false := by
        rw [lookupBit_pack _ 3 (by simp)]; rfl
      have hmo : missingOf [s, e, Value.bool is, Value.bool ie] = [packBits [isNa s, isNa e, false, false]] := by
        rw [missingOf_four]; rfl
      show decInterval (decode t) _ = _
      rw [hmo, hbody] at *
      simp only [List.length_cons, List.length_nil, List.append_assoc, List.cons_append, List.nil_append] at hrf ⊢
      simp only [decInterval, hrf, fOrderList, l2, l3, Bool.false_eq_true, if_false]
      cases is <;> cases ie <;> simp [readBool, fOrder]

theorem seq_roundtrip (t : HType) (hc : Codec t) (xs : List Value) (ht' : ∀ x ∈ xs, HasType t x)
    (hok' : xs.length < 2147483648 ∧ ∀ x ∈ xs, EncOK t x) :
    ∃ bs, encSeq (encode t) xs = some bs ∧ ∀ rest, decSeq (decode t) (bs ++ rest) = some (fOrderList xs, rest) := by
  obtain ⟨body, hb1, hb2⟩ := flagged_of_codec t hc xs (fun y hy => ⟨ht' y hy, hok'.2 y hy⟩)
  obtain ⟨l, hl1, _, _⟩ := readInt32_write (xs.length : Int) (by omega) []
  refine ⟨l ++ missingOf xs ++ body, by unfold encSeq; rw [hl1, hb1], fun rest => ?_⟩
  obtain ⟨l', hl1', _, hl3⟩ := readInt32_write (xs.length : Int) (by omega) (missingOf xs ++ (body ++ rest))
  rw [hl1] at hl1'; cases hl1'
  have hn : ¬ ((xs.length : Int) < 0) := by omega
  simp only [decSeq, List.append_assoc, hl3, hn, if_false, Int.toNat_natCast]
  rw [take_append_len _ _ _ (missingOf_length xs), drop_append_len _ _ _ (missingOf_length xs)]
  exact hb2 (missingOf xs) 0 rest (fun j hj => by rw [Nat.zero_add]; exact missingAt_missingOf xs j hj)

theorem codec_array (t : HType) (hc : Codec t) : Codec (.array t) := fun v hna ht hok => by
  cases v <;> ill_typed ht hna
  rename_i xs
  obtain ⟨bs, h1, h2⟩ := seq_roundtrip t hc xs (by simpa [HasType] using ht) (by simpa [EncOK] using hok)
  refine ⟨bs, h1, fun rest => ?_⟩
  show (decSeq (decode t) (bs ++ rest)).map _ = _
  rw [h2 rest]; rfl

theorem codec_set (t : HType) (hc : Codec t) : Codec (.set t) := fun v hna ht hok => by
  cases v <;> ill_typed ht hna
  rename_i xs
  obtain ⟨bs, h1, h2⟩ := seq_roundtrip t hc xs (by simpa [HasType] using ht) (by simpa [EncOK] using hok)
  refine ⟨bs, h1, fun rest => ?_⟩
  show (decSeq (decode t) (bs ++ rest)).map _ = _
  rw [h2 rest]; rfl

theorem codec_dict (k v : HType) (hck : Codec k) (hcv : Codec v) : Codec (.dict k v) := fun x hna ht hok => by
  cases x <;> ill_typed ht hna
  rename_i es
  have ht' : ∀ p ∈ es, HasType k p.1 ∧ HasType v p.2 := by simpa [HasType] using ht
  have hok' : es.length < 2147483648 ∧ ∀ p ∈ es, EncOK k p.1 ∧ EncOK v p.2 := by simpa [EncOK] using hok
  have hentry : ∀ p ∈ es, ∃ b, encEntry (encode k) (encode v) p = some b ∧
      ∀ rest, decEntry (decode k) (decode v) (b ++ rest) = some ((fOrder p.1, fOrder p.2), rest) := by
    intro p hp
    obtain ⟨a, b⟩ := p
    have l0 : lookupBit (packBits [isNa a, isNa b]) 0 = isNa a := by rw [lookupBit_pack _ 0 (by simp)]; rfl
    have l1 : lookupBit (packBits [isNa a, isNa b]) 1 = isNa b := by rw [lookupBit_pack _ 1 (by simp)]; rfl
    obtain ⟨ba, ha1, ha2⟩ := side_of_codec k hck a (ht' _ hp).1 (hok'.2 _ hp).1
    obtain ⟨bb, hb1, hb2⟩ := side_of_codec v hcv b (ht' _ hp).2 (hok'.2 _ hp).2
    refine ⟨missingOf [a, b] ++ ba ++ bb, by simp only [encEntry, ha1, hb1], fun rest => ?_⟩
    rw [missingOf_pair]
    simp only [decEntry, List.cons_append, List.nil_append, List.append_assoc, l0, l1, ha2 (bb ++ rest), hb2 rest]
  obtain ⟨body, hb1, hb2⟩ := many_of_entries (encEntry (encode k) (encode v)) (decEntry (decode k) (decode v))
    (fun (p : Value × Value) => (fOrder p.1, fOrder p.2)) es hentry
  obtain ⟨l, hl1, _, _⟩ := readInt32_write (es.length : Int) (by omega) []
  refine ⟨l ++ body, by
    show encDict (encode k) (encode v) es = _
    unfold encDict; rw [hl1, hb1], fun rest => ?_⟩
  obtain ⟨l', hl1', _, hl3⟩ := readInt32_write (es.length : Int) (by omega) (body ++ rest)
  rw [hl1] at hl1'; cases hl1'
  have hn : ¬ ((es.length : Int) < 0) := by omega
  show decDict (decode k) (decode v) _ = _
  simp only [decDict, List.append_assoc, hl3, hn, if_false, Int.toNat_natCast, hb2 rest]
  simp [fOrder, fOrderEntries_eq_map]

theorem codec_nd (t : HType) (n : Nat) (hc : Codec t) : Codec (.ndarray t n) := fun v hna ht hok => by
  cases v <;> ill_typed ht hna
  rename_i shape data fortran
  have ht' : shape.length = n ∧ data.length = prod shape ∧ ∀ x ∈ data, x ≠ .na ∧ HasType t x := by
    simpa [HasType, prod] using ht
  have hok' : (∀ d ∈ shape, d < 9223372036854775808) ∧ (data = [] ∨ isNumeric t = true) := by simpa [EncOK] using hok
  obtain ⟨dims, hd1, hd2⟩ := dims_roundtrip shape hok'.1
  have hall : (shape.map fun (d : Nat) => (d : Int)).all (0 ≤ ·) = true := by simp
  have hnat : (shape.map fun (d : Nat) => (d : Int)).map Int.toNat = shape := by
    rw [List.map_map]; exact List.map_id'' (fun d => by simp) shape
  by_cases hemp : data = []
  · subst hemp
    refine ⟨dims, by
      show encNd (isNumeric t) (encode t) shape [] = _
      simp only [encNd, hd1, List.isEmpty_nil, if_true], fun rest => ?_⟩
    have hp : prod shape = 0 := by simpa using ht'.2.1.symm
    have hcm : toColMajor shape ([] : List Value) = [] :=
      List.eq_nil_of_length_eq_zero (by rw [toColMajor_length shape [] (by simp [hp]), hp])
    have hfc : fromColMajor shape ([] : List Value) = [] := by
      have := fromColMajor_toColMajor shape ([] : List Value) (by simp [hp])
      rwa [hcm] at this
    show decNd (decode t) n _ = _
    simp only [decNd, ← ht'.1, hd2 rest, hall, if_true, hnat, hp, readMany, Option.map_some, hfc]
    simp [fOrder, fOrderList]
  · have hnum : isNumeric t = true := by rcases hok'.2 with h | h; exact absurd h hemp; exact h
    have hne : data.isEmpty = false := by cases data <;> simp_all
    obtain ⟨body, hb1, hb2⟩ := many_of_entries (encode t) (decode t) fOrder (toColMajor shape data) (by
      intro x hx
      have hm := mem_toColMajor x shape data hx
      exact hc x (ht'.2.2 x hm).1 (ht'.2.2 x hm).2 (by
        cases t <;> simp [isNumeric] at hnum <;> cases x <;> simp [EncOK]))
    refine ⟨dims ++ body, by
      show encNd (isNumeric t) (encode t) shape data = _
      simp only [encNd, hd1, hne, hnum, hb1, if_true, Bool.false_eq_true, if_false, Option.map_some], fun rest => ?_⟩
    have hlen := toColMajor_length shape data ht'.2.1
    have hnumall : ∀ x ∈ toColMajor shape data, HasType t x := fun x hx => (ht'.2.2 x (mem_toColMajor x shape data hx)).2
    show decNd (decode t) n _ = _
    simp only [decNd, ← ht'.1, List.append_assoc, hd2 (body ++ rest), hall, if_true, hnat]
    rw [← hlen, hb2 rest, map_fOrder_numeric t hnum _ hnumall]
    simp only [Option.map_some, fromColMajor_toColMajor shape data ht'.2.1]
    simp [fOrder, fOrderList_eq_map, map_fOrder_numeric t hnum data (fun x hx => (ht'.2.2 x hx).2)]

/-- the statement for the fields of a struct: their bytes after the missing-bit bytes `mb`, read from position `i` -/
def FieldsCodec (fs : List (Str × HType)) : Prop :=
  ∀ xs, HasTypeFields fs xs → EncOKFields fs xs →
    ∃ body, encodeFields fs xs = some body ∧
      ∀ mb i rest, (∀ j (hj : j < xs.length), missingAt mb (i + j) = some (isNa xs[j])) →
        decodeFields fs mb i (body ++ rest) = some (fOrderList xs, rest)

def TupleCodec (ts : List HType) : Prop :=
  ∀ xs, HasTypeTuple ts xs → EncOKTuple ts xs →
    ∃ body, encodeTuple ts xs = some body ∧
      ∀ mb i rest, (∀ j (hj : j < xs.length), missingAt mb (i + j) = some (isNa xs[j])) →
        decodeTuple ts mb i (body ++ rest) = some (fOrderList xs, rest)

theorem shift_flags (y : Value) (ys : List Value) (mb : Bytes) (i : Nat)
    (hm : ∀ j (hj : j < (y :: ys).length), missingAt mb (i + j) = some (isNa (y :: ys)[j])) :
    ∀ j (hj : j < ys.length), missingAt mb (i + 1 + j) = some (isNa ys[j]) := by
  intro j hj
  have := hm (j + 1) (by simp; omega)
  simpa [Nat.add_assoc, Nat.add_comm 1 j] using this

theorem fieldsCodec_nil : FieldsCodec [] := fun xs ht _ => by
  cases xs with
  | nil => exact ⟨[], rfl, fun _ _ _ _ => rfl⟩
  | cons x xs => simp [HasTypeFields] at ht

theorem fieldsCodec_cons (n : Str) (t : HType) (fs : List (Str × HType)) (hc : Codec t) (hf : FieldsCodec fs) :
    FieldsCodec ((n, t) :: fs) := fun xs ht hok => by
  cases xs with
  | nil => simp [HasTypeFields] at ht
  | cons y ys =>
    have ht' : HasType t y ∧ HasTypeFields fs ys := by simpa [HasTypeFields] using ht
    have hok' : EncOK t y ∧ EncOKFields fs ys := by simpa [EncOKFields] using hok
    obtain ⟨body, hb1, hb2⟩ := hf ys ht'.2 hok'.2
    obtain ⟨b, he, hd⟩ := side_of_codec t hc y ht'.1 hok'.1
    refine ⟨b ++ body, by simp only [encodeFields, he, hb1], ?_⟩
    intro mb i rest hm
    have h0 := hm 0 (by simp)
    simp only [Nat.add_zero, List.getElem_cons_zero] at h0
    have hd' := hd (body ++ rest)
    by_cases hna : y = .na
    · subst hna
      simp only [isNa, if_true] at hd' h0
      have hbe : b = [] := by
        have : naOrEmpty Value.na (encode t) = some [] := rfl
        rw [this] at he; cases he; rfl
      subst hbe
      simp only [decodeFields, h0, List.nil_append, hb2 mb (i + 1) rest (shift_flags _ ys mb i hm), fOrderList, fOrder]
      rfl
    · simp only [isNa_false_of_ne y hna, Bool.false_eq_true, if_false] at hd' h0
      simp only [decodeFields, h0, List.append_assoc, hd', hb2 mb (i + 1) rest (shift_flags _ ys mb i hm), fOrderList]
      rfl

theorem tupleCodec_nil : TupleCodec [] := fun xs ht _ => by
  cases xs with
  | nil => exact ⟨[], rfl, fun _ _ _ _ => rfl⟩
  | cons x xs => simp [HasTypeTuple] at ht

theorem tupleCodec_cons (t : HType) (ts : List HType) (hc : Codec t) (hf : TupleCodec ts) :
    TupleCodec (t :: ts) := fun xs ht hok => by
  cases xs with
  | nil => simp [HasTypeTuple] at ht
  | cons y ys =>
    have ht' : HasType t y ∧ HasTypeTuple ts ys := by simpa [HasTypeTuple] using ht
    have hok' : EncOK t y ∧ EncOKTuple ts ys := by simpa [EncOKTuple] using hok
    obtain ⟨body, hb1, hb2⟩ := hf ys ht'.2 hok'.2
    obtain ⟨b, he, hd⟩ := side_of_codec t hc y ht'.1 hok'.1
    refine ⟨b ++ body, by simp only [encodeTuple, he, hb1], ?_⟩
    intro mb i rest hm
    have h0 := hm 0 (by simp)
    simp only [Nat.add_zero, List.getElem_cons_zero] at h0
    have hd' := hd (body ++ rest)
    by_cases hna : y = .na
    · subst hna
      simp only [isNa, if_true] at hd' h0
      have hbe : b = [] := by
        have : naOrEmpty Value.na (encode t) = some [] := rfl
        rw [this] at he; cases he; rfl
      subst hbe
      simp only [decodeTuple, h0, List.nil_append, hb2 mb (i + 1) rest (shift_flags _ ys mb i hm), fOrderList, fOrder]
      rfl
    · simp only [isNa_false_of_ne y hna, Bool.false_eq_true, if_false] at hd' h0
      simp only [decodeTuple, h0, List.append_assoc, hd', hb2 mb (i + 1) rest (shift_flags _ ys mb i hm), fOrderList]
      rfl

theorem codec_struct (fs : List (Str × HType)) (hf : FieldsCodec fs) : Codec (.struct fs) := fun v hna ht hok => by
  cases v <;> ill_typed ht hna
  rename_i xs
  have ht' : HasTypeFields fs xs := by simpa [HasType] using ht
  obtain ⟨body, hb1, hb2⟩ := hf xs ht' (by simpa [EncOK] using hok)
  have hlen := hasTypeFields_length fs xs ht'
  refine ⟨missingOf xs ++ body, by show (encodeFields fs xs).map _ = _; rw [hb1]; rfl, fun rest => ?_⟩
  have hml : (missingOf xs).length = (fs.length + 7) / 8 := by rw [hlen]; exact missingOf_length xs
  show (decodeFields fs ((missingOf xs ++ body ++ rest).take ((fs.length + 7) / 8)) 0
    ((missingOf xs ++ body ++ rest).drop ((fs.length + 7) / 8))).map _ = _
  rw [List.append_assoc, take_append_len _ _ _ hml, drop_append_len _ _ _ hml]
  rw [hb2 (missingOf xs) 0 rest (fun j hj => by rw [Nat.zero_add]; exact missingAt_missingOf xs j hj)]
  rfl

theorem codec_tuple (ts : List HType) (hf : TupleCodec ts) : Codec (.tuple ts) := fun v hna ht hok => by
  cases v <;> ill_typed ht hna
  rename_i xs
  have ht' : HasTypeTuple ts xs := by simpa [HasType] using ht
  obtain ⟨body, hb1, hb2⟩ := hf xs ht' (by simpa [EncOK] using hok)
  have hlen := hasTypeTuple_length ts xs ht'
  refine ⟨missingOf xs ++ body, by show (encodeTuple ts xs).map _ = _; rw [hb1]; rfl, fun rest => ?_⟩
  have hml : (missingOf xs).length = (ts.length + 7) / 8 := by rw [hlen]; exact missingOf_length xs
  show (decodeTuple ts ((missingOf xs ++ body ++ rest).take ((ts.length + 7) / 8)) 0
    ((missingOf xs ++ body ++ rest).drop ((ts.length + 7) / 8))).map _ = _
  rw [List.append_assoc, take_append_len _ _ _ hml, drop_append_len _ _ _ hml]
  rw [hb2 (missingOf xs) 0 rest (fun j hj => by rw [Nat.zero_add]; exact missingAt_missingOf xs j hj)]
  rfl

/-! ## every type -/

mutual
theorem codec : (t : HType) → Codec t
  | .void => codec_void
  | .rngState => codec_rngState
  | .stream t => codec_stream t
  | .int32 => codec_int32
  | .int64 => codec_int64
  | .float32 => codec_float32
  | .float64 => codec_float64
  | .bool => codec_bool
  | .str => codec_str
  | .call => codec_call
  | .locus rg => codec_locus rg
  | .interval t => codec_interval t (codec t)
  | .array t => codec_array t (codec t)
  | .set t => codec_set t (codec t)
  | .dict k v => codec_dict k v (codec k) (codec v)
  | .struct fs => codec_struct fs (codecFields fs)
  | .tuple ts => codec_tuple ts (codecTuple ts)
  | .ndarray t n => codec_nd t n (codec t)
theorem codecFields : (fs : List (Str × HType)) → FieldsCodec fs
  | [] => fieldsCodec_nil
  | (n, t) :: fs => fieldsCodec_cons n t fs (codec t) (codecFields fs)
theorem codecTuple : (ts : List HType) → TupleCodec ts
  | [] => tupleCodec_nil
  | t :: ts => tupleCodec_cons t ts (codec t) (codecTuple ts)
end

end HailVerif.ValueEnc

import HailVerif.Model.WSem
/-! Helper lemmas for C40: invariants of `WSem.step`, lifted to `WSem.run`. -/
namespace HailVerif.WSem

def Sorted (l : List (Nat × Nat)) : Prop := l.Pairwise fun a b => a.1 ≤ b.1

/-- the invariant carried through every run -/
structure Inv (m : Nat) (s : State) : Prop where
  max_eq : s.max = m
  total : s.value + held s = m
  nonneg : 0 ≤ s.value
  sorted : Sorted s.waiters
  blocked : ∀ p ∈ s.waiters, s.value < (p.1 : Int)
  le_max : ∀ p ∈ s.waiters, p.1 ≤ m

theorem weights_nil : weights [] = 0 := rfl
theorem weights_cons (p : Nat × Nat) (a : List (Nat × Nat)) : weights (p :: a) = p.1 + weights a := by
  simp [weights]
theorem weights_append (a b : List (Nat × Nat)) : weights (a ++ b) = weights a + weights b := by
  simp [weights, List.map_append, List.sum_append]

theorem take_spec : ∀ (l : List (Nat × Nat)) (i w : Nat) (r : List (Nat × Nat)),
    take i l = some (w, r) → weights l = w + weights r ∧ r.Sublist l ∧ (w, i) ∈ l := by
  intro l
  induction l with
  | nil => intro i w r h; simp [take] at h
  | cons p l ih =>
    intro i w r h
    obtain ⟨wj, j⟩ := p
    simp only [take] at h
    split at h
    · next hj =>
      simp at h; obtain ⟨rfl, rfl⟩ := h
      exact ⟨by simp [weights_cons], List.sublist_cons_self _ _, by simp [hj]⟩
    · split at h
      · simp at h
      · next w' r' heq =>
        simp at h; obtain ⟨rfl, rfl⟩ := h
        obtain ⟨h1, h2, h3⟩ := ih i w' r' heq
        refine ⟨by simp only [weights_cons]; omega, h2.cons_cons _, List.mem_cons_of_mem _ h3⟩

theorem take_none_iff : ∀ (l : List (Nat × Nat)) (i : Nat), take i l = none ↔ i ∉ ids l := by
  intro l
  induction l with
  | nil => intro i; simp [take, ids]
  | cons p l ih =>
    intro i
    obtain ⟨wj, j⟩ := p
    simp only [take]
    split
    · next hj => simp [ids, hj]
    · next hj =>
      have := ih i
      split
      · next hn => simp [ids] at *; exact ⟨fun h => hj h.symm, this.mp hn⟩
      · next w' r' hs =>
        simp [ids] at *
        intro _
        have h2 : ¬ (take i l = none) := by simp [hs]
        have := (not_congr this).mp h2
        simpa using this

theorem drain_spec : ∀ (q : List (Nat × Nat)) (v : Int) (g : List (Nat × Nat)), 0 ≤ v → Sorted q →
    (drain v g q).1 + weights (drain v g q).2.2 = v + weights g ∧ 0 ≤ (drain v g q).1 ∧
    (drain v g q).2.1.Sublist q ∧ ∀ p ∈ (drain v g q).2.1, (drain v g q).1 < (p.1 : Int) := by
  intro q
  induction q with
  | nil => intro v g hv _; simp [drain, hv]
  | cons p q ih =>
    intro v g hv hs
    obtain ⟨w, i⟩ := p
    simp only [drain]
    split
    · next hfit =>
      have hs' : Sorted q := (List.pairwise_cons.mp hs).2
      obtain ⟨h1, h2, h3, h4⟩ := ih (v - w) (g ++ [(w, i)]) (by omega) hs'
      simp only [weights_append, weights_cons, weights_nil] at h1
      exact ⟨by omega, h2, h3.cons _, h4⟩
    · next hnofit =>
      refine ⟨rfl, hv, List.Sublist.refl _, ?_⟩
      intro p hp
      simp only [List.mem_cons] at hp
      rcases hp with rfl | hp
      · simp only; omega
      · have := (List.pairwise_cons.mp hs).1 p hp
        simp only at this ⊢
        omega

theorem insert_mem (e : Nat × Nat) : ∀ (l : List (Nat × Nat)) (p : Nat × Nat), p ∈ insert e l ↔ p = e ∨ p ∈ l := by
  intro l
  induction l with
  | nil => intro p; simp [insert]
  | cons x xs ih =>
    intro p
    simp only [insert]
    split
    · simp
    · simp [ih]; constructor
      · rintro (h | h | h) <;> simp [h]
      · rintro (h | h | h) <;> simp [h]

theorem insert_sorted (e : Nat × Nat) : ∀ (l : List (Nat × Nat)), Sorted l → Sorted (insert e l) := by
  intro l
  induction l with
  | nil => intro _; simp [insert, Sorted]
  | cons x xs ih =>
    intro hs
    simp only [insert]
    obtain ⟨hx, hxs⟩ := List.pairwise_cons.mp hs
    split
    · next hlt =>
      refine List.pairwise_cons.mpr ⟨?_, hs⟩
      intro p hp
      simp only [List.mem_cons] at hp
      rcases hp with rfl | hp
      · omega
      · have := hx p hp; omega
    · next hge =>
      refine List.pairwise_cons.mpr ⟨?_, ih hxs⟩
      intro p hp
      rcases (insert_mem e xs p).mp hp with rfl | hp
      · omega
      · exact hx p hp

/-- `release(n)` re-establishes the invariant from a state that is `n` short -/
theorem releaseW_inv (m : Nat) (s : State) (n : Nat) (hmax : s.max = m)
    (htot : s.value + n + held s = m) (hnn : 0 ≤ s.value) (hsorted : Sorted s.waiters)
    (hle : ∀ p ∈ s.waiters, p.1 ≤ m) : Inv m (releaseW s n) := by
  obtain ⟨h1, h2, h3, h4⟩ := drain_spec s.waiters (s.value + n) s.granted (by omega) hsorted
  refine ⟨hmax, ?_, h2, ?_, h4, ?_⟩
  · simp only [releaseW, held] at *; omega
  · exact List.Pairwise.sublist h3 hsorted
  · intro p hp; exact hle p (h3.subset hp)

theorem releaseW_total (s : State) (n : Nat) (hnn : 0 ≤ s.value) (hsorted : Sorted s.waiters) :
    (releaseW s n).value + weights (releaseW s n).granted = s.value + weights s.granted + n ∧
    (releaseW s n).holders = s.holders ∧ (releaseW s n).max = s.max := by
  obtain ⟨h1, _, _, _⟩ := drain_spec s.waiters (s.value + n) s.granted (by omega) hsorted
  refine ⟨?_, rfl, rfl⟩
  simp only [releaseW]; omega

theorem step_inv (m : Nat) (s s' : State) (op : Op) (hi : Inv m s) (h : step s op = .ok s') : Inv m s' := by
  obtain ⟨hmax, htot, hnn, hsorted, hblocked, hle⟩ := hi
  have exit_case : ∀ i, exitBody s i = .ok s' → Inv m s' := by
    intro i h
    simp only [exitBody] at h
    split at h
    · simp at h
    · next w rest ht =>
      simp at h; subst h
      obtain ⟨hw, _, _⟩ := take_spec _ _ _ _ ht
      exact releaseW_inv m _ w hmax (by simp only [held] at *; omega) hnn hsorted hle
  cases op with
  | acquire i w =>
    simp only [step] at h
    split at h
    · simp at h
    · split at h
      · simp at h
      · next hwle =>
        split at h
        · next hfit =>
          simp at h; subst h
          refine ⟨hmax, ?_, by simp only; omega, hsorted, ?_, hle⟩
          · simp only [held, weights_append, weights_cons, weights_nil] at *; omega
          · intro p hp; have := hblocked p hp; simp only at hp ⊢; omega
        · next hnofit =>
          simp at h; subst h
          refine ⟨hmax, htot, hnn, insert_sorted _ _ hsorted, ?_, ?_⟩
          · intro p hp
            rcases (insert_mem _ _ p).mp hp with rfl | hp
            · simp only; omega
            · exact hblocked p hp
          · intro p hp
            rcases (insert_mem _ _ p).mp hp with rfl | hp
            · simp only; omega
            · exact hle p hp
  | release i => exact exit_case i h
  | fail i => exact exit_case i h
  | cancel i =>
    simp only [step] at h
    split at h
    · next w rest ht =>
      simp at h; subst h
      obtain ⟨hw, _, _⟩ := take_spec _ _ _ _ ht
      exact releaseW_inv m _ w hmax (by simp only [held] at *; omega) hnn hsorted hle
    · split at h
      · next w rest ht =>
        simp at h; subst h
        obtain ⟨hw, _, _⟩ := take_spec _ _ _ _ ht
        exact releaseW_inv m _ w hmax (by simp only [held] at *; omega) hnn hsorted hle
      · split at h
        · next w rest ht =>
          simp at h; subst h
          obtain ⟨_, hsub, _⟩ := take_spec _ _ _ _ ht
          exact ⟨hmax, htot, hnn, List.Pairwise.sublist hsub hsorted,
            fun p hp => hblocked p (hsub.subset hp), fun p hp => hle p (hsub.subset hp)⟩
        · simp at h
  | resume i =>
    simp only [step] at h
    split at h
    · next w rest ht =>
      simp at h; subst h
      obtain ⟨hw, _, _⟩ := take_spec _ _ _ _ ht
      refine ⟨hmax, ?_, hnn, hsorted, hblocked, hle⟩
      simp only [held, weights_append, weights_cons, weights_nil] at *; omega
    · simp at h

theorem run_inv (m : Nat) : ∀ (ops : List Op) (s s' : State), Inv m s → run s ops = .ok s' → Inv m s' := by
  intro ops
  induction ops with
  | nil => intro s s' hi h; simp [run] at h; subst h; exact hi
  | cons op ops ih =>
    intro s s' hi h
    simp only [run] at h
    split at h
    · simp at h
    · next s1 hstep => exact ih s1 s' (step_inv m s s1 op hi hstep) h

theorem init_inv (m : Nat) : Inv m (init m) := by
  constructor <;> simp [init, held, weights, Sorted]

/-! ### task ids are unique across the three phases -/

def all (s : State) : List (Nat × Nat) := s.granted ++ s.waiters ++ s.holders
def Uniq (s : State) : Prop := (ids (all s)).Nodup

theorem take_perm : ∀ (l : List (Nat × Nat)) (i w : Nat) (r : List (Nat × Nat)),
    take i l = some (w, r) → l.Perm ((w, i) :: r) := by
  intro l
  induction l with
  | nil => intro i w r h; simp [take] at h
  | cons p l ih =>
    intro i w r h
    obtain ⟨wj, j⟩ := p
    simp only [take] at h
    split at h
    · next hj => simp at h; obtain ⟨rfl, rfl⟩ := h; subst hj; exact List.Perm.refl _
    · split at h
      · simp at h
      · next w' r' heq =>
        simp at h; obtain ⟨rfl, rfl⟩ := h
        exact ((ih i w' r' heq).cons _).trans (List.Perm.swap _ _ _)

theorem drain_concat : ∀ (q : List (Nat × Nat)) (v : Int) (g : List (Nat × Nat)),
    (drain v g q).2.2 ++ (drain v g q).2.1 = g ++ q := by
  intro q
  induction q with
  | nil => intro v g; simp [drain]
  | cons p q ih =>
    intro v g
    obtain ⟨w, i⟩ := p
    simp only [drain]
    split
    · rw [ih]; simp
    · rfl

theorem insert_perm (e : Nat × Nat) : ∀ (l : List (Nat × Nat)), (insert e l).Perm (e :: l) := by
  intro l
  induction l with
  | nil => simp [insert]
  | cons x xs ih =>
    simp only [insert]
    split
    · exact List.Perm.refl _
    · exact (ih.cons x).trans (List.Perm.swap _ _ _)

theorem releaseW_all (s : State) (n : Nat) : all (releaseW s n) = all s := by
  simp only [all, releaseW]
  rw [drain_concat]

theorem ids_perm {a b : List (Nat × Nat)} (h : a.Perm b) : (ids a).Perm (ids b) := h.map _

theorem not_active_iff (s : State) (i : Nat) : active s i = false ↔ i ∉ ids (all s) := by
  simp [active, all, ids]
  constructor
  · rintro ⟨⟨h1, h2⟩, h3⟩; exact ⟨h2, h1, h3⟩
  · rintro ⟨h1, h2, h3⟩; exact ⟨⟨h2, h1⟩, h3⟩

theorem step_uniq (s s' : State) (op : Op) (hu : Uniq s) (h : step s op = .ok s') : Uniq s' := by
  have exit_case : ∀ i, exitBody s i = .ok s' → Uniq s' := by
    intro i h
    simp only [exitBody] at h
    split at h
    · simp at h
    · next w rest ht =>
      simp at h; subst h
      unfold Uniq at *
      rw [releaseW_all]
      have hsub : (all { s with holders := rest }).Sublist (all s) := by
        simp only [all]; exact List.Sublist.append (List.Sublist.refl _) (take_spec _ _ _ _ ht).2.1
      exact List.Nodup.sublist (hsub.map _) hu
  cases op with
  | acquire i w =>
    simp only [step] at h
    split at h
    · simp at h
    · next hna =>
      have hni : i ∉ ids (all s) := (not_active_iff s i).mp (by simpa using hna)
      split at h
      · simp at h
      · split at h
        · simp at h; subst h
          unfold Uniq at *
          have : (ids (all { s with value := s.value - w, holders := s.holders ++ [(w, i)] })).Perm (i :: ids (all s)) := by
            simp only [all, ids, List.map_append, List.map_cons, List.map_nil]
            rw [← List.append_assoc]
            exact List.perm_append_singleton _ _
          exact this.nodup_iff.mpr (List.nodup_cons.mpr ⟨hni, hu⟩)
        · simp at h; subst h
          unfold Uniq at *
          have : (ids (all { s with waiters := insert (w, i) s.waiters })).Perm (i :: ids (all s)) := by
            have h1 : (all { s with waiters := insert (w, i) s.waiters }).Perm ((w, i) :: all s) := by
              simp only [all]
              refine (List.Perm.append_right _ (List.Perm.append_left _ (insert_perm _ _))).trans ?_
              rw [List.append_assoc, List.append_assoc]
              exact List.perm_middle
            exact ids_perm h1
          exact this.nodup_iff.mpr (List.nodup_cons.mpr ⟨hni, hu⟩)
  | release i => exact exit_case i h
  | fail i => exact exit_case i h
  | cancel i =>
    simp only [step] at h
    split at h
    · next w rest ht =>
      simp at h; subst h
      unfold Uniq at *
      rw [releaseW_all]
      have hsub : (all { s with holders := rest }).Sublist (all s) := by
        simp only [all]; exact List.Sublist.append (List.Sublist.refl _) (take_spec _ _ _ _ ht).2.1
      exact List.Nodup.sublist (hsub.map _) hu
    · split at h
      · next w rest ht =>
        simp at h; subst h
        unfold Uniq at *
        rw [releaseW_all]
        have hsub : (all { s with granted := rest }).Sublist (all s) := by
          simp only [all]
          exact List.Sublist.append (List.Sublist.append (take_spec _ _ _ _ ht).2.1 (List.Sublist.refl _)) (List.Sublist.refl _)
        exact List.Nodup.sublist (hsub.map _) hu
      · split at h
        · next w rest ht =>
          simp at h; subst h
          unfold Uniq at *
          have hsub : (all { s with waiters := rest }).Sublist (all s) := by
            simp only [all]
            exact List.Sublist.append (List.Sublist.append (List.Sublist.refl _) (take_spec _ _ _ _ ht).2.1) (List.Sublist.refl _)
          exact List.Nodup.sublist (hsub.map _) hu
        · simp at h
  | resume i =>
    simp only [step] at h
    split at h
    · next w rest ht =>
      simp at h; subst h
      unfold Uniq at *
      have hp : (all { s with granted := rest, holders := s.holders ++ [(w, i)] }).Perm (all s) := by
        simp only [all]
        have h1 := take_perm _ _ _ _ ht
        refine List.Perm.trans ?_ (List.Perm.append_right _ (List.Perm.append_right _ h1.symm))
        rw [← List.append_assoc]
        refine (List.perm_append_singleton _ _).trans ?_
        simp
      exact (ids_perm hp).nodup_iff.mpr hu
    · simp at h

theorem run_uniq : ∀ (ops : List Op) (s s' : State), Uniq s → run s ops = .ok s' → Uniq s' := by
  intro ops
  induction ops with
  | nil => intro s s' hi h; simp [run] at h; subst h; exact hi
  | cons op ops ih =>
    intro s s' hi h
    simp only [run] at h
    split at h
    · simp at h
    · next s1 hstep => exact ih s1 s' (step_uniq s s1 op hi hstep) h

theorem init_uniq (m : Nat) : Uniq (init m) := by simp [Uniq, all, init, ids]

end HailVerif.WSem

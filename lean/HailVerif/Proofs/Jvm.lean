import HailVerif.Model.Jvm
/-! Transfer lemmas: JVM `Int` operations on `BitVec.ofNat 32 n` for small non-negative `n` are the `Nat` operations. -/
namespace HailVerif.Jvm

/-- the JVM `Int` with non-negative value `n` -/
abbrev bv (n : Nat) : I32 := BitVec.ofNat 32 n

theorem toNat_bv {a : Nat} (h : a < 2 ^ 32) : (bv a).toNat = a := by
  simp [bv, BitVec.toNat_ofNat, Nat.mod_eq_of_lt h]

theorem toInt_bv {a : Nat} (h : a < 2 ^ 31) : (bv a).toInt = a := by
  rw [BitVec.toInt_eq_toNat_of_lt] <;> rw [toNat_bv (by omega)]; omega

theorem bv_inj {a b : Nat} (ha : a < 2 ^ 32) (hb : b < 2 ^ 32) : bv a = bv b ↔ a = b := by
  constructor
  · intro h
    have := congrArg BitVec.toNat h
    rwa [toNat_bv ha, toNat_bv hb] at this
  · rintro rfl; rfl

theorem lt_bv {a b : Nat} (ha : a < 2 ^ 31) (hb : b < 2 ^ 31) : lt (bv a) (bv b) = decide (a < b) := by
  unfold lt; rw [BitVec.slt_eq_decide, toInt_bv ha, toInt_bv hb]; simp

theorem gt_bv {a b : Nat} (ha : a < 2 ^ 31) (hb : b < 2 ^ 31) : gt (bv a) (bv b) = decide (b < a) := by
  unfold gt; rw [BitVec.slt_eq_decide, toInt_bv ha, toInt_bv hb]; simp

theorem le_bv {a b : Nat} (ha : a < 2 ^ 31) (hb : b < 2 ^ 31) : le (bv a) (bv b) = decide (a ≤ b) := by
  unfold le; rw [BitVec.sle_eq_decide, toInt_bv ha, toInt_bv hb]; simp

theorem ge_bv {a b : Nat} (ha : a < 2 ^ 31) (hb : b < 2 ^ 31) : ge (bv a) (bv b) = decide (b ≤ a) := by
  unfold ge; rw [BitVec.sle_eq_decide, toInt_bv ha, toInt_bv hb]; simp

theorem eq_bv {a b : Nat} (ha : a < 2 ^ 32) (hb : b < 2 ^ 32) : eq (bv a) (bv b) = decide (a = b) := by
  unfold eq
  by_cases h : a = b
  · subst h; simp
  · have : bv a ≠ bv b := fun hc => h ((bv_inj ha hb).1 hc)
    simp [h, this]

theorem ne_bv {a b : Nat} (ha : a < 2 ^ 32) (hb : b < 2 ^ 32) : ne (bv a) (bv b) = decide (a ≠ b) := by
  unfold ne
  by_cases h : a = b
  · subst h; simp
  · have : bv a ≠ bv b := fun hc => h ((bv_inj ha hb).1 hc)
    simp [h, this]

theorem add_bv (a b : Nat) : bv a + bv b = bv (a + b) := (BitVec.ofNat_add a b).symm
theorem mul_bv (a b : Nat) : bv a * bv b = bv (a * b) := (BitVec.ofNat_mul a b).symm
theorem or_bv (a b : Nat) : bv a ||| bv b = bv (a ||| b) := BitVec.ofNat_or.symm
theorem and_bv (a b : Nat) : bv a &&& bv b = bv (a &&& b) := BitVec.ofNat_and.symm

theorem sub_bv {a b : Nat} (hb : b < 2 ^ 32) (h : b ≤ a) : bv a - bv b = bv (a - b) :=
  BitVec.ofNat_sub_ofNat_of_le a b hb h

theorem shl_bv {a : Nat} (n : Nat) (hn : n < 32) (h : a <<< n < 2 ^ 32) : shl (bv a) n = bv (a <<< n) := by
  unfold shl
  have ha : a < 2 ^ 32 := by
    rw [Nat.shiftLeft_eq] at h
    exact Nat.lt_of_le_of_lt (Nat.le_mul_of_pos_right a (Nat.two_pow_pos n)) h
  apply BitVec.eq_of_toNat_eq
  rw [BitVec.toNat_shiftLeft, toNat_bv ha, toNat_bv h, Nat.mod_eq_of_lt hn, Nat.mod_eq_of_lt h]

theorem ushr_bv {a : Nat} (n : Nat) (hn : n < 32) (ha : a < 2 ^ 32) : ushr (bv a) n = bv (a >>> n) := by
  unfold ushr
  apply BitVec.eq_of_toNat_eq
  have : a >>> n < 2 ^ 32 := Nat.lt_of_le_of_lt (Nat.shiftRight_le a n) ha
  rw [BitVec.toNat_ushiftRight, toNat_bv ha, toNat_bv this, Nat.mod_eq_of_lt hn]

theorem msb_bv {a : Nat} (ha : a < 2 ^ 31) : (bv a).msb = false := by
  rw [BitVec.msb_eq_decide, toNat_bv (by omega)]; simp; omega

theorem sshr_bv {a : Nat} (n : Nat) (hn : n < 32) (ha : a < 2 ^ 31) : sshr (bv a) n = bv (a >>> n) := by
  unfold sshr
  rw [BitVec.sshiftRight_eq_of_msb_false (msb_bv ha)]
  exact ushr_bv n hn (by omega)

theorem divLit_bv {a d : Nat} (ha : a < 2 ^ 31) (hd : d < 2 ^ 31) : divLit (bv a) (bv d) = bv (a / d) := by
  unfold divLit
  rw [BitVec.sdiv_eq, msb_bv ha, msb_bv hd]
  apply BitVec.eq_of_toNat_eq
  have : a / d < 2 ^ 32 := Nat.lt_of_le_of_lt (Nat.div_le_self a d) (by omega)
  show (bv a / bv d).toNat = _
  rw [BitVec.toNat_udiv, toNat_bv (by omega), toNat_bv (by omega), toNat_bv this]

theorem boolToInt_bv (b : Bool) : boolToInt b = bv b.toNat := by cases b <;> rfl

end HailVerif.Jvm

import HailVerif.Proofs.BatchDBNoStart
/-! Helper lemmas for C07 about `cancelGroup` and the structural invariant "every group is its own ancestor". -/
namespace HailVerif.BatchDB

/-- every group row lists itself among its ancestors (`job_group_self_and_ancestors` has the level-0 row) -/
def GroupsSelf (s : State) : Prop := ∀ g ∈ s.groups, g.id ∈ g.ancestors

theorem groupsSelf_init : GroupsSelf init := by intro g hg; simp [init] at hg

theorem groupsSelf_of_shape {s s' : State} (h : Shape s s') (hs : GroupsSelf s) : GroupsSelf s' := by
  obtain ⟨F, new, hF, e, hn⟩ := h.groups
  intro g hg
  rw [e] at hg
  rcases List.mem_append.mp hg with h1 | h1
  · rw [List.mem_map] at h1
    obtain ⟨y, hy, rfl⟩ := h1
    rw [(hF y).2.1, (hF y).2.2.1]; exact hs y hy
  · exact hn g h1

theorem self_mem_ancestors {s : State} (hs : GroupsSelf s) {b g : Nat} {grp : Group} (h : findGroup s b g = some grp) :
    g ∈ grp.ancestors := by
  unfold findGroup at h
  have hm := List.mem_of_find?_eq_some h
  have hp := List.find?_some h
  simp at hp
  rw [← hp.2]; exact hs grp hm

/-- the three possible outcomes of `cancel_job_group_in_db` -/
theorem cancelGroup_cases (s : State) (b g : Nat) :
    (cancelVisible s b g = false ∧ cancelGroup s b g = (s, .err "not-found")) ∨
    (cancelVisible s b g = true ∧ groupCancelled s b g = true ∧ cancelGroup s b g = (s, .ok 0)) ∨
    (cancelVisible s b g = true ∧ groupCancelled s b g = false ∧ cancelGroup s b g = (cancelApply s b g, .ok 0)) := by
  unfold cancelGroup
  split_ifs with h1 h2
  · exact Or.inl ⟨h1, rfl⟩
  · exact Or.inr (Or.inl ⟨by simpa using h1, h2, rfl⟩)
  · exact Or.inr (Or.inr ⟨by simpa using h1, by simpa using h2, rfl⟩)

/-- the visibility check reads only `job_groups`, `batches` and `batch_updates` -/
theorem cancelVisible_congr {s s' : State} (hg : s'.groups = s.groups) (hb : s'.batches = s.batches)
    (hu : s'.updates = s.updates) (b g : Nat) : cancelVisible s' b g = cancelVisible s b g := by
  unfold cancelVisible findGroup findBatch updCommitted findUpdate
  rw [hg, hb, hu]

theorem visible_has_group {s : State} {b g : Nat} (h : cancelVisible s b g = true) : ∃ grp, findGroup s b g = some grp := by
  unfold cancelVisible at h
  cases hf : findGroup s b g with
  | none => simp [hf] at h
  | some grp => exact ⟨grp, rfl⟩

/-- after the procedure ran, the group is cancelled (it is its own ancestor) -/
theorem groupCancelled_cancelApply {s : State} (hs : GroupsSelf s) {b g : Nat} (hv : cancelVisible s b g = true) :
    groupCancelled (cancelApply s b g) b g = true := by
  obtain ⟨grp, hg⟩ := visible_has_group hv
  have hself := self_mem_ancestors hs hg
  unfold groupCancelled ancestorsOf
  have : findGroup (cancelApply s b g) b g = some grp := hg
  rw [this]
  simp only
  rw [List.any_eq_true]
  exact ⟨g, hself, by simp [cancelApply]⟩

end HailVerif.BatchDB

import HailVerif.Generated.ScalaCall
import HailVerif.Proofs.Jvm
import HailVerif.Proofs.CallPack
/-! The generated engine functions (`Generated/ScalaCall.lean`) on in-range arguments, in terms of the `Nat` model. -/
namespace HailVerif.Generated.ScalaCall
open HailVerif.Jvm HailVerif.CallPack

theorem tri_bound {k : Nat} (hk : k < 32768) : k * (k + 1) ≤ 32767 * 32768 :=
  Nat.mul_le_mul (by omega) (by omega)

/-- `Genotype.diploidGtIndex(j, k)` -/
theorem diploidGtIndex_bv {j k : Nat} (hj : j ≤ k) (hk : k < 32768) :
    Genotype_diploidGtIndex_2 (bv j) (bv k) = some (bv (gtIndex j k)) := by
  have hb := tri_bound hk
  unfold Genotype_diploidGtIndex_2
  rw [show (0#32) = bv 0 from rfl, show (1#32) = bv 1 from rfl, show (2#32) = bv 2 from rfl,
    lt_bv (by omega) (by omega), gt_bv (by omega) (by omega), add_bv, mul_bv,
    divLit_bv (by omega) (by omega), add_bv]
  simp [gtIndex]; omega

/-- `Genotype.diploidGtIndexWithSwap(i, j)` -/
theorem diploidGtIndexWithSwap_bv {i j : Nat} (hi : i < 32768) (hj : j < 32768) :
    Genotype_diploidGtIndexWithSwap (bv i) (bv j) = some (bv (gtIndex (min i j) (max i j))) := by
  unfold Genotype_diploidGtIndexWithSwap
  rw [lt_bv (by omega) (by omega)]
  by_cases h : j < i
  · simp only [h, decide_true, if_true]
    rw [diploidGtIndex_bv (by omega) hi, Nat.min_eq_right (by omega), Nat.max_eq_left (by omega)]
  · simp only [h, decide_false]
    rw [show (if false = true then Genotype_diploidGtIndex_2 (bv j) (bv i) else Genotype_diploidGtIndex_2 (bv i) (bv j))
      = Genotype_diploidGtIndex_2 (bv i) (bv j) from rfl]
    rw [diploidGtIndex_bv (by omega) hj, Nat.min_eq_left (by omega), Nat.max_eq_right (by omega)]

/-- `Call.apply(ar, phased, ploidy, errorID)` -/
theorem Call_apply_bv {ar p : Nat} (ph : Bool) (e : I32) (har : ar < 2 ^ 29) (hp : p ≤ 2) :
    Call_apply (bv ar) ph (bv p) e = some (bv (8 * ar + 2 * p + ph.toNat)) := by
  unfold Call_apply
  dsimp only
  have hs : ar >>> 29 = 0 := by rw [Nat.shiftRight_eq_div_pow]; omega
  have h3 : ar <<< 3 = 8 * ar := by rw [Nat.shiftLeft_eq]; omega
  have h1 : p <<< 1 = 2 * p := by rw [Nat.shiftLeft_eq]; omega
  rw [show (0#32) = bv 0 from rfl, show (2#32) = bv 2 from rfl, show (3#32) = bv 3 from rfl,
    lt_bv (by omega) (by omega), gt_bv (by omega) (by omega), lt_bv (by omega) (by omega),
    ushr_bv 29 (by omega) (by omega), hs, ne_bv (by omega) (by omega),
    shl_bv (a := ar) 3 (by omega) (by omega), shl_bv (a := p) 1 (by omega) (by omega),
    boolToInt_bv, h3, h1]
  have hlow : 0 ||| ph.toNat ||| 2 * p = 2 * p + ph.toNat := by
    have : p = 0 ∨ p = 1 ∨ p = 2 := by omega
    rcases this with rfl | rfl | rfl <;> cases ph <;> rfl
  have hor : 0 ||| ph.toNat ||| 2 * p ||| 8 * ar = 8 * ar + 2 * p + ph.toNat := by
    rw [hlow, ← h3, lor_shl3 _ _ (by cases ph <;> simp <;> omega)]; omega
  have hp' : decide (2 < p) = false := by simp; omega
  have h0 : decide (p < 0) = false := by simp
  have h00 : decide (ar < 0) = false := by simp
  have hne : decide (0 ≠ 0) = false := by simp
  rw [hp', h0, h00, hne]
  simp only [Bool.or_self, Bool.false_eq_true, if_false]
  rw [or_bv, or_bv, or_bv, hor]

/-- `Call2.fromUnphasedDiploidGtIndex(gt)` -/
theorem fromUnphasedDiploidGtIndex_bv {g : Nat} (hg : g < 2 ^ 29) :
    Call2_fromUnphasedDiploidGtIndex (bv g) = some (bv (8 * g + 4)) := by
  unfold Call2_fromUnphasedDiploidGtIndex
  dsimp only
  have hs : g >>> 29 = 0 := by rw [Nat.shiftRight_eq_div_pow]; omega
  have h3 : g <<< 3 = 8 * g := by rw [Nat.shiftLeft_eq]; omega
  rw [show (0#32) = bv 0 from rfl, show (2#32) = bv 2 from rfl,
    lt_bv (by omega) (by omega), ushr_bv 29 (by omega) (by omega), hs, ne_bv (by omega) (by omega),
    shl_bv (a := g) 3 (by omega) (by omega), shl_bv (a := 2) 1 (by omega) (by decide), h3, or_bv]
  have : 2 <<< 1 ||| 8 * g = 8 * g + 4 := by
    rw [show 2 <<< 1 = 4 from rfl, ← h3, lor_shl3 _ _ (by omega)]; omega
  rw [this]
  simp

/-- `Call0.apply(phased)` -/
theorem Call0_apply_bv (ph : Bool) : Call0_apply ph = some (bv ph.toNat) := by
  unfold Call0_apply
  have := Call_apply_bv (ar := 0) (p := 0) ph (-(1#32)) (by omega) (by omega)
  simpa using this

/-- `Call1.apply(aj, phased)` -/
theorem Call1_apply_bv {a : Nat} (ph : Bool) (ha : a < 2 ^ 29) :
    Call1_apply (bv a) ph = some (bv (8 * a + 2 + ph.toNat)) := by
  unfold Call1_apply
  rw [show (0#32) = bv 0 from rfl, lt_bv (by omega) (by omega)]
  have := Call_apply_bv (ar := a) (p := 1) ph (-(1#32)) ha (by omega)
  simpa using this

/-- `Call2.apply(aj, ak, phased = false)` on a sorted pair -/
theorem Call2_apply_unphased {j k : Nat} (hjk : j ≤ k) (h : gtIndex j k < 2 ^ 29) :
    Call2_apply (bv j) (bv k) false = some (bv (8 * gtIndex j k + 4)) := by
  have hk := row_lt_of_lt h
  unfold Call2_apply
  rw [show (0#32) = bv 0 from rfl, lt_bv (by omega) (by omega), lt_bv (by omega) (by omega),
    diploidGtIndexWithSwap_bv (by omega) (by omega), Nat.min_eq_left hjk, Nat.max_eq_right hjk]
  simp [fromUnphasedDiploidGtIndex_bv h]

/-- `Call2.apply(aj, ak, phased = true)`: stored as the pair `(aj, aj + ak)` -/
theorem Call2_apply_phased {j k : Nat} (h : gtIndex j (j + k) < 2 ^ 29) :
    Call2_apply (bv j) (bv k) true = some (bv (8 * gtIndex j (j + k) + 4 + 1)) := by
  have hk := row_lt_of_lt h
  unfold Call2_apply
  rw [show (0#32) = bv 0 from rfl, lt_bv (by omega) (by omega), lt_bv (by omega) (by omega), add_bv,
    diploidGtIndex_bv (by omega) hk]
  have := Call_apply_bv (ar := gtIndex j (j + k)) (p := 2) true (-(1#32)) h (by omega)
  simpa using this

/-! ### the engine's unpacking -/

theorem Call_ploidy_bv {w : Nat} (hw : w < 2 ^ 32) : Call_ploidy (bv w) = bv ((w >>> 1) &&& 3) := by
  unfold Call_ploidy
  rw [ushr_bv 1 (by omega) hw, show (3#32) = bv 3 from rfl, and_bv]

theorem Call_isPhased_bv {w : Nat} : Call_isPhased (bv w) = ((w &&& 1) == 1) := by
  unfold Call_isPhased
  rw [show (1#32) = bv 1 from rfl, and_bv, eq_bv _ (by omega)]
  · by_cases h : w &&& 1 = 1
    · simp [h]
    · have : ((w &&& 1) == 1) = false := by simpa using h
      rw [this]; simpa using h
  · rw [and_one]; omega

theorem Call_alleleRepr_bv {w : Nat} (hw : w < 2 ^ 32) : Call_alleleRepr (bv w) = bv (w >>> 3) := by
  unfold Call_alleleRepr; exact ushr_bv 3 (by omega) hw

theorem AllelePair_apply_bv {j k : Nat} (hj : j ≤ 0xFFFF) (hk : k ≤ 0xFFFF) :
    AllelePair_apply (bv j) (bv k) = some (bv (j ||| (k <<< 16))) := by
  unfold AllelePair_apply
  have hs : k <<< 16 < 2 ^ 32 := by rw [Nat.shiftLeft_eq]; omega
  rw [show (0#32) = bv 0 from rfl, show (65535#32) = bv 65535 from rfl,
    ge_bv (by omega) (by omega), le_bv (by omega) (by omega), ge_bv (by omega) (by omega),
    le_bv (by omega) (by omega), shl_bv 16 (by omega) hs, or_bv]
  simp; omega

theorem AllelePair_j_bv {p : Nat} : AllelePair_j (bv p) = bv (apJ p) := by
  unfold AllelePair_j apJ; rw [show (65535#32) = bv 65535 from rfl, and_bv]

theorem AllelePair_k_bv {p : Nat} (hp : p < 2 ^ 31) : AllelePair_k (bv p) = bv (apK p) := by
  unfold AllelePair_k apK
  rw [show (65535#32) = bv 65535 from rfl, sshr_bv 16 (by omega) hp, and_bv]

theorem smallAllelePair_eq : Genotype_smallAllelePair = some (smallAllelePair.map bv) := by decide

/-- the radicand of the current text, `8 * i.toDouble + 1`: the `Int` argument is widened *before* the multiplication,
so nothing wraps (no-overflow fact of the current source) and the radicand is the exact `8 i + 1` -/
theorem radicand_exact {i : Nat} (hi : i < 2 ^ 31) : (8 : Int) * (bv i).toInt + (1 : Int) = ((8 * i + 1 : Nat) : Int) := by
  rw [toInt_bv hi]; push_cast; ring

theorem triRootR_bv {i : Nat} (hi : i < 2 ^ 31) :
    triRootR ((8 : Int) * (bv i).toInt + (1 : Int)) = bv (triRoot i) := by
  rw [radicand_exact hi]
  unfold triRootR triRoot
  have : ¬ (((8 * i + 1 : Nat) : Int) < 0) := by omega
  rw [if_neg this, Int.toNat_natCast]

/-- `Genotype.allelePair(i)` on the index of the pair `j ≤ k` -/
theorem Genotype_allelePair_bv {j k : Nat} (hj : j ≤ k) (h : gtIndex j k < 2 ^ 29) :
    Genotype_allelePair (bv (gtIndex j k)) = some (bv (j ||| (k <<< 16))) := by
  have hk := row_lt_of_lt h
  have hb := tri_bound hk
  unfold Genotype_allelePair
  rw [smallAllelePair_eq]
  simp only [Option.bind_some]
  have hlen : Jvm.length (smallAllelePair.map bv) = bv 36 := by decide
  rw [hlen, lt_bv (by omega) (by omega)]
  by_cases hlt : gtIndex j k < 36
  · simp only [hlt, decide_true, if_true]
    unfold Jvm.index
    have : (bv (gtIndex j k)).slt (0#32) = false := by
      have := lt_bv (a := gtIndex j k) (b := 0) (by omega) (by omega)
      unfold Jvm.lt at this; rw [show (0#32) = bv 0 from rfl, this]; simp
    rw [this, toNat_bv (by omega)]
    simp [small_lookup hj hlt]
  · simp only [hlt, decide_false]
    show Genotype_allelePairSqrt (bv (gtIndex j k)) = _
    unfold Genotype_allelePairSqrt
    dsimp only
    have hT : k * (k + 1) / 2 ≤ gtIndex j k := by unfold gtIndex; omega
    have hj' : gtIndex j k - k * (k + 1) / 2 = j := by unfold gtIndex; omega
    rw [triRootR_bv (by omega), triRoot_gtIndex hj, show (1#32) = bv 1 from rfl, show (2#32) = bv 2 from rfl,
      add_bv, mul_bv, divLit_bv (by omega) (by omega), le_bv (by omega) (by omega),
      sub_bv (by omega) hT, hj', diploidGtIndex_bv hj hk]
    simp only [hT, decide_true, Bool.not_true, Bool.false_eq_true, if_false, Option.bind_some]
    rw [eq_bv (by omega) (by omega)]
    simp only [decide_true, Bool.not_true, Bool.false_eq_true, if_false]
    exact AllelePair_apply_bv (by omega) (by omega)

theorem pack_lt {j k : Nat} (hj : j < 65536) (hk : k < 32768) : j ||| (k <<< 16) < 2 ^ 31 := by
  rw [lor_shl16 j k hj]; omega

/-- `Call.allelePair(c)` on the word of an unphased diploid call -/
theorem Call_allelePair_unphased {j k : Nat} (hj : j ≤ k) (h : gtIndex j k < 2 ^ 29) :
    Call_allelePair (bv (8 * gtIndex j k + 4)) = some (bv (j ||| (k <<< 16))) := by
  unfold Call_allelePair Call_isDiploid Call_allelePairUnchecked
  have hp : ((8 * gtIndex j k + 4) >>> 1) &&& 3 = 2 := by
    rw [and_three, Nat.shiftRight_eq_div_pow]; omega
  have hr : (8 * gtIndex j k + 4) >>> 3 = gtIndex j k := by
    rw [Nat.shiftRight_eq_div_pow]; omega
  have hb : ((8 * gtIndex j k + 4) &&& 1 == 1) = false := by rw [and_one]; simp; omega
  rw [Call_ploidy_bv (by omega), hp, Call_isPhased_bv, hb, Call_alleleRepr_bv (by omega), hr,
    show (2#32) = bv 2 from rfl, eq_bv (by omega) (by omega)]
  simp [Genotype_allelePair_bv hj h]

/-- `Call.allelePair(c)` on the word of a phased diploid call -/
theorem Call_allelePair_phased {j k : Nat} (h : gtIndex j (j + k) < 2 ^ 29) :
    Call_allelePair (bv (8 * gtIndex j (j + k) + 4 + 1)) = some (bv (j ||| (k <<< 16))) := by
  have hk := row_lt_of_lt h
  unfold Call_allelePair Call_isDiploid Call_allelePairUnchecked
  have hp : ((8 * gtIndex j (j + k) + 4 + 1) >>> 1) &&& 3 = 2 := by
    rw [and_three, Nat.shiftRight_eq_div_pow]; omega
  have hr : (8 * gtIndex j (j + k) + 4 + 1) >>> 3 = gtIndex j (j + k) := by
    rw [Nat.shiftRight_eq_div_pow]; omega
  have hb : ((8 * gtIndex j (j + k) + 4 + 1) &&& 1 == 1) = true := by rw [and_one]; simp; omega
  rw [Call_ploidy_bv (by omega), hp, Call_isPhased_bv, hb, Call_alleleRepr_bv (by omega), hr,
    show (2#32) = bv 2 from rfl, eq_bv (by omega) (by omega),
    Genotype_allelePair_bv (show j ≤ j + k by omega) h]
  simp only [decide_true, Bool.not_true, Bool.false_eq_true, if_false, if_true, Option.bind_some]
  rw [AllelePair_j_bv, AllelePair_k_bv (pack_lt (by omega) hk),
    apJ_pack (show j < 65536 by omega), apK_pack (show j < 65536 by omega) (show j + k < 65536 by omega),
    sub_bv (by omega) (by omega), show j + k - j = k by omega]
  exact AllelePair_apply_bv (by omega) (by omega)

theorem toInt_bv_eq_wrap {r : Nat} (h : r < 2 ^ 32) (hne : r ≠ 2 ^ 31 - 1) : (bv r).toInt = wrapInt32 r := by
  unfold wrapInt32
  rw [BitVec.toInt_eq_toNat_cond, toNat_bv h]
  split <;> split <;> omega

end HailVerif.Generated.ScalaCall

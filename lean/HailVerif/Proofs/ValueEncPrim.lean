import HailVerif.Model.ValueEnc
import HailVerif.Proofs.TypeStr
/-! Reader / writer lemmas for the binary encoding (C33): fixed-width integers and floats, UTF-8, missing bits. -/
set_option linter.unusedSimpArgs false
set_option linter.unusedVariables false
namespace HailVerif.ValueEnc
open HailVerif.TypeStr HailVerif.Values

/-! ## fixed width -/

theorem leBytes_length (n v : Nat) : (leBytes n v).length = n := by
  induction n generalizing v with
  | zero => rfl
  | succ n ih => simp [leBytes, ih]

theorem leVal_leBytes4 (v : Nat) (h : v < 4294967296) : leVal (leBytes 4 v) = v := by
  simp only [leBytes, leVal]; omega

theorem leVal_leBytes8 (v : Nat) (h : v < 18446744073709551616) : leVal (leBytes 8 v) = v := by
  simp only [leBytes, leVal]; omega

theorem take_append_len {α : Type} (a b : List α) (n : Nat) (h : a.length = n) : (a ++ b).take n = a := by
  subst h; simp

theorem drop_append_len {α : Type} (a b : List α) (n : Nat) (h : a.length = n) : (a ++ b).drop n = b := by
  subst h; simp

theorem fitsInt32_iff (v : Int) : fitsInt32 v ↔ -2147483648 ≤ v ∧ v < 2147483648 := by
  unfold fitsInt32; omega

theorem fitsInt64_iff (v : Int) : fitsInt64 v ↔ -9223372036854775808 ≤ v ∧ v < 9223372036854775808 := by
  unfold fitsInt64; omega

theorem readInt32_write (i : Int) (h : -2147483648 ≤ i ∧ i < 2147483648) (rest : Bytes) :
    ∃ bs, writeInt32 i = some bs ∧ bs.length = 4 ∧ readInt32 (bs ++ rest) = some (i, rest) := by
  refine ⟨leBytes 4 (i % 4294967296).toNat, by simp [writeInt32, (fitsInt32_iff i).2 h], leBytes_length _ _, ?_⟩
  have hlen := leBytes_length 4 (i % 4294967296).toNat
  have hlt : (i % 4294967296).toNat < 4294967296 := by omega
  unfold readInt32
  rw [if_neg (by simp [hlen])]
  simp only [take_append_len _ _ 4 hlen, drop_append_len _ _ 4 hlen, leVal_leBytes4 _ hlt]
  congr 2
  split <;> omega

theorem readInt64_write (i : Int) (h : -9223372036854775808 ≤ i ∧ i < 9223372036854775808) (rest : Bytes) :
    ∃ bs, writeInt64 i = some bs ∧ bs.length = 8 ∧ readInt64 (bs ++ rest) = some (i, rest) := by
  refine ⟨leBytes 8 (i % 18446744073709551616).toNat, by simp [writeInt64, (fitsInt64_iff i).2 h], leBytes_length _ _, ?_⟩
  have hlen := leBytes_length 8 (i % 18446744073709551616).toNat
  have hlt : (i % 18446744073709551616).toNat < 18446744073709551616 := by omega
  unfold readInt64
  rw [if_neg (by simp [hlen])]
  simp only [take_append_len _ _ 8 hlen, drop_append_len _ _ 8 hlen, leVal_leBytes8 _ hlt]
  congr 2
  split <;> omega

theorem f64_roundtrip (f : Flt) (h : f.Valid64) : f64OfBits (f64Bits f) = f ∧ f64Bits f < 18446744073709551616 := by
  cases f with
  | fin b => simp only [Flt.Valid64] at h; simp [f64Bits, f64OfBits, h.1, h.2]
  | nan => decide
  | inf => decide
  | ninf => decide

theorem f32_roundtrip (f : Flt) (h : f.Valid32) : f32OfBits (f32Bits f) = f ∧ f32Bits f < 4294967296 := by
  cases f with
  | fin b => simp only [Flt.Valid32] at h; simp [f32Bits, f32OfBits, h.1, h.2]
  | nan => decide
  | inf => decide
  | ninf => decide

theorem readFloat64_write (f : Flt) (h : f.Valid64) (rest : Bytes) :
    readFloat64 (leBytes 8 (f64Bits f) ++ rest) = some (f, rest) := by
  have hlen := leBytes_length 8 (f64Bits f)
  obtain ⟨h1, h2⟩ := f64_roundtrip f h
  unfold readFloat64
  rw [if_neg (by simp [hlen])]
  simp only [take_append_len _ _ 8 hlen, drop_append_len _ _ 8 hlen, leVal_leBytes8 _ h2, h1]

theorem readFloat32_write (f : Flt) (h : f.Valid32) (rest : Bytes) :
    readFloat32 (leBytes 4 (f32Bits f) ++ rest) = some (f, rest) := by
  have hlen := leBytes_length 4 (f32Bits f)
  obtain ⟨h1, h2⟩ := f32_roundtrip f h
  unfold readFloat32
  rw [if_neg (by simp [hlen])]
  simp only [take_append_len _ _ 4 hlen, drop_append_len _ _ 4 hlen, leVal_leBytes4 _ h2, h1]

/-! ## UTF-8 -/

/-- the UTF-8 bytes of a scalar value -/
def utf8Bytes (c : Nat) : Bytes := (utf8Char c).getD []

theorem utf8Char_scalar (c : Nat) (h : c < 1114112 ∧ ¬ (55296 ≤ c ∧ c < 57344)) : utf8Char c = some (utf8Bytes c) := by
  unfold utf8Bytes utf8Char
  split
  · rfl
  split
  · rfl
  split
  · exfalso; omega
  split
  · rfl
  split
  · rfl
  · exfalso; omega

theorem utf8_scalar (s : Str) (h : ScalarStr s) : utf8 s = some (s.flatMap utf8Bytes) := by
  induction s with
  | nil => rfl
  | cons c s ih =>
    have hc := h c (by simp)
    simp [utf8, utf8Char_scalar c hc, ih (fun d hd => h d (by simp [hd]))]

theorem utf8Bytes_length (c : Nat) : (utf8Bytes c).length ≤ 4 := by
  unfold utf8Bytes utf8Char
  repeat' split
  all_goals simp

theorem utf8Bytes_pos (c : Nat) (h : c < 1114112 ∧ ¬ (55296 ≤ c ∧ c < 57344)) : 1 ≤ (utf8Bytes c).length := by
  rw [← Option.getD_some (a := utf8Bytes c) (b := []), ← utf8Char_scalar c h]
  unfold utf8Char
  split
  · simp
  split
  · simp
  split
  · exfalso; omega
  split
  · simp
  split
  · simp
  · exfalso; omega

theorem utf8Decode_char (c : Nat) (h : c < 1114112 ∧ ¬ (55296 ≤ c ∧ c < 57344)) (rest : Bytes) (f : Nat) :
    utf8Decode (f + 1) (utf8Bytes c ++ rest) = (utf8Decode f rest).map (c :: ·) := by
  unfold utf8Bytes utf8Char
  split
  · rename_i h1
    simp only [Option.getD_some, List.cons_append, List.nil_append, utf8Decode, h1, if_true]
  split
  · rename_i h1 h2
    simp only [Option.getD_some, List.cons_append, List.nil_append, utf8Decode]
    rw [if_neg (by omega), if_pos (by omega), if_pos (by omega)]
    have hval : (192 + c / 64 - 192) * 64 + (128 + c % 64 - 128) = c := by omega
    rw [hval]
  split
  · exfalso; omega
  split
  · rename_i h1 h2 h3 h4
    simp only [Option.getD_some, List.cons_append, List.nil_append, utf8Decode]
    have hval : (224 + c / 4096 - 224) * 4096 + (128 + c / 64 % 64 - 128) * 64 + (128 + c % 64 - 128) = c := by omega
    rw [if_neg (by omega), if_neg (by omega), if_pos (by omega), hval, if_pos (by omega)]
  split
  · rename_i h1 h2 h3 h4 h5
    simp only [Option.getD_some, List.cons_append, List.nil_append, utf8Decode]
    have hval : (240 + c / 262144 - 240) * 262144 + (128 + c / 4096 % 64 - 128) * 4096 + (128 + c / 64 % 64 - 128) * 64
        + (128 + c % 64 - 128) = c := by omega
    rw [if_neg (by omega), if_neg (by omega), if_neg (by omega), if_pos (by omega), hval, if_pos (by omega)]
  · exfalso; omega

theorem utf8Decode_bytes (s : Str) (h : ScalarStr s) : ∀ f, s.length + 1 ≤ f → utf8Decode f (s.flatMap utf8Bytes) = some s := by
  induction s with
  | nil => intro f hf; cases f with
    | zero => omega
    | succ f => rfl
  | cons c s ih =>
    intro f hf
    cases f with
    | zero => omega
    | succ f =>
      simp only [List.flatMap_cons]
      rw [utf8Decode_char c (h c (by simp)), ih (fun d hd => h d (by simp [hd])) f (by simp at hf; omega)]
      rfl

theorem flatMap_utf8_length (s : Str) (h : ScalarStr s) :
    s.length ≤ (s.flatMap utf8Bytes).length ∧ (s.flatMap utf8Bytes).length ≤ 4 * s.length := by
  induction s with
  | nil => simp
  | cons c s ih =>
    have h1 := utf8Bytes_length c
    have h2 := utf8Bytes_pos c (h c (by simp))
    have := ih (fun d hd => h d (by simp [hd]))
    simp only [List.flatMap_cons, List.length_append, List.length_cons]
    omega

theorem readStr_write (s : Str) (h : ScalarStr s) (hlen : 4 * s.length < 2147483648) (rest : Bytes) :
    ∃ bs, writeStr s = some bs ∧ readStr (bs ++ rest) = some (s, rest) := by
  obtain ⟨hl1, hl2⟩ := flatMap_utf8_length s h
  obtain ⟨lb, hw, hlb, hr⟩ := readInt32_write ((s.flatMap utf8Bytes).length : Int) (by omega) (s.flatMap utf8Bytes ++ rest)
  refine ⟨lb ++ s.flatMap utf8Bytes, by simp only [writeStr, utf8_scalar s h, hw, Option.map_some], ?_⟩
  unfold readStr
  rw [List.append_assoc, hr]
  have hn : ¬ (((s.flatMap utf8Bytes).length : Int) < 0) := by omega
  simp only [hn, if_false, Int.toNat_natCast]
  rw [take_append_len _ _ _ rfl, drop_append_len _ _ _ rfl, utf8Decode_bytes s h _ (by omega)]
  rfl

end HailVerif.ValueEnc

import HailVerif.Model.RangeRead
/-! Helper lemmas for C23 (`HailVerif.Props.C23`). -/
namespace HailVerif.RangeRead

/-! ### slices -/

theorem wanted_nil_of_le {blob : Blob} {start : Nat} (len : Option Nat) (h : blob.length ≤ start) :
    wanted blob start len = [] := by
  cases len <;> simp [wanted, slice, List.drop_eq_nil_of_le h]

theorem wanted_length_le (blob : Blob) (start : Nat) (len : Option Nat) : (wanted blob start len).length ≤ blob.length := by
  cases len <;> simp [wanted, slice] <;> omega

/-- what is left of the range after its first `k` bytes is again a range: the one `download_blob(offset + k, length - k)` asks for -/
theorem wanted_advance (blob : Blob) (o k : Nat) (len : Option Nat) :
    wanted blob (o + k) (len.map (· - k)) = (wanted blob o len).drop k := by
  cases len with
  | none => simp [wanted, List.drop_drop]
  | some l => simp [wanted, slice, List.drop_take, List.drop_drop]

/-! ### `pieceRead` -/

theorem pieceRead_flatten (ps : List Blob) (n : Nat) :
    ps.flatten = (pieceRead ps n).1 ++ (pieceRead ps n).2.flatten := by
  cases ps with
  | nil => simp [pieceRead]
  | cons p ps =>
    simp only [pieceRead]
    split
    · simp
    · split
      · simp
      · simp [← List.append_assoc]

theorem pieceRead_len (ps : List Blob) (n : Nat) : (pieceRead ps n).1.length ≤ n := by
  cases ps with
  | nil => simp [pieceRead]
  | cons p ps =>
    simp only [pieceRead]
    split
    · simp
    · split
      · simpa
      · simp; omega

theorem pieceRead_noEmpty {ps : List Blob} (n : Nat) (h : ∀ p ∈ ps, p ≠ []) : ∀ p ∈ (pieceRead ps n).2, p ≠ [] := by
  cases ps with
  | nil => simp [pieceRead]
  | cons p ps =>
    simp only [pieceRead]
    split
    · exact h
    · split
      · intro q hq; exact h q (List.mem_cons_of_mem _ hq)
      · intro q hq
        rcases List.mem_cons.mp hq with rfl | hq
        · intro hc
          have := congrArg List.length hc
          simp at this; omega
        · exact h q (List.mem_cons_of_mem _ hq)

theorem pieceRead_progress {ps : List Blob} {n : Nat} (h : ∀ p ∈ ps, p ≠ []) (hn : 1 ≤ n) (hne : ps.flatten ≠ []) :
    (pieceRead ps n).1 ≠ [] := by
  cases ps with
  | nil => simp at hne
  | cons p ps =>
    have hp : p ≠ [] := h p (List.mem_cons_self)
    simp only [pieceRead]
    split
    · omega
    · split
      · exact hp
      · intro hc
        have := congrArg List.length hc
        simp at this
        rcases this with h0 | h0
        · omega
        · exact hp h0

theorem pieceRead_single {ps : List Blob} (n : Nat) (h : ps.length ≤ 1) :
    (pieceRead ps n).1 = ps.flatten.take n ∧ (pieceRead ps n).2.length ≤ 1 := by
  match ps, h with
  | [], _ => simp [pieceRead]
  | [p], _ =>
    simp only [pieceRead, List.flatten_cons, List.flatten_nil, List.append_nil]
    split
    · subst_vars; simp
    · split
      · next hle => simp [List.take_of_length_le hle]
      · simp

/-! ### file-like streams -/

/-- what a file-like stream can still deliver -/
def FileSt.content (f : FileSt) : Blob :=
  match f.limit with
  | none => f.pieces.flatten
  | some lim => f.pieces.flatten.take (lim - f.offset)

/-- no empty piece is pending; the wrapper's `assert self.offset <= self.limit` holds -/
def FileSt.Ok (f : FileSt) : Prop := (∀ p ∈ f.pieces, p ≠ []) ∧ ∀ lim, f.limit = some lim → f.offset ≤ lim

/-- the underlying `read(n)` never returns short (a regular file), or there is no wrapper -/
def FileSt.Whole (f : FileSt) : Prop := f.limit = none ∨ f.pieces.length ≤ 1

theorem FileSt.rd_spec (f : FileSt) (n : Option Nat) (h : f.Ok) :
    f.content = (f.rd n).1 ++ (f.rd n).2.content ∧ (f.rd n).2.Ok ∧ (f.rd n).2.limit = f.limit := by
  obtain ⟨ps, off, lim⟩ := f
  obtain ⟨hne, hoff⟩ := h
  cases lim with
  | none =>
    cases n with
    | none => simp [FileSt.rd, FileSt.content, FileSt.Ok]
    | some n =>
      refine ⟨?_, ⟨?_, ?_⟩, rfl⟩
      · simpa [FileSt.rd, FileSt.content] using pieceRead_flatten ps n
      · simpa [FileSt.rd] using pieceRead_noEmpty n hne
      · simp [FileSt.rd]
  | some lim =>
    have hoff' : off ≤ lim := hoff lim rfl
    have key : ∀ k, k ≤ lim - off →
        ps.flatten.take (lim - off) =
          (pieceRead ps k).1 ++ (pieceRead ps k).2.flatten.take (lim - (off + (pieceRead ps k).1.length)) ∧
        off + (pieceRead ps k).1.length ≤ lim := by
      intro k hk
      have hfl := pieceRead_flatten ps k
      have hlen := pieceRead_len ps k
      refine ⟨?_, by omega⟩
      conv => lhs; rw [hfl]
      rw [List.take_append]
      have : lim - off - (pieceRead ps k).1.length = lim - (off + (pieceRead ps k).1.length) := by omega
      rw [List.take_of_length_le (by omega), this]
    cases n with
    | none =>
      obtain ⟨h1, h2⟩ := key (lim - off) (Nat.le_refl _)
      refine ⟨by simpa [FileSt.rd, FileSt.content] using h1, ⟨?_, ?_⟩, rfl⟩
      · simpa [FileSt.rd] using pieceRead_noEmpty _ hne
      · intro l hl; simp [FileSt.rd] at hl ⊢; omega
    | some n =>
      obtain ⟨h1, h2⟩ := key (min (lim - off) n) (Nat.min_le_left _ _)
      refine ⟨by simpa [FileSt.rd, FileSt.content] using h1, ⟨?_, ?_⟩, rfl⟩
      · simpa [FileSt.rd] using pieceRead_noEmpty _ hne
      · intro l hl; simp [FileSt.rd] at hl ⊢; omega

theorem FileSt.rd_len (f : FileSt) (n : Nat) : (f.rd (some n)).1.length ≤ n := by
  obtain ⟨ps, off, lim⟩ := f
  cases lim with
  | none => simpa [FileSt.rd] using pieceRead_len ps n
  | some lim =>
    simp only [FileSt.rd]
    have := pieceRead_len ps (min (lim - off) n)
    omega

theorem FileSt.rd_progress (f : FileSt) (n : Nat) (h : f.Ok) (hn : 1 ≤ n) (hne : f.content ≠ []) :
    (f.rd (some n)).1 ≠ [] := by
  obtain ⟨ps, off, lim⟩ := f
  obtain ⟨hp, hoff⟩ := h
  cases lim with
  | none => simpa [FileSt.rd] using pieceRead_progress hp hn (by simpa [FileSt.content] using hne)
  | some lim =>
    simp only [FileSt.rd]
    simp only [FileSt.content] at hne
    have h1 : 1 ≤ lim - off := by
      rcases Nat.eq_zero_or_pos (lim - off) with h0 | h0
      · simp [h0] at hne
      · exact h0
    have h2 : ps.flatten ≠ [] := by intro hc; simp [hc] at hne
    exact pieceRead_progress hp (by omega) h2

theorem FileSt.rd_whole (f : FileSt) (n : Option Nat) (h : f.Whole) : (f.rd n).2.Whole := by
  obtain ⟨ps, off, lim⟩ := f
  cases lim with
  | none => cases n <;> simp [FileSt.rd, FileSt.Whole]
  | some lim =>
    rcases h with h | h
    · simp at h
    · right
      simp only [FileSt.rd]
      exact (pieceRead_single _ h).2

/-- `read(-1)` on a stream whose underlying reads are never short delivers everything that is left -/
theorem FileSt.rd_all (f : FileSt) (h : f.Whole) : (f.rd none).1 = f.content := by
  obtain ⟨ps, off, lim⟩ := f
  cases lim with
  | none => simp [FileSt.rd, FileSt.content]
  | some lim =>
    rcases h with h | h
    · simp at h
    · simp only [FileSt.rd, FileSt.content]
      exact (pieceRead_single _ h).1

theorem FileSt.exactlyLoop_some : ∀ (fuel : Nat) (f : FileSt) (n : Nat) (acc out : Blob) (f' : FileSt), f.Ok →
    FileSt.exactlyLoop fuel f n acc = some (out, f') →
    ∃ b, out = acc ++ b ∧ b.length = n ∧ f.content = b ++ f'.content ∧ f'.Ok ∧ f'.limit = f.limit ∧ (f.Whole → f'.Whole) := by
  intro fuel
  induction fuel with
  | zero =>
    intro f n acc out f' hok h
    cases n with
    | zero => simp [FileSt.exactlyLoop] at h; obtain ⟨rfl, rfl⟩ := h; exact ⟨[], by simp, rfl, by simp, hok, rfl, id⟩
    | succ n => simp [FileSt.exactlyLoop] at h
  | succ fuel ih =>
    intro f n acc out f' hok h
    cases n with
    | zero => simp [FileSt.exactlyLoop] at h; obtain ⟨rfl, rfl⟩ := h; exact ⟨[], by simp, rfl, by simp, hok, rfl, id⟩
    | succ n =>
      simp only [FileSt.exactlyLoop] at h
      split at h
      · simp at h
      · next hne =>
        obtain ⟨hc, hok', hlim⟩ := FileSt.rd_spec f (some (n + 1)) hok
        have hlen := FileSt.rd_len f (n + 1)
        obtain ⟨b, rfl, hbl, hcont, hok'', hlim', hwh⟩ := ih _ _ _ _ _ hok' h
        have hpos : 1 ≤ (f.rd (some (n + 1))).1.length := by
          rcases Nat.eq_zero_or_pos (f.rd (some (n + 1))).1.length with h0 | h0
          · exact absurd (List.eq_nil_of_length_eq_zero h0) hne
          · exact h0
        refine ⟨(f.rd (some (n + 1))).1 ++ b, by simp, ?_, ?_, hok'', hlim'.trans hlim, fun hw => hwh (FileSt.rd_whole f _ hw)⟩
        · simp [hbl]; omega
        · rw [hc, hcont]; simp

theorem FileSt.exactlyLoop_none : ∀ (fuel : Nat) (f : FileSt) (n : Nat) (acc : Blob), f.Ok → n ≤ fuel →
    FileSt.exactlyLoop fuel f n acc = none → f.content.length < n := by
  intro fuel
  induction fuel with
  | zero =>
    intro f n acc hok hn h
    have : n = 0 := by omega
    subst this
    simp [FileSt.exactlyLoop] at h
  | succ fuel ih =>
    intro f n acc hok hn h
    cases n with
    | zero => simp [FileSt.exactlyLoop] at h
    | succ n =>
      simp only [FileSt.exactlyLoop] at h
      split at h
      · next he =>
        have : f.content = [] := by
          apply Classical.byContradiction
          intro hc
          exact FileSt.rd_progress f (n + 1) hok (by omega) hc he
        simp [this]
      · next hne =>
        obtain ⟨hc, hok', _⟩ := FileSt.rd_spec f (some (n + 1)) hok
        have hlen := FileSt.rd_len f (n + 1)
        have hpos : 1 ≤ (f.rd (some (n + 1))).1.length := by
          rcases Nat.eq_zero_or_pos (f.rd (some (n + 1))).1.length with h0 | h0
          · exact absurd (List.eq_nil_of_length_eq_zero h0) hne
          · exact h0
        have := ih _ _ _ hok' (by omega) h
        rw [hc]; simp; omega

/-! ### `AzureReadableStream` -/

theorem fill_spec : ∀ (cs : List Blob) (buf : Blob) (n : Nat),
    (fill buf cs n).1 ++ (fill buf cs n).2.flatten = buf ++ cs.flatten ∧
      ((fill buf cs n).1.length < n → (fill buf cs n).2 = [])
  | [], buf, n => by simp [fill]
  | c :: cs, buf, n => by
    unfold fill
    split
    · have := fill_spec cs (buf ++ c) n
      simpa [List.append_assoc] using this
    · next h => exact ⟨by simp, fun h' => absurd h' h⟩

/-- `r` = the bytes the stream still owes its reader: always the range `download_blob(_offset, _length)` would deliver now, and,
while a downloader is open, what is buffered plus what the downloader still holds -/
def AzGood (blob : Blob) (a : AzSt) (r : Blob) : Prop :=
  if a.eof then r = []
  else r = wanted blob a.offset a.length ∧
    match a.chunks with
    | none => a.buffer = []
    | some cs => r = a.buffer ++ cs.flatten

theorem az_go_spec (buf : Blob) (cs : List Blob) (n : Nat) :
    let r := fill buf cs n
    r.1.take n = (buf ++ cs.flatten).take n ∧
      ((r.1.take n).length < n → r.1.take n = buf ++ cs.flatten) ∧
      (¬ (r.1.take n).length < n → buf ++ cs.flatten = r.1.take n ++ (r.1.drop n ++ r.2.flatten)) := by
  intro r
  obtain ⟨h1, h2⟩ := fill_spec cs buf n
  have hr : r = fill buf cs n := rfl
  rw [← hr] at h1 h2
  have hshort : r.1.length < n → r.1 = buf ++ cs.flatten := by
    intro hl; have := h2 hl; rw [this] at h1; simpa using h1
  refine ⟨?_, ?_, ?_⟩
  · by_cases hl : r.1.length < n
    · rw [hshort hl]
    · rw [← h1, List.take_append_of_le_length (by omega)]
  · intro hl
    have hl' : r.1.length < n := by
      rw [List.length_take] at hl; omega
    rw [List.take_of_length_le (by omega)]
    exact hshort hl'
  · intro _
    rw [← h1, ← List.append_assoc, List.take_append_drop]

theorem az_read_spec (ch : Blob → List Blob) (hch : ∀ b, (ch b).flatten = b) (blob : Blob) (a : AzSt) (r : Blob)
    (hg : AzGood blob a r) (n : Nat) :
    match a.read ch blob n with
    | .ok b a' => b = r.take n ∧ AzGood blob a' (r.drop n)
    | .eofErr _ => r = []
    | .http416 _ => False := by
  unfold AzGood at hg
  unfold AzSt.read
  by_cases he : a.eof = true
  · simp only [he, if_true] at hg ⊢
    subst hg
    simp [AzGood, he]
  · simp only [he] at hg ⊢
    simp only [Bool.false_eq_true, if_false]
    obtain ⟨hw, hg⟩ := hg
    have core : ∀ (cs : List Blob) (log : List (Nat × Option Nat)), r = a.buffer ++ cs.flatten →
        match (let r' := fill a.buffer cs n
               let data := r'.1.take n
               let len' := a.length.map (· - data.length)
               if data.length < n ∨ len' = some 0 then
                 AzRes.ok data { offset := a.offset + data.length, length := len', buffer := [], chunks := none, eof := true, log := log }
               else
                 AzRes.ok data { offset := a.offset + data.length, length := len', buffer := r'.1.drop n, chunks := some r'.2,
                                 eof := false, log := log }) with
        | .ok b a' => b = r.take n ∧ AzGood blob a' (r.drop n)
        | .eofErr _ => r = []
        | .http416 _ => False := by
      intro cs log hr
      obtain ⟨h1, h2, h3⟩ := az_go_spec a.buffer cs n
      have hdata : (fill a.buffer cs n).1.take n = r.take n := by rw [hr]; exact h1
      by_cases hcond : ((fill a.buffer cs n).1.take n).length < n ∨
          a.length.map (· - ((fill a.buffer cs n).1.take n).length) = some 0
      · simp only [hcond, if_true]
        refine ⟨hdata, ?_⟩
        have hnil : r.drop n = [] := by
          rcases hcond with hlt | hz
          · have := h2 hlt
            have hlen : r.length < n := by rw [hr, ← this]; exact hlt
            exact List.drop_eq_nil_of_le (Nat.le_of_lt hlen)
          · -- the whole requested length has been handed out
            cases hl : a.length with
            | none => rw [hl] at hz; simp at hz
            | some l =>
              rw [hl] at hz
              simp only [Option.map, Option.some.injEq] at hz
              have hrl : r.length ≤ l := by
                rw [hw, hl]; simp [wanted, slice]; omega
              have hdl : ((fill a.buffer cs n).1.take n).length ≤ n := by simp [List.length_take]; omega
              rw [hdata] at hz hdl
              exact List.drop_eq_nil_of_le (by omega)
        simp [AzGood, hnil]
      · simp only [hcond, if_false]
        refine ⟨hdata, ?_⟩
        have hlt : ¬ ((fill a.buffer cs n).1.take n).length < n := fun h => hcond (Or.inl h)
        have := h3 hlt
        have hlen : ((fill a.buffer cs n).1.take n).length = n := by
          rw [List.length_take] at hlt ⊢; omega
        simp only [AzGood, Bool.false_eq_true, if_false]
        refine ⟨?_, ?_⟩
        · rw [hlen, wanted_advance, ← hw]
        · rw [hr, this, List.drop_append_of_le_length (by omega), List.drop_of_length_le (by omega)]
          simp
    cases hc : a.chunks with
    | some cs =>
      simp only [hc] at hg
      exact core cs a.log hg
    | none =>
      simp only [hc] at hg
      simp only [azDownload]
      by_cases ho : a.offset < blob.length
      · simp only [ho, if_true]
        apply core
        rw [hg, hch, hw]; simp
      · simp only [ho, if_false]
        rw [hw]; exact wanted_nil_of_le _ (by omega)

/-- `read(-1)` hands out everything that is left, in every state of the stream -/
theorem az_readAll_spec (blob : Blob) (a : AzSt) (r : Blob) (hg : AzGood blob a r) :
    ∃ a', a.readAll blob = .ok r a' ∧ AzGood blob a' [] := by
  unfold AzGood at hg
  unfold AzSt.readAll
  by_cases he : a.eof = true
  · simp only [he, if_true] at hg ⊢
    subst hg
    exact ⟨a, rfl, by simp [AzGood, he]⟩
  · simp only [he] at hg ⊢
    obtain ⟨hw, _⟩ := hg
    simp only [Bool.false_eq_true, if_false, azDownload]
    by_cases ho : a.offset < blob.length
    · simp only [ho, if_true]
      exact ⟨_, by rw [hw], by simp [AzGood]⟩
    · simp only [ho, if_false]
      have : r = [] := by rw [hw]; exact wanted_nil_of_le _ (by omega)
      exact ⟨_, by rw [this], by simp [AzGood]⟩

/-! ### streams -/

def Stream.isAzure : Stream → Bool
  | .azure _ => true
  | _ => false

/-- `r` = what the stream still has to deliver.  With `w = true` the file-like streams additionally never read short
(`FileSt.Whole`), which is what makes a single `read(-1)` complete. -/
def Good (w : Bool) (blob : Blob) : Stream → Blob → Prop
  | .empty, r => r = []
  | .file f, r => f.Ok ∧ f.content = r ∧ (w = true → f.Whole)
  | .azure a, r => AzGood blob a r

theorem step_spec (w : Bool) (ch : Blob → List Blob) (hch : ∀ b, (ch b).flatten = b) (blob : Blob) (s : Stream) (r : Blob)
    (c : Call) (hg : Good w blob s r) :
    match step ch blob s c with
    | .ok b s' => ∃ r', r = b ++ r' ∧ Good w blob s' r' ∧ s'.isAzure = s.isAzure ∧
        (∀ n, c = .read n → b.length ≤ n ∧ (1 ≤ n → b = [] → r = [])) ∧
        (∀ n, c = .exactly n → b.length = n) ∧ (c = .readAll → w = true → r' = [])
    | .eof _ => (∃ n, c = .exactly n ∧ r.length < n) ∨ r = []
    | .http416 _ => False := by
  cases s with
  | empty =>
    simp only [Good] at hg
    subst hg
    cases c with
    | read n => simp [step, Good]
    | readAll => simp [step, Good]
    | exactly n =>
      cases n with
      | zero => simp [step, Good]
      | succ n => simp [step]
  | file f =>
    obtain ⟨hok, hcont, hw⟩ := hg
    cases c with
    | read n =>
      simp only [step]
      obtain ⟨h1, h2, _⟩ := FileSt.rd_spec f (some n) hok
      refine ⟨_, by rw [← hcont]; exact h1, ⟨h2, rfl, fun h => FileSt.rd_whole f _ (hw h)⟩, rfl, ?_, by simp, by simp⟩
      intro m hm
      cases hm
      refine ⟨FileSt.rd_len f n, fun hn hb => ?_⟩
      apply Classical.byContradiction
      intro hne
      exact FileSt.rd_progress f n hok hn (by rw [hcont]; exact hne) hb
    | readAll =>
      simp only [step]
      obtain ⟨h1, h2, _⟩ := FileSt.rd_spec f none hok
      refine ⟨_, by rw [← hcont]; exact h1, ⟨h2, rfl, fun h => FileSt.rd_whole f _ (hw h)⟩, rfl, by simp, by simp, ?_⟩
      intro _ hwt
      have := FileSt.rd_all f (hw hwt)
      rw [this] at h1
      have hl := congrArg List.length h1
      rw [List.length_append] at hl
      exact List.eq_nil_of_length_eq_zero (by omega)
    | exactly n =>
      simp only [step]
      cases he : f.exactly n with
      | none =>
        simp only
        left
        exact ⟨n, rfl, by rw [← hcont]; exact FileSt.exactlyLoop_none n f n [] hok (Nat.le_refl _) he⟩
      | some p =>
        obtain ⟨b, f'⟩ := p
        simp only
        obtain ⟨b', hb, hbl, hc', hok', _, hwh⟩ := FileSt.exactlyLoop_some n f n [] b f' hok he
        simp at hb
        subst hb
        refine ⟨_, by rw [← hcont]; exact hc', ⟨hok', rfl, fun h => hwh (hw h)⟩, rfl, by simp, ?_, by simp⟩
        intro m hm; cases hm; exact hbl
  | azure a =>
    simp only [Good] at hg
    cases c with
    | readAll =>
      simp only [step]
      obtain ⟨a', ha, hg'⟩ := az_readAll_spec blob a r hg
      rw [ha]
      exact ⟨[], by simp, hg', rfl, by simp, by simp, fun _ _ => rfl⟩
    | read n =>
      simp only [step]
      have := az_read_spec ch hch blob a r hg n
      cases hr : a.read ch blob n with
      | ok b a' =>
        rw [hr] at this
        obtain ⟨hb, hg'⟩ := this
        simp only
        refine ⟨r.drop n, by rw [hb, List.take_append_drop], hg', rfl, ?_, by simp, by simp⟩
        intro m hm; cases hm
        refine ⟨by rw [hb, List.length_take]; omega, fun hn hnil => ?_⟩
        rw [hb] at hnil
        rcases List.take_eq_nil_iff.mp hnil with h0 | h0
        · omega
        · exact h0
      | eofErr a' => rw [hr] at this; simp only; right; exact this
      | http416 a' => rw [hr] at this; exact this
    | exactly n =>
      simp only [step]
      have := az_read_spec ch hch blob a r hg n
      cases hr : a.read ch blob n with
      | ok b a' =>
        rw [hr] at this
        obtain ⟨hb, hg'⟩ := this
        simp only
        by_cases hl : b.length = n
        · simp only [hl, if_true]
          refine ⟨r.drop n, by rw [hb, List.take_append_drop], hg', rfl, by simp, ?_, by simp⟩
          intro m hm; cases hm; first | exact hl | rfl
        · simp only [hl, if_false]
          left
          refine ⟨n, rfl, ?_⟩
          rw [hb, List.length_take] at hl
          omega
      | eofErr a' => rw [hr] at this; simp only; right; exact this
      | http416 a' => rw [hr] at this; exact this

theorem drainLoop_spec (w : Bool) (ch : Blob → List Blob) (hch : ∀ b, (ch b).flatten = b) (blob : Blob) (n : Nat) :
    ∀ (fuel : Nat) (s : Stream) (r acc : Blob), Good w blob s r → r.length < fuel →
    ∀ st out s', drainLoop ch blob n fuel s acc = (st, out, s') →
      ∃ d r', out = acc ++ d ∧ r = d ++ r' ∧
        ((st = .ok ∧ Good w blob s' r' ∧ s'.isAzure = s.isAzure ∧ (1 ≤ n → r' = [])) ∨ st = .eof) := by
  intro fuel
  induction fuel with
  | zero => intro s r acc _ h; omega
  | succ fuel ih =>
    intro s r acc hg hfuel st out s' h
    have hs := step_spec w ch hch blob s r (.read n) hg
    simp only [drainLoop] at h
    cases hstep : step ch blob s (.read n) with
    | ok b s1 =>
      rw [hstep] at hs h
      obtain ⟨r', hr, hg', haz, hread, _, _⟩ := hs
      obtain ⟨hlen, hnil⟩ := hread n rfl
      cases b with
      | nil =>
        simp only at h
        obtain ⟨rfl, rfl, rfl⟩ := h
        refine ⟨[], r', by simp, by simpa using hr, Or.inl ⟨rfl, hg', haz, fun hn => ?_⟩⟩
        have := hnil hn rfl
        rw [this] at hr
        simpa using hr.symm
      | cons x xs =>
        simp only at h
        have hl : r'.length < fuel := by
          have := congrArg List.length hr
          simp at this; omega
        obtain ⟨d, r'', ho, hr', hres⟩ := ih s1 r' (acc ++ x :: xs) hg' hl st out s' h
        refine ⟨x :: xs ++ d, r'', by rw [ho]; simp, by rw [hr, hr']; simp, ?_⟩
        rcases hres with ⟨h1, h2, h3, h4⟩ | h1
        · exact Or.inl ⟨h1, h2, h3.trans haz, h4⟩
        · exact Or.inr h1
    | eof s1 =>
      rw [hstep] at h
      simp only at h
      obtain ⟨rfl, rfl, rfl⟩ := h
      exact ⟨[], r, by simp, by simp, Or.inr rfl⟩
    | http416 s1 => rw [hstep] at hs; exact absurd hs id

theorem run_spec (w : Bool) (ch : Blob → List Blob) (hch : ∀ b, (ch b).flatten = b) (blob : Blob) :
    ∀ (ops : List Op) (s : Stream) (r acc : Blob), Good w blob s r → r.length ≤ blob.length →
    ∀ st out s', run ch blob s ops acc = (st, out, s') →
      ∃ d r', out = acc ++ d ∧ r = d ++ r' ∧ ((st = .ok ∧ Good w blob s' r' ∧ s'.isAzure = s.isAzure) ∨ st = .eof) := by
  intro ops
  induction ops with
  | nil =>
    intro s r acc hg _ st out s' h
    simp only [run] at h
    obtain ⟨rfl, rfl, rfl⟩ := h
    exact ⟨[], r, by simp, by simp, Or.inl ⟨rfl, hg, rfl⟩⟩
  | cons op ops ih =>
    intro s r acc hg hlen st out s' h
    cases op with
    | drain n =>
      simp only [run] at h
      cases hd : drainLoop ch blob n (blob.length + 1) s acc with
      | mk st1 rest =>
        obtain ⟨out1, s1⟩ := rest
        obtain ⟨d, r', ho, hr, hres⟩ := drainLoop_spec w ch hch blob n _ s r acc hg (by omega) st1 out1 s1 hd
        rw [hd] at h
        rcases hres with ⟨rfl, hg', haz, _⟩ | rfl
        · simp only at h
          have hl : r'.length ≤ blob.length := by
            have := congrArg List.length hr; simp at this; omega
          obtain ⟨d2, r2, ho2, hr2, hres2⟩ := ih s1 r' out1 hg' hl st out s' h
          refine ⟨d ++ d2, r2, by rw [ho2, ho]; simp, by rw [hr, hr2]; simp, ?_⟩
          rcases hres2 with ⟨h1, h2, h3⟩ | h1
          · exact Or.inl ⟨h1, h2, h3.trans haz⟩
          · exact Or.inr h1
        · simp only at h
          obtain ⟨rfl, rfl, rfl⟩ := h
          exact ⟨d, r', ho, hr, Or.inr rfl⟩
    | call c =>
      simp only [run] at h
      have hs := step_spec w ch hch blob s r c hg
      cases hstep : step ch blob s c with
      | ok b s1 =>
        rw [hstep] at hs h
        obtain ⟨r', hr, hg', haz, _, _, _⟩ := hs
        simp only at h
        have hl : r'.length ≤ blob.length := by
          have := congrArg List.length hr; simp at this; omega
        obtain ⟨d2, r2, ho2, hr2, hres2⟩ := ih s1 r' (acc ++ b) hg' hl st out s' h
        refine ⟨b ++ d2, r2, by rw [ho2]; simp, by rw [hr, hr2]; simp, ?_⟩
        rcases hres2 with ⟨h1, h2, h3⟩ | h1
        · exact Or.inl ⟨h1, h2, h3.trans haz⟩
        · exact Or.inr h1
      | eof s1 =>
        rw [hstep] at h
        simp only at h
        obtain ⟨rfl, rfl, rfl⟩ := h
        exact ⟨[], r, by simp, by simp, Or.inr rfl⟩
      | http416 s1 => rw [hstep] at hs; exact absurd hs id

theorem run_append (ch : Blob → List Blob) (blob : Blob) : ∀ (pre post : List Op) (s : Stream) (acc : Blob),
    run ch blob s (pre ++ post) acc =
      match run ch blob s pre acc with
      | (.ok, acc', s') => run ch blob s' post acc'
      | r => r := by
  intro pre
  induction pre with
  | nil => intro post s acc; simp [run]
  | cons op pre ih =>
    intro post s acc
    cases op with
    | drain n =>
      simp only [List.cons_append, run]
      cases hd : drainLoop ch blob n (blob.length + 1) s acc with
      | mk st1 rest =>
        obtain ⟨out1, s1⟩ := rest
        cases st1 <;> simp only [ih]
    | call c =>
      simp only [List.cons_append, run]
      cases hstep : step ch blob s c with
      | ok b s1 => simp only [ih]
      | eof s1 => rfl
      | http416 s1 => rfl

/-- the last call of a pattern is a drain loop with `n ≥ 1`, or a `read(-1)` on a stream that never reads short -/
theorem run_last_complete (w : Bool) (ch : Blob → List Blob) (hch : ∀ b, (ch b).flatten = b) (blob : Blob) (s : Stream) (r acc : Blob)
    (last : Op) (hg : Good w blob s r) (hlen : r.length ≤ blob.length)
    (hlast : (last = .call .readAll ∧ w = true) ∨ ∃ n, 1 ≤ n ∧ last = .drain n)
    (out : Blob) (s' : Stream) (h : run ch blob s [last] acc = (.ok, out, s')) : out = acc ++ r := by
  rcases hlast with ⟨rfl, hw⟩ | ⟨n, hn, rfl⟩
  · simp only [run] at h
    have hs := step_spec w ch hch blob s r .readAll hg
    cases hstep : step ch blob s .readAll with
    | ok b s1 =>
      rw [hstep] at hs h
      obtain ⟨r', hr, _, _, _, _, hall⟩ := hs
      simp only at h
      obtain ⟨_, rfl, _⟩ := h
      rw [hr, hall rfl hw]; simp
    | eof s1 => rw [hstep] at h; simp at h
    | http416 s1 => rw [hstep] at h; simp at h
  · simp only [run] at h
    cases hd : drainLoop ch blob n (blob.length + 1) s acc with
    | mk st1 rest =>
      obtain ⟨out1, s1⟩ := rest
      obtain ⟨d, r', ho, hr, hres⟩ := drainLoop_spec w ch hch blob n _ s r acc hg (by omega) st1 out1 s1 hd
      rw [hd] at h
      rcases hres with ⟨rfl, _, _, hnil⟩ | rfl
      · simp only at h
        obtain ⟨_, rfl, _⟩ := h
        rw [ho, hr, hnil hn]; simp
      · simp at h

/-! ### `open_from` -/

theorem noEmpty_flatten (ps : List Blob) : (noEmpty ps).flatten = ps.flatten := by
  induction ps with
  | nil => rfl
  | cons p ps ih =>
    unfold noEmpty at ih ⊢
    by_cases hp : p = []
    · subst hp; simpa [List.filter] using ih
    · simp only [ne_eq, decide_not] at ih
      simp [List.filter, hp, ih]

theorem noEmpty_ok (ps : List Blob) : ∀ p ∈ noEmpty ps, p ≠ [] := by
  intro p hp
  have := (List.mem_filter.mp hp).2
  simpa using this

theorem piecesAux_flatten (c : Nat) : ∀ (fuel : Nat) (b : Blob), 1 ≤ c → b.length ≤ fuel → (piecesAux c fuel b).flatten = b := by
  intro fuel
  induction fuel with
  | zero => intro b _ h; have : b = [] := List.eq_nil_of_length_eq_zero (by omega); simp [piecesAux, this]
  | succ fuel ih =>
    intro b hc h
    unfold piecesAux
    split
    · next hb => simp [hb]
    · next hb =>
      have hpos : 1 ≤ b.length := by
        rcases Nat.eq_zero_or_pos b.length with h0 | h0
        · exact absurd (List.eq_nil_of_length_eq_zero h0) hb
        · exact h0
      rw [List.flatten_cons, ih (b.drop c) hc (by simp; omega), List.take_append_drop]

theorem pieces_flatten (c : Nat) (b : Blob) : (pieces c b).flatten = b := by
  unfold pieces
  split
  · split
    · next h => simp [h]
    · simp
  · next hc => exact piecesAux_flatten c _ b (by omega) (Nat.le_refl _)

theorem openFrom_spec (ch : Blob → List Blob) (hch : ∀ b, (ch b).flatten = b) (be : Backend) (blob : Blob) (start : Nat)
    (len : Option Nat) :
    match openFrom ch be blob start len with
    | .stream s _ => Good true blob s (wanted blob start len) ∧ (s.isAzure = true → be = .azure) ∧
        (∀ a, s = .azure a → a.eof = false ∧ a.chunks = none ∧ a.offset = start)
    | .eofAtOpen _ => blob.length ≤ start
    | .assertion => False := by
  unfold openFrom
  by_cases h0 : len = some 0
  · subst h0
    simp [Good, wanted, slice, Stream.isAzure]
  · simp only [h0, if_false]
    have hspec : ∃ rr, rangeSpec start len = some rr ∧
        serve blob rr = if start < blob.length then .part (wanted blob start len) else .unsat := by
      cases len with
      | none => exact ⟨_, rfl, by simp [serve, wanted]⟩
      | some l =>
        have hl : 1 ≤ l := by
          rcases Nat.eq_zero_or_pos l with h | h
          · subst h; exact absurd rfl h0
          · exact h
        refine ⟨⟨start, some (start + l - 1)⟩, by simp [rangeSpec, hl], ?_⟩
        have h1 : ¬ (start + l - 1 < start) := by omega
        have h2 : start + l - 1 - start + 1 = l := by omega
        simp [serve, wanted, h1, h2]
    cases be with
    | localfs =>
      refine ⟨⟨⟨noEmpty_ok _, ?_⟩, ?_, ?_⟩, by simp [Stream.isAzure], by simp⟩
      · intro lim _; exact Nat.zero_le _
      · cases len with
        | none => simp [FileSt.content, noEmpty_flatten, wanted]
        | some l => simp [FileSt.content, noEmpty_flatten, wanted, slice]
      · intro _; right
        exact Nat.le_trans (List.length_filter_le _ _) (by simp)
    | gs =>
      obtain ⟨rr, h1, h2⟩ := hspec
      simp only [h1, h2]
      by_cases hs : start < blob.length
      · simp only [hs, if_true]
        refine ⟨⟨⟨noEmpty_ok _, by simp⟩, by simp [FileSt.content, noEmpty_flatten], fun _ => Or.inl rfl⟩,
          by simp [Stream.isAzure], by simp⟩
      · simp only [hs, if_false]; omega
    | s3 =>
      obtain ⟨rr, h1, h2⟩ := hspec
      simp only [h1, h2]
      by_cases hs : start < blob.length
      · simp only [hs, if_true]
        refine ⟨⟨⟨noEmpty_ok _, by simp⟩, by simp [FileSt.content, noEmpty_flatten, hch], fun _ => Or.inl rfl⟩,
          by simp [Stream.isAzure], by simp⟩
      · simp only [hs, if_false]; omega
    | azure =>
      refine ⟨by simp [Good, AzGood], by simp, ?_⟩
      intro a ha; cases ha; simp

end HailVerif.RangeRead

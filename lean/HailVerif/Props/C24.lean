import HailVerif.Proofs.RateLimit
/-!
# C24 — Rate limiter never exceeds its rate

Subject: `HailVerif.RateLimit.step/run`, the model of `RateLimiter.__aenter__`
(hail/python/hailtop/utils/rate_limiter.py) over an integer clock, whose steps are the atomic blocks between awaits
(`attempt i` = one iteration of the `while True:` body by task `i`, `tick dt` = time passes, `exit/fail/cancel i` = an
admitted task leaves the `async with` body normally / by an exception / by cancellation, `cancel i` of a task sleeping in
`__aenter__` = it stops waiting); tied to the real class by `harness/props/c24.py` (real class under the virtual clock,
admission times compared, with bodies, exceptions and cancel injection).

The theorems quantify over ALL op lists (= all arrival times, all numbers of concurrent entrants, all orders in which
tasks that wake at the same instant re-check, arbitrarily LATE wake-ups (a sleeper's `attempt` may come at any time ≥ the
requested wake-up time — timers fire late when the loop is busy — and the admission is stamped with that real time), all
body durations, and every way a body can end
— including cancellation of admitted and of still-waiting tasks), every start time, every `count` and every window
length `W`.  `s.log` is the list of all admission times: an admission counts whatever happens to its body afterwards.

Which half-open direction?  BOTH hold: no window `(x - W, x]` and no window `[x, x + W)` ever contains more than
`count` admissions.  Only the CLOSED window `[x, x + W]` can contain `count + 1` (the eviction test is
`items[0] <= now - W`, so an entry admitted exactly `W` ago no longer counts) — shown by an example below; the property
speaks about half-open windows, so this is not a violation.
-/
namespace HailVerif.C24
open HailVerif.RateLimit

variable (c : Cfg) (t0 : Int) (ops : List Op) (s : State)

/-- The rate is never exceeded: in every admission trace the model can produce, every half-open window of the
configured length — open on the left or open on the right — contains at most `count` admissions. -/
theorem window_bound (h : run c (init t0) ops = .ok s) (x : Int) :
    countOC s.log (x - c.window) x ≤ c.count ∧ countCO s.log x (x + c.window) ≤ c.count :=
  let i := run_inv c ops _ s (init_inv c t0) h
  ⟨i.boundOC x, i.boundCO x⟩

/-- Admission happens as soon as possible, in the two places where the code decides:
1. an iteration of the loop body at time `now` admits if and only if the window `(now - W, now]` holds fewer than `count`
   admissions (it never refuses when there is room, and it changes the trace in no other way);
2. while a task sleeps there is no room: at every instant `t` from the moment it went to sleep up to (excluding) the
   moment its sleep ends, the window `(t - W, t]` holds at least `count` admissions — so the sleep is not longer than
   necessary, and it has positive length.
Together: a task that runs when its sleep ends (what the event loop does) is admitted at the earliest instant at which
the rate allows it. -/
theorem admits_asap (h : run c (init t0) ops = .ok s) :
    (∀ i s', step c s (.attempt i) = .ok s' →
      (s'.log = s.log ++ [s.now] ↔ countOC s.log (s.now - c.window) s.now < c.count) ∧
      (s'.log = s.log ∨ s'.log = s.log ++ [s.now])) ∧
    (∀ p ∈ s.sleepers, p.2.1 < p.2.2 ∧
      ∀ t, p.2.1 ≤ t → t < p.2.2 → c.count ≤ countOC s.log (t - c.window) t) := by
  have inv := run_inv c ops _ s (init_inv c t0) h
  refine ⟨?_, fun p hp => ⟨(inv.wake_gt p hp).1, inv.asleep p hp⟩⟩
  intro i s' hs
  simp only [step] at hs
  split at hs
  · simp at hs
  · split at hs
    · split at hs
      · simp at hs
      · exact body_admits_iff c s s' i inv hs
    · exact body_admits_iff c s s' i inv hs

/-- An admission is final: no step ever shortens the admission log, and a task leaving the body — normally, by an
exception or by cancellation — changes neither the log nor `_items` nor anybody's sleep (`__aexit__` gives nothing
back). -/
theorem admission_is_final (s s' : State) (op : Op) (h : step c s op = .ok s') :
    (∃ new, s'.log = s.log ++ new) ∧
    (∀ i, op = .exit i ∨ op = .fail i ∨ (op = .cancel i ∧ s.inBody.contains i = true) →
      s'.log = s.log ∧ s'.items = s.items ∧ s'.sleepers = s.sleepers ∧ s'.now = s.now ∧ i ∉ s'.inBody) := by
  have leave_case : ∀ i, leave s i = .ok s' →
      s'.log = s.log ∧ s'.items = s.items ∧ s'.sleepers = s.sleepers ∧ s'.now = s.now ∧ i ∉ s'.inBody := by
    intro i h; rw [leave_eq s s' i h]; simp
  cases op with
  | tick dt => simp [step] at h; subst h; exact ⟨⟨[], by simp⟩, by simp⟩
  | attempt i =>
    refine ⟨?_, by simp⟩
    have hb : ∀ s', body c s i = .ok s' → ∃ new, s'.log = s.log ++ new := by
      intro s' hb
      simp only [body] at hb
      split at hb
      · simp at hb; subst hb; exact ⟨[s.now], rfl⟩
      · split at hb
        · simp at hb
        · simp at hb; subst hb; exact ⟨[], by simp⟩
    simp only [step] at h
    split at h
    · simp at h
    · split at h
      · split at h
        · simp at h
        · exact hb s' h
      · exact hb s' h
  | exit i =>
    have := leave_case i h
    refine ⟨⟨[], by simp [this.1]⟩, ?_⟩
    intro j hj; simp at hj; subst hj; exact this
  | fail i =>
    have := leave_case i h
    refine ⟨⟨[], by simp [this.1]⟩, ?_⟩
    intro j hj; simp at hj; subst hj; exact this
  | cancel i =>
    simp only [step] at h
    split at h
    · have := leave_case i h
      refine ⟨⟨[], by simp [this.1]⟩, ?_⟩
      intro j hj; simp at hj; obtain ⟨rfl, _⟩ := hj; exact this
    · next hnb =>
      split at h
      · simp at h; subst h
        refine ⟨⟨[], by simp⟩, ?_⟩
        intro j hj; simp at hj; obtain ⟨rfl, hc⟩ := hj; simp [hc] at hnb
      · simp at h

/-- A task cancelled while it still waits in `__aenter__` just stops waiting: it is gone from the sleepers, nothing else
changes (it was never admitted, so it does not appear in the log). -/
theorem cancelled_sleeper_leaves (s : State) (i : Nat) (hb : s.inBody.contains i = false)
    (hs : (wakeOf i s.sleepers).isSome = true) :
    step c s (.cancel i) = .ok { s with sleepers := removeSleeper i s.sleepers } ∧
    ∀ p ∈ removeSleeper i s.sleepers, p.1 ≠ i := by
  refine ⟨?_, ?_⟩
  · simp only [step, hb, hs]; simp
  intro p hp
  have := (List.mem_filter.mp hp).2
  simpa using this

/-- The clock of the trace: admissions are never in the future and `_items` stays sorted (used by the eviction loop,
which only looks at the head). -/
theorem trace_wellformed (h : run c (init t0) ops = .ok s) :
    (∀ a ∈ s.log, a ≤ s.now) ∧ s.items.Pairwise (· ≤ ·) :=
  let i := run_inv c ops _ s (init_inv c t0) h
  ⟨i.le_now, i.sorted⟩

/-! The closed-window boundary: count = 1, W = 4.  Admissions at 0 and at 4 — two in the CLOSED window `[0, 4]`, one in
each of the half-open windows `(0, 4]` and `[0, 4)`. -/
example : ∃ s, run ⟨1, 4⟩ (init 0) [.attempt 0, .tick 4, .attempt 1] = .ok s ∧
    countCC s.log 0 4 = 2 ∧ countOC s.log 0 4 = 1 ∧ countCO s.log 0 4 = 1 :=
  ⟨⟨4, [4], [], [0, 4], [0, 1]⟩, by decide⟩

/-! Non-vacuity. -/

-- count 2, W 4: two admitted at 0, the third sleeps until 0 + 4; woken then, it is admitted at 4
example : run ⟨2, 4⟩ (init 0) [.attempt 0, .attempt 1, .attempt 2] = .ok ⟨0, [0, 0], [(2, 0, 4)], [0, 0], [0, 1]⟩ := by decide
example : run ⟨2, 4⟩ (init 0) [.attempt 0, .attempt 1, .attempt 2, .tick 4, .attempt 2]
    = .ok ⟨4, [4], [], [0, 0, 4], [0, 1, 2]⟩ := by decide
-- two sleepers woken at the same instant with room for one: the second goes back to sleep until the next slot
example : run ⟨1, 4⟩ (init 0) [.attempt 0, .attempt 1, .attempt 2, .tick 4, .attempt 1, .attempt 2]
    = .ok ⟨4, [4], [(2, 4, 8)], [0, 4], [0, 1]⟩ := by decide
-- a LATE wake-up (the loop was busy: the sleep asked for 4, the task runs at 6): the admission is stamped with the real time 6,
-- so an arrival at 9 (less than a window after 6) has to wait until 6 + 4 = 10 — `attempt` only requires now ≥ the requested
-- wake-up time, every theorem above covers such runs
example : run ⟨1, 4⟩ (init 0) [.attempt 0, .attempt 1, .tick 6, .attempt 1, .tick 3, .attempt 2]
    = .ok ⟨9, [6], [(2, 9, 10)], [0, 6], [0, 1]⟩ := by decide
-- a sleep never ends early; `count = 0` makes the code index an empty deque
example : run ⟨1, 4⟩ (init 0) [.attempt 0, .attempt 1, .tick 3, .attempt 1] = .error .notDue := by decide
example : run ⟨0, 4⟩ (init 0) [.attempt 0] = .error .indexError := by decide
-- count 2, W 10: a and b admitted at 0; b is cancelled inside its body; c arriving at 1 must still wait until 10
-- (the admission of b keeps counting), and a sleeper that is cancelled just disappears
example : run ⟨2, 10⟩ (init 0) [.attempt 0, .attempt 1, .cancel 1, .tick 1, .attempt 2, .attempt 3, .cancel 3, .fail 0]
    = .ok ⟨1, [0, 0], [(2, 1, 10)], [0, 0], []⟩ := by decide

end HailVerif.C24

import HailVerif.Proofs.RateLimit
/-!
# C24 — Rate limiter never exceeds its rate

Subject: `HailVerif.RateLimit.step/run`, the model of `RateLimiter.__aenter__`
(hail/python/hailtop/utils/rate_limiter.py) over an integer clock, whose steps are the atomic blocks between awaits
(`attempt i` = one iteration of the `while True:` body by task `i`, `tick dt` = time passes); tied to the real class by
`harness/props/c24.py` (real class under the virtual clock, admission times compared).

The theorems quantify over ALL op lists (= all arrival times, all numbers of concurrent entrants, all orders in which
tasks that wake at the same instant re-check, arbitrarily late wake-ups), every start time, every `count` and every
window length `W`.  `s.log` is the list of all admission times.

Which half-open direction?  BOTH hold: no window `(x - W, x]` and no window `[x, x + W)` ever contains more than
`count` admissions.  Only the CLOSED window `[x, x + W]` can contain `count + 1` (the eviction test is
`items[0] <= now - W`, so an entry admitted exactly `W` ago no longer counts) — shown by an example below; the property
speaks about half-open windows, so this is not a violation.
-/
namespace HailVerif.C24
open HailVerif.RateLimit

variable (c : Cfg) (t0 : Int) (ops : List Op) (s : State)

/-- The rate is never exceeded: in every admission trace the model can produce, every half-open window of the
configured length — open on the left or open on the right — contains at most `count` admissions. -/
theorem window_bound (h : run c (init t0) ops = .ok s) (x : Int) :
    countOC s.log (x - c.window) x ≤ c.count ∧ countCO s.log x (x + c.window) ≤ c.count :=
  let i := run_inv c ops _ s (init_inv c t0) h
  ⟨i.boundOC x, i.boundCO x⟩

/-- Admission happens as soon as possible, in the two places where the code decides:
1. an iteration of the loop body at time `now` admits if and only if the window `(now - W, now]` holds fewer than `count`
   admissions (it never refuses when there is room, and it changes the trace in no other way);
2. while a task sleeps there is no room: at every instant `t` from the moment it went to sleep up to (excluding) the
   moment its sleep ends, the window `(t - W, t]` holds at least `count` admissions — so the sleep is not longer than
   necessary, and it has positive length.
Together: a task that runs when its sleep ends (what the event loop does) is admitted at the earliest instant at which
the rate allows it. -/
theorem admits_asap (h : run c (init t0) ops = .ok s) :
    (∀ i s', step c s (.attempt i) = .ok s' →
      (s'.log = s.log ++ [s.now] ↔ countOC s.log (s.now - c.window) s.now < c.count) ∧
      (s'.log = s.log ∨ s'.log = s.log ++ [s.now])) ∧
    (∀ p ∈ s.sleepers, p.2.1 < p.2.2 ∧
      ∀ t, p.2.1 ≤ t → t < p.2.2 → c.count ≤ countOC s.log (t - c.window) t) := by
  have inv := run_inv c ops _ s (init_inv c t0) h
  refine ⟨?_, fun p hp => ⟨(inv.wake_gt p hp).1, inv.asleep p hp⟩⟩
  intro i s' hs
  simp only [step] at hs
  split at hs
  · split at hs
    · simp at hs
    · exact body_admits_iff c s s' i inv hs
  · exact body_admits_iff c s s' i inv hs

/-- The clock of the trace: admissions are never in the future and `_items` stays sorted (used by the eviction loop,
which only looks at the head). -/
theorem trace_wellformed (h : run c (init t0) ops = .ok s) :
    (∀ a ∈ s.log, a ≤ s.now) ∧ s.items.Pairwise (· ≤ ·) :=
  let i := run_inv c ops _ s (init_inv c t0) h
  ⟨i.le_now, i.sorted⟩

/-! The closed-window boundary: count = 1, W = 4.  Admissions at 0 and at 4 — two in the CLOSED window `[0, 4]`, one in
each of the half-open windows `(0, 4]` and `[0, 4)`. -/
example : ∃ s, run ⟨1, 4⟩ (init 0) [.attempt 0, .tick 4, .attempt 1] = .ok s ∧
    countCC s.log 0 4 = 2 ∧ countOC s.log 0 4 = 1 ∧ countCO s.log 0 4 = 1 :=
  ⟨⟨4, [4], [], [0, 4]⟩, by decide⟩

/-! Non-vacuity. -/

-- count 2, W 4: two admitted at 0, the third sleeps until 0 + 4; woken then, it is admitted at 4
example : run ⟨2, 4⟩ (init 0) [.attempt 0, .attempt 1, .attempt 2] = .ok ⟨0, [0, 0], [(2, 0, 4)], [0, 0]⟩ := by decide
example : run ⟨2, 4⟩ (init 0) [.attempt 0, .attempt 1, .attempt 2, .tick 4, .attempt 2]
    = .ok ⟨4, [4], [], [0, 0, 4]⟩ := by decide
-- two sleepers woken at the same instant with room for one: the second goes back to sleep until the next slot
example : run ⟨1, 4⟩ (init 0) [.attempt 0, .attempt 1, .attempt 2, .tick 4, .attempt 1, .attempt 2]
    = .ok ⟨4, [4], [(2, 4, 8)], [0, 4]⟩ := by decide
-- a sleep never ends early; `count = 0` makes the code index an empty deque
example : run ⟨1, 4⟩ (init 0) [.attempt 0, .attempt 1, .tick 3, .attempt 1] = .error .notDue := by decide
example : run ⟨0, 4⟩ (init 0) [.attempt 0] = .error .indexError := by decide

end HailVerif.C24

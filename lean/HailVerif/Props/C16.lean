import HailVerif.Proofs.FifoSem
/-!
# C16 — Worker CPU semaphore is safe, FIFO and live

Subject: `HailVerif.FifoSem.step/run`, the model of `FIFOWeightedSemaphore` (batch/batch/semaphore.py) whose steps are
the atomic blocks between awaits; tied to the real class by the correspondence check `harness/props/c16.py`
(real class under the deterministic event loop, state compared after every group of ops issued inside one loop
iteration).

Every theorem quantifies over ALL op lists `ops` (= all interleavings of acquires, releases and resumptions of woken
waiters by any number of tasks — in particular several releases, or a release and a new acquire, between the wake-up
of a waiter and the moment it runs again) whose weights do not exceed the capacity; `run … = some …` says the list
respects the protocol (a release is issued only by a task in the body, a task id is not used twice at the same time).
`held s` counts the tasks in the body AND the woken waiters that have not run yet: a woken waiter owns its weight.  Since every prefix of an op list is an op
list, "for the final state of every op list" is "after every step".  Cancellation of waiters is outside C16.
-/
namespace HailVerif.C16
open HailVerif.FifoSem

variable (cap : Nat) (ops : List Op) (s : State) (es : List Ev)

/-- Safety: the semaphore never grants more than its capacity — free value plus everything held is exactly the
capacity, and the free value is never negative. -/
theorem capacity_never_exceeded (hw : WeightsLe cap ops) (h : run (init cap) ops = some (s, es)) :
    s.value + held s = cap ∧ 0 ≤ s.value :=
  let ⟨a, b, c⟩ := init_inv cap
  (run_inv cap ops _ s es hw a b c h).1

/-- At every point the bodies that are running, together with the woken waiters about to run, use at most the capacity
(so in particular the running bodies alone do). -/
theorem running_le_capacity (hw : WeightsLe cap ops) (h : run (init cap) ops = some (s, es)) :
    weights s.holders + weights s.granted ≤ cap ∧ weights s.holders ≤ cap := by
  have := capacity_never_exceeded cap ops s es hw h
  have nn : ∀ l : List (Nat × Nat), 0 ≤ weights l := by
    intro l; induction l with
    | nil => simp [weights]
    | cons p l ih => rw [weights_cons]; omega
  have := nn s.granted
  unfold held at *
  omega

/-- A woken waiter that runs again only enters the body: the free value, the queue and the total handed out do not
change — it already owned its weight. -/
theorem resume_only_enters (s s' : State) (i : Nat) (e : List Ev) (h : step s (Op.resume i) = some (s', e)) :
    s'.value = s.value ∧ s'.queue = s.queue ∧ held s' = held s ∧ i ∈ ids s'.holders := by
  simp only [step] at h
  split at h
  · simp at h
  · next w rest ht =>
    simp at h; obtain ⟨rfl, rfl⟩ := h
    have := take_weights _ _ _ _ ht
    refine ⟨rfl, rfl, ?_, by simp [ids]⟩
    simp only [held, weights_append, weights_cons, weights_nil]; omega

/-- FIFO: the tasks granted out of the queue, in grant order, followed by the tasks still queued, in queue order, are
exactly the tasks that ever had to queue, in arrival order.  (So the grant order of queued acquires is their arrival
order, and nobody is skipped.) -/
theorem fifo (hw : WeightsLe cap ops) (h : run (init cap) ops = some (s, es)) :
    grantedFromQueue es ++ ids s.queue = enqueued es := by
  obtain ⟨a, b, c⟩ := init_inv cap
  simpa [init, ids] using (run_inv cap ops _ s es hw a b c h).2.2.2

/-- No barging: while anybody is queued, a new arrival is appended to the back of the queue and is granted nothing,
whether or not its weight would fit. -/
theorem no_barging (s s' : State) (i w : Nat) (e : List Ev) (hq : s.queue ≠ [])
    (h : step s (Op.acquire i w) = some (s', e)) :
    s'.queue = s.queue ++ [(i, w)] ∧ s'.holders = s.holders ∧ s'.granted = s.granted ∧ s'.value = s.value ∧
      e = [Ev.enqueue i] := by
  simp only [step] at h
  split at h
  · simp at h
  · split at h
    · next hfit => exact absurd (List.isEmpty_iff.mp hfit.1) hq
    · simp at h; obtain ⟨rfl, rfl⟩ := h; simp

/-- Liveness: after every step, if somebody is queued then the head of the queue does not fit in the free value
(the release loop drains while the head fits; an arriving acquire queues only behind a blocked head or when it does
not fit itself). -/
theorem no_blocked_head (hw : WeightsLe cap ops) (h : run (init cap) ops = some (s, es)) :
    ∀ i w q, s.queue = (i, w) :: q → s.value < (w : Int) :=
  let ⟨a, b, c⟩ := init_inv cap
  (run_inv cap ops _ s es hw a b c h).2.1

/-- Consequence (no deadlock): when nobody holds anything, nobody is waiting. -/
theorem idle_means_empty_queue (hw : WeightsLe cap ops) (h : run (init cap) ops = some (s, es))
    (hidle : s.holders = []) (hidle' : s.granted = []) : s.queue = [] := by
  obtain ⟨a, b, c⟩ := init_inv cap
  obtain ⟨⟨hsum, _⟩, hh, hq, _⟩ := run_inv cap ops _ s es hw a b c h
  cases hs : s.queue with
  | nil => rfl
  | cons p q =>
    obtain ⟨i, w⟩ := p
    have h1 := hh i w q hs
    have h2 : w ≤ cap := hq (i, w) (by simp [hs])
    simp [held, hidle, hidle', weights] at hsum
    omega

/-! Non-vacuity: protocol-respecting op lists exist and exercise queueing, draining several waiters, a blocked head
with a fitting follower, and the rejected misuse. -/

-- cap 4: 0 takes 3; 1 (w2) queues; 2 (w1) would fit but queues behind 1; release 0 grants 1 then 2, in that order
example : run (init 4) [.acquire 0 3, .acquire 1 2, .acquire 2 1, .release 0]
    = some (⟨1, [], [(1, 2), (2, 1)], []⟩, [.grantNow 0, .enqueue 1, .enqueue 2, .grantQueued 1, .grantQueued 2]) := by decide
-- the head (w4) stays blocked after a partial release and keeps the fitting follower (w1) waiting
example : run (init 4) [.acquire 0 2, .acquire 1 2, .acquire 2 4, .acquire 3 1, .release 0]
    = some (⟨2, [(2, 4), (3, 1)], [], [(1, 2)]⟩, [.grantNow 0, .grantNow 1, .enqueue 2, .enqueue 3]) := by decide
-- two releases inside one loop iteration (no woken waiter has run in between): cap 2, A and B hold 1 each, C, D, E (1 each)
-- queue; A and B release back to back: exactly C and D are woken, E keeps waiting, nothing is free; then C and D run
example : run (init 2) [.acquire 0 1, .acquire 1 1, .acquire 2 1, .acquire 3 1, .acquire 4 1, .release 0, .release 1]
    = some (⟨0, [(4, 1)], [(2, 1), (3, 1)], []⟩,
        [.grantNow 0, .grantNow 1, .enqueue 2, .enqueue 3, .enqueue 4, .grantQueued 2, .grantQueued 3]) := by decide
example : (run (init 2) [.acquire 0 1, .acquire 1 1, .acquire 2 1, .acquire 3 1, .acquire 4 1, .release 0, .release 1,
      .resume 2, .resume 3]).map (·.1) = some ⟨0, [(4, 1)], [], [(2, 1), (3, 1)]⟩ := by decide
-- a newcomer arriving between the wake-up of B and B running again finds nothing free: it queues (cap 2, weights 2)
example : (run (init 2) [.acquire 0 2, .acquire 1 2, .release 0, .acquire 2 2]).map (·.1)
    = some ⟨0, [(2, 2)], [(1, 2)], []⟩ := by decide
-- weight 0 (worker.py uses 0 mcpu for some jobs): cap 4, A (4) runs, B (4) and Z (0) queue; A releases: B is woken and takes
-- the free value to 0, and Z, whose weight 0 fits in 0, is woken by the same loop
example : run (init 4) [.acquire 0 4, .acquire 1 4, .acquire 2 0, .release 0]
    = some (⟨0, [], [(1, 4), (2, 0)], []⟩, [.grantNow 0, .enqueue 1, .enqueue 2, .grantQueued 1, .grantQueued 2]) := by decide
-- a release by a task that does not hold is not a behaviour
example : run (init 4) [.acquire 0 2, .release 1] = none := by decide
example : WeightsLe 4 [.acquire 0 3, .acquire 1 2, .acquire 2 1, .release 0] := by
  intro i w h; simp at h; omega

end HailVerif.C16

import HailVerif.Proofs.NextUrl
/-!
# C29 — Post-login redirects stay on Hail hosts

Subjects (`HailVerif/Model/NextUrl.lean`):
* `validate cfg s` — model of `auth/auth/auth.py: validate_next_page_url` (with `pyNetloc` = CPython 3.12
  `urlparse(s).netloc` and `validNextDomains cfg` computed, as the code does, by `urlparse` on
  `deploy_config.external_url(service, '/')`), tied to the real function by `harness/props/c29.py`;
* `browserDest base s` — transcription of the WHATWG URL parser (base `https://base/…`) + the Fetch rule that a
  redirect to a non-http(s) URL is a network error.  **No browser was available to validate this half** (it is
  cross-checked against a second, state-machine transcription only): every theorem below is a statement about this
  transcription.

All theorems quantify over every deploy config satisfying `plainCfg` (the four service hosts are lower-case DNS names
`[a-z0-9.-]+`, not IPv4-like, without `xn--` labels; the base path is empty or starts with `/`), every base host and
every input string.
-/
namespace HailVerif.C29
open HailVerif.NextUrl

/-- "a browser following that URL lands on one of the deployment's own batch, auth, ci or monitoring hosts":
the URL parses to an http(s) URL whose host is one of the four hosts, on the default port. -/
def LandsOnHail (cfg : DeployCfg) (base s : Str) : Prop :=
  ∃ sch h, browserDest base s = .host sch h none ∧ (sch = sHttps ∨ sch = sHttp) ∧ h ∈ hailHosts cfg

/-- The exact acceptance condition of the validator BEFORE the fix (`validateOld`) for a plain deploy config: the string is
non-empty and CPython's netloc of it is, verbatim, one of the four service hosts. -/
theorem acceptOld_iff (cfg : DeployCfg) (hcfg : plainCfg cfg = true) (s : Str) :
    validateOld cfg s = .accept ↔ s ≠ [] ∧ ∃ h ∈ hailHosts cfg, pyNetloc s = .ok h := by
  unfold validateOld
  rw [validNextDomains_plain cfg hcfg]
  have hne : ((hailHosts cfg).map PyNetloc.ok).any (· == .exotic) = false := by
    rw [List.any_eq_false]; intro x hx
    obtain ⟨h, _, rfl⟩ := List.mem_map.1 hx
    simp
  by_cases hs : s = []
  · simp [hs]
  · simp only [hs, ↓reduceIte, hne, Bool.false_eq_true, ne_eq, not_false_eq_true, true_and]
    cases hp : pyNetloc s with
    | exotic => simp
    | ok n =>
      simp only [List.contains_eq_mem, List.mem_map, PyNetloc.ok.injEq, exists_eq_right, decide_eq_true_eq]
      constructor
      · intro h
        by_cases hm : n ∈ hailHosts cfg
        · exact ⟨n, hm, rfl⟩
        · simp [hm] at h
      · rintro ⟨h, hm, rfl⟩
        simp [hm]

/-- The current validator accepts exactly what the old one accepted, minus everything whose CPython scheme is not http/https. -/
theorem accept_iff_old (cfg : DeployCfg) (s : Str) :
    validate cfg s = .accept ↔ validateOld cfg s = .accept ∧ schemeIsHttp s = true := by
  unfold validate validateOld
  by_cases hs : s = []
  · simp [hs]
  · simp only [hs, ↓reduceIte]
    split
    · simp
    · cases pyNetloc s with
      | exotic => simp
      | ok n =>
        simp only
        by_cases h1 : schemeIsHttp s = true <;> by_cases h2 : ((validNextDomains cfg).contains (.ok n)) = true <;> simp [h1, h2]

/-- The exact acceptance condition of `validate_next_page_url` (current code) for a plain deploy config. -/
theorem accept_iff (cfg : DeployCfg) (hcfg : plainCfg cfg = true) (s : Str) :
    validate cfg s = .accept ↔
      s ≠ [] ∧ (pyScheme s = some sHttp ∨ pyScheme s = some sHttps) ∧ ∃ h ∈ hailHosts cfg, pyNetloc s = .ok h := by
  rw [accept_iff_old, acceptOld_iff cfg hcfg]
  simp only [schemeIsHttp, Bool.or_eq_true, beq_iff_eq]
  constructor
  · rintro ⟨⟨h1, h2⟩, h3⟩; exact ⟨h1, h3, h2⟩
  · rintro ⟨h1, h3, h2⟩; exact ⟨⟨h1, h2⟩, h3⟩

/-- What the old validator guaranteed: an accepted URL either lands on a Hail host, or it has a scheme other than http/https. -/
theorem old_accepted_lands_or_not_http (cfg : DeployCfg) (base s : Str) (hcfg : plainCfg cfg = true)
    (hacc : validateOld cfg s = .accept) :
    LandsOnHail cfg base s ∨
      ∃ sch, pyScheme s = some sch ∧ sch ≠ sHttps ∧ sch ≠ sHttp ∧ browserDest base s = .blocked sch := by
  obtain ⟨_, h, hm, hn⟩ := (acceptOld_iff cfg hcfg s).1 hacc
  have hp : plainHost h = true := by
    have := hcfg
    unfold plainCfg at this
    simp only [Bool.and_eq_true, List.all_eq_true] at this
    exact this.1 h hm
  rcases dest_of_plain_netloc base s h hp hn with ⟨_, hd⟩ | ⟨sch, hsch, ⟨hs, hd⟩ | ⟨⟨h1, h2⟩, hd⟩⟩
  · exact Or.inl ⟨sHttps, h, hd, Or.inl rfl, hm⟩
  · exact Or.inl ⟨sch, h, hd, hs, hm⟩
  · exact Or.inr ⟨sch, hsch, h1, h2, hd⟩

/-- THE PROPERTY AT FULL STRENGTH, for the current code: whenever `validate_next_page_url` accepts a string, the browser that
follows it lands on one of the four Hail hosts (http or https, default port). -/
theorem accepted_lands_on_hail (cfg : DeployCfg) (base s : Str) (hcfg : plainCfg cfg = true)
    (hacc : validate cfg s = .accept) : LandsOnHail cfg base s := by
  obtain ⟨hold, hsch⟩ := (accept_iff_old cfg s).1 hacc
  rcases old_accepted_lands_or_not_http cfg base s hcfg hold with h | ⟨sch, hs, h1, h2, _⟩
  · exact h
  · simp only [schemeIsHttp, Bool.or_eq_true, beq_iff_eq] at hsch
    rw [hs] at hsch
    rcases hsch with h | h
    · exact absurd (Option.some.inj h) h2
    · exact absurd (Option.some.inj h) h1

/-! ## the repaired defect (validator before commit 46b6e6f3a) -/

/-- the full statement for the OLD validator -/
def AcceptedLandsOnHailOld : Prop :=
  ∀ (cfg : DeployCfg) (base s : Str), plainCfg cfg = true → validateOld cfg s = .accept → LandsOnHail cfg base s

/-- The witness: domain `hail.is`, next = `javascript://auth.hail.is/%0aalert(1)`. -/
def witnessCfg : DeployCfg := { domain := "hail.is".toList, basePath := none }
def witness : Str := "javascript://auth.hail.is/%0aalert(1)".toList

/-- The old validator violated the property (the real old function accepted the witness too). -/
theorem old_accepted_lands_on_hail_fails : ¬ AcceptedLandsOnHailOld := by
  intro h
  obtain ⟨sch, host, hd, _, _⟩ := h witnessCfg "auth.hail.is".toList witness (by decide) (by decide)
  have : browserDest "auth.hail.is".toList witness = .blocked "javascript".toList := by decide
  rw [this] at hd
  exact absurd hd (by simp)

/-! Non-vacuity and boundary examples (each evaluates both models). -/

-- the hypotheses are satisfiable: the production-like config is plain, and ordinary URLs are accepted and land
example : plainCfg witnessCfg = true := by decide
example : validate witnessCfg "https://batch.hail.is/batches/1".toList = .accept := by decide
example : browserDest "auth.hail.is".toList "https://batch.hail.is/batches/1".toList
    = .host sHttps "batch.hail.is".toList none := by decide
-- leading control characters and an embedded tab (removed by both parsers); upper-case scheme
example : validate witnessCfg " \x01HTTPS://ci.ha\til.is?x".toList = .accept := by decide
example : browserDest "auth.hail.is".toList " \x01HTTPS://ci.ha\til.is?x".toList = .host sHttps "ci.hail.is".toList none := by decide
-- the scheme-relative form would land on the host, but has no scheme: refused since the fix (accepted before)
example : validate witnessCfg "//ci.hail.is/x".toList = .deny := by decide
example : validateOld witnessCfg "//ci.hail.is/x".toList = .accept := by decide
-- namespace deployment with a base path: the single host is the domain
example : validate { domain := "internal.hail.is".toList, basePath := some "/ns1".toList }
    "http://internal.hail.is/ns1/batch/".toList = .accept := by decide
-- parser differentials that are refused by the validator: backslash, userinfo, foreign host, relative path, empty
example : validate witnessCfg "https://auth.hail.is\\@evil.com/".toList = .deny := by decide
example : validate witnessCfg "https://auth.hail.is@evil.com/".toList = .deny := by decide
example : validate witnessCfg "https:/\\evil.com".toList = .deny := by decide
example : browserDest "auth.hail.is".toList "https:/\\evil.com".toList = .host sHttps "evil.com".toList none := by decide
example : validate witnessCfg "/batches".toList = .deny := by decide
example : validate witnessCfg [] = .deny := by decide
example : validate witnessCfg "https://auth.hail.is.evil.com/".toList = .deny := by decide
-- the repaired defect: non-http(s) schemes with an allowed netloc were accepted, and are refused now
example : validateOld witnessCfg witness = .accept := by decide
example : validate witnessCfg witness = .deny := by decide
example : validateOld witnessCfg "data://monitoring.hail.is/,x".toList = .accept := by decide
example : validate witnessCfg "data://monitoring.hail.is/,x".toList = .deny := by decide

/-! ## the flow: every redirect to the `next` string happens after a successful validation of that very string -/

/-- `/login`, `/signup` never redirect to `next` (they go to the identity provider or answer 400). -/
theorem entry_never_redirects_to_next (ok : Bool) : entryResp ok ≠ .redirect .next := by
  cases ok <;> simp [entryResp]

/-- `/oauth2callback` redirects to the session's `next` only if that string passed `validate_next_page_url` in this very request —
whichever way it got into the session, for the login AND the signup caller. -/
theorem callback_redirects_to_valid_next (hasFlow : Bool) (c : Caller) (ok : Bool) (a : Account) (so : Bool)
    (h : callbackResp hasFlow c ok a so = .redirect .next) : ok = true := by
  cases hasFlow <;> cases ok <;> cases c <;> cases a <;> cases so <;> simp [callbackResp] at h ⊢

theorem creating_redirects_to_valid_next (pending ok : Bool) (a : Account)
    (h : creatingResp pending ok a = .redirect .next) : ok = true := by
  cases pending <;> cases ok <;> cases a <;> simp [creatingResp] at h ⊢

/-- …hence the browser that follows the post-login redirect lands on a Hail host. -/
theorem flow_redirect_lands_on_hail (cfg : DeployCfg) (base next : Str) (hcfg : plainCfg cfg = true) (hasFlow : Bool) (c : Caller)
    (a : Account) (so : Bool) (h : callbackResp hasFlow c (validate cfg next == .accept) a so = .redirect .next) :
    LandsOnHail cfg base next := by
  have := callback_redirects_to_valid_next _ _ _ _ _ h
  exact accepted_lands_on_hail cfg base next hcfg (by simpa using this)

-- a signup caller with a planted foreign `next` and an already active account: refused (400), not redirected
example : callbackResp true .signup (validate witnessCfg "https://evil.com/".toList == .accept) .active true = .badRequest := by decide
example : callbackResp true .signup (validate witnessCfg "https://batch.hail.is/batches".toList == .accept) .active true = .redirect .next := by decide

end HailVerif.C29

import HailVerif.Proofs.NextUrl
/-!
# C29 — Post-login redirects stay on Hail hosts

Subjects (`HailVerif/Model/NextUrl.lean`):
* `validate cfg s` — model of `auth/auth/auth.py: validate_next_page_url` (with `pyNetloc` = CPython 3.12
  `urlparse(s).netloc` and `validNextDomains cfg` computed, as the code does, by `urlparse` on
  `deploy_config.external_url(service, '/')`), tied to the real function by `harness/props/c29.py`;
* `browserDest base s` — transcription of the WHATWG URL parser (base `https://base/…`) + the Fetch rule that a
  redirect to a non-http(s) URL is a network error.  **No browser was available to validate this half** (it is
  cross-checked against a second, state-machine transcription only): every theorem below is a statement about this
  transcription.

All theorems quantify over every deploy config satisfying `plainCfg` (the four service hosts are lower-case DNS names
`[a-z0-9.-]+`, not IPv4-like, without `xn--` labels; the base path is empty or starts with `/`), every base host and
every input string.
-/
namespace HailVerif.C29
open HailVerif.NextUrl

/-- "a browser following that URL lands on one of the deployment's own batch, auth, ci or monitoring hosts":
the URL parses to an http(s) URL whose host is one of the four hosts, on the default port. -/
def LandsOnHail (cfg : DeployCfg) (base s : Str) : Prop :=
  ∃ sch h, browserDest base s = .host sch h none ∧ (sch = sHttps ∨ sch = sHttp) ∧ h ∈ hailHosts cfg

/-- THE PROPERTY AT FULL STRENGTH.  It does **not** hold for the code as it is: see `accepted_lands_on_hail_fails`. -/
def AcceptedLandsOnHail : Prop :=
  ∀ (cfg : DeployCfg) (base s : Str), plainCfg cfg = true → validate cfg s = .accept → LandsOnHail cfg base s

/-- The exact acceptance condition of `validate_next_page_url` for a plain deploy config: the string is non-empty and
CPython's netloc of it is, verbatim, one of the four service hosts. -/
theorem accept_iff (cfg : DeployCfg) (hcfg : plainCfg cfg = true) (s : Str) :
    validate cfg s = .accept ↔ s ≠ [] ∧ ∃ h ∈ hailHosts cfg, pyNetloc s = .ok h := by
  unfold validate
  rw [validNextDomains_plain cfg hcfg]
  have hne : ((hailHosts cfg).map PyNetloc.ok).any (· == .exotic) = false := by
    rw [List.any_eq_false]; intro x hx
    obtain ⟨h, _, rfl⟩ := List.mem_map.1 hx
    simp
  by_cases hs : s = []
  · simp [hs]
  · simp only [hs, ↓reduceIte, hne, Bool.false_eq_true, ne_eq, not_false_eq_true, true_and]
    cases hp : pyNetloc s with
    | exotic => simp
    | ok n =>
      simp only [List.contains_eq_mem, List.mem_map, PyNetloc.ok.injEq, exists_eq_right, decide_eq_true_eq]
      constructor
      · intro h
        by_cases hm : n ∈ hailHosts cfg
        · exact ⟨n, hm, rfl⟩
        · simp [hm] at h
      · rintro ⟨h, hm, rfl⟩
        simp [hm]

/-- Without any hypothesis on the scheme: an accepted URL either lands on a Hail host, or it has a scheme other than
http/https (which the transcription treats as "redirect refused": the browser loads nothing). -/
theorem accepted_lands_or_not_http (cfg : DeployCfg) (base s : Str) (hcfg : plainCfg cfg = true)
    (hacc : validate cfg s = .accept) :
    LandsOnHail cfg base s ∨
      ∃ sch, pyScheme s = some sch ∧ sch ≠ sHttps ∧ sch ≠ sHttp ∧ browserDest base s = .blocked sch := by
  obtain ⟨_, h, hm, hn⟩ := (accept_iff cfg hcfg s).1 hacc
  have hp : plainHost h = true := by
    have := hcfg
    unfold plainCfg at this
    simp only [Bool.and_eq_true, List.all_eq_true] at this
    exact this.1 h hm
  rcases dest_of_plain_netloc base s h hp hn with ⟨_, hd⟩ | ⟨sch, hsch, ⟨hs, hd⟩ | ⟨⟨h1, h2⟩, hd⟩⟩
  · exact Or.inl ⟨sHttps, h, hd, Or.inl rfl, hm⟩
  · exact Or.inl ⟨sch, h, hd, hs, hm⟩
  · exact Or.inr ⟨sch, hsch, h1, h2, hd⟩

/-- PARTIAL (explicit hypothesis on the scheme, forced by the proof): if CPython sees no scheme, `http` or `https`, an
accepted URL lands on a Hail host.  What is missing for the full statement is exactly a scheme check in the validator. -/
theorem accepted_lands_on_hail_partial (cfg : DeployCfg) (base s : Str) (hcfg : plainCfg cfg = true)
    (hacc : validate cfg s = .accept)
    (hscheme : pyScheme s = none ∨ pyScheme s = some sHttp ∨ pyScheme s = some sHttps) :
    LandsOnHail cfg base s := by
  rcases accepted_lands_or_not_http cfg base s hcfg hacc with h | ⟨sch, hs, h1, h2, _⟩
  · exact h
  · rw [hs] at hscheme
    rcases hscheme with h | h | h
    · exact absurd h (by simp)
    · exact absurd (Option.some.inj h) h2
    · exact absurd (Option.some.inj h) h1

/-- The witness: domain `hail.is`, next = `javascript://auth.hail.is/%0aalert(1)`. -/
def witnessCfg : DeployCfg := { domain := "hail.is".toList, basePath := none }
def witness : Str := "javascript://auth.hail.is/%0aalert(1)".toList

/-- Negation of the full statement on the witness (the REAL `validate_next_page_url` accepts it too — checked on every
run by `harness/props/c29.py`, recorded in `known_findings.json`). -/
theorem accepted_lands_on_hail_fails : ¬ AcceptedLandsOnHail := by
  intro h
  obtain ⟨sch, host, hd, _, _⟩ := h witnessCfg "auth.hail.is".toList witness (by decide) (by decide)
  have : browserDest "auth.hail.is".toList witness = .blocked "javascript".toList := by decide
  rw [this] at hd
  exact absurd hd (by simp)

/-- A validator that additionally requires the scheme to be absent, `http` or `https` (candidate patch) satisfies the
full statement. -/
theorem patched_validator_lands_on_hail (cfg : DeployCfg) (base s : Str) (hcfg : plainCfg cfg = true)
    (hacc : validate cfg s = .accept ∧ (pyScheme s = none ∨ pyScheme s = some sHttp ∨ pyScheme s = some sHttps)) :
    LandsOnHail cfg base s :=
  accepted_lands_on_hail_partial cfg base s hcfg hacc.1 hacc.2

/-! Non-vacuity and boundary examples (each evaluates both models). -/

-- the hypotheses are satisfiable: the production-like config is plain, and ordinary URLs are accepted and land
example : plainCfg witnessCfg = true := by decide
example : validate witnessCfg "https://batch.hail.is/batches/1".toList = .accept := by decide
example : browserDest "auth.hail.is".toList "https://batch.hail.is/batches/1".toList
    = .host sHttps "batch.hail.is".toList none := by decide
-- scheme-relative form, leading control characters and an embedded tab (removed by both parsers)
example : validate witnessCfg " \x01//ci.ha\til.is?x".toList = .accept := by decide
example : browserDest "auth.hail.is".toList " \x01//ci.ha\til.is?x".toList = .host sHttps "ci.hail.is".toList none := by decide
-- namespace deployment with a base path: the single host is the domain
example : validate { domain := "internal.hail.is".toList, basePath := some "/ns1".toList }
    "http://internal.hail.is/ns1/batch/".toList = .accept := by decide
-- parser differentials that are refused by the validator: backslash, userinfo, foreign host, relative path, empty
example : validate witnessCfg "https://auth.hail.is\\@evil.com/".toList = .deny := by decide
example : validate witnessCfg "https://auth.hail.is@evil.com/".toList = .deny := by decide
example : validate witnessCfg "https:/\\evil.com".toList = .deny := by decide
example : browserDest "auth.hail.is".toList "https:/\\evil.com".toList = .host sHttps "evil.com".toList none := by decide
example : validate witnessCfg "/batches".toList = .deny := by decide
example : validate witnessCfg [] = .deny := by decide
example : validate witnessCfg "https://auth.hail.is.evil.com/".toList = .deny := by decide
-- the finding: non-http(s) schemes with an allowed netloc are accepted
example : validate witnessCfg witness = .accept := by decide
example : validate witnessCfg "data://monitoring.hail.is/,x".toList = .accept := by decide

end HailVerif.C29

import HailVerif.Proofs.BatchDBJobIds
import HailVerif.Props.C07
/-!
# C08 — Accepted job graphs can always finish

Subject: the BatchDB model (`HailVerif.BatchDB`); `insertJobs` = `_create_jobs` of `front_end.py`.  Its checks are
`insertJobsReject`: user / deleted / committed, **the id checks `specIdsOk`** (added by the C08 repair of the code: before
anything is built or written every spec of the bunch must have its in-update job id in `[1, n_jobs]` of the update, its
in-update parent ids in `[1, own in-update id)` and its absolute parent ids in `[1, own absolute id)`; 400 otherwise), the
per-row outcome of the multi-row `INSERT INTO jobs` (trigger `jobs_before_insert`, primary key, foreign key on `job_groups`)
and the duplicate key of `job_parents`.  `commitUpdate` = procedure `commit_batch_update`, whose only check is the NUMBER of
staged jobs.

The property — "only submissions whose jobs depend on jobs that already exist earlier in the same batch are accepted; a
missing, later or self dependency, or a job id outside the update's reserved range, is rejected and leaves the batch
unchanged" — splits into

* the **id half**, which now holds for every history, with no hypothesis on the client:
  `ill_formed_ids_rejected` (a bunch with a self / later / non-positive parent id or a job id outside the reserved range is
  answered with an error and changes nothing, in ANY state), `witnesses_rejected` (the four bunches that the unrepaired code
  accepted), `accepted_ids_ok` / `accepted_parent_ids` (in every reachable state every job row lies in the id range its own
  update reserved, and every `job_parents` row names a positive, strictly smaller id that lies inside a range reserved by an
  update of the same batch), `parents_wellFounded` (hence the dependency relation is acyclic: well-founded by id order),
  `no_jobs_in_empty_update`;
* the **existence half** — the parent ROW exists — which the server cannot check at insertion time (the bunches of one update
  are sent concurrently, so a parent of another bunch may not be inserted yet) and which is still violable through the
  out-of-order-commit family: a child update is committed while the earlier update holding its parent was never inserted
  (`orphan_parent_accepted`, `accepted_parents_precede_fails`, `ill_formed_rejected_fails`).  The strongest statement for it
  stays the partial theorem `accepted_parents_precede_partial` under the client-side hypothesis `HistWF`.
-/
namespace HailVerif.C08
open HailVerif.BatchDB HailVerif.BatchDB.Submission
open HailVerif.C07 (after Reachable)

/-! ## the property at full strength -/

/-- **Full statement (1).**  In every reachable state every job row `j` satisfies `JobOK`: each `job_parents` row of `j`
names an EXISTING job of the same batch with a smaller id, and `j.id` lies in `[startJob, startJob + nJobs)` of the
update `j` belongs to. -/
def AcceptedParentsPrecede : Prop := ∀ s, Reachable s → AllJobsOK s

/-- **Full statement (2).**  A job bunch that is not well-formed w.r.t. its update row (`SpecsWF`: in-update id in
`1..n_jobs`, in-update parents smaller and PRESENT, absolute parents before the range and PRESENT) is answered with an
error and leaves the database unchanged. -/
def IllFormedRejected : Prop :=
  ∀ s, Reachable s → ∀ (b upd user : Nat) (specs : List JobSpec) (u : Update), findUpdate s b upd = some u →
    ¬ SpecsWF s b u specs →
    (step s (.insertJobs b upd user specs)).1 = s ∧ ∃ e, (step s (.insertJobs b upd user specs)).2 = .err e

/-! ## the id half: rejected ⇒ unchanged -/

/-- the id condition `_create_jobs` checks on a bunch addressed to update row `u` (decidable, depends on the specs and on
`start_job_id` / `n_jobs` of the row only) -/
def SpecsIdsOK (u : Update) (specs : List JobSpec) : Prop := ∀ sp ∈ specs, specIdsOk u sp = true

instance (u : Update) (specs : List JobSpec) : Decidable (SpecsIdsOK u specs) := by unfold SpecsIdsOK; infer_instance

/-- what the condition says: job id in the reserved range, in-update parents earlier jobs of the update, absolute parents
earlier jobs of the batch — so a self parent, a later parent, a parent id ≤ 0 or ≥ the job's own id (in particular any id
that has not been reserved yet) and a job id outside `[1, n_jobs]` all violate it -/
theorem specsIdsOK_iff (u : Update) (specs : List JobSpec) :
    SpecsIdsOK u specs ↔ ∀ sp ∈ specs,
      (1 ≤ sp.relId ∧ sp.relId ≤ u.nJobs) ∧ (∀ p ∈ sp.relParents, 1 ≤ p ∧ p < sp.relId) ∧
      (∀ p ∈ sp.absParents, 1 ≤ p ∧ p < u.startJob + sp.relId - 1) := by
  unfold SpecsIdsOK
  exact forall_congr' fun sp => imp_congr_right fun _ => specIdsOk_iff u sp

/-- **Rejected ⇒ unchanged** (any state, reachable or not): a bunch that violates the id condition is answered with an
error and nothing is written. -/
theorem ill_formed_ids_rejected (s : State) (b upd user : Nat) (specs : List JobSpec) (u : Update)
    (hu : findUpdate s b upd = some u) (hbad : ¬ SpecsIdsOK u specs) :
    (step s (.insertJobs b upd user specs)).1 = s ∧ ∃ e, (step s (.insertJobs b upd user specs)).2 = .err e := by
  show (insertJobs s b upd user specs).1 = s ∧ ∃ e, (insertJobs s b upd user specs).2 = .err e
  have hex : ∃ sp ∈ specs, specIdsOk u sp = false := by
    by_cases h : ∃ sp ∈ specs, specIdsOk u sp = false
    · exact h
    · exfalso
      apply hbad
      intro sp hsp
      cases hv : specIdsOk u sp with
      | true => rfl
      | false => exact absurd ⟨sp, hsp, hv⟩ h
  cases specs with
  | nil => obtain ⟨sp, hsp, -⟩ := hex; simp at hsp
  | cons first rest =>
    cases hbt : findBatch s b with
    | none =>
      have e : insertJobs s b upd user (first :: rest) = (s, .err "not-found") := by simp only [insertJobs, hu, hbt]
      rw [e]; exact ⟨rfl, _, rfl⟩
    | some bt =>
      obtain ⟨e, he⟩ := insertJobsReject_badIds s b user u bt first (first :: rest) hex
      have e' : insertJobs s b upd user (first :: rest) = (s, .err e) := by simp only [insertJobs, hu, hbt, he]
      rw [e']; exact ⟨rfl, _, rfl⟩

/-- every answer other than `ok` leaves the database unchanged, whatever the reason -/
theorem rejected_unchanged (s : State) (b upd user : Nat) (specs : List JobSpec) (e : String)
    (h : (step s (.insertJobs b upd user specs)).2 = .err e) : (step s (.insertJobs b upd user specs)).1 = s := by
  rcases insertJobs_cases s b upd user specs with ⟨o, eq⟩ | ⟨first, rest, u, bt, hs, hu, hbt, hrej, eq⟩
  · show (insertJobs s b upd user specs).1 = s; rw [eq]
  · have : (insertJobs s b upd user specs).2 = .err e := h
    rw [eq] at this; cases this

/-! ### the four bunches the unrepaired code accepted are rejected -/

/-- job 1 names itself as in-update parent -/
def wSelf : List Op :=
  [.createBatch 1 1 100, .createUpdate 1 200 1 0 1,
   .insertJobs 1 1 1 [⟨1, [], [1], some 0, 0, false, 1000, 0⟩], .commitUpdate 1 1]

/-- job 1 names the LATER in-update job 2 as parent -/
def wLater : List Op :=
  [.createBatch 1 1 100, .createUpdate 1 200 2 0 1,
   .insertJobs 1 1 1 [⟨1, [], [2], some 0, 0, false, 1000, 0⟩, ⟨2, [], [], some 0, 0, false, 1000, 0⟩], .commitUpdate 1 1]

/-- job 1 names the absolute parent 7: an id that was never reserved (and is not smaller than the job's own id) -/
def wMissing : List Op :=
  [.createBatch 1 1 100, .createUpdate 1 200 1 0 1,
   .insertJobs 1 1 1 [⟨1, [7], [], some 0, 0, false, 1000, 0⟩], .commitUpdate 1 1]

/-- the update reserves ONE job id (`n_jobs = 1`, range `[1, 2)`) but the job is sent with in-update id 5 -/
def wRange : List Op :=
  [.createBatch 1 1 100, .createUpdate 1 200 1 0 1,
   .insertJobs 1 1 1 [⟨5, [], [], some 0, 0, false, 1000, 0⟩], .commitUpdate 1 1]

/-- every one of them is answered with the id error, and the commit that follows is refused (rc 1: wrong number of jobs) -/
theorem witnesses_rejected :
    (step (after init (wSelf.take 2)) wSelf[2]).2 = .err "bad-ids" ∧ (step (after init (wSelf.take 3)) wSelf[3]).2 = .ok 1 ∧
    (step (after init (wLater.take 2)) wLater[2]).2 = .err "bad-ids" ∧ (step (after init (wLater.take 3)) wLater[3]).2 = .ok 1 ∧
    (step (after init (wMissing.take 2)) wMissing[2]).2 = .err "bad-ids" ∧
      (step (after init (wMissing.take 3)) wMissing[3]).2 = .ok 1 ∧
    (step (after init (wRange.take 2)) wRange[2]).2 = .err "bad-ids" ∧ (step (after init (wRange.take 3)) wRange[3]).2 = .ok 1 := by
  decide

/-- … and nothing of them reaches the tables: no job row, no `job_parents` row, no staging / counter entry, the batch still
has 0 jobs -/
theorem witnesses_leave_nothing :
    ∀ w ∈ [wSelf, wLater, wMissing, wRange],
      (after init w).jobs = [] ∧ (after init w).parents = [] ∧ (after init w).ctr = [] ∧
      ((after init w).batches.map fun b => b.nJobs) = [0] ∧ ((after init w).updates.map fun u => u.committed) = [false] := by
  decide

/-! ## the id half: accepted ⇒ ids in range, parents strictly earlier -/

/-- **Accepted ⇒ well-formed ids**, for every history: every `job_parents` row `(batch, job, parent)` has
`1 ≤ parent < job`, and every job row lies in the job-id range reserved by its own update. -/
theorem accepted_ids_ok {s : State} (h : Reachable s) : ParentsDecrease s ∧ JobsInRange s := by
  obtain ⟨ops, rfl⟩ := h
  exact (jobIds_run ops).2

/-- the same per job row, with the reserved range of the PARENT id: each parent id of an accepted job is positive, smaller
than the job's id, and lies inside the range reserved by some update of the same batch (reserved ranges are contiguous from
1 and in update order: C09) — it is the id of an earlier job of the batch, inserted or not. -/
theorem accepted_parent_ids {s : State} (h : Reachable s) (j : Job) (hj : j ∈ s.jobs) (p : Nat)
    (hp : (j.batch, j.id, p) ∈ s.parents) :
    1 ≤ p ∧ p < j.id ∧ ∃ w ∈ s.updates, w.batch = j.batch ∧ w.startJob ≤ p ∧ p < w.startJob + w.nJobs := by
  obtain ⟨ops, rfl⟩ := h
  obtain ⟨hr, hd, hin⟩ := jobIds_run ops
  obtain ⟨h1, h2⟩ := hd _ hp
  obtain ⟨u, hu, -, hu2⟩ := hin j hj
  obtain ⟨hum, hub, -⟩ := mem_of_findUpdate (Option.mem_def.mp hu)
  obtain ⟨w, hw, hwb, hw1, hw2⟩ := covered_of_lt hr hum h1 (show p < u.startJob + u.nJobs by
    have : p < j.id := h2
    omega)
  exact ⟨h1, h2, w, hw, by rw [hwb, hub], hw1, hw2⟩

/-- **The dependency relation is acyclic**: in every reachable state "p is a parent of j" (within one batch) is
well-founded — following `job_parents` rows strictly decreases the job id, so there is no cycle and no infinite descent,
whatever the clients sent. -/
theorem parents_wellFounded {s : State} (h : Reachable s) (b : Nat) :
    WellFounded (fun p j : Nat => (b, j, p) ∈ s.parents) :=
  Subrelation.wf (r := fun p j : Nat => p < j) (fun hp => ((accepted_ids_ok h).1 _ hp).2) Nat.lt_wfRel.wf

/-- in particular no job is its own ancestor through one step … -/
theorem no_self_parent {s : State} (h : Reachable s) (b j : Nat) : (b, j, j) ∉ s.parents :=
  fun hp => Nat.lt_irrefl j ((accepted_ids_ok h).1 _ hp).2

/-- an update that reserved no job ids has no job rows (the hypothesis `HistCommitOK` of C06 is therefore met by every
history) -/
theorem no_jobs_in_empty_update {s : State} (h : Reachable s) (b upd : Nat) (u : Update) (hu : findUpdate s b upd = some u)
    (h0 : u.nJobs = 0) : ∀ j ∈ s.jobs, j.batch = b → j.update ≠ upd := by
  intro j hj hb hupd
  obtain ⟨u', hu', h1, h2⟩ := (accepted_ids_ok h).2 j hj
  rw [hb, hupd, Option.mem_def, hu] at hu'
  cases hu'
  omega

/-! ## the existence half: still violable through the out-of-order commit -/

/-- update 2 (one job, absolute parent 1 = the job id reserved by update 1) is sent and committed while the bunch of
update 1 was never inserted: the ids pass every check (1 < 2, inside the reserved ranges), the parent row does not exist -/
def wOrphan : List Op :=
  [.createBatch 1 1 100, .createUpdate 1 200 1 0 1, .createUpdate 1 201 1 0 1,
   .insertJobs 1 2 1 [⟨1, [1], [], some 0, 0, false, 1000, 0⟩], .commitUpdate 1 2]

/-- the bunch is accepted (`ok 0`), the update commits (`rc 0`): `commit_batch_update` recomputes `n_pending_parents` from
the parent rows that exist, finds none and makes the child Ready -/
theorem orphan_accepted :
    (step (after init (wOrphan.take 3)) wOrphan[3]).2 = .ok 0 ∧ (step (after init (wOrphan.take 4)) wOrphan[4]).2 = .ok 0 ∧
    ((after init wOrphan).jobs.map fun j => (j.id, j.state, j.npp)) = [(2, .Ready, 0)] ∧
    (after init wOrphan).parents = [(1, 2, 1)] := by decide

theorem orphan_parent_accepted : ¬ AllJobsOK (after init wOrphan) := by decide

/-- … although its ids are exactly what the id half guarantees -/
example : ParentsDecrease (after init wOrphan) ∧ JobsInRange (after init wOrphan) := by decide

/-- **The property at full strength still fails**: the parent of a committed job need not exist. -/
theorem accepted_parents_precede_fails : ¬ AcceptedParentsPrecede :=
  fun h => orphan_parent_accepted (h _ ⟨wOrphan, rfl⟩)

/-- **So does the rejection half at full strength** (`SpecsWF` includes the presence of the parents): the bunch of update 2
is not `SpecsWF` — its parent is absent — and is answered `ok 0`. -/
theorem ill_formed_rejected_fails : ¬ IllFormedRejected := by
  intro h
  have hr : Reachable (after init (wOrphan.take 3)) := ⟨_, rfl⟩
  obtain ⟨-, e, he⟩ := h _ hr 1 2 1 [⟨1, [1], [], some 0, 0, false, 1000, 0⟩] ⟨1, 2, 201, 2, 1, 1, 0, false⟩
    (by decide) (by decide)
  have : (step (after init (wOrphan.take 3)) (.insertJobs 1 2 1 [⟨1, [1], [], some 0, 0, false, 1000, 0⟩])).2 = .ok 0 := by
    decide
  rw [this] at he; cases he

/-! ## the partial theorem for the existence half -/

/-- **Partial.**  If every request of the history is well-formed in the state it is applied to (`HistWF`: for a job
bunch, `SpecsWF` w.r.t. the update row it addresses — what `aioclient` produces when updates are submitted one after the
other), then in the reached state every job's parents EXIST, have smaller ids, and its id lies in its update's reserved
range. -/
theorem accepted_parents_precede_partial (ops : List Op) (hwf : HistWF init ops) : AllJobsOK (after init ops) :=
  (c08_run ops init hwf ⟨by intro j hj; simp [init] at hj, by intro e he; simp [init] at he⟩).1

/-- the same, one transaction at a time, from any state satisfying the invariant (`ParentsOwned`: every `job_parents`
row belongs to an existing job — true in every reachable state of a well-formed history) -/
theorem accepted_parents_precede_step (s : State) (op : Op) (hwf : OpWF s op) (h : AllJobsOK s ∧ ParentsOwned s) :
    AllJobsOK (step s op).1 ∧ ParentsOwned (step s op).1 :=
  c08_step s op hwf h

/-- under `HistWF` the parent rows exist as well -/
theorem parents_exist (ops : List Op) (hwf : HistWF init ops) (j : Job) (hj : j ∈ (after init ops).jobs)
    (p : Nat) (hp : (j.batch, j.id, p) ∈ (after init ops).parents) :
    p < j.id ∧ ∃ pj, findJob (after init ops) j.batch p = some pj :=
  let h := (accepted_parents_precede_partial ops hwf j hj).1 _ hp rfl rfl
  ⟨h.1, Option.isSome_iff_exists.mp h.2⟩

/-- the hypothesis is satisfiable: a two-update history with an in-bunch parent and an absolute parent across updates
(and with every request duplicated, as in C09) is well-formed … -/
def good : List Op :=
  [.createBatch 1 1 100, .createUpdate 1 200 2 1 1, .insertGroups 1 1 1 [⟨1, some 0, 0⟩],
   .insertJobs 1 1 1 [⟨1, [], [], none, 1, false, 1000, 0⟩, ⟨2, [], [1], some 0, 0, false, 1000, 0⟩],
   .insertJobs 1 1 1 [⟨1, [], [], none, 1, false, 1000, 0⟩, ⟨2, [], [1], some 0, 0, false, 1000, 0⟩],
   .commitUpdate 1 1, .createUpdate 1 201 1 0 1,
   .insertJobs 1 2 1 [⟨1, [2], [], some 0, 0, false, 500, 0⟩], .commitUpdate 1 2]

example : HistWF init good := by decide
example : (after init good).parents = [(1, 2, 1), (1, 3, 2)] := by decide
/-- … and the orphan witness is exactly not (nor are the four rejected bunches) -/
example : ¬ HistWF init wOrphan ∧ ¬ HistWF init wSelf ∧ ¬ HistWF init wLater ∧ ¬ HistWF init wMissing ∧
    ¬ HistWF init wRange := by decide

end HailVerif.C08

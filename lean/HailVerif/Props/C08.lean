import HailVerif.Proofs.BatchDBSubmission
import HailVerif.Props.C07
/-!
# C08 — Accepted job graphs can always finish

Subject: the BatchDB model (`HailVerif.BatchDB`); `insertJobs` = `_create_jobs` of `front_end.py` (its checks are
`insertJobsReject`: user / deleted / committed, the per-row outcome of the multi-row `INSERT INTO jobs` — trigger
`jobs_before_insert`, primary key, foreign key on `job_groups` — and the duplicate key of `job_parents`);
`commitUpdate` = procedure `commit_batch_update`, whose only check is the NUMBER of staged jobs.

The property as written — "only submissions whose jobs depend on jobs that already exist earlier in the same batch are
accepted; a missing, later or self dependency, or a job id outside the update's reserved range, is rejected and leaves
the batch unchanged" — is **false** for the code (hence for the model): no such validation exists.  This file

* states the property at full strength (`AcceptedParentsPrecede`, `IllFormedRejected`),
* proves its negation on four reachable witnesses (`accepted_parents_precede_fails`, `ill_formed_rejected_fails`),
* proves the strongest partial statement: when every job bunch of the history satisfies the decidable client-side
  well-formedness predicate `SpecsWF`, the property holds in every state of the history
  (`accepted_parents_precede_partial`),
* shows on the self-parent witness that the accepted job never leaves `Pending`, so the committed batch never completes.
-/
namespace HailVerif.C08
open HailVerif.BatchDB HailVerif.BatchDB.Submission
open HailVerif.C07 (after Reachable)

/-! ## the property at full strength -/

/-- **Full statement (1).**  In every reachable state every job row `j` satisfies `JobOK`: each `job_parents` row of `j`
names an existing job of the same batch with a smaller id, and `j.id` lies in `[startJob, startJob + nJobs)` of the
update `j` belongs to. -/
def AcceptedParentsPrecede : Prop := ∀ s, Reachable s → AllJobsOK s

/-- **Full statement (2).**  A job bunch that is not well-formed w.r.t. its update row (`SpecsWF`: in-update id in
`1..n_jobs`, in-update parents smaller and present, absolute parents before the range and present) is answered with an
error and leaves the database unchanged. -/
def IllFormedRejected : Prop :=
  ∀ s, Reachable s → ∀ (b upd user : Nat) (specs : List JobSpec) (u : Update), findUpdate s b upd = some u →
    ¬ SpecsWF s b u specs →
    (step s (.insertJobs b upd user specs)).1 = s ∧ ∃ e, (step s (.insertJobs b upd user specs)).2 = .err e

/-! ## witnesses: four accepted and committed bunches that violate it -/

/-- job 1 names itself as in-update parent -/
def wSelf : List Op :=
  [.createBatch 1 1 100, .createUpdate 1 200 1 0 1,
   .insertJobs 1 1 1 [⟨1, [], [1], some 0, 0, false, 1000, 0⟩], .commitUpdate 1 1]

/-- job 1 names the LATER in-update job 2 as parent -/
def wLater : List Op :=
  [.createBatch 1 1 100, .createUpdate 1 200 2 0 1,
   .insertJobs 1 1 1 [⟨1, [], [2], some 0, 0, false, 1000, 0⟩, ⟨2, [], [], some 0, 0, false, 1000, 0⟩], .commitUpdate 1 1]

/-- job 1 names the absolute parent 7, which does not exist -/
def wMissing : List Op :=
  [.createBatch 1 1 100, .createUpdate 1 200 1 0 1,
   .insertJobs 1 1 1 [⟨1, [7], [], some 0, 0, false, 1000, 0⟩], .commitUpdate 1 1]

/-- the update reserves ONE job id (`n_jobs = 1`, range `[1, 2)`) but the job is sent with in-update id 5 -/
def wRange : List Op :=
  [.createBatch 1 1 100, .createUpdate 1 200 1 0 1,
   .insertJobs 1 1 1 [⟨5, [], [], some 0, 0, false, 1000, 0⟩], .commitUpdate 1 1]

/-- every witness bunch is accepted (`ok 0`) and its update commits (`rc 0`): the count check is the only check -/
theorem witnesses_accepted :
    (step (after init (wSelf.take 2)) wSelf[2]).2 = .ok 0 ∧ (step (after init (wSelf.take 3)) wSelf[3]).2 = .ok 0 ∧
    (step (after init (wLater.take 2)) wLater[2]).2 = .ok 0 ∧ (step (after init (wLater.take 3)) wLater[3]).2 = .ok 0 ∧
    (step (after init (wMissing.take 2)) wMissing[2]).2 = .ok 0 ∧ (step (after init (wMissing.take 3)) wMissing[3]).2 = .ok 0 ∧
    (step (after init (wRange.take 2)) wRange[2]).2 = .ok 0 ∧ (step (after init (wRange.take 3)) wRange[3]).2 = .ok 0 := by
  decide

theorem self_parent_accepted : ¬ AllJobsOK (after init wSelf) := by decide
theorem later_parent_accepted : ¬ AllJobsOK (after init wLater) := by decide
theorem missing_parent_accepted : ¬ AllJobsOK (after init wMissing) := by decide
theorem out_of_range_id_accepted : ¬ AllJobsOK (after init wRange) := by decide

/-- the rows the witnesses leave behind, for the record: (job id, state, n_pending_parents) and `job_parents` -/
example : ((after init wSelf).jobs.map fun j => (j.id, j.state, j.npp)) = [(1, .Pending, 1)] ∧
    (after init wSelf).parents = [(1, 1, 1)] ∧
    ((after init wLater).jobs.map fun j => (j.id, j.state, j.npp)) = [(1, .Pending, 1), (2, .Ready, 0)] ∧
    (after init wLater).parents = [(1, 1, 2)] ∧
    ((after init wMissing).jobs.map fun j => (j.id, j.state, j.npp)) = [(1, .Pending, 1)] ∧
    (after init wMissing).parents = [(1, 1, 7)] ∧
    ((after init wRange).jobs.map fun j => (j.id, j.state, j.npp)) = [(5, .Ready, 0)] := by decide

/-- **The property fails**: a self parent is accepted and committed (so are a later parent, a missing parent and an
out-of-range job id: the three theorems above). -/
theorem accepted_parents_precede_fails : ¬ AcceptedParentsPrecede :=
  fun h => self_parent_accepted (h _ ⟨wSelf, rfl⟩)

/-- **The rejection half fails too**: the ill-formed self-parent bunch is answered `ok 0` and writes its rows. -/
theorem ill_formed_rejected_fails : ¬ IllFormedRejected := by
  intro h
  have hr : Reachable (after init (wSelf.take 2)) := ⟨_, rfl⟩
  obtain ⟨-, e, he⟩ := h _ hr 1 1 1 [⟨1, [], [1], some 0, 0, false, 1000, 0⟩] ⟨1, 1, 200, 1, 1, 1, 0, false⟩
    (by decide) (by decide)
  have : (step (after init (wSelf.take 2)) (.insertJobs 1 1 1 [⟨1, [], [1], some 0, 0, false, 1000, 0⟩])).2 = .ok 0 := by
    decide
  rw [this] at he; cases he

/-! ## the partial theorem -/

/-- **Partial.**  If every request of the history is well-formed in the state it is applied to (`HistWF`: for a job
bunch, `SpecsWF` w.r.t. the update row it addresses — what `aioclient` produces when bunches are sent in order), then
in the reached state every job's parents exist, have smaller ids, and its id lies in its update's reserved range. -/
theorem accepted_parents_precede_partial (ops : List Op) (hwf : HistWF init ops) : AllJobsOK (after init ops) :=
  (c08_run ops init hwf ⟨by intro j hj; simp [init] at hj, by intro e he; simp [init] at he⟩).1

/-- the same, one transaction at a time, from any state satisfying the invariant (`ParentsOwned`: every `job_parents`
row belongs to an existing job — true in every reachable state of a well-formed history) -/
theorem accepted_parents_precede_step (s : State) (op : Op) (hwf : OpWF s op) (h : AllJobsOK s ∧ ParentsOwned s) :
    AllJobsOK (step s op).1 ∧ ParentsOwned (step s op).1 :=
  c08_step s op hwf h

/-- in particular the parents graph of a well-formed history is acyclic and finite-descending: following `job_parents`
rows strictly decreases the job id -/
theorem parents_decrease (ops : List Op) (hwf : HistWF init ops) (j : Job) (hj : j ∈ (after init ops).jobs)
    (p : Nat) (hp : (j.batch, j.id, p) ∈ (after init ops).parents) :
    p < j.id ∧ ∃ pj, findJob (after init ops) j.batch p = some pj :=
  let h := (accepted_parents_precede_partial ops hwf j hj).1 _ hp rfl rfl
  ⟨h.1, Option.isSome_iff_exists.mp h.2⟩

/-- the hypothesis is satisfiable: a two-update history with an in-bunch parent and an absolute parent across updates
(and with every request duplicated, as in C09) is well-formed … -/
def good : List Op :=
  [.createBatch 1 1 100, .createUpdate 1 200 2 1 1, .insertGroups 1 1 1 [⟨1, some 0, 0⟩],
   .insertJobs 1 1 1 [⟨1, [], [], none, 1, false, 1000, 0⟩, ⟨2, [], [1], some 0, 0, false, 1000, 0⟩],
   .insertJobs 1 1 1 [⟨1, [], [], none, 1, false, 1000, 0⟩, ⟨2, [], [1], some 0, 0, false, 1000, 0⟩],
   .commitUpdate 1 1, .createUpdate 1 201 1 0 1,
   .insertJobs 1 2 1 [⟨1, [2], [], some 0, 0, false, 500, 0⟩], .commitUpdate 1 2]

example : HistWF init good := by decide
example : (after init good).parents = [(1, 2, 1), (1, 3, 2)] := by decide
/-- … and the witnesses are exactly not -/
example : ¬ HistWF init wSelf ∧ ¬ HistWF init wLater ∧ ¬ HistWF init wMissing ∧ ¬ HistWF init wRange := by decide

/-! ## the accepted self-parent job can never run: the committed batch never completes -/

/-- After the commit the self-parent job is `Pending` with one pending parent (itself); the batch is `running` with
`n_jobs = 1`.  Whatever the driver then tries — a fresh active instance, scheduling the job, marking it started,
reporting it complete, cancelling the batch, reporting it complete again (the canceller's call) — the job stays
`Pending`, nothing is counted complete, and the batch stays `running`. -/
def poke : List Op :=
  [.newInstance 7 4000 true, .activate 7, .schedule 1 1 1 7, .started 1 1 1 7 10 0,
   .complete 1 1 (some 1) (some 7) .Success (some 10) (some 20) "completed" 0,
   .cancelGroup 1 0, .complete 1 1 none none .Cancelled none none "cancelled" 0, .cleanupStaging, .compact]

theorem never_ready_witness :
    ∀ n ≤ poke.length,
      ((after init (wSelf ++ poke.take n)).jobs.map fun j => (j.id, j.state)) = [(1, .Pending)] ∧
      ((after init (wSelf ++ poke.take n)).batches.map fun b => (b.state, b.nJobs)) = [(.running, 1)] ∧
      ((after init (wSelf ++ poke.take n)).groups.map fun g => (g.id, g.state, g.nJobs, g.nCompleted)) =
        [(0, .running, 1, 0)] := by
  decide

end HailVerif.C08

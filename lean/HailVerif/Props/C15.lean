import HailVerif.Proofs.SpecFormat
/-!
# C15 — Stored job specs and region sets round-trip

Subject: `HailVerif.SpecFormat.dbSpec` and the five getters (models of `BatchFormatVersion.db_spec` /
`get_spec_*`, batch/batch/batch_format_version.py) and `regionsToBits` / `bitsToRegions` (models of
`regions_to_bits_rep` / `regions_bits_rep_to_regions`, batch/batch/utils.py), tied to the code by the correspondence
check `harness/props/c15.py`.

The spec theorems quantify over **every format version** `v : Nat` (so in particular 1..current = 7), every typed spec
`s : SpecV` (secrets / service account / input files / output files / machine type each present or absent, any
strings, any number of secrets, `mount_in_copy` present or absent) and every set of other keys.  The conventions are
part of the statements (`Proofs/SpecFormat.lean`):
* secrets — format 1 returns the field as stored (absent ↦ None, `[]` ↦ `[]`, `mount_in_copy` as given); formats ≥ 2
  return every secret with all four keys and `mount_in_copy` a bool (absent ↦ False), and None for absent **or empty**;
* service account — the same dict, absent ↦ None;
* input/output flags — true iff the list is present and non-empty;
* machine spec — None for formats < 5 (not stored); for formats ≥ 5 the three fields, None when `machine_type` is
  absent or the empty string.
-/
set_option linter.unusedSimpArgs false
namespace HailVerif.C15
open HailVerif.SpecFormat

variable (v : Nat) (s : SpecV) (others : List (String × J))

/-- `db_spec` never raises on a validator-accepted spec. -/
theorem db_spec_total (ho : OthersOk others) (hr : ResourcesOk s) : (dbSpec v (s.toJ others)).isSome = true := by
  by_cases hv : v = 1
  · simp [dbSpec, hv]
  · rw [dbSpec_eq v hv s others ho hr]; rfl

/-- secrets: `get_spec_secrets(db_spec(spec))` is the spec's secrets (conventions above). -/
theorem secrets_roundtrip (ho : OthersOk others) (hr : ResourcesOk s) :
    (dbSpec v (s.toJ others)).bind (getSecrets v) = some (expectedSecrets v s) := by
  by_cases hv : v = 1
  · simp only [dbSpec, getSecrets, expectedSecrets, hv, if_true, Option.bind_some, (lookups s others ho).1]
    cases s.secrets <;> rfl
  · rw [dbSpec_eq v hv s others ho hr]
    simp only [Option.bind_some, getSecrets, expectedSecrets, hv, if_false, J.at, List.cons_append, List.getElem?_cons_zero,
      compactSecrets]
    cases hs : s.secrets with
    | none => simp [J.truthy]
    | some l =>
      cases l with
      | nil => simp [J.truthy]
      | cons a tl =>
        have := mapM_secretOfDb (a :: tl)
        simp only [List.map_cons] at this
        simp [J.truthy, J.elems, this]

/-- service account: `get_spec_service_account(db_spec(spec))` is the spec's service account, absent ↦ None. -/
theorem service_account_roundtrip (ho : OthersOk others) (hr : ResourcesOk s) :
    (dbSpec v (s.toJ others)).bind (getServiceAccount v) = some (expectedServiceAccount s) := by
  by_cases hv : v = 1
  · simp only [dbSpec, getServiceAccount, expectedServiceAccount, hv, if_true, Option.bind_some, (lookups s others ho).2.1]
    cases s.serviceAccount <;> rfl
  · rw [dbSpec_eq v hv s others ho hr]
    simp only [Option.bind_some, getServiceAccount, expectedServiceAccount, hv, if_false, J.at, List.cons_append,
      List.getElem?_cons_succ, List.getElem?_cons_zero, compactServiceAccount]
    cases hs : s.serviceAccount with
    | none => simp [J.truthy]
    | some p => simp [J.truthy, J.at]

/-- input-files flag: true exactly when `input_files` is present and non-empty. -/
theorem has_input_files_roundtrip (ho : OthersOk others) (hr : ResourcesOk s) :
    (dbSpec v (s.toJ others)).bind (getHasInputFiles v) = some (expectedHasFiles s.inputFiles) := by
  by_cases hv : v = 1
  · simp only [dbSpec, getHasInputFiles, hv, if_true, Option.bind_some, (hasFiles_eq s others ho).1]
  · rw [dbSpec_eq v hv s others ho hr]
    simp only [Option.bind_some, getHasInputFiles, hv, if_false, J.at, List.cons_append, List.getElem?_cons_succ,
      List.getElem?_cons_zero]
    cases expectedHasFiles s.inputFiles <;> simp [boolInt, J.truthy]

/-- output-files flag: true exactly when `output_files` is present and non-empty. -/
theorem has_output_files_roundtrip (ho : OthersOk others) (hr : ResourcesOk s) :
    (dbSpec v (s.toJ others)).bind (getHasOutputFiles v) = some (expectedHasFiles s.outputFiles) := by
  by_cases hv : v = 1
  · simp only [dbSpec, getHasOutputFiles, hv, if_true, Option.bind_some, (hasFiles_eq s others ho).2]
  · rw [dbSpec_eq v hv s others ho hr]
    simp only [Option.bind_some, getHasOutputFiles, hv, if_false, J.at, List.cons_append, List.getElem?_cons_succ,
      List.getElem?_cons_zero]
    cases expectedHasFiles s.outputFiles <;> simp [boolInt, J.truthy]

/-- machine spec: formats ≥ 5 give back machine type, preemptible flag and storage; formats < 5 give None. -/
theorem machine_spec_roundtrip (ho : OthersOk others) (hr : ResourcesOk s) :
    (dbSpec v (s.toJ others)).bind (getMachineSpec v) = some (expectedMachineSpec v s) := by
  by_cases hv : v = 1
  · simp [dbSpec, getMachineSpec, expectedMachineSpec, hv]
  · rw [dbSpec_eq v hv s others ho hr]
    by_cases h5 : v < 5
    · simp [getMachineSpec, expectedMachineSpec, h5]
    · simp only [Option.bind_some, getMachineSpec, expectedMachineSpec, h5, if_false, J.at, List.cons_append, List.nil_append,
        List.getElem?_cons_succ, List.getElem?_cons_zero, compactMachineSpec]
      cases hm : s.machineType with
      | none => simp [J.truthy]
      | some mt =>
        by_cases he : mt = ""
        · simp [J.truthy, he]
        · cases hp : s.preemptible <;> simp [J.truthy, he, J.at, boolInt]

/-- For the compact formats "no secrets" is reported exactly when the list is absent or empty. -/
theorem secrets_none_iff (hv : v ≠ 1) : expectedSecrets v s = .null ↔ (s.secrets = none ∨ s.secrets = some []) := by
  unfold expectedSecrets
  simp only [hv, if_false]
  cases hs : s.secrets with
  | none => simp
  | some l => cases l <;> simp

/-! ## region sets -/

/-- **bits_roundtrip**: for any mapping region ↦ index with distinct regions, distinct indices, all indices in 1..63,
and any selection of mapped regions (in any order, repetitions allowed): the bitset is computed (no assertion fires),
fits 63 bits (a non-negative BIGINT), and decoding it yields exactly the selected regions — as a set, listed in the
mapping's order. -/
theorem bits_roundtrip (mapping : List (String × Nat)) (hkeys : (mapping.map Prod.fst).Nodup)
    (hinj : (mapping.map Prod.snd).Nodup) (hrange : ∀ p ∈ mapping, 1 ≤ p.2 ∧ p.2 ≤ 63)
    (selected : List String) (hsel : ∀ r ∈ selected, r ∈ mapping.map Prod.fst) :
    ∃ b, regionsToBits selected mapping = some b ∧ b < 2 ^ 63 ∧
      bitsToRegions b mapping = some ((mapping.map Prod.fst).filter (fun r => decide (r ∈ selected))) := by
  exact bits_roundtrip_aux mapping hkeys hinj hrange selected hsel

/-- `None` (no region restriction stored) decodes to `None`. -/
theorem bits_none (mapping : List (String × Nat)) : bitsToRegionsOpt none mapping = some none := rfl

/-- The empty selection is the empty bitset and decodes to the empty list. -/
theorem bits_empty (mapping : List (String × Nat)) (hrange : ∀ p ∈ mapping, 1 ≤ p.2 ∧ p.2 ≤ 63) :
    regionsToBits [] mapping = some 0 ∧ bitsToRegions 0 mapping = some [] := by
  refine ⟨rfl, ?_⟩
  unfold bitsToRegions
  rw [bitsToRegions_spec 0 mapping [] (fun p hp => (hrange p hp).1)]
  simp

/-! ## the caller: what `_create_jobs` stores for the jobs of one bunch -/

/-- **Per-job independence**: in a bunch accepted by `_create_jobs` there is one row per job, and the
`(n_regions, regions_bits_rep)` stored for a job is what that job alone would get — it depends on the job's own
`regions` only, not on the jobs before it. -/
theorem bunch_regions_independent (mapping : List (String × Nat)) (jobs : List (Option (List String)))
    (rows : List (Option Nat × Option Nat)) (h : bunchRegions mapping jobs = some rows) :
    rows.length = jobs.length ∧ ∀ p ∈ jobs.zip rows, jobRegions mapping p.1 = some p.2 :=
  mapM_zip _ jobs rows h

/-- What is stored for one job decodes to exactly the regions the job selected (in mapping order); a job without
preference is stored as NULL and decodes to `None`; `n_regions` is the length of the submitted list. -/
theorem job_regions_roundtrip (mapping : List (String × Nat)) (hkeys : (mapping.map Prod.fst).Nodup)
    (hinj : (mapping.map Prod.snd).Nodup) (hrange : ∀ p ∈ mapping, 1 ≤ p.2 ∧ p.2 ≤ 63)
    (job : Option (List String)) (n bits : Option Nat) (h : jobRegions mapping job = some (n, bits)) :
    n = job.map List.length ∧
    bitsToRegionsOpt bits mapping = some (job.map fun rs => (mapping.map Prod.fst).filter (fun r => decide (r ∈ rs))) := by
  cases job with
  | none =>
    simp only [jobRegions, Option.some.injEq, Prod.mk.injEq] at h
    obtain ⟨rfl, rfl⟩ := h
    exact ⟨rfl, rfl⟩
  | some rs =>
    simp only [jobRegions] at h
    split at h
    · cases h
    next hvalid =>
      split at h
      · cases h
      · have hsel : ∀ r ∈ rs, r ∈ mapping.map Prod.fst := by
          intro r hr
          have : ¬ (mapping.lookup r).isNone = true := fun hc => hvalid (List.any_eq_true.2 ⟨r, hr, hc⟩)
          cases hl : mapping.lookup r with
          | none => simp [hl] at this
          | some i => exact List.mem_map.2 ⟨(r, i), mem_of_lookup hl, rfl⟩
        obtain ⟨b, hb, _, hdec⟩ := bits_roundtrip mapping hkeys hinj hrange rs hsel
        rw [hb] at h
        simp only [Option.map_some, Option.some.injEq, Prod.mk.injEq] at h
        obtain ⟨rfl, rfl⟩ := h
        exact ⟨rfl, by simp [bitsToRegionsOpt, hdec]⟩

/-- Every row of an accepted bunch decodes to its own job's selection. -/
theorem bunch_regions_roundtrip (mapping : List (String × Nat)) (hkeys : (mapping.map Prod.fst).Nodup)
    (hinj : (mapping.map Prod.snd).Nodup) (hrange : ∀ p ∈ mapping, 1 ≤ p.2 ∧ p.2 ≤ 63)
    (jobs : List (Option (List String))) (rows : List (Option Nat × Option Nat)) (h : bunchRegions mapping jobs = some rows) :
    ∀ p ∈ jobs.zip rows, p.2.1 = p.1.map List.length ∧
      bitsToRegionsOpt p.2.2 mapping = some (p.1.map fun rs => (mapping.map Prod.fst).filter (fun r => decide (r ∈ rs))) := by
  intro p hp
  exact job_regions_roundtrip mapping hkeys hinj hrange p.1 p.2.1 p.2.2 ((bunch_regions_independent mapping jobs rows h).2 p hp)

/-! ## non-vacuity (evaluated by the kernel) -/

/-- a CI-style job: one secret without `mount_in_copy`, no service account, input files, a machine type -/
def ex1 : SpecV := ⟨some [⟨"default", "gsa-key", "/gsa-key", none⟩], none, some [.null], none, some "n1-standard-1", true, 10, []⟩
/-- empty secrets list, a service account, no files, no machine type -/
def ex2 : SpecV := ⟨some [], some ("ns", "sa"), some [], none, none, false, 0, [("cores_mcpu", .int 1000)]⟩

example : dbSpec 7 (ex1.toJ [("job_id", .int 1)]) = some (.arr [.arr [.arr [.str "default", .str "gsa-key", .str "/gsa-key", .int 0]],
    .null, .int 1, .int 0, .arr [.str "n1-standard-1", .int 1, .int 10]]) := by rfl
example : dbSpec 4 (ex1.toJ []) = some (.arr [.arr [.arr [.str "default", .str "gsa-key", .str "/gsa-key", .int 0]],
    .null, .int 1, .int 0]) := by rfl
example : (dbSpec 7 (ex1.toJ [])).bind (getSecrets 7) = some (.arr [.obj [("namespace", .str "default"), ("name", .str "gsa-key"),
    ("mount_path", .str "/gsa-key"), ("mount_in_copy", .bool false)]]) := by rfl
example : (dbSpec 7 (ex2.toJ [])).bind (getSecrets 7) = some .null := by rfl          -- `[]` ↦ None for formats ≥ 2
example : (dbSpec 1 (ex2.toJ [])).bind (getSecrets 1) = some (.arr []) := by rfl      -- `[]` ↦ `[]` for format 1
example : (dbSpec 7 (ex1.toJ [])).bind (getMachineSpec 7) = some (.obj [("machine_type", .str "n1-standard-1"),
    ("preemptible", .bool true), ("storage_gib", .int 10)]) := by rfl
example : (dbSpec 4 (ex1.toJ [])).bind (getMachineSpec 4) = some .null := by rfl      -- formats < 5 do not store it
example : (dbSpec 7 (ex2.toJ [])).bind (getHasInputFiles 7) = some false := by rfl    -- present but empty
example : dbSpec 7 (.obj [("secrets", .null)]) = none := by rfl                       -- no `resources`: AttributeError
example : OthersOk [("job_id", .int 1)] ∧ ResourcesOk ex2 := ⟨⟨rfl, rfl, rfl, rfl, rfl⟩, ⟨rfl, rfl, rfl⟩⟩
-- a job with a preference followed by one without: the second row is (NULL, NULL)
example : bunchRegions [("a", 1), ("b", 2)] [some ["b"], none, some ["a", "b"], none] =
    some [(some 1, some 2), (none, none), (some 2, some 3), (none, none)] := by decide
example : bunchRegions [("a", 1), ("b", 2)] [some ["b"], some []] = none := by decide          -- empty list: 400
example : bunchRegions [("a", 1), ("b", 2)] [none, some ["zz"]] = none := by decide           -- unknown region: 400
example : regionsToBits ["b", "a", "b"] [("a", 1), ("b", 2), ("c", 63)] = some 3 := by decide
example : bitsToRegions 3 [("a", 1), ("b", 2), ("c", 63)] = some ["a", "b"] := by decide
example : regionsToBits ["c"] [("a", 1), ("b", 2), ("c", 63)] = some (2 ^ 62) := by decide
example : regionsToBits ["d"] [("a", 1)] = none := by decide                          -- KeyError
example : regionsToBits ["a"] [("a", 64)] = none := by decide                         -- assert idx < 64
example : regionsToBits ["a"] [("a", 0)] = none := by decide                          -- negative shift

end HailVerif.C15

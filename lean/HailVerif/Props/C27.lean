import HailVerif.Proofs.TxRetry
/-!
# C27 — Database transactions retry only transient errors, atomically

Subject: `HailVerif.TxRetry.run`, the model of `gear.database.transaction` = `retry_transient_mysql_errors` around
`async with db.start() as tx: await fun(tx)` (`gear/gear/database.py`), tied to the real code by the correspondence
check `harness/props/c27.py` (the real `@transaction` wrapper over a fake aiomysql pool with fault injection at every
statement index).

A body statement is a pair `(issued with a query_name?, statement)`: with a `query_name` the `cursor.execute` of
`Transaction.execute_*` runs inside `async with PrometheusSQLTimer(query_name)` (`gear/gear/metrics.py`); the truth value of that
context manager's `__aexit__` result is re-read from the source on every run (`Generated.SqlTimer.aexitTruthy`).

The theorems quantify over every database state type, every statement semantics `step` (statements may fail by
themselves), every body (every choice of instrumented statements), every fault script per attempt (any statement index, any error class and code) and every finite
list of such scripts ("all sequences of injected MySQL errors at any statement of a transaction").
Outside the model: statement-internal concurrency, and what the server / client library do to a connection after a
network error (the fake pool's assumptions are listed in the evidence).
-/
namespace HailVerif.C27
open HailVerif.TxRetry

variable {σ W : Type} (step : σ → W → Except Err σ) (handler : W → Err → Err) (db : σ) (body : List (Bool × W))

/-- An attempt that fails with `e` is followed by another attempt exactly when `e` is classified retryable. -/
theorem retries_iff_retryable (f : Option (Nat × Err)) (fs : List (Option (Nat × Err))) (e : Err) (db' : σ)
    (h : attempt step handler db body f = (db', some e)) :
    2 ≤ (run step handler db body (f :: fs)).attempts ↔ retryable e = true := by
  unfold run
  simp only [runFrom, h]
  by_cases hr : retryable e = true
  · simp only [hr, if_true, iff_true]
    have := attempts_runFrom_ge step handler db' body fs 1
    omega
  · simp [hr]

/-- A retryable failure restarts the whole operation on the untouched database. -/
theorem retried_transient (f : Option (Nat × Err)) (fs : List (Option (Nat × Err))) (e : Err) (db' : σ)
    (h : attempt step handler db body f = (db', some e)) (hr : retryable e = true) :
    run step handler db body (f :: fs) = runFrom step handler 1 db body fs := by
  have hdb := attempt_err_retryable step handler db db' body f e h hr
  subst hdb
  unfold run
  simp [runFrom, h, hr]

/-- The number of retries is unbounded: however many consecutive attempts fail with a retryable error (each leaves the database as
it found it, `attempt_err`), the wrapper keeps going and the outcome is that of the next attempt, reached after exactly that many
retries. -/
theorem retries_unbounded (fs rest : List (Option (Nat × Err)))
    (h : ∀ f ∈ fs, ∃ e, attempt step handler db body f = (db, some e) ∧ retryable e = true) :
    run step handler db body (fs ++ rest) = runFrom step handler fs.length db body rest := by
  unfold run
  suffices hs : ∀ n, runFrom step handler n db body (fs ++ rest) = runFrom step handler (n + fs.length) db body rest by simpa using hs 0
  induction fs with
  | nil => intro n; simp
  | cons f fs ih =>
    intro n
    obtain ⟨e, he, hr⟩ := h f (List.mem_cons_self ..)
    simp only [List.cons_append, runFrom, he, hr, if_true, List.length_cons]
    rw [ih (fun g hg => h g (List.mem_cons_of_mem _ hg)) (n + 1)]
    congr 1
    omega

/-- Any other failure is re-raised at once: one attempt, the error of that attempt, the database untouched (`he`: the failure is
not a cancellation; for that case see `cancelled_all_or_nothing`). -/
theorem gives_up_on_other (f : Option (Nat × Err)) (fs : List (Option (Nat × Err))) (e : Err) (db' : σ)
    (h : attempt step handler db body f = (db', some e)) (hr : retryable e = false) (he : e ≠ cancelled) :
    run step handler db body (f :: fs) = ⟨db, some e, 1⟩ := by
  have hdb : db' = db := by
    rcases attempt_err step handler db db' body f e h with h1 | ⟨h1, _⟩
    · exact h1
    · exact absurd h1 he
  subst hdb
  unfold run
  simp [runFrom, h, hr]

/-- An attempt ended by the cancellation of the calling task (or any other `BaseException` leaving the body) is not retried, and
is all or nothing: the database is untouched, unless the cancellation arrived while the COMMIT was already in flight — then the
shielded commit completes and the whole body is applied.  Never a part of the body. -/
theorem cancelled_all_or_nothing (f : Option (Nat × Err)) (fs : List (Option (Nat × Err))) (e : Err) (db' : σ)
    (h : attempt step handler db body f = (db', some e)) (hb : e.cls = .base) :
    run step handler db body (f :: fs) = ⟨db', some e, 1⟩ ∧ (db' = db ∨ exec step handler db body none = .ok db') := by
  have hr : retryable e = false := by obtain ⟨c, n⟩ := e; simp only at hb; subst hb; rfl
  refine ⟨by unfold run; simp [runFrom, h, hr], ?_⟩
  rcases attempt_err step handler db db' body f e h with h1 | ⟨_, h2⟩
  · exact Or.inl h1
  · exact Or.inr h2

/-- No retried or failed attempt leaves partial writes behind: for every sequence of fault scripts (injected MySQL errors,
`BaseException`s, cancellations) the final database is the initial one with exactly the statements of the body applied (by the one
attempt that committed), or the initial database itself when the operation gave up — the only failure that can leave the body
applied is a cancellation that arrived after the COMMIT was sent. -/
theorem no_partial_writes (scripts : List (Option (Nat × Err))) :
    ((run step handler db body scripts).error = none → exec step handler db body none = .ok (run step handler db body scripts).db) ∧
    (∀ e, (run step handler db body scripts).error = some e → (run step handler db body scripts).db = db ∨
      (e = cancelled ∧ exec step handler db body none = .ok (run step handler db body scripts).db)) :=
  runFrom_spec step handler db body scripts 0

/-- An error raised by an instrumented statement (one issued with a `query_name`) leaves the metrics timer unchanged: the
timer's `__aexit__` does not suppress it, so it reaches `Transaction._aexit` (rollback) and the retry wrapper. -/
theorem instrumented_error_propagates (cur : σ) (e : Err) : timed true cur (.error e : Except Err σ) = .error e :=
  timed_eq true cur _

/-- Instrumentation is transparent: an attempt behaves the same whichever of its statements carry a `query_name`. -/
theorem query_name_transparent (f : Option (Nat × Err)) :
    ∀ cur : σ, exec step handler cur body f = exec step handler cur (body.map fun p => (false, p.2)) f := by
  induction body generalizing f with
  | nil => intro cur; rfl
  | cons p ps ih =>
    obtain ⟨q, w⟩ := p
    intro cur
    cases f with
    | none =>
      simp only [exec, timed_eq, List.map]
      cases step cur w with
      | error e' => rfl
      | ok cur' => exact ih none cur'
    | some fe =>
      obtain ⟨i, e⟩ := fe
      cases i with
      | zero => simp [exec, timed_eq]
      | succ i =>
        simp only [exec, timed_eq, List.map]
        cases step cur w with
        | error e' => rfl
        | ok cur' => exact ih (some (i, e)) cur'

/-- … hence so does the whole retried operation. -/
theorem run_query_name_transparent (scripts : List (Option (Nat × Err))) :
    run step handler db body scripts = run step handler db (body.map fun p => (false, p.2)) scripts := by
  have hatt : ∀ (d : σ) f, attempt step handler d body f = attempt step handler d (body.map fun p => (false, p.2)) f := by
    intro d f
    simp only [attempt, Conn.begin, List.length_map]
    rw [query_name_transparent step handler body f d, query_name_transparent step handler body none d]
  unfold run
  generalize 0 = n
  induction scripts generalizing n db with
  | nil => simp only [runFrom, hatt]
  | cons f fs ih =>
    simp only [runFrom, hatt]
    generalize attempt step handler db (body.map fun p => (false, p.2)) f = a
    obtain ⟨db', err⟩ := a
    cases err with
    | none => rfl
    | some e =>
      by_cases hr : retryable e = true
      · simp only [hr, if_true]; exact ih db' (n + 1)
      · simp [hr]

/-- The wrapper classifies the exception that escapes the body, not what caused it: when the body catches a statement's MySQL
error and raises its own application error (with or without `from e`), that error is "any other error" and is not retried,
even if the MySQL error behind it was transient. -/
theorem app_error_not_retried (s : KV.Stmt) (e : Err) (h : KV.isMySQLError e = true) :
    retryable (KV.handler (.guarded true s) e) = false := by
  simp [KV.handler, h, KV.appError, retryable]

/-- The classifier retries exactly the transient conditions the property names … -/
theorem only_transient_retried (e : Err) (h : retryable e = true) : e.code ∈ transientCodes := by
  obtain ⟨c, n⟩ := e
  cases c <;> simp [retryable, internalRetryCodes, operationalRetryCodes, transientCodes] at h ⊢ <;> omega

/-- … and every one of them, as PyMySQL 1.1.2 raises it (deadlock 1213, lock wait timeout 1205, lost connection 2013,
cannot connect 2003, too many connections 1040). -/
theorem transient_list_retried : ∀ c ∈ transientCodes, retryable ⟨pymysqlClass c, c⟩ = true := by decide

/-- The lock wait timeout is retried under both classes it has been raised as (InternalError by PyMySQL < 1.0,
OperationalError by 1.1.2). -/
theorem lock_wait_timeout_retried_both_classes :
    retryable ⟨.operational, 1205⟩ = true ∧ retryable ⟨.internal, 1205⟩ = true := by decide

/-- Errors that are not transient are not retried whatever their class: duplicate key, syntax error, SIGNAL,
unknown column, and every non-MySQL exception. -/
theorem other_errors_not_retried :
    retryable ⟨pymysqlClass 1062, 1062⟩ = false ∧ retryable ⟨pymysqlClass 1064, 1064⟩ = false ∧
    retryable ⟨pymysqlClass 1644, 1644⟩ = false ∧ retryable ⟨pymysqlClass 1054, 1054⟩ = false ∧
    (∀ n, retryable ⟨.other, n⟩ = false) ∧ (∀ n, retryable ⟨.interface, n⟩ = false) ∧ (∀ n, retryable ⟨.integrity, n⟩ = false) := by
  refine ⟨by decide, by decide, by decide, by decide, ?_, ?_, ?_⟩ <;> intro n <;> rfl

/-! Non-vacuity on the concrete key/value database of the correspondence check. -/
open KV in
-- deadlock at the 2nd statement, then lock wait timeout at COMMIT, then a clean attempt: 3 attempts, all writes once
example : (run KV.step KV.handler [(1, 5)] [(false, .upsert 1 2), (true, .upsert 7 1), (true, .update 1 10)]
      [some (1, ⟨.operational, 1213⟩), some (3, ⟨.operational, 1205⟩)]).attempts = 3 := by decide
open KV in
example : (run KV.step KV.handler [(1, 5)] [(false, .upsert 1 2), (true, .upsert 7 1), (true, .update 1 10)]
      [some (1, ⟨.operational, 1213⟩), some (3, ⟨.operational, 1205⟩)]).db = [(1, 17), (7, 1)] := by decide
open KV in
-- a syntax error at the 3rd statement after two writes: gives up, nothing written
example : run KV.step KV.handler [(1, 5)] [(false, .upsert 1 2), (true, .upsert 7 1), (true, .update 1 10)] [some (2, ⟨.programming, 1064⟩)]
    = ⟨[(1, 5)], some ⟨.programming, 1064⟩, 1⟩ := by decide
open KV in
-- a statement failing by itself (duplicate key) after a write: gives up, nothing written
example : run KV.step KV.handler [(1, 5)] [(true, .upsert 2 2), (false, .insert 1 0)] [] = ⟨[(1, 5)], some ⟨.integrity, 1062⟩, 1⟩ := by decide
open KV in
-- a fault index beyond the COMMIT never fires
example : run KV.step KV.handler [] [(false, .upsert 2 2)] [some (9, ⟨.operational, 1213⟩)] = ⟨[(2, 2)], none, 1⟩ := by decide
open KV in
-- a deadlock raised by an instrumented statement (issued with a query_name) is retried like any other: 2 attempts, writes once
example : run KV.step KV.handler [(1, 5)] [(true, .update 1 1), (true, .select 1), (true, .upsert 2 3)] [some (2, ⟨.operational, 1213⟩)]
    = ⟨[(1, 6), (2, 3)], none, 2⟩ := by decide
open KV in
-- a non-transient error raised by an instrumented statement after a write: raised to the caller, nothing written
example : run KV.step KV.handler [(1, 5)] [(true, .update 1 1), (true, .upsert 2 3)] [some (1, ⟨.operational, 1054⟩)]
    = ⟨[(1, 5)], some ⟨.operational, 1054⟩, 1⟩ := by decide
open KV in
-- a 5-row execute_many is one statement of one transaction: a deadlock at its COMMIT retries the whole call, every row applied once
example : run KV.step KV.handler [(1, 1)] [(false, .nop), (false, .nop), (true, .upsertMany 1 2 5)] [some (3, ⟨.operational, 1213⟩)]
    = ⟨[(1, 7), (2, 4)], none, 2⟩ := by decide
open KV in
-- twelve consecutive deadlocks at the same statement, then a clean attempt: 13 attempts, the write applied once
example : run KV.step KV.handler [(1, 5)] [(false, .nop), (false, .nop), (true, .update 1 10)] (List.replicate 12 (some (2, ⟨.operational, 1213⟩)))
    = ⟨[(1, 15)], none, 13⟩ := by decide
open KV in
-- the task is cancelled while the 2nd write is in flight, after the 1st write executed: rolled back, not retried, nothing written
example : run KV.step KV.handler [(1, 5)] [(false, .nop), (false, .nop), (false, .update 1 1), (true, .upsert 2 3)] [some (3, cancelled), none]
    = ⟨[(1, 5)], some cancelled, 1⟩ := by decide
open KV in
-- cancelled while the COMMIT is in flight: `asyncio.shield` lets the commit complete, the caller still sees CancelledError
example : run KV.step KV.handler [(1, 5)] [(false, .nop), (false, .nop), (false, .update 1 1), (true, .upsert 2 3)] [some (4, cancelled)]
    = ⟨[(1, 6), (2, 3)], some cancelled, 1⟩ := by decide
open KV in
-- a BaseException raised by conn.commit() itself is a failed commit: nothing written
example : run KV.step KV.handler [(1, 5)] [(false, .nop), (false, .nop), (false, .update 1 1)] [some (3, ⟨.base, 1⟩)]
    = ⟨[(1, 5)], some ⟨.base, 1⟩, 1⟩ := by decide
open KV in
-- a deadlock at a statement whose MySQL errors the body turns into its own error (`raise AppError() from e`): one attempt, rolled
-- back, the application error reaches the caller; the same fault at a statement that re-raises is retried
example : run KV.step KV.handler [(1, 5)] [(false, .nop), (false, .nop), (false, .update 1 1), (true, .guarded true (.upsert 2 3))]
    [some (3, ⟨.operational, 1213⟩)] = ⟨[(1, 5)], some appError, 1⟩ := by decide
open KV in
example : run KV.step KV.handler [(1, 5)] [(false, .nop), (false, .nop), (false, .update 1 1), (true, .guarded false (.upsert 2 3))]
    [some (3, ⟨.operational, 1213⟩)] = ⟨[(1, 6), (2, 3)], none, 2⟩ := by decide
example : pymysqlClass 1205 = .operational ∧ pymysqlClass 1213 = .operational ∧ pymysqlClass 2013 = .operational := by decide

end HailVerif.C27

import HailVerif.Proofs.SizeParse
/-!
# C25 — Resource-size strings parse to their decimal value

Subject: `HailVerif.SizeParse.parseCpu / parseMemory / parseStorage`, the models of
`hailtop.batch_client.parse.parse_cpu_in_mcpu / parse_memory_in_bytes / parse_storage_in_bytes`.  The suffix
alternatives of the three patterns, the presence of the trailing `B?` and the table `conv_factor` are re-extracted
from the source on every run (`Generated/SizeGrammar.lean`, translator tie); the functions are tied to the code by the
correspondence check `harness/props/c25.py`.

Specification (`Proofs/SizeParse.lean`): a size literal `l : SizeLit` = optional `+`, digits `ip`, optionally a point
and digits `fp`, optional unit suffix, optional `B`; `l.render` is its spelling, `l.valueQ : ℚ` the exact number
`ip.fp` read in base ten, `l.factor` the unit multiplier.  The theorems quantify over every well-formed literal
(any number of digits, leading zeros, every suffix of the extracted tables) and over every string.
-/
namespace HailVerif.C25
open HailVerif.SizeParse HailVerif.Generated.SizeGrammar

/-- well-formed literal of the cpu / memory / storage grammar -/
abbrev CpuLit (l : SizeLit) : Prop := l.WF cpuSuffixes cpuTrailingB
abbrev MemoryLit (l : SizeLit) : Prop := l.WF memorySuffixes memoryTrailingB
abbrev StorageLit (l : SizeLit) : Prop := l.WF storageSuffixes storageTrailingB

/-! ## facts about the extracted tables -/

/-- No suffix alternative is empty, starts with a digit or a point, or contains `B` — the side condition under which
the deterministic matcher of the model is the grammar. -/
theorem suffix_tables_ok : SuffixesOk cpuSuffixes ∧ SuffixesOk memorySuffixes ∧ SuffixesOk storageSuffixes := by
  decide

/-- The unit table is the decimal / binary one: K, M, G, T, P = 1000^1..5 and Ki, Mi, Gi, Ti, Pi = 1024^1..5. -/
theorem conv_factor_table :
    convFactor = [("K", 1000 ^ 1), ("Ki", 1024 ^ 1), ("M", 1000 ^ 2), ("Mi", 1024 ^ 2), ("G", 1000 ^ 3), ("Gi", 1024 ^ 3),
      ("T", 1000 ^ 4), ("Ti", 1024 ^ 4), ("P", 1000 ^ 5), ("Pi", 1024 ^ 5)] := by
  decide

/-- Every suffix the memory / storage patterns accept has a (positive) multiplier in `conv_factor`. -/
theorem every_suffix_has_factor :
    ∀ sf ∈ memorySuffixes ++ storageSuffixes, ∃ f, convFactor.lookup sf = some f ∧ 0 < f := by
  decide

/-- The memory and the storage grammar are the same grammar. -/
theorem memory_storage_same_grammar : memorySuffixes = storageSuffixes ∧ memoryTrailingB = storageTrailingB := by
  decide

/-! ## the grammar -/

/-- A string is accepted by `parse_cpu_in_mcpu` exactly when it spells a well-formed cpu literal. -/
theorem cpu_accepts_iff (s : List Char) : parseCpu s ≠ .noMatch ↔ ∃ l, CpuLit l ∧ s = l.render := by
  constructor
  · intro h
    unfold parseCpu at h
    cases hm : matchSize cpuSuffixes cpuTrailingB s with
    | none => rw [hm] at h; exact absurd rfl h
    | some g =>
      obtain ⟨l, hl, hs, _⟩ := matchSize_some_inv hm
      exact ⟨l, hl, hs⟩
  · rintro ⟨l, hl, rfl⟩
    unfold parseCpu
    rw [matchSize_render suffix_tables_ok.1 l hl]
    simp

/-- A string is accepted by `parse_memory_in_bytes` exactly when it spells a well-formed memory literal. -/
theorem memory_accepts_iff (s : List Char) : parseMemory s ≠ .noMatch ↔ ∃ l, MemoryLit l ∧ s = l.render := by
  constructor
  · intro h
    unfold parseMemory parseBytes at h
    cases hm : matchSize memorySuffixes memoryTrailingB s with
    | none => rw [hm] at h; exact absurd rfl h
    | some g =>
      obtain ⟨l, hl, hs, _⟩ := matchSize_some_inv hm
      exact ⟨l, hl, hs⟩
  · rintro ⟨l, hl, rfl⟩
    unfold parseMemory parseBytes
    rw [matchSize_render suffix_tables_ok.2.1 l hl]
    simp only
    split
    · split <;> simp
    · simp

/-- `parse_storage_in_bytes` is `parse_memory_in_bytes` (same grammar, same table, same arithmetic). -/
theorem storage_eq_memory (s : List Char) : parseStorage s = parseMemory s := by
  unfold parseStorage parseMemory
  rw [memory_storage_same_grammar.1, memory_storage_same_grammar.2]

private theorem parseBytes_ne_noMatch (sufs : List String) (allowB : Bool) (s : List Char) :
    parseBytes sufs allowB s ≠ .noMatch ↔ (matchSize sufs allowB s).isSome = true := by
  unfold parseBytes
  cases matchSize sufs allowB s with
  | none => simp
  | some g =>
    simp only [Option.isSome_some, iff_true]
    split
    · split <;> simp
    · simp

/-- **grammar_same_client_server**: the job validator of the server (`regex(PAT, REGEX)` = `fullmatch` with the compiled
objects of `parse.py`) accepts a cpu / storage string exactly when the client-side parser returns a value, and a memory
string exactly when the parser returns a value or the string is one of the `memory_types` words. -/
theorem grammar_same_client_server (s : List Char) :
    (serverAcceptsCpu s = true ↔ parseCpu s ≠ .noMatch) ∧
    (serverAcceptsStorage s = true ↔ parseStorage s ≠ .noMatch) ∧
    (serverAcceptsMemory s = true ↔ (parseMemory s ≠ .noMatch ∨ ∃ w ∈ memoryTypes, w.toList = s)) := by
  refine ⟨?_, ?_, ?_⟩
  · unfold serverAcceptsCpu parseCpu
    cases matchSize cpuSuffixes cpuTrailingB s <;> simp
  · unfold serverAcceptsStorage parseStorage
    rw [parseBytes_ne_noMatch]
  · unfold serverAcceptsMemory parseMemory
    rw [parseBytes_ne_noMatch]
    simp [List.any_eq_true]

/-- **The third party**: the `hailctl config` checks of `query/batch_{driver,worker}_cores` / `…_memory` accept exactly
what the client parsers accept (memory: plus the three worker-type words) — so client parser, server validator and
`hailctl config` agree on every string. -/
theorem grammar_same_hailctl_config (s : List Char) :
    (configAcceptsCores s = true ↔ parseCpu s ≠ .noMatch) ∧
    (configAcceptsMemory s = true ↔ (parseMemory s ≠ .noMatch ∨ ∃ w ∈ ["standard", "lowmem", "highmem"], w.toList = s)) ∧
    (configAcceptsCores s = serverAcceptsCpu s) ∧
    (memoryTypes = ["lowmem", "standard", "highmem"] → configAcceptsMemory s = serverAcceptsMemory s) := by
  refine ⟨?_, ?_, rfl, ?_⟩
  · unfold configAcceptsCores parseCpu
    cases matchSize cpuSuffixes cpuTrailingB s <;> simp
  · unfold configAcceptsMemory parseMemory
    rw [parseBytes_ne_noMatch]
    simp
  · intro h
    unfold configAcceptsMemory serverAcceptsMemory
    rw [h]
    simp only [List.any_cons, List.any_nil, Bool.or_false]
    generalize (matchSize memorySuffixes memoryTrailingB s).isSome = x
    generalize ("standard".toList == s) = a
    generalize ("lowmem".toList == s) = b
    generalize ("highmem".toList == s) = c
    cases x <;> cases a <;> cases b <;> cases c <;> rfl

/-- the words `hailctl config` accepts for memory are the server's `memory_types` (extracted table) -/
theorem memory_words_same : memoryTypes = ["lowmem", "standard", "highmem"] := by decide

/-! ## exact values -/

/-- the number of cores a cpu literal denotes: `m` means thousandths -/
noncomputable def cores (l : SizeLit) : ℚ := if l.suffix = some "m" then l.valueQ / 1000 else l.valueQ

/-- **cpu_exact**: every cpu literal parses to the floor of the exact number of millicores it denotes. -/
theorem cpu_exact (l : SizeLit) (hl : CpuLit l) : parseCpu l.render = .value ⌊cores l * 1000⌋₊ := by
  unfold parseCpu cores
  rw [matchSize_render suffix_tables_ok.1 l hl]
  simp only
  congr 1
  rw [Frac.floor_toQ, Frac.toQ_mulNat]
  split
  · rw [Frac.toQ_divNat, Frac.toQ_ofDecimal]; norm_num
  · rw [Frac.toQ_ofDecimal]; norm_num

/-- No rounding when the value has at most millicore precision: without suffix and with at most three fractional
digits the result is exactly `value · 1000`. -/
theorem cpu_exact_no_rounding (l : SizeLit) (hl : CpuLit l) (hs : l.suffix = none) (hk : l.fp.length ≤ 3) :
    ∃ m : Nat, parseCpu l.render = .value m ∧ (m : ℚ) = l.valueQ * 1000 := by
  refine ⟨digitsVal (l.ip ++ l.fp) * 10 ^ (3 - l.fp.length), ?_, ?_⟩
  · rw [cpu_exact l hl]
    congr 1
    have : cores l * 1000 = ((digitsVal (l.ip ++ l.fp) * 10 ^ (3 - l.fp.length) : ℕ) : ℚ) := by
      unfold cores SizeLit.valueQ
      simp only [hs]
      have h10 : (1000 : ℚ) = 10 ^ l.fp.length * 10 ^ (3 - l.fp.length) := by
        rw [← pow_add, show l.fp.length + (3 - l.fp.length) = 3 by omega]; norm_num
      push_cast
      rw [h10]
      field_simp
    rw [this, Nat.floor_natCast]
  · unfold SizeLit.valueQ
    have h10 : (1000 : ℚ) = 10 ^ l.fp.length * 10 ^ (3 - l.fp.length) := by
      rw [← pow_add, show l.fp.length + (3 - l.fp.length) = 3 by omega]; norm_num
    push_cast
    rw [h10]
    field_simp

/-- With the `m` suffix and no fractional part the result is the integer written. -/
theorem cpu_exact_milli (l : SizeLit) (hl : CpuLit l) (hs : l.suffix = some "m") (hfp : l.fp = []) :
    parseCpu l.render = .value (digitsVal l.ip) := by
  rw [cpu_exact l hl]
  congr 1
  have : cores l * 1000 = ((digitsVal l.ip : ℕ) : ℚ) := by
    unfold cores SizeLit.valueQ
    simp [hs, hfp]
  rw [this, Nat.floor_natCast]

/-- The result is never above the denoted value and less than one millicore below it. -/
theorem cpu_bounds (l : SizeLit) (hl : CpuLit l) {m : Nat} (h : parseCpu l.render = .value m) :
    (m : ℚ) ≤ cores l * 1000 ∧ cores l * 1000 < m + 1 := by
  rw [cpu_exact l hl] at h
  simp only [Outcome.value.injEq] at h
  subst h
  have h0 : 0 ≤ cores l * 1000 := by
    unfold cores SizeLit.valueQ
    split <;> positivity
  exact ⟨Nat.floor_le h0, Nat.lt_floor_add_one _⟩

private theorem bytes_exact (sufs : List String) (allowB : Bool) (hs : SuffixesOk sufs)
    (hf : ∀ sf ∈ sufs, ∃ f, convFactor.lookup sf = some f ∧ 0 < f) (l : SizeLit) (hl : l.WF sufs allowB) :
    parseBytes sufs allowB l.render = .value ⌈l.valueQ * l.factor⌉₊ := by
  unfold parseBytes SizeLit.factor
  rw [matchSize_render hs l hl]
  simp only
  have hden : 0 < (Frac.ofDecimal l.ip l.fp).den := pow10_pos _
  cases hsuf : l.suffix with
  | none =>
    simp only
    rw [Frac.ceil_toQ _ hden, Frac.toQ_ofDecimal]
    simp
  | some sf =>
    obtain ⟨f, hlk, _⟩ := hf sf (hl.suffixOk sf hsuf)
    simp only [hlk, Option.getD_some]
    rw [Frac.ceil_toQ _ (by simpa [Frac.mulNat] using hden), Frac.toQ_mulNat, Frac.toQ_ofDecimal]

/-- **mem_exact_ceil**: every memory literal parses to the exact byte count it denotes, rounded up. -/
theorem mem_exact_ceil (l : SizeLit) (hl : MemoryLit l) :
    parseMemory l.render = .value ⌈l.valueQ * l.factor⌉₊ :=
  bytes_exact _ _ suffix_tables_ok.2.1
    (fun sf h => every_suffix_has_factor sf (List.mem_append_left _ h)) l hl

/-- the same for storage -/
theorem storage_exact_ceil (l : SizeLit) (hl : StorageLit l) :
    parseStorage l.render = .value ⌈l.valueQ * l.factor⌉₊ :=
  bytes_exact _ _ suffix_tables_ok.2.2
    (fun sf h => every_suffix_has_factor sf (List.mem_append_right _ h)) l hl

/-- The byte count is never below the denoted value and less than one byte above it. -/
theorem mem_bounds (l : SizeLit) (hl : MemoryLit l) {n : Nat} (h : parseMemory l.render = .value n) :
    l.valueQ * l.factor ≤ n ∧ (n : ℚ) < l.valueQ * l.factor + 1 := by
  rw [mem_exact_ceil l hl] at h
  simp only [Outcome.value.injEq] at h
  subst h
  have h0 : 0 ≤ l.valueQ * l.factor := by unfold SizeLit.valueQ; positivity
  exact ⟨Nat.le_ceil _, Nat.ceil_lt_add_one h0⟩

/-- `conv_factor[suffix]` never raises: no string makes the memory / storage parser fail with a `KeyError`. -/
theorem no_key_error (s : List Char) : parseMemory s ≠ .keyError ∧ parseStorage s ≠ .keyError := by
  have key : ∀ sufs allowB, (∀ sf ∈ sufs, ∃ f, convFactor.lookup sf = some f ∧ 0 < f) →
      parseBytes sufs allowB s ≠ .keyError := by
    intro sufs allowB hf
    unfold parseBytes
    cases hm : matchSize sufs allowB s with
    | none => simp
    | some g =>
      obtain ⟨l, hl, _, rfl⟩ := matchSize_some_inv hm
      simp only
      cases hsuf : l.suffix with
      | none => simp
      | some sf =>
        obtain ⟨f, hlk, _⟩ := hf sf (hl.suffixOk sf hsuf)
        simp [hlk]
  exact ⟨key _ _ (fun sf h => every_suffix_has_factor sf (List.mem_append_left _ h)),
    key _ _ (fun sf h => every_suffix_has_factor sf (List.mem_append_right _ h))⟩

/-- Monotone: with the same unit, a literal denoting a larger number never parses to fewer millicores. -/
theorem cpu_monotone (l₁ l₂ : SizeLit) (h₁ : CpuLit l₁) (h₂ : CpuLit l₂) (hs : l₁.suffix = l₂.suffix)
    (hv : l₁.valueQ ≤ l₂.valueQ) {m₁ m₂ : Nat} (e₁ : parseCpu l₁.render = .value m₁)
    (e₂ : parseCpu l₂.render = .value m₂) : m₁ ≤ m₂ := by
  rw [cpu_exact l₁ h₁] at e₁
  rw [cpu_exact l₂ h₂] at e₂
  simp only [Outcome.value.injEq] at e₁ e₂
  subst e₁ e₂
  apply Nat.floor_mono
  unfold cores
  rw [hs]
  split
  · have : l₁.valueQ / 1000 ≤ l₂.valueQ / 1000 := div_le_div_of_nonneg_right hv (by norm_num)
    linarith
  · linarith

/-- Monotone: with the same unit, a literal denoting a larger number never parses to fewer bytes. -/
theorem mem_monotone (l₁ l₂ : SizeLit) (h₁ : MemoryLit l₁) (h₂ : MemoryLit l₂) (hs : l₁.suffix = l₂.suffix)
    (hv : l₁.valueQ ≤ l₂.valueQ) {n₁ n₂ : Nat} (e₁ : parseMemory l₁.render = .value n₁)
    (e₂ : parseMemory l₂.render = .value n₂) : n₁ ≤ n₂ := by
  rw [mem_exact_ceil l₁ h₁] at e₁
  rw [mem_exact_ceil l₂ h₂] at e₂
  simp only [Outcome.value.injEq] at e₁ e₂
  subst e₁ e₂
  apply Nat.ceil_mono
  have : l₁.factor = l₂.factor := by unfold SizeLit.factor; rw [hs]
  rw [this]
  exact mul_le_mul_of_nonneg_right hv (by positivity)

/-- What `valueQ` is: integer part plus fractional digits over the matching power of ten. -/
theorem value_split (l : SizeLit) :
    l.valueQ = (digitsVal l.ip : ℚ) + (digitsVal l.fp : ℚ) / 10 ^ l.fp.length := by
  unfold SizeLit.valueQ
  rw [digitsVal_append]
  push_cast
  field_simp

/-! ## non-vacuity: the repaired witnesses and boundary spellings (evaluated by the kernel) -/

example : parseCpu "1.001".toList = .value 1001 := by decide          -- float code answered 1000
example : parseMemory "1.07G".toList = .value 1070000000 := by decide  -- float code answered 1070000001
example : parseCpu "0.0009".toList = .value 0 := by decide             -- rounded down below millicore precision
example : parseCpu "+.5".toList = .value 500 := by decide
example : parseCpu "1500m".toList = .value 1500 := by decide
example : parseCpu "1.5m".toList = .value 1 := by decide
example : parseCpu "1.".toList = .noMatch := by decide
example : configAcceptsCores "4cores".toList = false := by decide       -- prefix-valid + junk: rejected by all three
example : configAcceptsMemory "4GiB RAM".toList = false := by decide
example : configAcceptsMemory "highmem".toList = true := by decide
example : parseCpu "1mB".toList = .noMatch := by decide
example : parseCpu "".toList = .noMatch := by decide
example : parseMemory "0.0001".toList = .value 1 := by decide          -- rounded up
example : parseMemory "10B".toList = .value 10 := by decide
example : parseMemory "1.5KiB".toList = .value 1536 := by decide
example : parseMemory "1Kb".toList = .noMatch := by decide
example : parseMemory "1iB".toList = .noMatch := by decide
example : parseStorage "+001.50Gi".toList = .value 1610612736 := by decide
example : CpuLit ⟨false, ['1'], ['0', '0', '1'], none, false⟩ := by
  refine ⟨?_, ?_, ?_, ?_, ?_⟩ <;> decide
example : MemoryLit ⟨false, ['1'], ['0', '7'], some "G", false⟩ := by
  refine ⟨?_, ?_, ?_, ?_, ?_⟩ <;> decide

end HailVerif.C25

import HailVerif.Proofs.Billing
/-!
# C13 — Job billing never exceeds the instance and survives serialization

Subject: `HailVerif.Billing.Config.quantifiedResources` / `toDict` / `fromDict`, the model of
`InstanceConfig.quantified_resources` (batch/batch/instance_config.py), the resource mixins
(batch/batch/resources.py) and the gcp / azure slim instance configs and resources
(batch/batch/cloud/{gcp,azure}/{instance_config,resources}.py).  Tables are `Generated/Machines.lean`;
the model is tied to the code by `harness/props/c13.py`.

A job is `(cpu_in_mcpu, memory_in_bytes, extra_storage_in_gib)`.  The *whole worker* is the job
`(cores * 1000, instance_memory, 0)` (what `cost_per_hour` / `entire_instance_price_per_hour` bill).
Per-job extra disks (`*DynamicSizedDiskResource`) belong to the job, not to the worker: they are billed
per job (last section) and are excluded from the packing inequality.
-/
namespace HailVerif.C13
open HailVerif.Billing HailVerif.Generated.Machines

/-- `quantified_resources` bills, in resource order, exactly the resources that do not answer `None`, and no
resource erred.  For a resource that is not a per-job extra disk the entry is `(name, qty)`. -/
theorem quantified_resources_lists_every_worker_resource {c : Config} {cpu mem ext : Nat} {l : List (String × Nat)}
    (h : c.quantifiedResources cpu mem ext = some l) :
    l = (c.resources.map fun r => r.quantify cpu mem (workerFraction cpu c.cores) ext).filterMap billOf ∧
    ∀ r ∈ c.resources, r.isDynamicDisk = false → (r.billName, r.qty c.cores (cpu, mem, ext)) ∈ l := by
  unfold Config.quantifiedResources at h
  split at h
  · simp at h
  · split at h
    · simp at h
    · obtain ⟨h1, -⟩ := collect_eq h
      refine ⟨h1, fun r hr hd => ?_⟩
      rw [h1, List.mem_filterMap]
      exact ⟨_, List.mem_map.mpr ⟨r, hr, rfl⟩, by rw [quantify_of_not_dynamic hd]; rfl⟩

/-- **Packing never exceeds the whole.**  For any list of jobs whose cpus fit the worker's cores and whose
memories fit the instance memory, and for every resource of the worker (every resource that is not a per-job
extra disk), the quantities billed to the jobs add up to at most the quantity billed for the whole worker.
(No power-of-two assumption is needed for `≤`; it is needed for exactness, below.) -/
theorem packing_le_whole (c : Config) (jobs : List Job) (hcores : 0 < c.cores)
    (hcpu : cpuSum jobs ≤ c.cores * 1000) (hmem : memSum jobs ≤ c.memory) :
    ∀ r ∈ c.resources, (jobs.map (r.qty c.cores)).sum ≤ r.qty c.cores (c.cores * 1000, c.memory, 0) :=
  fun _ _ => qty_packing_le jobs hcores hcpu hmem

/-- The 1024ths fraction is exact for a power-of-two number of quarter cores on a power-of-two worker of at
most 256 cores (the code's own assert): `fraction * cores * 1000 = 1024 * cpu`, nothing is lost to `//`. -/
theorem fraction_exact {k c : Nat} (hc : c ≤ 8) :
    workerFraction (250 * 2 ^ k) (2 ^ c) * (2 ^ c * 1000) = 1024 * (250 * 2 ^ k) := workerFraction_exact hc

/-- … hence a full packing of such jobs is billed exactly the whole worker's 1024 1024ths. -/
theorem full_packing_exact {c : Nat} (hc : c ≤ 8) (ks : List Nat)
    (hfull : (ks.map fun k => 250 * 2 ^ k).sum = 2 ^ c * 1000) :
    (ks.map fun k => workerFraction (250 * 2 ^ k) (2 ^ c)).sum = 1024 := by
  have hD : 0 < 2 ^ c * 1000 := Nat.mul_pos (Nat.two_pow_pos c) (by omega)
  have h1 : ∀ ks : List Nat, (ks.map fun k => workerFraction (250 * 2 ^ k) (2 ^ c)).sum * (2 ^ c * 1000)
      = 1024 * (ks.map fun k => 250 * 2 ^ k).sum := by
    intro ks
    induction ks with
    | nil => simp
    | cons k ks ih =>
      simp only [List.map_cons, List.sum_cons, Nat.add_mul, Nat.mul_add]
      rw [ih, workerFraction_exact hc]
  have h2 := h1 ks
  rw [hfull] at h2
  exact Nat.eq_of_mul_eq_mul_right hD h2

/-- **A job using the whole worker is billed exactly the whole worker**: its fraction is 1024/1024, so a static
disk of `g` GiB is billed `g * 1024` MiB, a VM / IP fee 1024, `k` accelerators `k * 1024`, compute and
per-core fees `cores * 1000` mcpu and memory the instance memory in MiB. -/
theorem whole_job_exact (c : Config) (hcores : 0 < c.cores) :
    workerFraction (c.cores * 1000) c.cores = 1024 ∧
    ∀ r ∈ c.resources, r.qty c.cores (c.cores * 1000, c.memory, 0) =
      match r with
      | .compute _ | .serviceFee _ | .supportFees _ | .azServiceFee _ => c.cores * 1000
      | .memory _ => c.memory / 1024 / 1024
      | .staticDisk _ g | .localSsd _ g | .azStaticDisk _ g => g * 1024
      | .ipFee _ | .azIpFee _ | .azVm _ => 1024
      | .accelerator _ k => k * 1024
      | .gcpDynamicDisk _ | .azDynamicDisk _ _ _ => 0 := by
  have hw := workerFraction_whole hcores
  refine ⟨hw, fun r _ => ?_⟩
  cases r <;> simp [Resource.qty, hw]

/-- **Serialization.**  A config whose cores/memory come from the machine table and whose resources are of its
own cloud is read back unchanged from its dict … -/
theorem roundtrip (c : Config) (h : c.WellFormed) : Config.fromDict c.toDict = some c := config_roundtrip h

/-- … so the stored and reloaded config bills identical quantities for every job (and trips the same asserts). -/
theorem roundtrip_same_quantities (c : Config) (h : c.WellFormed) :
    ∃ c', Config.fromDict c.toDict = some c' ∧
      ∀ cpu mem ext, c'.quantifiedResources cpu mem ext = c.quantifiedResources cpu mem ext :=
  ⟨c, config_roundtrip h, fun _ _ _ => rfl⟩

/-- the same for the third `InstanceConfig` class of the tree, `TerraAzureSlimInstanceConfig` (Terra on Azure): its `to_dict` is the
azure dict (with the resources) plus an opaque `resource_id`, its `from_dict` reads them back — the stored and reloaded config bills
identical quantities. -/
theorem roundtrip_same_quantities_terra (c : Config) (h : c.WellFormed) (hc : c.cloud = .azure) :
    ∃ c', Config.fromDictTerra c.toDict = some c' ∧
      ∀ cpu mem ext, c'.quantifiedResources cpu mem ext = c.quantifiedResources cpu mem ext :=
  ⟨c, config_roundtrip_terra h hc, fun _ _ _ => rfl⟩

/-- every resource dict written by `to_dict` is read back as the same resource, field by field
(including the accelerator's `number`, format version 2) -/
theorem resource_roundtrip (r : Resource) :
    (r.isGcp = true → gcpResourceFromDict r.toDict = some r) ∧
    (r.isGcp = false → azureResourceFromDict r.toDict = some r) :=
  ⟨gcp_resource_roundtrip, azure_resource_roundtrip⟩

/-- a format-version-1 accelerator dict (written before `number` existed) reads as one accelerator -/
theorem accelerator_v1_reads_one (n : String) :
    gcpResourceFromDict { typ := "gcp_accelerator", name := some n, formatVersion := some 1 } = some (.accelerator n 1) := by
  simp [gcpResourceFromDict]

/-- what `from_dict` produces is well formed (so the round trip applies to every stored config) -/
theorem fromDict_wellFormed {d : CDict} {c : Config} (h : Config.fromDict d = some c) :
    machineCoresMem c.cloud c.machineType = some (c.cores, c.memory) := by
  unfold Config.fromDict at h
  have key : ∀ {cl mt pre ssd dd bd jp rs}, Config.mk? cl mt pre ssd dd bd jp rs = some c →
      machineCoresMem c.cloud c.machineType = some (c.cores, c.memory) := by
    intro cl mt pre ssd dd bd jp rs hm
    simp only [Config.mk?, Option.map_eq_some_iff] at hm
    obtain ⟨cm, hcm, rfl⟩ := hm
    simpa using hcm
  split at h
  · split at h
    · simp at h
    · split at h
      · simp at h
      next rs _ =>
        cases hr : rs.mapM gcpResourceFromDict with
        | none => simp [hr] at h
        | some res => simp [hr] at h; exact key h
  · split at h
    · split at h
      · simp at h
      · exact key h
    next rs _ =>
      cases hr : rs.mapM azureResourceFromDict with
      | none => simp [hr] at h
      | some res => simp [hr] at h; exact key h

/-! ### per-job extra disks -/

/-- gcp: the extra disk is billed exactly the requested GiB (in MiB), nothing when none is requested -/
theorem gcp_extra_disk (n : String) (cpu mem wf ext : Nat) :
    (Resource.gcpDynamicDisk n).quantify cpu mem wf ext = if ext = 0 then .skip else .bill n (ext * 1024) := rfl

/-- azure: the extra disk is billed as the least managed-disk size that holds the request -/
theorem azure_extra_disk {dt loc : String} {vs : List (String × String)} {cpu mem wf ext : Nat} {name : String} {q : Nat}
    (h : (Resource.azDynamicDisk dt loc vs).quantify cpu mem wf ext = .bill name q) :
    ∃ disks dname size, azureDisks.lookup dt = some disks ∧ (dname, size) ∈ disks ∧ vs.lookup dname = some name ∧
      q = size * 1024 ∧ ext ≤ size ∧ ∀ d ∈ disks, ext ≤ d.2 → size ≤ d.2 := by
  simp only [Resource.quantify] at h
  split at h
  · simp at h
  · unfold azureDiskFor at h
    cases hl : azureDisks.lookup dt with
    | none => simp [hl] at h
    | some disks =>
      simp only [hl] at h
      cases hf : disks.find? (fun d => ext ≤ d.2) with
      | none => simp [hf] at h
      | some d =>
        obtain ⟨dname, size⟩ := d
        simp only [hf] at h
        cases hv : vs.lookup dname with
        | none => simp [hv] at h
        | some rname =>
          simp only [hv, Q.bill.injEq] at h
          have hsorted := azureDisks_sorted (dt, disks) (by
            have := List.lookup_eq_some_iff.mp hl
            obtain ⟨l1, l2, h1, -⟩ := this
            rw [h1]; simp)
          obtain ⟨h1, h2, h3⟩ := find?_sorted_min (fun d : String × Nat => d.2) ext disks hsorted (dname, size)
            (by simpa using hf)
          exact ⟨disks, dname, size, rfl, h2, by rw [hv, h.1], h.2.symm, h1, h3⟩

/-! ### finite facts about the generated tables -/

/-- every machine type's memory is a whole number of MiB, so the whole-worker job passes the
`memory_in_bytes % (1024 * 1024) == 0` assert -/
theorem machine_memory_is_whole_mib :
    (∀ e ∈ gcpMachineTypes, e.2.2.2.2.1 % (1024 * 1024) = 0) ∧ (∀ e ∈ azureMachineTypes, e.2.2.2 % (1024 * 1024) = 0) := by
  decide +kernel

/-- the memory of every machine type a pool can run on (family = `GCP_MACHINE_FAMILY`, a worker type with a memory-per-core entry;
every azure type) is exactly cores × memory per core of its worker type — what the front end grants per core.  So a full packing
of jobs as provisioned by the front end (C12: `memory = cpu × per core / 1000`) holds exactly the instance memory, and
`packing_le_whole` applies to it. -/
theorem pool_machine_memory_is_cores_times_granted_per_core :
    (∀ e ∈ gcpMachineTypes, e.2.1 = gcpMachineFamily →
      ∀ pc, gcpMemoryPerCoreMiB.lookup (gcpMachineFamily, e.2.2.1) = some pc → e.2.2.2.2.1 = e.2.2.2.1 * (pc * 1024 ^ 2)) ∧
    (∀ e ∈ azureMachineTypes, ∀ pc, azureMemoryPerCoreMiB.lookup e.2.1 = some pc → e.2.2.2 = e.2.2.1 * (pc * 1024 ^ 2)) := by
  decide +kernel

/-- OBSERVATION (not part of the property): `gcp_valid_cores_for_pool_worker_type` and
`azure_valid_cores_from_worker_type` admit pool workers whose core count is not a power of two (96; 20, 48, 72).
For such a pool (`job_private = False`) `quantified_resources` trips its own assert `is_power_two(self.cores)`,
i.e. the model answers `none` for every job. -/
theorem some_valid_pool_cores_are_not_billable :
    (∃ e ∈ gcpValidCores, ∃ n ∈ e.2, isPowerTwo n = false) ∧ (∃ e ∈ azureValidCores, ∃ n ∈ e.2, isPowerTwo n = false) := by
  decide +kernel

/-! Non-vacuity / boundary examples. -/

private def cfg : Config :=
  ⟨.gcp, "n1-standard-4", true, true, 375, 10, false,
   [.compute "c", .memory "m", .staticDisk "boot" 10, .localSsd "ssd" 375, .gcpDynamicDisk "pd", .ipFee "ip", .serviceFee "fee",
    .supportFees "sup", .accelerator "gpu" 2], 4, 15 * 1024 ^ 3⟩

-- a quarter core of a 4-core worker is 64/1024 of it
example : cfg.quantifiedResources 250 (960 * 1024 ^ 2) 0 =
    some [("c", 250), ("m", 960), ("boot", 640), ("ssd", 24000), ("ip", 64), ("fee", 250), ("sup", 250), ("gpu", 128)] := by
  decide +kernel
-- the whole worker
example : cfg.quantifiedResources 4000 (15 * 1024 ^ 3) 0 =
    some [("c", 4000), ("m", 15360), ("boot", 10240), ("ssd", 384000), ("ip", 1024), ("fee", 4000), ("sup", 4000), ("gpu", 2048)] := by
  decide +kernel
-- extra storage is billed to the job; memory that is not a whole MiB trips the assert
example : (cfg.quantifiedResources 250 0 7).map (·.length) = some 9 ∧ cfg.quantifiedResources 250 1 0 = none := by
  decide +kernel
example : cfg.WellFormed := ⟨by decide +kernel, by decide +kernel⟩
example : Config.fromDict cfg.toDict = some cfg := by decide +kernel
-- azure: 5 GiB of extra storage is billed as a P2 (8 GiB) disk; more than the largest disk trips the assert
example : (Resource.azDynamicDisk "P" "eastus" [("P1", "p1/1"), ("P2", "p2/1")]).quantify 250 0 64 5 = .bill "p2/1" 8192 := by
  decide +kernel
example : (Resource.azDynamicDisk "P" "eastus" [("P1", "p1/1")]).quantify 250 0 64 32769 = .err := by decide +kernel

end HailVerif.C13

import HailVerif.Props.C04
/-!
# C05 — Dependencies gate readiness; failed parents cancel children

Subject: the BatchDB model (`HailVerif.BatchDB`).  Histories and their explicit hypotheses are those of C04
(`C04.okHist`, `C04.good` = terminal completion reports ∧ well-formed bunches (C08) ∧ no completion of a job with a child
in an uncommitted later update (the C41 defect)).  The exact count `npp_exact` needs one more hypothesis,
`firstFresh`: a bunch of update 1 names no parent that is already done.

`parentDone s b p` : job `p` of batch `b` exists and is in a terminal state;
`nPendingParents s b c` : number of `job_parents` rows of job `c` whose parent is not done.
-/
namespace HailVerif.C05
open HailVerif.BatchDB
open HailVerif.C07 (after Reachable after_snoc reachable_inv)
open HailVerif.C04 (okHist good linv_of_good)

/-! ## (1) readiness is gated by the parents -/

/-- **ready_implies_parents_done.**  After every good history, a job that is not Pending (Ready, Creating, Running or
terminal) has every one of its parents — whichever update they were submitted in — in a terminal state. -/
theorem ready_implies_parents_done (ops : List Op) (h : okHist good init ops = true) (x : Job)
    (hx : x ∈ (after init ops).jobs) (hnp : x.state ≠ .Pending) (p : Nat)
    (hp : (x.batch, x.id, p) ∈ (after init ops).parents) : parentDone (after init ops) x.batch p = true := by
  have hi := linv_of_good ops init linv_init h
  obtain ⟨_, hpe⟩ := hi.pex _ hp
  rw [Option.isSome_iff_exists] at hpe
  obtain ⟨y, hy⟩ := hpe
  unfold parentDone
  simp only at hy
  rw [hy]
  cases ht : y.state.terminal with
  | true => exact ht
  | false => exact absurd (hi.pp _ hp x y (findJob_of_mem hi.uniq x hx) hy ht) hnp

/-- a job only *becomes* Ready in a transaction after which all its parents are done -/
theorem becomes_ready_only_after_parents (ops : List Op) (op : Op) (h : okHist good init (ops ++ [op]) = true) (x' : Job)
    (hx' : x' ∈ (after init (ops ++ [op])).jobs) (hr : x'.state = .Ready) (p : Nat)
    (hp : (x'.batch, x'.id, p) ∈ (after init (ops ++ [op])).parents) :
    parentDone (after init (ops ++ [op])) x'.batch p = true :=
  ready_implies_parents_done (ops ++ [op]) h x' hx' (by rw [hr]; decide) p hp

/-! ## (2) `n_pending_parents` is the number of parents not done -/

/-- `good` plus: a bunch of update 1 names no parent that is already done -/
def good5 (s : State) (op : Op) : Bool := good s op && firstFresh s op

theorem linv_of_good5 (ops : List Op) : ∀ s, LInv (· = ·) s → okHist good5 s ops = true → LInv (· = ·) (after s ops) := by
  induction ops with
  | nil => intro s hi _; exact hi
  | cons op rest ih =>
    intro s hi h
    simp only [okHist, good5, good, Bool.and_eq_true] at h
    exact ih _ (linv_step_eq s hi op (wf_of_wfB h.1.1.1.1) h.1.1.1.2 h.1.1.2 h.1.2) h.2

/-- the full statement for histories satisfying `P` -/
def NppExact (P : State → Op → Bool) : Prop :=
  ∀ (ops : List Op), okHist P init ops = true → ∀ x ∈ (after init ops).jobs, x.state = .Pending →
    (x.update = 1 ∨ updCommitted (after init ops) x.batch x.update = true) →
    x.npp = (nPendingParents (after init ops) x.batch x.id : Int)

/-- **npp_exact.**  For every Pending job of a committed update (or of update 1), `n_pending_parents` equals the number of
its parents that are not done: the commit-time recomputation and the completion-time decrement agree with one spec. -/
theorem npp_exact : NppExact good5 := by
  intro ops h x hx hp hc
  exact ((linv_of_good5 ops init linv_init h).npp x hx hp hc).symm

/-- without `firstFresh` the count can be off: the model's `schedule_job` has no `committed` check, so a job of the
still uncommitted update 1 can run and finish before a later bunch of update 1 names it as a parent; that child is
inserted with `n_pending_parents = 1` and stays Pending for ever -/
def nppWitness : List Op :=
  [.createBatch 1 1 100, .createUpdate 1 200 2 0 1,
   .insertJobs 1 1 1 [⟨1, [], [], some 0, 0, false, 1000, 0⟩],
   .newInstance 7 4000 true, .activate 7, .schedule 1 1 11 7,
   .complete 1 1 (some 11) (some 7) .Success (some 5) (some 9) "completed" 0,
   .insertJobs 1 1 1 [⟨2, [], [1], some 0, 0, false, 1000, 0⟩],
   .commitUpdate 1 1]

set_option maxRecDepth 8192 in
theorem npp_exact_needs_firstFresh : ¬ NppExact good := by
  intro h
  have := h nppWitness (by decide) ⟨1, 2, 1, 0, .Pending, false, 1000, 0, 1, false, none⟩ (by decide) rfl (Or.inl rfl)
  revert this
  decide

/-! ## (3) a parent that did not succeed marks its children cancelled, and those never run -/

/-- **failed_parent_marks_cancelled.**  When `mark_job_complete` completes a Ready / Creating / Running job with a state
other than Success, every child row has `cancelled = 1` afterwards (with Success the mark is left as it was). -/
theorem failed_parent_marks_cancelled (s : State) (hr : Reachable s) (b j : Nat) (att inst : Option Nat) (ns : JState)
    (st e : Option Int) (r : String) (d : Nat) (job : Job) (hj : findJob s b j = some job) (hact : job.state.active = true)
    (hrc : (complete s b j att inst ns st e r d).2 = .ok 0) (hns : ns ≠ .Success) (x : Job) (hx : x ∈ s.jobs)
    (hc : isChildOf s b j x = true) :
    ∃ x', findJob (complete s b j att inst ns st e r d).1 x.batch x.id = some x' ∧ x'.cancelled = true := by
  obtain ⟨x', h1, _, _, h4, _⟩ := complete_child_row s (reachable_inv hr).1 b j att inst ns st e r d job hj hact hrc x hx hc
  exact ⟨x', h1, h4 hns⟩

/-- **cancelled_child_never_runs.**  … and if the child is not always-run, then in no later state of any history is it
found in Creating or Running. -/
theorem cancelled_child_never_runs (s : State) (hr : Reachable s) (b j : Nat) (att inst : Option Nat) (ns : JState)
    (st e : Option Int) (r : String) (d : Nat) (job : Job) (hj : findJob s b j = some job) (hact : job.state.active = true)
    (hrc : (complete s b j att inst ns st e r d).2 = .ok 0) (hns : ns ≠ .Success) (x : Job) (hx : x ∈ s.jobs)
    (hc : isChildOf s b j x = true) (hnar : x.alwaysRun = false) (ops : List Op) (hwf : ∀ op ∈ ops, op.WF) (x'' : Job)
    (hx'' : findJob (after (complete s b j att inst ns st e r d).1 ops) x.batch x.id = some x'') :
    x''.state ≠ .Creating ∧ x''.state ≠ .Running := by
  obtain ⟨x', h1, h2, h3, h4, _⟩ :=
    complete_child_row s (reachable_inv hr).1 b j att inst ns st e r d job hj hact hrc x hx hc
  have hr' : Reachable (complete s b j att inst ns st e r d).1 := by
    obtain ⟨pre, rfl⟩ := hr
    exact ⟨pre ++ [.complete b j att inst ns st e r d], by rw [after_snoc]; rfl⟩
  obtain ⟨hm, hb, hid⟩ := mem_of_findJob h1
  have hcanc : jobCancelled (complete s b j att inst ns st e r d).1 x' = true := by
    unfold jobCancelled; simp [h2, hnar, h4 hns]
  have key := C07.no_start_after_cancel ops hwf _ hr' x' hm hcanc x'' (by rw [hb, hid]; exact hx'')
  constructor
  · intro hcr
    have := key (Or.inl hcr)
    rw [hcr] at this
    rcases h3 with h | h <;> rw [h] at this <;> cases this
  · intro hrn
    have := key (Or.inr hrn)
    rw [hrn] at this
    rcases h3 with h | h <;> rw [h] at this <;> cases this

/-! ## (4) always-run children run regardless -/

/-- for an always-run job `is_job_cancelled` is false whatever its `cancelled` mark and whatever groups are cancelled -/
theorem always_run_never_cancelled (s : State) (x : Job) (h : x.alwaysRun = true) : jobCancelled s x = false :=
  jobCancelled_alwaysRun s x h

theorem findJobFk_of_inst {s : State} {b j a i : Nat} {job : Job} {ist : IState} (hj : findJob s b j = some job)
    (hi : instState s (some i) = some ist) : findJobFk s b j (some a) (some i) = some job := by
  unfold findJobFk attemptFkFails
  have : (findInstance s i).isNone = false := by
    unfold instState at hi
    cases h : findInstance s i with
    | none => simp [h] at hi
    | some _ => rfl
  simp [this, hj]

/-- **always_run_child_not_blocked** (`schedule_job`): a Ready always-run job is moved to Running on an active instance,
whatever its `cancelled` mark (a failed parent) and whatever groups are cancelled. -/
theorem always_run_schedules (s : State) (b j a i : Nat) (job : Job) (hj : findJob s b j = some job)
    (hst : job.state = .Ready) (har : job.alwaysRun = true) (hinst : instState s (some i) = some .active) :
    (schedule s b j a i).2 = .ok 0 ∧
    findJob (schedule s b j a i).1 b j = some (setStateAttempt .Running (some a) job) := by
  unfold schedule
  rw [findJobFk_of_inst hj hinst]
  dsimp only
  rw [if_pos ⟨Or.inl hst, jobCancelled_alwaysRun s job har, by unfold schedulePrep; rw [instState_addAttempt]; exact hinst⟩]
  exact ⟨rfl, findJob_updateJobs_isJob _ (by rw [findJob_congr (schedulePrep_jobs ..)]; exact hj) _
    (jobFrame_setStateAttempt _ _)⟩

/-- the same for `mark_job_creating` (instance pending) and `mark_job_started` (instance active) -/
theorem always_run_starts (s : State) (b j a i : Nat) (ts : Int) (d : Nat) (need : IState) (ns : JState) (job : Job)
    (hj : findJob s b j = some job) (hst : job.state = .Ready) (har : job.alwaysRun = true)
    (hinst : instState s (some i) = some need) :
    findJob (startLike s b j a i ts d need ns).1 b j = some (setStateAttempt ns (some a) job) := by
  unfold startLike
  rw [findJobFk_of_inst hj hinst]
  dsimp only
  rw [if_pos ⟨hst, jobCancelled_alwaysRun s job har, by
    unfold startPrep; rw [instState_updateAttempts, instState_addAttempt]; exact hinst⟩]
  exact findJob_updateJobs_isJob _ (by rw [findJob_congr (startPrep_jobs ..)]; exact hj) _ (jobFrame_setStateAttempt _ _)

/-! ## non-vacuity -/

/-- parent 1 fails; child 2 (not always-run) is marked cancelled and refused by the scheduler; child 3 (always-run,
submitted in a later update) is marked cancelled too and runs -/
def demo : List Op :=
  [.createBatch 1 1 100,
   .createUpdate 1 200 2 0 1,
   .insertJobs 1 1 1 [⟨1, [], [], some 0, 0, false, 1000, 0⟩, ⟨2, [], [1], some 0, 0, false, 1000, 0⟩],
   .commitUpdate 1 1,
   .createUpdate 1 201 1 0 1,
   .insertJobs 1 2 1 [⟨1, [1], [], some 0, 0, true, 1000, 0⟩],
   .commitUpdate 1 2,
   .newInstance 7 4000 true, .activate 7,
   .schedule 1 1 11 7,
   .complete 1 1 (some 11) (some 7) .Failed (some 5) (some 9) "completed" 0]

set_option maxRecDepth 8192 in
example : okHist good5 init demo = true := by decide

set_option maxRecDepth 8192 in
example : (after init demo).jobs.map (fun j => (j.id, j.state, j.cancelled, j.npp)) =
    [(1, .Failed, false, 0), (2, .Ready, true, 0), (3, .Ready, true, 0)] := by decide

set_option maxRecDepth 8192 in
-- the scheduler refuses the cancelled child (rc 1) and runs the always-run child (rc 0)
example : (step (after init demo) (.schedule 1 2 12 7)).2 = .ok 1 ∧ (step (after init demo) (.schedule 1 3 13 7)).2 = .ok 0 := by
  decide

end HailVerif.C05

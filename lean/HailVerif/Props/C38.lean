import HailVerif.Proofs.Combiner
/-!
# C38 — GVCF/VDS combiner merges every input exactly once

Subjects (`HailVerif.Combiner`, tied to the code by `harness/props/c38.py`):
* `evenPartition` — `calculate_even_genome_partitioning.calc_parts` (combine.py), per contig;
* `mkPlan`, `step`, `reload` — `VariantDatasetCombiner.__init__/step/_step_gvcfs/_step_vdses` and `save` → `load`
  (variant_dataset_combiner.py) on the planning fields, datasets abstracted to the inputs they are built from.

Part B theorems hold for **every** `flog : Nat → Nat` (the floating-point `floor(log(n, branch_factor))`), every list
of inputs, every branch factor ≥ 2 and batch size ≥ 1 (what the constructor accepts) and every schedule of
stop/resume points.
-/
namespace HailVerif.C38
open HailVerif.Combiner

/-! ## Part A — even genome partitioning -/

/-- For every contig length `L ≥ 1` and requested size `≥ 1` the function answers, and its intervals (inclusive ends)
start at base 1, follow each other without gap or overlap, are non-empty, and the last one ends at base `L`. -/
theorem partition_tiles (L size : Nat) (hL : 1 ≤ L) (hs : 1 ≤ size) :
    ∃ ivs, evenPartition L size = some ivs ∧ TilesFrom L 1 ivs := by
  obtain ⟨ivs, h1, h2, _⟩ := evenPartition_spec hL hs
  exact ⟨ivs, h1, h2⟩

/-- … hence every base of the contig lies in exactly one interval and no interval covers anything else. -/
theorem partition_each_base_once (L size : Nat) (hL : 1 ≤ L) (hs : 1 ≤ size) :
    ∃ ivs, evenPartition L size = some ivs ∧
      (∀ p, 1 ≤ p → p ≤ L → ivs.countP (covers p) = 1) ∧
      (∀ iv ∈ ivs, 1 ≤ iv.1 ∧ iv.1 ≤ iv.2 ∧ iv.2 ≤ L) := by
  obtain ⟨ivs, h1, h2, _⟩ := evenPartition_spec hL hs
  refine ⟨ivs, h1, fun p hp1 hp2 => (tiles_count L ivs 1 h2 p).2 hp1 hp2, ?_⟩
  -- every interval is inside [1, L]
  have aux : ∀ l n, 1 ≤ n → TilesFrom L n l → ∀ iv ∈ l, 1 ≤ iv.1 ∧ iv.1 ≤ iv.2 ∧ iv.2 ≤ L := by
    intro l
    induction l with
    | nil => intro n _ _ iv h; cases h
    | cons x t ih =>
      intro n hn h iv hiv
      obtain ⟨s, e⟩ := x
      obtain ⟨rfl, h1, h2, h3⟩ := h
      rcases List.mem_cons.1 hiv with rfl | hm
      · exact ⟨hn, h1, h2⟩
      · exact ih (e + 1) (by omega) h3 iv hm
  exact aux ivs 1 (Nat.le_refl 1) h2

/-- No interval is longer than requested. -/
theorem partition_length_le (L size : Nat) (hL : 1 ≤ L) (hs : 1 ≤ size) :
    ∃ ivs, evenPartition L size = some ivs ∧ ∀ iv ∈ ivs, iv.2 - iv.1 + 1 ≤ size := by
  obtain ⟨ivs, h1, _, h3⟩ := evenPartition_spec hL hs
  exact ⟨ivs, h1, h3⟩

/-- The only refusals are the `ZeroDivisionError`s: size 0, or an empty contig. -/
theorem partition_refuses_iff (L size : Nat) : evenPartition L size = none ↔ size = 0 ∨ L = 0 := by
  constructor
  · intro h
    by_contra hc
    have hs : 1 ≤ size := by omega
    have hL : 1 ≤ L := by omega
    obtain ⟨ivs, h1, _⟩ := evenPartition_spec hL hs
    rw [h] at h1; cases h1
  · rintro (h | h)
    · subst h; rfl
    · subst h
      unfold evenPartition
      by_cases hs : size = 0
      · simp [hs]
      · have : ceilDiv 0 size = 0 := by
          unfold ceilDiv
          exact Nat.div_eq_of_lt (by omega)
        simp [hs, this]

/-! The arithmetic before the repair (`while n < contig_length`, `end = min(n + real_size, contig_length)`; fixed in
the repository by 76ea1074f) violated the statement; kept as executable documentation. -/
example : evenPartitionOld 11 5 = some [(1, 5), (6, 10)] := by decide          -- base 11 uncovered
example : ¬ TilesFrom 11 1 [(1, 5), (6, 10)] := by simp [TilesFrom]
example : evenPartitionOld 100 10 = some [(1, 11), (12, 22), (23, 33), (34, 44), (45, 55), (56, 66), (67, 77),
    (78, 88), (89, 99)] := by decide                                           -- 11-base intervals, base 100 uncovered
example : evenPartitionOld 1 1 = some [] := by decide                          -- a one-base contig got no interval
example : evenPartition 11 5 = some [(1, 4), (5, 8), (9, 11)] := by decide
example : evenPartition 100 10 = some [(1, 10), (11, 20), (21, 30), (31, 40), (41, 50), (51, 60), (61, 70),
    (71, 80), (81, 90), (91, 100)] := by decide
example : evenPartition 1 7 = some [(1, 1)] := by decide

/-! ## Part B — the merge plan -/

variable (flog : Nat → Nat)

/-- One step never loses, duplicates or invents an input: the multiset of original inputs reachable from the plan
(remaining GVCFs, leaves of the intermediate datasets, leaves of the output) is invariant. -/
theorem multiset_preserved (s : Plan) (h : WF s) : (allLeaves (step flog s)).Perm (allLeaves s) :=
  step_leaves flog s h

/-- … and so is the number of samples accounted for. -/
theorem samples_preserved (s : Plan) (h : WF s) : totalN (step flog s) = totalN s := step_totalN flog s h

/-- Every step of an unfinished plan strictly decreases `2·#gvcfs + #datasets`; a finished plan is a fixpoint. -/
theorem step_decreases (s : Plan) (h : WF s) :
    (finished s = false → planMeasure (step flog s) < planMeasure s) ∧ (finished s = true → step flog s = s) :=
  ⟨step_measure flog s h, step_of_finished flog s⟩

/-- `load(save(s))` keeps every planning field except the bin structure: same GVCFs, sample names, branch factor,
batch size, the same datasets as a multiset, each re-filed under its natural bin `max(1, floor(log(n, bf)))`. -/
theorem save_load_fields (s : Plan) :
    (reload flog s).gvcfs = s.gvcfs ∧ (reload flog s).names = s.names ∧ (reload flog s).bf = s.bf ∧
    (reload flog s).batch = s.batch ∧ (reload flog s).finals = s.finals ∧
    ((reload flog s).vdses.map Prod.snd).Perm (s.vdses.map Prod.snd) ∧
    (∀ p ∈ (reload flog s).vdses, p.1 = natBin flog p.2.n) ∧
    (allLeaves (reload flog s)).Perm (allLeaves s) ∧ planMeasure (reload flog s) = planMeasure s := by
  refine ⟨rfl, rfl, rfl, rfl, rfl, reload_ds flog s, ?_, reload_leaves flog s, reload_measure flog s⟩
  intro p hp
  unfold reload at hp
  simp only [List.mem_map] at hp
  obtain ⟨q, _, rfl⟩ := hp
  rfl

/-- `save_load_id`, the part that holds: when every dataset sits in its natural bin (true for the initial plan and
after GVCF steps), `load(save(s))` is the same plan — every bin of the dict holds the same list in the same order.
The unrestricted statement is **false** (see the `example` below): `_step_vdses` bumps `new_bin` to
`original_bin + 1` when the natural bin is not larger, and that bump is not saved. -/
theorem save_load_id_partial (s : Plan) (hnat : ∀ p ∈ s.vdses, p.1 = natBin flog p.2.n) :
    (reload flog s).gvcfs = s.gvcfs ∧ (reload flog s).names = s.names ∧ (reload flog s).bf = s.bf ∧
    (reload flog s).batch = s.batch ∧ ∀ b, binOf (reload flog s).vdses b = binOf s.vdses b := by
  refine ⟨rfl, rfl, rfl, rfl, ?_⟩
  intro b
  have : (reload flog s).vdses = sortDesc s.vdses := by
    unfold reload
    simp only
    have hmem : ∀ p ∈ sortDesc s.vdses, (natBin flog p.2.n, p.2) = p := by
      intro p hp
      have := hnat p ((sortDesc_perm s.vdses).mem_iff.1 hp)
      rw [← this]
    calc (sortDesc s.vdses).map (fun p => (natBin flog p.2.n, p.2))
        = (sortDesc s.vdses).map id := List.map_congr_left (by intro p hp; simpa using hmem p hp)
      _ = sortDesc s.vdses := List.map_id _
  rw [this]
  exact sortDesc_binOf s.vdses b

/-- **The import intervals survive save → load unchanged**: `_convert_from_json ∘ _convert_to_json` is the identity on
intervals, *including the two `includes_*` flags* … -/
theorem save_load_intervals (ivs : List Iv) : reloadIntervals ivs = ivs := reloadIntervals_eq ivs

/-- … so a combiner resumed from its plan imports with the same partitioning: for the closed intervals that
`calculate_even_genome_partitioning` produces for a contig, every base is still covered exactly once after the round
trip (a decoder that re-created the intervals half-open would lose the last base of each: `example` below). -/
theorem resumed_partition_covers (c L size : Nat) (hL : 1 ≤ L) (hs : 1 ≤ size) :
    ∃ ivs, evenPartition L size = some ivs ∧
      ∀ p, 1 ≤ p → p ≤ L → (reloadIntervals (ivs.map (closedIv c))).countP (fun i => i.covers c p) = 1 := by
  obtain ⟨ivs, h1, h2, _⟩ := partition_each_base_once L size hL hs
  refine ⟨ivs, h1, ?_⟩
  intro p hp1 hp2
  rw [reloadIntervals_eq, List.countP_map]
  have : ((fun i => i.covers c p) ∘ closedIv c) = covers p := by
    funext iv; exact closedIv_covers c iv p
  rw [this]
  exact h2 p hp1 hp2

-- what a lossy decoder (`hl.Interval(start, end)` with the default `includes_end=False`) would do to `[1,4] [5,8] [9,11]`
example : ([(1, 4), (5, 8), (9, 11)].map fun iv => (⟨0, iv.1, 0, iv.2, true, false⟩ : Iv)).countP (fun i => i.covers 0 4) = 0 := by
  decide
example : (reloadIntervals ([(1, 4), (5, 8), (9, 11)].map (closedIv 0))).countP (fun i => i.covers 0 4) = 1 := by decide

/-- the bump is lost by save → load: three one-sample datasets, branch factor 2 (exact logarithm): after one step the
merged pair sits in bin 2, after `load(save(·))` it is back in bin 1, *in front of* the dataset that was there. -/
example :
    let fl := ilog 2
    let s1 := (mkPlan fl [] none [⟨[7], 1⟩, ⟨[8], 1⟩, ⟨[9], 1⟩] 2 1).map (step fl)
    s1.map (·.vdses) = some [(1, ⟨[9], 1⟩), (2, ⟨[7, 8], 2⟩)] ∧
    s1.map (fun s => (reload fl s).vdses) = some [(1, ⟨[7, 8], 2⟩), (1, ⟨[9], 1⟩)] := by decide

/-- **Progress of a GVCF step** under the guard the constructor enforces (`branch_factor ≥ 2`, `gvcf_batch_size ≥ 1`):
every `_step_gvcfs` consumes at least one pending GVCF. -/
theorem gvcf_step_consumes (s : Plan) (h : WF s) (hg : s.gvcfs ≠ []) :
    (stepGvcfs flog s).gvcfs.length < s.gvcfs.length :=
  stepGvcfs_consumes flog s (by have := h.1; omega) h.2 hg

/-- Without the guard there is no progress: with batch size 0 (and an external header, so that `files_to_merge[0]`
is not evaluated) a step with GVCFs pending changes nothing, `run()` loops forever. -/
theorem zero_batch_stuck (s : Plan) (hb : s.batch = 0) (hg : s.gvcfs ≠ []) : step flog s = s := by
  unfold step
  have hf : finished s = false := by
    unfold finished; cases h : s.gvcfs <;> simp_all
  have hne : (!s.gvcfs.isEmpty) = true := by cases h : s.gvcfs <;> simp_all
  simp only [hf, Bool.false_eq_true, if_false, hne, if_true]
  exact stepGvcfs_zero_batch flog s hb hg

/-! #### the public `gvcf_batch_size` setter -/

/-- **The setter keeps the constructor's guard**, for every number of import intervals: a requested batch size `≥ 1`
stays `≥ 1` (and is never raised), so `WF` — and with it every theorem of this file — survives a
`combiner.gvcf_batch_size = v` between steps; the setter touches nothing else (inputs, datasets, measure unchanged). -/
theorem setter_keeps_guard (nIv v : Nat) (s : Plan) (h : WF s) (hv : 1 ≤ v) :
    WF (setBatch nIv v s) ∧ (setBatch nIv v s).batch ≤ v ∧ allLeaves (setBatch nIv v s) = allLeaves s ∧
      planMeasure (setBatch nIv v s) = planMeasure s ∧ (setBatch nIv v s).finals = s.finals :=
  ⟨⟨h.1, clampBatch_pos hv⟩, clampBatch_le hv, rfl, rfl, rfl⟩

/-- The setter before the repair (79521ff4e) kept the guard only up to 150 000 import intervals … -/
theorem setter_keeps_guard_old (nIv v : Nat) (hn : nIv ≤ 150000) (hv : 1 ≤ v) : 1 ≤ clampBatchOld nIv v :=
  clampBatchOld_pos hn hv

-- … and broke it above: `150000 // 150001 = 0`, after which `zero_batch_stuck` applies (the repaired defect)
example : clampBatchOld 150001 1 = 0 := by decide
example : ¬ (∀ nIv v, 1 ≤ v → 1 ≤ clampBatchOld nIv v) := fun h => absurd (h 150001 1 (Nat.le_refl 1)) (by decide)
example : clampBatch 150001 1 = 1 ∧ clampBatch 147075 20 = 1 ∧ clampBatch 50001 3 = 2 ∧ clampBatch 1000 20 = 20 := by decide

/-- **Termination with arbitrary stop/resume points.** From any plan the constructor can produce (or any state
reached later), running `n ≥ 2·#gvcfs + #datasets` steps — saving and reloading before any subset of them — reaches a
finished plan. -/
theorem terminates (resume : Nat → Bool) (n i : Nat) (s : Plan) (hw : WF s) (hf : FinalsOK s) (hn : planMeasure s ≤ n) :
    finished (runWith flog resume n i s) = true :=
  (runWith_props flog resume n i s hw hf).2.2.2.2 (Or.inl hn)

/-- **The combiner merges every input exactly once, also across stop/resume.** Inputs: GVCFs `gvcfs` (ids) and
datasets `vdsIn` (id, n_samples). For every accepted configuration, every `flog`, every resume schedule and every
`n ≥ 2·#gvcfs + #input datasets`: the run is finished, nothing is left in the plan, and — unless there is no input at
all — exactly one dataset has been written to the output path; it is built from exactly the given inputs (as a
multiset: each once when the ids are distinct) and has all their samples. With no input nothing is written. -/
theorem one_dataset_from_all_inputs (resume : Nat → Bool) (gvcfs : List Nat) (names : Option (List Nat))
    (vdsIn : List (Nat × Nat)) (bf batch : Nat) (s0 : Plan)
    (h0 : mkPlan flog gvcfs names (vdsIn.map fun p => ⟨[p.1], p.2⟩) bf batch = some s0)
    (n : Nat) (hn : 2 * gvcfs.length + vdsIn.length ≤ n) :
    let s := runWith flog resume n 0 s0
    let inputs := gvcfs ++ vdsIn.map (·.1)
    s.gvcfs = [] ∧ s.vdses = [] ∧
      (inputs ≠ [] → ∃ d, s.finals = [d] ∧ d.leaves.Perm inputs ∧ d.n = gvcfs.length + (vdsIn.map (·.2)).sum) ∧
      (inputs = [] → s.finals = []) := by
  intro s inputs
  obtain ⟨hbf, hbatch, hs0⟩ := mkPlan_some h0
  have hw : WF s0 := by subst hs0; exact ⟨hbf, hbatch⟩
  have hfin : FinalsOK s0 := by subst hs0; exact Or.inl rfl
  have hleaves : allLeaves s0 = inputs := by
    subst hs0
    simp only [allLeaves, List.flatMap_nil, List.append_nil, inputs]
    rw [List.flatMap_map]
    exact congrArg (gvcfs ++ ·) (leaves_of_inputs vdsIn)
  have htot : totalN s0 = gvcfs.length + (vdsIn.map (·.2)).sum := by
    subst hs0
    simp only [totalN, List.map_nil, List.sum_nil, Nat.add_zero]
    rw [List.map_map]
    exact congrArg (gvcfs.length + ·) (n_of_inputs vdsIn)
  have hmeas : planMeasure s0 ≤ n := by
    subst hs0; simp only [planMeasure, List.length_map]; exact hn
  obtain ⟨_, f2, l2, t2, fin2⟩ := runWith_props flog resume n 0 s0 hw hfin
  have hdone := (finished_iff _).1 (fin2 (Or.inl hmeas))
  have hs_leaves : allLeaves s = s.finals.flatMap (·.leaves) := by
    show allLeaves (runWith flog resume n 0 s0) = _
    unfold allLeaves
    rw [hdone.1, hdone.2]; rfl
  have hs_tot : totalN s = (s.finals.map (·.n)).sum := by
    show totalN (runWith flog resume n 0 s0) = _
    unfold totalN
    rw [hdone.1, hdone.2]; simp only [List.length_nil, List.map_nil, List.sum_nil, Nat.zero_add]; rfl
  refine ⟨hdone.1, hdone.2, ?_, ?_⟩
  · intro hne
    rcases f2 with hnil | ⟨_, hlen⟩
    · exfalso
      have : allLeaves s = [] := by
        rw [hs_leaves]; show List.flatMap _ (runWith flog resume n 0 s0).finals = []; rw [hnil]; rfl
      have hp : ([] : List Nat).Perm inputs := by rw [← this, ← hleaves]; exact l2
      exact hne (List.Perm.nil_eq hp).symm
    · obtain ⟨d, hd⟩ := List.length_eq_one_iff.1 hlen
      refine ⟨d, hd, ?_, ?_⟩
      · have : allLeaves s = d.leaves := by
          rw [hs_leaves]; show List.flatMap _ (runWith flog resume n 0 s0).finals = _; rw [hd]; simp
        rw [← this, ← hleaves]; exact l2
      · have : totalN s = d.n := by
          rw [hs_tot]; show (List.map _ (runWith flog resume n 0 s0).finals).sum = _; rw [hd]; simp
        rw [← this, ← htot]; exact t2
  · intro he
    -- no input: the initial plan is already finished and the run leaves it untouched
    have hg : gvcfs = [] := (List.append_eq_nil_iff.1 he).1
    have hv : vdsIn = [] := List.map_eq_nil_iff.1 (List.append_eq_nil_iff.1 he).2
    have hf0 : finished s0 = true := by subst hs0; subst hg; subst hv; rfl
    show (runWith flog resume n 0 s0).finals = []
    rw [runWith_of_finished flog resume n 0 s0 hf0]
    subst hs0; rfl

/-! ### failures inside steps -/

/-- **A step is atomic with respect to the saved plan.** Whatever happens inside `step()`, the plan at `save_path` is
the one saved just before that step: after a completed step it is the pre-step plan (the next iteration saves again),
after a failed step it is *still* the pre-step plan and the restarted combiner is `load` of exactly that. -/
theorem step_atomic_wrt_saved_plan (o : Outcome) (r : RunSt) :
    (iter flog o r).saved = r.mem ∧ (o = .fault → (iter flog o r).mem = reload flog r.mem) ∧
      (o = .done → (iter flog o r).mem = step flog r.mem) := by
  cases o <;> simp [iter]

/-- **Interrupted runs still merge every input exactly once.** For every history of loop iterations — any number of
failures inside steps, each followed by a restart from the saved plan — that contains at least
`2·#gvcfs + #input datasets` completed steps: the plan is finished and exactly one dataset has been written, built from
exactly the given inputs with all their samples. (A failed step is assumed to have had no effect the saved plan can
see: what it wrote goes to fresh temporary paths that no plan references.) -/
theorem interrupted_runs_complete (os : List Outcome) (gvcfs : List Nat) (names : Option (List Nat))
    (vdsIn : List (Nat × Nat)) (bf batch : Nat) (s0 : Plan)
    (h0 : mkPlan flog gvcfs names (vdsIn.map fun p => ⟨[p.1], p.2⟩) bf batch = some s0)
    (hn : 2 * gvcfs.length + vdsIn.length ≤ (os.filter (· = Outcome.done)).length)
    (hne : gvcfs ++ vdsIn.map (·.1) ≠ []) :
    let s := (runFaulty flog os ⟨s0, s0⟩).mem
    s.gvcfs = [] ∧ s.vdses = [] ∧
      ∃ d, s.finals = [d] ∧ d.leaves.Perm (gvcfs ++ vdsIn.map (·.1)) ∧ d.n = gvcfs.length + (vdsIn.map (·.2)).sum := by
  intro s
  obtain ⟨hbf, hbatch, hs0⟩ := mkPlan_some h0
  have hw : WF s0 := by subst hs0; exact ⟨hbf, hbatch⟩
  have hfin : FinalsOK s0 := by subst hs0; exact Or.inl rfl
  have hleaves : allLeaves s0 = gvcfs ++ vdsIn.map (·.1) := by
    subst hs0
    simp only [allLeaves, List.flatMap_nil, List.append_nil]
    rw [List.flatMap_map]
    exact congrArg (gvcfs ++ ·) (leaves_of_inputs vdsIn)
  have htot : totalN s0 = gvcfs.length + (vdsIn.map (·.2)).sum := by
    subst hs0
    simp only [totalN, List.map_nil, List.sum_nil, Nat.add_zero]
    rw [List.map_map]
    exact congrArg (gvcfs.length + ·) (n_of_inputs vdsIn)
  have hmeas : planMeasure s0 ≤ (os.filter (· = Outcome.done)).length := by
    subst hs0; simp only [planMeasure, List.length_map]; exact hn
  obtain ⟨_, f2, l2, t2, fin2⟩ := runFaulty_props flog os ⟨s0, s0⟩ hw hfin
  exact finished_result f2 (fin2 (Or.inl hmeas)) (hleaves ▸ l2) (htot ▸ t2) hne

end HailVerif.C38

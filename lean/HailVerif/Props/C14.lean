import HailVerif.Generated.BatchRoutes
import HailVerif.Model.SessionCache
/-!
# C14 — Batch API access control

Subjects: `Generated.BatchRoutes.routes` (the route table re-extracted from `batch/batch/front_end/front_end.py` on every
run), `Access.decision` (semantics of the guard decorators of `gear/gear/auth.py` / `front_end.py`, tied to the real
decorator objects by exhaustive differential runs), `Access.required` (the policy of the property, a function of method
and path), `Access.mutate` (which check comes first in the owner-only mutators, tied to the real handlers over minisql).

A route added without a guard, a dropped or weakened decorator, or an owner-only handler that no longer starts with the
owner-filtered SELECT makes `table_ok` / `owner_filter_first` fail to `decide`.
-/
namespace HailVerif.C14
open HailVerif.Access HailVerif.Generated.BatchRoutes

/-- what the guards establish about a caller that reaches the handler body (for `owner`: an authenticated active user; the
ownership itself is the SQL filter's job, see `owner_filter_first` and `owner_only_partial`) -/
def establishedByGuards (cls : Class) (c : Caller) : Bool :=
  match cls with
  | .pub => true
  | .user | .owner => isUser c
  | .member => isUser c && c.member
  | .admin => isUser c && (c.developer || c.isAuth)

/-- decorator `d` is a guard of (at least) class `cls` -/
def enforces (d : Decorator) (cls : Class) : Bool :=
  match cls, d with
  | .pub, _ => true
  | .user, .usersOnly _ | .user, .developersOnly _ | .user, .developersOrAuthOnly | .user, .billingProjectUsersOnly _ => true
  | .owner, .usersOnly _ | .owner, .developersOnly _ | .owner, .developersOrAuthOnly | .owner, .billingProjectUsersOnly _ => true
  | .member, .billingProjectUsersOnly _ => true
  | .admin, .developersOnly _ | .admin, .developersOrAuthOnly => true
  | _, _ => false

/-- the check that is `decide`d over the generated table -/
def routeOK (r : Route) : Bool :=
  required r.method r.segs == .pub || r.decorators.any (enforces · (required r.method r.segs))

theorem usersOnly_allow {r : Option Bool} {a : Bool} {c : Caller} (h : usersOnly r a c = .allow) : isUser c = true := by
  unfold usersOnly at h
  cases hs : c.hasSession <;> cases ha : c.active <;> simp [hs, ha, isUser] at h ⊢
  all_goals (split at h <;> simp at h)

/-- A guard of class `cls` lets a caller through only if the caller is of that class: everybody below is refused by the
guard itself, i.e. before anything further inside (in particular the handler body) runs. -/
theorem guard_sound {d : Decorator} {cls : Class} {a : Bool} {c : Caller} (he : enforces d cls = true)
    (h : guard d a c = .allow) : establishedByGuards cls c = true := by
  cases d with
  | usersOnly r =>
    have := usersOnly_allow (r := r) (a := a) (c := c) (by simpa [Access.guard] using h)
    cases cls <;> simp_all [enforces, establishedByGuards]
  | developersOnly r =>
    simp only [Access.guard] at h
    cases hu : usersOnly (some r) a c <;> simp [hu] at h
    have := usersOnly_allow hu
    cases hd : c.developer <;> simp [hd] at h
    cases cls <;> simp_all [enforces, establishedByGuards]
  | developersOrAuthOnly =>
    simp only [Access.guard] at h
    cases hu : usersOnly none a c <;> simp [hu] at h
    have := usersOnly_allow hu
    cases hd : c.developer <;> cases hx : c.isAuth <;> simp [hd, hx] at h
    all_goals (cases cls <;> simp_all [enforces, establishedByGuards])
  | billingProjectUsersOnly r =>
    simp only [Access.guard] at h
    cases hu : usersOnly r a c <;> simp [hu] at h
    have := usersOnly_allow hu
    cases hb : c.batchIdOk <;> cases hm : c.member <;> simp [hb, hm] at h
    cases cls <;> simp_all [enforces, establishedByGuards]
  | maybeAuthenticated => cases cls <;> simp_all [enforces, establishedByGuards]
  | passThrough n => cases cls <;> simp_all [enforces, establishedByGuards]

/-- The body is entered only if every decorator of the stack let the caller through. -/
theorem decision_allow_mem {ds : List Decorator} {a : Bool} {c : Caller} (h : decision ds a c = .allow) :
    ∀ d ∈ ds, guard d a c = .allow := by
  induction ds with
  | nil => simp
  | cons d ds ih =>
    unfold decision at h
    cases hg : guard d a c <;> simp [hg] at h
    intro d' hd'
    rcases List.mem_cons.1 hd' with rfl | hm
    · exact hg
    · exact ih h d' hm

/-- The generated table passes the check (kernel evaluation over all current routes). -/
theorem table_ok : routes.all routeOK = true := by decide +kernel

/-- EVERY ROUTE IS GUARDED: for every registered route and EVERY caller, the handler body is entered only if the caller is
of the class the policy requires (as far as guards can establish it). -/
theorem every_route_guarded (r : Route) (hr : r ∈ routes) (c : Caller)
    (h : decision r.decorators r.isApi c = .allow) : establishedByGuards (required r.method r.segs) c = true := by
  have hok := List.all_eq_true.1 table_ok r hr
  unfold routeOK at hok
  cases hp : (required r.method r.segs == .pub) with
  | true =>
    have : required r.method r.segs = .pub := by simpa using hp
    simp [this, establishedByGuards]
  | false =>
    simp only [hp, Bool.false_or, List.any_eq_true] at hok
    obtain ⟨d, hd, he⟩ := hok
    exact guard_sound he (decision_allow_mem h d hd)

/-- …stated on the serving function: anonymous / inactive callers, non-members, non-admins get an error. -/
theorem below_class_is_refused {σ : Type} (r : Route) (hr : r ∈ routes) (c : Caller) (body : σ → σ) (s : σ)
    (hc : establishedByGuards (required r.method r.segs) c = false) : (serve r c body s).1 ≠ .allow := by
  intro h
  unfold serve at h
  cases hd : decision r.decorators r.isApi c <;> simp [hd] at h
  have := every_route_guarded r hr c hd
  simp [hc] at this

/-- A refused request changes nothing: the guards only read, the body is the only thing that can write. -/
theorem deny_changes_nothing {σ : Type} (r : Route) (c : Caller) (body : σ → σ) (s : σ)
    (h : (serve r c body s).1 ≠ .allow) : (serve r c body s).2 = s := by
  unfold serve at h ⊢
  cases hd : decision r.decorators r.isApi c <;> simp [hd] at h ⊢

/-- being a service account gives no administration rights: a non-developer service account other than `auth` is refused by
`authenticated_developers_or_auth_only` -/
theorem service_account_is_not_admin (a : Bool) (c : Caller) (hd : c.developer = false) (ha : c.isAuth = false) :
    Access.guard .developersOrAuthOnly a c ≠ .allow := by
  simp only [Access.guard]
  cases hu : usersOnly none a c <;> simp [hd, ha]

theorem admin_only (d a : Bool) (h : (d || a) = false) : adminOnly d a = some { ok := false, changed := false } := by
  simp [adminOnly, h]

/-- DATA LEVEL: every row that passes the WHERE clause of a job listing belongs to the requested batch, whatever state term the
query carries. -/
theorem listed_jobs_belong_to_batch (rowBatch reqBatch rowState : Nat) (states : List Nat)
    (h : whereJobs rowBatch reqBatch rowState states = true) : rowBatch = reqBatch := by
  simp [whereJobs] at h; exact h.1
-- without the parentheses around a multi-state term (`done` = cancelled | error | failed | success) a foreign batch's row passes
example : whereJobsBare 4 10 2 [1, 2, 3] = true := by decide
example : whereJobs 4 10 2 [1, 2, 3] = false := by decide

/-! ## owner-only mutators -/

/-- Every owner-class route starts with the owner-filtered SELECT (`… user = %s`), over the current table. -/
theorem owner_filter_first : ∀ r ∈ routes, required r.method r.segs = .owner → r.ownerFilter = true := by
  have h : routes.all (fun r => required r.method r.segs != .owner || r.ownerFilter) = true := by decide +kernel
  intro r hr hreq
  have := List.all_eq_true.1 h r hr
  simpa [hreq] using this

/-- `_user_can_access` (the membership test behind `billing_project_users_only`) compares the case-sensitive column. -/
theorem member_filter_case_sensitive : userCanAccessColumn = "user_cs" := by decide

/-- OWNER ONLY, FULL STATEMENT (false today, see `owner_only_fails`): a non-owner's request to any of the mutators gets an
error and nothing changes. -/
def OwnerOnly : Prop := ∀ (m : Mutator) (q : MutReq), q.isOwner = false → mutate m q = { ok := false, changed := false }

/-- Negation on the witness: an account whose name differs from the owner's only by case (`Alice` vs `alice`; auth's
`users.username` is unique under a case-SENSITIVE collation, so both can exist) passes `batches.user = %s`. -/
theorem owner_only_fails : ¬ OwnerOnly := by
  intro h
  have := h .createJobs { isOwner := false, tokenKnown := false, emptyPayload := false, namesake := true } rfl
  simp [mutate, MutReq.passesOwnerFilter] at this

/-- PARTIAL (explicit hypothesis: the caller is not a namesake of the owner): refusal without change, whatever token the
request carries. -/
theorem owner_only_partial (m : Mutator) (q : MutReq) (hno : q.isOwner = false) (hns : q.namesake = false) :
    mutate m q = { ok := false, changed := false } := by
  cases m <;> simp [mutate, createBatchUpdate, MutReq.passesOwnerFilter, hno, hns]

/-- FULL STATEMENT about the extracted SQL (false today): every comparison with the user name uses a case-sensitive column. -/
def AllUserFiltersCaseSensitive : Prop := ∀ f ∈ userFilters, f.2.2 = true

theorem all_user_filters_case_sensitive_fails : ¬ AllUserFiltersCaseSensitive := by
  intro h
  have := h ("front_end.py:commit_update", "batches.user", false) (by decide +kernel)
  simp at this

/-- the batch listings: without a namesake, a batch is listed only for members / the owner -/
theorem listing_partial (m : Bool) : listed m false = m := by simp [listed]
example : listed false true = true := by decide

/-! ### the repaired defect (`_create_batch_update` before commit 4c50f4344) -/

/-- the full statement for the old control flow, even without namesakes -/
def OwnerOnlyOld : Prop :=
  ∀ (m : Mutator) (q : MutReq), q.isOwner = false → q.namesake = false → mutateOld m q = { ok := false, changed := false }

/-- update-fast by a non-owner who sent an existing token and empty bunch/job_groups committed the update. -/
theorem owner_only_old_fails : ¬ OwnerOnlyOld := by
  intro h
  have := h .updateFast { isOwner := false, tokenKnown := true, emptyPayload := true, namesake := false } rfl rfl
  simp [mutateOld, createBatchUpdateOld] at this

-- the two repaired behaviours, old vs. current
example : mutateOld .updateFast ⟨false, true, true, false⟩ = { ok := true, changed := true } := by decide
example : mutate .updateFast ⟨false, true, true, false⟩ = { ok := false, changed := false } := by decide
example : mutateOld .createUpdate ⟨false, true, false, false⟩ = { ok := true, changed := false } := by decide
example : mutate .createUpdate ⟨false, true, false, false⟩ = { ok := false, changed := false } := by decide
-- idempotent retry by the owner still works
example : mutate .createUpdate ⟨true, true, false, false⟩ = { ok := true, changed := false } := by decide

/-! Non-vacuity: the table has routes of every class; concrete decisions at the boundaries. -/

example : routes.any (fun r => required r.method r.segs == .pub) = true := by decide +kernel
example : routes.any (fun r => required r.method r.segs == .member) = true := by decide +kernel
example : routes.any (fun r => required r.method r.segs == .owner && r.ownerFilter) = true := by decide +kernel
example : routes.any (fun r => required r.method r.segs == .admin) = true := by decide +kernel
-- a billing-project member reads, a stranger gets 404, an anonymous API caller 401, an inactive account 403
example : decision [.billingProjectUsersOnly none, .passThrough "add_metadata_to_request"] true
    { hasSession := true, active := true, developer := false, isAuth := false, serviceAccount := false, member := true, owner := false, batchIdOk := true } = .allow := by decide
example : decision [.billingProjectUsersOnly none] true
    { hasSession := true, active := true, developer := true, isAuth := false, serviceAccount := false, member := false, owner := false, batchIdOk := true } = .notFound := by decide
example : decision [.usersOnly none] true
    { hasSession := false, active := true, developer := false, isAuth := false, serviceAccount := false, member := false, owner := false, batchIdOk := true } = .unauthorized := by decide
example : decision [.usersOnly none] false
    { hasSession := false, active := true, developer := false, isAuth := false, serviceAccount := false, member := false, owner := false, batchIdOk := true } = .redirectLogin := by decide
example : decision [.developersOrAuthOnly] true
    { hasSession := true, active := false, developer := true, isAuth := false, serviceAccount := false, member := false, owner := false, batchIdOk := true } = .forbidden := by decide
-- a route without any guard that is not on the public list fails the check
def unguardedRoute : Route :=
  { method := .get, path := "/api/v1alpha/batches/{batch_id}/secret",
    segs := ["api", "v1alpha", "batches", "{batch_id}", "secret"], handler := "x", isApi := true,
    decorators := [.passThrough "add_metadata_to_request"], ownerFilter := false }
example : routeOK unguardedRoute = false := by decide
-- …and so does a batch-scoped read guarded only by authenticated_users_only
def weakenedRoute : Route :=
  { method := .get, path := "/api/v1alpha/batches/{batch_id}", segs := ["api", "v1alpha", "batches", "{batch_id}"],
    handler := "get_batch", isApi := true, decorators := [.usersOnly none], ownerFilter := false }
example : routeOK weakenedRoute = false := by decide
-- the owner succeeds
example : mutate .commitUpdate ⟨true, false, false, false⟩ = { ok := true, changed := true } := by decide

end HailVerif.C14

/-! ## "authenticated, ACTIVE user" over time: the userinfo cache in front of every guard -/
namespace HailVerif.C14.Session
open HailVerif.SessionCache

/-- invariant of the authenticator + TTL cache (the code: `sliding = false`) -/
structure Inv (lifetime : Nat) (st : State) : Prop where
  fresh : ∀ v e, st.entry = some (v, e) → e ≤ st.now + lifetime
  stale : ∀ e b, st.entry = some (.active, e) → st.badSince = some b → e ≤ b + lifetime
  bad : st.badSince = none ↔ st.svc = .active
  past : ∀ b, st.badSince = some b → b ≤ st.now

theorem inv_init (lifetime : Nat) : Inv lifetime init :=
  ⟨by simp [init], by simp [init], by simp [init], by simp [init]⟩

theorem inv_step (lifetime : Nat) (st : State) (op : Op) (h : Inv lifetime st) : Inv lifetime (step false lifetime st op).1 := by
  cases op with
  | advance dt =>
    refine ⟨fun v e he => ?_, h.stale, h.bad, fun b hb => ?_⟩
    · have := h.fresh v e he; simp only [step]; omega
    · have := h.past b hb; simp only [step]; omega
  | setSvc s =>
    refine ⟨h.fresh, ?_, ?_, ?_⟩
    · intro e b he hb
      simp only [step] at he hb
      cases hs : (s == Svc.active) with
      | true => simp [hs] at hb
      | false =>
        simp only [hs, Bool.false_eq_true, ↓reduceIte] at hb
        cases hbs : st.badSince with
        | some b0 => rw [hbs] at hb; injection hb with hb; subst hb; exact h.stale e b0 he hbs
        | none => rw [hbs] at hb; injection hb with hb; subst hb; exact h.fresh _ e he
    · simp only [step]
      cases s <;> cases hbs : st.badSince <;> simp
    · intro b hb
      simp only [step] at hb ⊢
      cases hs : (s == Svc.active) with
      | true => simp [hs] at hb
      | false =>
        simp only [hs, Bool.false_eq_true, ↓reduceIte] at hb
        cases hbs : st.badSince with
        | some b0 => rw [hbs] at hb; injection hb with hb; subst hb; exact h.past b0 hbs
        | none => rw [hbs] at hb; injection hb with hb; subst hb; exact Nat.le_refl _
  | request =>
    simp only [step]
    cases he : st.entry with
    | none =>
      simp only
      refine ⟨fun v e hve => ?_, fun e b hve hb => ?_, h.bad, h.past⟩
      · simp at hve; show e ≤ st.now + lifetime; omega
      · simp at hve
        have := h.bad.2 hve.1
        rw [this] at hb; simp at hb
    | some ve =>
      obtain ⟨v, e⟩ := ve
      by_cases hx : e ≤ st.now
      · simp only [hx, ↓reduceIte]
        refine ⟨fun v' e' hve => ?_, fun e' b hve hb => ?_, h.bad, h.past⟩
        · simp at hve; show e' ≤ st.now + lifetime; omega
        · simp at hve
          have := h.bad.2 hve.1
          rw [this] at hb; simp at hb
      · simp only [hx, ↓reduceIte, Bool.false_eq_true]
        exact ⟨fun v' e' hve => h.fresh v' e' (by rw [he]; exact hve), fun e' b hve hb => h.stale e' b (by rw [he]; exact hve) hb,
          h.bad, h.past⟩

/-- states reachable by any schedule of requests, clock advances and auth-service changes -/
inductive Reachable (lifetime : Nat) : State → Prop where
  | init : Reachable lifetime init
  | step {st : State} (op : Op) : Reachable lifetime st → Reachable lifetime (step false lifetime st op).1

theorem reachable_inv {lifetime : Nat} {st : State} (h : Reachable lifetime st) : Inv lifetime st := by
  induction h with
  | init => exact inv_init lifetime
  | step op _ ih => exact inv_step lifetime _ op ih

/-- STALENESS IS BOUNDED BY THE LIFETIME: whenever a request is let through (200), the auth service either says `active` right
now, or stopped saying so LESS than one cache lifetime ago.  A request arriving `lifetime` or more after the account was
deactivated / the session revoked is refused — no matter how often the session was used in between. -/
theorem staleness_bounded {lifetime : Nat} {st : State} (hr : Reachable lifetime st)
    (h : (step false lifetime st .request).2 = some 200) :
    st.badSince = none ∨ ∃ b, st.badSince = some b ∧ st.now < b + lifetime := by
  have hi := reachable_inv hr
  simp only [step] at h
  cases he : st.entry with
  | none =>
    simp only [he] at h
    left
    cases hs : st.svc <;> simp [hs, outcome] at h
    exact hi.bad.2 hs
  | some ve =>
    obtain ⟨v, e⟩ := ve
    simp only [he] at h
    by_cases hx : e ≤ st.now
    · simp only [hx, ↓reduceIte] at h
      left
      cases hs : st.svc <;> simp [hs, outcome] at h
      exact hi.bad.2 hs
    · simp only [hx, ↓reduceIte, Bool.false_eq_true] at h
      cases v <;> simp [outcome] at h
      cases hb : st.badSince with
      | none => exact Or.inl rfl
      | some b =>
        right
        refine ⟨b, rfl, ?_⟩
        have := hi.stale e b he hb
        omega

/-- the excluded variant (a hit re-inserts the entry: sliding lifetime): used at t = 0, 8, 16; deactivated at t = 4: the
request at t = 16 (12 after the deactivation, lifetime 10) is still let through; the code refuses it -/
def schedule : List Op := [.request, .advance 4, .setSvc .inactive, .advance 4, .request, .advance 8, .request]
example : (run true 10 init schedule).2 = [200, 200, 200] := by decide
example : (run false 10 init schedule).2 = [200, 200, 403] := by decide
-- boundary: exactly one lifetime after the load the entry has expired
example : (run false 10 init [.request, .setSvc .revoked, .advance 9, .request, .advance 1, .request]).2 = [200, 200, 401] := by decide

end HailVerif.C14.Session

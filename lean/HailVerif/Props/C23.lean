import HailVerif.Model.RangeRead
namespace HailVerif.C23
open HailVerif.RangeRead
theorem placeholder : (1 : Nat) = 1 := rfl
end HailVerif.C23

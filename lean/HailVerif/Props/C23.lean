import HailVerif.Proofs.RangeRead
/-!
# C23 — Ranged reads return exactly the requested bytes

Subject: `HailVerif.RangeRead`, the model of `AsyncFS.open_from / read_from / read_range` and of the stream classes of the local,
Google Cloud Storage, S3 and Azure Blob backends (`hailtop/aiotools/fs/fs.py`, `aiotools/local_fs.py`,
`aiocloud/aiogoogle/client/storage_client.py`, `aiocloud/aioaws/fs.py`, `aiocloud/aioazure/fs.py`), tied to the code by the
correspondence check `harness/props/c23.py`.

All theorems quantify over every blob, offset, length, read pattern and every way `ch` the service may cut a body into pieces
(`hch : ∀ b, (ch b).flatten = b`).

Two defects of `AzureReadableStream.read(-1)` found by this check were repaired in the repo (commit 86ee8e0ea); the model follows
the repaired code and the property is proved at full strength for all four backends.  The behaviour before the repair is kept
as `AzSt.readOld` / `AzSt.readAllOld` / `azRunOld`, with the two witnesses as `example`s at the end of this file.
-/
namespace HailVerif.C23
open HailVerif.RangeRead

/-! ## Range header and service semantics -/

/-- A length of 0 never reaches the header construction (`assert length >= 1`); `open_from` answers it with an empty stream. -/
theorem rangeSpec_rejects_zero (start : Nat) : rangeSpec start (some 0) = none := rfl

/-- `serve (rangeHeader start len) = blob[start : start+len]`: for every blob, offset and length ≥ 1 (or no length) the range the
GCS/S3 code asks for selects exactly the wanted bytes — clipped at EOF — when the offset lies inside the blob, and is answered 416
exactly when it does not.  (Includes the last byte `start + len = size`, and `start + len > size`.) -/
theorem serve_rangeHeader (blob : Blob) (start : Nat) (len : Option Nat) (hlen : len ≠ some 0) :
    ∃ r, rangeSpec start len = some r ∧ rangeHeader start len = some (render r) ∧
      serve blob r = if start < blob.length then .part (wanted blob start len) else .unsat := by
  cases len with
  | none => exact ⟨_, rfl, rfl, by simp [serve, wanted]⟩
  | some l =>
    have hl : 1 ≤ l := by
      rcases Nat.eq_zero_or_pos l with h | h
      · subst h; exact absurd rfl hlen
      · exact h
    refine ⟨⟨start, some (start + l - 1)⟩, by simp [rangeSpec, hl], by simp [rangeHeader, rangeSpec, hl], ?_⟩
    have h1 : ¬ (start + l - 1 < start) := by omega
    have h2 : start + l - 1 - start + 1 = l := by omega
    simp [serve, wanted, h1, h2]

/-- the `Range` header the GCS client passes down reaches the wire unchanged through the credentials layer — with anonymous
credentials (no auth headers at all), with a token, and on the retry after a 401 (each attempt applies `withAuth` to the same
caller headers); auth headers never contain a `Range` entry -/
theorem range_header_survives_session_layer (caller : Option Headers) (auth : List (String × String))
    (hauth : auth.lookup "Range" = none) :
    (withAuth caller auth).bind (· "Range") = caller.bind (· "Range") := by
  unfold withAuth
  split
  · rfl
  · simp [hauth]

/-- anonymous credentials leave the request headers alone altogether -/
theorem anonymous_credentials_keep_headers (caller : Option Headers) : withAuth caller [] = caller := rfl

/-- the wanted bytes are clipped at the end of the blob -/
theorem wanted_clipped (blob : Blob) (start l : Nat) (h : blob.length ≤ start + l) :
    wanted blob start (some l) = blob.drop start := by
  simp only [wanted, slice]
  exact List.take_of_length_le (by simp; omega)

/-- Azure: `download_blob(offset=start, length=len)` gives the wanted bytes iff the offset lies inside the blob -/
theorem azDownload_exact (blob : Blob) (start : Nat) (len : Option Nat) :
    azDownload blob start len = if start < blob.length then some (wanted blob start len) else none := rfl

/-! ## `TruncatedReadableBinaryIO` under any chunking of the underlying reads -/

/-- A reader limited to `lim` bytes over a file-like object that holds `ps` (pieces: its `read(n)` may return short at every piece
boundary) never yields a byte past the limit, whatever sequence of `read(n)`, `read(-1)`, `readexactly(n)` and drain loops is run:
the bytes handed out are always a prefix of the first `lim` bytes. -/
theorem truncated_reader_within_limit (ch : Blob → List Blob) (hch : ∀ b, (ch b).flatten = b) (ps : List Blob)
    (hps : ∀ p ∈ ps, p ≠ []) (lim : Nat) (ops : List Op) :
    (run ch ps.flatten (.file { pieces := ps, offset := 0, limit := some lim }) ops []).2.1 <+: ps.flatten.take lim := by
  have hg : Good false ps.flatten (.file { pieces := ps, offset := 0, limit := some lim }) (ps.flatten.take lim) :=
    ⟨⟨hps, fun l hl => by cases hl; exact Nat.zero_le _⟩, by simp [FileSt.content], by simp⟩
  cases hr : run ch ps.flatten (.file { pieces := ps, offset := 0, limit := some lim }) ops [] with
  | mk st rest =>
    obtain ⟨out, s'⟩ := rest
    obtain ⟨d, r', ho, hr', _⟩ := run_spec false ch hch ps.flatten ops _ _ [] hg (by simp; omega) st out s' hr
    exact ⟨r', by rw [ho, hr']; simp⟩

/-- … and a pattern that ends with a drain loop `while b := read(n)` (n ≥ 1) yields exactly the first `lim` bytes. -/
theorem truncated_reader_drain_exact (ch : Blob → List Blob) (hch : ∀ b, (ch b).flatten = b) (ps : List Blob)
    (hps : ∀ p ∈ ps, p ≠ []) (lim : Nat) (pre : List Op) (n : Nat) (hn : 1 ≤ n) (out : Blob) (s' : Stream)
    (h : run ch ps.flatten (.file { pieces := ps, offset := 0, limit := some lim }) (pre ++ [.drain n]) [] = (.ok, out, s')) :
    out = ps.flatten.take lim := by
  have hg : Good false ps.flatten (.file { pieces := ps, offset := 0, limit := some lim }) (ps.flatten.take lim) :=
    ⟨⟨hps, fun l hl => by cases hl; exact Nat.zero_le _⟩, by simp [FileSt.content], by simp⟩
  rw [run_append] at h
  cases hr : run ch ps.flatten (.file { pieces := ps, offset := 0, limit := some lim }) pre [] with
  | mk st rest =>
    obtain ⟨out1, s1⟩ := rest
    obtain ⟨d, r', ho, hr', hres⟩ := run_spec false ch hch ps.flatten pre _ _ [] hg (by simp; omega) st out1 s1 hr
    rw [hr] at h
    rcases hres with ⟨rfl, hg', _⟩ | rfl
    · simp only at h
      have hl : r'.length ≤ ps.flatten.length := by
        have h1 := congrArg List.length hr'
        rw [List.length_append, List.length_take] at h1
        omega
      have := run_last_complete false ch hch ps.flatten s1 r' out1 (.drain n) hg' hl (Or.inr ⟨n, hn, rfl⟩) out s' h
      rw [this, ho, hr']; simp
    · simp at h

/-! ## `open_from` followed by a read pattern -/

/-- the pattern ends with `read(-1)` or with a drain loop `while b := read(n)`, n ≥ 1 -/
def EndsComplete (ops : List Op) : Prop :=
  ∃ pre last, ops = pre ++ [last] ∧ (last = .call .readAll ∨ ∃ n, 1 ≤ n ∧ last = .drain n)

/-- **The property for `open_from`** (full statement): whatever the read pattern,
* the only exception is `UnexpectedEOFError`,
* the bytes handed out so far are a prefix of `blob[start : start+len]` — never a byte outside the requested range,
* if the pattern ends with `read(-1)` or a drain loop and no exception was raised, exactly `blob[start : start+len]` was handed out. -/
def OpenFromExact (ch : Blob → List Blob) (be : Backend) (blob : Blob) (start : Nat) (len : Option Nat) (ops : List Op) : Prop :=
  let res := openRun ch be blob start len ops
  (res.1 = .ok ∨ res.1 = .eof) ∧ res.2.1 <+: wanted blob start len ∧
    (res.1 = .ok → EndsComplete ops → res.2.1 = wanted blob start len)

private theorem open_from_core (ch : Blob → List Blob) (hch : ∀ b, (ch b).flatten = b) (be : Backend) (blob : Blob) (start : Nat)
    (len : Option Nat) (ops : List Op) : OpenFromExact ch be blob start len ops := by
  unfold OpenFromExact openRun
  have hopen := openFrom_spec ch hch be blob start len
  cases ho : openFrom ch be blob start len with
  | assertion => rw [ho] at hopen; exact absurd hopen id
  | eofAtOpen req =>
    refine ⟨?_, ?_, ?_⟩ <;> simp
  | stream s req =>
    rw [ho] at hopen
    obtain ⟨hg, haz, _⟩ := hopen
    simp only
    have hwl := wanted_length_le blob start len
    cases hr : run ch blob s ops [] with
    | mk st rest =>
      obtain ⟨out, s'⟩ := rest
      obtain ⟨d, r', hout, hw, hres⟩ := run_spec true ch hch blob ops s _ [] hg hwl st out s' hr
      simp only [List.nil_append] at hout
      subst hout
      refine ⟨by rcases hres with ⟨h, _⟩ | h <;> simp [h], ⟨r', hw.symm⟩, ?_⟩
      rintro rfl ⟨pre, last, rfl, hlast⟩
      rw [run_append] at hr
      cases hp : run ch blob s pre [] with
      | mk st1 rest1 =>
        obtain ⟨out1, s1⟩ := rest1
        obtain ⟨d1, r1, ho1, hw1, hres1⟩ := run_spec true ch hch blob pre s _ [] hg hwl st1 out1 s1 hp
        rw [hp] at hr
        rcases hres1 with ⟨rfl, hg1, haz1⟩ | rfl
        · simp only at hr
          have hl : r1.length ≤ blob.length := by
            have := congrArg List.length hw1; simp at this; omega
          have hlast' : (last = .call .readAll ∧ true = true) ∨ ∃ n, 1 ≤ n ∧ last = .drain n := by
            rcases hlast with rfl | h
            · exact Or.inl ⟨rfl, rfl⟩
            · exact Or.inr h
          have := run_last_complete true ch hch blob s1 r1 out1 last hg1 hl hlast' out s' hr
          rw [this, ho1, hw1]; simp
        · simp at hr

/-- **The property holds in full for all four backends** (local, Google Cloud Storage, S3, Azure Blob), every blob, offset,
length, chunking and read pattern — including `read(-1)` after partial reads on Azure. -/
theorem open_from_exact (ch : Blob → List Blob) (hch : ∀ b, (ch b).flatten = b) (be : Backend) (blob : Blob)
    (start : Nat) (len : Option Nat) (ops : List Op) : OpenFromExact ch be blob start len ops :=
  open_from_core ch hch be blob start len ops

/-- in particular no SDK exception escapes from a read pattern any more -/
theorem no_http_error_escapes (ch : Blob → List Blob) (hch : ∀ b, (ch b).flatten = b) (be : Backend) (blob : Blob)
    (start : Nat) (len : Option Nat) (ops : List Op) : (openRun ch be blob start len ops).1 ≠ .http416 := by
  have h := (open_from_exact ch hch be blob start len ops).1
  rcases h with h | h <;> rw [h] <;> decide

/-! ## `read_from` -/

/-- `read_from(url, start)` returns `blob[start:]`; the only other outcome is `UnexpectedEOFError`, and then `start` is at/after the
end of the blob (GCS and S3 answer 416 at open time; the local backend and Azure return `b''`) -/
theorem read_from_exact (ch : Blob → List Blob) (hch : ∀ b, (ch b).flatten = b) (be : Backend) (blob : Blob)
    (start : Nat) :
    ((readFrom ch be blob start).1 = .ok ∧ (readFrom ch be blob start).2.1 = blob.drop start) ∨
      ((readFrom ch be blob start).1 = .eof ∧ blob.length ≤ start) := by
  have h := open_from_exact ch hch be blob start none [.call .readAll]
  unfold OpenFromExact at h
  obtain ⟨hst, _, hall⟩ := h
  unfold readFrom
  rcases hst with hok | heof
  · left
    exact ⟨hok, by simpa [wanted] using hall hok ⟨[], _, rfl, Or.inl rfl⟩⟩
  · right
    refine ⟨heof, ?_⟩
    have hopen := openFrom_spec ch hch be blob start none
    unfold openRun at heof
    cases ho : openFrom ch be blob start none with
    | assertion => rw [ho] at hopen; exact absurd hopen id
    | eofAtOpen req => rw [ho] at hopen; exact hopen
    | stream s req =>
      rw [ho] at hopen heof
      obtain ⟨hg, _, _⟩ := hopen
      simp only [run] at heof
      have hs := step_spec true ch hch blob s _ .readAll hg
      cases hstep : step ch blob s .readAll with
      | ok b s1 => rw [hstep] at heof; simp at heof
      | eof s1 =>
        rw [hstep] at hs
        rcases hs with ⟨n, hn, _⟩ | hnil
        · cases hn
        · simp only [wanted] at hnil
          have := congrArg List.length hnil
          simp at this; omega
      | http416 s1 => rw [hstep] at hs; exact absurd hs id

/-- on Azure `read_from` never raises: it returns `blob[start:]`, which is empty at/after the end -/
theorem azure_read_from (ch : Blob → List Blob) (blob : Blob) (start : Nat) :
    (readFrom ch .azure blob start).1 = .ok ∧ (readFrom ch .azure blob start).2.1 = blob.drop start := by
  by_cases h : start < blob.length
  · simp [readFrom, openRun, openFrom, run, step, AzSt.readAll, azDownload, h, wanted]
  · simp [readFrom, openRun, openFrom, run, step, AzSt.readAll, azDownload, h, List.drop_eq_nil_of_le (Nat.le_of_not_lt h)]

/-! ## `read_range` -/

/-- **`read_range(url, start, end, end_inclusive)`** on all four backends: with `n = end - start + [inclusive] ≥ 0`, the call returns
exactly `blob[start : start+n]` when those `n` bytes exist, and raises `UnexpectedEOFError` (returning nothing) otherwise. -/
theorem read_range_exact_or_eof (ch : Blob → List Blob) (hch : ∀ b, (ch b).flatten = b) (be : Backend) (blob : Blob)
    (start : Nat) (end_ : Int) (incl : Bool) (hn : 0 ≤ end_ - start + (if incl then 1 else 0)) :
    let n := (end_ - start + (if incl then 1 else 0)).toNat
    let res := readRange ch be blob start end_ incl
    if (slice blob start n).length = n then res.1 = .ok ∧ res.2.1 = slice blob start n
    else res.1 = .eof ∧ res.2.1 = [] := by
  intro n res
  have hres : res = openRun ch be blob start (some n) [.call (.exactly n)] := by
    simp only [res, readRange]
    rw [if_neg (by omega)]
  rw [hres]
  unfold openRun
  have hopen := openFrom_spec ch hch be blob start (some n)
  cases ho : openFrom ch be blob start (some n) with
  | assertion => rw [ho] at hopen; exact absurd hopen id
  | eofAtOpen req =>
    rw [ho] at hopen
    simp only
    have hnil : slice blob start n = [] := by simp [slice, List.drop_eq_nil_of_le hopen]
    have hn0 : n ≠ 0 := by
      intro h0
      rw [h0] at ho
      simp [openFrom] at ho
    rw [hnil]
    simp only [List.length_nil]
    rw [if_neg (by omega)]
    simp
  | stream s req =>
    rw [ho] at hopen
    obtain ⟨hg, _, _⟩ := hopen
    simp only [run, wanted] at hg ⊢
    have hs := step_spec true ch hch blob s _ (.exactly n) hg
    have hle : (slice blob start n).length ≤ n := by simp [slice]; omega
    cases hstep : step ch blob s (.exactly n) with
    | ok b s1 =>
      rw [hstep] at hs
      obtain ⟨r', hr, _, _, _, hex, _⟩ := hs
      have hbl := hex n rfl
      have hl := congrArg List.length hr
      simp only [List.length_append] at hl
      have hr'nil : r' = [] := List.eq_nil_of_length_eq_zero (by omega)
      rw [if_pos (by omega)]
      simp [hr, hr'nil]
    | eof s1 =>
      rw [hstep] at hs
      simp only
      by_cases h0 : n = 0
      · -- length 0 goes to the EmptyReadableStream, whose readexactly(0) succeeds
        exfalso
        rw [h0] at ho
        simp only [openFrom, if_true] at ho
        cases ho
        rw [h0] at hstep
        simp [step] at hstep
      · have hlt : (slice blob start n).length < n := by
          rcases hs with ⟨m, hm, hlt⟩ | hnil
          · cases hm; exact hlt
          · rw [hnil]; simp; omega
        rw [if_neg (by omega)]
        simp
    | http416 s1 => rw [hstep] at hs; exact absurd hs id

/-- a negative span trips `assert length >= 1` on every backend: nothing is returned -/
theorem read_range_negative_span (ch : Blob → List Blob) (be : Backend) (blob : Blob) (start : Nat) (end_ : Int) (incl : Bool)
    (hn : end_ - start + (if incl then 1 else 0) < 0) :
    (readRange ch be blob start end_ incl).1 = .assertion ∧ (readRange ch be blob start end_ incl).2.1 = [] := by
  simp [readRange, hn]

/-! ## Non-vacuity: the chunkings used by the check satisfy `hch`, and boundary instances -/

theorem pieces_is_chunking (c : Nat) : ∀ b, (pieces c b).flatten = b := pieces_flatten c

example : rangeHeader 2 (some 3) = some "bytes=2-4" := by decide
example : rangeHeader 2 none = some "bytes=2-" := by decide
-- last byte, past EOF, offset = size, invalid (ignored) range
example : serve [10, 11, 12, 13, 14] ⟨4, some 4⟩ = .part [14] := by decide
example : serve [10, 11, 12, 13, 14] ⟨3, some 9⟩ = .part [13, 14] := by decide
example : serve [10, 11, 12, 13, 14] ⟨5, none⟩ = .unsat := by decide
example : serve [10, 11, 12, 13, 14] ⟨3, some 2⟩ = .full [10, 11, 12, 13, 14] := by decide
-- read patterns over a body delivered in pieces of 2
example : openRun (pieces 2) .s3 [1, 2, 3, 4, 5] 1 (some 3) [.call (.exactly 1), .call (.read 5), .drain 1] =
    (.ok, [2, 3, 4], some "bytes=1-3", []) := by decide
example : openRun (pieces 2) .localfs [1, 2, 3, 4, 5] 3 (some 9) [.call .readAll] = (.ok, [4, 5], none, []) := by decide
example : openRun (pieces 1) .azure [1, 2, 3, 4, 5] 1 (some 3) [.drain 2] = (.ok, [2, 3, 4], none, [(1, some 3)]) := by decide
example : (readRange (pieces 0) .gs [1, 2, 3, 4, 5] 2 10 true).1 = .eof := by decide
example : (readRange (pieces 0) .azure [1, 2, 3, 4, 5] 2 4 false) = (.ok, [3, 4], none, [(2, some 2)]) := by decide
example : (readRange (pieces 0) .localfs [] 0 0 false) = (.ok, [], none, []) := by decide


/-! ## The two defects repaired by commit 86ee8e0ea, on the old stream (`azRunOld`) and on the current one -/

-- blob `[1,2]`, `open_from(url, 0, length=1)`, `readexactly(1)`, `read()`: the old stream downloaded `length` bytes again from the
-- advanced offset and handed out byte 2, outside the requested range
example : azRunOld (pieces 0) [1, 2] 0 (some 1) [.exactly 1, .readAll] = (.ok, [1, 2]) := by decide
example : (openRun (pieces 0) .azure [1, 2] 0 (some 1) [.call (.exactly 1), .call .readAll]).2.1 = [1] := by decide
-- `read()` with the position at the end of the blob: the SDK's 416 error escaped
example : azRunOld (pieces 0) [7] 0 none [.exactly 1, .readAll] = (.http416, [7]) := by decide
example : azRunOld (pieces 0) [] 0 none [.readAll] = (.http416, []) := by decide
example : openRun (pieces 0) .azure [7] 0 none [.call (.exactly 1), .call .readAll] = (.ok, [7], none, [(0, none), (1, none)]) := by decide
example : (readFrom (pieces 0) .azure [] 0).1 = .ok := by decide
-- a length that reaches past EOF, partial read, then read(): the second download asks for what is left of the range
example : openRun (pieces 2) .azure [1, 2, 3] 1 (some 5) [.call (.read 1), .call .readAll] =
    (.ok, [2, 3], none, [(1, some 5), (2, some 4)]) := by decide

end HailVerif.C23

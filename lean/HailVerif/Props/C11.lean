import HailVerif.Proofs.FairShare
/-!
# C11 — Fair-share allocation is max-min fair

Subject: `HailVerif.FairShare.fairShare`, the model of `PoolScheduler._compute_fair_share`
(batch/batch/driver/instance_collection/pool.py), tied to the code by the correspondence check
`harness/props/c11.py`.

All theorems quantify over every list of users (`running`, `ready : Nat`, ties and zeros allowed)
and every `free : Int`, including `free ≤ 0`.  `res` is the list of `(user, allocated_cores_mcpu)`.
`n = us.length`; all rounding bounds are stated doubled to stay in the integers:
`2 * Σ ≤ 2 * F + n` is `Σ ≤ F + n/2`.
-/
namespace HailVerif.C11
open HailVerif.FairShare

variable (us : List User) (free : Int)

/-- Termination: the fuel `4n + 2` given to the loop always suffices (measure
`2·(2·|pending| + |allocating|) + [not at a breakpoint]` strictly decreases). -/
theorem fairShare_total : ∃ res, fairShare us free = some res := by
  obtain ⟨s, hs, -⟩ := fairShareState_spec us free
  exact ⟨s.result, by simp [fairShare, fairShareState] at hs ⊢; simp [hs]⟩

private theorem of_state {res : List (User × Int)} (h : fairShare us free = some res) :
    ∃ s, res = s.result ∧ Frame us (readySum us) s ∧
      (free ≤ 0 → s = initState us free) ∧ (0 < free → Post us free (readySum us) s) := by
  obtain ⟨s, hs, hrest⟩ := fairShareState_spec us free
  refine ⟨s, ?_, hrest⟩
  simp only [fairShare, fairShareState] at h hs
  rw [hs] at h
  simpa using h.symm

/-- Every user of the input gets exactly one entry of the result. -/
theorem users_preserved {res : List (User × Int)} (h : fairShare us free = some res) :
    (res.map Prod.fst).Perm us := by
  obtain ⟨s, rfl, hfr, -⟩ := of_state us free h
  rw [result_users]; exact hfr.perm

/-- The allocation is water-filling at one common integer level `L`:
every user receives `min ready (max 0 (L - running))`. -/
theorem waterfill_form {res : List (User × Int)} (h : fairShare us free = some res) :
    ∃ L : Int, ∀ p ∈ res, p.2 = min (p.1.ready : Int) (max 0 (L - p.1.running)) := by
  obtain ⟨s, rfl, hfr, -⟩ := of_state us free h
  exact ⟨s.mark, result_level hfr⟩

/-- Allocations are non-negative. -/
theorem alloc_nonneg {res : List (User × Int)} (h : fairShare us free = some res) :
    ∀ p ∈ res, 0 ≤ p.2 := by
  obtain ⟨L, hL⟩ := waterfill_form us free h
  intro p hp; rw [hL p hp]; omega

/-- No user is allocated more than its ready demand. -/
theorem alloc_le_ready {res : List (User × Int)} (h : fairShare us free = some res) :
    ∀ p ∈ res, p.2 ≤ (p.1.ready : Int) := by
  obtain ⟨L, hL⟩ := waterfill_form us free h
  intro p hp; rw [hL p hp]; omega

/-- Any user left short sits at the common water level `L` (`running + alloc = L`), or is above
it (`L ≤ running`) and receives nothing; conversely every user at or above the level receives
nothing and every user below it receives something unless it wants nothing. -/
theorem short_users_at_level {res : List (User × Int)} (h : fairShare us free = some res) :
    ∃ L : Int, ∀ p ∈ res,
      (p.2 < (p.1.ready : Int) → (p.1.running : Int) + p.2 = L ∨ (p.2 = 0 ∧ L ≤ (p.1.running : Int))) ∧
      (L ≤ (p.1.running : Int) → p.2 = 0) ∧
      ((p.1.running : Int) < L → 0 < p.1.ready → 0 < p.2) := by
  obtain ⟨L, hL⟩ := waterfill_form us free h
  refine ⟨L, fun p hp => ?_⟩
  have := hL p hp
  refine ⟨?_, ?_, ?_⟩ <;> omega

/-- With no free cores (zero or negative) nothing is allocated. -/
theorem free_le_zero_allocates_nothing {res : List (User × Int)} (h : fairShare us free = some res)
    (hf : free ≤ 0) : ∀ p ∈ res, p.2 = 0 := by
  obtain ⟨s, rfl, hfr, h0, -⟩ := of_state us free h
  have hs := h0 hf
  intro p hp
  have := result_level hfr p hp
  rw [hs] at this
  simp only [initState, level] at this
  omega

/-- The total never exceeds the free cores by more than rounding: `Σ alloc ≤ max free 0 + n/2`. -/
theorem sum_le_free_plus_rounding {res : List (User × Int)} (h : fairShare us free = some res) :
    2 * allocSum res ≤ 2 * max free 0 + us.length := by
  obtain ⟨s, rfl, hfr, h0, hpos⟩ := of_state us free h
  rw [result_sum hfr]
  have hn := allocating_le_users hfr
  by_cases hf : 0 < free
  · have := (hpos hf).sum_hi
    omega
  · have hs := h0 (by omega)
    have : committed s = 0 := by rw [hs]; simp [committed, initState, allocSum]
    omega

/-- All free cores are handed out when demand allows: if `0 < free ≤ Σ ready` then
`Σ alloc ≥ free - n/2`. -/
theorem exhaustive_when_demand {res : List (User × Int)} (h : fairShare us free = some res)
    (hf : 0 < free) (hd : free ≤ readySum us) :
    2 * free ≤ 2 * allocSum res + us.length := by
  obtain ⟨s, rfl, hfr, -, hpos⟩ := of_state us free h
  rw [result_sum hfr]
  have hn := allocating_le_users hfr
  have := (hpos hf).sum_lo hd
  omega

/-- … and when the free cores cover the whole demand everybody receives its whole demand. -/
theorem all_served_when_supply_suffices {res : List (User × Int)} (h : fairShare us free = some res)
    (hf : 0 < free) (hd : readySum us ≤ free) : ∀ p ∈ res, p.2 = (p.1.ready : Int) := by
  obtain ⟨s, rfl, hfr, -, hpos⟩ := of_state us free h
  exact result_served hfr ((hpos hf).served hd)

/-- The total allocation never exceeds the total demand (consequence of `alloc_le_ready`,
`users_preserved`), so `Σ alloc ≤ min (Σ ready) (max free 0 + n/2)`. -/
theorem sum_le_demand {res : List (User × Int)} (h : fairShare us free = some res) :
    allocSum res ≤ readySum us := by
  obtain ⟨s, rfl, hfr, -⟩ := of_state us free h
  rw [result_sum hfr]
  have := hfr.demand
  obtain ⟨h1, h2⟩ := remaining_nonneg hfr
  simp only [remaining] at this
  omega

/-! Non-vacuity: concrete inputs at the boundaries. `u i r d` = user `i` with `running r`, `ready d`. -/

private def u (i r d : Nat) : User := { id := i, running := r, ready := d }

-- two equal users, 5 free cores: 2.5 each rounds up to 3 + 3 (total exceeds free by n/2 = 1)
example : fairShare [u 0 0 3, u 1 0 3] 5 = some [(u 0 0 3, 3), (u 1 0 3, 3)] := by decide +kernel
-- a user already running 4 gets nothing until the others reach its level
example : fairShare [u 0 4 10, u 1 0 10, u 2 0 1] 4 = some [(u 2 0 1, 1), (u 1 0 10, 3), (u 0 4 10, 0)] := by
  decide +kernel
-- supply covers the demand
example : fairShare [u 0 2 3, u 1 0 1] 100 = some [(u 1 0 1, 1), (u 0 2 3, 3)] := by decide +kernel
-- negative free cores
example : fairShare [u 0 0 3] (-1) = some [(u 0 0 3, 0)] := by decide +kernel
example : fairShare [] 7 = some [] := by decide +kernel
-- … and once they reach it the rest is split (1/2 each rounds up to 1 + 1)
example : fairShare [u 0 4 10, u 1 0 10, u 2 0 1] 6 = some [(u 2 0 1, 1), (u 1 0 10, 5), (u 0 4 10, 1)] := by
  decide +kernel

end HailVerif.C11

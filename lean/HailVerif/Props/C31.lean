import HailVerif.Model.EngineLexer
import HailVerif.Generated.UnicodeClasses
namespace HailVerif.C31
open HailVerif.TypeStr
theorem placeholder : (1 : Nat) = 1 := rfl
end HailVerif.C31

import HailVerif.Proofs.TypeParse
import HailVerif.Proofs.EngineLexer
import HailVerif.Generated.UnicodeClasses
/-!
# C31 — Hail type strings round-trip

Subject: `HailVerif.TypeStr` (`Model/TypeStr.lean`), the model of `HailType.__str__`, `_parsable_string`, `dtype`
(PEG `type_grammar` + visitor), `escape_parsable` / `unescape_parsable` (CPython `unicode_escape` + backtick handling) and
`escape_id`; and `HailVerif.EngineLexer` (`Model/EngineLexer.lean`), the transcription of the engine's identifier lexing over
the literals extracted from `Parser.scala` / `StringEscapeUtils.scala` (`Generated/IRLexer.lean`, regenerated on every run).
Tied to the Python code by the correspondence check `harness/props/c31.py`.

Strings are arbitrary lists of code points; `cc` are the `\w` / `\s` classes outside ASCII and `jc` the Java identifier
classes: the general theorems hold for every choice of them, the refutations use the concrete tables of
`Generated/UnicodeClasses.lean`.
-/
namespace HailVerif.C31
open HailVerif.TypeStr HailVerif.EngineLexer HailVerif.Generated.UnicodeClasses

/-! ## Python side -/

/-- **Printed types parse back.** For every type Python can build (names are arbitrary Unicode strings, field names of a
struct distinct), `dtype(str(t)) == t`. -/
theorem parse_pretty (cc : Classes) (t : HType) (h : WF t) : dtype cc (str cc t) = some t := dtype_str cc t h

/-- The same inside any context that continues with `>`, `,`, `)`, `}` or the end of the text, with enough fuel: the
compositional form (`weight t ≤ |str t|`, so `dtype`'s own fuel always suffices). -/
theorem parse_pretty_in_context (cc : Classes) (t : HType) (h : WF t) (f : Nat) (hf : weight t ≤ f) (rest : Str)
    (hr : Follow rest) : pType cc f (str cc t ++ rest) = some (t, rest) := pType_str cc t h f hf rest hr

/-- **`unescape_parsable ∘ escape_parsable = id`**: what `escape_parsable` puts between the backticks decodes to the name. -/
theorem unescape_escape (s : Str) (h : ValidStr s) : unescapeParsable (replaceBacktick (unicodeEscape s)) = some s :=
  unescapeParsable_escaped s h

/-- **An emitted identifier is a `\w+` word or a backticked literal** that the grammar's `escaped_identifier` regex
delimits exactly and whose content decodes to the name. -/
theorem ident_word_or_backticked (cc : Classes) (n : Str) :
    (escapeParsable cc n = n ∧ n ≠ [] ∧ ∀ c ∈ n, cc.isWord c = true) ∨
    (∃ body, escapeParsable cc n = 96 :: (body ++ [96]) ∧
      (∀ rest, scanEscaped (body ++ 96 :: rest) = some (body, rest)) ∧ (ValidStr n → unescapeParsable body = some n)) := by
  unfold escapeParsable
  split
  · rename_i h
    obtain ⟨c, r, rfl, _, hall⟩ := isParsable_words cc n h
    exact Or.inl ⟨rfl, by simp, hall⟩
  · exact Or.inr ⟨_, rfl, fun rest => scan_body n rest, unescapeParsable_escaped n⟩

/-- The grammar rule `identifier` reads an emitted identifier back (before `:` or `>`), whatever the name. -/
theorem identifier_roundtrip (cc : Classes) (n : Str) (h : ValidStr n) (p : Nat) (rest : Str) (hp : p = 58 ∨ p = 62) :
    pIdentifier cc (escapeParsable cc n ++ p :: rest) = some (n, p :: rest) :=
  pIdentifier_escape cc n h p rest (by rcases hp with h | h <;> subst h <;> simp [Punct])

/-! ## Engine side -/

/-- the engine's `identifier` token parser, started on the emitted text followed by `rest` (which does not continue an
identifier), yields exactly the name and leaves `rest` -/
def EngineAccepts (jc : JavaClasses) (emitted name : Str) : Prop :=
  ∀ rest, (∀ p r, rest = p :: r → jc.part p = false) →
    identifier jc (utf16 emitted ++ rest) = some (utf16 name, rest)

/-- **FULL STATEMENT** of the engine half of the property: every identifier `escape_parsable` can emit is accepted by the
engine's lexer and denotes the same name.  It does NOT hold for the unchanged code — see `engine_accepts_emitted_refuted`
and the three witness theorems; `engine_accepts_emitted_partial` is what does hold. -/
def EngineAcceptsEmitted (cc : Classes) (jc : JavaClasses) : Prop :=
  ∀ name, ValidStr name → EngineAccepts jc (escapeParsable cc name) name

/-- witness class 1: U+0000 is emitted as `` `\x00` ``; `x` is not in the lexer's `escapeChars` -/
theorem engine_rejects_x_escape : identifier javaClasses (utf16 (escapeParsable pyClasses [0])) = none := by decide +kernel

/-- the realistic instance of class 1: field name `é` → `` `\xe9` `` -/
theorem engine_rejects_latin1 : identifier javaClasses (utf16 (escapeParsable pyClasses [233])) = none := by decide +kernel

/-- witness class 2: U+10000 is emitted as `` `\U00010000` `` -/
theorem engine_rejects_U_escape : identifier javaClasses (utf16 (escapeParsable pyClasses [65536])) = none := by decide +kernel

/-- witness class 3: `A²` matches `[_a-zA-Z][\w_]*` (Python's Unicode `\w` contains category No), is emitted raw, and the
engine's `ident` stops after `A` -/
theorem engine_splits_raw_nonjava :
    escapeParsable pyClasses [65, 178] = [65, 178] ∧
    identifier javaClasses (utf16 (escapeParsable pyClasses [65, 178])) = some ([65], [178]) := by decide +kernel

/-- witness class 4 (`escape_id`, the IR identifier escaper): U+10000 is emitted as `` `က0` ``, which the engine reads as
U+1000 followed by `0` — accepted, but a different name -/
theorem engine_misreads_escape_id_astral :
    identifier javaClasses (utf16 (escapeId pyClasses [65536])) = some ([4096, 48], []) ∧ utf16 [65536] = [55296, 56320] := by
  decide +kernel

/-- the full statement is refuted (witness: the field name consisting of U+0000) -/
theorem engine_accepts_emitted_refuted : ¬ EngineAcceptsEmitted pyClasses javaClasses := by
  intro h
  have := h [0] (by intro c hc; simp at hc; omega) [] (by intro p r h; cases h)
  rw [List.append_nil, engine_rejects_x_escape] at this
  cases this

/-- names for which the emitted form only uses what the engine admits: a raw name must consist of BMP characters that are
Java identifier parts; a backticked one of `\t \n \r`, printable ASCII and U+0100–U+FFFF (so that only `\t \n \r \\ \``
and `\uXXXX` escapes occur) -/
def SafeName (cc : Classes) (jc : JavaClasses) (name : Str) : Prop :=
  if isParsable cc name then ∀ c ∈ name, c < 65536 ∧ jc.part c = true else ∀ c ∈ name, EscOK c

/-- **What holds of the engine half**: under `SafeName` the engine lexes the emitted identifier to exactly the name.
Missing for the full statement: U+0000–U+001F (other than `\t \n \r`) and U+007F–U+00FF (`\xNN`), astral characters
(`\UNNNNNNNN`), and raw names with a `\w` character that is not a Java identifier part. -/
theorem engine_accepts_emitted_partial (cc : Classes) (jc : JavaClasses)
    (hstart : ∀ c, (c == 95 || asciiLetter c) = true → jc.start c = true)
    (name : Str) (h : SafeName cc jc name) : EngineAccepts jc (escapeParsable cc name) name := by
  intro rest hrest
  unfold SafeName at h
  unfold escapeParsable
  split
  · rename_i hp
    rw [if_pos hp] at h
    obtain ⟨c, r, rfl, hc, _⟩ := isParsable_words cc name hp
    have hsmall : ∀ d ∈ c :: r, d < 65536 := fun d hd => (h d hd).1
    rw [utf16_small _ hsmall]
    have hc' := hc
    simp only [asciiLetter, Bool.or_eq_true, beq_iff_eq, Bool.and_eq_true, decide_eq_true_eq] at hc'
    have hws : javaSpace c = false := by
      simp only [javaSpace, Bool.or_eq_false_iff, beq_eq_false_iff_ne, Bool.and_eq_false_iff, decide_eq_false_iff_not]
      omega
    have h96 : c ≠ 96 := by omega
    have hspan := spanPart_all jc r rest (fun d hd => (h d (by simp [hd])).2) hrest
    simp [identifier, quotedLiteral, javaIdent, skipJavaWs, hws, Generated.IRLexer.backtickDelimiter, h96, hstart c hc, hspan]
  · rename_i hp
    rw [if_neg hp] at h
    have hsmall : ∀ d ∈ name, d < 65536 := by
      intro d hd; have := h d hd; unfold EscOK at this; omega
    have hbody := body_ascii name
    have h1 : utf16 (96 :: (replaceBacktick (unicodeEscape name) ++ [96])) = 96 :: (replaceBacktick (unicodeEscape name) ++ [96]) := by
      apply utf16_small
      intro d hd
      simp only [List.mem_cons, List.mem_append, List.mem_nil_iff, or_false] at hd
      rcases hd with rfl | hd | rfl
      · decide
      · exact hbody d hd
      · decide
    rw [h1, utf16_small _ hsmall]
    have hq := quotedBody_body name h rest
    have hu := unescapeString_body name h ((replaceBacktick (unicodeEscape name)).length + 1)
      (by have := length_le_body name; omega)
    simp only [List.cons_append, List.append_assoc, List.nil_append]
    simp [identifier, quotedLiteral, skipJavaWs, javaSpace, Generated.IRLexer.backtickDelimiter, hq, hu]

/-- the hypothesis of the partial theorem about the Java tables holds for the generated ones -/
theorem javaClasses_start_ascii : ∀ c, (c == 95 || asciiLetter c) = true → javaClasses.start c = true := by
  intro c hc
  have hlt : c < 128 := by
    simp only [asciiLetter, Bool.or_eq_true, beq_iff_eq, Bool.and_eq_true, decide_eq_true_eq] at hc; omega
  have key : ∀ c, c < 128 → (c == 95 || asciiLetter c) = true → javaClasses.start c = true := by decide +kernel
  exact key c hlt hc

/-- the partial theorem for the concrete tables of the running interpreter / Java SE definition -/
theorem engine_accepts_emitted_partial_concrete (name : Str) (h : SafeName pyClasses javaClasses name) :
    EngineAccepts javaClasses (escapeParsable pyClasses name) name :=
  engine_accepts_emitted_partial pyClasses javaClasses javaClasses_start_ascii name h

/-! ## Non-vacuity: concrete types and names at the boundaries -/

-- struct{`é x`: int32, a: array<str>}: a Latin-1 name with a space, printed with \xe9
example : str pyClasses (.struct [([233, 32, 120], .int32), ([97], .array .str)]) =
    cp% "struct{`\\xe9 x`: int32, a: array<str>}" := by decide +kernel
-- and parsed back
example : (dtype pyClasses (cp% "struct{`\\xe9 x`: int32, a: array<str>}")).map (str pyClasses) =
    some (cp% "struct{`\\xe9 x`: int32, a: array<str>}") := by decide +kernel
-- backtick, backslash, newline, an emoji; empty struct / tuple; ndarray dimension; locus
example : (dtype pyClasses (str pyClasses (.struct [([96, 92, 10, 128512], .tuple []), ([], .struct []),
    ([120], .ndarray .float64 12), ([121], .dict (.locus (cp% "my ref")) (.set .call))]))).map (parsable pyClasses) =
    some (cp% "Struct{`\\`\\\\\\n\\U0001f600`:Tuple[],``:Struct{},x:NDArray[Float64,12],y:Dict[Locus(`my ref`),Set[Call]]}") := by
  decide +kernel
-- the hypotheses of `parse_pretty` are satisfiable by such a type
example : WF (.struct [([96, 92, 10, 128512], .tuple []), ([], .struct [])]) := by
  simp [WF, WFFields, WFTypes, ValidStr]
-- a safe name in the sense of the partial theorem: `a b` with a tab and U+4E2D
example : SafeName pyClasses javaClasses [97, 32, 98, 9, 20013] := by
  have : isParsable pyClasses [97, 32, 98, 9, 20013] = false := by decide +kernel
  simp [SafeName, this, EscOK]
example : identifier javaClasses (utf16 (escapeParsable pyClasses [97, 32, 98, 9, 20013])) = some ([97, 32, 98, 9, 20013], []) := by
  decide +kernel
-- duplicate field names are what `WF` excludes: `dict(fields)` collapses them, so the printed text does not round-trip
example : (dtype pyClasses (cp% "struct{a: int32, a: str}")).map (str pyClasses) = some (cp% "struct{a: str}") := by
  decide +kernel

end HailVerif.C31

import HailVerif.Proofs.TypeParse
import HailVerif.Proofs.EngineLexer
import HailVerif.Generated.UnicodeClasses
/-!
# C31 — Hail type strings round-trip

Subject: `HailVerif.TypeStr` (`Model/TypeStr.lean`), the model of `HailType.__str__`, `_parsable_string`, `dtype`
(PEG `type_grammar` + visitor), `escape_parsable` / `unescape_parsable` (CPython `unicode_escape` + backtick handling) and
`escape_id`; and `HailVerif.EngineLexer` (`Model/EngineLexer.lean`), the transcription of the engine's identifier lexing over
the literals extracted from `Parser.scala` / `StringEscapeUtils.scala` (`Generated/IRLexer.lean`, regenerated on every run).
Tied to the Python code by the correspondence check `harness/props/c31.py`.

Strings are lists of code points (names: Unicode scalar values, `ValidStr`); `cc` are the `\w` / `\s` classes outside ASCII and
`jc` the Java identifier classes: the general theorems hold for every choice of them (for `jc`: every table that classifies
ASCII letters, digits and `_` as identifier characters), the concrete instances use the tables of `Generated/UnicodeClasses.lean`.

The engine half was REFUTED for the code as found (four witness classes: `\xNN`, `\UNNNNNNNN`, raw non-Java identifier
characters, `\u` + five digits in `escape_id`); the escapers were repaired in /repo (escape_parsable / unescape_parsable in
hail/utils/java.py, escape_str / escape_id in hail/utils/misc.py) and the model follows the repaired code: the full statement
now holds (`engine_accepts_emitted`, `engine_accepts_escape_id`).
-/
namespace HailVerif.C31
open HailVerif.TypeStr HailVerif.EngineLexer HailVerif.Generated.UnicodeClasses

/-! ## Python side -/

/-- **Printed types parse back.** For every type Python can build (names are arbitrary Unicode strings, field names of a
struct distinct), `dtype(str(t)) == t`. -/
theorem parse_pretty (cc : Classes) (t : HType) (h : WF t) : dtype cc (str cc t) = some t := dtype_str cc t h

/-- The same inside any context that continues with `>`, `,`, `)`, `}` or the end of the text, with enough fuel: the
compositional form (`weight t ≤ |str t|`, so `dtype`'s own fuel always suffices). -/
theorem parse_pretty_in_context (cc : Classes) (t : HType) (h : WF t) (f : Nat) (hf : weight t ≤ f) (rest : Str)
    (hr : Follow rest) : pType cc f (str cc t ++ rest) = some (t, rest) := pType_str cc t h f hf rest hr

/-- **`unescape_parsable ∘ escape_parsable = id`**: what `escape_parsable` puts between the backticks decodes to the name
(`\uD83D\uDE00` decodes to two surrogates which `unescape_parsable` puts back together). -/
theorem unescape_escape (s : Str) (h : ValidStr s) : unescapeParsable (replaceBacktick (parsableEscape s)) = some s :=
  unescapeParsable_escaped s h

/-- **An emitted identifier is an ASCII `[_a-zA-Z][_a-zA-Z0-9]*` word or a backticked literal** that the grammar's
`escaped_identifier` regex delimits exactly and whose content decodes to the name. -/
theorem ident_word_or_backticked (n : Str) :
    (escapeParsable n = n ∧ n ≠ [] ∧ ∀ c ∈ n, asciiWord c = true) ∨
    (∃ body, escapeParsable n = 96 :: (body ++ [96]) ∧
      (∀ rest, scanEscaped (body ++ 96 :: rest) = some (body, rest)) ∧ (ValidStr n → unescapeParsable body = some n)) := by
  unfold escapeParsable
  split
  · rename_i h
    obtain ⟨c, r, rfl, _, hall, _⟩ := isParsable_words ⟨fun _ => false, fun _ => false⟩ n h
    exact Or.inl ⟨rfl, by simp, hall⟩
  · exact Or.inr ⟨_, rfl, fun rest => scan_body n rest, unescapeParsable_escaped n⟩

/-- The grammar rule `identifier` reads an emitted identifier back (before `:` or `>`), whatever the name. -/
theorem identifier_roundtrip (cc : Classes) (n : Str) (h : ValidStr n) (p : Nat) (rest : Str) (hp : p = 58 ∨ p = 62) :
    pIdentifier cc (escapeParsable n ++ p :: rest) = some (n, p :: rest) :=
  pIdentifier_escape cc n h p rest (by rcases hp with h | h <;> subst h <;> simp [Punct])

/-! ## Engine side -/

/-- the engine's `identifier` token parser, started on the emitted text followed by `rest` (which does not continue an
identifier), yields exactly the name and leaves `rest` -/
def EngineAccepts (jc : JavaClasses) (emitted name : Str) : Prop :=
  ∀ rest, (∀ p r, rest = p :: r → jc.part p = false) →
    identifier jc (utf16 emitted ++ rest) = some (utf16 name, rest)

/-- **FULL STATEMENT** of the engine half of the property: every identifier `escape_parsable` can emit is accepted by the
engine's lexer and denotes the same name. -/
def EngineAcceptsEmitted (jc : JavaClasses) : Prop :=
  ∀ name, ValidStr name → EngineAccepts jc (escapeParsable name) name

/-- what is needed of the Java identifier tables: ASCII letters and `_` start an identifier, ASCII letters, digits and `_`
continue one -/
structure AsciiIdent (jc : JavaClasses) : Prop where
  start : ∀ c, (c == 95 || asciiLetter c) = true → jc.start c = true
  part : ∀ c, asciiWord c = true → jc.part c = true

/-- a raw (unescaped) ASCII identifier is lexed by `JavaTokenParsers.ident` to itself -/
theorem engine_accepts_raw (jc : JavaClasses) (hj : AsciiIdent jc) (c : Nat) (r : Str)
    (hc : (c == 95 || asciiLetter c) = true) (hall : ∀ d ∈ c :: r, asciiWord d = true) : EngineAccepts jc (c :: r) (c :: r) := by
  intro rest hrest
  have hsmall : ∀ d ∈ c :: r, d < 65536 := fun d hd => by have := asciiWord_lt d (hall d hd); omega
  rw [utf16_small _ hsmall]
  have hc' := hc
  simp only [asciiLetter, Bool.or_eq_true, beq_iff_eq, Bool.and_eq_true, decide_eq_true_eq] at hc'
  have hws : javaSpace c = false := by
    simp only [javaSpace, Bool.or_eq_false_iff, beq_eq_false_iff_ne, Bool.and_eq_false_iff, decide_eq_false_iff_not]
    omega
  have h96 : c ≠ 96 := by omega
  have hspan := spanPart_all jc r rest (fun d hd => hj.part d (hall d (by simp [hd]))) hrest
  simp [identifier, quotedLiteral, javaIdent, skipJavaWs, hws, Generated.IRLexer.backtickDelimiter, h96, hj.start c hc, hspan]

/-- a backticked literal whose body is a sequence of admissible tokens is lexed to the values of the tokens -/
theorem engine_accepts_backticked (jc : JavaClasses) (ts : List Tok) (hts : ∀ t ∈ ts, t.OK)
    (hsmall : ∀ b ∈ ts.flatMap Tok.text, b < 65536) (rest : List Nat) :
    identifier jc (utf16 (96 :: (ts.flatMap Tok.text ++ [96])) ++ rest) = some (ts.map Tok.val, rest) := by
  have h1 : utf16 (96 :: (ts.flatMap Tok.text ++ [96])) = 96 :: (ts.flatMap Tok.text ++ [96]) := by
    apply utf16_small
    intro d hd
    simp only [List.mem_cons, List.mem_append, List.mem_nil_iff, or_false] at hd
    rcases hd with rfl | hd | rfl
    · decide
    · exact hsmall d hd
    · decide
  rw [h1]
  have := quotedLiteral_toks ts hts rest
  simp only [List.cons_append, List.append_assoc, List.nil_append]
  simp [identifier, Generated.IRLexer.backtickDelimiter, this]

/-- **The engine half holds** (repaired code): for every name of Unicode scalar values, the identifier `escape_parsable` emits
— in `_parsable_string()`, i.e. in every type written into IR text — is accepted by the engine's lexer and denotes exactly
that name: raw names are ASCII words, backticked ones use only `\\ \t \n \r` the escaped backtick and `\uXXXX` per UTF-16 unit. -/
theorem engine_accepts_emitted (jc : JavaClasses) (hj : AsciiIdent jc) : EngineAcceptsEmitted jc := by
  intro name hname rest hrest
  unfold escapeParsable
  split
  · rename_i hp
    obtain ⟨c, r, rfl, hc, hall, _⟩ := isParsable_words ⟨fun _ => false, fun _ => false⟩ name hp
    exact engine_accepts_raw jc hj c r hc hall rest hrest
  · obtain ⟨ts, h1, h2, h3⟩ := parsable_body_toks name (fun c hc => (hname c hc).1)
    rw [← h2, ← h3]
    exact engine_accepts_backticked jc ts h1 (by rw [h2]; exact body_ascii name) rest

/-- the same for `escape_id`, the escaper of IR identifiers (field names in `GetField`, `Ref` names, …): astral characters are
written as surrogate pairs, non-ASCII names are backticked -/
theorem engine_accepts_escape_id (jc : JavaClasses) (hj : AsciiIdent jc) (name : Str) (hname : ValidStr name) :
    EngineAccepts jc (escapeId name) name := by
  intro rest hrest
  unfold escapeId
  split
  · rename_i hp
    cases name with
    | nil => simp [isPlainId] at hp
    | cons c r =>
      simp only [isPlainId, Bool.and_eq_true, List.all_eq_true] at hp
      have hall : ∀ d ∈ c :: r, asciiWord d = true := by
        intro d hd
        rcases List.mem_cons.1 hd with rfl | hd
        · have := hp.1
          simp only [asciiWord, asciiLetter, asciiDigit, Bool.or_eq_true, Bool.and_eq_true, decide_eq_true_eq, beq_iff_eq] at this ⊢
          omega
        · exact hp.2 d hd
      exact engine_accepts_raw jc hj c r hp.1 hall rest hrest
  · obtain ⟨ts, h1, h2, h3⟩ := id_body_toks name (fun c hc => (hname c hc).1)
    rw [← h2, ← h3]
    refine engine_accepts_backticked jc ts h1 ?_ rest
    rw [h2]
    intro b hb
    simp only [List.mem_flatMap] at hb
    obtain ⟨c, hc, hb⟩ := hb
    exact escapeStrChar_small c (hname c hc).1 b hb

/-- the generated Java tables classify ASCII as required -/
theorem javaClasses_ascii : AsciiIdent javaClasses := by
  constructor
  · intro c hc
    have hlt : c < 128 := by
      simp only [asciiLetter, Bool.or_eq_true, beq_iff_eq, Bool.and_eq_true, decide_eq_true_eq] at hc; omega
    have key : ∀ c, c < 128 → (c == 95 || asciiLetter c) = true → javaClasses.start c = true := by decide +kernel
    exact key c hlt hc
  · intro c hc
    have key : ∀ c, c < 128 → asciiWord c = true → javaClasses.part c = true := by decide +kernel
    exact key c (asciiWord_lt c hc) hc

/-- the engine half for the concrete tables of the Java SE definition -/
theorem engine_accepts_emitted_concrete : EngineAcceptsEmitted javaClasses := engine_accepts_emitted javaClasses javaClasses_ascii

/-- the four former witnesses (U+0000 → `\x00`, é → `\xe9`, U+10000 → `\U00010000`, `A²` emitted raw; `escape_id` writing
`\u10000`) are now lexed to the name -/
theorem former_witnesses_accepted :
    identifier javaClasses (utf16 (escapeParsable [0])) = some ([0], []) ∧
    identifier javaClasses (utf16 (escapeParsable [233])) = some ([233], []) ∧
    identifier javaClasses (utf16 (escapeParsable [65536])) = some ([55296, 56320], []) ∧
    identifier javaClasses (utf16 (escapeParsable [65, 178])) = some ([65, 178], []) ∧
    identifier javaClasses (utf16 (escapeId [65536])) = some (utf16 [65536], []) ∧
    identifier javaClasses (utf16 (escapeId [65, 178])) = some ([65, 178], []) := by
  decide +kernel

/-! ## identifiers inside IR heads -/

/-- **`TableOrderBy` sort fields** (`escape_id(order + f)`): the direction letter (`A` = 65, `D` = 68) and the field name travel
in ONE identifier token, so the engine's `sort_field` (`identifier(it)`, then `substring(0, 1)` / `substring(1)`) recovers the
direction and exactly the name — whatever the name is (quoted or not, astral characters as surrogate pairs). -/
theorem sort_field_one_token (jc : JavaClasses) (hj : AsciiIdent jc) (d : Nat) (hd : d = 65 ∨ d = 68) (name : Str)
    (hname : ValidStr name) (rest : Str) (hrest : ∀ p r, rest = p :: r → jc.part p = false) :
    identifier jc (utf16 (escapeId (d :: name)) ++ rest) = some (d :: utf16 name, rest) := by
  have hv : ValidStr (d :: name) := by
    intro c hc
    rcases List.mem_cons.1 hc with rfl | hc
    · rcases hd with h | h <;> subst h <;> decide
    · exact hname c hc
  have := engine_accepts_escape_id jc hj (d :: name) hv rest hrest
  have hu : utf16 (d :: name) = d :: utf16 name := by
    have : ¬ 65536 ≤ d := by rcases hd with h | h <;> omega
    simp [utf16, this]
  rw [hu] at this
  exact this

-- the shape the engine must NOT see: the letter outside the backtick literal is a token of its own
example : identifier javaClasses (utf16 (65 :: escapeId (cp% "sample id"))) = some ([65], utf16 (escapeId (cp% "sample id"))) := by
  decide +kernel
example : identifier javaClasses (utf16 (escapeId (65 :: cp% "sample id"))) = some (65 :: cp% "sample id", []) := by
  decide +kernel

/-! ## Non-vacuity: concrete types and names at the boundaries -/

-- struct{`é x`: int32, a: array<str>}: a Latin-1 name with a space, printed with \u00e9
example : str pyClasses (.struct [([233, 32, 120], .int32), ([97], .array .str)]) =
    cp% "struct{`\\u00e9 x`: int32, a: array<str>}" := by decide +kernel
-- and parsed back; the form older versions printed (`\xe9`) still parses to the same type
example : (dtype pyClasses (cp% "struct{`\\u00e9 x`: int32, a: array<str>}")).map (str pyClasses) =
    some (cp% "struct{`\\u00e9 x`: int32, a: array<str>}") := by decide +kernel
example : (dtype pyClasses (cp% "struct{`\\xe9 x`: int32, a: array<str>}")).map (str pyClasses) =
    some (cp% "struct{`\\u00e9 x`: int32, a: array<str>}") := by decide +kernel
-- backtick, backslash, newline, an emoji (a surrogate pair in the text); empty struct / tuple; ndarray dimension; locus
example : (dtype pyClasses (str pyClasses (.struct [([96, 92, 10, 128512], .tuple []), ([], .struct []),
    ([120], .ndarray .float64 12), ([121], .dict (.locus (cp% "my ref")) (.set .call))]))).map (parsable pyClasses) =
    some (cp% "Struct{`\\`\\\\\\n\\ud83d\\ude00`:Tuple[],``:Struct{},x:NDArray[Float64,12],y:Dict[Locus(`my ref`),Set[Call]]}") := by
  decide +kernel
-- the hypotheses of `parse_pretty` are satisfiable by such a type
example : WF (.struct [([96, 92, 10, 128512], .tuple []), ([], .struct [])]) := by
  simp [WF, WFFields, WFTypes, ValidStr]
-- `a b` with a tab and U+4E2D, as the engine reads it
example : identifier javaClasses (utf16 (escapeParsable [97, 32, 98, 9, 20013])) = some ([97, 32, 98, 9, 20013], []) := by
  decide +kernel
-- duplicate field names are what `WF` excludes: `dict(fields)` collapses them, so the printed text does not round-trip
example : (dtype pyClasses (cp% "struct{a: int32, a: str}")).map (str pyClasses) = some (cp% "struct{a: str}") := by
  decide +kernel

end HailVerif.C31

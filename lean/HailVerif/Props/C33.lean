import HailVerif.Model.ValueEnc
import HailVerif.Generated.PyEType
namespace HailVerif.C33
theorem placeholder : (1 : Nat) = 1 := rfl
end HailVerif.C33

import HailVerif.Proofs.ValueEnc
import HailVerif.Generated.PyEType
/-!
# C33 — Value binary encoding round-trips and matches the engine layout

Subject: `HailVerif.ValueEnc.encode / decode` (`Model/ValueEnc.lean`), the byte-level model of
`HailType._convert_to_encoding` / `_convert_from_encoding` (`_to_encoding` / `_from_encoding`) of every type class of
`hail/python/hail/expr/types.py` over `ByteWriter` / `ByteReader`; values: `Model/Value.lean`; calls: the packing of C34
(`Model/CallPack.lean`).  Tied to the Python code by the byte-exact correspondence check `harness/props/c33.py`, and to the
engine by the case table of `EType.fromPythonTypeEncoding` re-extracted on every run (`Generated/PyEType.lean`).

`fOrder v` is `v` with the memory-order flag of every numpy array set to column-major (what the decoder builds with
`order="F"`); the content is untouched.

NOTE: the row-major defect that DESIGN.md expected for numeric n-d arrays does not exist in this tree — the fast path
`if self.element_type in _numeric_types` compares a type instance with a set of classes, is never taken, and the
element-wise path (`np.nditer(order='F')`) writes column-major for every memory order.  What does fail is the encoding of
n-d arrays with a NON-numeric element type (`ndarray_non_numeric_not_encodable`).
-/
namespace HailVerif.C33
open HailVerif.TypeStr HailVerif.Values HailVerif.ValueEnc

/-- **FULL STATEMENT** of the round-trip half of the property: every well-typed value within the size limits of the format is
written, and read back equal from any context.  It does NOT hold for the unchanged code (`encoding_round_trips_refuted`):
n-d arrays with a non-numeric element type cannot be written.  `decode_encode` is what does hold. -/
def EncodingRoundTrips : Prop :=
  ∀ t v, v ≠ .na → HasType t v → SizeOK t v →
    ∃ bs, encode t v = some bs ∧ ∀ rest, decode t (bs ++ rest) = some (fOrder v, rest)

/-- **`decode (encode v ++ rest) = (v, rest)`** for every type and every well-typed value that is not `None` at the top (missing
values at every level below, NaN/±inf, calls, loci, intervals, sets, dicts, tuples, nested structs, n-d arrays of any rank and
memory order), under `EncOK`: lengths fit an int32, dimensions an int64, calls are in the engine's range, and non-empty n-d
arrays have a numeric element type.  The encoding is self-delimiting (`rest` is returned untouched), so it composes.
(`…_partial` with respect to the full statement: the n-d arrays with non-numeric elements are excluded.) -/
theorem decode_encode_partial (t : HType) (v : Value) (hna : v ≠ .na) (ht : HasType t v) (hok : EncOK t v) :
    ∃ bs, encode t v = some bs ∧ ∀ rest, decode t (bs ++ rest) = some (fOrder v, rest) :=
  codec t v hna ht hok

/-- `_from_encoding(_to_encoding(v)) = v` -/
theorem fromEncoding_toEncoding (t : HType) (v : Value) (hna : v ≠ .na) (ht : HasType t v) (hok : EncOK t v) :
    ∃ bs, toEncoding t v = some bs ∧ fromEncoding t bs = some (fOrder v) := by
  obtain ⟨bs, h1, h2⟩ := codec t v hna ht hok
  refine ⟨bs, h1, ?_⟩
  have := h2 []
  rw [List.append_nil] at this
  simp [fromEncoding, this]

/-- the witness of the excluded class: a 0-dimensional `ndarray<str>` holding `""` is well-typed and within every size limit,
and the encoder raises (`np.nditer` refuses object arrays) -/
theorem ndarray_non_numeric_not_encodable :
    HasType (.ndarray .str 0) (.nd [] [.str []] false) ∧ SizeOK (.ndarray .str 0) (.nd [] [.str []] false) ∧
    encode (.ndarray .str 0) (.nd [] [.str []] false) = none := by
  refine ⟨by simp [HasType, ScalarStr], by simp [SizeOK], rfl⟩

theorem encoding_round_trips_refuted : ¬ EncodingRoundTrips := by
  intro h
  obtain ⟨h1, h2, h3⟩ := ndarray_non_numeric_not_encodable
  obtain ⟨bs, hb, _⟩ := h _ _ (by simp) h1 h2
  rw [h3] at hb; cases hb

/-! ## n-d arrays are column-major -/

/-- **The bytes do not depend on the memory order of the array**: a C-ordered and an F-ordered array with the same content are
written identically. -/
theorem ndarray_column_major (t : HType) (n : Nat) (shape : List Nat) (data : List Value) :
    encode (.ndarray t n) (.nd shape data true) = encode (.ndarray t n) (.nd shape data false) := rfl

/-- what is written: every dimension as an int64, then the elements in column-major order, without missing bits -/
theorem ndarray_layout (t : HType) (n : Nat) (shape : List Nat) (data : List Value) (f : Bool) (hnum : isNumeric t = true)
    (hne : data ≠ []) :
    encode (.ndarray t n) (.nd shape data f) =
      match concatOpt (shape.map fun (d : Nat) => writeInt64 d), concatOpt ((toColMajor shape data).map (encode t)) with
      | some dims, some elems => some (dims ++ elems)
      | _, _ => none := by
  have : data.isEmpty = false := by cases data <;> simp_all
  show encNd (isNumeric t) (encode t) shape data = _
  unfold encNd
  cases concatOpt (shape.map fun (d : Nat) => writeInt64 d) <;> simp [this, hnum]
  cases concatOpt ((toColMajor shape data).map (encode t)) <;> simp

/-- the column-major listing is the one numpy's `order="F"` reads back: `fromColMajor ∘ toColMajor = id` on arrays of the
right size, for every shape -/
theorem colMajor_inverse {α : Type} (shape : List Nat) (xs : List α) (h : xs.length = prod shape) :
    fromColMajor shape (toColMajor shape xs) = xs := fromColMajor_toColMajor shape xs h

/-- a 2×3 matrix listed row by row is written column by column … -/
theorem colMajor_2x3 {α : Type} (a b c d e f : α) : toColMajor [2, 3] [a, b, c, d, e, f] = [a, d, b, e, c, f] := rfl

/-- … and in a 2×3×4 array the first index varies fastest, then the second, then the third -/
theorem colMajor_2x3x4 : toColMajor [2, 3, 4] (List.range 24) =
    [0, 12, 4, 16, 8, 20, 1, 13, 5, 17, 9, 21, 2, 14, 6, 18, 10, 22, 3, 15, 7, 19, 11, 23] := by decide

/-! ## the layout is the one `EType.fromPythonTypeEncoding` announces -/

/-- **The table the model was written to is the table extracted from `EType.scala` on this run**: which `EType` constructor
per type case and which components are required (no missing bit). -/
theorem layout_matches_table : PyLayout.modelLayout = Generated.PyEType.table := by decide

/-- array (`TIterable ↦ EArray` of nullable elements): int32 length, ⌈len/8⌉ missing-bit bytes, the present elements -/
theorem array_layout (t : HType) (xs : List Value) :
    encode (.array t) (.arr xs) =
      match writeInt32 xs.length, concatOpt (xs.map fun x => naOrEmpty x (encode t)) with
      | some l, some body => some (l ++ missingOf xs ++ body)
      | _, _ => none := rfl

/-- dict (`TDict ↦ EDictAsUnsortedArrayOfPairs` of REQUIRED entries): int32 length and the entries, no missing bits between;
each entry is a `(key, value)` struct with its own missing-bit byte -/
theorem dict_layout (k v : HType) (es : List (Value × Value)) :
    encode (.dict k v) (.dict es) =
      match writeInt32 es.length, concatOpt (es.map (encEntry (encode k) (encode v))) with
      | some l, some body => some (l ++ body)
      | _, _ => none := rfl

/-- struct / tuple (`TBaseStruct ↦ EBaseStruct` of nullable fields): ⌈n/8⌉ missing-bit bytes, the present fields -/
theorem struct_layout (fs : List (Str × HType)) (xs : List Value) :
    encode (.struct fs) (.struct xs) = (encodeFields fs xs).map (missingOf xs ++ ·) := rfl

/-- the missing-bit bytes: `⌈n/8⌉` of them, and bit `i mod 8` of byte `i / 8` says whether element `i` is `None` -/
theorem missing_bits (xs : List Value) :
    (missingOf xs).length = (xs.length + 7) / 8 ∧ ∀ i (h : i < xs.length), missingAt (missingOf xs) i = some (isNa xs[i]) :=
  ⟨missingOf_length xs, fun i h => missingAt_missingOf xs i h⟩

/-! ## Non-vacuity -/

def sampleType : HType :=
  .struct [(cp% "a", .array .float64), (cp% "d", .dict .call (.set (.locus (cp% "GRCh37")))),
    (cp% "t", .tuple [.interval .int32, .ndarray .float32 2, .int64, .str])]

def sampleValue : Value :=
  .struct [.arr [.flt .nan, .flt .ninf, .na, .flt (.fin 1)],
    .dict [(.call [] true, .set [.locus (cp% "X") 1, .na]), (.call [1, 2] false, .na), (.na, .set [])],
    .tup [.interval .na (.int 2147483647) true false,
      .nd [2, 3] [.flt (.fin 0), .flt (.fin 1065353216), .flt .nan, .flt .inf, .flt (.fin 3212836864), .flt (.fin 1073741824)] false,
      .int (-9223372036854775808), .str [233, 20013, 128512]]]

example : HasType sampleType sampleValue := by
  simp [sampleType, sampleValue, HasType, HasTypeFields, HasTypeTuple, Flt.Valid64, Flt.Valid32, ScalarStr]
example : EncOK sampleType sampleValue := by
  simp [sampleType, sampleValue, EncOK, EncOKFields, EncOKTuple, isNumeric, CallPack.InRange, CallPack.gtIndex]
-- what the theorem says about it, computed on the bytes: written, read back, and written again to the same bytes
example : (toEncoding sampleType sampleValue).isSome = true ∧
    ((toEncoding sampleType sampleValue).bind (fromEncoding sampleType)).bind (toEncoding sampleType) =
      toEncoding sampleType sampleValue := by decide +kernel
-- the bytes of a (2,3) int32 matrix 0..5: two int64 dimensions, then 0 3 1 4 2 5
example : encode (.ndarray .int32 2) (.nd [2, 3] [.int 0, .int 1, .int 2, .int 3, .int 4, .int 5] false) =
    some [2, 0, 0, 0, 0, 0, 0, 0, 3, 0, 0, 0, 0, 0, 0, 0,
          0, 0, 0, 0, 3, 0, 0, 0, 1, 0, 0, 0, 4, 0, 0, 0, 2, 0, 0, 0, 5, 0, 0, 0] := by decide +kernel
-- a struct of nine fields crosses the missing-byte boundary: two bytes, bit 0 of the second for the ninth field
example : encode (.tuple (List.replicate 9 .bool)) (.tup [.na, .bool true, .na, .na, .na, .na, .na, .na, .na]) =
    some [253, 1, 1] := by decide +kernel

end HailVerif.C33

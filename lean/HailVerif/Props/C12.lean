import HailVerif.Proofs.ResourceRequest
/-!
# C12 — Resource requests are never under-provisioned

Subject: `HailVerif.Resources.selectInstColl` / `frontEnd`, the model of
`InstanceCollectionConfigs.select_inst_coll` (batch/batch/inst_coll_config.py) with the conversions of
batch/batch/cloud/{,gcp/,azure/}resource_utils.py and of the resource block of `_create_jobs`
(batch/batch/front_end/front_end.py).  Machine tables are `Generated/Machines.lean`, re-emitted from the
imported modules on every run; the model is tied to the code by `harness/props/c12.py`.

All theorems hold for every price function, every list of locations, every list of pools and every
request.  `WellFormed` = the pool's worker type is one its cloud knows (otherwise the Python code asserts).
-/
namespace HailVerif.C12
open HailVerif.Resources HailVerif.Generated.Machines

variable (price : Pool → String → Nat × Nat × Nat → Nat) (locs : List String) (pools : List Pool) (j : Jpim)
  (cloud : Cloud) (label : String) (pre : Bool)

/-- `adjust_cores_for_packability` returns a power-of-two number of quarter cores, at least the input,
and the least such. -/
theorem packable_spec (c : Nat) :
    ∃ k, packable c = 250 * 2 ^ k ∧ c ≤ packable c ∧ ∀ i, c ≤ 250 * 2 ^ i → packable c ≤ 250 * 2 ^ i := by
  obtain ⟨k, h1, h2, h3⟩ := packable_exists c
  refine ⟨k, h1, by omega, fun i hi => ?_⟩
  rw [h1]; exact packable_min h3 hi

/-- A pool request (no machine type) that is placed is placed in a configured pool that matches cloud,
preemptibility, label and — when the memory was given as lowmem/standard/highmem — worker type, and that
pool's own conversion produced the grant. -/
theorem placed_in_matching_pool {wt : Option String} {cores mem storage : Nat} {g : Granted}
    (h : selectInstColl price locs pools j cloud none label pre wt cores mem storage = .some g) :
    ∃ p ∈ pools, p.Matches cloud label pre ∧ (∀ w, wt = some w → p.workerType = w) ∧ GrantedBy p cores mem storage g := by
  cases wt with
  | some w =>
    simp only [selectInstColl] at h
    obtain ⟨p, hp, hm, hw, hg⟩ := byWorkerType_some h
    exact ⟨p, hp, hm, (fun w' hw' => by cases hw'; exact hw), hg⟩
  | none =>
    simp only [selectInstColl, selectCheapest] at h
    rcases cheapestGo_some h with h0 | ⟨p, hp, hm, hg⟩
    · simp at h0
    · exact ⟨p, hp, hm, (fun w' hw' => by cases hw'), hg⟩

/-- Granted cores, memory and storage are at least the request. -/
theorem granted_ge_request {wt : Option String} {cores mem storage : Nat} {g : Granted}
    (h : selectInstColl price locs pools j cloud none label pre wt cores mem storage = .some g) :
    cores ≤ g.coresMcpu ∧ mem ≤ g.memBytes ∧ storage ≤ g.storageGiB * 1024 ^ 3 := by
  obtain ⟨p, -, -, -, hg, -⟩ := placed_in_matching_pool price locs pools j cloud label pre h
  obtain ⟨h1, h2, h3, -⟩ := convert_granted hg
  exact ⟨h1, h2, h3⟩

/-- The grant fits on one worker of the chosen pool: cores within the worker's cores, memory within the
worker's memory (cores × memory per core of its worker type), storage within the cloud's largest disk;
the granted cores are a power-of-two number of quarter cores and the memory is exactly their share. -/
theorem fits_worker {wt : Option String} {cores mem storage : Nat} {g : Granted}
    (h : selectInstColl price locs pools j cloud none label pre wt cores mem storage = .some g) :
    ∃ p ∈ pools, p.name = g.coll ∧ p.Matches cloud label pre ∧ (∀ w, wt = some w → p.workerType = w) ∧
      g.coresMcpu ≤ p.workerCores * 1000 ∧ (∃ k, g.coresMcpu = 250 * 2 ^ k) ∧
      g.storageGiB ≤ maxStorageGiB cloud ∧
      ∃ pc, memPerCoreBytes p.cloud p.workerType = some pc ∧ g.memBytes = g.coresMcpu * pc / 1000 ∧
        g.memBytes ≤ p.workerCores * pc := by
  obtain ⟨p, hp, hm, hw, hg, hn⟩ := placed_in_matching_pool price locs pools j cloud label pre h
  obtain ⟨-, -, -, h4, h5, h6, h7⟩ := convert_granted hg
  have : p.cloud = cloud := hm.1
  exact ⟨p, hp, hn.symm, hm, hw, h4, h6, this ▸ h5, h7⟩

/-- What "this pool cannot hold the request" means: the conversion answers `None` exactly when the storage
exceeds the cloud's limit or no power-of-two quarter-core count within the worker covers cpu and memory. -/
theorem convert_none_iff_cannot_hold {p : Pool} (hw : p.WellFormed) (cores mem storage : Nat) :
    p.convert cores mem storage = .none ↔ ¬ CanHold p cores mem storage := convert_none_iff hw cores mem storage

/-- A pool request is rejected only if it is unsatisfiable: the selection answers `None` exactly when no
configured pool matching cloud, preemptibility, label (and worker type when named) can hold it. -/
theorem reject_only_if_unsatisfiable (hwf : ∀ p ∈ pools, p.WellFormed) (wt : Option String) (cores mem storage : Nat) :
    selectInstColl price locs pools j cloud none label pre wt cores mem storage = .none ↔
      ∀ p ∈ pools, p.Matches cloud label pre → (∀ w, wt = some w → p.workerType = w) → ¬ CanHold p cores mem storage := by
  cases wt with
  | some w =>
    simp only [selectInstColl]
    rw [byWorkerType_none hwf]
    constructor
    · intro h p hp hm hw
      exact (convert_none_iff (hwf p hp) _ _ _).mp (h p hp hm (hw w rfl))
    · intro h p hp hm hw
      exact (convert_none_iff (hwf p hp) _ _ _).mpr (h p hp hm (fun w' hw' => by cases hw'; exact hw))
  | none =>
    simp only [selectInstColl, selectCheapest]
    rw [cheapestGo_none hwf (fun _ => rfl)]
    constructor
    · rintro ⟨-, h⟩ p hp hm _
      exact (convert_none_iff (hwf p hp) _ _ _).mp (h p hp hm)
    · intro h
      exact ⟨rfl, fun p hp hm => (convert_none_iff (hwf p hp) _ _ _).mpr (h p hp hm (fun w' hw' => by cases hw'))⟩

/-- With well-formed pools a pool request never ends in an internal error. -/
theorem pool_request_no_internal_error (hwf : ∀ p ∈ pools, p.WellFormed) (wt : Option String) (cores mem storage : Nat) :
    selectInstColl price locs pools j cloud none label pre wt cores mem storage ≠ .err := by
  cases wt with
  | some w => simp only [selectInstColl]; exact byWorkerType_ne_err hwf
  | none => simp only [selectInstColl, selectCheapest]; exact cheapestGo_ne_err hwf

/-- A machine-type request that is placed goes to the job-private manager of the job's cloud and is granted
the machine type's own cores and memory, storage at least the request and at least the minimum disk,
at most the cloud's largest disk. -/
theorem job_private_granted {mt : String} {cores mem storage : Nat} {g : Granted}
    (h : selectInstColl price locs pools j cloud (some mt) label pre none cores mem storage = .some g) :
    g.coll = j.name ∧ j.cloud = cloud ∧
      (∃ c m, machineCoresMem cloud mt = some (c, m) ∧ g.coresMcpu = c * 1000 ∧ g.memBytes = m) ∧
      storage ≤ g.storageGiB * 1024 ^ 3 ∧ minStorageBytes cloud ≤ g.storageGiB * 1024 ^ 3 ∧
      g.storageGiB ≤ maxStorageGiB cloud := by
  simp only [selectInstColl] at h
  split at h
  next hv =>
    unfold selectJobPrivate at h
    split at h
    · simp at h
    next hc =>
      have hc' : j.cloud = cloud := by simpa using hc
      split at h
      · simp at h
      next sg hs =>
        split at h
        · simp at h
        next c m hmt =>
          simp only [Res.some.injEq] at h
          subst h
          obtain ⟨-, h2, h3, h4⟩ := storageGiB_spec hs
          rw [hc'] at hmt h3 h4
          exact ⟨rfl, hc', ⟨c, m, hmt, rfl, rfl⟩, h2, h4 rfl, h3⟩
  · simp at h

/-- A (valid) machine-type request is rejected only if the job-private manager is in another cloud or the
storage exceeds the cloud's largest disk. -/
theorem job_private_reject_iff {mt : String} (hmt : mt ≠ "" ∧ validMachineType cloud mt = true) (cores mem storage : Nat) :
    selectInstColl price locs pools j cloud (some mt) label pre none cores mem storage = .none ↔
      j.cloud ≠ cloud ∨ storage > maxStorageBytes cloud := by
  simp only [selectInstColl, hmt, ne_eq, not_false_eq_true, and_self, if_true]
  unfold selectJobPrivate
  split
  next hc => simp [hc]
  next hc =>
    have hc' : j.cloud = cloud := by simpa using hc
    split
    next hs => rw [storageGiB_none] at hs; rw [hc'] at hs; simp [hc', hs]
    next sg hs =>
      obtain ⟨h1, -⟩ := storageGiB_spec hs
      rw [hc'] at h1
      have hv := hmt.2
      unfold validMachineType at hv
      rw [hc']
      split
      next hn => rw [hn] at hv; simp at hv
      next => simp; omega

/-! ### finite facts about the generated tables -/

/-- every gcp pool machine type (`n1-<worker type>-<cores>`, no gpu) has memory = cores × memory per core of its worker type -/
theorem gcp_machine_memory_is_cores_times_per_core :
    ∀ e ∈ gcpMachineTypes, e.2.1 = gcpMachineFamily → e.2.2.2.2.2 = 0 →
      ∃ pc, memPerCoreBytes .gcp e.2.2.1 = some pc ∧ e.2.2.2.2.1 = e.2.2.2.1 * pc := by
  decide +kernel

/-- every azure machine type has memory = cores × memory per core of its family -/
theorem azure_machine_memory_is_cores_times_per_core :
    ∀ e ∈ azureMachineTypes, ∃ pc, memPerCoreBytes .azure e.2.1 = some pc ∧ e.2.2.2 = e.2.2.1 * pc := by
  decide +kernel

/-- `lowmem`/`standard`/`highmem` name worker types whose memory per core is known, on both clouds
(so the symbolic-memory route never trips the assert) -/
theorem memory_types_resolve :
    ∀ m ∈ memoryTypes, ∀ cl ∈ [Cloud.gcp, Cloud.azure],
      ∃ wt, memoryToWorkerType cl m = some wt ∧ (memPerCoreBytes cl wt).isSome = true := by
  decide +kernel

/-- every worker type with a valid-cores row is one whose memory per core is known -/
theorem valid_cores_worker_types_known :
    (∀ e ∈ gcpValidCores, (memPerCoreBytes .gcp e.1).isSome = true) ∧
    (∀ e ∈ azureValidCores, (memPerCoreBytes .azure e.1).isSome = true) := by
  decide +kernel

/-! ### the front-end block -/

/-- A docker job with a cpu/memory request (no machine type) and a byte-valued memory is placed only with
at least the requested cpu, memory and storage (defaults filled in), in a matching pool. -/
theorem frontEnd_bytes_request_placed (d : Defaults) {cpu mem : Nat} {sto : Option Nat} {lab : Option String}
    {pr : Option Bool} {g : Granted}
    (h : frontEnd price locs pools j d cloud ⟨none, lab, pr, some cpu, some (.bytes mem), sto⟩ = .placed g) :
    cpu ≤ g.coresMcpu ∧ mem ≤ g.memBytes ∧ sto.getD d.storageBytes ≤ g.storageGiB * 1024 ^ 3 ∧
      ∃ p ∈ pools, p.name = g.coll ∧ p.Matches cloud (lab.getD "") (pr.getD d.preemptible) ∧
        g.coresMcpu ≤ p.workerCores * 1000 := by
  simp only [frontEnd, poolRequest, Option.getD_some] at h
  split at h
  · simp at h
  next hvalid =>
    have hsel : selectInstColl price locs pools j cloud none (lab.getD "") (pr.getD d.preemptible) none cpu mem
        (sto.getD d.storageBytes) = .some g := by
      cases hs : selectInstColl price locs pools j cloud none (lab.getD "") (pr.getD d.preemptible) none cpu mem
          (sto.getD d.storageBytes) with
      | err => rw [hs] at h; simp [finish] at h
      | none => rw [hs] at h; simp [finish] at h
      | some g' => rw [hs] at h; simp only [finish, Answer.placed.injEq] at h; rw [h]
    obtain ⟨h1, h2, h3⟩ := granted_ge_request price locs pools j cloud _ _ hsel
    obtain ⟨p, hp, hn, hm, -, hfit, -⟩ := fits_worker price locs pools j cloud _ _ hsel
    exact ⟨h1, h2, h3, p, hp, hn, hm, hfit⟩

/-- **However the storage was spelled.**  A job that names its storage with the deprecated `pvc_size` key (with no
`resources` key, an empty one, or other resource keys) is provisioned like the same job with `resources.storage`:
if it is placed, the granted storage, cpu and memory are at least the request. -/
theorem legacy_storage_spelling_is_honoured (d : Defaults) {cpu mem pvc : Nat} {lab : Option String}
    {pr : Option Bool} {g : Granted}
    (h : frontEndJob price locs pools j d cloud (some pvc) ⟨none, lab, pr, some cpu, some (.bytes mem), none⟩ = .placed g) :
    pvc ≤ g.storageGiB * 1024 ^ 3 ∧ cpu ≤ g.coresMcpu ∧ mem ≤ g.memBytes := by
  simp only [frontEndJob, withPvcSize, Option.isSome_none, Bool.false_eq_true, if_false] at h
  obtain ⟨h1, h2, h3, -⟩ := frontEnd_bytes_request_placed price locs pools j cloud d h
  exact ⟨by simpa using h3, h1, h2⟩

/-- the legacy key is the same request as the modern one, for every request without a modern storage key … -/
theorem pvc_size_is_storage (d : Defaults) (pvc : Nat) (r : Request) (hr : r.storageBytes = none) :
    frontEndJob price locs pools j d cloud (some pvc) r =
      frontEndJob price locs pools j d cloud none { r with storageBytes := some pvc } := by
  simp [frontEndJob, withPvcSize, hr]

/-- … and both spellings at once are rejected as malformed -/
theorem pvc_size_and_storage_rejected (d : Defaults) (pvc s : Nat) (r : Request) (hr : r.storageBytes = some s) :
    frontEndJob price locs pools j d cloud (some pvc) r = .invalid := by
  simp [frontEndJob, withPvcSize, hr]

/-! ### internal errors

A request accepted by the job schema never ends in an internal error: it is placed or rejected.
(Before repo commit 2e6787788 this was false for `resources = {'machine_type': ''}`, see the `…_old` example.) -/

/-- the empty string is not a machine type of either cloud (generated tables) -/
theorem empty_string_is_no_machine_type : validMachineType .gcp "" = false ∧ validMachineType .azure "" = false := by
  decide +kernel

/-- **No internal error**, full strength: for well-formed pools and a symbolic memory drawn from `memory_types`
(what the job schema admits), every request — including `machine_type = ''` — is placed or rejected. -/
theorem no_internal_error (d : Defaults) (r : Request) (hwf : ∀ p ∈ pools, p.WellFormed)
    (hmem : ∀ name, r.memory.getD d.memory = .sym name → name ∈ memoryTypes) :
    frontEnd price locs pools j d cloud r ≠ .err := by
  obtain ⟨mt, lab, pr, cpu, memo, sto⟩ := r
  have hfin : ∀ res : Res Granted, res ≠ .err → finish res ≠ .err := by
    intro res h; cases res <;> simp_all [finish]
  cases mt with
  | none =>
    simp only [frontEnd, poolRequest]
    split
    · simp
    · cases hmr : memo.getD d.memory with
      | bytes b =>
        dsimp only
        exact hfin _ (pool_request_no_internal_error price locs pools j cloud _ _ hwf none _ _ _)
      | sym name =>
        dsimp only
        have hin := hmem name (by simpa using hmr)
        obtain ⟨wt, hwt, hpc⟩ := memory_types_resolve name hin cloud (by cases cloud <;> simp)
        rw [hwt]
        dsimp only
        cases hp : memPerCoreBytes cloud wt with
        | none => rw [hp] at hpc; simp at hpc
        | some pc =>
          dsimp only
          exact hfin _ (pool_request_no_internal_error price locs pools j cloud _ _ hwf (some wt) _ _ _)
  | some m =>
    simp only [frontEnd]
    split
    · simp
    next hvalid =>
      have hv : validMachineType cloud m = true := by simpa using hvalid
      have hne : m ≠ "" := by
        intro h; subst h
        have := empty_string_is_no_machine_type
        cases cloud <;> simp_all
      split
      · simp
      · split
        · simp
        · apply hfin
          simp only [selectInstColl, hne, ne_eq, not_false_eq_true, hv, and_self, if_true]
          unfold selectJobPrivate
          split
          · simp
          next hc =>
            have hc' : j.cloud = cloud := by simpa using hc
            split
            · simp
            · rw [hc']
              unfold validMachineType at hv
              split
              next hn => rw [hn] at hv; simp at hv
              next => simp

/-- the empty machine type is now answered `invalid` (HTTP 400 "unknown machine type") -/
theorem empty_machine_type_is_rejected (d : Defaults) (lab : Option String) (pr : Option Bool) (cpu : Option Nat)
    (memo : Option MemReq) (sto : Option Nat) :
    frontEnd price locs pools j d cloud ⟨some "", lab, pr, cpu, memo, sto⟩ = .invalid := by
  have := empty_string_is_no_machine_type
  cases cloud <;> simp_all [frontEnd]

/-- REPAIRED DEFECT (documentation): the block as it was before commit 2e6787788 answered the empty machine type
with an internal error (the assert in `select_inst_coll`). -/
theorem empty_machine_type_is_internal_error_old :
    frontEndOld (fun _ _ _ => 0) [] [] ⟨"job-private", .gcp⟩ ⟨1000, .sym "standard", 0, true⟩ .gcp
      ⟨some "", none, none, none, none, none⟩ = .err := by decide +kernel

/-! Non-vacuity / boundary examples on the generated tables. -/

private def std16 : Pool := ⟨"std", .gcp, "standard", 16, true, ""⟩
private def hm16 : Pool := ⟨"hm", .gcp, "highmem", 16, true, ""⟩
private def price0 : Pool → String → Nat × Nat × Nat → Nat := fun p _ _ => if p.name = "std" then 5 else 7

-- 3.75 GiB on a standard pool fits one core exactly; one byte more doubles the cores
example : std16.convert 1000 (3840 * 1024 ^ 2) 0 = .some (1000, 3840 * 1024 ^ 2, 0) := by decide +kernel
example : std16.convert 1000 (3840 * 1024 ^ 2 + 1) 0 = .some (2000, 2 * 3840 * 1024 ^ 2, 0) := by decide +kernel
-- 16 cores is the worker; 16 cores + 1 byte of memory is unsatisfiable on it
example : std16.convert 250 (16 * 3840 * 1024 ^ 2) 0 = .some (16000, 16 * 3840 * 1024 ^ 2, 0) := by decide +kernel
example : std16.convert 250 (16 * 3840 * 1024 ^ 2 + 1) 0 = .none := by decide +kernel
-- storage: below the minimum disk is raised to 10 GiB, the limit itself is accepted, one byte more is not
example : storageGiB .gcp 1 false = some 10 ∧ storageGiB .gcp (65536 * 1024 ^ 3) true = some 65536 ∧
    storageGiB .gcp (65536 * 1024 ^ 3 + 1) true = none ∧ storageGiB .azure (32768 * 1024 ^ 3 + 1) true = none := by
  decide +kernel
-- the cheaper pool wins, the other one is used when the cheaper cannot hold the request
example : selectInstColl price0 ["l0"] [std16, hm16] ⟨"jp", .gcp⟩ .gcp none "" true none 1000 (3840 * 1024 ^ 2) 0
    = .some ⟨"std", 1000, 3840 * 1024 ^ 2, 0⟩ := by decide +kernel
example : selectInstColl price0 ["l0"] [std16, hm16] ⟨"jp", .gcp⟩ .gcp none "" true none 1000 (100 * 1024 ^ 3) 0
    = .some ⟨"hm", 16000, 16 * 6656 * 1024 ^ 2, 0⟩ := by decide +kernel
example : selectInstColl price0 ["l0"] [std16, hm16] ⟨"jp", .gcp⟩ .gcp none "" false none 1000 1 0 = .none := by
  decide +kernel
-- job-private
example : selectInstColl price0 [] [] ⟨"jp", .gcp⟩ .gcp (some "n1-standard-4") "" true none 0 0 5
    = .some ⟨"jp", 4000, 15 * 1024 ^ 3, 10⟩ := by decide +kernel
example : packable 0 = 250 ∧ packable 250 = 250 ∧ packable 251 = 500 ∧ packable 96000 = 128000 := by decide +kernel

end HailVerif.C12

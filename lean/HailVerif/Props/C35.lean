import HailVerif.Proofs.ExprIR
/-!
# C35 — Common-subexpression rendering preserves meaning

Subject: the model `HailVerif.ExprIR` of the value IR built by `hail/ir/ir.py` and of the let-bindings
`hail/ir/renderer.py::CSERenderer` inserts (`(Let eval __cse_N v body)`, `(AggLet __cse_N False v body)`).

Claim level: **translation validation with a verified validator**.  There is no theorem here about the renderer's
stack machine.  Instead `ExprIR.validate rendered plain` is run (by `lean/Driver/C35.lean`, from `harness/props/c35.py`) on the
text the REAL renderer produces for every generated DAG, and `validate_sound` below says what an accepted pair satisfies:
equal values in every environment.  `scopeOk_iff` makes the scope check a decision procedure for `WellScoped`, the transcription
of the scoping discipline of `IR._compute_type(env, agg_env, deep_typecheck=True)` including the aggregation scope.

`validate` covers aggregation contexts: a value-scope binding `(Let eval __cse_N v b)` whose `v` contains aggregations, and an
aggregation-scope binding `(AggLet __cse_N False v b)`.  The renderer's `agg_capability` pseudo-variable (re-bound by
`AggFilter`, `AggLet`, `AggExplode`, `AggGroupBy`… in `renderable_bindings`, free in every aggregation by `free_agg_vars`) is
modelled by what it stands for: `usesAgg v` — the value of `v` depends on the ambient aggregation scope — and `substOk` refuses a
use of such a binding below a node that changes that scope (`agg_not_lifted_across_filter` below shows the two programs really
differ).  `validate_sound` holds for every value scope AND every aggregation scope.
-/
namespace HailVerif.C35
open HailVerif.ExprIR

/-- (a) **Substitution lemma.**  A `Let` is its body with the bound expression substituted, provided the substitution is
capture-avoiding and respects the aggregation scope (`substOk` with `fv v`, `fva v`, `usesAgg v`: no binder between the `Let` and
a use of `x` rebinds a free variable of `v`; when `v` depends on the aggregation scope no use of `x` lies below an `AggFilter`, or
below an `AggLet` binding a free aggregation variable of `v`; no use inside a `StreamAgg` query).  Aggregation nodes are allowed
everywhere in `v` and `b`. -/
theorem let_eq_subst (ρ : Env) (A : List Env) (x : Name) (v b : IR)
    (hs : substOk x (fv v) (fva v) (usesAgg v) b = true) :
    eval ρ A (.let_ x v b) = eval ρ A (subst x v b) := by
  simp only [eval]
  exact eval_subst x v b ρ A hs

/-- (a, aggregation scope) An `AggLet` is its body with the bound expression substituted into the aggregation-scope children
(aggregator arguments, `AggFilter` conditions, inner `AggLet` values). -/
theorem aggLet_eq_substA (ρ : Env) (A : List Env) (x : Name) (v b : IR)
    (hs : substAOk x (fv v) (fva v) (usesAgg v) b = true) :
    eval ρ A (.aggLet x v b) = eval ρ A (substA x v b) := by
  simp only [eval]
  exact eval_substA x v b ρ A hs

/-- the `agg_capability` rule, semantically: a term without the capability (`usesAgg = false`) has the same value in every
aggregation scope — so it (and only it, see `agg_not_lifted_across_filter`) may be moved across a node that changes the scope -/
theorem agg_scope_irrelevant (t : IR) (h : usesAgg t = false) (ρ : Env) (A A' : List Env) : eval ρ A t = eval ρ A' t :=
  eval_A_irrel t ρ A A' h

/-- **Coincidence** for the whole language: the value depends only on the value-scope bindings of `fv t` (`free_vars`) and, in
each element environment of the aggregation scope, on the bindings of `fva t` (`free_agg_vars`). -/
theorem eval_depends_on_fv_fva (t : IR) (ρ ρ' : Env) (A A' : List Env) (h : Agree (fv t) ρ ρ')
    (hA : AgreeA (fva t) A A') : eval ρ A t = eval ρ' A' t :=
  eval_agree t ρ ρ' A A' h hA

/-- The value of an expression in a fixed aggregation scope depends only on its free variables. -/
theorem eval_depends_on_fv (ρ ρ' : Env) (A : List Env) (t : IR)
    (h : ∀ y ∈ fv t, lookup ρ y = lookup ρ' y) : eval ρ A t = eval ρ' A t :=
  eval_congr A t ρ ρ' h

/-- Inlining every lifted binding (`inlineCse`) preserves the value in every value scope `ρ` and aggregation scope `A`,
whenever the checker `inlineOk` accepts. -/
theorem inline_preserves (t : IR) (h : inlineOk t = true) (ρ : Env) (A : List Env) :
    eval ρ A (inlineCse t) = eval ρ A t :=
  eval_inlineCse t h ρ A

/-- (b, translation-validation form) **Soundness of the validator**: if `validate rendered plain` answers `true` then the
rendered IR (with its `__cse` bindings) and the fully inlined IR have the same value in EVERY environment. -/
theorem validate_sound (rendered plain : IR) (h : validate rendered plain = true) (ρ : Env) (A : List Env) :
    eval ρ A rendered = eval ρ A plain := by
  simp only [validate, Bool.and_eq_true, decide_eq_true_eq] at h
  rw [← h.2, eval_inlineCse rendered h.1 ρ A]

/-- (b, specification level, ONE binding) **A CSE step preserves meaning.**  Let `v` be any subterm, `t` an aggregation-free bind site and `x` a
fresh name.  Replacing every occurrence of `v` below the bind site `t` by `(Ref x)` — except below binders that rebind a
variable of `v`, where the occurrence denotes something else — and binding `x` to `v` in a `Let` immediately above the site gives
a program with the same value in every environment.  (The renderer iterates such steps with its own choice of sites; that the
stack machine implements exactly this function is NOT proved — its output is validated program by program, `validate_sound`.) -/
theorem cse_step_preserves (ρ : Env) (A : List Env) (x : Name) (v t : IR)
    (hx : x ∉ names t) (ht : aggFree t = true) :
    eval ρ A (.let_ x v (abstractAt x v (fv v) t)) = eval ρ A t := by
  rw [let_eq_subst ρ A x v _ (substOk_abstractAt x v (fv v) (fva v) (usesAgg v) t ht hx), subst_abstractAt x v (fv v) t hx]

/-- the lifted binding of such a step is well-scoped exactly when `v` is well-scoped at the bind site, and the body may use `x` -/
theorem cse_step_wellScoped (Γ : List Name) (Δ : Option (List Name)) (x : Name) (v b : IR)
    (hv : WellScoped Γ Δ v) (hb : WellScoped (x :: Γ) Δ b) : WellScoped Γ Δ (.let_ x v b) := .let_ hv hb

/-- (c) The executable scope check decides `WellScoped` — value scope and aggregation scope. -/
theorem scopeOk_iff (Γ : List Name) (Δ : Option (List Name)) (t : IR) : scopeOk Γ Δ t = true ↔ WellScoped Γ Δ t :=
  ⟨scopeOk_sound t Γ Δ, scopeOk_complete⟩

/-- What well-scopedness buys: every free variable is in scope, so the value only depends on the in-scope variables. -/
theorem wellScoped_eval (Γ : List Name) (Δ : Option (List Name)) (t : IR) (hw : WellScoped Γ Δ t)
    (ρ ρ' : Env) (A : List Env) (h : ∀ y ∈ Γ, lookup ρ y = lookup ρ' y) : eval ρ A t = eval ρ' A t :=
  eval_congr A t ρ ρ' fun y hy => h y (fv_subset_of_wellScoped hw y hy)

/-- … and inside an aggregation: on the variables of the value scope and, per element, on those of the aggregation scope. -/
theorem wellScoped_eval_agg (Γ D : List Name) (t : IR) (hw : WellScoped Γ (some D) t)
    (ρ ρ' : Env) (A A' : List Env) (h : Agree Γ ρ ρ') (hA : AgreeA D A A') : eval ρ A t = eval ρ' A' t :=
  eval_agree t ρ ρ' A A' (h.mono (fv_subset_of_wellScoped hw)) (hA.mono (fva_subset_of_wellScoped hw))

/-- **Value children of relational nodes** (`TableParallelize`'s rows-and-globals, the row function of `TableMapRows`, the predicate of
`TableFilter` …): the engine evaluates such a child in a FRESH scope holding only the node's own bindings `own` (nothing for
`TableParallelize`; `global`, `row` for `TableMapRows` / `TableFilter`).  A rendered child accepted by the scope check in exactly
that scope and by the validator has the value of the plain child in every environment, and that value depends on the bindings of
`own` only — no lifted binding from outside the node is needed. -/
theorem relational_value_child_sound (own : List Name) (R P : IR)
    (hs : scopeOk own none R = true) (hv : validate R P = true) :
    (∀ ρ A, eval ρ A R = eval ρ A P) ∧
    (∀ ρ ρ' A, (∀ y ∈ own, lookup ρ y = lookup ρ' y) → eval ρ A R = eval ρ' A R) :=
  ⟨fun ρ A => validate_sound R P hv ρ A,
   fun ρ ρ' A h => wellScoped_eval own none R ((scopeOk_iff own none R).1 hs) ρ ρ' A h⟩

/-- a reference to a binding made outside the node is rejected: `(Ref __cse_1)` inside a `TableParallelize` child, nothing in scope -/
example : scopeOk [] none (.acons (.arrayLen (.ref (.cse 1))) (.anil .int32)) = false := by decide

/-- Every lifted binding of an accepted, well-scoped rendering is placed where the variables it uses are in scope: the scope
check of the whole rendering is the scope check of each `Let` value at its site (unfolding lemma for `Let`). -/
theorem wellScoped_let (Γ : List Name) (Δ : Option (List Name)) (x : Name) (v b : IR) :
    WellScoped Γ Δ (.let_ x v b) ↔ WellScoped Γ Δ v ∧ WellScoped (x :: Γ) Δ b :=
  ⟨fun h => by cases h; exact ⟨‹_›, ‹_›⟩, fun h => .let_ h.1 h.2⟩

/-- … and for a binding lifted into the aggregation scope: the value must be well-scoped in the AGGREGATION scope. -/
theorem wellScoped_aggLet (Γ D : List Name) (x : Name) (v b : IR) :
    WellScoped Γ (some D) (.aggLet x v b) ↔ WellScoped D none v ∧ WellScoped Γ (some (x :: D)) b :=
  ⟨fun h => by cases h; exact ⟨‹_›, ‹_›⟩, fun h => .aggLet h.1 h.2⟩

/-- an aggregation-scope binding cannot appear where there is no aggregation scope -/
theorem not_wellScoped_aggLet_none (Γ : List Name) (x : Name) (v b : IR) : ¬ WellScoped Γ none (.aggLet x v b) := by
  intro h; cases h

/-! ## non-vacuity -/

/-- `(x + 1) * (x + 1)` with `v = x + 1`: the step produces `let c = x + 1 in c * c` -/
example : abstractAt (.cse 1) (.bin .add (.ref (.user "x")) (.i32 1)) [.user "x"]
    (.bin .mul (.bin .add (.ref (.user "x")) (.i32 1)) (.bin .add (.ref (.user "x")) (.i32 1)))
    = .bin .mul (.ref (.cse 1)) (.ref (.cse 1)) := by decide

/-- below a lambda that rebinds `x` the occurrence of `x + 1` is left alone -/
example : abstractAt (.cse 1) (.bin .add (.ref (.user "x")) (.i32 1)) [.user "x"]
    (.streamMap (.user "x") (.toStream (.anil .int32)) (.bin .add (.ref (.user "x")) (.i32 1)))
    = .streamMap (.user "x") (.toStream (.anil .int32)) (.bin .add (.ref (.user "x")) (.i32 1)) := by decide

private def x : Name := .user "x"
private def c1 : Name := .cse 1

/-- `(StreamMap x … (Let eval __cse_1 (x + 1) (__cse_1 * __cse_1)))` against its inlined form: accepted -/
example : validate
    (.streamMap x (.toStream (.acons (.i32 1) (.anil .int32)))
      (.let_ c1 (.bin .add (.ref x) (.i32 1)) (.bin .mul (.ref c1) (.ref c1))))
    (.streamMap x (.toStream (.acons (.i32 1) (.anil .int32)))
      (.bin .mul (.bin .add (.ref x) (.i32 1)) (.bin .add (.ref x) (.i32 1)))) = true := by decide

/-- the binding lifted one level too high (above the lambda that binds `x`) is rejected: by the scope check … -/
example : scopeOk [] none
    (.let_ c1 (.bin .add (.ref x) (.i32 1))
      (.streamMap x (.toStream (.acons (.i32 1) (.anil .int32))) (.bin .mul (.ref c1) (.ref c1)))) = false := by decide

/-- … and, when an outer `x` happens to be in scope, by the capture check of the validator -/
example : validate
    (.let_ c1 (.bin .add (.ref x) (.i32 1))
      (.streamMap x (.toStream (.acons (.i32 1) (.anil .int32))) (.bin .mul (.ref c1) (.ref c1))))
    (.streamMap x (.toStream (.acons (.i32 1) (.anil .int32)))
      (.bin .mul (.bin .add (.ref x) (.i32 1)) (.bin .add (.ref x) (.i32 1)))) = false := by decide

/-- a value-scope reference to an aggregation-scope binding is ill-scoped -/
example : scopeOk [] none
    (.streamAgg x (.toStream (.acons (.i32 1) (.anil .int32)))
      (.aggLet c1 (.ref x) (.bin .add (.agg .max (.ref c1)) (.ref c1)))) = false := by decide

example : scopeOk [] none
    (.streamAgg x (.toStream (.acons (.i32 1) (.anil .int32)))
      (.aggLet c1 (.ref x) (.bin .add (.agg .max (.ref c1)) (.agg .max (.ref c1))))) = true := by decide

/-! ### aggregation scope -/

private def one : IR := .toStream (.acons (.i32 1) (.acons (.i32 5) (.anil .int32)))
private def mx : IR := .agg .max (.ref x)
private def small : IR := .cmp .lt (.ref x) (.i32 3)

/-- `max(x) + filter(x < 3, max(x))` rendered with the aggregation lifted ABOVE the `AggFilter` (what the renderer does when
`AggFilter.renderable_bindings` does not re-bind `agg_capability`): rejected … -/
example : validate
    (.streamAgg x one (.let_ c1 mx (.bin .add (.ref c1) (.aggFilter small (.ref c1)))))
    (.streamAgg x one (.bin .add mx (.aggFilter small mx))) = false := by decide

/-- … and rightly so: the two programs have different values (`5 + 5` against `5 + 1`) -/
theorem agg_not_lifted_across_filter :
    eval [] [] (.streamAgg x one (.let_ c1 mx (.bin .add (.ref c1) (.aggFilter small (.ref c1))))) = .i32 10 ∧
    eval [] [] (.streamAgg x one (.bin .add mx (.aggFilter small mx))) = .i32 6 := by
  constructor <;> rfl

/-- the same aggregation shared twice at one level of the query: lifted, accepted -/
example : validate
    (.streamAgg x one (.let_ c1 mx (.bin .add (.ref c1) (.ref c1))))
    (.streamAgg x one (.bin .add mx mx)) = true := by decide

/-- an aggregation-free shared term may cross the `AggFilter` (it does not have the capability): accepted -/
example : validate
    (.streamAgg x one (.let_ c1 (.bin .add (.i32 1) (.i32 2)) (.bin .add (.ref c1) (.aggFilter small (.bin .add (.ref c1) mx)))))
    (.streamAgg x one (.bin .add (.bin .add (.i32 1) (.i32 2))
      (.aggFilter small (.bin .add (.bin .add (.i32 1) (.i32 2)) mx)))) = true := by decide

/-- shared below the filter only: the binding sits inside the `AggFilter`, accepted -/
example : validate
    (.streamAgg x one (.aggFilter small (.let_ c1 mx (.bin .add (.ref c1) (.ref c1)))))
    (.streamAgg x one (.aggFilter small (.bin .add mx mx))) = true := by decide

/-- an aggregation-scope binding (`AggLet`) of a shared aggregator argument: accepted -/
example : validate
    (.streamAgg x one (.aggLet c1 (.bin .add (.ref x) (.i32 1)) (.bin .add (.agg .max (.ref c1)) (.aggFilter small (.agg .max (.ref c1))))))
    (.streamAgg x one (.bin .add (.agg .max (.bin .add (.ref x) (.i32 1)))
      (.aggFilter small (.agg .max (.bin .add (.ref x) (.i32 1)))))) = true := by decide

/-! ### `AggGroupBy` and `AggExplode` re-bind the capability too -/

/-- an aggregation lifted above an `AggGroupBy`: rejected; bound inside the group: accepted -/
example : validate
    (.streamAgg x one (.let_ c1 mx (.aggGroupBy small (.bin .add (.ref c1) (.ref c1)))))
    (.streamAgg x one (.aggGroupBy small (.bin .add mx mx))) = false := by decide

example : validate
    (.streamAgg x one (.aggGroupBy small (.let_ c1 mx (.bin .add (.ref c1) (.ref c1)))))
    (.streamAgg x one (.aggGroupBy small (.bin .add mx mx))) = true := by decide

/-- the per-group maximum against the overall maximum: `{true: 1, false: 5}` is not `{true: 5, false: 5}` -/
theorem agg_not_lifted_across_groupBy :
    eval [] [] (.streamAgg x one (.let_ c1 mx (.aggGroupBy small (.ref c1))))
      = .dict [(.bool true, .i32 5), (.bool false, .i32 5)] ∧
    eval [] [] (.streamAgg x one (.aggGroupBy small mx))
      = .dict [(.bool true, .i32 1), (.bool false, .i32 5)] := by
  constructor <;> rfl

private def y : Name := .user "y"
private def twice : IR := .toStream (.acons (.ref x) (.acons (.ref x) (.anil .int32)))

/-- an aggregation over the exploded elements is not the aggregation over the outer elements: lifted above `AggExplode`,
rejected (`collect` sees 2 elements outside, 4 inside) -/
example : validate
    (.streamAgg x one (.let_ c1 (.arrayLen (.agg .collect (.ref x))) (.aggExplode y twice (.bin .add (.ref c1) (.ref c1)))))
    (.streamAgg x one (.aggExplode y twice (.bin .add (.arrayLen (.agg .collect (.ref x))) (.arrayLen (.agg .collect (.ref x))))))
    = false := by decide

theorem agg_not_lifted_across_explode :
    eval [] [] (.streamAgg x one (.let_ c1 (.arrayLen (.agg .collect (.ref x))) (.aggExplode y twice (.ref c1)))) = .i32 2 ∧
    eval [] [] (.streamAgg x one (.aggExplode y twice (.arrayLen (.agg .collect (.ref x))))) = .i32 4 := by
  constructor <;> rfl

/-- an `AggLet __cse` binding substituted into the stream of an `AggExplode` and into a group-by key: accepted -/
example : validate
    (.streamAgg x one (.aggLet c1 (.bin .add (.ref x) (.i32 1))
      (.aggGroupBy (.cmp .lt (.ref c1) (.i32 3)) (.aggExplode y (.toStream (.acons (.ref c1) (.anil .int32))) (.agg .max (.ref y))))))
    (.streamAgg x one
      (.aggGroupBy (.cmp .lt (.bin .add (.ref x) (.i32 1)) (.i32 3))
        (.aggExplode y (.toStream (.acons (.bin .add (.ref x) (.i32 1)) (.anil .int32))) (.agg .max (.ref y))))) = true := by decide

end HailVerif.C35

import HailVerif.Proofs.ExprIR
/-!
# C35 — Common-subexpression rendering preserves meaning

Subject: the model `HailVerif.ExprIR` of the value IR built by `hail/ir/ir.py` and of the let-bindings
`hail/ir/renderer.py::CSERenderer` inserts (`(Let eval __cse_N v body)`, `(AggLet __cse_N False v body)`).

Claim level: **translation validation with a verified validator**.  There is no theorem here about the renderer's
stack machine.  Instead `ExprIR.validate rendered plain` is run (by `lean/Driver/C35.lean`, from `harness/props/c35.py`) on the
text the REAL renderer produces for every generated DAG, and `validate_sound` below says what an accepted pair satisfies:
equal values in every environment.  `scopeOk_iff` makes the scope check a decision procedure for `WellScoped`, the transcription
of the scoping discipline of `IR._compute_type(env, agg_env, deep_typecheck=True)` including the aggregation scope.

`validate` accepts only programs whose lifted bindings sit outside aggregation queries (`StreamAgg` queries and `AggLet`
bindings are compared by evaluation on sampled environments only — harness/props/c35.py reports both counts).
-/
namespace HailVerif.C35
open HailVerif.ExprIR

/-- (a) **Substitution lemma.**  A `Let` is its body with the bound expression substituted, provided the substitution is
capture-avoiding (`substOk`: no binder between the `Let` and a use of `x` rebinds a free variable of `v`) and no aggregation
node is involved. -/
theorem let_eq_subst (ρ : Env) (A : List Env) (x : Name) (v b : IR)
    (hv : aggFree v = true) (hb : aggFree b = true) (hs : substOk x (fv v) b = true) :
    eval ρ A (.let_ x v b) = eval ρ A (subst x v b) := by
  simp only [eval]
  exact eval_subst A x v hv b ρ hb hs

/-- The value of an aggregation-free expression depends only on its free variables. -/
theorem eval_depends_on_fv (ρ ρ' : Env) (A : List Env) (t : IR) (ha : aggFree t = true)
    (h : ∀ y ∈ fv t, lookup ρ y = lookup ρ' y) : eval ρ A t = eval ρ' A t :=
  eval_congr A t ρ ρ' ha h

/-- Inlining every lifted binding (`inlineCse`) preserves the value in every value scope `ρ` and aggregation scope `A`,
whenever the checker `inlineOk` accepts. -/
theorem inline_preserves (t : IR) (h : inlineOk t = true) (ρ : Env) (A : List Env) :
    eval ρ A (inlineCse t) = eval ρ A t :=
  eval_inlineCse t h ρ A

/-- (b, translation-validation form) **Soundness of the validator**: if `validate rendered plain` answers `true` then the
rendered IR (with its `__cse` bindings) and the fully inlined IR have the same value in EVERY environment. -/
theorem validate_sound (rendered plain : IR) (h : validate rendered plain = true) (ρ : Env) (A : List Env) :
    eval ρ A rendered = eval ρ A plain := by
  simp only [validate, Bool.and_eq_true, decide_eq_true_eq] at h
  rw [← h.2, eval_inlineCse rendered h.1 ρ A]

/-- (b, specification level, ONE binding) **A CSE step preserves meaning.**  Let `v` be any (aggregation-free) subterm and `x` a
fresh name.  Replacing every occurrence of `v` below the bind site `t` by `(Ref x)` — except below binders that rebind a
variable of `v`, where the occurrence denotes something else — and binding `x` to `v` in a `Let` immediately above the site gives
a program with the same value in every environment.  (The renderer iterates such steps with its own choice of sites; that the
stack machine implements exactly this function is NOT proved — its output is validated program by program, `validate_sound`.) -/
theorem cse_step_preserves (ρ : Env) (A : List Env) (x : Name) (v t : IR)
    (hx : x ∉ names t) (ht : aggFree t = true) (hv : aggFree v = true) :
    eval ρ A (.let_ x v (abstractAt x v (fv v) t)) = eval ρ A t := by
  rw [let_eq_subst ρ A x v _ hv (aggFree_abstractAt x v (fv v) t ht) (substOk_abstractAt x v (fv v) t ht hx),
    subst_abstractAt x v (fv v) t hx]

/-- the lifted binding of such a step is well-scoped exactly when `v` is well-scoped at the bind site, and the body may use `x` -/
theorem cse_step_wellScoped (Γ : List Name) (Δ : Option (List Name)) (x : Name) (v b : IR)
    (hv : WellScoped Γ Δ v) (hb : WellScoped (x :: Γ) Δ b) : WellScoped Γ Δ (.let_ x v b) := .let_ hv hb

/-- (c) The executable scope check decides `WellScoped` — value scope and aggregation scope. -/
theorem scopeOk_iff (Γ : List Name) (Δ : Option (List Name)) (t : IR) : scopeOk Γ Δ t = true ↔ WellScoped Γ Δ t :=
  ⟨scopeOk_sound t Γ Δ, scopeOk_complete⟩

/-- What well-scopedness buys: every free variable is in scope, so the value only depends on the in-scope variables. -/
theorem wellScoped_eval (Γ : List Name) (Δ : Option (List Name)) (t : IR) (hw : WellScoped Γ Δ t) (ha : aggFree t = true)
    (ρ ρ' : Env) (A : List Env) (h : ∀ y ∈ Γ, lookup ρ y = lookup ρ' y) : eval ρ A t = eval ρ' A t :=
  eval_congr A t ρ ρ' ha fun y hy => h y (fv_subset_of_wellScoped hw ha y hy)

/-- Every lifted binding of an accepted, well-scoped rendering is placed where the variables it uses are in scope: the scope
check of the whole rendering is the scope check of each `Let` value at its site (unfolding lemma for `Let`). -/
theorem wellScoped_let (Γ : List Name) (Δ : Option (List Name)) (x : Name) (v b : IR) :
    WellScoped Γ Δ (.let_ x v b) ↔ WellScoped Γ Δ v ∧ WellScoped (x :: Γ) Δ b :=
  ⟨fun h => by cases h; exact ⟨‹_›, ‹_›⟩, fun h => .let_ h.1 h.2⟩

/-- … and for a binding lifted into the aggregation scope: the value must be well-scoped in the AGGREGATION scope. -/
theorem wellScoped_aggLet (Γ D : List Name) (x : Name) (v b : IR) :
    WellScoped Γ (some D) (.aggLet x v b) ↔ WellScoped D none v ∧ WellScoped Γ (some (x :: D)) b :=
  ⟨fun h => by cases h; exact ⟨‹_›, ‹_›⟩, fun h => .aggLet h.1 h.2⟩

/-- an aggregation-scope binding cannot appear where there is no aggregation scope -/
theorem not_wellScoped_aggLet_none (Γ : List Name) (x : Name) (v b : IR) : ¬ WellScoped Γ none (.aggLet x v b) := by
  intro h; cases h

/-! ## non-vacuity -/

/-- `(x + 1) * (x + 1)` with `v = x + 1`: the step produces `let c = x + 1 in c * c` -/
example : abstractAt (.cse 1) (.bin .add (.ref (.user "x")) (.i32 1)) [.user "x"]
    (.bin .mul (.bin .add (.ref (.user "x")) (.i32 1)) (.bin .add (.ref (.user "x")) (.i32 1)))
    = .bin .mul (.ref (.cse 1)) (.ref (.cse 1)) := by decide

/-- below a lambda that rebinds `x` the occurrence of `x + 1` is left alone -/
example : abstractAt (.cse 1) (.bin .add (.ref (.user "x")) (.i32 1)) [.user "x"]
    (.streamMap (.user "x") (.toStream (.anil .int32)) (.bin .add (.ref (.user "x")) (.i32 1)))
    = .streamMap (.user "x") (.toStream (.anil .int32)) (.bin .add (.ref (.user "x")) (.i32 1)) := by decide

private def x : Name := .user "x"
private def c1 : Name := .cse 1

/-- `(StreamMap x … (Let eval __cse_1 (x + 1) (__cse_1 * __cse_1)))` against its inlined form: accepted -/
example : validate
    (.streamMap x (.toStream (.acons (.i32 1) (.anil .int32)))
      (.let_ c1 (.bin .add (.ref x) (.i32 1)) (.bin .mul (.ref c1) (.ref c1))))
    (.streamMap x (.toStream (.acons (.i32 1) (.anil .int32)))
      (.bin .mul (.bin .add (.ref x) (.i32 1)) (.bin .add (.ref x) (.i32 1)))) = true := by decide

/-- the binding lifted one level too high (above the lambda that binds `x`) is rejected: by the scope check … -/
example : scopeOk [] none
    (.let_ c1 (.bin .add (.ref x) (.i32 1))
      (.streamMap x (.toStream (.acons (.i32 1) (.anil .int32))) (.bin .mul (.ref c1) (.ref c1)))) = false := by decide

/-- … and, when an outer `x` happens to be in scope, by the capture check of the validator -/
example : validate
    (.let_ c1 (.bin .add (.ref x) (.i32 1))
      (.streamMap x (.toStream (.acons (.i32 1) (.anil .int32))) (.bin .mul (.ref c1) (.ref c1))))
    (.streamMap x (.toStream (.acons (.i32 1) (.anil .int32)))
      (.bin .mul (.bin .add (.ref x) (.i32 1)) (.bin .add (.ref x) (.i32 1)))) = false := by decide

/-- a value-scope reference to an aggregation-scope binding is ill-scoped -/
example : scopeOk [] none
    (.streamAgg x (.toStream (.acons (.i32 1) (.anil .int32)))
      (.aggLet c1 (.ref x) (.bin .add (.agg .max (.ref c1)) (.ref c1)))) = false := by decide

example : scopeOk [] none
    (.streamAgg x (.toStream (.acons (.i32 1) (.anil .int32)))
      (.aggLet c1 (.ref x) (.bin .add (.agg .max (.ref c1)) (.agg .max (.ref c1))))) = true := by decide

end HailVerif.C35

import HailVerif.Proofs.CallPack
import HailVerif.Proofs.ScalaCall
import HailVerif.Model.CallEngine
/-!
# C34 — Genotype call packing agrees with the engine

Subjects
* `HailVerif.CallPack` — model of the Python front end (`hail.genetics.Call`, `_tcall._convert_to_encoding`,
  `_tcall._convert_from_encoding`, `allele_pair_sqrt`), tied to the code by the correspondence check
  `harness/props/c34.py`;
* `HailVerif.Generated.ScalaCall` — the engine's `Call.scala` / `Genotype.scala` functions re-emitted on
  `BitVec 32` by `harness/extract/scala_call.py` on every run (the engine itself is never executed).

All theorems quantify over every call in range: ploidy 0–2, phased or not, allele representation below the
engine's limit `2^29` (`CallPack.InRange`).
-/
namespace HailVerif.C34
open HailVerif.CallPack HailVerif.Jvm HailVerif.Generated.ScalaCall HailVerif.CallEngine

/-- Every in-range call is written (no assertion / `struct.error`) and read back as the same call. -/
theorem decode_encode (c : Call) (h : InRange c) :
    ∃ v, encodeCall c = some v ∧ decodeCall v = some c :=
  ⟨_, encodeCall_inRange h, decode_word h⟩

/-- `Call.__init__` followed by the codec: whatever allele list of length ≤ 2 the user passes, if the normalised
call is in range it round-trips to the normalised call. -/
theorem decode_encode_mk (alleles : List Nat) (phased : Bool) (c : Call)
    (hc : mkCall alleles phased = some c) (h : InRange c) :
    ∃ v, (mkCall alleles phased).bind encodeCall = some v ∧ decodeCall v = some c := by
  rw [hc]; exact decode_encode c h

/-- Genotype index ↔ allele pair is a bijection between `{(j, k) | j ≤ k}` and `ℕ`:
`allelePair` is a left inverse of `gtIndex` on sorted pairs … -/
theorem gtIndex_bijective_left (j k : Nat) (hjk : j ≤ k) : allelePair (gtIndex j k) = (j, k) :=
  allelePair_gtIndex hjk

/-- … and a right inverse everywhere, landing in the sorted pairs. -/
theorem gtIndex_bijective_right (i : Nat) :
    (allelePair i).1 ≤ (allelePair i).2 ∧ gtIndex (allelePair i).1 (allelePair i).2 = i :=
  gtIndex_allelePair i

/-- Injectivity on sorted pairs (consequence of the left inverse). -/
theorem gtIndex_injective (j k j' k' : Nat) (h : j ≤ k) (h' : j' ≤ k')
    (e : gtIndex j k = gtIndex j' k') : j = j' ∧ k = k' := by
  have := allelePair_gtIndex h
  rw [e, allelePair_gtIndex h'] at this
  exact ⟨(Prod.mk.inj this).1.symm, (Prod.mk.inj this).2.symm⟩

/-- VCF ordering: the index is strictly monotone in `(k, j)` ordered lexicographically. -/
theorem gtIndex_vcf_order (j k j' k' : Nat) (h : j ≤ k) (h' : j' ≤ k') :
    gtIndex j k < gtIndex j' k' ↔ k < k' ∨ (k = k' ∧ j < j') :=
  gtIndex_lt_iff h h'

/-- The model's table + square-root lookup used by the decoder is that bijection (for indices whose row fits the
16-bit pair packing). -/
theorem gtAllelePair_is_allelePair (j k : Nat) (hjk : j ≤ k) (hk : k < 65536) :
    gtAllelePair (gtIndex j k) = some (j ||| (k <<< 16)) ∧ apJ (j ||| (k <<< 16)) = j ∧ apK (j ||| (k <<< 16)) = k :=
  ⟨gtAllelePair_gtIndex hjk hk, apJ_pack (by omega), apK_pack (by omega) hk⟩

/-- The signed wrap of `_convert_to_encoding` is harmless on every in-range call: the unsigned word `r` is below
`2^32`, is never `2^31 - 1` (the single value that the off-by-one bound `int_rep < 2**31 - 1` would push out of the
int32 range; it needs ploidy bits `11`), the wrapped value fits an int32, is congruent to `r` modulo `2^32`, and the
decoder's unwrap recovers `r`. -/
theorem int32_wrap_ok (c : Call) (h : InRange c) :
    ∃ r, encodeRaw c = some r ∧ r < 2 ^ 32 ∧ r ≠ 2 ^ 31 - 1 ∧
      -(2 ^ 31) ≤ wrapInt32 r ∧ wrapInt32 r < 2 ^ 31 ∧ wrapInt32 r % 2 ^ 32 = r ∧
      writeInt32 (wrapInt32 r) = some (wrapInt32 r) ∧
      (if wrapInt32 r ≥ 0 then wrapInt32 r else wrapInt32 r + 2 ^ 32).toNat = r := by
  refine ⟨wordOf c, encodeRaw_inRange h, wordOf_lt h, wordOf_ne h, ?_, ?_, ?_,
    wrap_fits (wordOf_lt h) (wordOf_ne h), unwrap_wrap (wordOf_lt h)⟩
  all_goals (have := wordOf_lt h; have := wordOf_ne h; unfold wrapInt32; split <;> omega)

/-- For *every* call (in range or not) that the encoder accepts, the ploidy bits of the word before the wrap are not
`11`; in particular the word is not `≡ 7 (mod 8)`, so it is never `2^31 - 1`: the off-by-one bound is unreachable. -/
theorem raw_ploidy_bits (c : Call) (r : Nat) (h : encodeRaw c = some r) : (r >>> 1) &&& 3 ≠ 3 := by
  rcases c with ⟨al, ph⟩
  unfold encodeRaw at h
  simp only at h
  split at h
  next hle =>
    have ht := tagBits_lt ph hle
    generalize tagBits al.length ph = t at h ht
    have key : ∀ x : Nat, ((t ||| (x <<< 3)) >>> 1) &&& 3 ≠ 3 := by
      intro x
      rw [lor_shl3 t x (by omega), and_three, Nat.shiftRight_eq_div_pow]; omega
    have low : (t >>> 1) &&& 3 ≠ 3 := by
      rw [and_three, Nat.shiftRight_eq_div_pow]; omega
    match al, h with
    | [], h => cases h; exact low
    | [a], h => cases h; exact key a
    | [j, k], h =>
      simp only [Option.map_eq_some_iff] at h
      obtain ⟨p, _, rfl⟩ := h; exact key p
    | _ :: _ :: _ :: _, _ => simp at hle
  next => cases h

/-! ## The engine side -/

/-! `CallEngine.enginePack` is `CallN.apply(alleles, phased)` and `CallEngine.engineUnpack` is
`Call.alleles` / `Call.isPhased` (Model/CallEngine.lean: the two ploidy dispatches transcribed by hand over the
generated functions; the translator checks their Scala text on every run). -/

/-- The Python front end packs every in-range call into exactly the 32-bit word the engine's constructors
(`Call0/Call1/Call2.apply` → `Call.apply`, `Genotype.diploidGtIndex[WithSwap]`) produce for it, and the engine
accepts every such call (no `fatal`). -/
theorem python_pack_eq_engine_pack (c : Call) (h : InRange c) :
    ∃ w : I32, enginePack c = some w ∧ encodeCall c = some w.toInt := by
  refine ⟨bv (wordOf c), ?_, ?_⟩
  · rcases c with ⟨al, ph⟩
    match al, ph, h with
    | [], ph, _ => simpa [enginePack, wordOf, alleleReprOf] using Call0_apply_bv ph
    | [a], ph, h =>
      have := Call1_apply_bv ph (show a < 2 ^ 29 from h)
      simpa [enginePack, wordOf, alleleReprOf] using this
    | [j, k], false, h =>
      have := Call2_apply_unphased h.1 h.2
      simpa [enginePack, wordOf, alleleReprOf] using this
    | [j, k], true, h =>
      have := Call2_apply_phased (j := j) (k := k) h
      simpa [enginePack, wordOf, alleleReprOf] using this
  · rw [encodeCall_inRange h, toInt_bv_eq_wrap (wordOf_lt h) (wordOf_ne h)]

/-- The engine unpacks that word to the same call: ploidy, phasing, the haploid allele, and for diploid calls the
allele pair `Call.allelePair` (table / `allelePairSqrt` route, phased pairs un-summed) — the same pair the Python
decoder extracts (`decode_encode`). -/
theorem engine_unpack_eq_python_unpack (c : Call) (h : InRange c) :
    ∃ w : I32, enginePack c = some w ∧
      Call_ploidy w = bv c.alleles.length ∧ Call_isPhased w = c.phased ∧
      (∀ a, c.alleles = [a] → Call_alleleRepr w = bv a) ∧
      (∀ j k, c.alleles = [j, k] → Call_allelePair w = some (bv (j ||| (k <<< 16))) ∧
        AllelePair_j (bv (j ||| (k <<< 16))) = bv j ∧ AllelePair_k (bv (j ||| (k <<< 16))) = bv k) := by
  obtain ⟨w, hw, _⟩ := python_pack_eq_engine_pack c h
  have hw' : enginePack c = some (bv (wordOf c)) := by
    obtain ⟨w', h1, h2⟩ := python_pack_eq_engine_pack c h
    rcases c with ⟨al, ph⟩
    match al, ph, h with
    | [], ph, _ => simpa [enginePack, wordOf, alleleReprOf] using Call0_apply_bv ph
    | [a], ph, h =>
      have := Call1_apply_bv ph (show a < 2 ^ 29 from h)
      simpa [enginePack, wordOf, alleleReprOf] using this
    | [j, k], false, h =>
      have := Call2_apply_unphased h.1 h.2
      simpa [enginePack, wordOf, alleleReprOf] using this
    | [j, k], true, h =>
      have := Call2_apply_phased (j := j) (k := k) h
      simpa [enginePack, wordOf, alleleReprOf] using this
  refine ⟨bv (wordOf c), hw', ?_⟩
  have hlt := wordOf_lt h
  have har := alleleReprOf_lt h
  have hlen := length_le_of_inRange h
  have hpl : ((wordOf c) >>> 1) &&& 3 = c.alleles.length := by
    rw [and_three, Nat.shiftRight_eq_div_pow]; unfold wordOf; cases c.phased <;> simp <;> omega
  have hph : ((wordOf c) &&& 1 == 1) = c.phased := by
    rw [and_one]; unfold wordOf; cases c.phased <;> simp <;> omega
  refine ⟨by rw [Call_ploidy_bv hlt, hpl], by rw [Call_isPhased_bv, hph], ?_, ?_⟩
  · intro a ha
    rw [Call_alleleRepr_bv hlt]
    have : wordOf c >>> 3 = a := by
      rw [Nat.shiftRight_eq_div_pow]; unfold wordOf alleleReprOf; rw [ha]
      cases c.phased <;> simp <;> omega
    rw [this]
  · intro j k hjk
    rcases c with ⟨al, ph⟩
    simp only at hjk; subst hjk
    cases ph
    · have hk := row_lt_of_lt h.2
      have hj : j ≤ k := h.1
      refine ⟨?_, ?_, ?_⟩
      · have := Call_allelePair_unphased h.1 h.2
        simpa [wordOf, alleleReprOf] using this
      · rw [AllelePair_j_bv, apJ_pack (by omega)]
      · rw [AllelePair_k_bv (pack_lt (by omega) hk), apK_pack (by omega) (by omega)]
    · have hk := row_lt_of_lt (show gtIndex j (j + k) < 2 ^ 29 from h)
      refine ⟨?_, ?_, ?_⟩
      · have := Call_allelePair_phased (j := j) (k := k) h
        simpa [wordOf, alleleReprOf] using this
      · rw [AllelePair_j_bv, apJ_pack (by omega)]
      · rw [AllelePair_k_bv (pack_lt (by omega) (by omega)), apK_pack (by omega) (by omega)]

/-- Packing by the engine and unpacking by the engine is the identity on in-range calls, and (by
`python_pack_eq_engine_pack`) the word is the one the Python encoder writes: the engine reads every call the front
end sends as the call the front end meant. -/
theorem engine_unpack_engine_pack (c : Call) (h : InRange c) :
    ∃ w : I32, enginePack c = some w ∧ encodeCall c = some w.toInt ∧ engineUnpack w = some c := by
  obtain ⟨w, hw, hp, hph, h1, h2⟩ := engine_unpack_eq_python_unpack c h
  obtain ⟨w', hw', he⟩ := python_pack_eq_engine_pack c h
  have : w' = w := by rw [hw] at hw'; exact (Option.some.inj hw').symm
  subst this
  refine ⟨w', hw, he, ?_⟩
  have hlen := length_le_of_inRange h
  unfold engineUnpack
  simp only [hp, hph, toNat_bv (show c.alleles.length < 2 ^ 32 by omega)]
  rcases c with ⟨al, ph⟩
  match al, h, h1, h2 with
  | [], _, _, _ => simp
  | [a], h, h1, _ =>
    have ha : a < 2 ^ 29 := h
    simp [h1 a rfl, toNat_bv (show a < 2 ^ 32 by omega)]
  | [j, k], h, _, h2 =>
    obtain ⟨e1, e2, e3⟩ := h2 j k rfl
    have hk : j < 32768 ∧ k < 32768 := by
      cases ph
      · have := row_lt_of_lt h.2; have := h.1; omega
      · have := row_lt_of_lt (show gtIndex j (j + k) < 2 ^ 29 from h); omega
    simp only [List.length_cons, List.length_nil, e1, Option.bind_some, e2, e3,
      toNat_bv (show j < 2 ^ 32 by omega), toNat_bv (show k < 2 ^ 32 by omega)]
    simp
  | _ :: _ :: _ :: _, _, _, _ => simp at hlen

/-! ## Non-vacuity and boundary witnesses -/

-- the calls the hypotheses admit: every ploidy and phasing, up to the largest representation
example : InRange ⟨[], true⟩ := by decide
example : InRange ⟨[2 ^ 29 - 1], true⟩ := by decide
example : InRange ⟨[1, 3], false⟩ := by decide
example : InRange ⟨[2, 32765], true⟩ := by decide          -- stored as the pair (2, 32767)
example : InRange ⟨[16383, 32767], false⟩ := by decide      -- gtIndex = 2^29 - 1, the last representable index
example : ¬ InRange ⟨[16384, 32767], false⟩ := by decide    -- gtIndex = 2^29
-- concrete words (the correspondence run observes the same values on the real code)
example : encodeCall ⟨[1, 3], false⟩ = some 60 := by decide
example : encodeCall ⟨[3, 1], true⟩ = some 109 := by decide
example : encodeCall ⟨[2 ^ 29 - 1], false⟩ = some (-6) := by decide    -- the wrap is exercised
example : decodeCall (-6) = some ⟨[2 ^ 29 - 1], false⟩ := by decide
example : enginePack ⟨[3, 1], true⟩ = some 109#32 := by decide
example : engineUnpack 109#32 = some ⟨[3, 1], true⟩ := by decide
-- the range hypothesis is needed: one past the limit the engine refuses (`fatal`) while the Python encoder
-- silently writes a word that decodes to a different call (observed on the real code too; outside the property)
example : enginePack ⟨[16384, 32767], false⟩ = none := by decide
example : encodeCall ⟨[16384, 32767], false⟩ = some 4 := by decide

end HailVerif.C34

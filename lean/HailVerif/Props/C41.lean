import HailVerif.Proofs.BatchDBProtocol
/-!
# C41 — Uncommitted updates have no effect on a batch

Subject: the BatchDB model (`HailVerif.BatchDB`, one `step` per transaction) with the scheduler's selection predicate
`schedulable` of `Model/BatchActors.lean` (`pool.py::user_runnable_jobs`: Ready jobs of job groups whose
`state = 'running'`; always_run ones always, the others when neither the job is marked cancelled nor its group has a
cancelled ancestor-or-self).

Full statement `UncommittedInvisibleAlways`: in every reachable state no job of an uncommitted update is `schedulable`,
and every job of an uncommitted update other than update 1 is Pending (update-1 jobs without parents are inserted Ready,
but no group of the batch is `running` before update 1 is committed).

**The full statement is FALSE in the model, faithfully to the SQL.**  Two independent witnesses, both proved by `decide`:

1. `uncommitted_child_made_ready` (the known defect): `mark_job_complete`'s child `UPDATE` joins `job_parents` without looking
   at `batch_updates.committed`; a parent in a committed update completes ⇒ its child in an uncommitted update becomes Ready in
   a running group: it is selected by the scheduler and counted in `n_ready_jobs` (`counter_exceeds_recount`).
2. `out_of_order_commit` (new): nothing orders commits.  With update 1 still open, update 2 is created, filled and
   committed — the root group turns `running` — and a parentless job then inserted into update 1 is inserted Ready
   (`update_id == 1 and len(parent_ids) == 0`), hence schedulable while update 1 is uncommitted.

`uncommitted_invisible_partial`: under the explicit, decidable per-transaction hypothesis `OpOK` (no `complete` targets a job
that has a child in an uncommitted update; `commitUpdate b u` only when `u = 1` or update 1 is committed, and the jobs in
`u`'s reserved id range belong to `u` — C08, not enforced by the code), `UncommittedInvisible` holds after every history.

Also proved under the same hypothesis: `uncommitted_rows_frozen` (no transaction touches such a row: no trigger fires for it),
`uncommitted_complete_no_effect` (it is never tallied and never completes a group or the batch),
`uncommitted_schedule_no_effect`.

`NeverCommittedErasure` (simulation by erasure) is only STATED — see its doc comment for what is missing.
-/
namespace HailVerif.C41
open HailVerif.BatchDB

def after (s : State) (ops : List Op) : State := ops.foldl (fun s op => (step s op).1) s

theorem after_snoc (s : State) (ops : List Op) (op : Op) : after s (ops ++ [op]) = (step (after s ops) op).1 := by
  simp [after, List.foldl_append]

/-- the full statement of the property -/
def UncommittedInvisibleAlways : Prop := ∀ ops : List Op, UncommittedInvisible (after init ops)

/-! ## witness 1: a completing parent makes a child of an uncommitted update Ready -/

/-- update 1 = {P, Q} committed and running; update 2 = {J ← P} inserted, NOT committed; P is scheduled and succeeds -/
def witness1 : List Op :=
  [.createBatch 1 1 100, .createUpdate 1 200 2 0 1,
   .insertJobs 1 1 1 [⟨1, [], [], some 0, 0, false, 1000, 0⟩, ⟨2, [], [], some 0, 0, false, 1000, 0⟩],
   .commitUpdate 1 1,
   .createUpdate 1 201 1 0 1,
   .insertJobs 1 2 1 [⟨1, [1], [], some 0, 0, false, 1000, 0⟩],
   .newInstance 7 4000 true, .activate 7, .schedule 1 1 11 7,
   .complete 1 1 (some 11) (some 7) .Success (some 0) (some 1) "" 0]

/-- (job id, its update is committed, state, selected by the scheduler): job 3 of the uncommitted update 2 is Ready and
schedulable -/
theorem uncommitted_child_made_ready :
    ((after init witness1).jobs.map fun x =>
      (x.id, updCommitted (after init witness1) x.batch x.update, x.state, schedulable (after init witness1) x)) =
    [(1, true, .Success, false), (2, true, .Ready, true), (3, false, .Ready, true)] := by decide

/-- the recount of `n_ready_jobs` the scheduler's counter is meant to equal: Ready, not cancelled jobs of committed updates
of the user's batches in the inst_coll -/
def committedReady (s : State) (user ic : Nat) : Int :=
  ((s.jobs.filter fun x => updCommitted s x.batch x.update && decide (x.state = .Ready) && !jobCancelled s x &&
      decide (userOf s x.batch = user) && decide (x.ic = ic)).length : Int)

/-- … and it is counted: `user_inst_coll_resources.n_ready_jobs` is 2 although only one job of a committed update is Ready -/
theorem counter_exceeds_recount :
    get (after init witness1).ctr (.uReady 1 0) = 2 ∧ committedReady (after init witness1) 1 0 = 1 := by decide

theorem uncommitted_invisible_fails : ¬ UncommittedInvisibleAlways := by
  intro h
  have := (h witness1 ⟨1, 3, 2, 0, .Ready, false, 1000, 0, 0, false, none⟩ (by decide) (by decide)).1
  exact absurd this (by decide)

/-! ## witness 2: commits are not ordered -/

/-- update 1 is opened, update 2 is opened, filled and committed (root group running), then a parentless job is inserted
into the still uncommitted update 1 -/
def witness2 : List Op :=
  [.createBatch 1 1 100, .createUpdate 1 200 1 0 1, .createUpdate 1 201 1 0 1,
   .insertJobs 1 2 1 [⟨1, [], [], some 0, 0, false, 1000, 0⟩],
   .commitUpdate 1 2,
   .insertJobs 1 1 1 [⟨1, [], [], some 0, 0, false, 1000, 0⟩]]

theorem out_of_order_commit :
    ((after init witness2).jobs.map fun x =>
      (x.id, x.update, updCommitted (after init witness2) x.batch x.update, x.state, schedulable (after init witness2) x)) =
    [(2, 2, true, .Ready, true), (1, 1, false, .Ready, true)] := by decide

/-- the second witness satisfies the first exclusion (no `complete` at all): the order of commits is a separate cause -/
example : ∀ op ∈ witness2, ∀ b j a i ns st e r d, op ≠ Op.complete b j a i ns st e r d := by
  intro op hop
  simp only [witness2, List.mem_cons, List.mem_nil_iff, or_false] at hop
  rcases hop with rfl | rfl | rfl | rfl | rfl | rfl <;> intros <;> simp

/-! ## the partial theorem -/

/-- Under `OpOK` for every transaction of the history (see `BatchDB.OpOK`), no job of an uncommitted update is ever
selectable by the scheduler, and jobs of uncommitted non-initial updates stay Pending. -/
theorem uncommitted_invisible_partial (ops : List Op) (hok : HistOK init ops) : UncommittedInvisible (after init ops) := by
  obtain ⟨hP, hG⟩ := inv_run ops init (by simp [JobsUnique, init]) pendInv_init groupsGate_init hok
  exact uncommittedInvisible_of hP hG

/-- the same, one transaction at a time, from any state satisfying the invariants (what the induction uses) -/
theorem uncommitted_invisible_step (s : State) (hu : JobsUnique s) (hP : PendInv s) (hG : GroupsGate s) (op : Op)
    (hok : OpOK s op) : UncommittedInvisible (step s op).1 := by
  obtain ⟨h1, h2⟩ := inv_step s hu op hok hP hG
  exact uncommittedInvisible_of h1.1 h2

/-- **Never touched.**  Under `OpOK`, a transaction carries every job row of a non-initial update that is still uncommitted
afterwards over UNCHANGED: no `UPDATE jobs` matched it, so `jobs_after_update` did not fire for it (it entered no scheduling
counter) and it entered no tally.  (`hP`, `hG`, `hu` hold in every state reached by an `OpOK` history: `inv_run`.) -/
theorem uncommitted_rows_frozen (s : State) (hu : JobsUnique s) (hP : PendInv s) (hG : GroupsGate s) (op : Op)
    (hok : OpOK s op) (x : Job) (hx : x ∈ s.jobs) (hc : updCommitted (step s op).1 x.batch x.update = false)
    (h1 : x.update ≠ 1) : x ∈ (step s op).1.jobs :=
  (inv_step s hu op hok hP hG).1.2 x hx hc h1

/-- **Never tallied, never completing anything.**  A completion report — any outcome, any attempt — for a job of an
uncommitted non-initial update is refused (rc 1 or 2) and changes no job row, no group row (tallies, `n_jobs`, state) and no
batch row, in any state satisfying the invariant. -/
theorem uncommitted_complete_no_effect (s : State) (hP : PendInv s) (b j : Nat) (att inst : Option Nat) (ns : JState)
    (st e : Option Int) (r : String) (d : Nat) (job : Job) (hj : findJob s b j = some job)
    (hc : updCommitted s job.batch job.update = false) (h1 : job.update ≠ 1) :
    (step s (.complete b j att inst ns st e r d)).2 ≠ .ok 0 ∧
    (step s (.complete b j att inst ns st e r d)).1.jobs = s.jobs ∧
    (step s (.complete b j att inst ns st e r d)).1.groups = s.groups ∧
    (step s (.complete b j att inst ns st e r d)).1.batches = s.batches := by
  have hpend := hP job (mem_of_findJob hj).1 hc h1
  show (complete s b j att inst ns st e r d).2 ≠ .ok 0 ∧ (complete s b j att inst ns st e r d).1.jobs = s.jobs ∧
    (complete s b j att inst ns st e r d).1.groups = s.groups ∧ (complete s b j att inst ns st e r d).1.batches = s.batches
  unfold complete
  rcases findJobFk_cases s b j att inst with hn | hs
  · rw [hn]
    refine ⟨?_, rfl, rfl, rfl⟩
    dsimp only; split_ifs <;> simp
  · rw [hs, hj]
    dsimp only
    split_ifs with g1 g2 g3
    · exact ⟨by simp, completePrep_jobs .., gu_groups (gu_completePrep ..), completePrep_batches ..⟩
    · rw [hpend] at g2; simp at g2
    · rw [hpend] at g3; simp [JState.terminal] at g3
    · exact ⟨by simp, completePrep_jobs .., gu_groups (gu_completePrep ..), completePrep_batches ..⟩

/-- **Never scheduled, even by a stray message.**  `schedule_job` / `mark_job_creating` / `mark_job_started` for a job of an
uncommitted non-initial update change no job row (`schedule_job` answers rc 1, or fails on a foreign key). -/
theorem uncommitted_schedule_no_effect (s : State) (hP : PendInv s) (b j a i : Nat) (ts : Int) (d : Nat) (job : Job)
    (hj : findJob s b j = some job) (hc : updCommitted s job.batch job.update = false) (h1 : job.update ≠ 1) :
    (step s (.schedule b j a i)).2 ≠ .ok 0 ∧ (step s (.schedule b j a i)).1.jobs = s.jobs ∧
    (step s (.started b j a i ts d)).1.jobs = s.jobs ∧ (step s (.creating b j a i ts d)).1.jobs = s.jobs := by
  have hpend := hP job (mem_of_findJob hj).1 hc h1
  rcases findJobFk_cases s b j (some a) (some i) with hn | hs
  · refine ⟨?_, ?_, ?_, ?_⟩
    · show (schedule s b j a i).2 ≠ _; unfold schedule; rw [hn]; simp
    · show (schedule s b j a i).1.jobs = _; unfold schedule; rw [hn]
    · show (started s b j a i ts d).1.jobs = _; unfold started startLike; rw [hn]
    · show (creating s b j a i ts d).1.jobs = _; unfold creating startLike; rw [hn]
  · refine ⟨?_, ?_, ?_, ?_⟩
    · show (schedule s b j a i).2 ≠ _; unfold schedule; rw [hs, hj]; simp [hpend]
    · show (schedule s b j a i).1.jobs = _; unfold schedule; rw [hs, hj]; simp [hpend]
    · show (started s b j a i ts d).1.jobs = _; unfold started startLike; rw [hs, hj]; simp [hpend]
    · show (creating s b j a i ts d).1.jobs = _; unfold creating startLike; rw [hs, hj]; simp [hpend]

/-- consequence for the counters' subject: under the same hypothesis a job of an uncommitted update is never in a state the
scheduler counters count (Ready / Creating / Running) unless it belongs to update 1 -/
theorem uncommitted_not_counted (ops : List Op) (hok : HistOK init ops) (x : Job) (hx : x ∈ (after init ops).jobs)
    (hc : updCommitted (after init ops) x.batch x.update = false) (h1 : x.update ≠ 1) :
    x.state ≠ .Ready ∧ x.state ≠ .Creating ∧ x.state ≠ .Running := by
  have := (uncommitted_invisible_partial ops hok x hx hc).2 h1
  rw [this]; simp

/-! ## non-vacuity of the hypothesis -/

/-- the history of witness 1 with the commit of update 2 moved BEFORE the parent completes, and continued: satisfies
`OpOK` throughout -/
def okHistory : List Op :=
  [.createBatch 1 1 100, .createUpdate 1 200 2 0 1,
   .insertJobs 1 1 1 [⟨1, [], [], some 0, 0, false, 1000, 0⟩, ⟨2, [], [], some 0, 0, false, 1000, 0⟩],
   .commitUpdate 1 1,
   .createUpdate 1 201 1 0 1,
   .insertJobs 1 2 1 [⟨1, [1], [], some 0, 0, false, 1000, 0⟩],
   .newInstance 7 4000 true, .activate 7, .schedule 1 2 11 7,
   .complete 1 2 (some 11) (some 7) .Success (some 0) (some 1) "" 0,   -- Q has no child: allowed while update 2 is open
   .commitUpdate 1 2, .schedule 1 1 12 7,
   .complete 1 1 (some 12) (some 7) .Success (some 0) (some 1) "" 0]

example : HistOK init okHistory := by decide
-- while update 2 is open its job is Pending and invisible; after the commit and P's completion it is Ready
example : ((after init (okHistory.take 10)).jobs.map fun x => (x.id, x.state)) = [(1, .Ready), (2, .Success), (3, .Pending)] := by
  decide
example : ((after init okHistory).jobs.map fun x => (x.id, x.state)) = [(1, .Success), (2, .Success), (3, .Ready)] := by decide
-- the two witnesses violate the hypothesis, each at the expected transaction
example : ¬ HistOK init witness1 := by decide
example : ¬ HistOK init witness2 := by decide

/-! ## never-committed updates: simulation by erasure (stated, not proved) -/

/-- the insertions of update `u` of batch `b` -/
def isInsertOf (b u : Nat) : Op → Bool
  | .insertJobs b' u' _ _ => decide (b' = b ∧ u' = u)
  | .insertGroups b' u' _ _ => decide (b' = b ∧ u' = u)
  | _ => false

/-- the history with update `u`'s bunches removed (its `createUpdate` is kept: removing it would renumber every later update
and shift their reserved job / group id ranges, so the two runs could only be compared up to a renaming) -/
def eraseOps (b u : Nat) (ops : List Op) : List Op := ops.filter fun op => !isInsertOf b u op

/-- counter keys private to update `u` of batch `b`: its staging and cancellable rows -/
def keyOfUpdate (b u : Nat) : CKey → Bool
  | .cReady b' u' _ _ | .cReadyCores b' u' _ _ | .cCreating b' u' _ _ | .cRunning b' u' _ _ | .cRunningCores b' u' _ _
  | .sJobs b' u' _ _ | .sReady b' u' _ _ | .sReadyCores b' u' _ _ => decide (b' = b ∧ u' = u)
  | _ => false

/-- what the rest of the system can observe: job rows of other updates, group rows not created by `u` (tallies, n_jobs,
state), batch rows, and every counter except the rows private to `u` (every key occurring in either log; all other keys
have value 0 in both) -/
def ViewEq (b u : Nat) (s t : State) : Prop :=
  s.jobs.filter (fun x => !(decide (x.batch = b ∧ x.update = u))) = t.jobs.filter (fun x => !(decide (x.batch = b ∧ x.update = u))) ∧
  s.groups.filter (fun g => !(decide (g.batch = b ∧ g.update = some u))) =
    t.groups.filter (fun g => !(decide (g.batch = b ∧ g.update = some u))) ∧
  s.batches = t.batches ∧
  ∀ k ∈ ((s.ctr ++ t.ctr).map (·.1)).eraseDups, keyOfUpdate b u k = false → get s.ctr k = get t.ctr k

instance (b u : Nat) (s t : State) : Decidable (ViewEq b u s t) := by unfold ViewEq; infer_instance

/-- update `u` of batch `b` is uncommitted in every state along the history -/
def NeverCommitted (b u : Nat) (ops : List Op) : Prop :=
  ∀ n ∈ List.range (ops.length + 1), updCommitted (after init (ops.take n)) b u = false

instance (b u : Nat) (ops : List Op) : Decidable (NeverCommitted b u ops) := by unfold NeverCommitted; infer_instance

/-- job `j` of batch `b` belongs to update `u` -/
def ofU (b u : Nat) (s : State) (j : Nat) : Prop := ∃ x ∈ s.jobs, x.batch = b ∧ x.id = j ∧ x.update = u

instance (b u : Nat) (s : State) (j : Nat) : Decidable (ofU b u s j) := by unfold ofU; infer_instance

/-- a bunch of another update `u'` stays clear of `u`: no parent in `u`, no job id of `u` reused (job ids are not validated
against the reserved range: C08), no job put into a group created by `u` -/
def insertJobsSeparate (b u : Nat) (s : State) (u' : Nat) (specs : List JobSpec) : Prop :=
  match findUpdate s b u' with
  | some u2 => ∀ sp ∈ specs, (∀ p ∈ jobParents u2 sp, ¬ ofU b u s p) ∧ ¬ ofU b u s (mkJob u2 b sp).id ∧
      ∀ g ∈ s.groups, g.batch = b → g.id = (mkJob u2 b sp).group → g.update ≠ some u
  | none => True

instance (b u : Nat) (s : State) (u' : Nat) (specs : List JobSpec) : Decidable (insertJobsSeparate b u s u' specs) := by
  unfold insertJobsSeparate; split <;> infer_instance

/-- the transaction `op`, issued in state `s`, does not name `u`'s rows: a driver / worker transaction does not target a job
of `u`; a bunch of another update is `insertJobsSeparate`; `u` has created no group when another update inserts groups (group
ids must be consecutive: `maxGroupId`) -/
def separateOp (b u : Nat) (s : State) : Op → Prop
  | .schedule b' j _ _ => b' = b → ¬ ofU b u s j
  | .creating b' j _ _ _ _ => b' = b → ¬ ofU b u s j
  | .started b' j _ _ _ _ => b' = b → ¬ ofU b u s j
  | .complete b' j _ _ _ _ _ _ _ => b' = b → ¬ ofU b u s j
  | .unschedule b' j _ _ _ _ _ => b' = b → ¬ ofU b u s j
  | .addResources b' j _ _ _ => b' = b → ¬ ofU b u s j
  | .heartbeat atts _ _ => ∀ a ∈ atts, a.1 = b → ¬ ofU b u s a.2.1
  | .insertJobs b' u' _ specs => b' = b → u' ≠ u → insertJobsSeparate b u s u' specs
  | .insertGroups b' u' _ _ => b' = b → u' ≠ u → ∀ g ∈ s.groups, g.batch = b → g.update ≠ some u
  | _ => True

instance (b u : Nat) (s : State) (op : Op) : Decidable (separateOp b u s op) := by
  cases op <;> unfold separateOp <;> infer_instance

/-- every transaction of the history is `separateOp` in the state it is applied to -/
def Separate (b u : Nat) : State → List Op → Prop
  | _, [] => True
  | s, op :: rest => separateOp b u s op ∧ Separate b u (step s op).1 rest

instance (b u : Nat) : ∀ (s : State) (ops : List Op), Decidable (Separate b u s ops)
  | _, [] => by unfold Separate; infer_instance
  | s, op :: rest => by
    unfold Separate
    have := instDecidableSeparate b u (step s op).1 rest
    infer_instance

/-- **Stated, not proved.**  For a history satisfying `OpOK` throughout in which update `u` of batch `b` is never committed
and whose other transactions do not name `u`'s rows (`Separate`), the observable part of the final state equals that of the
run with `u`'s bunches removed.

What is missing: the simulation relation `R s t` (`t` = `s` minus the job rows, `job_parents` rows, group rows and private
counter rows of `u`) has to be shown preserved by all 21 transactions.  The cases that are routine with the lemmas of
`Proofs/BatchDBProtocol.lean`: every transaction that leaves `jobs` alone; `schedule/creating/started/unschedule/deactivate`
(they only touch Ready/Creating/Running rows, and rows of `u` are Pending by `PendInv`, or Ready in a non-running group for
`u = 1`).  The cases that are not: (a) `complete` — needs that `tallyGroups`/`markGroupsComplete` read `ancestorsOf` only of
groups not created by `u` and that the `jobDeltas` of the children are computed from `groupCancelled`, equal in `s` and `t`;
(b) `commitUpdate` of another update — its `recompute` reads the parents' states through `findJob`, which needs `findJob` to
agree on the non-`u` rows (`JobsUnique`) and `Separate` to rule out parents in `u`; (c) `cancelGroup`/`deleteBatch` — the
`cancelDeltas` enumerate the cancellable rows of ALL updates, committed or not: the user-level deltas are filtered by
`updCommitted` (fine), the group-level ones are private to `u` (excluded from the view), but this needs `get`-level
reasoning over `cancellableRows`; (d) `compact`, which re-keys the whole log.  The hypotheses `Separate` were found by trying
the proof on paper: without them the statement is false in the model (e.g. a later update's `insertGroups` is answered
"out-of-order" in the erased run because `maxGroupId` no longer counts `u`'s groups; `complete` on a Pending job of `u`
still inserts an attempt and bills it). -/
def NeverCommittedErasure : Prop :=
  ∀ (ops : List Op) (b u : Nat), HistOK init ops → NeverCommitted b u ops → Separate b u init ops →
    ViewEq b u (after init ops) (after init (eraseOps b u ops))

/-- evidence on a concrete history: update 2 = {J ← P} is inserted and never committed while update 1 = {P, Q} runs to
completion (P has a child in the open update, so `complete P` is not `OpOK`; Q is completed instead, and the batch is
cancelled at the end) — the views agree -/
def neverCommitted : List Op :=
  [.createBatch 1 1 100, .createUpdate 1 200 2 0 1,
   .insertJobs 1 1 1 [⟨1, [], [], some 0, 0, false, 1000, 0⟩, ⟨2, [], [], some 0, 0, false, 1000, 0⟩],
   .commitUpdate 1 1,
   .createUpdate 1 201 1 0 1,
   .insertJobs 1 2 1 [⟨1, [1], [], some 0, 0, false, 1000, 0⟩],
   .newInstance 7 4000 true, .activate 7, .schedule 1 2 11 7,
   .complete 1 2 (some 11) (some 7) .Success (some 0) (some 1) "" 0,
   .cancelGroup 1 0, .cleanupStaging, .compact]

example : HistOK init neverCommitted ∧ NeverCommitted 1 2 neverCommitted ∧ Separate 1 2 init neverCommitted := by decide
example : ViewEq 1 2 (after init neverCommitted) (after init (eraseOps 1 2 neverCommitted)) := by decide
/-- another one: update 1 has a sub-group; update 2 (never committed) puts a Pending job into the sub-group; a job of the
sub-group is scheduled, the sub-group is cancelled, the job is unscheduled and cancelled -/
def neverCommitted2 : List Op :=
  [.createBatch 1 1 100, .createUpdate 1 200 2 1 1, .insertGroups 1 1 1 [⟨1, some 0, 0⟩],
   .insertJobs 1 1 1 [⟨1, [], [], none, 1, false, 1000, 0⟩, ⟨2, [], [1], some 0, 0, true, 500, 0⟩],
   .commitUpdate 1 1,
   .createUpdate 1 201 1 0 1,
   .insertJobs 1 2 1 [⟨1, [2], [], some 1, 0, false, 250, 0⟩],
   .newInstance 7 4000 true, .activate 7, .schedule 1 1 11 7,
   .cancelGroup 1 1,
   .unschedule 1 1 11 7 5 "cancelled" 0,
   .complete 1 1 none none .Cancelled none none "cancelled" 0]

example : HistOK init neverCommitted2 ∧ NeverCommitted 1 2 neverCommitted2 ∧ Separate 1 2 init neverCommitted2 := by decide
example : ViewEq 1 2 (after init neverCommitted2) (after init (eraseOps 1 2 neverCommitted2)) := by decide
-- with the defect (witness 1: P completes) the views differ: the erased run has no phantom ready job
example : ¬ ViewEq 1 2 (after init witness1) (after init (eraseOps 1 2 witness1)) := by decide

end HailVerif.C41

import HailVerif.Proofs.Gather
/-!
# C20 — Bounded gather respects its bound and its error contract

Subject: `HailVerif.Gather.start/step`, the model of `bounded_gather`, `bounded_gather2[_return_exceptions|_raise_exceptions]`,
`WithoutSemaphore` and `OnlineBoundedGather2` (hail/python/hailtop/utils/utils.py) whose steps are what happens between two
quiescent states of the event loop; tied to the real helpers by the correspondence check `harness/props/c20.py`.
`asyncio.gather/wait/shield/Semaphore/Event/Task.cancel` are modelled from their documented behaviour (the property is *partial*
in that sense).

Every theorem quantifies over ALL schedules `ops` (all completion orders of the task bodies, for the online pool the moment its
body ends, and the cancellation of the helper's caller at any moment), all failure patterns `outs` (a body returns, raises, or ends in `CancelledError`), all semaphore sizes `n ≥ 1`, any number of tasks: `run fl en n outs ops = some s`
says `s` is the state after the whole schedule; every prefix of a schedule is a schedule, so this is "after every step".

Four defects found by this check were repaired in the code (b83b6cc09 `bounded_gather` holds a permit; 2f78d4573
`cancel_on_error` cancels and awaits every unfinished task; 426463a22 `OnlineBoundedGather2._shutdown` waits for the tasks it
cancels; 316170afa the pool shuts down when its exit wait is cancelled): the corresponding clauses are theorems about the current model, and the pre-repair behaviour is kept as
`startOld / stepOld` with the refutations on the old witnesses.  One clause is still FALSE for the code as it is: the bound (finding F4: the permit that
`WithoutSemaphore` does not re-acquire on error).  It is kept at full strength as a `def … : Prop`, refuted on its minimal witness
(the one the check replays on the real code and `known_findings.json` lists) and proved in the strongest form that does hold
(`running_le_bound_partial`).
-/
namespace HailVerif.C20
open HailVerif.Gather

/-- the state after schedule `ops` of helper `fl`, entered as `en`, on a semaphore created with `n` permits -/
def run (fl : Flavour) (en : Entry) (n : Nat) (outs : List Outcome) (ops : List Op) : Option State :=
  runFrom (start fl en n outs) ops

/-- the same for the code before the three repairs -/
def runOld (fl : Flavour) (en : Entry) (n : Nat) (outs : List Outcome) (ops : List Op) : Option State :=
  runFromWith stepOld (startOld fl en n outs) ops

theorem run_reach {fl : Flavour} {en : Entry} {n : Nat} {outs : List Outcome} {ops : List Op} {s : State}
    (h : run fl en n outs ops = some s) : Reach fl en n outs s ops := by
  have := runFrom_reach ops Reach.init h
  simpa using this

variable (fl : Flavour) (en : Entry) (n : Nat) (outs : List Outcome) (ops : List Op) (s : State)

/-! ## the bound -/

/-- Permit accounting, after every step: bodies running + free permits is exactly `budget n s` — `n`, minus the caller's permit
while the body of an online pool holds it, plus one after a raising helper has raised (finding F4, see `budget`). -/
theorem permits_accounted (hn : 1 ≤ n) (h : run fl en n outs ops = some s) : nRunning s.st + s.free = budget n s :=
  reach_budget hn (run_reach h)

/-- Never more than `n + 1` bodies at once. -/
theorem running_le_bound_plus_one (hn : 1 ≤ n) (h : run fl en n outs ops = some s) : nRunning s.st ≤ n + 1 := by
  have := permits_accounted fl en n outs ops s hn h
  have hb : budget n s ≤ n + 1 := by
    unfold budget; split <;> omega
  omega

/-- The bound at full strength: never more bodies at once than the semaphore has permits. -/
def RunningLeBound : Prop :=
  ∀ (fl : Flavour) (en : Entry) (n : Nat) (outs : List Outcome) (ops : List Op) (s : State),
    1 ≤ n → run fl en n outs ops = some s → nRunning s.st ≤ n

/-- Still FALSE (open finding F4): `Semaphore(1)` held by the caller, `bounded_gather2` of `[raise, ok, ok]`; after task 0 fails
`WithoutSemaphore.__aexit__` does not re-acquire, the caller's `async with sema:` releases once more, and two bodies run. -/
theorem running_le_bound_fails_after_error : ¬ RunningLeBound := by
  intro h
  have := h .raiseFirst .holdingPermit 1 [.raise 0, .ret 0, .ret 0] [.finish 0] _ (by decide) rfl
  revert this; decide

/-- What does hold, for `bounded_gather2`/the pool called by a permit holder and for `bounded_gather(parallelism=n)` alike: at most
`n` bodies run at once, at every step — always for `return_exceptions`, `cancel_on_error=True` and the online pool, and for
`cancel_on_error=False` as long as the helper has not raised. -/
theorem running_le_bound_partial (hn : 1 ≤ n) (h : run fl en n outs ops = some s)
    (hok : fl ≠ .raiseFirst ∨ ∀ x, s.helper ≠ .raised x) : nRunning s.st ≤ n := by
  have hr := run_reach h
  have := permits_accounted fl en n outs ops s hn h
  obtain ⟨⟨h1, _, _⟩, hC, _, _⟩ := reach_all hr
  cases hh : s.helper with
  | raised e =>
    cases fl with
    | raiseFirst => rcases hok with hok | hok
                    · exact absurd rfl hok
                    · exact absurd hh (hok e)
    | returnExceptions => have := allDone_nRunning _ (hC.rxRaised h1 e hh).1; omega
    | raiseCancel => have := allDone_nRunning _ (hC.rcRaised h1 e hh); omega
    | online => have : budget n s = n := by simp [budget, h1, hh]
                omega
  | exitCancelled => have := allDone_nRunning _ (hC.exitCancelledDone hh).2; omega
  | active => have : budget n s ≤ n := by unfold budget; rw [h1, hh]; cases fl <;> simp
              omega
  | exiting => have : budget n s ≤ n := by unfold budget; rw [h1, hh]; cases fl <;> simp
               omega
  | returned sl => have : budget n s ≤ n := by unfold budget; rw [h1, hh]; cases fl <;> simp
                   omega

/-- The permit that is not re-acquired (F4) is also lost when the exit of the online pool is cancelled — but there every task is
finished, so it does not show as a bound violation of this pool: after a cancelled exit the semaphore has `n + 1` free permits. -/
theorem cancelled_exit_leaks_a_permit (hn : 1 ≤ n) (h : run fl en n outs ops = some s) (hx : s.helper = .exitCancelled) :
    s.free = n + 1 := by
  have := permits_accounted fl en n outs ops s hn h
  obtain ⟨_, hC, _, _⟩ := reach_all (run_reach h)
  have h0 := allDone_nRunning _ (hC.exitCancelledDone hx).2
  have : budget n s = n + 1 := by simp [budget, hx]
  omega

/-- The repaired defect F1, kept as a witness: before b83b6cc09 `bounded_gather(pf, pf, parallelism=1)` ran both bodies at once
(the fresh `Semaphore(1)` got a second permit from `WithoutSemaphore.__aenter__`). -/
theorem bounded_gather_bound_failed_before_repair :
    ¬ (∀ (fl : Flavour) (n : Nat) (outs : List Outcome) (ops : List Op) (s : State),
        1 ≤ n → runOld fl .boundedGather n outs ops = some s → nRunning s.st ≤ n) := by
  intro h
  have := h .returnExceptions 1 [.ret 0, .ret 0] [] _ (by decide) rfl
  revert this; decide

/-! ## results -/

/-- Submission order: whenever a helper returns, the list it returns is the scripted outcomes in submission order (values; for
`return_exceptions` the pairs `(v, None)` / `(None, e)`, a body that ended in `CancelledError` giving `(None, CancelledError)`). -/
theorem results_in_submission_order (h : run fl en n outs ops = some s) (sl : List Res) (hret : s.helper = .returned sl) :
    sl = outs.map resOf := by
  obtain ⟨⟨_, _, h3⟩, hC, _, _⟩ := reach_all (run_reach h)
  obtain ⟨rfl, had, hexc⟩ := hC.ret sl hret
  rw [← h3]
  exact map_slotOf_eq s.st s.outs hC.len had (hC.strict hexc (by intro e he; simp [hret] at he))

/-- Exact result pairs: a partial function that RETURNS `None` or an exception INSTANCE as its value (it does not raise) fills its
slot in the VALUE position — `Res.okObj o`, for `return_exceptions` the pair `(obj, None)` — which is a different slot from the
one of a function that raised that exception (`Res.err e` / `Res.cancelled`, the pair `(None, exc)`): results are told apart by
how the body ended, never by the type of the object. -/
theorem returned_object_is_a_value (h : run fl en n outs ops = some s) (sl : List Res) (hret : s.helper = .returned sl)
    (i : Nat) (o : Obj) (ho : outs[i]? = some (.retObj o)) :
    sl[i]? = some (.okObj o) ∧ (∀ e, sl[i]? ≠ some (.err e)) ∧ sl[i]? ≠ some .cancelled := by
  have := results_in_submission_order fl en n outs ops s h sl hret
  subst this
  simp [ho, resOf]

/-- The error contract, for every helper: one that has raised, raised the FIRST exception in schedule order that it gets to see
(`firstErr`: a task's exception — a body ending in `CancelledError` counts for the raising helpers, is stored in place by
`return_exceptions` and swallowed by the online pool —, the online body's exception, the cancellation of the caller); one that
returned saw none. -/
theorem raised_is_first_exception (h : run fl en n outs ops = some s) :
    (∀ x, s.helper = .raised x → firstErr fl outs ops = some x) ∧ (∀ sl, s.helper = .returned sl → firstErr fl outs ops = none) := by
  obtain ⟨⟨h1, _, _⟩, hC, hS, _⟩ := reach_all (run_reach h)
  constructor
  · intro x he; rw [← hS]; simp [errSeen, he]
  · intro sl he
    rw [← hS]
    cases fl <;> simp [errSeen, he, h1, (hC.ret sl he).2.2]

/-- `return_exceptions`: the helper raises nothing but the `CancelledError` of its own cancelled caller, and a returned list has one
slot per task, each the value or the exception of that task. -/
theorem return_exceptions_total (h : run .returnExceptions en n outs ops = some s) :
    (∀ x, s.helper = .raised x → x = .cancelled ∧ Op.cancelCaller ∈ ops) ∧
    ∀ sl, s.helper = .returned sl →
      sl.length = outs.length ∧ ∀ (i : Nat) (o : Outcome), outs[i]? = some o → sl[i]? = some (resOf o) := by
  constructor
  · intro x hx
    have h1 := (raised_is_first_exception .returnExceptions en n outs ops s h).1 x hx
    obtain ⟨⟨hfl, _, _⟩, hC, _, _⟩ := reach_all (run_reach h)
    have hc : x = .cancelled := (hC.rxRaised hfl x hx).2
    subst hc
    exact ⟨rfl, firstErr_cancelled_caller .returnExceptions (Or.inl rfl) outs ops h1⟩
  · intro sl hret
    have := results_in_submission_order .returnExceptions en n outs ops s h sl hret
    subst this
    exact ⟨by simp, by intro i o ho; simp [ho]⟩

/-- The raising helpers (`cancel_on_error` or not): the exception raised is the first one in schedule order. -/
theorem raise_is_first (h : run fl en n outs ops = some s) (x : Exn) (hr : s.helper = .raised x) :
    firstErr fl outs ops = some x :=
  (raised_is_first_exception fl en n outs ops s h).1 x hr

/-- `OnlineBoundedGather2`: the exit raises the first exception in schedule order — of a task, of the body, or the cancellation of
the caller — and later ones are discarded; it returns normally only if there was none. -/
theorem first_exception_wins (h : run .online en n outs ops = some s) :
    (∀ x, s.helper = .raised x → firstErr .online outs ops = some x) ∧
      (∀ sl, s.helper = .returned sl → firstErr .online outs ops = none) :=
  raised_is_first_exception .online en n outs ops s h

/-! ## nothing left running -/

/-- After a normal return every task is finished, and none was unfinished at the instant of the return. -/
theorem none_running_after_return (h : run fl en n outs ops = some s) (sl : List Res) (hret : s.helper = .returned sl) :
    allDone s.st = true ∧ s.pendingAtReturn = 0 := by
  obtain ⟨_, hC, _, hP⟩ := reach_all (run_reach h)
  refine ⟨(hC.ret sl hret).2.1, ?_⟩
  apply Classical.byContradiction
  intro hne
  obtain ⟨⟨e, he⟩, _⟩ := hP hne
  simp [hret] at he

/-- `cancel_on_error=True`: once the helper has raised — because a task failed, because a task ended in `CancelledError`, or because
its own caller was cancelled — every task is finished: the unfinished ones were cancelled AND awaited, none was pending at the
instant the helper raised. -/
theorem cancel_on_error_cancels_rest (h : run .raiseCancel en n outs ops = some s) (x : Exn) (hr : s.helper = .raised x) :
    allDone s.st = true ∧ s.pendingAtReturn = 0 := by
  obtain ⟨⟨h1, _, _⟩, hC, _, hP⟩ := reach_all (run_reach h)
  refine ⟨hC.rcRaised h1 x hr, ?_⟩
  apply Classical.byContradiction
  intro hne
  have := (hP hne).2
  simp [h1] at this

/-- `return_exceptions` whose caller is cancelled: `asyncio.gather` cancels every task and the helper raises only when all of them
are finished. -/
theorem return_exceptions_cancelled_leaves_nothing (h : run .returnExceptions en n outs ops = some s) (x : Exn)
    (hr : s.helper = .raised x) : allDone s.st = true ∧ s.pendingAtReturn = 0 := by
  obtain ⟨⟨h1, _, _⟩, hC, _, hP⟩ := reach_all (run_reach h)
  refine ⟨(hC.rxRaised h1 x hr).1, ?_⟩
  apply Classical.byContradiction
  intro hne
  have := (hP hne).2
  simp [h1] at this

/-- `OnlineBoundedGather2`: once the `async with` block has been left — normally, because a task failed, because the body raised, or
because the caller was cancelled in the body or inside `__aexit__` — every task is finished and none was pending at that instant. -/
theorem pending_empty_at_exit (h : run .online en n outs ops = some s) (hleft : s.helper ≠ .active ∧ s.helper ≠ .exiting) :
    allDone s.st = true ∧ s.pendingAtReturn = 0 := by
  obtain ⟨⟨h1, _, _⟩, hC, _, hP⟩ := reach_all (run_reach h)
  constructor
  · cases hh : s.helper with
    | active => exact absurd hh hleft.1
    | exiting => exact absurd hh hleft.2
    | returned sl => exact (hC.ret sl hh).2.1
    | raised x => exact (hC.excOnline x (hC.raisedExc h1 x hh)).2
    | exitCancelled => exact (hC.exitCancelledDone hh).2
  · apply Classical.byContradiction
    intro hne
    have := (hP hne).2
    simp [h1] at this

/-- The exit of the pool raises `CancelledError` out of its wait only when the caller was cancelled. -/
theorem exit_cancelled_only_by_caller (h : run fl en n outs ops = some s) (ha : s.helper = .exitCancelled) :
    fl = .online ∧ Op.cancelCaller ∈ ops := by
  obtain ⟨⟨h1, _, _⟩, hC, hS, _⟩ := reach_all (run_reach h)
  have hfl : fl = .online := h1 ▸ (hC.exitCancelledDone ha).1
  refine ⟨hfl, ?_⟩
  subst hfl
  exact firstErr_cancelled_caller .online (Or.inr rfl) outs ops (by rw [← hS]; simp [errSeen, ha])

/-- Only `cancel_on_error=False` — by its documentation — leaves tasks running when it raises. -/
theorem unfinished_at_return_only_without_cancel (h : run fl en n outs ops = some s) (hne : s.pendingAtReturn ≠ 0) :
    fl = .raiseFirst ∧ ∃ x, s.helper = .raised x := by
  obtain ⟨⟨h1, _, _⟩, _, _, hP⟩ := reach_all (run_reach h)
  obtain ⟨he, hf⟩ := hP hne
  exact ⟨h1 ▸ hf, he⟩

/-- The repaired defect F5, kept as a witness: before 316170afa, one task submitted, the body ends, and while `__aexit__` waits the
caller is cancelled: `await self._done_event.wait()` raised `CancelledError` straight out of `__aexit__`; the task was neither
cancelled nor awaited and kept running after the block was left. -/
theorem pool_exit_cancelled_failed_before_repair :
    ¬ (∀ (en : Entry) (n : Nat) (outs : List Outcome) (ops : List Op) (s : State),
        1 ≤ n → runOld .online en n outs ops = some s → (s.helper ≠ .active ∧ s.helper ≠ .exiting) → allDone s.st = true) := by
  intro h
  have := h .holdingPermit 1 [.ret 0] [.body (.ret 0), .cancelCaller] _ (by decide) rfl (by decide)
  revert this; decide

/-- F5, second face (with F4): before 316170afa two abandoned tasks ran at once under a one-permit semaphore. -/
theorem pool_exit_cancelled_bound_failed_before_repair :
    ¬ (∀ (n : Nat) (outs : List Outcome) (ops : List Op) (s : State),
        1 ≤ n → runOld .online .holdingPermit n outs ops = some s → nRunning s.st ≤ n) := by
  intro h
  have := h 1 [.ret 0, .ret 0] [.body (.ret 0), .cancelCaller] _ (by decide) rfl
  revert this; decide

/-- The repaired defect F2, kept as a witness: before 2f78d4573, tasks `[raise, ok]` on a `Semaphore(1)` held by the caller; task 0
fails, the clean-up loop re-raised at the failed task and task 1 was never cancelled: running after the helper raised. -/
theorem cancel_on_error_failed_before_repair :
    ¬ (∀ (en : Entry) (n : Nat) (outs : List Outcome) (ops : List Op) (s : State) (x : Exn),
        1 ≤ n → runOld .raiseCancel en n outs ops = some s → s.helper = .raised x → allDone s.st = true) := by
  intro h
  have := h .holdingPermit 1 [.raise 0, .ret 0] [.finish 0] _ (.code 0) (by decide) rfl rfl
  revert this; decide

/-- F2, second face: tasks `[ok, raise]`, task 1 fails; task 0 was cancelled but not awaited — unfinished at the instant the helper
raised. -/
theorem cancel_on_error_await_failed_before_repair :
    ¬ (∀ (en : Entry) (n : Nat) (outs : List Outcome) (ops : List Op) (s : State) (x : Exn),
        1 ≤ n → runOld .raiseCancel en n outs ops = some s → s.helper = .raised x → s.pendingAtReturn = 0) := by
  intro h
  have := h .holdingPermit 2 [.ret 0, .raise 0] [.finish 1] _ (.code 0) (by decide) rfl rfl
  revert this; decide

/-- The repaired defect F3, kept as a witness: before 426463a22, one task submitted, the body raises: `_shutdown()` cancelled the
task without waiting for it and the exit raised while it was still pending. -/
theorem pending_empty_at_exit_failed_before_repair :
    ¬ (∀ (en : Entry) (n : Nat) (outs : List Outcome) (ops : List Op) (s : State),
        1 ≤ n → runOld .online en n outs ops = some s → (s.helper ≠ .active ∧ s.helper ≠ .exiting) → s.pendingAtReturn = 0) := by
  intro h
  have := h .holdingPermit 1 [.ret 0] [.body (.raise 0)] _ (by decide) rfl (by decide)
  revert this; decide

/-! ## non-vacuity: the runs behind the witnesses, and ordinary ones -/

-- bound 2 held by the caller, 3 tasks, completion order 1,0,2: never more than 2 running, results in submission order
example : run .returnExceptions .holdingPermit 2 [.ret 1, .raise 2, .ret 3] [.finish 1, .finish 0, .finish 2]
    = some ⟨.returnExceptions, .holdingPermit, [.ret 1, .raise 2, .ret 3], [.done (.ok 1), .done (.err 2), .done (.ok 3)], 2,
        .returned [.ok 1, .err 2, .ok 3], none, 0⟩ := by decide
-- bounded_gather(parallelism=1), two tasks: one runs, one waits (before the repair F1: both ran)
example : (start .returnExceptions .boundedGather 1 [.ret 0, .ret 0]).st = [.running, .queued] := by decide
example : (startOld .returnExceptions .boundedGather 1 [.ret 0, .ret 0]).st = [.running, .running] := by decide
-- cancel_on_error, failing task first: task 1 is cancelled too and nothing is pending when the helper raises (before F2: running)
example : run .raiseCancel .holdingPermit 1 [.raise 0, .ret 0] [.finish 0]
    = some ⟨.raiseCancel, .holdingPermit, [.raise 0, .ret 0], [.done (.err 0), .done .cancelled], 2, .raised (.code 0), none, 0⟩ := by decide
example : runOld .raiseCancel .holdingPermit 1 [.raise 0, .ret 0] [.finish 0]
    = some ⟨.raiseCancel, .holdingPermit, [.raise 0, .ret 0], [.done (.err 0), .running], 1, .raised (.code 0), none, 1⟩ := by decide
-- failing task last: task 0 is cancelled and awaited (before F2: 1 task unfinished when the helper raised)
example : run .raiseCancel .holdingPermit 2 [.ret 0, .raise 0] [.finish 1]
    = some ⟨.raiseCancel, .holdingPermit, [.ret 0, .raise 0], [.done .cancelled, .done (.err 0)], 3, .raised (.code 0), none, 0⟩ := by
  decide
example : runOld .raiseCancel .holdingPermit 2 [.ret 0, .raise 0] [.finish 1]
    = some ⟨.raiseCancel, .holdingPermit, [.ret 0, .raise 0], [.done .cancelled, .done (.err 0)], 3, .raised (.code 0), none, 1⟩ := by
  decide
-- online pool, body raises: the task is cancelled and awaited (before F3: unfinished (1) when the exit raised)
example : run .online .holdingPermit 1 [.ret 0] [.body (.raise 0)]
    = some ⟨.online, .holdingPermit, [.ret 0], [.done .cancelled], 1, .raised (.code 0), some (.code 0), 0⟩ := by decide
example : runOld .online .holdingPermit 1 [.ret 0] [.body (.raise 0)]
    = some ⟨.online, .holdingPermit, [.ret 0], [.done .cancelled], 1, .raised (.code 0), some (.code 0), 1⟩ := by decide
-- F4 (open): after the error two bodies run under a one-permit semaphore
example : run .raiseFirst .holdingPermit 1 [.raise 0, .ret 0, .ret 0] [.finish 0]
    = some ⟨.raiseFirst, .holdingPermit, [.raise 0, .ret 0, .ret 0], [.done (.err 0), .running, .running], 0, .raised (.code 0), none,
        2⟩ := by decide
-- online pool: a task fails while the body is still running, the body's own later exception is discarded
example : run .online .holdingPermit 2 [.ret 1, .raise 7, .ret 3] [.finish 0, .finish 1, .body (.raise 9)]
    = some ⟨.online, .holdingPermit, [.ret 1, .raise 7, .ret 3], [.done (.ok 1), .done (.err 7), .done .cancelled], 2,
        .raised (.code 7), some (.code 7), 0⟩ := by decide
-- a body ending in CancelledError: stored in place by return_exceptions, raised (and the rest cancelled) by cancel_on_error
example : run .returnExceptions .holdingPermit 2 [.ret 1, .cancel] [.finish 1, .finish 0]
    = some ⟨.returnExceptions, .holdingPermit, [.ret 1, .cancel], [.done (.ok 1), .done .cancelled], 2,
        .returned [.ok 1, .cancelled], none, 0⟩ := by decide
example : run .raiseCancel .holdingPermit 2 [.ret 1, .cancel, .ret 3] [.finish 1]
    = some ⟨.raiseCancel, .holdingPermit, [.ret 1, .cancel, .ret 3], [.done .cancelled, .done .cancelled, .done .cancelled], 3,
        .raised .cancelled, none, 0⟩ := by decide
-- the caller of a gather is cancelled: every task is cancelled, the helper raises CancelledError with nothing pending
example : run .raiseFirst .holdingPermit 2 [.ret 1, .ret 2, .ret 3] [.cancelCaller]
    = some ⟨.raiseFirst, .holdingPermit, [.ret 1, .ret 2, .ret 3], [.done .cancelled, .done .cancelled, .done .cancelled], 3,
        .raised .cancelled, none, 0⟩ := by decide
-- the caller is cancelled inside the BODY of the pool: shut down, cancelled and awaited
example : run .online .holdingPermit 2 [.ret 1, .ret 2] [.cancelCaller]
    = some ⟨.online, .holdingPermit, [.ret 1, .ret 2], [.done .cancelled, .done .cancelled], 2, .raised .cancelled,
        some .cancelled, 0⟩ := by decide
-- the caller is cancelled inside the pool's __aexit__: the pool is shut down first (before F5's repair: the task kept running)
example : run .online .holdingPermit 1 [.ret 0] [.body (.ret 0), .cancelCaller]
    = some ⟨.online, .holdingPermit, [.ret 0], [.done .cancelled], 2, .exitCancelled, some .cancelled, 0⟩ := by decide
example : runOld .online .holdingPermit 1 [.ret 0] [.body (.ret 0), .cancelCaller]
    = some ⟨.online, .holdingPermit, [.ret 0], [.running], 1, .exitCancelled, none, 1⟩ := by decide
-- a body that RETURNS an exception instance (and one returning None) next to one that RAISES the same exception: different slots
example : run .returnExceptions .holdingPermit 3 [.retObj (.exn (.code 5)), .raise 5, .retObj .none] [.finish 0, .finish 1, .finish 2]
    = some ⟨.returnExceptions, .holdingPermit, [.retObj (.exn (.code 5)), .raise 5, .retObj .none],
        [.done (.okObj (.exn (.code 5))), .done (.err 5), .done (.okObj .none)], 3,
        .returned [.okObj (.exn (.code 5)), .err 5, .okObj .none], none, 0⟩ := by decide
-- returned exception objects are values for the raising helpers and the pool too: nothing is raised, nothing is cancelled
example : run .raiseCancel .holdingPermit 2 [.retObj (.exn .cancelled), .ret 1] [.finish 0, .finish 1]
    = some ⟨.raiseCancel, .holdingPermit, [.retObj (.exn .cancelled), .ret 1], [.done (.okObj (.exn .cancelled)), .done (.ok 1)], 2,
        .returned [.okObj (.exn .cancelled), .ok 1], none, 0⟩ := by decide
-- not a behaviour: finishing a task that is still waiting for a permit
example : run .raiseFirst .holdingPermit 1 [.ret 0, .ret 0] [.finish 1] = none := by decide

end HailVerif.C20

import HailVerif.Proofs.Gather
/-!
# C20 — Bounded gather respects its bound and its error contract

Subject: `HailVerif.Gather.start/step`, the model of `bounded_gather`, `bounded_gather2[_return_exceptions|_raise_exceptions]`,
`WithoutSemaphore` and `OnlineBoundedGather2` (hail/python/hailtop/utils/utils.py) whose steps are what happens between two
quiescent states of the event loop; tied to the real helpers by the correspondence check `harness/props/c20.py`.
`asyncio.gather/wait/shield/Semaphore/Event/Task.cancel` are modelled from their documented behaviour (the property is *partial*
in that sense).

Every theorem quantifies over ALL schedules `ops` (all completion orders of the task bodies and, for the online pool, the moment
its body ends), all failure patterns `outs`, all semaphore sizes `n ≥ 1`, any number of tasks: `run fl en n outs ops = some s`
says `s` is the state after the whole schedule; every prefix of a schedule is a schedule, so this is "after every step".

Three defects found by this check were repaired in the code (b83b6cc09 `bounded_gather` holds a permit; 2f78d4573
`cancel_on_error` cancels and awaits every unfinished task; 426463a22 `OnlineBoundedGather2._shutdown` waits for the tasks it
cancels): the corresponding clauses are now full-strength theorems about the current model, and the pre-repair behaviour is kept as
`startOld / stepOld` with the refutations on the old witnesses.  One clause is still FALSE for the code as it is (finding F4, the
permit that `WithoutSemaphore` does not re-acquire on error): it is kept at full strength as a `def … : Prop`, refuted on its
minimal witness (the one the check replays on the real code and `known_findings.json` lists) and proved in the strongest form that
does hold (`running_le_bound_partial`).
-/
namespace HailVerif.C20
open HailVerif.Gather

/-- the state after schedule `ops` of helper `fl`, entered as `en`, on a semaphore created with `n` permits -/
def run (fl : Flavour) (en : Entry) (n : Nat) (outs : List Outcome) (ops : List Op) : Option State :=
  runFrom (start fl en n outs) ops

/-- the same for the code before the three repairs -/
def runOld (fl : Flavour) (en : Entry) (n : Nat) (outs : List Outcome) (ops : List Op) : Option State :=
  runFromWith stepOld (startOld fl en n outs) ops

theorem run_reach {fl : Flavour} {en : Entry} {n : Nat} {outs : List Outcome} {ops : List Op} {s : State}
    (h : run fl en n outs ops = some s) : Reach fl en n outs s ops := by
  have := runFrom_reach ops Reach.init h
  simpa using this

variable (fl : Flavour) (en : Entry) (n : Nat) (outs : List Outcome) (ops : List Op) (s : State)

/-! ## the bound -/

/-- Permit accounting, after every step: bodies running + free permits is exactly `budget n s` — `n`, minus the caller's permit
while the body of an online pool holds it, plus one after a raising helper has raised (finding F4, see `budget`). -/
theorem permits_accounted (hn : 1 ≤ n) (h : run fl en n outs ops = some s) : nRunning s.st + s.free = budget n s :=
  reach_budget hn (run_reach h)

/-- Never more than `n + 1` bodies at once. -/
theorem running_le_bound_plus_one (hn : 1 ≤ n) (h : run fl en n outs ops = some s) : nRunning s.st ≤ n + 1 := by
  have := permits_accounted fl en n outs ops s hn h
  have hb : budget n s ≤ n + 1 := by
    unfold budget; split <;> omega
  omega

/-- The bound at full strength: never more bodies at once than the semaphore has permits. -/
def RunningLeBound : Prop :=
  ∀ (fl : Flavour) (en : Entry) (n : Nat) (outs : List Outcome) (ops : List Op) (s : State),
    1 ≤ n → run fl en n outs ops = some s → nRunning s.st ≤ n

/-- Still FALSE (open finding F4): `Semaphore(1)` held by the caller, `bounded_gather2` of `[raise, ok, ok]`; after task 0 fails
`WithoutSemaphore.__aexit__` does not re-acquire, the caller's `async with sema:` releases once more, and two bodies run. -/
theorem running_le_bound_fails_after_error : ¬ RunningLeBound := by
  intro h
  have := h .raiseFirst .holdingPermit 1 [.raise 0, .ret 0, .ret 0] [.finish 0] _ (by decide) rfl
  revert this; decide

/-- What does hold, for `bounded_gather2`/the pool called by a permit holder and for `bounded_gather(parallelism=n)` alike: at most
`n` bodies run at once, at every step — always for `return_exceptions`, `cancel_on_error=True` and the online pool, and for
`cancel_on_error=False` as long as the helper has not raised. -/
theorem running_le_bound_partial (hn : 1 ≤ n) (h : run fl en n outs ops = some s)
    (hok : fl ≠ .raiseFirst ∨ ∀ e, s.helper ≠ .raised e) : nRunning s.st ≤ n := by
  have hr := run_reach h
  have := permits_accounted fl en n outs ops s hn h
  obtain ⟨⟨h1, _, _⟩, hC, _, _⟩ := reach_all hr
  cases hh : s.helper with
  | raised e =>
    cases fl with
    | raiseFirst => rcases hok with hok | hok
                    · exact absurd rfl hok
                    · exact absurd hh (hok e)
    | returnExceptions => exact absurd hh (hC.rxNoRaise h1 e)
    | raiseCancel => have := allDone_nRunning _ (hC.rcRaised h1 e hh); omega
    | online => have : budget n s = n := by simp [budget, h1, hh]
                omega
  | active => have : budget n s ≤ n := by unfold budget; rw [h1, hh]; cases fl <;> simp
              omega
  | exiting => have : budget n s ≤ n := by unfold budget; rw [h1, hh]; cases fl <;> simp
               omega
  | returned sl => have : budget n s ≤ n := by unfold budget; rw [h1, hh]; cases fl <;> simp
                   omega

/-- The repaired defect F1, kept as a witness: before b83b6cc09 `bounded_gather(pf, pf, parallelism=1)` ran both bodies at once
(the fresh `Semaphore(1)` got a second permit from `WithoutSemaphore.__aenter__`). -/
theorem bounded_gather_bound_failed_before_repair :
    ¬ (∀ (fl : Flavour) (n : Nat) (outs : List Outcome) (ops : List Op) (s : State),
        1 ≤ n → runOld fl .boundedGather n outs ops = some s → nRunning s.st ≤ n) := by
  intro h
  have := h .returnExceptions 1 [.ret 0, .ret 0] [] _ (by decide) rfl
  revert this; decide

/-! ## results -/

/-- Submission order: whenever a helper returns, the list it returns is the scripted outcomes in submission order (values; for
`return_exceptions` the pairs `(v, None)` / `(None, e)`). -/
theorem results_in_submission_order (h : run fl en n outs ops = some s) (sl : List Res) (hret : s.helper = .returned sl) :
    sl = outs.map resOf := by
  obtain ⟨⟨_, _, h3⟩, hC, _, _⟩ := reach_all (run_reach h)
  obtain ⟨rfl, had, hexc⟩ := hC.ret sl hret
  rw [← h3]
  exact map_slotOf_eq s.st s.outs hC.len had hC.agree (hC.nocancel hexc (by intro e he; simp [hret] at he))

/-- `return_exceptions`: the helper never raises, and a returned list has one slot per task, each the value or the exception of
that task (never a cancellation). -/
theorem return_exceptions_total (h : run .returnExceptions en n outs ops = some s) :
    (∀ e, s.helper ≠ .raised e) ∧
    ∀ sl, s.helper = .returned sl → sl.length = outs.length ∧ ∀ (i : Nat) (o : Outcome), outs[i]? = some o → sl[i]? = some (resOf o) := by
  obtain ⟨⟨h1, _, _⟩, hC, _, _⟩ := reach_all (run_reach h)
  refine ⟨hC.rxNoRaise h1, ?_⟩
  intro sl hret
  have := results_in_submission_order .returnExceptions en n outs ops s h sl hret
  subst this
  exact ⟨by simp, by intro i o ho; simp [ho]⟩

/-- The error contract: a raising helper that has raised, raised the FIRST exception in schedule order; one that returned saw
no exception. -/
theorem raise_is_first (hfl : fl = .raiseFirst ∨ fl = .raiseCancel) (h : run fl en n outs ops = some s) :
    (∀ e, s.helper = .raised e → firstErr outs ops = some e) ∧ (∀ sl, s.helper = .returned sl → firstErr outs ops = none) := by
  obtain ⟨⟨h1, _, _⟩, _, hS, _⟩ := reach_all (run_reach h)
  have hS' := hS (by rcases hfl with rfl | rfl <;> simp)
  constructor
  · intro e he
    rw [← hS']
    rcases hfl with rfl | rfl <;> simp [errSeen, h1, he]
  · intro sl he
    rw [← hS']
    rcases hfl with rfl | rfl <;> simp [errSeen, h1, he]

/-- `OnlineBoundedGather2`: the exit raises the first exception in schedule order — of a task or of the body — and later ones
are discarded; it returns normally only if there was none. -/
theorem first_exception_wins (h : run .online en n outs ops = some s) :
    (∀ e, s.helper = .raised e → firstErr outs ops = some e) ∧ (∀ sl, s.helper = .returned sl → firstErr outs ops = none) := by
  obtain ⟨⟨h1, _, _⟩, hC, hS, _⟩ := reach_all (run_reach h)
  have hS' := hS (by simp)
  constructor
  · intro e he
    rw [← hS']; simp [errSeen, h1, hC.raisedExc h1 e he]
  · intro sl he
    rw [← hS']; simp [errSeen, h1, (hC.ret sl he).2.2]

/-! ## nothing left running -/

/-- After a normal return every task is finished, and none was unfinished at the instant of the return. -/
theorem none_running_after_return (h : run fl en n outs ops = some s) (sl : List Res) (hret : s.helper = .returned sl) :
    allDone s.st = true ∧ s.pendingAtReturn = 0 := by
  obtain ⟨_, hC, _, hP⟩ := reach_all (run_reach h)
  refine ⟨(hC.ret sl hret).2.1, ?_⟩
  apply Classical.byContradiction
  intro hne
  obtain ⟨⟨e, he⟩, _⟩ := hP hne
  simp [hret] at he

/-- `cancel_on_error=True`: once the helper has raised, every task is finished — the unfinished ones were cancelled AND awaited:
none was pending at the instant the helper raised. -/
theorem cancel_on_error_cancels_rest (h : run .raiseCancel en n outs ops = some s) (e : Nat) (hr : s.helper = .raised e) :
    allDone s.st = true ∧ s.pendingAtReturn = 0 := by
  obtain ⟨⟨h1, _, _⟩, hC, _, hP⟩ := reach_all (run_reach h)
  refine ⟨hC.rcRaised h1 e hr, ?_⟩
  apply Classical.byContradiction
  intro hne
  have := (hP hne).2
  simp [h1] at this

/-- `OnlineBoundedGather2`: when the `async with` block has been left — normally, because a task failed, or because the body
raised — every task is finished and none was pending at the instant of the exit. -/
theorem pending_empty_at_exit (h : run .online en n outs ops = some s) (hleft : s.helper ≠ .active ∧ s.helper ≠ .exiting) :
    allDone s.st = true ∧ s.pendingAtReturn = 0 := by
  obtain ⟨⟨h1, _, _⟩, hC, _, hP⟩ := reach_all (run_reach h)
  constructor
  · cases hh : s.helper with
    | active => exact absurd hh hleft.1
    | exiting => exact absurd hh hleft.2
    | returned sl => exact (hC.ret sl hh).2.1
    | raised e => exact (hC.excOnline e (hC.raisedExc h1 e hh)).2
  · apply Classical.byContradiction
    intro hne
    have := (hP hne).2
    simp [h1] at this

/-- Only `cancel_on_error=False` — by its documentation — leaves tasks running when it raises. -/
theorem unfinished_at_return_only_without_cancel (h : run fl en n outs ops = some s) (hne : s.pendingAtReturn ≠ 0) :
    fl = .raiseFirst ∧ ∃ e, s.helper = .raised e := by
  obtain ⟨⟨h1, _, _⟩, _, _, hP⟩ := reach_all (run_reach h)
  obtain ⟨he, hf⟩ := hP hne
  exact ⟨h1 ▸ hf, he⟩

/-- The repaired defect F2, kept as a witness: before 2f78d4573, tasks `[raise, ok]` on a `Semaphore(1)` held by the caller; task 0
fails, the clean-up loop re-raised at the failed task and task 1 was never cancelled: running after the helper raised. -/
theorem cancel_on_error_failed_before_repair :
    ¬ (∀ (en : Entry) (n : Nat) (outs : List Outcome) (ops : List Op) (s : State) (e : Nat),
        1 ≤ n → runOld .raiseCancel en n outs ops = some s → s.helper = .raised e → allDone s.st = true) := by
  intro h
  have := h .holdingPermit 1 [.raise 0, .ret 0] [.finish 0] _ 0 (by decide) rfl rfl
  revert this; decide

/-- F2, second face: tasks `[ok, raise]`, task 1 fails; task 0 was cancelled but not awaited — unfinished at the instant the helper
raised. -/
theorem cancel_on_error_await_failed_before_repair :
    ¬ (∀ (en : Entry) (n : Nat) (outs : List Outcome) (ops : List Op) (s : State) (e : Nat),
        1 ≤ n → runOld .raiseCancel en n outs ops = some s → s.helper = .raised e → s.pendingAtReturn = 0) := by
  intro h
  have := h .holdingPermit 2 [.ret 0, .raise 0] [.finish 1] _ 0 (by decide) rfl rfl
  revert this; decide

/-- The repaired defect F3, kept as a witness: before 426463a22, one task submitted, the body raises: `_shutdown()` cancelled the
task without waiting for it and the exit raised while it was still pending. -/
theorem pending_empty_at_exit_failed_before_repair :
    ¬ (∀ (en : Entry) (n : Nat) (outs : List Outcome) (ops : List Op) (s : State),
        1 ≤ n → runOld .online en n outs ops = some s → (s.helper ≠ .active ∧ s.helper ≠ .exiting) → s.pendingAtReturn = 0) := by
  intro h
  have := h .holdingPermit 1 [.ret 0] [.body (.raise 0)] _ (by decide) rfl (by decide)
  revert this; decide

/-! ## non-vacuity: the runs behind the witnesses, and ordinary ones -/

-- bound 2 held by the caller, 3 tasks, completion order 1,0,2: never more than 2 running, results in submission order
example : run .returnExceptions .holdingPermit 2 [.ret 1, .raise 2, .ret 3] [.finish 1, .finish 0, .finish 2]
    = some ⟨.returnExceptions, .holdingPermit, [.ret 1, .raise 2, .ret 3], [.done (.ok 1), .done (.err 2), .done (.ok 3)], 2,
        .returned [.ok 1, .err 2, .ok 3], none, 0⟩ := by decide
-- bounded_gather(parallelism=1), two tasks: one runs, one waits (before the repair F1: both ran)
example : (start .returnExceptions .boundedGather 1 [.ret 0, .ret 0]).st = [.running, .queued] := by decide
example : (startOld .returnExceptions .boundedGather 1 [.ret 0, .ret 0]).st = [.running, .running] := by decide
-- cancel_on_error, failing task first: task 1 is cancelled too and nothing is pending when the helper raises (before F2: running)
example : run .raiseCancel .holdingPermit 1 [.raise 0, .ret 0] [.finish 0]
    = some ⟨.raiseCancel, .holdingPermit, [.raise 0, .ret 0], [.done (.err 0), .done .cancelled], 2, .raised 0, none, 0⟩ := by decide
example : runOld .raiseCancel .holdingPermit 1 [.raise 0, .ret 0] [.finish 0]
    = some ⟨.raiseCancel, .holdingPermit, [.raise 0, .ret 0], [.done (.err 0), .running], 1, .raised 0, none, 1⟩ := by decide
-- failing task last: task 0 is cancelled and awaited (before F2: 1 task unfinished when the helper raised)
example : run .raiseCancel .holdingPermit 2 [.ret 0, .raise 0] [.finish 1]
    = some ⟨.raiseCancel, .holdingPermit, [.ret 0, .raise 0], [.done .cancelled, .done (.err 0)], 3, .raised 0, none, 0⟩ := by
  decide
example : runOld .raiseCancel .holdingPermit 2 [.ret 0, .raise 0] [.finish 1]
    = some ⟨.raiseCancel, .holdingPermit, [.ret 0, .raise 0], [.done .cancelled, .done (.err 0)], 3, .raised 0, none, 1⟩ := by
  decide
-- online pool, body raises: the task is cancelled and awaited (before F3: unfinished (1) when the exit raised)
example : run .online .holdingPermit 1 [.ret 0] [.body (.raise 0)]
    = some ⟨.online, .holdingPermit, [.ret 0], [.done .cancelled], 1, .raised 0, some 0, 0⟩ := by decide
example : runOld .online .holdingPermit 1 [.ret 0] [.body (.raise 0)]
    = some ⟨.online, .holdingPermit, [.ret 0], [.done .cancelled], 1, .raised 0, some 0, 1⟩ := by decide
-- F4 (open): after the error two bodies run under a one-permit semaphore
example : run .raiseFirst .holdingPermit 1 [.raise 0, .ret 0, .ret 0] [.finish 0]
    = some ⟨.raiseFirst, .holdingPermit, [.raise 0, .ret 0, .ret 0], [.done (.err 0), .running, .running], 0, .raised 0, none,
        2⟩ := by decide
-- online pool: a task fails while the body is still running, the body's own later exception is discarded
example : run .online .holdingPermit 2 [.ret 1, .raise 7, .ret 3] [.finish 0, .finish 1, .body (.raise 9)]
    = some ⟨.online, .holdingPermit, [.ret 1, .raise 7, .ret 3], [.done (.ok 1), .done (.err 7), .done .cancelled], 2,
        .raised 7, some 7, 0⟩ := by decide
-- not a behaviour: finishing a task that is still waiting for a permit
example : run .raiseFirst .holdingPermit 1 [.ret 0, .ret 0] [.finish 1] = none := by decide

end HailVerif.C20

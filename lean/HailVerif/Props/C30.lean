import HailVerif.Proofs.CI
/-!
# C30 — CI merges only fully tested, approved, current PRs

Subject: `HailVerif.CI` (`Model/CI.lean`), the model of `WatchedBranch` / `PR` of `ci/ci/github.py` with the batch service in
the state; tied to the real classes by `harness/props/c30.py` (real code driven by fake GitHub / batch services; the
state after every block of the `_update` loop is compared with the model).

`fix = true` is the code as it is (commit aefc231fb: an unfinished current batch resets `build_state` in `PR._update_batch`);
`fix = false` is the code before that commit, kept to document the repaired defect (`…_old…` theorems).

All theorems are about every state reachable from the initial state by ANY history of events (GitHub snapshots with
arbitrary content — only PR numbers are distinct —, failed GitHub refreshes, batch refreshes, heal+merge steps with arbitrary build / merge answers,
batch completions, entry-point flag settings, in any order).
-/
namespace HailVerif.C30
open HailVerif.CI

/-- the state in which `try_to_merge` runs: after the `_heal` part of the block -/
def healed (st : State) (a : Answers) : State := (heal { st with stateChanged := false } a.builds).1

/-- MERGE GUARD: what CI knows about a PR at the moment it sends a merge request (accepted by GitHub or not):
approved, no do-not-merge label, the known required statuses are non-empty and all success, its own build state is `success`
(this is where the `assert` in `is_mergeable` is used: without it the stale SUCCESS status left over from a previous batch would do),
the merge request names the PR's current head, and the PR's batch is a real batch whose `target_sha` is the target branch's sha. -/
theorem merge_guard {fix : Bool} {st : State} (hr : Reachable fix st) (a : Answers) (n : Nat) (sha : Sha) (ok : Bool)
    (h : Out.merge n sha ok ∈ (evHeal st a).2) :
    ∃ p ∈ (healed st a).prs, p.number = n ∧ p.sourceSha = sha ∧ p.review = some .approved ∧ p.labels.blocked = false ∧
      p.statuses ≠ [] ∧ allSuccess p.statuses = true ∧ p.buildState = some .success ∧
      ∃ id t, p.batch = .real id t ∧ (healed st a).sha = some t := by
  unfold evHeal at h
  simp only [List.mem_append] at h
  rcases h with h | h
  · exact absurd (heal_no_merge _ _ _ h) (by simp [Out.isMerge])
  · obtain ⟨p, hp, hn, hs, hm⟩ := tryMerge_out _ _ _ _ _ _ h
    have hp' : p ∈ (healed st a).prs := mem_byPrio.1 hp
    have hprops := heal_props { st with stateChanged := false } a.builds
    -- the target sha is known
    cases hsha : (healed st a).sha with
    | none =>
      have : (heal { st with stateChanged := false } a.builds).1.sha = none := hsha
      rw [this] at hm
      exact absurd hm (mergeable_needs_sha p)
    | some t =>
      have hsha' : (heal { st with stateChanged := false } a.builds).1.sha = some t := hsha
      have hst : ({ st with stateChanged := false } : State).sha = some t := by rw [← hprops.2.2]; exact hsha'
      have hnum : NumsOK st := reachable_numsOK hr
      have hci := heal_hasCi { st with stateChanged := false } a.builds t hst hnum p hp'
      rw [hsha'] at hm
      unfold PR.mergeable at hm
      split at hm
      · simp at hm
      next hcond =>
        simp only [Option.some.injEq, Bool.and_eq_true, Bool.not_eq_true', beq_iff_eq] at hm
        obtain ⟨⟨⟨⟨hrev, hne⟩, hall⟩, hup⟩, hbl⟩ := hm
        -- the CI's own status is among the statuses, hence success, hence build_state is success
        obtain ⟨v, hv⟩ := Option.isSome_iff_exists.1 hci
        have hvs : v = .success := lookup_allSuccess hv hall
        have hbs : p.buildState = some .success := by
          rw [hv, hvs] at hcond
          simpa using hcond
        -- the batch is real (weak invariant at the healed state) and against the current target
        have hinv0 : InvQ QReal st := reachable_invQ goodQ_real (updateBatch_real fix) hr
        have hinv : InvQ QReal (healed st a) :=
          invQ_refines (st := { st with stateChanged := false }) goodQ_real hprops.1 hinv0
        obtain ⟨id, t', hb⟩ := hinv p hp' hbs
        refine ⟨p, hp', hn, hs, hrev, hbl, ?_, hall, hbs, id, t', hb, ?_⟩
        · intro he; rw [he] at hne; simp at hne
        · unfold PR.upToDate at hup
          rw [hb] at hup
          simp only [PRBatch.truthy, PRBatch.targetSha?, Bool.true_and, Bool.and_eq_true, beq_iff_eq, Option.some.injEq] at hup
          rw [hup.1]

/-- …over all histories: every merge request in the output of a run was sent in a state satisfying the guard. -/
theorem merge_guard_run (fix : Bool) (es : List Event) (hw : ∀ e ∈ es, e.wf) (n : Nat) (sha : Sha) (ok : Bool)
    (h : Out.merge n sha ok ∈ (run fix init es).2) :
    ∃ st a, Reachable fix st ∧ ∃ p ∈ (healed st a).prs, p.number = n ∧ p.sourceSha = sha ∧ p.review = some .approved ∧
      p.labels.blocked = false ∧ p.statuses ≠ [] ∧ allSuccess p.statuses = true ∧ p.buildState = some .success ∧
      ∃ id t, p.batch = .real id t ∧ (healed st a).sha = some t := by
  obtain ⟨st, e, hr, _, ho⟩ := run_out fix es hw init Reachable.init _ h
  cases e with
  | heal a => exact ⟨st, a, hr, merge_guard hr a n sha ok ho⟩
  | flag f => simp [step] at ho
  | batchFailed => simp [step] at ho
  | githubFailed => simp [step] at ho
  | githubPartial s k => simp [step] at ho
  | github s => simp [step] at ho
  | batch => simp [step] at ho
  | done id ok' => simp [step] at ho

/-- STATUS IS FOR THE CURRENT HEAD (1): `build_state == 'success'` always comes with a real batch (never `None`, never a
`MergeFailureBatch`), in every reachable state. -/
theorem status_is_for_current_head {fix : Bool} {st : State} (hr : Reachable fix st) :
    ∀ p ∈ st.prs, p.buildState = some .success → ∃ id t, p.batch = .real id t :=
  reachable_invQ goodQ_real (updateBatch_real fix) hr

/-- STATUS IS FOR THE CURRENT HEAD (2): a new head commit resets batch and build state (hence the intended status) in the same
GitHub refresh that learns about it — before any merge check can run. -/
theorem new_head_resets (p : PR) (s : PRSnap) (h : p.sourceSha ≠ s.headSha) :
    ((p.updateFromSnap s).1.updateGithub s).1.sourceSha = s.headSha ∧
    ((p.updateFromSnap s).1.updateGithub s).1.buildState = none ∧
    ((p.updateFromSnap s).1.updateGithub s).1.batch = .none := by
  have f := (updateFromSnap_fields p s).2.2 h
  have g := updateGithub_fields (p.updateFromSnap s).1 s
  exact ⟨g.2.1.trans f.2.2, g.2.2.2.trans f.1, g.2.2.1.trans f.2.1⟩

/-- ONE MERGE PER TARGET UPDATE (a): an accepted merge forgets the target sha… -/
theorem merge_forgets_target (st : State) (a : Answers) (n : Nat) (sha : Sha)
    (h : Out.merge n sha true ∈ (evHeal st a).2) : (evHeal st a).1.sha = none := by
  unfold evHeal at h ⊢
  simp only [List.mem_append] at h
  rcases h with h | h
  · exact absurd (heal_no_merge _ _ _ h) (by simp [Out.isMerge])
  · exact tryMerge_accepted_sha _ _ _ _ _ h

/-- (b) …without a known target sha no merge request is sent… -/
theorem no_target_no_merge (st : State) (a : Answers) (hs : st.sha = none) (n : Nat) (sha : Sha) (ok : Bool) :
    Out.merge n sha ok ∉ (evHeal st a).2 := by
  intro h
  unfold evHeal at h
  simp only [List.mem_append] at h
  rcases h with h | h
  · exact absurd (heal_no_merge _ _ _ h) (by simp [Out.isMerge])
  · obtain ⟨p, _, _, _, hm⟩ := tryMerge_out _ _ _ _ _ _ h
    have : (heal { st with stateChanged := false } a.builds).1.sha = none := by
      rw [(heal_props _ _).2.2]; exact hs
    rw [this] at hm
    exact mergeable_needs_sha p hm

/-- (c) …only a GitHub refresh (complete, or aborted after the branch ref was read) learns the target sha again… -/
theorem only_github_sets_target (fix : Bool) (st : State) (e : Event) (hs : st.sha = none)
    (he : ∀ s, e ≠ .github s) (hp : ∀ s k, e ≠ .githubPartial s k) : (step fix st e).1.sha = none := by
  cases e with
  | github s => exact absurd rfl (he s)
  | githubPartial s k => exact absurd rfl (hp s k)
  | githubFailed => exact hs
  | batchFailed => exact hs
  | flag f => cases f <;> exact hs
  | batch => simp only [step]; rw [(evBatch_numbers fix st).2.2]; exact hs
  | done id ok => simp only [step]; rw [(evDone_props st id ok).2.2]; exact hs
  | heal a =>
    simp only [step, evHeal]
    have h1 : (heal { st with stateChanged := false } a.builds).1.sha = none := by
      rw [(heal_props _ _).2.2]; exact hs
    exact tryMerge_sha_none _ _ _ h1

/-- (d) …and one heal+merge block contains at most one accepted merge. -/
theorem at_most_one_accepted_merge_per_block (st : State) (a : Answers) :
    ((evHeal st a).2.filter fun o => match o with
      | .merge _ _ true => true
      | _ => false).length ≤ 1 := by
  unfold evHeal
  simp only [List.filter_append, List.length_append]
  have h1 : ((heal { st with stateChanged := false } a.builds).2.filter fun o => match o with
      | .merge _ _ true => true
      | _ => false) = [] := by
    rw [List.filter_eq_nil_iff]
    intro o ho
    have := heal_no_merge _ _ o ho
    cases o <;> simp_all [Out.isMerge]
  rw [h1]
  simp only [List.length_nil, Nat.zero_add]
  exact tryMerge_accepted_le_one _ _ _

/-- A DELIVERED NOTIFICATION SURVIVES UNTIL A REFRESH COMPLETES: once `github_changed` is set (a webhook or the poll reached CI),
it stays set through every event — failed refreshes included — until a GitHub refresh goes through (`Event.github`). So a pass that
gets as far as `try_to_merge` after the notification has refreshed first.  (Before commit 9f64769b0 a failed refresh left the flag
cleared: `notification_lost_on_failed_refresh_old`; replayed on the real code by corpus/c30/07-…json.) -/
theorem notification_survives_until_refresh (fix : Bool) (es : List Event) (hes : ∀ e ∈ es, ∀ s, e ≠ .github s) :
    ∀ st : State, st.githubChanged = true → (run fix st es).1.githubChanged = true := by
  induction es with
  | nil => intro st h; exact h
  | cons e t ih =>
    intro st h
    unfold run
    apply ih (fun e' he' => hes e' (List.mem_cons_of_mem _ he'))
    cases e with
    | github s => exact absurd rfl (hes _ List.mem_cons_self s)
    | githubFailed => rfl
    | githubPartial s k => rfl
    | batchFailed => exact h
    | flag f => cases f <;> simp [step, evFlag, h]
    | batch => simpa [step, evBatch] using h
    | done id ok => simpa [step, evDone] using h
    | heal a =>
      simp only [step, evHeal]
      apply tryMerge_gflag
      rw [heal_gflag]; exact h

theorem notification_lost_on_failed_refresh_old (st : State) :
    (evGithubFailedOld (evFlag st .github)).githubChanged = false := rfl
example (st : State) : (evGithubFailed (evFlag st .github)).githubChanged = true := rfl

/-- AMBIGUOUS MERGE OUTCOME: after a merge request whose answer was lost, CI has forgotten the target and remembers that GitHub
changed — so no further merge request is sent (by any later heal+merge block, with any answers) until a GitHub refresh has happened.
(Before commit 62ab96f93 the step changed nothing, `evMergeLostOld`; replayed on the real code by corpus/c30/14-…json.) -/
theorem lost_merge_response_blocks_merges (st : State) (a : Answers) (n : Nat) (sha : Sha) (ok : Bool) :
    (evMergeLost st).githubChanged = true ∧ Out.merge n sha ok ∉ (evHeal (evMergeLost st) a).2 :=
  ⟨rfl, no_target_no_merge (evMergeLost st) a rfl n sha ok⟩

/-! ## "its test batch ran against the target branch's current commit" -/

/-- FULL STATEMENT: a PR is merged only if the batch service has a SUCCESSFUL test batch of its head commit against the target
sha CI knows. -/
def MergeOnlyTested (fix : Bool) : Prop :=
  ∀ st, Reachable fix st → ∀ (a : Answers) (n : Nat) (sha : Sha) (ok : Bool), Out.merge n sha ok ∈ (evHeal st a).2 →
    ∃ t, (healed st a).sha = some t ∧
      ∃ b ∈ (healed st a).svc, b.sourceSha = sha ∧ b.targetSha = t ∧ b.state = .success

/-- MERGE ONLY TESTED, full strength, for the code as it is: every merge request (over all histories) is for a PR whose head
commit has a SUCCESSFUL test batch in the batch service against the target sha CI knows. -/
theorem merge_only_tested : MergeOnlyTested true := by
  intro st hr a n sha ok h
  obtain ⟨p, hp, _, hs, _, _, _, _, hbs, id, t, hb, hsha⟩ := merge_guard hr a n sha ok h
  have hinv0 : InvQ QTested st := reachable_invQ goodQ_tested updateBatch_tested hr
  have hinv : InvQ QTested (healed st a) :=
    invQ_refines (st := { st with stateChanged := false }) goodQ_tested (heal_props _ _).1 hinv0
  obtain ⟨id', t', hb', b, hbm, _, hst, hsrc, htgt⟩ := hinv p hp hbs
  rw [hb] at hb'
  injection hb' with _ ht
  exact ⟨t, hsha, b, hbm, hsrc.trans hs, htgt.trans ht.symm, hst⟩

/-- The witness history (two PRs with the same head commit 500; see corpus/c30/01-…json, replayed on the real code). -/
def witness : List Event :=
  let pr (n : Nat) (wip : Bool) (d : ReviewDecision) (cs : List Check) : PRSnap :=
    { number := n, headSha := 500, authorized := true,
      labels := { highPrio := false, wip := wip, stacked := false, doNotTest := false, other := false }, decision := d, checks := cs }
  let ci (s : RawState) : List Check := [{ ctx := 0, required := true, state := some s }]
  [ .github { targetSha := 100, prs := [pr 1 false .REVIEW_REQUIRED []] }, .batch, .heal ⟨[true], []⟩,   -- PR 1 builds: batch 1 (500 on 100)
    .done 1 true, .batch, .heal ⟨[], []⟩,                                                                 -- batch 1 succeeds
    .github { targetSha := 100, prs := [pr 1 false .REVIEW_REQUIRED (ci .SUCCESS), pr 2 true .APPROVED (ci .SUCCESS)] },
    .batch, .heal ⟨[], []⟩,                                                                               -- PR 2 (same head, WIP, approved) adopts batch 1
    .github { targetSha := 1001, prs := [pr 1 false .REVIEW_REQUIRED (ci .SUCCESS), pr 2 true .APPROVED (ci .SUCCESS)] },
    .heal ⟨[true], []⟩,                                                                                   -- target moved: on-deck PR 2 starts batch 2 (500 on 1001)
    .batch,                                                                                               -- PR 1 adopts the RUNNING batch 2, build_state stays success
    .heal ⟨[], []⟩,
    .github { targetSha := 1001, prs := [pr 1 false .APPROVED (ci .PENDING), pr 2 true .APPROVED (ci .PENDING)] } ]  -- PR 1 approved

/-- THE REPAIRED DEFECT: for the code before aefc231fb the full statement fails — after the witness history the next heal+merge
block merged PR 1 although the only batch of head 500 against target 1001 (batch 2) was still running. -/
theorem merge_only_tested_old_fails : ¬ MergeOnlyTested false := by
  intro h
  have hr : Reachable false (run false init witness).1 :=
    run_reachable false witness (by decide) init Reachable.init
  have hm : Out.merge 1 500 true ∈ (evHeal (run false init witness).1 ⟨[], []⟩).2 := by decide +kernel
  obtain ⟨t, ht, b, hb, h1, h2, h3⟩ := h _ hr ⟨[], []⟩ 1 500 true hm
  have hsvc : (healed (run false init witness).1 ⟨[], []⟩).svc =
      [⟨1, 500, 100, 1, .success⟩, ⟨2, 500, 1001, 2, .running⟩] := by decide +kernel
  have hsha : (healed (run false init witness).1 ⟨[], []⟩).sha = some 1001 := by decide +kernel
  rw [hsha] at ht
  injection ht with ht
  subst ht
  rw [hsvc] at hb
  simp only [List.mem_cons, List.not_mem_nil, or_false] at hb
  rcases hb with rfl | rfl
  · simp at h2
  · simp at h3

/-- what the old code needed in addition: when a batch refresh happens, it never finds an unfinished batch for a PR whose
`build_state` is `success` (exactly the situation the fix changed; it arises when another PR with the same head commit starts a build) -/
def NoStaleSuccess (st : State) : Prop := ∀ p ∈ st.prs, p.updateBatch false st.svc = p.updateBatch true st.svc

inductive ReachableNS : State → Prop where
  | init : ReachableNS init
  | step {st : State} (e : Event) : ReachableNS st → e.wf → (e = .batch → NoStaleSuccess st) → ReachableNS (step false st e).1

theorem step_false_eq_true (st : State) (e : Event) (h : e = .batch → NoStaleSuccess st) : step false st e = step true st e := by
  cases e with
  | batch =>
    have hs := h rfl
    simp only [step, evBatch]
    have : st.prs.map (fun p => p.updateBatch false st.svc) = st.prs.map (fun p => p.updateBatch true st.svc) :=
      List.map_congr_left hs
    rw [this]
  | flag f => rfl
  | batchFailed => rfl
  | githubFailed => rfl
  | githubPartial s k => rfl
  | github s => rfl
  | heal a => rfl
  | done id ok => rfl

theorem reachableNS_patched {st : State} (h : ReachableNS st) : Reachable true st := by
  induction h with
  | init => exact Reachable.init
  | step e _ hw hns ih => rw [step_false_eq_true _ e hns]; exact Reachable.step e ih hw

/-- what held for the OLD code (explicit hypothesis `NoStaleSuccess` at every batch refresh of the history): merges are tested. -/
theorem merge_only_tested_old_partial {st : State} (hr : ReachableNS st) (a : Answers) (n : Nat) (sha : Sha) (ok : Bool)
    (h : Out.merge n sha ok ∈ (evHeal st a).2) :
    ∃ t, (healed st a).sha = some t ∧ ∃ b ∈ (healed st a).svc, b.sourceSha = sha ∧ b.targetSha = t ∧ b.state = .success :=
  merge_only_tested st (reachableNS_patched hr) a n sha ok h

/-! Non-vacuity: a plain history reaches a merge; the assert fires in the stale-status situation. -/

def plain : List Event :=
  let pr (d : ReviewDecision) (cs : List Check) : PRSnap :=
    { number := 7, headSha := 500, authorized := true,
      labels := { highPrio := false, wip := false, stacked := false, doNotTest := false, other := false }, decision := d, checks := cs }
  [ .github { targetSha := 100, prs := [pr .APPROVED []] }, .batch, .heal ⟨[true], []⟩, .done 1 true, .batch ]

-- approved PR, batch 1 (500 on 100) succeeded: the next block posts SUCCESS and merges
example : (evHeal (run true init plain).1 ⟨[], [true]⟩).2 = [.post 7 500 .success, .merge 7 500 true] := by decide +kernel
-- same, but the merge is refused and the target moves: batch replaced, stale SUCCESS status, the assert stops the block
def movedSnap : Snapshot :=
  { targetSha := 101,
    prs := [{ number := 7, headSha := 500, authorized := true,
              labels := { highPrio := false, wip := false, stacked := false, doNotTest := false, other := false },
              decision := .APPROVED, checks := [{ ctx := 0, required := true, state := some .SUCCESS }] }] }
example : (evHeal (evGithub (evHeal (run true init plain).1 ⟨[], [false]⟩).1 movedSnap) ⟨[true], []⟩).2
    = [.start 7 2 500 101, .assertFailed 7] := by decide +kernel
-- a REQUIRED check run that is still in progress (conclusion null) makes the refresh raise (`github_status(None)`): the PR keeps its
-- old statuses, `github_changed` stays set, and nothing is merged on that refresh
def nullSnap : Snapshot :=
  { targetSha := 100,
    prs := [{ number := 7, headSha := 500, authorized := true,
              labels := { highPrio := false, wip := false, stacked := false, doNotTest := false, other := false },
              decision := .APPROVED, checks := [{ ctx := 0, required := true, state := some .SUCCESS }, { ctx := 3, required := true, state := none }] }] }
example : raisesAt nullSnap.prs = some 0 := by decide
example : (step true (run true init plain).1 (.github nullSnap)).1.githubChanged = true := by decide +kernel
example : ((step true (run true init plain).1 (.github nullSnap)).1.prs.map (·.statuses)) = ((run true init plain).1.prs.map (·.statuses)) := by
  decide +kernel
-- the witness history is well-formed and left (old code) PR 1 in build_state success with the running batch 2
example : ∀ e ∈ witness, e.wf := by decide
example : ((run false init witness).1.prs.map fun p => (p.number, p.buildState, p.batch)) =
    [(1, some .success, .real 2 1001), (2, none, .real 2 1001)] := by decide +kernel
-- the current code does not merge after the same history
example : ∀ n sha ok, Out.merge n sha ok ∉ (evHeal (run true init witness).1 ⟨[], []⟩).2 := by
  have : (evHeal (run true init witness).1 ⟨[], []⟩).2 = [] := by decide +kernel
  simp [this]

end HailVerif.C30

import HailVerif.Proofs.Retry
/-!
# C21 — Retry policy retries exactly the transient failures

Subject: `HailVerif.Retry` — the classifiers `isLimited / isRateLimit / isTransient` (models of `is_limited_retries_error`,
`is_rate_limit_error`, `is_transient_error`), the decision `retryStep` and the loop `loop / retryTransientErrors` (models of
`retry_transient_errors_with_debug_string`, which `retry_transient_errors` calls) and `delayMs` (`delay_ms_for_try`), all of
hail/python/hailtop/utils/utils.py; tied to the real functions by the correspondence check `harness/props/c21.py` (real
exception objects, real loop under a virtual clock with the jitter draw patched).

The theorems quantify over ALL exceptions (any descriptor tree: any class mix, any `__cause__` chain, any `os_error`), all try
counts, all scripts (finite sequences of failures followed by anything) and all values of the random draw.
-/
namespace HailVerif.C21
open HailVerif.Retry

/-- A transient or rate-limit failure is retried, whatever the number of tries so far. -/
theorem transient_or_ratelimit_retries (e : Exc) (h : isTransient e = true ∨ isRateLimit e = true) (tries : Nat) :
    retryStep tries e = .retry :=
  retryStep_retryable tries e h

/-- In the code's table every rate-limit error is also a transient error: the `elif is_rate_limit_error(e): pass` branch only
silences the warning log, it never changes what is retried. -/
theorem ratelimit_is_transient (e : Exc) (h : isRateLimit e = true) : isTransient e = true :=
  rateLimit_implies_transient e h

/-- A limited-retry error that is not otherwise transient is retried exactly while `tries ≤ 5`. -/
theorem limited_only_retries_while_tries_le_5 (e : Exc) (hl : isLimited e = true) (ht : isTransient e = false)
    (hr : isRateLimit e = false) (tries : Nat) : retryStep tries e = .retry ↔ tries ≤ 5 := by
  rw [retryStep_not_retryable tries e ht hr]
  by_cases h : tries ≤ 5
  · simp [h, hl]
  · simp [h]

/-- Hence: a run in which no failure is transient or a rate limit sleeps (= retries) at most five times, whatever the script. -/
theorem limited_only_at_most_five_retries (script : List Attempt) (h : NoneRetryable script) :
    nSleeps (retryTransientErrors script) ≤ 5 := by
  have := loop_limited_sleeps script 0 [] h
  simpa [retryTransientErrors] using this

/-- Any other error is raised at once. -/
theorem other_raises_immediately (e : Exc) (hl : isLimited e = false) (ht : isTransient e = false)
    (hr : isRateLimit e = false) (tries : Nat) : retryStep tries e = .raise := by
  rw [retryStep_not_retryable tries e ht hr]
  simp [hl]

/-- …and by the loop: when the first call fails with such an error the loop re-raises it after one call and no sleep. -/
theorem other_raises_immediately_loop (e : Exc) (r : Nat) (rest : List Attempt) (hl : isLimited e = false)
    (ht : isTransient e = false) (hr : isRateLimit e = false) :
    retryTransientErrors (.fail e r :: rest) = .raised e 1 [] := by
  simp [retryTransientErrors, loop, other_raises_immediately e hl ht hr]

/-- The jittered exponential bounds: with `ceiling = base · 2^min(tries, 30)` every delay lies between
`min(ceiling/2, max)` and `min(ceiling, max)`, for every value of the random draw. -/
theorem delay_bounds (tries base max r : Nat) :
    min (base * 2 ^ (min tries 30) / 2) max ≤ delayMs tries base max r ∧
      delayMs tries base max r ≤ min (base * 2 ^ (min tries 30)) max := by
  unfold delayMs
  have h1 : r % (base * 2 ^ (min tries 30) / 2 + 1) < base * 2 ^ (min tries 30) / 2 + 1 := Nat.mod_lt _ (by omega)
  have h2 : base * 2 ^ (min tries 30) / 2 * 2 ≤ base * 2 ^ (min tries 30) := Nat.div_mul_le_self _ _
  simp only []
  generalize base * 2 ^ (min tries 30) = c at *
  generalize r % (c / 2 + 1) = d at *
  omega

/-- No delay is longer than the maximum. -/
theorem delay_le_max (tries base max r : Nat) : delayMs tries base max r ≤ max := by
  unfold delayMs; exact Nat.min_le_right _ _

/-- Every sleep of every run is within the documented bounds, whatever the failed responses carry: the `i`-th sleep (after the
`i+1`-th failure) lies in `[min(ceiling/2, max), min(ceiling, max)]` with `ceiling = 1000·2^min(i+1, 30)` and `max = 60 000` ms —
for ALL scripts, all exceptions (rate-limit responses with a `Retry-After: 300` header included: the header is not an input of
the delay) and all random draws. -/
theorem every_sleep_within_bounds (script : List Attempt) (i d : Nat)
    (h : (retryTransientErrors script).sleeps[i]? = some d) :
    min (defaultBase * 2 ^ (min (i + 1) 30) / 2) defaultMax ≤ d ∧ d ≤ min (defaultBase * 2 ^ (min (i + 1) 30)) defaultMax ∧
      d ≤ defaultMax := by
  have hb := loop_sleeps_bounded script 0 [] rfl (by intro j x hx; simp at hx) i d (by simpa [retryTransientErrors] using h)
  exact ⟨hb.1, hb.2, Nat.le_trans hb.2 (Nat.min_le_right _ _)⟩

/-- Retry until success: for ANY finite list of transient / rate-limit failures followed by a success, the loop returns that
success after exactly that many sleeps (one call more than failures), each sleep being `delayMs` of its try number. -/
theorem retries_until_success (fails : List (Exc × Nat)) (h : ∀ p ∈ fails, isTransient p.1 = true ∨ isRateLimit p.1 = true)
    (v : Nat) (rest : List Attempt) :
    retryTransientErrors (fails.map (fun p => Attempt.fail p.1 p.2) ++ Attempt.ok v :: rest) =
      .returned v (fails.length + 1) (sleepsOf 0 fails) ∧ (sleepsOf 0 fails).length = fails.length := by
  refine ⟨?_, sleepsOf_length 0 fails⟩
  have := loop_retries_until_success fails 0 [] v rest h
  simpa [retryTransientErrors] using this

/-! ## non-vacuity: concrete exceptions in every class, the overlaps the branch order decides, and runs of the loop -/

def plain : Desc :=
  ⟨none, none, false, false, false, false, false, false, false, none, false, none, false, false, false, false, none⟩

/-- `e` under `n` layers of `raise RuntimeError(...) from inner` -/
def wrapped : Nat → Exc → Exc
  | 0, e => e
  | n + 1, e => .mk plain .nil (wrapped n e)

/-- The `__cause__` chain is followed to ANY depth: an error wrapped in `n` plain layers is classified exactly like the error
itself by `is_transient_error` and `is_limited_retries_error` (so a transient error under 4, 8 or 50 `raise … from` layers is still
retried), while `is_rate_limit_error` looks at the outermost exception only. -/
theorem cause_chain_followed_to_any_depth (n : Nat) (e : Exc) :
    isTransient (wrapped n e) = isTransient e ∧ isLimited (wrapped n e) = isLimited e ∧
      (0 < n → isRateLimit (wrapped n e) = false) := by
  induction n with
  | zero => simp [wrapped]
  | succ n ih =>
    refine ⟨?_, ?_, fun _ => ?_⟩
    · rw [← ih.1]; simp [wrapped, isTransient, plain]
    · rw [← ih.2.1]; simp [wrapped, isLimited, plain]
    · simp [wrapped, isRateLimit, plain]

/-- `ConnectionResetError()` without errno: limited only -/
def connResetNoErrno : Exc := .mk { plain with osErrno := some none, connReset := true } .nil .nil
/-- `ConnectionResetError(104, …)`: limited AND transient (errno ECONNRESET) -/
def connReset104 : Exc := .mk { plain with osErrno := some (some 104), connReset := true } .nil .nil
/-- `hailtop.httpx.ClientResponseError(status=403, body='…rateLimitExceeded…')`: rate limit and transient -/
def httpx403RateLimit : Exc := .mk { plain with aiohttpStatus := some 403, httpxStatus := some 403, bodyRateLimit := true } .nil .nil
/-- `hailtop.httpx.ClientResponseError(status=400, body='Invalid grant: account not found')`: limited only -/
def httpx400RetryOnce : Exc := .mk { plain with aiohttpStatus := some 400, httpxStatus := some 400, bodyRetryOnce := true } .nil .nil
/-- `aiohttp.ClientResponseError(status=429, headers={'Retry-After': '300'})`: rate limit; the header changes nothing -/
def tooManyRetryAfter300 : Exc := .mk { plain with aiohttpStatus := some 429, retryAfter := some 300 } .nil .nil
/-- `aiohttp.ClientPayloadError()` — no message at all — and `aiohttp.ClientPayloadError(None)` -/
def payloadNoArgs : Exc := .mk { plain with payload := some .noArgs } .nil .nil
def payloadNotStr : Exc := .mk { plain with payload := some .notStr } .nil .nil
/-- `aiohttp.ClientPayloadError('Response payload is not completed')` -/
def payloadIncomplete : Exc := .mk { plain with payload := some (.text true) } .nil .nil
/-- `ValueError('x')` -/
def valueError : Exc := .mk plain .nil .nil
/-- `RuntimeError('wrapped')` raised `from` `OSError(EPIPE)`: transient through `__cause__` -/
def wrappedEpipe : Exc := .mk plain .nil (.mk { plain with osErrno := some (some 32) } .nil .nil)
/-- `aiohttp.ClientConnectorError(key, OSError(ECONNREFUSED))`: transient through `os_error` (and by its own errno) -/
def connectorRefused : Exc :=
  .mk { plain with connector := true, osErrno := some (some 111) } (.mk { plain with osErrno := some (some 111) } .nil .nil) .nil

example : isLimited connResetNoErrno = true ∧ isTransient connResetNoErrno = false ∧ isRateLimit connResetNoErrno = false := by
  decide
example : isLimited connReset104 = true ∧ isTransient connReset104 = true := by decide
example : isRateLimit httpx403RateLimit = true ∧ isTransient httpx403RateLimit = true ∧ isLimited httpx403RateLimit = false := by
  decide
example : isLimited httpx400RetryOnce = true ∧ isTransient httpx400RetryOnce = false := by decide
example : isLimited valueError = false ∧ isTransient valueError = false ∧ isRateLimit valueError = false := by decide
example : isTransient wrappedEpipe = true ∧ isTransient connectorRefused = true := by decide
-- six limited-only failures: five sleeps, the sixth failure is raised
example : retryTransientErrors (List.replicate 7 (.fail connResetNoErrno 0))
    = .raised connResetNoErrno 6 [1000, 2000, 4000, 8000, 16000] := by decide
-- the same error WITH errno 104 is transient: never given up; the delay is clamped to 60 000 ms from the sixth try on
example : retryTransientErrors (List.replicate 7 (.fail connReset104 0) ++ [.ok 9])
    = .returned 9 8 [1000, 2000, 4000, 8000, 16000, 32000, 60000] := by decide
-- five transient failures use up the allowance: a limited-only error on the sixth try is raised at once
example : retryTransientErrors (List.replicate 5 (.fail wrappedEpipe 0) ++ [.fail connResetNoErrno 0, .ok 1])
    = .raised connResetNoErrno 6 [1000, 2000, 4000, 8000, 16000] := by decide
-- a 429 that asks for 300 s: the waits are the ordinary jittered back-off, never 300 000 ms
example : retryTransientErrors (List.replicate 3 (.fail tooManyRetryAfter300 999) ++ [.ok 1])
    = .returned 1 4 [1999, 2999, 4999] := by decide
-- a timeout under 8 layers of `raise … from` is still transient: retried (any depth: `cause_chain_followed_to_any_depth`)
example : retryTransientErrors [.fail (wrapped 8 (.mk { plain with osErrno := some (some 110) } .nil .nil)) 0, .ok 1]
    = .returned 1 2 [1000] := by decide
-- a ClientPayloadError without a (string) message is an ordinary permanent error: classified, and raised AS ITSELF by the first
-- call (before the repair 4a545e7b9 the classifier crashed with IndexError / TypeError on it); with the marker text it is transient
example : isTransient payloadNoArgs = false ∧ isTransient payloadNotStr = false ∧ isTransient payloadIncomplete = true := by decide
example : retryTransientErrors [.fail payloadNoArgs 0, .ok 1] = .raised payloadNoArgs 1 [] := by decide
-- a permanent error is raised by the first call, no sleep
example : retryTransientErrors [.fail valueError 3, .ok 1] = .raised valueError 1 [] := by decide
-- jitter: draw r ↦ r % (ceiling/2 + 1); tries = 1: ceiling 2000, delay in [1000, 2000]
example : delayMs 1 1000 60000 0 = 1000 ∧ delayMs 1 1000 60000 1000 = 2000 ∧ delayMs 1 1000 60000 1001 = 1000 := by decide
example : delayMs 6 1000 60000 0 = 32000 ∧ delayMs 6 1000 60000 31999 = 60000 ∧ delayMs 40 1000 60000 5 = 60000 := by decide

end HailVerif.C21

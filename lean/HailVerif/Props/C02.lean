import HailVerif.Proofs.BatchDBAccounting
import HailVerif.Props.C03
/-!
# C02 — Billing aggregates equal the sum of attempt usage

Subject: the BatchDB model (`HailVerif.BatchDB`, one `step` per transaction of the service).  The four billing aggregate
tables (`aggregated_job_resources_v3`, `aggregated_job_group_resources_v3`, `aggregated_billing_project_user_resources_v3`,
`aggregated_billing_project_user_resources_by_date_v3`, token shards summed) are the keys `aJob`, `aGroup`, `aBpUser`,
`aByDate` of the counter log `ctr`; `get s.ctr k` is the value a reader of the table sees.

`billed row = max (rollup − start) 0` (0 when either is NULL) is the billed duration of an attempt; the increments the
model adds are exactly the expressions of the two SQL triggers (`trigger_delta_telescopes`, `insert_bills_current`:
the generated `msecDiffRollup` / `billedAtInsert`).

All theorems are for every history `ops` of transactions from the empty database, in any order and multiplicity:
attempts, resource registrations before or after start, heartbeats, completions, unscheduling, deactivations,
late and repeated reports, cleanup loops and compaction.
-/
namespace HailVerif.C02
open HailVerif.BatchDB HailVerif.Generated.AttemptsTrigger

/-- quantity of resource `r` registered for attempt `(b, j, a)` (`attempt_resources`) -/
def qtyOf (s : State) (b j a r : Nat) : Int :=
  sumBy (fun x => if x.batch = b ∧ x.job = j ∧ x.attempt = a ∧ x.res = r then x.qty else 0) s.attemptRes

/-- `Σ quantity · billed duration` of resource `r` over the attempts selected by `sel` -/
def usage (s : State) (sel : Attempt → Bool) (r : Nat) : Int :=
  sumBy (fun a => if sel a then qtyOf s a.batch a.job a.id r * billed a.row else 0) s.attempts

/-- the by-date aggregate of `(bp, u, r)` summed over all days -/
def byDateTotal (m : List (CKey × Int)) (bp u r : Nat) : Int :=
  getP (fun k => match k with | .aByDate _ bp' u' r' => decide (bp' = bp ∧ u' = u ∧ r' = r) | _ => false) m

/-! ## tie to the SQL triggers -/

/-- the increment `attempts_after_update` adds is `billed new − billed old`: what `updateAttempts` adds per resource row -/
theorem trigger_delta_telescopes (old new : Row) :
    msecDiffRollup old.start_time old.rollup_time new.start_time new.rollup_time = some (billed new - billed old) :=
  C03.msecDiffRollup_eq old new

/-- `attempt_resources_after_insert` bills the attempt's current duration: what `addResources` adds per fresh row -/
theorem insert_bills_current (r : Row) : billedAtInsert r.start_time r.rollup_time = some (billed r) :=
  C03.billedAtInsert_eq r

/-! ## the generic invariant, specialised -/

theorem reachable_struct_billing {P : CKey → Bool} (hP : BillPred P) (ops : List Op) :
    Struct (run ops) ∧ Billing P (run ops) :=
  billing_run hP ops init struct_init billing_init

theorem cnt_map_zero (P : CKey → Bool) {α : Type} (l : List α) (f : α → CKey) (h : ∀ x, P (f x) = false) :
    cnt P (l.map f) = 0 := by
  unfold cnt sumBy; rw [List.map_map]
  induction l with
  | nil => rfl
  | cons x l ih => simp [h x] at ih ⊢; exact ih

/-- if `P` selects, among the aggregate rows of an attempt of job `(b, j)`, exactly one row when `sel b j` and the
resource is `r` and none otherwise, the recomputation is the usage of the selected attempts -/
theorem expected_eq_usage (P : CKey → Bool) (s : State) (r : Nat) (sel : Nat → Nat → Bool)
    (hc : ∀ b j res, cnt P (billKeys s 0 b j res) = if sel b j = true ∧ res = r then 1 else 0) :
    expected P s = usage s (fun a => sel a.batch a.job) r := by
  unfold expected usage
  apply sumBy_congr
  intro a _
  have : resW P s a.batch a.job a.id = if sel a.batch a.job = true then qtyOf s a.batch a.job a.id r else 0 := by
    unfold resW resOf qtyOf
    rw [sumBy_filter_ite]
    by_cases hs : sel a.batch a.job = true
    · simp only [hs, if_true]
      apply sumBy_congr
      intro x _
      rw [hc]
      by_cases hk : x.batch = a.batch ∧ x.job = a.job ∧ x.attempt = a.id
      · by_cases hr : x.res = r <;> simp [hk, hr, hs]
      · have : ¬ (x.batch = a.batch ∧ x.job = a.job ∧ x.attempt = a.id ∧ x.res = r) := fun hh => hk ⟨hh.1, hh.2.1, hh.2.2.1⟩
        simp [hk, this]
    · simp only [hs]
      apply sumBy_zero
      intro x _
      rw [hc]; simp [hs]
  rw [this]
  by_cases hs : sel a.batch a.job = true
  · simp [hs, Int.mul_comm]
  · simp [hs]

/-! ## per job -/

theorem billPred_eq_job (b j r : Nat) : BillPred (fun k => decide (k = CKey.aJob b j r)) :=
  ⟨by intro k hk; simp at hk; subst hk; rfl, by intro d d' bp u r'; simp⟩

/-- **Per job.**  In every reachable state the job aggregate of `(b, j, r)` is the sum over the attempts of the job of
`quantity · billed duration`. -/
theorem billing_job_exact (ops : List Op) (b j r : Nat) :
    get (run ops).ctr (.aJob b j r) = usage (run ops) (fun a => a.batch = b ∧ a.job = j) r := by
  obtain ⟨_, hb⟩ := reachable_struct_billing (billPred_eq_job b j r) ops
  rw [get_eq_getP, hb]
  rw [expected_eq_usage _ _ r (fun b' j' => decide (b' = b ∧ j' = j))]
  intro b' j' res
  unfold billKeys
  rw [cnt_append, cnt_map_zero _ _ _ (by intro g; simp)]
  simp only [cnt_cons, cnt_nil]
  by_cases h : b' = b ∧ j' = j ∧ res = r
  · obtain ⟨rfl, rfl, rfl⟩ := h; simp
  · have : ¬ ((b' = b ∧ j' = j) ∧ res = r) := fun hh => h ⟨hh.1.1, hh.1.2, hh.2⟩
    simp [this]
    intro h1 h2 h3; exact h ⟨h1, h2, h3⟩

/-! ## per job group, counting all descendant jobs -/

theorem billPred_eq_group (b g r : Nat) : BillPred (fun k => decide (k = CKey.aGroup b g r)) :=
  ⟨by intro k hk; simp at hk; subst hk; rfl, by intro d d' bp u r'; simp⟩

theorem cnt_group_nodup (b b' g res r : Nat) (l : List Nat) (hl : l.Nodup) :
    cnt (fun k => decide (k = CKey.aGroup b g r)) (l.map fun g' => CKey.aGroup b' g' res) =
      if (b' = b ∧ g ∈ l) ∧ res = r then 1 else 0 := by
  induction l with
  | nil => simp [cnt_nil]
  | cons x l ih =>
    rw [List.nodup_cons] at hl
    rw [List.map_cons, cnt_cons, ih hl.2]
    by_cases hx : x = g
    · subst hx
      by_cases hh : b' = b ∧ res = r
      · simp [hh.1, hh.2, hl.1]
      · have h1 : ¬ (CKey.aGroup b' x res = CKey.aGroup b x r) := by
          intro e; injection e with e1 _ e3; exact hh ⟨e1, e3⟩
        have h2 : ¬ ((b' = b ∧ (x = x ∨ x ∈ l)) ∧ res = r) := fun e => hh ⟨e.1.1, e.2⟩
        have h3 : ¬ ((b' = b ∧ x ∈ l) ∧ res = r) := fun e => hh ⟨e.1.1, e.2⟩
        simp [h1, h3, hh]
    · have h1 : ¬ (CKey.aGroup b' x res = CKey.aGroup b g r) := by
        intro e; injection e with _ e2 _; exact hx e2
      have : (g = x) = False := by simp; exact fun e => hx e.symm
      simp [h1, this]

/-- **Per job group.**  The aggregate of group `g` is the usage of all attempts of jobs whose group has `g` among its
ancestors-or-self (`job_group_self_and_ancestors`): the jobs of `g` and of all its descendants. -/
theorem billing_group_exact (ops : List Op) (b g r : Nat) :
    get (run ops).ctr (.aGroup b g r) =
      usage (run ops) (fun a => a.batch = b ∧ g ∈ ancestorsOf (run ops) a.batch (jobGroupOf (run ops) a.batch a.job)) r := by
  obtain ⟨hs, hb⟩ := reachable_struct_billing (billPred_eq_group b g r) ops
  rw [get_eq_getP, hb]
  rw [expected_eq_usage _ _ r (fun b' j' => decide (b' = b ∧ g ∈ ancestorsOf (run ops) b' (jobGroupOf (run ops) b' j')))]
  intro b' j' res
  unfold billKeys
  rw [cnt_append, cnt_group_nodup b b' g res r _ (ancestorsOf_le hs _ _).1]
  simp [cnt_cons, cnt_nil]

/-! ## per billing project and user; per billing day -/

theorem billPred_eq_bpUser (bp u r : Nat) : BillPred (fun k => decide (k = CKey.aBpUser bp u r)) :=
  ⟨by intro k hk; simp at hk; subst hk; rfl, by intro d d' bp u r'; simp⟩

/-- **Per billing project and user.**  The aggregate of `(bp, u, r)` is the usage of all attempts of the batches of that
billing project and user. -/
theorem billing_bp_user_exact (ops : List Op) (bp u r : Nat) :
    get (run ops).ctr (.aBpUser bp u r) =
      usage (run ops) (fun a => bpOf (run ops) a.batch = bp ∧ userOf (run ops) a.batch = u) r := by
  obtain ⟨_, hb⟩ := reachable_struct_billing (billPred_eq_bpUser bp u r) ops
  rw [get_eq_getP, hb]
  rw [expected_eq_usage _ _ r (fun b' _ => decide (bpOf (run ops) b' = bp ∧ userOf (run ops) b' = u))]
  intro b' j' res
  unfold billKeys
  rw [cnt_append, cnt_map_zero _ _ _ (by intro g; simp)]
  simp only [cnt_cons, cnt_nil]
  by_cases h : bpOf (run ops) b' = bp ∧ userOf (run ops) b' = u ∧ res = r
  · obtain ⟨h1, h2, h3⟩ := h; simp [h1, h2, h3]
  · have : ¬ ((bpOf (run ops) b' = bp ∧ userOf (run ops) b' = u) ∧ res = r) := fun hh => h ⟨hh.1.1, hh.1.2, hh.2⟩
    simp [this]
    intro h1 h2 h3; exact h ⟨h1, h2, h3⟩

theorem billPred_byDate (bp u r : Nat) :
    BillPred (fun k => match k with | .aByDate _ bp' u' r' => decide (bp' = bp ∧ u' = u ∧ r' = r) | _ => false) :=
  ⟨by intro k hk; cases k <;> simp_all [isBilling], by intro d d' bp' u' r'; rfl⟩

/-- **Per billing day.**  Summed over all days, the by-date aggregate of `(bp, u, r)` is the same usage: the attribution
of an increment to a day (`UTC_DATE()`, an op parameter here) never loses or duplicates usage. -/
theorem billing_by_date_total (ops : List Op) (bp u r : Nat) :
    byDateTotal (run ops).ctr bp u r =
      usage (run ops) (fun a => bpOf (run ops) a.batch = bp ∧ userOf (run ops) a.batch = u) r := by
  obtain ⟨_, hb⟩ := reachable_struct_billing (billPred_byDate bp u r) ops
  unfold byDateTotal
  rw [hb]
  rw [expected_eq_usage _ _ r (fun b' _ => decide (bpOf (run ops) b' = bp ∧ userOf (run ops) b' = u))]
  intro b' j' res
  unfold billKeys
  rw [cnt_append, cnt_map_zero _ _ _ (by intro g; rfl)]
  simp only [cnt_cons, cnt_nil]
  by_cases h : bpOf (run ops) b' = bp ∧ userOf (run ops) b' = u ∧ res = r
  · obtain ⟨h1, h2, h3⟩ := h; simp [h1, h2, h3]
  · have : ¬ ((bpOf (run ops) b' = bp ∧ userOf (run ops) b' = u) ∧ res = r) := fun hh => h ⟨hh.1.1, hh.1.2, hh.2⟩
    simp [this, h]

/-- the by-date rows of `(bp, u, r)` sum to the billing-project × user row -/
theorem by_date_total_eq_bp_user (ops : List Op) (bp u r : Nat) :
    byDateTotal (run ops).ctr bp u r = get (run ops).ctr (.aBpUser bp u r) := by
  rw [billing_by_date_total, billing_bp_user_exact]

/-- `byDateTotal` is the sum of the per-day values over any duplicate-free list of days covering the days in the table -/
theorem byDateTotal_eq_sum (m : List (CKey × Int)) (bp u r : Nat) (D : List Nat) (hD : D.Nodup)
    (hcov : ∀ e ∈ m, ∀ d, e.1 = CKey.aByDate d bp u r → d ∈ D) :
    byDateTotal m bp u r = sumBy (fun d => get m (.aByDate d bp u r)) D := by
  unfold byDateTotal
  induction m with
  | nil => simp [getP_nil, get_nil]; exact (sumBy_zero _ _ (by intro x _; rfl)).symm
  | cons e m ih =>
    rw [getP_cons, ih (fun x hx => hcov x (by simp [hx]))]
    have h1 : ∀ d ∈ D, get (e :: m) (.aByDate d bp u r) =
        (if e.1 = CKey.aByDate d bp u r then e.2 else 0) + get m (.aByDate d bp u r) := fun d _ => get_cons e m _
    rw [sumBy_congr _ _ D h1, sumBy_add]
    congr 1
    -- the head entry is counted for exactly one day, if it is a by-date row of (bp, u, r)
    cases hk : e.1 with
    | aByDate d0 bp' u' r' =>
      by_cases hm : bp' = bp ∧ u' = u ∧ r' = r
      · obtain ⟨rfl, rfl, rfl⟩ := hm
        have hd0 : d0 ∈ D := hcov e (by simp) d0 hk
        simp only [true_and, decide_true, if_true]
        clear h1 ih hcov
        induction D with
        | nil => simp at hd0
        | cons x D ih =>
          rw [List.nodup_cons] at hD
          rw [sumBy_cons]
          by_cases hx : x = d0
          · subst hx
            have : sumBy (fun d => if CKey.aByDate x bp' u' r' = CKey.aByDate d bp' u' r' then e.2 else 0) D = 0 := by
              apply sumBy_zero; intro y hy
              have : ¬ x = y := fun e' => hD.1 (e' ▸ hy)
              simp [this]
            rw [this]; simp
          · have hne : ¬ (CKey.aByDate d0 bp' u' r' = CKey.aByDate x bp' u' r') := by
              intro e'; injection e' with e1; exact hx e1.symm
            rw [if_neg hne, Int.zero_add]
            exact ih hD.2 (by rcases List.mem_cons.mp hd0 with h | h; exact absurd h.symm hx; exact h)
      · have : ∀ d, ¬ (CKey.aByDate d0 bp' u' r' = CKey.aByDate d bp u r) := by
          intro d e'; injection e' with _ e2 e3 e4; exact hm ⟨e2, e3, e4⟩
        simp only [hm, decide_false]
        exact (sumBy_zero _ _ (by intro d _; simp [this])).symm
    | _ => simp only []; exact (sumBy_zero _ _ (by intro d _; simp)).symm

/-! ## compaction and the cleanup loops -/

/-- **Compaction never changes any total**: every key of every sharded table reads the same after `compact`. -/
theorem compact_preserves (s : State) (k : CKey) : get (compact s).1.ctr k = get s.ctr k := by
  rw [get_eq_getP, get_eq_getP, compact_ctr, getP_compact]

/-- … including the by-date total -/
theorem compact_preserves_byDateTotal (s : State) (bp u r : Nat) :
    byDateTotal (compact s).1.ctr bp u r = byDateTotal s.ctr bp u r := by
  unfold byDateTotal; rw [compact_ctr, getP_compact]

/-- the two cleanup loops delete staging / cancellable rows only: every billing aggregate is untouched -/
theorem cleanup_preserves_billing (s : State) (k : CKey) (hk : isBilling k = true) :
    get (cleanupStaging s).1.ctr k = get s.ctr k ∧ get (cleanupCancellable s).1.ctr k = get s.ctr k := by
  rw [get_eq_getP, get_eq_getP, get_eq_getP]
  constructor
  · unfold cleanupStaging
    apply getP_filter
    intro e _ hp
    simp only [decide_eq_true_eq] at hp
    rw [hp]; cases k <;> simp_all [isBilling]
  · unfold cleanupCancellable
    apply getP_filter
    intro e _ hp
    simp only [decide_eq_true_eq] at hp
    rw [hp]; cases k <;> simp_all [isBilling]

/-! ## non-vacuity -/

/-- two jobs in a sub-group and the root group; resources registered before start, after a rollup and twice; heartbeats
on two billing days; a completion, a late heartbeat after it (clamped), a deactivation that ends the second attempt;
two compaction runs -/
def demo : List Op :=
  [.createBatch 1 1 100, .createUpdate 1 200 2 1 1, .insertGroups 1 1 1 [⟨1, some 0, 0⟩],
   .insertJobs 1 1 1 [⟨1, [], [], none, 1, false, 1000, 0⟩, ⟨2, [], [], some 0, 0, false, 1000, 0⟩],
   .commitUpdate 1 1, .newInstance 7 4000 true, .activate 7,
   .addResources 1 1 11 [(5, 3)] 0,                             -- refused: the attempt does not exist yet
   .schedule 1 1 11 7, .addResources 1 1 11 [(5, 3), (6, 2)] 0, -- resources before start
   .started 1 1 11 7 10 0, .heartbeat [(1, 1, 11)] 20 0,
   .schedule 1 2 21 7, .started 1 2 21 7 12 0, .heartbeat [(1, 1, 11), (1, 2, 21)] 30 1,
   .addResources 1 2 21 [(5, 1)] 1,                             -- resources after a rollup
   .addResources 1 1 11 [(5, 3)] 1,                             -- duplicate: no-op
   .complete 1 1 (some 11) (some 7) .Success (some 10) (some 40) "completed" 1,
   .heartbeat [(1, 1, 11)] 50 2,                                -- late heartbeat after completion: clamped
   .compact, .deactivate 7 "preempted" 45 2, .compact]

-- job 1 (sub-group 1): 3 units × 30 ms; job 2 (root group): 1 unit × 33 ms; the root group counts both
example : get (run demo).ctr (.aJob 1 1 5) = 90 ∧ get (run demo).ctr (.aJob 1 2 5) = 33 ∧
    get (run demo).ctr (.aGroup 1 0 5) = 123 ∧ get (run demo).ctr (.aGroup 1 1 5) = 90 ∧
    get (run demo).ctr (.aBpUser 1 1 5) = 123 ∧ byDateTotal (run demo).ctr 1 1 5 = 123 := by decide

-- the usage is spread over three billing days
example : [0, 1, 2].map (fun d => get (run demo).ctr (.aByDate d 1 1 5)) = [30, 78, 15] := by decide

end HailVerif.C02

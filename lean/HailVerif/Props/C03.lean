import HailVerif.Proofs.AttemptsTrigger
import HailVerif.Model.AttemptBilling
/-!
# C03 — Billed attempt time is monotone and bounded by the attempt

Subject: `Generated.AttemptsTrigger.attemptsBeforeUpdate` (the BEFORE UPDATE trigger on `attempts`, re-translated from the SQL
text of the working tree on every run), `msecDiffRollup` (the increment `attempts_after_update` adds to the billing
aggregates) and `billedAtInsert` (what `attempt_resources_after_insert` bills for an attempt's current times).

`upd old new` is the row MySQL stores when an `UPDATE` proposes `new` for the stored row `old`.
`AttemptBilling.run` (Model/AttemptBilling.lean) is what the three triggers make of a history of reports and resource
registrations of one attempt: the stored row and, per `attempt_resources` row, the usage the aggregated tables hold.
All statements are for every stored row and every proposed row; the `seq_*` theorems lift them to every finite
sequence of reports starting from the all-NULL row that `add_attempt` inserts.
-/
namespace HailVerif.C03
open HailVerif HailVerif.Generated.AttemptsTrigger HailVerif.AttemptsTriggerSpec

abbrev upd := attemptsBeforeUpdate

/-- billed duration of a row, as an integer: `GREATEST(COALESCE(rollup - start, 0), 0)` -/
def billed (r : Row) : Int :=
  match r.start_time, r.rollup_time with
  | some s, some ro => max (ro - s) 0
  | _, _ => 0

/-- stored-row invariant: the rollup time never lies after the end time -/
def Inv (r : Row) : Prop :=
  ∀ ro e, r.rollup_time = some ro → r.end_time = some e → ro ≤ e

/-- the report moves the end earlier; an attempt without an end counts as ending at +∞ -/
def endEarlier (old acc : Row) : Prop :=
  match old.end_time, acc.end_time with
  | none, some _ => True
  | some e, some e' => e' < e
  | _, none => False

def isTimeout (r : Row) : Prop := r.reason = some "activation_timeout"

/-- the row inserted by `add_attempt` -/
def fresh : Row := ⟨none, none, none, none⟩

/-! ## tie lemmas: the generated SQL expressions are `billed` -/

theorem billedAtInsert_eq (r : Row) : billedAtInsert r.start_time r.rollup_time = some (billed r) := by
  unfold billedAtInsert billed
  cases r.start_time <;> cases r.rollup_time <;> simp [Sql3.coalesce, Sql3.greatest]

/-- the increment added by `attempts_after_update` telescopes: it is `billed new − billed old` -/
theorem msecDiffRollup_eq (old new : Row) :
    msecDiffRollup old.start_time old.rollup_time new.start_time new.rollup_time = some (billed new - billed old) := by
  unfold msecDiffRollup billed
  cases old.start_time <;> cases old.rollup_time <;> cases new.start_time <;> cases new.rollup_time <;>
    simp [Sql3.coalesce, Sql3.greatest]

/-! ## the property -/

/-- billed time is never negative -/
theorem billed_nonneg (r : Row) : 0 ≤ billed r := by
  unfold billed; split <;> omega

/-- every stored row has `rollup ≤ end` (whatever was stored before and whatever is proposed) -/
theorem upd_inv (old new : Row) : Inv (upd old new) := by
  intro ro e h1 h2
  rw [upd, upd_eq_spec] at h1 h2
  exact spec6_rollup_le_end _ _ ro e h1 h2

/-- once ended, billed time never exceeds end − start (clamped at 0 for reports whose end precedes the start) -/
theorem billed_le_span (old new : Row) (s e : Int)
    (hs : (upd old new).start_time = some s) (he : (upd old new).end_time = some e) :
    billed (upd old new) ≤ max (e - s) 0 := by
  have hinv := upd_inv old new
  unfold billed
  rw [hs]
  cases hro : (upd old new).rollup_time with
  | none => simp; omega
  | some ro => have := hinv ro e hro he; simp; omega

/-- billed time never decreases across a report unless the report moves the end earlier or marks an activation timeout.
Hypothesis `hnull`: the report does not propose a NULL rollup over a stored one (no procedure does: the only NULL-time
reports target attempts that have no times yet). -/
theorem billed_monotone_unless (old new : Row) (hinv : Inv old)
    (hnull : new.rollup_time ≠ none ∨ old.rollup_time = none) :
    billed old ≤ billed (upd old new) ∨ isTimeout new ∨ endEarlier old (upd old new) := by
  by_cases ht : new.reason = some "activation_timeout"
  · exact Or.inr (Or.inl ht)
  -- billed old = 0 unless both start and rollup are stored
  cases hos : old.start_time with
  | none => left; have := billed_nonneg (upd old new); simp [billed, hos]; simpa [billed] using this
  | some s =>
  cases hor : old.rollup_time with
  | none => left; have := billed_nonneg (upd old new); simp [billed, hos, hor]; simpa [billed] using this
  | some q =>
  have hn : ∃ n, new.rollup_time = some n := by
    rcases hnull with h | h
    · cases hnr : new.rollup_time with
      | none => exact absurd hnr h
      | some n => exact ⟨n, rfl⟩
    · rw [hor] at h; exact absurd h (by simp)
  obtain ⟨n, hn⟩ := hn
  obtain ⟨s', hs', hle⟩ := start_after old new s hos ht
  -- x = row after clamps 1–3
  have hx : (spec3 old (spec2 old (spec1 old new))).rollup_time = some n := by simp [hn]
  obtain ⟨r, hr, hqr⟩ := rollup_after45 old _ n q hx hor
  have hstart : (upd old new).start_time = some s' := by
    rw [upd, upd_eq_spec]; simp [spec, hs']
  rcases rollup_after6 old _ r hr with ⟨_, h6⟩ | ⟨e, he, h6⟩
  · left
    have hroll : (upd old new).rollup_time = some r := by rw [upd, upd_eq_spec]; exact h6
    simp only [billed, hos, hor, hstart, hroll]; omega
  · have hroll : (upd old new).rollup_time = some (min r e) := by rw [upd, upd_eq_spec]; exact h6
    have hend : (upd old new).end_time = some e := by
      rw [upd, upd_eq_spec]; simp only [spec, spec6_end]; exact he
    by_cases hqe : q ≤ e
    · left; simp only [billed, hos, hor, hstart, hroll]; omega
    · right; right
      unfold endEarlier; rw [hend]
      cases hoe : old.end_time with
      | none => trivial
      | some oe => have := hinv q oe hor hoe; simp; omega

/-- a report that marks an activation timeout bills nothing: whatever is stored and whatever else the report carries (a start time
in particular), the accepted row has no start time, so its billed duration is 0 -/
theorem timeout_bills_nothing (old new : Row) (ht : isTimeout new) :
    (upd old new).start_time = none ∧ billed (upd old new) = 0 := by
  have hs : (upd old new).start_time = none := by
    rw [upd, upd_eq_spec]
    simp only [spec, spec6_start, spec5_start, spec4_start, spec3_start]
    have hr : (spec1 old new).reason = some "activation_timeout" := by rw [spec1_reason]; exact ht
    unfold spec2; rw [if_pos hr]
  exact ⟨hs, by simp [billed, hs]⟩

/-- the start time only ever moves earlier (unless the report marks an activation timeout, which erases it) -/
theorem start_only_earlier (old new : Row) (s : Int) (hs : old.start_time = some s) (ht : ¬ isTimeout new) :
    ∃ s', (upd old new).start_time = some s' ∧ s' ≤ s := by
  obtain ⟨s', hs', hle⟩ := start_after old new s hs ht
  refine ⟨s', ?_, hle⟩
  rw [upd, upd_eq_spec]; simp [spec, hs']

/-- once an attempt has an end reason, a later report either leaves end and reason alone or replaces the end by a strictly
earlier one -/
theorem end_only_earlier_once_reason (old new : Row) (hr : old.reason ≠ none) :
    ((upd old new).end_time = old.end_time ∧ (upd old new).reason = old.reason) ∨
    (∃ e e', old.end_time = some e ∧ (upd old new).end_time = some e' ∧ e' < e) := by
  rw [upd, upd_eq_spec]
  simp only [spec, spec6_end, spec5_end, spec4_end, spec6_reason, spec5_reason, spec4_reason]
  cases hr' : old.reason with
  | none => exact absurd hr' hr
  | some r =>
    have hxe : (spec2 old (spec1 old new)).end_time = new.end_time := by simp
    unfold spec3; rw [hr']; simp only
    cases hoe : old.end_time with
    | none => left; simp
    | some oe =>
      cases hne : (spec2 old (spec1 old new)).end_time with
      | none => left; simp
      | some ne =>
        by_cases hge : ne ≥ oe
        · left; simp [hge]
        · right; exact ⟨oe, ne, rfl, by simp [hge]; rw [← hxe]; exact hne, by omega⟩

/-! ## every sequence of reports -/

/-- the stored row after a sequence of proposed rows -/
def run (r : Row) (reports : List Row) : Row := reports.foldl upd r

/-- the row stored after any history of reports satisfies the invariant, so `billed_monotone_unless` applies at
every step of every history -/
theorem seq_inv (reports : List Row) : Inv (run fresh reports) := by
  suffices h : ∀ r, Inv r → Inv (run r reports) from h fresh (by intro ro e h; simp [fresh] at h)
  induction reports with
  | nil => intro r h; exact h
  | cons x xs ih => intro r _; exact ih _ (upd_inv r x)

/-- after any history: billed is non-negative and, if the attempt has ended, at most end − start -/
theorem seq_billed_bounded (reports : List Row) :
    0 ≤ billed (run fresh reports) ∧
    ∀ s e, (run fresh reports).start_time = some s → (run fresh reports).end_time = some e →
      billed (run fresh reports) ≤ max (e - s) 0 := by
  refine ⟨billed_nonneg _, ?_⟩
  intro s e hs he
  have hinv := seq_inv reports
  unfold billed
  rw [hs]
  cases hro : (run fresh reports).rollup_time with
  | none => simp; omega
  | some ro => have := hinv ro e hro he; simp; omega

/-- every step of every history is monotone up to the two exemptions -/
theorem seq_step_monotone (reports : List Row) (next : Row)
    (hnull : next.rollup_time ≠ none ∨ (run fresh reports).rollup_time = none) :
    billed (run fresh reports) ≤ billed (run fresh (reports ++ [next])) ∨ isTimeout next ∨
      endEarlier (run fresh reports) (run fresh (reports ++ [next])) := by
  have : run fresh (reports ++ [next]) = upd (run fresh reports) next := by simp [run, List.foldl_append]
  rw [this]
  exact billed_monotone_unless _ _ (seq_inv reports) hnull

/-! ## what is actually billed: the usage the aggregated tables hold for the attempt's resources -/

open HailVerif.AttemptBilling in
/-- the aggregated usage of every resource of the attempt is its quantity times the billed duration of the stored row -/
def Billed (a : AttemptBilling.Att) : Prop := ∀ r ∈ a.res, r.usage = billed a.row * r.quantity

open HailVerif.AttemptBilling in
/-- every report and every resource registration keeps `usage = quantity × billed(row)`: the increment of
`attempts_after_update` telescopes and `attempt_resources_after_insert` bills the current row -/
theorem step_billed (a : Att) (ev : Ev) (h : Billed a) : Billed (a.step ev) := by
  cases ev with
  | report new =>
    intro r hr
    simp only [Att.step, List.mem_map] at hr
    obtain ⟨r0, hr0, rfl⟩ := hr
    have hd := msecDiffRollup_eq a.row (attemptsBeforeUpdate a.row new)
    simp only [Att.step, hd, added, h r0 hr0]
    rw [← Int.add_mul]
    congr 1
    omega
  | addResource q =>
    intro r hr
    simp only [Att.step, List.mem_append, List.mem_singleton] at hr
    rcases hr with hr | rfl
    · exact h r hr
    · simp only [Att.step, billedAtInsert_eq a.row, added]

open HailVerif.AttemptBilling in
/-- after any history of reports and resource registrations, each resource is billed quantity × billed(row) … -/
theorem seq_usage_eq (evs : List Ev) : Billed (AttemptBilling.run AttemptBilling.fresh evs) := by
  suffices h : ∀ a, Billed a → Billed (AttemptBilling.run a evs) from h _ (by intro r hr; simp [AttemptBilling.fresh] at hr)
  induction evs with
  | nil => intro a h; exact h
  | cons e es ih => intro a h; exact ih _ (step_billed a e h)

open HailVerif.AttemptBilling in
/-- a report that marks an activation timeout leaves nothing billed for any resource of the attempt -/
theorem timeout_report_usage_zero (a : Att) (hb : Billed a) (new : Row) (ht : isTimeout new) :
    ∀ r ∈ (a.step (.report new)).res, r.usage = 0 := by
  intro r hr
  rw [step_billed a (.report new) hb r hr]
  have : (a.step (.report new)).row = upd a.row new := rfl
  rw [this, (timeout_bills_nothing a.row new ht).2, Int.zero_mul]

open HailVerif.AttemptBilling in
/-- … hence never a negative amount (the aggregated delta never drives a resource's usage below zero) … -/
theorem seq_usage_nonneg (evs : List Ev) (r : Res) (hr : r ∈ (AttemptBilling.run AttemptBilling.fresh evs).res) (hq : 0 ≤ r.quantity) :
    0 ≤ r.usage := by
  rw [seq_usage_eq evs r hr]
  exact Int.mul_nonneg (billed_nonneg _) hq

open HailVerif.AttemptBilling in
/-- … and, while the stored row satisfies the stored-row invariant (every row stored by an `UPDATE` does, `upd_inv`), once the
attempt has ended never more than quantity × (end − start), clamped at 0 -/
theorem usage_le_span (a : Att) (hb : Billed a) (hinv : Inv a.row) (s e : Int)
    (hs : a.row.start_time = some s) (he : a.row.end_time = some e) (r : Res) (hr : r ∈ a.res) (hq : 0 ≤ r.quantity) :
    r.usage ≤ max (e - s) 0 * r.quantity := by
  rw [hb r hr]
  apply Int.mul_le_mul_of_nonneg_right _ hq
  unfold billed
  rw [hs]
  cases hro : a.row.rollup_time with
  | none => simp; omega
  | some ro => have := hinv ro e hro he; simp; omega

/-! ## non-vacuity: the clamps and the exemptions are exercised by concrete reachable rows -/

-- a heartbeat after start bills; a completion with an earlier end than the last heartbeat is the "earlier end" exemption
example : billed (run fresh [⟨some 1, some 1, none, none⟩, ⟨some 1, some 5, none, none⟩]) = 4 := by decide
example : billed (run fresh [⟨some 1, some 1, none, none⟩, ⟨some 1, some 5, none, none⟩, ⟨some 1, some 3, some 3, some "completed"⟩]) = 2 := by decide
-- late activation_timeout report on an attempt that already has a reason: start is erased, billed drops to 0 (exempted)
example : upd ⟨some 1, some 2, some 2, some "completed"⟩ ⟨some 1, some 2, some 2, some "activation_timeout"⟩
    = ⟨none, some 2, some 2, some "completed"⟩ := by decide
-- a late duplicate of the creating / started report reaching an attempt that timed out: the start stays erased, nothing is billed
example : upd ⟨none, some 4, some 4, some "activation_timeout"⟩ ⟨some 1, some 1, some 4, some "activation_timeout"⟩
    = ⟨none, some 4, some 4, some "activation_timeout"⟩ := by decide
-- why `hnull` is needed: a NULL rollup proposed over a stored one erases the billed time
example : billed (upd ⟨some 1, some 4, none, none⟩ ⟨some 1, none, none, some "error"⟩) = 0 ∧
    billed (⟨some 1, some 4, none, none⟩ : Row) = 3 := by decide
-- report with end before start (clock skew): billed is clamped to 0
example : billed (upd ⟨some 5, some 5, none, none⟩ ⟨some 5, some 3, some 3, some "completed"⟩) = 0 := by decide
-- the same skew with resources registered: start reported at 5 (worker clock), unscheduled at 3 (driver clock): nothing is billed,
-- and a late duplicate start at 1 then bills 3 - 1 = 2 per unit
open HailVerif.AttemptBilling in
example : (AttemptBilling.run AttemptBilling.fresh [.report ⟨some 5, some 5, none, none⟩, .addResource 4, .report ⟨none, some 3, some 3, some "cancelled"⟩]).res
    = [⟨4, 0⟩] := by decide
open HailVerif.AttemptBilling in
example : (AttemptBilling.run AttemptBilling.fresh [.report ⟨some 5, some 5, none, none⟩, .addResource 4, .report ⟨none, some 3, some 3, some "cancelled"⟩,
      .report ⟨some 1, some 1, none, none⟩]).res = [⟨4, 8⟩] := by decide
-- resources registered after billed time accrued are billed for it at once
open HailVerif.AttemptBilling in
example : (AttemptBilling.run AttemptBilling.fresh [.report ⟨some 1, some 1, none, none⟩, .report ⟨none, some 6, none, none⟩, .addResource 3]).res
    = [⟨3, 15⟩] := by decide

end HailVerif.C03


import HailVerif.Proofs.Copy
/-!
# C22 — Copy tool reproduces sources exactly

Subject: `HailVerif.Copy` — `partPlan` (the multi-part arithmetic of `SourceCopier._copy_file_multi_part_main` / `_copy_part`)
and `copySpec` (the destination rules of `Transfer` / `SourceCopier` / `Copier` over a local file system), tied to
`hailtop/aiotools/fs/copier.py` by the correspondence check `harness/props/c22.py`.

Partial with respect to the informal statement: the tool copies concurrently, the model copies one file after the other; the two
agree when sources and destinations do not overlap (the check only generates such cases and varies the interleaving), and the
theorems below about `copySource` are per source.
-/
namespace HailVerif.C22
open HailVerif.Copy

/-! ## A. Part plan (for every size, part size ≥ 1 and buffer size ≥ 1) -/

/-- multi-part copy is used exactly for files larger than the part size -/
theorem plan_is_multipart_iff (size part buf : Nat) : (partPlan size part buf).isSome ↔ part < size := by
  unfold partPlan; split <;> simp <;> omega

variable {size part buf : Nat} {ps : List Part}

/-- `n_parts = ⌈size / part_size⌉`, numbered `0 … n_parts-1` in order -/
theorem n_parts (hp : 1 ≤ part) (h : partPlan size part buf = some ps) :
    ps.length = (size + part - 1) / part ∧ ps.map (·.number) = List.range ps.length := by
  unfold partPlan at h
  split at h
  · cases h
  · cases h
    simp [nParts_eq size part hp, Function.comp_def]

/-- **parts tile**: the parts, in order, cover `[0, size)` without gap or overlap -/
theorem parts_tile (h : partPlan size part buf = some ps) : Tiles (ps.map fun p => (p.start, p.size)) 0 size := by
  unfold partPlan at h
  split at h
  · cases h
  · cases h
    have := planIntervals_tile size part
    simpa [planIntervals, Function.comp_def] using this

/-- … so writing each part's slice of the source at the part's offset reproduces the source byte for byte -/
theorem parts_reassemble (h : partPlan size part buf = some ps) (blob : List Nat) (hb : blob.length = size) :
    (ps.map fun p => slice blob p.start p.size).flatten = blob := by
  have := (parts_tile h).slices blob
  simp only [List.map_map, Function.comp_def] at this
  rw [this, slice, ← hb]
  simp

/-- every part is non-empty and at most `part_size` bytes -/
theorem part_size_le (hp : 1 ≤ part) (h : partPlan size part buf = some ps) : ∀ p ∈ ps, 1 ≤ p.size ∧ p.size ≤ part := by
  unfold partPlan at h
  split at h
  · cases h
  · cases h
    intro p hp'
    obtain ⟨i, _, rfl⟩ := List.mem_map.mp hp'
    exact thisPartSize_bounds size part i hp

/-- part `i` starts at `i * part_size`; all parts but the last are full, the last one is the remainder -/
theorem part_offsets_and_last (hp : 1 ≤ part) (h : partPlan size part buf = some ps) :
    ∀ p ∈ ps, p.start = p.number * part ∧
      (p.number + 1 < ps.length → p.size = part) ∧ (p.number + 1 = ps.length → p.size = size - p.number * part) := by
  unfold partPlan at h
  split at h
  · cases h
  · next hlt =>
    cases h
    intro p hp'
    obtain ⟨i, hi, rfl⟩ := List.mem_map.mp hp'
    have hi' : i < nParts size part := List.mem_range.mp hi
    simp only [List.length_map, List.length_range]
    have hd := Nat.div_add_mod size part
    have hm := Nat.mod_lt size (by omega : part > 0)
    rw [Nat.mul_comm] at hd
    refine ⟨by simp, ?_, ?_⟩
    · intro hlt'
      have : ¬ (i = nParts size part - 1) := by omega
      simp [thisPartSize, this]
    · intro hlast
      unfold thisPartSize
      have hi1 : i = nParts size part - 1 := by omega
      by_cases h0 : size % part = 0
      · have hn : nParts size part = size / part := by simp [nParts, h0]
        have : ¬ (i = nParts size part - 1 ∧ size % part ≠ 0) := by simp [h0]
        rw [if_neg this]
        have hi2 : i + 1 = size / part := by omega
        have : (i + 1) * part = size := by rw [hi2]; omega
        rw [Nat.add_mul] at this
        omega
      · have hn : nParts size part = size / part + 1 := by simp [nParts, h0]
        rw [if_pos ⟨hi1, h0⟩]
        have hi2 : i = size / part := by omega
        rw [hi2]; omega

/-- inside a part the ranged reads `open_from(src, offset, length)` tile the part, each at most `BUFFER_SIZE` bytes -/
theorem reads_tile_part (hb : 1 ≤ buf) (h : partPlan size part buf = some ps) :
    ∀ p ∈ ps, Tiles p.reads p.start (p.start + p.size) ∧ ∀ r ∈ p.reads, 1 ≤ r.2 ∧ r.2 ≤ buf := by
  unfold partPlan at h
  split at h
  · cases h
  · cases h
    intro p hp'
    obtain ⟨i, _, rfl⟩ := List.mem_map.mp hp'
    have := readsLoop_spec buf (i * part) (thisPartSize size part i) hb (thisPartSize size part i) (thisPartSize size part i)
      (Nat.le_refl _) (Nat.le_refl _)
    simpa using this

/-! ## B. Destination rules -/

/-- **bytes preserved (file source)**: when copying a file succeeds, the destination given by the rules holds exactly its bytes -/
theorem bytes_preserved_file {t t' : Tree} {x : Transfer} {src : Loc} {c : List Nat}
    (hsrc : t.get src.path = some (.file c)) (h : copySource t x src = .ok t') :
    src.slash = false ∧ t'.get (fullDest t x src).1 = some (.file c) := by
  unfold copySource at h
  rw [hsrc] at h
  cases hs : src.slash with
  | true => rw [hs] at h; cases h
  | false =>
    rw [hs] at h
    simp only at h
    split at h
    · cases h
    · split at h
      · cases h
      · exact ⟨rfl, (writeFile_ok h).1⟩

/-- **bytes preserved (directory source)**: when copying a directory succeeds, every file below it (at relative path `rel`)
is found at the destination the copier computes for it (`fileDest`) with exactly its bytes — provided the listed files go to
pairwise different destinations (otherwise the last writer wins, in an order the tool does not fix) -/
theorem bytes_preserved_dir {t t' : Tree} {x : Transfer} {src : Loc}
    (hsrc : t.get src.path = some .dir) (h : copySource t x src = .ok t')
    (hinj : ∀ f ∈ filesUnder t src.path, ∀ g ∈ filesUnder t src.path, fileDest t x src f.1 = fileDest t x src g.1 → f.1 = g.1)
    (rel : Path) (c : List Nat)
    (hrel : rel ≠ []) (hdom : (src.path ++ rel) ∈ t.dom) (hfile : t.get (src.path ++ rel) = some (.file c)) :
    t'.get (fileDest t x src rel) = some (.file c) := by
  unfold copySource at h
  rw [hsrc] at h
  simp only at h
  split at h
  · cases h
  · split at h
    · cases h
    · have hmem : (rel, c) ∈ filesUnder t src.path := mem_filesUnder.mpr ⟨hdom, hrel, hfile⟩
      have hfun : ∀ f ∈ filesUnder t src.path, ∀ g ∈ filesUnder t src.path, fileDest t x src f.1 = fileDest t x src g.1 → f.2 = g.2 :=
        fun f hf g hg he => filesUnder_functional t src.path f hf g hg (hinj f hf g hg he)
      exact (writeAll_spec _ _ _ _ h).2.2.2.2 hfun (rel, c) hmem

/-- the destinations of one source -/
def destPaths (t : Tree) (x : Transfer) (src : Loc) : List Path :=
  match t.get src.path with
  | some (.file _) => [(fullDest t x src).1]
  | some .dir => (filesUnder t src.path).map fun f => fileDest t x src f.1
  | none => []

/-- **untouched elsewhere**: a successful copy changes nothing that exists and is not a destination, and creates nothing except
destinations and their missing parent directories -/
theorem untouched_elsewhere {t t' : Tree} {x : Transfer} {src : Loc} (h : copySource t x src = .ok t') (q : Path)
    (hq : q ∉ destPaths t x src) :
    (t.get q ≠ none → t'.get q = t.get q) ∧
      ((∀ d ∈ destPaths t x src, isAncestor q d = false) → t'.get q = t.get q) := by
  unfold copySource at h
  unfold destPaths at hq ⊢
  cases hsrc : t.get src.path with
  | none => rw [hsrc] at h; cases h
  | some n =>
    cases n with
    | file c =>
      rw [hsrc] at h hq
      cases hs : src.slash with
      | true => rw [hs] at h; cases h
      | false =>
        rw [hs] at h
        simp only at h
        split at h
        · cases h
        · split at h
          · cases h
          · obtain ⟨_, w2, w3, _, _⟩ := writeFile_ok h
            have hne : q ≠ (fullDest t x src).1 := by simpa using hq
            exact ⟨w3 q hne, fun ha => w2 q hne (ha _ (by simp))⟩
    | dir =>
      rw [hsrc] at h hq
      simp only at h
      split at h
      · cases h
      · split at h
        · cases h
        · obtain ⟨_, _, s3, s4, _⟩ := writeAll_spec _ _ _ _ h
          have hne : ∀ f ∈ filesUnder t src.path, q ≠ fileDest t x src f.1 := by
            intro f hf hc
            exact hq (List.mem_map.mpr ⟨f, hf, hc.symm⟩)
          refine ⟨s3 q hne, fun ha => s4 q fun f hf => ⟨hne f hf, ha _ (List.mem_map.mpr ⟨f, hf, rfl⟩)⟩⟩

/-- **a retried file copy is invisible**: when a transient error makes `retry_transient_errors` copy a file (or a part's file)
again, writing the same bytes to the same destination a second time leaves the tree exactly as the first complete write did -/
theorem retried_write_is_invisible {t t₁ t₂ : Tree} {p : Path} {c : List Nat} (h₁ : writeFile t p c = .ok t₁)
    (h₂ : writeFile t₁ p c = .ok t₂) : ∀ q, t₂.get q = t₁.get q := by
  intro q
  obtain ⟨a1, _, _, _, _⟩ := writeFile_ok h₁
  obtain ⟨b1, b2, b3, _, _⟩ := writeFile_ok h₂
  by_cases hqp : q = p
  · rw [hqp, a1, b1]
  · by_cases ha : isAncestor q p = true
    · exact b3 q hqp (writeFile_ancestors h₁ q ha)
    · exact b2 q hqp (by simpa using ha)

/-- nothing is ever removed and no path changes between file and directory — for one source, one transfer, any list of transfers -/
theorem copySource_keeps_kinds {t t' : Tree} {x : Transfer} {src : Loc} (h : copySource t x src = .ok t') : KeepsKinds t t' := by
  unfold copySource at h
  split at h
  · simp only at h
    split at h
    · cases h
    · split at h
      · cases h
      · exact writeFile_keepsKinds h
  · simp only at h
    split at h
    · cases h
    · split at h
      · cases h
      · exact (writeAll_spec _ _ _ _ h).1
  · cases h

private theorem foldlM_keeps {α : Type} (f : Tree → α → Except Err Tree) (hf : ∀ t a t', f t a = .ok t' → KeepsKinds t t') :
    ∀ (l : List α) (t t' : Tree), l.foldlM f t = .ok t' → KeepsKinds t t' := by
  intro l
  induction l with
  | nil => intro t t' h; simp only [List.foldlM_nil, pure, Except.pure] at h; cases h; exact KeepsKinds.refl _
  | cons a l ih =>
    intro t t' h
    simp only [List.foldlM_cons, bind, Except.bind] at h
    cases h1 : f t a with
    | error e => rw [h1] at h; cases h
    | ok t1 => rw [h1] at h; exact (hf _ _ _ h1).trans (ih _ _ h)

theorem copyAll_keeps_kinds {t t' : Tree} {xs : List Transfer} (h : copyAll t xs = .ok t') : KeepsKinds t t' := by
  apply foldlM_keeps copySpec _ xs t t' h
  intro t x t' hx
  unfold copySpec at hx
  split at hx
  · cases hx
  · exact foldlM_keeps (fun t s => copySource t x s) (fun _ _ _ => copySource_keeps_kinds) _ _ _ hx

/-! ### the documented errors -/

/-- missing source (also: a file named with a trailing slash) → FileNotFoundError -/
theorem missing_source (t : Tree) (x : Transfer) (src : Loc)
    (h : t.get src.path = none ∨ (src.slash = true ∧ ∃ c, t.get src.path = some (.file c))) :
    copySource t x src = .error .notFound := by
  unfold copySource
  rcases h with h | ⟨hs, c, h⟩
  · rw [h]
  · rw [h, hs]

/-- file onto directory → IsADirectoryError: the target is declared a directory (`dest/` with DEST_IS_TARGET) or is one -/
theorem file_onto_directory (t : Tree) (x : Transfer) (src : Loc) (c : List Nat) (hsrc : t.get src.path = some (.file c))
    (hs : src.slash = false) (hstat : destStatFails t x = false)
    (h : (fullDest t x src).2 = some .dir ∨
      (t.get (fullDest t x src).1 = some .dir ∧
        ∀ k, 0 < k → k < (fullDest t x src).1.length → isFile (t.get ((fullDest t x src).1.take k)) = false)) :
    copySource t x src = .error .isADir := by
  unfold copySource
  rw [hsrc, hs]
  simp only [hstat, Bool.false_eq_true, if_false]
  rcases h with h | ⟨hd, hanc⟩
  · rw [if_pos h]
  · by_cases h2 : (fullDest t x src).2 = some .dir
    · rw [if_pos h2]
    · rw [if_neg h2]
      unfold writeFile
      have : (List.range (fullDest t x src).1.length).any
          (fun k => decide (0 < k) && isFile (t.get ((fullDest t x src).1.take k))) = false := by
        rw [List.any_eq_false]
        intro k hk
        have hk' := List.mem_range.mp hk
        by_cases h0 : 0 < k
        · simp [hanc k h0 hk']
        · simp [h0]
      rw [this]
      simp [hd]

/-- directory onto file → NotADirectoryError: INFER_DEST finds a file at the destination (or on the way to it) -/
theorem directory_onto_file (t : Tree) (x : Transfer) (src : Loc) (hsrc : t.get src.path = some .dir)
    (h : (fullDest t x src).2 = some .file ∨ destStatFails t x = true) : copySource t x src = .error .notADir := by
  unfold copySource
  rw [hsrc]
  simp only
  rcases h with h | h
  · rw [if_pos h]; split <;> rfl
  · rw [if_pos h]

/-- a list of sources cannot be copied to a single target → NotADirectoryError -/
theorem source_list_onto_target (t : Tree) (x : Transfer) (h : x.mode = .destIsTarget) (hl : x.single = false) :
    copySpec t x = .error .notADir := by
  unfold copySpec
  rw [if_pos ⟨h, by simp [hl]⟩]

/-! ### the three ways to name the destination -/

/-- DEST_DIR (and INFER_DEST with a trailing slash): `url_join(dest, url_basename(src.rstrip('/')))` -/
theorem fullDest_dest_dir (t : Tree) (x : Transfer) (src : Loc) (h : x.mode = .destDir ∨ (x.mode = .inferDest ∧ x.dest.slash = true)) :
    (fullDestStr t x src).1 = urlJoin x.dest.raw (urlBasename (rstripSlash src.raw)) := by
  have : effMode x = .destDir := by
    unfold effMode
    rcases h with h | ⟨h1, h2⟩
    · simp [h]
    · simp [h1, h2]
  simp [fullDestStr, this]

/-- DEST_IS_TARGET: always `dest` itself, verbatim -/
theorem fullDest_target (t : Tree) (x : Transfer) (src : Loc) (h : x.mode = .destIsTarget) :
    (fullDestStr t x src).1 = x.dest.raw ∧ (fullDest t x src).1 = x.dest.path := by
  have : effMode x = .destIsTarget := by simp [effMode, h]
  have h1 : ¬ (Mode.destIsTarget = Mode.inferDest) := by decide
  have h2 : ¬ (Mode.destIsTarget = Mode.destDir) := by decide
  have hs : (fullDestStr t x src).1 = x.dest.raw := by
    unfold fullDestStr
    simp only [this, h1, h2, false_and, or_self, if_false, true_and]
    split <;> rfl
  exact ⟨hs, by simp [fullDest, hs, Loc.path]⟩

/-- INFER_DEST without trailing slash and with a single source: into `dest` if it is an existing directory, else onto `dest` -/
theorem fullDest_infer (t : Tree) (x : Transfer) (src : Loc) (h : x.mode = .inferDest) (hs : x.dest.slash = false)
    (h1 : x.single = true) :
    (fullDestStr t x src).1 =
      if t.get x.dest.path = some .dir then urlJoin x.dest.raw (urlBasename (rstripSlash src.raw)) else x.dest.raw := by
  have hm : effMode x = .inferDest := by simp [effMode, h, hs]
  unfold fullDestStr
  simp only [hm, destType, h1]
  cases hg : t.get x.dest.path with
  | none => simp
  | some n => cases n <;> simp [Node.kind]

/-! ### `url_basename` / `url_join` versus file names

The documented rule for copying *into* a directory is `dest/<last component of src>`, and a file below a directory source goes to
`<full dest>/<relative path>`.  The copier computes both through `urllib.parse.urlparse`, which treats `#`, `?` and `;` as URL
syntax even in a plain local path. -/

/-- full statement: the name a source gets inside the destination directory is its last path component -/
def BasenameIsLastComponent : Prop := ∀ s : Str, urlBasename s = osBasename s

/-- **Finding** — a source named `report#1.txt` is copied to `dest/report` (likewise `?` and `;`). -/
theorem basename_is_last_component_refuted : ¬ BasenameIsLastComponent := by
  intro h
  have := h ['/', 's', '/', 'r', '#', '1']
  revert this
  decide

/-- full statement: joining a relative path onto a destination appends it -/
def JoinAppends : Prop := ∀ d rel : Str, urlJoin d rel = osJoin d rel

/-- **Finding** — with a destination directory named `out#v2`, `url_join` puts the file next to `out`: `/d/out/f#v2`. -/
theorem join_appends_refuted : ¬ JoinAppends := by
  intro h
  have := h ['/', 'd', '/', 'o', '#', '2'] ['f']
  revert this
  decide

/-- a string free of URL syntax: no `#`, `?`, `;`, and not a `file://` URL -/
def PlainPath (s : Str) : Prop := '#' ∉ s ∧ '?' ∉ s ∧ ';' ∉ s ∧ stripFilePrefix s = ([], s)

private theorem takeWhile_all (p : Char → Bool) : ∀ s : Str, (∀ a ∈ s, p a = true) → s.takeWhile p = s ∧ s.dropWhile p = []
  | [], _ => ⟨rfl, rfl⟩
  | a :: s, h => by
    have ha := h a List.mem_cons_self
    have := takeWhile_all p s (fun b hb => h b (List.mem_cons_of_mem _ hb))
    simp [List.takeWhile, List.dropWhile, ha, this.1, this.2]

private theorem mem_of_mem_takeWhile' (p : Char → Bool) (x : Char) : ∀ s : Str, x ∈ s.takeWhile p → x ∈ s
  | [], h => by simp at h
  | a :: s, h => by
    simp only [List.takeWhile] at h
    split at h
    · rcases List.mem_cons.mp h with rfl | h'
      · exact List.mem_cons_self
      · exact List.mem_cons_of_mem _ (mem_of_mem_takeWhile' p x s h')
    · simp at h

private theorem cutAt_absent (c : Char) (s : Str) (h : c ∉ s) : cutAt c s = (s, []) := by
  have := takeWhile_all (fun x => decide (x ≠ c)) s (fun a ha => by
    simp only [ne_eq, decide_not, Bool.not_eq_eq_eq_not, Bool.not_true, decide_eq_false_iff_not]
    intro hc; exact h (hc ▸ ha))
  unfold cutAt
  rw [this.1, this.2]
  rfl

private theorem dir_last (s : Str) :
    (s.reverse.dropWhile (· ≠ '/')).reverse ++ (s.reverse.takeWhile (· ≠ '/')).reverse = s := by
  rw [← List.reverse_append, List.takeWhile_append_dropWhile, List.reverse_reverse]

/-- **partial**: on plain paths `urlparse` is the identity on the path -/
theorem urlparse_plain (s : Str) (h : PlainPath s) : urlparse s = ⟨[], s, [], [], []⟩ := by
  obtain ⟨h1, h2, h3, h4⟩ := h
  have hl : ';' ∉ (s.reverse.takeWhile (· ≠ '/')).reverse := by
    intro hm
    have := mem_of_mem_takeWhile' _ _ _ (List.mem_reverse.mp hm)
    exact h3 (List.mem_reverse.mp this)
  simp only [urlparse, h4, cutAt_absent '#' s h1, cutAt_absent '?' s h2, cutAt_absent ';' _ hl, dir_last, if_true]

/-- **partial** of `BasenameIsLastComponent`: names without `#`, `?`, `;` -/
theorem basename_is_last_component_partial (s : Str) (h : PlainPath s) : urlBasename s = osBasename s := by
  simp [urlBasename, urlparse_plain s h]

/-- **partial** of `JoinAppends`: destinations without `#`, `?`, `;` -/
theorem join_appends_partial (d rel : Str) (h : PlainPath d) : urlJoin d rel = osJoin d rel := by
  simp [urlJoin, urlparse_plain d h, urlunparse]

/-! ## Non-vacuity -/

example : partPlan 10 3 2 = some [⟨0, 0, 3, [(0, 2), (2, 1)]⟩, ⟨1, 3, 3, [(3, 2), (5, 1)]⟩, ⟨2, 6, 3, [(6, 2), (8, 1)]⟩,
    ⟨3, 9, 1, [(9, 1)]⟩] := by decide
example : partPlan 9 3 4 = some [⟨0, 0, 3, [(0, 3)]⟩, ⟨1, 3, 3, [(3, 3)]⟩, ⟨2, 6, 3, [(6, 3)]⟩] := by decide
example : partPlan 3 3 2 = none := by decide
example : partPlan 4 3 2 = some [⟨0, 0, 3, [(0, 2), (2, 1)]⟩, ⟨1, 3, 1, [(3, 1)]⟩] := by decide

end HailVerif.C22

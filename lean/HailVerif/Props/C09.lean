import HailVerif.Proofs.BatchDBSubmission
import HailVerif.Props.C07
/-!
# C09 — Submission is idempotent under client retries

Subject: the BatchDB model (`HailVerif.BatchDB`; one `step` per transaction of the service):
`createBatch` = `_create_batch`, `createUpdate` = `_create_batch_update`, `insertGroups` = `_create_job_groups`,
`insertJobs` = `_create_jobs`, `commitUpdate` = procedure `commit_batch_update` (front_end.py, sql/116).
`after s ops`, `Reachable s` are those of `Props/C07.lean`.

A *retry* is the same request sent again.  For every request kind the second send leaves the database exactly as the
first left it (`…_idem`: `step (step s op).1 op = ((step s op).1, (step s op).2)`, i.e. same state AND same answer), with
ONE exception the model exhibits faithfully: a re-sent job-group bunch is not a silent success, it is answered
`400 job group specs were not submitted in order` — and changes nothing (`insertGroups_resend_rejected_unchanged`).
-/
namespace HailVerif.C09
open HailVerif.BatchDB HailVerif.BatchDB.Submission
open HailVerif.C07 (after Reachable)

/-- every reachable state satisfies an invariant of `init` that every transaction preserves -/
theorem reachable_of_inv (P : State → Prop) (h0 : P init) (hstep : ∀ s op, P s → P (step s op).1) {s : State}
    (h : Reachable s) : P s := by
  obtain ⟨ops, rfl⟩ := h
  exact foldl_inv P hstep ops init h0

/-! ## (1) batch-create -/

/-- Re-sending a batch-create request answers the same batch id and changes nothing: no second batch. -/
theorem createBatch_idem (s : State) (u bp t : Nat) :
    step (step s (.createBatch u bp t)).1 (.createBatch u bp t) =
      ((step s (.createBatch u bp t)).1, (step s (.createBatch u bp t)).2) :=
  Submission.createBatch_idem s u bp t

/-- Whenever a batch with this (token, user) exists — however long ago it was created — the request answers its id and
changes nothing. -/
theorem createBatch_known_token (s : State) (u bp t : Nat) (bt : Batch)
    (h : s.batches.find? (fun b => b.token = t ∧ b.user = u) = some bt) :
    step s (.createBatch u bp t) = (s, .ok bt.id) := by
  show createBatch s u bp t = _
  simp only [createBatch, h]

/-! ## (2) update-create -/

/-- Re-sending an update-create request answers the same update id and changes nothing: no second update, no second
reservation of id ranges. -/
theorem createUpdate_idem (s : State) (b t nj ng usr : Nat) :
    step (step s (.createUpdate b t nj ng usr)).1 (.createUpdate b t nj ng usr) =
      ((step s (.createUpdate b t nj ng usr)).1, (step s (.createUpdate b t nj ng usr)).2) :=
  Submission.createUpdate_idem s b t nj ng usr

/-- The token is looked up before the cancelled check: whenever an update of the batch carries this token and the caller
owns the (non-deleted) batch, the request answers the stored update id and changes nothing — even if the batch has
meanwhile been cancelled.  (Since repo commit 4c50f4344 the lookup is restricted to the owner; anybody else gets 404.) -/
theorem createUpdate_known_token (s : State) (b t nj ng usr : Nat) (u : Update) (hn : ¬ (nj = 0 ∧ ng = 0))
    (h : s.updates.find? (fun u => u.batch = b ∧ u.token = t ∧ ownedBy s b usr) = some u) :
    step s (.createUpdate b t nj ng usr) = (s, .ok u.id) := by
  show createUpdate s b t nj ng usr = _
  simp only [createUpdate, hn, if_false, h]

/-! ## (3) job bunch -/

/-- ER_DUP_ENTRY early return of `_create_jobs`: a bunch that passes the id checks (`specIdsOk`: they depend only on the
specs and on `start_job_id` / `n_jobs` of the update row, so a bunch that passed them once passes them again), whose first job
passes the `jobs_before_insert` trigger (group not cancelled) and whose first job id already exists is answered `ok` and
changes nothing. -/
theorem insertJobs_dup_noop (s : State) (b upd user : Nat) (first : JobSpec) (rest : List JobSpec) (u : Update) (bt : Batch)
    (hu : findUpdate s b upd = some u) (hbt : findBatch s b = some bt) (h1 : bt.user = user) (h2 : bt.deleted = false)
    (h3 : u.committed = false) (hids : ∀ sp ∈ first :: rest, specIdsOk u sp = true)
    (hnc : groupCancelled s b (mkJob u b first).group = false)
    (hdup : (findJob s b (first.relId + u.startJob - 1)).isSome) :
    step s (.insertJobs b upd user (first :: rest)) = (s, .ok 0) :=
  insertJobs_dup s b upd user first rest u bt hu hbt h1 h2 h3 hids hnc hdup

/-- Re-sending a job bunch: the state after the second send is the state after the first, and the answer is the same
(an accepted bunch is answered `ok 0` both times; a refused bunch is refused again). -/
theorem insertJobs_idem (s : State) (b upd user : Nat) (specs : List JobSpec) :
    step (step s (.insertJobs b upd user specs)).1 (.insertJobs b upd user specs) =
      ((step s (.insertJobs b upd user specs)).1, (step s (.insertJobs b upd user specs)).2) :=
  Submission.insertJobs_idem s b upd user specs

/-- A job bunch (that passed the id checks when it was first sent: `hids`) retried after ANY interleaving of other requests
(other clients' updates, driver activity, …): the first job row still exists and the update's `start_job_id` / `n_jobs` are
unchanged, so — as long as the update is still uncommitted, the
batch not deleted and the first job's group not cancelled — the retry is answered `ok` and changes nothing. -/
theorem insertJobs_retry_later (s : State) (ops : List Op) (b upd user : Nat) (first : JobSpec) (rest : List JobSpec)
    (u : Update) (hu : findUpdate s b upd = some u) (hj : (findJob s b (first.relId + u.startJob - 1)).isSome)
    (hids : ∀ sp ∈ first :: rest, specIdsOk u sp = true) :
    ∃ u', findUpdate (after s ops) b upd = some u' ∧ u'.startJob = u.startJob ∧ u'.startGroup = u.startGroup ∧
      ∀ bt, findBatch (after s ops) b = some bt → bt.user = user → bt.deleted = false → u'.committed = false →
        groupCancelled (after s ops) b (mkJob u' b first).group = false →
        step (after s ops) (.insertJobs b upd user (first :: rest)) = (after s ops, .ok 0) := by
  obtain ⟨u', h, -, -, -, a4, a5, a6, -, -⟩ := findUpdate_run ops s hu
  refine ⟨u', h, a4, a6, ?_⟩
  intro bt hbt h1 h2 h3 hnc
  have hids' : ∀ sp ∈ first :: rest, specIdsOk u' sp = true := by
    intro sp hsp
    have := hids sp hsp
    unfold specIdsOk at this ⊢
    rw [a4, a5]; exact this
  have hj' : (findJob (after s ops) b (first.relId + u'.startJob - 1)).isSome := by
    rw [a4]
    exact foldl_inv (fun t => (findJob t b (first.relId + u.startJob - 1)).isSome)
      (fun t op ht => findJob_isSome_step t op ht) ops s hj
  exact insertJobs_dup_noop _ b upd user first rest u' bt h hbt h1 h2 h3 hids' hnc hj'

/-- no job row is duplicated: (batch_id, job_id) stays a key of `jobs` in every reachable state -/
theorem jobs_never_duplicated {s : State} (h : Reachable s) : (s.jobs.map fun j => (j.batch, j.id)).Nodup :=
  (HailVerif.C07.reachable_inv h).1

/-- A duplicate bunch adds nothing to any counter: for EVERY key of the sharded counter tables and billing aggregates
(`n_jobs`, `n_ready_jobs`, `ready_cores_mcpu`, cancellable rows …) the value after the second send equals the value
after the first. -/
theorem no_double_count (s : State) (b upd user : Nat) (specs : List JobSpec) (k : CKey) :
    get (step (step s (.insertJobs b upd user specs)).1 (.insertJobs b upd user specs)).1.ctr k =
      get (step s (.insertJobs b upd user specs)).1.ctr k := by
  rw [insertJobs_idem]

/-- … and neither does a re-sent commit (the staged counts are added to the user's ready counters only once). -/
theorem no_double_count_commit (s : State) (b upd : Nat) (k : CKey) :
    get (step (step s (.commitUpdate b upd)).1 (.commitUpdate b upd)).1.ctr k =
      get (step s (.commitUpdate b upd)).1.ctr k := by
  show get (commitUpdate (commitUpdate s b upd).1 b upd).1.ctr k = get (commitUpdate s b upd).1.ctr k
  rw [commitUpdate_idem]

/-! ## (4) job-group bunch -/

/-- A re-sent job-group bunch is NOT accepted a second time and is NOT a silent success: since the first group id of
the bunch is no longer `max(job_group_id) + 1`, `_create_job_groups` raises `400 job group specs were not submitted in
order`, and the transaction changes nothing.  (The client treats this as an error; no group is duplicated.) -/
theorem insertGroups_resend_rejected_unchanged (s : State) (b upd user : Nat) (specs : List GroupSpec)
    (hok : (step s (.insertGroups b upd user specs)).2 = .ok 0) :
    step (step s (.insertGroups b upd user specs)).1 (.insertGroups b upd user specs) =
      ((step s (.insertGroups b upd user specs)).1, .err "out-of-order") :=
  insertGroups_resend s b upd user specs hok

/-- whatever the first answer was, the second send never changes the state the first left -/
theorem insertGroups_resend_state (s : State) (b upd user : Nat) (specs : List GroupSpec) :
    (step (step s (.insertGroups b upd user specs)).1 (.insertGroups b upd user specs)).1 =
      (step s (.insertGroups b upd user specs)).1 := by
  rcases insertGroups_cases s b upd user specs with ⟨e, he⟩ | ⟨_, _, _, _, _, _, _, _, _, _, _, _, e, _⟩
  · show (insertGroups (insertGroups s b upd user specs).1 b upd user specs).1 = (insertGroups s b upd user specs).1
    rw [he]; simp only; rw [he]
  · have hok : (step s (.insertGroups b upd user specs)).2 = .ok 0 := by
      show (insertGroups s b upd user specs).2 = _; rw [e]
    rw [insertGroups_resend_rejected_unchanged s b upd user specs hok]

/-! ## (5) commit -/

/-- Re-sending a commit: same state, same return code (`0` after a successful commit). -/
theorem commit_idem (s : State) (b upd : Nat) :
    step (step s (.commitUpdate b upd)).1 (.commitUpdate b upd) =
      ((step s (.commitUpdate b upd)).1, (step s (.commitUpdate b upd)).2) :=
  commitUpdate_idem s b upd

/-- Committing an already committed update — at any later time — answers 0 and changes nothing. -/
theorem commit_committed (s : State) (b upd : Nat) (u : Update) (hu : findUpdate s b upd = some u)
    (hc : u.committed = true) : step s (.commitUpdate b upd) = (s, .ok 0) := by
  show commitUpdate s b upd = _
  simp only [commitUpdate, hu, hc, if_true]

/-- a committed update stays committed, and its reserved ranges never change, across any history -/
theorem update_row_stable (s : State) (ops : List Op) (b upd : Nat) (u : Update) (hu : findUpdate s b upd = some u) :
    ∃ u', findUpdate (after s ops) b upd = some u' ∧ u'.startJob = u.startJob ∧ u'.nJobs = u.nJobs ∧
      u'.startGroup = u.startGroup ∧ u'.nGroups = u.nGroups ∧ u'.token = u.token ∧
      (u.committed = true → u'.committed = true) := by
  obtain ⟨u', h, -, -, a3, a4, a5, a6, a7, a8⟩ := findUpdate_run ops s hu
  exact ⟨u', h, a4, a5, a6, a7, a3, a8⟩

/-- hence a commit retried after ANY interleaving of other requests is still answered 0 without effect -/
theorem commit_retry_later (s : State) (ops : List Op) (b upd : Nat) (u : Update) (hu : findUpdate s b upd = some u)
    (hc : u.committed = true) : step (after s ops) (.commitUpdate b upd) = (after s ops, .ok 0) := by
  obtain ⟨u', h, -, -, -, -, -, hc'⟩ := update_row_stable s ops b upd u hu
  exact commit_committed _ b upd u' h (hc' hc)

/-! ## (6) reserved id ranges -/

/-- **Range invariant.**  In every reachable state and for every batch, the `batch_updates` rows of the batch in
insertion order `u₁, u₂, …` satisfy (`ChainedFrom none`, unfolding `Follows`):
`u₁.id = 1 ∧ u₁.startJob = 1 ∧ u₁.startGroup = 1` and
`u_{k+1}.id = u_k.id + 1 ∧ u_{k+1}.startJob = u_k.startJob + u_k.nJobs ∧ u_{k+1}.startGroup = u_k.startGroup + u_k.nGroups`
— zero-size parts included. -/
theorem ranges_contiguous {s : State} (h : Reachable s) (b : Nat) : ChainedFrom none (updatesOf s b) :=
  reachable_of_inv RangesOK rangesOK_init rangesOK_step h b

/-- the update ids of a batch are exactly 1, 2, …, n in insertion order -/
theorem update_ids {s : State} (h : Reachable s) (b : Nat) :
    (updatesOf s b).map (·.id) = List.range' 1 (updatesOf s b).length :=
  chained_ids _ none (ranges_contiguous h b)

/-- closed form: the k-th update's job-id range starts at 1 + the job counts of all earlier updates (same for groups) -/
theorem range_start {s : State} (h : Reachable s) (b i : Nat) (hi : i < (updatesOf s b).length) :
    ((updatesOf s b)[i]).startJob = 1 + (((updatesOf s b).take i).map (·.nJobs)).sum ∧
    ((updatesOf s b)[i]).startGroup = 1 + (((updatesOf s b).take i).map (·.nGroups)).sum :=
  chained_startJob _ none (ranges_contiguous h b) i hi

/-- the reserved ranges `[startJob, startJob + nJobs)` and `[startGroup, startGroup + nGroups)` of two updates of one
batch are disjoint and lie in update order -/
theorem ranges_disjoint_ordered {s : State} (h : Reachable s) (u v : Update) (hu : u ∈ s.updates) (hv : v ∈ s.updates)
    (hb : u.batch = v.batch) (hlt : u.id < v.id) :
    u.startJob + u.nJobs ≤ v.startJob ∧ u.startGroup + u.nGroups ≤ v.startGroup := by
  have hp := chained_pairwise _ none (ranges_contiguous h v.batch)
  have hu' : u ∈ updatesOf s v.batch := by simp [updatesOf, hu, hb]
  have hv' : v ∈ updatesOf s v.batch := by simp [updatesOf, hv]
  -- one of the two precedes the other in the list; ids increase along the list
  rcases List.mem_iff_getElem.mp hu' with ⟨i, hi, rfl⟩
  rcases List.mem_iff_getElem.mp hv' with ⟨j, hj, hjv⟩
  rw [List.pairwise_iff_getElem] at hp
  rcases Nat.lt_trichotomy i j with hij | hij | hij
  · have := hp i j hi hj hij; rw [hjv] at this; exact this.2
  · subst hij; rw [hjv] at hlt; omega
  · have := (hp j i hj hi hij).1; rw [hjv] at this; omega

/-- (batch_id, update_id) is a key of `batch_updates`: there is never a second update with the same id -/
theorem update_key_unique {s : State} (h : Reachable s) (u v : Update) (hu : u ∈ s.updates) (hv : v ∈ s.updates)
    (hb : u.batch = v.batch) (hid : u.id = v.id) : u = v :=
  chained_id_inj _ none (ranges_contiguous h v.batch) u v (by simp [updatesOf, hu, hb]) (by simp [updatesOf, hv]) hid

/-! ## (7) the ids the client computes are the ids the server assigns -/

/-- `aioclient.Job._submit`: `self._job_id = in_update_start_job_id + self._job_id - 1`, with the start id the server
returned (update-create / fast-path / commit response: the `start_job_id` column of the update row) -/
def clientJobId (startJobId inUpdateId : Nat) : Nat := startJobId + inUpdateId - 1

/-- `aioclient.JobGroup._submit`: `self._job_group_id = in_update_start_job_group_id + self._job_group_id - 1` -/
def clientGroupId (startGroupId inUpdateId : Nat) : Nat := startGroupId + inUpdateId - 1

/-- the server's id mapping in `_create_jobs` is the client's: job id, in-update group, in-update parents -/
theorem client_ids_agree (u : Update) (b : Nat) (sp : JobSpec) :
    (mkJob u b sp).id = clientJobId u.startJob sp.relId ∧
    (sp.absGroup = none → (mkJob u b sp).group = clientGroupId u.startGroup sp.relGroup) ∧
    (∀ g, sp.absGroup = some g → (mkJob u b sp).group = g) ∧
    jobParents u sp = sp.absParents ++ sp.relParents.map (clientJobId u.startJob) := by
  refine ⟨by simp only [mkJob, clientJobId]; omega, ?_, ?_, rfl⟩
  · intro h; simp [mkJob, h, clientGroupId]
  · intro g h; simp [mkJob, h]

/-- the server's id mapping in `_create_job_groups` is the client's: the group rows an accepted bunch adds have
exactly the ids the client will compute -/
theorem client_group_ids_agree (s : State) (b upd user : Nat) (specs : List GroupSpec)
    (hok : (step s (.insertGroups b upd user specs)).2 = .ok 0) :
    ∃ u new, findUpdate s b upd = some u ∧ (step s (.insertGroups b upd user specs)).1.groups = s.groups ++ new ∧
      new.map (·.id) = specs.map (fun sp => clientGroupId u.startGroup sp.relId) ∧ ∀ g ∈ new, g.batch = b := by
  rcases insertGroups_cases s b upd user specs with ⟨e, he⟩ | ⟨_, _, u, _, new, _, hu, _, _, _, _, _, e, hn, hid, -⟩
  · have : (insertGroups s b upd user specs).2 = .ok 0 := hok
    rw [he] at this; cases this
  · refine ⟨u, new, hu, ?_, hid, fun g hg => (hn g hg).1⟩
    show (insertGroups s b upd user specs).1.groups = _
    rw [e]

/-- End to end: when a job bunch is written (the request was not a no-op), looking up the id the client computes for
each of its jobs — from the `start_job_id` of the update row, which never changes (`update_row_stable`) — finds exactly
the row the server built from that job's spec.  (Later transactions only rewrite the mutable columns of that row:
`findJob_shape`.) -/
theorem client_job_lookup {s : State} (hr : Reachable s) (b upd user : Nat) (specs : List JobSpec)
    (hw : (step s (.insertJobs b upd user specs)).1.jobs ≠ s.jobs) (u : Update) (hu : findUpdate s b upd = some u) :
    ∀ sp ∈ specs, findJob (step s (.insertJobs b upd user specs)).1 b (clientJobId u.startJob sp.relId) =
      some (mkJob u b sp) := by
  intro sp hsp
  have hr' : Reachable (step s (.insertJobs b upd user specs)).1 := by
    obtain ⟨pre, rfl⟩ := hr
    exact ⟨pre ++ [.insertJobs b upd user specs], by rw [HailVerif.C07.after_snoc]⟩
  have hun := (HailVerif.C07.reachable_inv hr').1
  rcases insertJobs_cases s b upd user specs with ⟨o, e⟩ | ⟨first, rest, u', bt, hs, hu', hbt, hrej, e⟩
  · exact absurd (show (insertJobs s b upd user specs).1.jobs = s.jobs by rw [e]) hw
  · rw [hu] at hu'; cases hu'
    have hmem : mkJob u b sp ∈ (step s (.insertJobs b upd user specs)).1.jobs := by
      show mkJob u b sp ∈ (insertJobs s b upd user specs).1.jobs
      rw [e]; simp only [insertJobsApply, List.mem_append, List.mem_map]
      exact Or.inr ⟨sp, hsp, rfl⟩
    have := findJob_of_mem hun (mkJob u b sp) hmem
    rw [(client_ids_agree u b sp).1] at this
    exact this

/-! ## non-vacuity: a concrete history with every request duplicated -/

/-- batch, update 1 (1 group, 2 jobs), commit; update 2 (0 groups, 1 job depending on job 2), commit — every request
sent twice -/
def demo : List Op :=
  [.createBatch 1 1 100, .createBatch 1 1 100,
   .createUpdate 1 200 2 1 1, .createUpdate 1 200 2 1 1,
   .insertGroups 1 1 1 [⟨1, some 0, 0⟩], .insertGroups 1 1 1 [⟨1, some 0, 0⟩],
   .insertJobs 1 1 1 [⟨1, [], [], none, 1, false, 1000, 0⟩, ⟨2, [], [1], some 0, 0, false, 1000, 0⟩],
   .insertJobs 1 1 1 [⟨1, [], [], none, 1, false, 1000, 0⟩, ⟨2, [], [1], some 0, 0, false, 1000, 0⟩],
   .commitUpdate 1 1, .commitUpdate 1 1,
   .createUpdate 1 201 1 0 1, .createUpdate 1 201 1 0 1,
   .insertJobs 1 2 1 [⟨1, [2], [], some 0, 0, false, 500, 0⟩], .insertJobs 1 2 1 [⟨1, [2], [], some 0, 0, false, 500, 0⟩],
   .commitUpdate 1 2, .commitUpdate 1 2]

/-- the same history with every request sent once -/
def demoOnce : List Op :=
  [.createBatch 1 1 100, .createUpdate 1 200 2 1 1, .insertGroups 1 1 1 [⟨1, some 0, 0⟩],
   .insertJobs 1 1 1 [⟨1, [], [], none, 1, false, 1000, 0⟩, ⟨2, [], [1], some 0, 0, false, 1000, 0⟩],
   .commitUpdate 1 1, .createUpdate 1 201 1 0 1,
   .insertJobs 1 2 1 [⟨1, [2], [], some 0, 0, false, 500, 0⟩], .commitUpdate 1 2]

-- one batch, two updates with contiguous ranges, three jobs with the ids the client computes
example : (after init demo).batches.length = 1 ∧
    ((after init demo).updates.map fun u => (u.id, u.startJob, u.nJobs, u.startGroup, u.nGroups, u.committed)) =
      [(1, 1, 2, 1, 1, true), (2, 3, 1, 2, 0, true)] ∧
    ((after init demo).jobs.map fun j => (j.id, j.update, j.group)) = [(1, 1, 1), (2, 1, 0), (3, 2, 0)] := by decide
-- duplicated and single histories end in the same rows and the same batch job count
example : (after init demo).jobs = (after init demoOnce).jobs ∧ (after init demo).updates = (after init demoOnce).updates ∧
    (after init demo).groups = (after init demoOnce).groups ∧ (after init demo).batches = (after init demoOnce).batches ∧
    (after init demo).parents = (after init demoOnce).parents := by decide
-- … and in the same counter values (user ready jobs / cores, staging rows)
example : get (after init demo).ctr (.uReady 1 0) = get (after init demoOnce).ctr (.uReady 1 0) ∧
    get (after init demo).ctr (.uReadyCores 1 0) = get (after init demoOnce).ctr (.uReadyCores 1 0) ∧
    get (after init demo).ctr (.sJobs 1 1 0 0) = 2 ∧ get (after init demo).ctr (.sJobs 1 2 0 0) = 1 := by decide
-- the re-sent group bunch is answered with the ordering error
example : (step (after init (demo.take 5)) (.insertGroups 1 1 1 [⟨1, some 0, 0⟩])).2 = .err "out-of-order" := by decide

end HailVerif.C09

import HailVerif.Proofs.Bunch
/-!
# C19 — Client spec bunching preserves order and limits

Subject: `HailVerif.Bunch.createBunches`, the model of
`hailtop.batch_client.aioclient.Batch._create_bunches`, tied to the code by the
correspondence check `harness/props/c19.py`.

All theorems quantify over every spec type, every size function, every pair of
spec lists and every pair of limits.
-/
namespace HailVerif.C19
open HailVerif.Bunch

variable {α : Type} (size : α → Nat) (groups jobs : List α) (maxBytes maxN : Nat)

/-- The function answers (no assertion fires) exactly when both limits are positive and every
spec is strictly smaller than the byte limit. -/
theorem accepted_iff :
    (createBunches size groups jobs maxBytes maxN).isSome ↔
      0 < maxBytes ∧ 0 < maxN ∧ ∀ x ∈ groups ++ jobs, size x < maxBytes := by
  unfold createBunches
  split
  next h => simp; omega
  next h =>
    have := go_none_iff size maxBytes maxN (groups ++ jobs) [] [] 0
    rw [Option.isSome_iff_ne_none, ne_eq, this]
    constructor
    · intro hx; refine ⟨by omega, by omega, ?_⟩
      intro x hxm; exact Nat.lt_of_not_le fun hc => hx ⟨x, hxm, hc⟩
    · rintro ⟨_, _, hall⟩ ⟨x, hxm, hle⟩; have := hall x hxm; omega

private theorem spec {bs : List (List α)}
    (h : createBunches size groups jobs maxBytes maxN = some bs) :
    bs.flatten = groups ++ jobs ∧ ∀ b ∈ bs, Good size maxBytes maxN b := by
  unfold createBunches at h
  split at h
  · exact absurd h (by simp)
  next hl =>
    have := go_spec size maxBytes maxN (by omega) (groups ++ jobs) [] [] 0 bs
      ⟨by simp [bytes], by simp, Or.inl rfl⟩ h
    simpa using this

/-- Concatenating the bunches gives back exactly the specifications, in order, with all job
groups before all jobs. -/
theorem flatten_eq_input {bs : List (List α)}
    (h : createBunches size groups jobs maxBytes maxN = some bs) :
    bs.flatten = groups ++ jobs := (spec size groups jobs maxBytes maxN h).1

/-- Every bunch is strictly below the byte limit. -/
theorem each_bunch_bytes_lt {bs : List (List α)}
    (h : createBunches size groups jobs maxBytes maxN = some bs) :
    ∀ b ∈ bs, bytes size b < maxBytes := fun b hb => (spec size groups jobs maxBytes maxN h).2 b hb |>.2.1

/-- Every bunch respects the count limit. -/
theorem each_bunch_len_le {bs : List (List α)}
    (h : createBunches size groups jobs maxBytes maxN = some bs) :
    ∀ b ∈ bs, b.length ≤ maxN := fun b hb => (spec size groups jobs maxBytes maxN h).2 b hb |>.2.2

/-- No bunch is empty (the submit path asserts this). -/
theorem no_empty_bunch {bs : List (List α)}
    (h : createBunches size groups jobs maxBytes maxN = some bs) :
    ∀ b ∈ bs, b ≠ [] := fun b hb => (spec size groups jobs maxBytes maxN h).2 b hb |>.1

/-- Consequence of `flatten_eq_input`: the total number of submitted specs is preserved. -/
theorem count_preserved {bs : List (List α)}
    (h : createBunches size groups jobs maxBytes maxN = some bs) :
    (bs.map List.length).sum = groups.length + jobs.length := by
  have := congrArg List.length (flatten_eq_input size groups jobs maxBytes maxN h)
  simpa [List.length_flatten] using this

/-! Non-vacuity: concrete inputs at the boundaries meet the hypotheses. -/

-- byte boundary: 3 + 4 = 7 = maxBytes - 1 fits, the next spec starts a new bunch
example : createBunches id [3] [4, 1] 8 10 = some [[3, 4], [1]] := by decide
-- count boundary: maxN = 2
example : createBunches id [] [1, 1, 1, 1, 1] 100 2 = some [[1, 1], [1, 1], [1]] := by decide
-- a spec of exactly maxBytes is refused
example : createBunches id [] [8] 8 10 = none := by decide
example : createBunches id [] ([] : List Nat) 8 10 = some [] := by decide

end HailVerif.C19

import HailVerif.Proofs.Bunch
import HailVerif.Proofs.Submit
/-!
# C19 — Client spec bunching preserves order and limits

Subject: `HailVerif.Bunch.createBunches`, the model of
`hailtop.batch_client.aioclient.Batch._create_bunches`, tied to the code by the
correspondence check `harness/props/c19.py`.

All theorems quantify over every spec type, every size function, every pair of
spec lists and every pair of limits.
-/
namespace HailVerif.C19
open HailVerif.Bunch

variable {α : Type} (size : α → Nat) (groups jobs : List α) (maxBytes maxN : Nat)

/-- The function answers (no assertion fires) exactly when both limits are positive and every
spec is strictly smaller than the byte limit. -/
theorem accepted_iff :
    (createBunches size groups jobs maxBytes maxN).isSome ↔
      0 < maxBytes ∧ 0 < maxN ∧ ∀ x ∈ groups ++ jobs, size x < maxBytes := by
  unfold createBunches
  split
  next h => simp; omega
  next h =>
    have := go_none_iff size maxBytes maxN (groups ++ jobs) [] [] 0
    rw [Option.isSome_iff_ne_none, ne_eq, this]
    constructor
    · intro hx; refine ⟨by omega, by omega, ?_⟩
      intro x hxm; exact Nat.lt_of_not_le fun hc => hx ⟨x, hxm, hc⟩
    · rintro ⟨_, _, hall⟩ ⟨x, hxm, hle⟩; have := hall x hxm; omega

private theorem spec {bs : List (List α)}
    (h : createBunches size groups jobs maxBytes maxN = some bs) :
    bs.flatten = groups ++ jobs ∧ ∀ b ∈ bs, Good size maxBytes maxN b := by
  unfold createBunches at h
  split at h
  · exact absurd h (by simp)
  next hl =>
    have := go_spec size maxBytes maxN (by omega) (groups ++ jobs) [] [] 0 bs
      ⟨by simp [bytes], by simp, Or.inl rfl⟩ h
    simpa using this

/-- Concatenating the bunches gives back exactly the specifications, in order, with all job
groups before all jobs. -/
theorem flatten_eq_input {bs : List (List α)}
    (h : createBunches size groups jobs maxBytes maxN = some bs) :
    bs.flatten = groups ++ jobs := (spec size groups jobs maxBytes maxN h).1

/-- Every bunch is strictly below the byte limit. -/
theorem each_bunch_bytes_lt {bs : List (List α)}
    (h : createBunches size groups jobs maxBytes maxN = some bs) :
    ∀ b ∈ bs, bytes size b < maxBytes := fun b hb => (spec size groups jobs maxBytes maxN h).2 b hb |>.2.1

/-- Every bunch respects the count limit. -/
theorem each_bunch_len_le {bs : List (List α)}
    (h : createBunches size groups jobs maxBytes maxN = some bs) :
    ∀ b ∈ bs, b.length ≤ maxN := fun b hb => (spec size groups jobs maxBytes maxN h).2 b hb |>.2.2

/-- No bunch is empty (the submit path asserts this). -/
theorem no_empty_bunch {bs : List (List α)}
    (h : createBunches size groups jobs maxBytes maxN = some bs) :
    ∀ b ∈ bs, b ≠ [] := fun b hb => (spec size groups jobs maxBytes maxN h).2 b hb |>.1

/-- Consequence of `flatten_eq_input`: the total number of submitted specs is preserved. -/
theorem count_preserved {bs : List (List α)}
    (h : createBunches size groups jobs maxBytes maxN = some bs) :
    (bs.map List.length).sum = groups.length + jobs.length := by
  have := congrArg List.length (flatten_eq_input size groups jobs maxBytes maxN h)
  simpa [List.length_flatten] using this

/-! Non-vacuity: concrete inputs at the boundaries meet the hypotheses. -/

-- byte boundary: 3 + 4 = 7 = maxBytes - 1 fits, the next spec starts a new bunch
example : createBunches id [3] [4, 1] 8 10 = some [[3, 4], [1]] := by decide
-- count boundary: maxN = 2
example : createBunches id [] [1, 1, 1, 1, 1] 100 2 = some [[1, 1], [1, 1], [1]] := by decide
-- a spec of exactly maxBytes is refused
example : createBunches id [] [8] 8 10 = none := by decide
example : createBunches id [] ([] : List Nat) 8 10 = some [] := by decide

/-! ## The caller: the pending-spec buffers of `aioclient.Batch` across several `submit()` calls

Subject: `HailVerif.Submit.step` / `run` (`Model/Submit.lean`), the model of `_create_job_group` / `_create_job` /
`submit()` as far as they decide which specs go on the wire; tied to the code by the `submits` cases of
`harness/props/c19.py` (a real `Batch` with a recording client, 1–3 submits). -/

section Caller
open HailVerif.Submit

variable {β : Type} (sz : β → Nat)

/-- One `submit()` that is not stopped by an assertion puts on the wire exactly the specs created since the last
reset — all job groups in order, then all jobs in order, nothing else — in bunches that respect both limits, and
leaves every buffer empty. -/
theorem submit_posts_exactly_pending (s s' : St β) (maxBytes maxN : Nat) (w : Wire β)
    (h : step sz s (.submit maxBytes maxN) = (s', some (.sent w))) :
    w.bunches.flatten = (s.groupSpecs.map fun x => (Typ.group, x)) ++ (s.jobSpecs.map fun x => (Typ.job, x)) ∧
    w.groups = s.groupSpecs ∧ w.jobs = s.jobSpecs ∧
    (∀ b ∈ w.bunches, b ≠ [] ∧ bytes (fun p => sz p.2) b < maxBytes ∧ b.length ≤ maxN) ∧
    s'.groupSpecs = [] ∧ s'.jobSpecs = [] ∧ s'.nGroups = 0 ∧ s'.nJobs = 0 ∧ s'.created = true := by
  rcases step_submit sz s maxBytes maxN with ⟨_, h2⟩ | ⟨bs, r, hb, h2, hg, hj, hw⟩
  · rw [h2] at h; cases h
  · rw [h2] at h
    simp only [Prod.mk.injEq, Option.some.injEq] at h
    obtain ⟨rfl, rfl⟩ := h
    obtain ⟨rfl, _⟩ := hw w rfl
    refine ⟨bunchesOf_flatten sz s maxBytes maxN hb, hg, hj, ?_, rfl, rfl, rfl, rfl, rfl⟩
    intro b hbm
    exact ⟨no_empty_bunch _ _ _ _ _ hb b hbm, each_bunch_bytes_lt _ _ _ _ _ hb b hbm, each_bunch_len_le _ _ _ _ _ hb b hbm⟩

/-- A `submit()` sends nothing only when there is nothing pending; an assertion leaves the buffers untouched. -/
theorem submit_quiet_or_raised (s s' : St β) (maxBytes maxN : Nat) :
    (step sz s (.submit maxBytes maxN) = (s', some .quiet) → s.groupSpecs = [] ∧ s.jobSpecs = [] ∧ s.created = true) ∧
    (step sz s (.submit maxBytes maxN) = (s', some .raised) → s' = s) := by
  constructor
  · intro h
    rcases step_submit sz s maxBytes maxN with ⟨_, h2⟩ | ⟨bs, r, _, h2, hg, hj, hw⟩
    · rw [h2] at h; cases h
    · rw [h2] at h
      simp only [Prod.mk.injEq, Option.some.injEq] at h
      obtain ⟨_, rfl⟩ := h
      refine ⟨by simpa [Result.groups] using hg.symm, by simpa [Result.jobs] using hj.symm, ?_⟩
      cases hc : s.created with
      | true => rfl
      | false =>
        simp only [step] at h2
        split at h2
        · cases h2
        · simp [finish, hc] at h2
  · intro h
    exact (step_unsuccessful_keeps sz s _ s' .raised (Or.inl ⟨_, _, rfl⟩) h (Or.inr rfl)) |> fun ⟨a, b, c, d⟩ => by
      have hc : s'.created = s.created := by
        simp only [step] at h
        cases hb : bunchesOf sz s maxBytes maxN with
        | none => rw [hb] at h; simp only [Prod.mk.injEq] at h; rw [← h.1]
        | some bs =>
          rw [hb] at h
          simp only [finish, Prod.mk.injEq, Option.some.injEq] at h
          obtain ⟨_, h⟩ := h
          split at h
          · cases h
          · split at h <;> cases h
      cases s; cases s'; simp_all

/-- **Every spec is posted exactly once**: for any script of creations and submits on a fresh `Batch`, the job groups
posted by all its submits, followed by those still pending, are exactly the job groups created, in creation order —
no spec is posted twice, none is lost, none is posted by a later submit than the first one after its creation; the
same for jobs. -/
theorem each_spec_posted_exactly_once (ops : List (Op β)) :
    ((run sz St.init ops).2.flatMap Result.groups) ++ (run sz St.init ops).1.groupSpecs = createdGroups ops ∧
    ((run sz St.init ops).2.flatMap Result.jobs) ++ (run sz St.init ops).1.jobSpecs = createdJobs ops := by
  have h1 := run_groups sz ops St.init
  have h2 := run_jobs sz ops St.init
  simp only [St.init, List.nil_append] at h1 h2
  exact ⟨h1, h2⟩

/-- Every request announces exactly the numbers of job groups and jobs it posts (first submit: `_batch_spec`, later
submits: `_update_spec`). -/
theorem announced_counts_match (ops : List (Op β)) (w : Wire β) (h : Result.sent w ∈ (run sz St.init ops).2) :
    w.announcedGroups = w.groups.length ∧ w.announcedJobs = w.jobs.length :=
  run_announced sz ops St.init inv_init w h

/-- A submit whose k-th request is answered with an error (413, 500, connection reset) leaves every pending buffer as it
was — the reset block is not reached and nothing else is remembered from the attempt. -/
theorem failed_submit_keeps_pending (s s' : St β) (maxBytes maxN k : Nat)
    (h : step sz s (.submitFailing maxBytes maxN k) = (s', some .failed)) :
    s'.groupSpecs = s.groupSpecs ∧ s'.jobSpecs = s.jobSpecs ∧ s'.nGroups = s.nGroups ∧ s'.nJobs = s.nJobs :=
  step_unsuccessful_keeps sz s _ s' .failed (Or.inr ⟨_, _, _, rfl⟩) h (Or.inl rfl)

/-- **A retry posts exactly the pending specs under ITS OWN limits**: after any number of unsuccessful attempts (request
errors at any position, assertions; any limits), a submit that goes through puts on the wire exactly the specs that
were pending before the first attempt — all job groups in order, then all jobs in order — in bunches that respect the
limits given to this call, and then resets every buffer. -/
theorem retry_posts_exactly_pending (s : St β) (attempts : List (Op β))
    (hatt : ∀ op ∈ attempts, (∃ b n, op = .submit b n) ∨ (∃ b n k, op = .submitFailing b n k))
    (hfail : ∀ r ∈ (run sz s attempts).2, r = .failed ∨ r = .raised)
    (maxBytes maxN : Nat) (s' : St β) (w : Wire β)
    (h : step sz (run sz s attempts).1 (.submit maxBytes maxN) = (s', some (.sent w))) :
    w.groups = s.groupSpecs ∧ w.jobs = s.jobSpecs ∧
    (∀ b ∈ w.bunches, b ≠ [] ∧ bytes (fun p => sz p.2) b < maxBytes ∧ b.length ≤ maxN) ∧
    s'.groupSpecs = [] ∧ s'.jobSpecs = [] := by
  obtain ⟨k1, k2, _, _⟩ := run_unsuccessful_keeps sz attempts s hatt hfail
  obtain ⟨_, hg, hj, hl, e1, e2, _⟩ := submit_posts_exactly_pending sz _ s' maxBytes maxN w h
  exact ⟨hg.trans k1, hj.trans k2, hl, e1, e2⟩

end Caller

open HailVerif.Submit in
-- two submits: the second one posts only what was created after the first (uids 4 and 5), the first one groups before jobs
example : (run (fun _ : Nat => 10) St.init [.createJob 1, .createGroup 2, .createGroup 3, .submit 1000 10, .createJob 4, .createGroup 5,
    .submit 1000 10]).2.map (fun r => (Submit.Result.groups r, Submit.Result.jobs r)) = [([2, 3], [1]), ([5], [4])] := by decide
open HailVerif.Submit in
-- 10 jobs, limits (10 specs, 10^6 bytes): the 2nd request fails; an 11th job is added; the retry with limit 3 posts all 11 in
-- bunches of at most 3 (nothing of the first attempt's bunching survives)
example : ((run (fun _ : Nat => 100) St.init ((List.range 10).map .createJob ++ [.submitFailing 1000000 4 2, .createJob 10,
    .submit 1000000 3])).2.map fun r => match r with
      | .sent w => w.bunches.map (·.map (·.2))
      | _ => []) = [[], [[0, 1, 2], [3, 4, 5], [6, 7, 8], [9, 10]]] := by decide
open HailVerif.Submit in
-- an update with nothing pending sends nothing; a spec of 1000 bytes or more stops the submit and stays pending
example : (run (fun n : Nat => n) St.init [.submit 1000 10, .submit 1000 10, .createJob 1000, .submit 1000 10, .submit 1001 10]).2.map
    (fun r => (Submit.Result.groups r, Submit.Result.jobs r)) = [([], []), ([], []), ([], []), ([], [1000])] := by decide

end HailVerif.C19

import HailVerif.Proofs.Cache
/-!
# C26 — Service cache is bounded, fresh and single-flight

Subject: `HailVerif.Cache.step/run`, the model of `TimeLimitedMaxSizeCache` (gear/gear/time_limited_max_size_cache.py) whose steps
are the atomic blocks between awaits; tied to the real class by the correspondence check `harness/props/c26.py` (real class under
the deterministic event loop with `time.monotonic_ns` on the virtual clock, state compared after every op).

Every theorem quantifies over ALL op lists `ops` (= all interleavings of concurrent lookups, load completions, load failures,
caller cancellations and clock advances, any number of callers and keys, any capacity and lifetime): `run cfg ops = some (s, tr)`
says `s` is the state after the whole list and `tr` everything that happened so far; the next atomic block `op` is arbitrary.  Since
every prefix of an op list is an op list, "for the final state of every op list" is "after every step".

`failure_locality` is stated for an arbitrary step function (`FailureLocal`) so that the same statement can be shown FALSE for
`stepOld`, the code before the repair (commit e8ccd243b "cancelling one cache lookup no longer cancels the shared load").
-/
namespace HailVerif.C26
open HailVerif.Cache

variable (cfg : Config) (ops : List Op) (s s' : State) (tr e : List Ev) (op : Op)

/-- Bounded: after every step the cache holds at most `num_slots` entries. -/
theorem size_le_slots (h : run cfg ops = some (s, tr)) : s.entries.length ≤ cfg.slots :=
  (reach_inv (run_reach h)).size

/-- Fresh (hits): whenever a lookup returns a cached value `v` for `k` at time `t`, that value was put for `k` by a load that
finished at some `t0 ≤ t` with `t - t0 < lifetime`; and the lookup is the one that was just issued. -/
theorem never_stale_of_inv (hi : Cache.Inv cfg s tr) (hs : step cfg s op = some (s', e)) (c k : Nat) (v : Val) (t : Nat)
    (hh : Ev.hit c k v t ∈ e) :
    op = Op.lookup c k ∧ t = s.now ∧ ∃ t0, Ev.put k v t0 ∈ tr ∧ t0 ≤ t ∧ t < t0 + cfg.lifetime := by
  cases op with
  | lookup c' k' =>
    simp only [step] at hs
    split at hs
    · simp at hs
    · have hx := expire_events k' s.now s.entries
      split at hs
      · next e0 h0 =>
        simp at hs; obtain ⟨rfl, rfl⟩ := hs
        simp only [List.mem_append, List.mem_singleton] at hh
        rcases hh with hh | hh
        · have := hx _ hh; simp at this
        · simp at hh; obtain ⟨rfl, rfl, rfl, rfl⟩ := hh
          obtain ⟨hm, hk, hf⟩ := expire_fresh hi.enodup h0
          obtain ⟨t0, h1, h2, h3⟩ := hi.prov e0 hm
          refine ⟨rfl, rfl, t0, ?_, h2, by omega⟩
          rw [hk] at h3; exact h3
      · split at hs <;>
        · simp at hs; obtain ⟨rfl, rfl⟩ := hs
          simp only [List.mem_append, List.mem_cons] at hh
          rcases hh with hh | hh
          · have := hx _ hh; simp at this
          · simp at hh
  | loadOk k' v' =>
    simp only [step] at hs
    split at hs
    · simp at hs
    · simp at hs; obtain ⟨rfl, rfl⟩ := hs
      have := evict_events cfg.slots (put ⟨k', v', s.now + cfg.lifetime⟩ s.entries)
      simp only [List.mem_cons, List.mem_append, List.mem_map] at hh
      rcases hh with hh | hh | ⟨_, _, hh⟩
      · simp at hh
      · obtain ⟨_, h2⟩ := this _ hh; simp at h2
      · simp at hh
  | loadFail k' =>
    simp only [step] at hs
    split at hs
    · simp at hs
    · simp at hs; obtain ⟨rfl, rfl⟩ := hs
      simp at hh
  | cancelCaller c' =>
    simp only [step] at hs
    split at hs <;> (simp at hs; obtain ⟨rfl, rfl⟩ := hs; simp at hh)
  | advance dt =>
    simp only [step] at hs
    simp at hs; obtain ⟨rfl, rfl⟩ := hs; simp at hh

/-- Fresh (hits): whenever a lookup returns a cached value `v` for `k` at time `t`, that value was put for `k` by a load that
finished at some `t0 ≤ t` with `t - t0 < lifetime`; and the lookup is the one that was just issued. -/
theorem never_stale (h : run cfg ops = some (s, tr)) (hs : step cfg s op = some (s', e)) (c k : Nat) (v : Val) (t : Nat)
    (hh : Ev.hit c k v t ∈ e) :
    op = Op.lookup c k ∧ t = s.now ∧ ∃ t0, Ev.put k v t0 ∈ tr ∧ t0 ≤ t ∧ t < t0 + cfg.lifetime :=
  never_stale_of_inv cfg s s' tr e op (reach_inv (run_reach h)) hs c k v t hh

/-- Fresh (waiters): when the load of `k` returns `v`, every caller waiting for it receives exactly `v`, in the very step that
puts `v` into the cache. -/
theorem waiters_get_loaded_value (k : Nat) (v : Val) (ws : List Nat) (hw : waitersOf k s.inflight = some ws)
    (hs : step cfg s (Op.loadOk k v) = some (s', e)) :
    Ev.put k v s.now ∈ e ∧ (∀ c ∈ ws, Ev.loaded c k v s.now ∈ e) ∧
    ∀ c k' v' t, Ev.loaded c k' v' t ∈ e → c ∈ ws ∧ k' = k ∧ v' = v ∧ t = s.now := by
  simp only [step, hw] at hs
  simp at hs; obtain ⟨rfl, rfl⟩ := hs
  have := evict_events cfg.slots (put ⟨k, v, s.now + cfg.lifetime⟩ s.entries)
  refine ⟨by simp, ?_, ?_⟩
  · intro c hc
    simp only [List.mem_cons, List.mem_append, List.mem_map]
    exact Or.inr (Or.inr ⟨c, hc, rfl⟩)
  · intro c k' v' t hh
    simp only [List.mem_cons, List.mem_append, List.mem_map] at hh
    rcases hh with hh | hh | ⟨c0, hc0, hh⟩
    · simp at hh
    · obtain ⟨_, h2⟩ := this _ hh; simp at h2
    · simp at hh; obtain ⟨rfl, rfl, rfl, rfl⟩ := hh; exact ⟨hc0, rfl, rfl, rfl⟩

/-- Values are opaque: whatever a load returned — `None` (`Val = none`), a falsy `0` / `''` / `[]`, anything — a cached, unexpired
key is a HIT: the lookup returns exactly the stored value at once, starts no load, and changes nothing.  (Whether a key is cached
is decided by the key, never by the value.) -/
theorem cached_value_is_a_hit (c k : Nat) (e0 : Entry) (hf : findKey k s.entries = some e0) (hfresh : s.now < e0.expiry)
    (hc : awaited c s.inflight = none) :
    step cfg s (Op.lookup c k) = some (s, [Ev.hit c k e0.val s.now]) := by
  have hx : expire k s.now s.entries = (s.entries, []) := by
    unfold expire; simp only [hf]; rw [if_neg (by omega)]
  simp only [step, hc, hx, hf]
  simp

/-- Internal consistency, after every step: the cache holds each key once (`_cache`, `_expiry_time` and `_keys_by_expiry` have the
same key set — one list in the model), the expiry index is sorted by expiry, and at most `num_slots` keys are held. -/
theorem internally_consistent (h : run cfg ops = some (s, tr)) :
    (ekeys s.entries).Nodup ∧ Sorted s.entries ∧ s.entries.length ≤ cfg.slots :=
  ⟨(reach_inv (run_reach h)).enodup, reach_sorted (run_reach h), (reach_inv (run_reach h)).size⟩

/-- Single flight (state): after every step `_futures` holds at most one load per key. -/
theorem single_flight (h : run cfg ops = some (s, tr)) : (ikeys s.inflight).Nodup :=
  (reach_inv (run_reach h)).inodup

/-- Single flight (history): at every moment the number of load tasks ever created for `k` exceeds the number that have ended by
exactly one if a load of `k` is in flight and by zero otherwise — never two loads of one key at the same time. -/
theorem single_flight_count (h : run cfg ops = some (s, tr)) (k : Nat) :
    nStarted k tr = nFinished k tr + (if k ∈ ikeys s.inflight then 1 else 0) :=
  (reach_inv (run_reach h)).count k

/-- Single flight (joining): after every step, a lookup of `k` while a load of `k` is in flight starts no load and touches nothing:
all it does is wait for that load. -/
theorem lookup_while_inflight_joins (h : run cfg ops = some (s, tr)) (c k : Nat) (hk : k ∈ ikeys s.inflight)
    (hs : step cfg s (Op.lookup c k) = some (s', e)) :
    e = [Ev.joined c k] ∧ s'.entries = s.entries ∧ ikeys s'.inflight = ikeys s.inflight := by
  have hnone : findKey k s.entries = none := findKey_none.mpr ((reach_inv (run_reach h)).disj k hk)
  have hx : expire k s.now s.entries = (s.entries, []) := by unfold expire; simp [hnone]
  simp only [step, hx, hnone] at hs
  split at hs
  · simp at hs
  · split at hs
    · simp at hs; obtain ⟨rfl, rfl⟩ := hs
      exact ⟨rfl, rfl, ikeys_addWaiter _ _ _⟩
    · next hw => exact absurd hk (waitersOf_none.mp hw)

/-- The branch of `_put` that overwrites a cached key (and would leave `_keys_by_expiry` unsorted) is unreachable: a key whose
load is in flight is never cached. -/
theorem put_target_absent (h : run cfg ops = some (s, tr)) (k : Nat) (hk : k ∈ ikeys s.inflight) :
    findKey k s.entries = none :=
  findKey_none.mpr ((reach_inv (run_reach h)).disj k hk)

/-- Failure locality for a step function `f`: in every reachable state, if the next atomic block makes caller `c` raise, then
either that block is the cancellation of `c` itself, or it is the failure of the very load `c` was waiting for. -/
def FailureLocal (f : State → Op → Option (State × List Ev)) : Prop :=
  ∀ (ops : List Op) (s : State) (tr : List Ev) (op : Op) (s' : State) (e : List Ev) (c : Nat),
    runWith f init ops = some (s, tr) → f s op = some (s', e) → raisedIn e c →
      op = Op.cancelCaller c ∨ ∃ k ws, op = Op.loadFail k ∧ waitersOf k s.inflight = some ws ∧ c ∈ ws

/-- Failure locality holds for the current code. -/
theorem failure_locality : FailureLocal (step cfg) := by
  intro ops s tr op s' e c _ hs hr
  have hx := expire_events
  cases op with
  | lookup c' k' =>
    exfalso
    simp only [step] at hs
    split at hs
    · simp at hs
    · split at hs
      · simp at hs; obtain ⟨rfl, rfl⟩ := hs
        rcases hr with ⟨k, hr⟩ | hr <;>
        · simp only [List.mem_append, List.mem_singleton] at hr
          rcases hr with hr | hr
          · have := hx _ _ _ _ hr; simp at this
          · simp at hr
      · split at hs <;>
        · simp at hs; obtain ⟨rfl, rfl⟩ := hs
          rcases hr with ⟨k, hr⟩ | hr <;>
          · simp only [List.mem_append, List.mem_cons] at hr
            rcases hr with hr | hr
            · have := hx _ _ _ _ hr; simp at this
            · simp at hr
  | loadOk k' v' =>
    exfalso
    simp only [step] at hs
    split at hs
    · simp at hs
    · simp at hs; obtain ⟨rfl, rfl⟩ := hs
      have := evict_events cfg.slots (put ⟨k', v', s.now + cfg.lifetime⟩ s.entries)
      rcases hr with ⟨k, hr⟩ | hr <;>
      · simp only [List.mem_cons, List.mem_append, List.mem_map] at hr
        rcases hr with hr | hr | ⟨_, _, hr⟩
        · simp at hr
        · obtain ⟨_, h2⟩ := this _ hr; simp at h2
        · simp at hr
  | loadFail k' =>
    right
    simp only [step] at hs
    split at hs
    · simp at hs
    · next ws hw =>
      simp at hs; obtain ⟨rfl, rfl⟩ := hs
      refine ⟨k', ws, rfl, hw, ?_⟩
      rcases hr with ⟨k, hr⟩ | hr
      · simp at hr; obtain ⟨a, ha, rfl, _⟩ := hr; exact ha
      · simp at hr
  | cancelCaller c' =>
    left
    simp only [step] at hs
    split at hs
    · simp at hs; obtain ⟨rfl, rfl⟩ := hs
      rcases hr with ⟨k, hr⟩ | hr <;> simp at hr
    · simp at hs; obtain ⟨rfl, rfl⟩ := hs
      rcases hr with ⟨k, hr⟩ | hr
      · simp at hr
      · simp at hr; rw [hr]
  | advance dt =>
    exfalso
    simp only [step] at hs
    simp at hs; obtain ⟨rfl, rfl⟩ := hs
    rcases hr with ⟨k, hr⟩ | hr <;> simp at hr

/-- …and whoever is told that its load failed really had called `lookup` for that key (ties "the load it awaited" to the
trace). -/
theorem failed_caller_had_joined (h : run cfg ops = some (s, tr)) (k c : Nat) (ws : List Nat)
    (hw : waitersOf k s.inflight = some ws) (hc : c ∈ ws) : Ev.joined c k ∈ tr :=
  (reach_inv (run_reach h)).joinedTr k ws c hw hc

/-- Cancelling a caller leaves every load in flight and every other waiter waiting. -/
theorem cancel_keeps_load (c : Nat) (hs : step cfg s (Op.cancelCaller c) = some (s', e)) :
    ikeys s'.inflight = ikeys s.inflight ∧ s'.entries = s.entries ∧
      ∀ k c', c' ≠ c → ((∃ ws, waitersOf k s.inflight = some ws ∧ c' ∈ ws) →
        ∃ ws', waitersOf k s'.inflight = some ws' ∧ c' ∈ ws') := by
  simp only [step] at hs
  split at hs
  · simp at hs; obtain ⟨rfl, rfl⟩ := hs
    exact ⟨rfl, rfl, fun _ _ _ h => h⟩
  · simp at hs; obtain ⟨rfl, rfl⟩ := hs
    refine ⟨ikeys_removeWaiter _ _, rfl, ?_⟩
    intro k c' hne ⟨ws, hw, hc⟩
    refine ⟨ws.filter (· ≠ c), ?_, ?_⟩
    · simp [waitersOf_removeWaiter, hw]
    · simp [hc, hne]

/-- A finished load is forgotten at once: in the very block in which the load of `k` ends (with a value or with an exception) `k`
leaves `_futures` — so whatever is issued next, even in the same turn of the event loop, cannot join the finished load. -/
theorem finished_load_is_forgotten (h : run cfg ops = some (s, tr)) (k : Nat)
    (hop : op = Op.loadFail k ∨ ∃ v, op = Op.loadOk k v) (hs : step cfg s op = some (s', e)) : k ∉ ikeys s'.inflight := by
  have hi := reach_inv (run_reach h)
  have hd := mem_ikeys_dropKey (k := k) (k' := k) hi.inodup
  rcases hop with rfl | ⟨v, rfl⟩ <;>
  · simp only [step] at hs
    split at hs
    · simp at hs
    · simp at hs; obtain ⟨rfl, _⟩ := hs
      rw [hd]; simp

/-- …hence a lookup of `k` issued after a FAILED load of `k` (in a later turn or in the same one) starts a load of its own and
waits for it: it never re-raises the stale error.  (After a successful load it is a hit of the value just put, see
`cached_value_is_a_hit`.) -/
theorem lookup_after_failed_load_starts_its_own (h : run cfg ops = some (s, tr)) (k c : Nat) (s1 : State) (e1 : List Ev)
    (hs1 : step cfg s (Op.loadFail k) = some (s1, e1)) (s2 : State) (e2 : List Ev)
    (hs2 : step cfg s1 (Op.lookup c k) = some (s2, e2)) :
    (∀ c' k', Ev.failed c' k' ∉ e2) ∧ (Ev.started k ∈ e2 ∧ Ev.joined c k ∈ e2 ∨ ∃ v t, Ev.hit c k v t ∈ e2) := by
  have hr1 : Reach cfg s1 (tr ++ e1) := Reach.step (run_reach h) hs1
  have hk : k ∉ ikeys s1.inflight := finished_load_is_forgotten cfg ops s s1 tr e1 (Op.loadFail k) h k (Or.inl rfl) hs1
  have hw : waitersOf k s1.inflight = none := waitersOf_none.mpr hk
  have hx := expire_events k s1.now s1.entries
  simp only [step] at hs2
  split at hs2
  · simp at hs2
  · split at hs2
    · next e0 h0 =>
      simp at hs2; obtain ⟨rfl, rfl⟩ := hs2
      refine ⟨?_, Or.inr ⟨e0.val, s1.now, by simp⟩⟩
      intro c' k' hm
      simp only [List.mem_append, List.mem_singleton] at hm
      rcases hm with hm | hm
      · have := hx _ hm; simp at this
      · simp at hm
    · simp only [hw] at hs2
      simp at hs2; obtain ⟨rfl, rfl⟩ := hs2
      refine ⟨?_, Or.inl ⟨by simp, by simp⟩⟩
      intro c' k' hm
      simp only [List.mem_append, List.mem_cons] at hm
      rcases hm with hm | hm
      · have := hx _ hm; simp at this
      · simp at hm

/-- Everything proved about the state after an op list also holds after a TURN of several blocks (`turn`): the turn is a sequence of
blocks, so e.g. failure locality, single flight and the bound hold block by block inside it. -/
theorem turn_stays_reachable (h : run cfg ops = some (s, tr)) (blocks : List Op) (hs : turn cfg s s blocks = some (s', e)) :
    Reach cfg s' (tr ++ e) :=
  turn_reach blocks (run_reach h) hs

/-! ## several cache instances in one process -/

/-- Frame property: a block addressed to cache instance `j` (a lookup, the completion or failure of ITS load function, the
cancellation of one of ITS callers) changes nothing in any other instance — neither its cached values nor its loads in flight. -/
theorem instances_do_not_interfere (m m' : Multi) (j : Nat) (e : List Ev) (h : mstep m (.at j op) = some (m', e)) (i : Nat)
    (hij : i ≠ j) : m'[i]? = m[i]? :=
  mstep_frame h i hij

/-- Every instance of a process with several caches behaves as a single cache on its own: after any interleaving of blocks of
all the instances, each instance's state is a reachable state of the single-cache model with its OWN history — so every theorem
above holds per instance. -/
theorem each_instance_is_a_cache (cfgs : List Config) (mops : List MOp) (m : Multi)
    (h : mrun (Multi.start cfgs) mops = some m) : ∀ x ∈ m, Reach x.1 x.2.1 x.2.2 :=
  mrun_eachReach mops (eachReach_start cfgs) h

/-- In particular: a value returned by instance `j` for key `k` was produced by instance `j`'s OWN load function for `k` (it is
in `j`'s own history), less than `j`'s lifetime ago — whatever the other instances cache or load under an equal key. -/
theorem value_comes_from_own_loader (cfgs : List Config) (mops : List MOp) (m : Multi)
    (h : mrun (Multi.start cfgs) mops = some m) (j : Nat) (cfgj : Config) (sj : State) (trj : List Ev)
    (hj : m[j]? = some (cfgj, sj, trj)) (hs : step cfgj sj op = some (s', e)) (c k : Nat) (v : Val) (t : Nat)
    (hh : Ev.hit c k v t ∈ e) : ∃ t0, Ev.put k v t0 ∈ trj ∧ t0 ≤ t ∧ t < t0 + cfgj.lifetime := by
  have hr := each_instance_is_a_cache cfgs mops m h _ (List.mem_of_getElem? hj)
  exact (never_stale_of_inv cfgj sj s' trj e op (reach_inv hr) hs c k v t hh).2.2

/-- The repaired defect, kept as a witness: for the code BEFORE the repair the same statement is false.  Callers 0 and 1 look up
key 7 (one shared load); cancelling caller 0 cancels the load, and caller 1 raises `CancelledError` although nobody cancelled it
and its load did not fail. -/
theorem failure_locality_fails_before_repair : ¬ FailureLocal (stepOld cfg) := by
  intro h
  have := h [Op.lookup 0 7, Op.lookup 1 7] ⟨0, [], [(7, [0, 1])]⟩ [Ev.started 7, Ev.joined 0 7, Ev.joined 1 7]
    (Op.cancelCaller 0) ⟨0, [], []⟩ [Ev.loadCancelled 7, Ev.cancelled 0, Ev.cancelled 1] 1 rfl rfl (Or.inr (by simp))
  rcases this with h1 | ⟨_, _, h1, _⟩
  · injection h1 with h2; exact absurd h2 (by decide)
  · cases h1

/-! Non-vacuity: the runs below exist and exercise a hit just inside the lifetime, expiry exactly at the lifetime (`<=`), joining an
in-flight load, eviction of the oldest entry with equal expiries broken by insertion order, load failure reaching all waiters and
nobody else, cancellation of the first caller sparing the second. -/

-- lifetime 3: put at t=0, hit at t=2 (age 2 < 3), at t=3 the entry is expired, removed, and a new load starts
example : run ⟨3, 2⟩ [.lookup 0 5, .loadOk 5 11, .advance 2, .lookup 1 5, .advance 1, .lookup 2 5]
    = some (⟨3, [], [(5, [2])]⟩,
        [.started 5, .joined 0 5, .put 5 11 0, .loaded 0 5 11 0, .hit 1 5 11 2, .expired 5, .started 5, .joined 2 5]) := by decide
-- one slot-2 cache, three loads finishing at the same instant (equal expiries): the FIRST put is evicted
example : run ⟨3, 2⟩ [.lookup 0 1, .lookup 1 2, .lookup 2 3, .loadOk 2 20, .loadOk 1 10, .loadOk 3 30]
    = some (⟨0, [⟨1, 10, 3⟩, ⟨3, 30, 3⟩], []⟩,
        [.started 1, .joined 0 1, .started 2, .joined 1 2, .started 3, .joined 2 3, .put 2 20 0, .loaded 1 2 20 0,
         .put 1 10 0, .loaded 0 1 10 0, .put 3 30 0, .evicted 2, .loaded 2 3 30 0]) := by decide
-- current code: cancelling the first caller leaves the load running; the second caller still gets the value
example : run ⟨3, 1⟩ [.lookup 0 7, .lookup 1 7, .cancelCaller 0, .loadOk 7 70]
    = some (⟨0, [⟨7, 70, 3⟩], []⟩,
        [.started 7, .joined 0 7, .joined 1 7, .cancelled 0, .put 7 70 0, .loaded 1 7 70 0]) := by decide
-- a failing load reaches exactly its waiters; the waiter of the other key is untouched
example : run ⟨3, 1⟩ [.lookup 0 7, .lookup 1 7, .lookup 2 8, .loadFail 7]
    = some (⟨0, [], [(8, [2])]⟩,
        [.started 7, .joined 0 7, .joined 1 7, .started 8, .joined 2 8, .loadFailed 7, .failed 0 7, .failed 1 7]) := by decide
-- a load that returns None: cached like any other value — the repeat lookup is a hit returning None, no second load; later it
-- expires and is evicted like any other entry
example : run ⟨3, 1⟩ [.lookup 0 5, .loadOk 5 none, .lookup 1 5, .lookup 2 6, .loadOk 6 7, .lookup 3 5]
    = some (⟨0, [⟨6, 7, 3⟩], [(5, [3])]⟩,
        [.started 5, .joined 0 5, .put 5 none 0, .loaded 0 5 none 0, .hit 1 5 none 0, .started 6, .joined 2 6, .put 6 7 0,
         .evicted 5, .loaded 2 6 7 0, .started 5, .joined 3 5]) := by decide
-- one loop turn: the load of key 7 fails and caller 2 looks key 7 up before the loop runs again: the old waiters get the error,
-- caller 2 starts a load of its own
example : turn ⟨3, 1⟩ ⟨0, [], [(7, [0, 1])]⟩ ⟨0, [], [(7, [0, 1])]⟩ [.loadFail 7, .lookup 2 7]
    = some (⟨0, [], [(7, [2])]⟩, [.loadFailed 7, .failed 0 7, .failed 1 7, .started 7, .joined 2 7]) := by decide
-- two instances, equal key 7: each runs its own load; instance 1's completion does not touch instance 0
example : mrun (Multi.start [⟨3, 1⟩, ⟨2, 2⟩]) [.at 0 (.lookup 0 7), .at 1 (.lookup 1 7), .at 1 (.loadOk 7 71), .at 0 (.loadOk 7 70)]
    = some [(⟨3, 1⟩, ⟨0, [⟨7, 70, 3⟩], []⟩, [.started 7, .joined 0 7, .put 7 70 0, .loaded 0 7 70 0]),
            (⟨2, 2⟩, ⟨0, [⟨7, 71, 2⟩], []⟩, [.started 7, .joined 1 7, .put 7 71 0, .loaded 1 7 71 0])] := by decide
-- not behaviours: finishing a load that is not in flight; a suspended caller calling lookup again
example : run ⟨3, 1⟩ [.loadOk 7 1] = none := by decide
example : run ⟨3, 1⟩ [.lookup 0 7, .lookup 0 8] = none := by decide
-- the pre-repair variant on the witness
example : runOld ⟨3, 1⟩ [.lookup 0 7, .lookup 1 7, .cancelCaller 0]
    = some (⟨0, [], []⟩, [.started 7, .joined 0 7, .joined 1 7, .loadCancelled 7, .cancelled 0, .cancelled 1]) := by decide

end HailVerif.C26

import HailVerif.Proofs.BatchDBCounters
/-!
# C01 — Scheduler job/core counters always match job states

Subject: the BatchDB model (`HailVerif.BatchDB`, one `step` per transaction of the service; the thirteen deltas of the
trigger `jobs_after_update` are the definition GENERATED from the SQL text), tied to the real SQL by the correspondence
check of the harness.

`get s.ctr k` is the value of counter `k` (token shards summed) as the scheduler, autoscaler and canceller read it;
`w s k j` (Proofs/BatchDBCounters.lean) is the weight with which job row `j` counts for `k` when recomputed from the
row's state, `cancelled` mark, `always_run` flag, the cancellation of its group's ancestors and the `committed` flag of
its update; `CountersInv s` says `get s.ctr k = Σ_{j ∈ jobs} w s k j` for

* the eight `user_inst_coll_resources` columns of every (user, inst_coll);
* the five `job_group_inst_coll_cancellable_resources` columns of every (batch, update, group, inst_coll) whose group
  has no cancelled ancestor-or-self (rows of cancelled groups are garbage by design: `cancel_job_group` does not clean
  the descendants and `cleanupCancellable` deletes them) — the recomputation runs over the group AND its descendants;
* the three `job_groups_inst_coll_staging` columns of every update that is not committed yet (rows of committed
  updates are garbage deleted by `cleanupStaging`).

The full statement (`FullStatement`) is FALSE for the model, faithfully to the SQL: two reachable witnesses are
checked by evaluation (`W1`, `W2`).  `counters_inv_partial` proves the equality for every history on which the
explicit, decidable hypotheses `OpOK` hold at every step.
-/
namespace HailVerif.C01
open HailVerif.BatchDB

/-! ## the statement, spelled out for some keys -/

/-- `n_ready_jobs` of (user, inst_coll) counts the Ready, not cancelled jobs of the user's committed updates -/
theorem weight_uReady (s : State) (u ic : Nat) (j : Job) :
    w s (.uReady u ic) j =
      if (userOf s j.batch = u ∧ j.ic = ic ∧ updCommitted s j.batch j.update = true) ∧
          j.state = .Ready ∧ jobCancelled s j = false then 1 else 0 := by
  simp only [w, uw, scopeU, liveB, cancelledW, gcOf, ind, jobCancelled, b2i]
  by_cases h5 : j.alwaysRun = true <;> by_cases h6 : j.cancelled = true <;>
    by_cases h7 : groupCancelled s j.batch j.group = true <;>
    by_cases h1 : userOf s j.batch = u <;> by_cases h2 : j.ic = ic <;>
    by_cases h3 : updCommitted s j.batch j.update = true <;> by_cases h4 : j.state = .Ready <;> simp [*]

/-- `ready_cores_mcpu` is the same count weighted by `cores_mcpu` -/
theorem weight_uReadyCores (s : State) (u ic : Nat) (j : Job) :
    w s (.uReadyCores u ic) j = w s (.uReady u ic) j * j.cores := by
  simp only [w, uw]; split_ifs <;> simp

/-- `n_cancelled_running_jobs` counts the Running jobs that are cancelled (and not always-run) -/
theorem weight_uCancRunning (s : State) (u ic : Nat) (j : Job) :
    w s (.uCancRunning u ic) j =
      if (userOf s j.batch = u ∧ j.ic = ic ∧ updCommitted s j.batch j.update = true) ∧
          j.state = .Running ∧ jobCancelled s j = true then 1 else 0 := by
  simp only [w, uw, scopeU, cancB, cancelledW, gcOf, ind, jobCancelled, b2i]
  by_cases h5 : j.alwaysRun = true <;> by_cases h6 : j.cancelled = true <;>
    by_cases h7 : groupCancelled s j.batch j.group = true <;>
    by_cases h1 : userOf s j.batch = u <;> by_cases h2 : j.ic = ic <;>
    by_cases h3 : updCommitted s j.batch j.update = true <;> by_cases h4 : j.state = .Running <;> simp [*]

/-- `n_creating_cancellable_jobs` of (batch, update, group, inst_coll) counts the Creating jobs of that update in the
group or any of its descendants that are not always-run and not cancelled -/
theorem weight_cCreating (s : State) (b u g ic : Nat) (j : Job) :
    w s (.cCreating b u g ic) j =
      if (j.batch = b ∧ j.update = u ∧ g ∈ ancestorsOf s b j.group ∧ j.ic = ic) ∧
          j.state = .Creating ∧ j.alwaysRun = false ∧ j.cancelled = false ∧ groupCancelled s j.batch j.group = false
      then 1 else 0 := by
  simp only [w, gw, scopeG, cblB, cancellableW, gcOf, ind, b2i]
  by_cases h1 : j.batch = b
  · subst h1
    by_cases h5 : j.alwaysRun = true <;> by_cases h6 : j.cancelled = true <;>
    by_cases h7 : groupCancelled s j.batch j.group = true <;>
      by_cases h2 : j.update = u <;> by_cases h3 : g ∈ ancestorsOf s j.batch j.group <;>
      by_cases h4 : j.ic = ic <;> by_cases h5 : j.state = .Creating <;> simp [*]
  · simp [h1]

/-- the staged `n_jobs` of (batch, update, group, inst_coll) counts the jobs of that update in the group or below -/
theorem weight_sJobs (s : State) (b u g ic : Nat) (j : Job) :
    w s (.sJobs b u g ic) j =
      if j.batch = b ∧ j.update = u ∧ g ∈ ancestorsOf s b j.group ∧ j.ic = ic then 1 else 0 := by
  simp only [w, gw, scopeG]
  by_cases h1 : j.batch = b <;> by_cases h2 : j.update = u <;> by_cases h3 : g ∈ ancestorsOf s b j.group <;>
    by_cases h4 : j.ic = ic <;> simp [*]

/-! ## the full statement and why it fails -/

/-- C01 at full strength: after every history every live tracked counter equals its recomputation -/
def FullStatement : Prop := ∀ ops : List Op, CountersInv (run ops)

/-- (W1) update 1 = {P, Q} committed; update 2 = {J ← P} inserted but not committed; P completes.  The child `UPDATE`
of `mark_job_complete` joins `job_parents` without looking at `batch_updates.committed`: J becomes Ready and the
trigger counts it in `n_ready_jobs` / `ready_cores_mcpu` although its update is not committed. -/
def W1 : List Op :=
  [.createBatch 7 1 100, .createUpdate 1 200 2 0 7,
   .insertJobs 1 1 7 [⟨1, [], [], some 0, 0, false, 1000, 0⟩, ⟨2, [], [], some 0, 0, false, 1000, 0⟩],
   .commitUpdate 1 1, .createUpdate 1 201 1 0 7,
   .insertJobs 1 2 7 [⟨1, [1], [], some 0, 0, false, 500, 0⟩],
   .complete 1 1 none none .Success none none "done" 0]

/-- (W2) update 1 with one Ready job in the root group is inserted, the batch is cancelled, then the update is
committed: `commit_batch_update` adds the staged `n_ready_jobs` to `n_ready_jobs` although the job is cancelled (it
belongs in `n_cancelled_ready_jobs`). -/
def W2 : List Op :=
  [.createBatch 7 1 100, .createUpdate 1 200 1 0 7,
   .insertJobs 1 1 7 [⟨1, [], [], some 0, 0, false, 1000, 0⟩],
   .cancelGroup 1 0, .commitUpdate 1 1]

-- W1: the scheduler sees 2 ready jobs / 1500 mcpu, the committed updates hold 1 ready job / 1000 mcpu
example : get (run W1).ctr (.uReady 7 0) = 2 ∧ sumBy (w (run W1) (.uReady 7 0)) (run W1).jobs = 1 ∧
    get (run W1).ctr (.uReadyCores 7 0) = 1500 ∧ sumBy (w (run W1) (.uReadyCores 7 0)) (run W1).jobs = 1000 := by decide

-- W2: the scheduler sees 1 ready job and 0 cancelled ready jobs; it is the other way round
example : get (run W2).ctr (.uReady 7 0) = 1 ∧ sumBy (w (run W2) (.uReady 7 0)) (run W2).jobs = 0 ∧
    get (run W2).ctr (.uCancReady 7 0) = 0 ∧ sumBy (w (run W2) (.uCancReady 7 0)) (run W2).jobs = 1 := by decide

theorem counters_inv_fails_W1 : ¬ CountersInv (run W1) :=
  fun h => absurd (h (.uReady 7 0) trivial) (by decide)

theorem counters_inv_fails_W2 : ¬ CountersInv (run W2) :=
  fun h => absurd (h (.uReady 7 0) trivial) (by decide)

theorem counters_inv_fails : ¬ FullStatement := fun h => counters_inv_fails_W1 (h W1)

-- each witness breaks exactly one hypothesis, at its last transaction: W1 breaks (H1), W2 breaks (H2)
example : HistOK init (W1.take 6) ∧ ¬ ChildrenCommitted (run (W1.take 6)) 1 1 := by decide
example : HistOK init (W2.take 4) ∧ ¬ NoneCancelled (run (W2.take 4)) 1 1 := by decide

/-! ## the partial theorem

`OpOK s op` (Proofs/BatchDBCounters.lean) is `True` except for:
* (H0) `schedule`, `creating`, `started`, `unschedule`, `complete`: the target job belongs to a committed update
  (`TargetCommitted`; the driver selects jobs of committed updates only);
* (H1) `complete b j`: every child of `j` belongs to a committed update (`ChildrenCommitted`);
* (H2) `commitUpdate b u`: no job of `u` is cancelled (`NoneCancelled`), and the rows in the job-id range of `u` belong to
  `u` or to a committed update (`RangeOwned`; since the C08 repair `_create_jobs` rejects job ids outside the update's
  reserved range — `specIdsOk` in the model, `C08.accepted_ids_ok` — so this part holds in every reachable state and is kept
  only because the counter lemmas are stated for arbitrary states);
* (H4) `insertGroups`: every group created has the root among its ancestors, i.e. its parent existed (`GroupsRooted`).
`Op.WF` (terminal state in completion reports) is NOT needed: the trigger accounts for any new state.
`HistOK s ops` says `OpOK` holds at every step of the history `ops` started in `s`. -/

/-- every history satisfying the hypotheses at each step: all live tracked counters equal their recomputation -/
theorem counters_inv_partial (ops : List Op) (hok : HistOK init ops) : CountersInv (run ops) := (inv_run ops hok).2

/-- one more transaction: the invariant is preserved by every op satisfying `OpOK` in a state reached by such a history -/
theorem counters_inv_partial_step (ops : List Op) (hok : HistOK init ops) (op : Op) (hop : OpOK (run ops) op) :
    CountersInv (step (run ops) op).1 :=
  (inv_step (run ops) op hop (groupsSelf_of_shape (shape_run init ops) groupsSelf_init) (inv_run ops hok)).2

/-- the same per transaction, from any state that satisfies the structural invariants `Struct` and `GroupsSelf` (not
only reachable ones): `Struct ∧ CountersInv` is inductive under `OpOK` -/
theorem counters_inv_step (s : State) (op : Op) (hop : OpOK s op) (hself : GroupsSelf s) (hs : Struct s)
    (h : CountersInv s) : Struct (step s op).1 ∧ CountersInv (step s op).1 :=
  inv_step s op hop hself ⟨hs, h⟩

/-- the structural invariants used, for every state reached by such a history: ancestor lists are duplicate-free,
closed (an ancestor's ancestors are ancestors), linearly ordered and end in the root; every job's group and batch
exist; jobs of uncommitted updates are untouched (not marked cancelled, Pending or Ready) -/
theorem struct_partial (ops : List Op) (hok : HistOK init ops) : Struct (run ops) := (inv_run ops hok).1

/-- spelled out for the scheduler's `n_ready_jobs` -/
theorem ready_jobs_partial (ops : List Op) (hok : HistOK init ops) (u ic : Nat) :
    get (run ops).ctr (.uReady u ic) =
      sumBy (fun j => if (userOf (run ops) j.batch = u ∧ j.ic = ic ∧ updCommitted (run ops) j.batch j.update = true) ∧
        j.state = .Ready ∧ jobCancelled (run ops) j = false then 1 else 0) (run ops).jobs := by
  rw [counters_inv_partial ops hok (.uReady u ic) trivial]
  exact sumBy_congr _ _ _ (fun j _ => weight_uReady _ u ic j)

/-! ## the other hypotheses are needed too (in the model)

`OpOK` also excludes three paths that the real service does not take or does not validate; on each of them the model
(which is more permissive than the driver / trusts client-supplied ids like the server does) breaks the equality. -/

/-- (H0) the driver schedules a Ready job of an update that is not committed: `n_ready_jobs` becomes −1 -/
def W3 : List Op :=
  [.createBatch 7 1 100, .createUpdate 1 200 1 0 7, .insertJobs 1 1 7 [⟨1, [], [], some 0, 0, false, 1000, 0⟩],
   .newInstance 5 8000 true, .activate 5, .schedule 1 1 11 5]

/- (H2', `RangeOwned`): the former witness W4 (a job of the open update 3 submitted with relative id 0, landing in the id
range of update 2) is no longer a history of the model: `_create_jobs` now answers 400 to a job id outside `[1, n_jobs]`
(C08 repair, `specIdsOk`).  No reachable witness remains; see the note at (H2) above. -/

/- (H4, `GroupsRooted`): the former witness W5 declared an update with 0 jobs and 2 groups, created a group under a parent id
that does not exist (so it has no ancestor rows) and sent a job into it; the root staged 0 jobs = declared 0 and the commit went
through without counting the job.  Since the C08 repair a job id outside `[1, n_jobs]` is answered 400, so the update must
declare the job; the job of the un-rooted group is then not staged at the root and `commit_batch_update` refuses the update
(wrong number of jobs, rc 1).  The hypothesis is still needed for the `insertGroups` step itself (last example below). -/

example : get (run W3).ctr (.uReady 7 0) = -1 ∧ sumBy (w (run W3) (.uReady 7 0)) (run W3).jobs = 0 := by decide +kernel
example : HistOK init (W3.take 5) ∧ ¬ TargetCommitted (run (W3.take 5)) 1 1 := by decide +kernel
example : HistOK init [.createBatch 7 1 100, .createUpdate 1 200 1 2 7] ∧
    ¬ OpOK (run [.createBatch 7 1 100, .createUpdate 1 200 1 2 7]) (.insertGroups 1 1 7 [⟨1, some 0, 0⟩, ⟨5, some 3, 0⟩]) := by
  decide +kernel

/-! ## non-vacuity -/

/-- batch with a sub-group, update 1 = {J1 in the sub-group, J2, J3 ← J1}, commit, schedule J2, update 2 = {J4 ← J2},
commit, J2 succeeds, the sub-group is cancelled, J1 is reported cancelled, background loops -/
def demo : List Op :=
  [.createBatch 7 1 100, .createUpdate 1 200 3 1 7, .insertGroups 1 1 7 [⟨1, some 0, 0⟩],
   .insertJobs 1 1 7 [⟨1, [], [], none, 1, false, 1000, 0⟩, ⟨2, [], [], some 0, 0, false, 2000, 0⟩,
     ⟨3, [], [1], some 0, 0, false, 500, 0⟩],
   .commitUpdate 1 1, .newInstance 5 8000 true, .activate 5, .schedule 1 2 11 5,
   .createUpdate 1 201 1 0 7, .insertJobs 1 2 7 [⟨1, [2], [], some 0, 0, true, 250, 0⟩], .commitUpdate 1 2,
   .complete 1 2 (some 11) (some 5) .Success (some 1) (some 2) "ok" 0,
   .cancelGroup 1 1, .complete 1 1 none none .Cancelled none none "cancelled" 0,
   .cleanupCancellable, .cleanupStaging, .compact]

example : HistOK init demo := by decide +kernel

-- the history does what it says: J1 Cancelled, J2 Success, J3 Ready but marked cancelled, J4 Ready
example : (run demo).jobs.map (fun j => (j.id, j.state, jobCancelled (run demo) j)) =
    [(1, .Cancelled, true), (2, .Success, false), (3, .Ready, true), (4, .Ready, false)] := by decide +kernel +kernel

-- and the counters: one ready job (J4, 250 mcpu), one cancelled ready job (J3)
example : get (run demo).ctr (.uReady 7 0) = 1 ∧ get (run demo).ctr (.uReadyCores 7 0) = 250 ∧
    get (run demo).ctr (.uCancReady 7 0) = 1 ∧ get (run demo).ctr (.uRunning 7 0) = 0 := by decide +kernel

end HailVerif.C01

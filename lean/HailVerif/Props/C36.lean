import HailVerif.Proofs.ExprTyping
import HailVerif.Proofs.PyImpute
import HailVerif.Proofs.TableType
import HailVerif.Proofs.MatrixType
import HailVerif.Proofs.FnRegistry
/-!
# C36 — Front-end types agree with the IR it emits

Subjects (all tied to the real code by `harness/props/c36.py`):
* `ExprIR.inferType` — the typing rules of the value IR (`hail/ir/ir.py::_compute_type`), compared on every generated program with
  the type the front end reports (`Expression.dtype`) and with the IR's own recomputation (`compute_type(deep_typecheck=True)`);
* `PyImpute.impute` / `imputeType` — `impute_type` (`hail/expr/expressions/base_expression.py`), compared with the real function on
  generated Python values; `PyImpute.HasTypePy` — "the value can be stored at the type";
* `TableType.*` — the type transformers of the Table API.

What is NOT claimed: soundness of `impute_type` on nested containers — it is false for the real algorithm, see
`impute_unsound_struct_union` and `impute_unsound_clash_refilled` (both replayed on the real function by the check).
-/
namespace HailVerif.C36
open HailVerif.ExprIR HailVerif.PyImpute HailVerif.TableType

/-- **Type soundness of the IR typing rules** (reusing C35's `eval`): a program the rules accept at type `t` evaluates — in every
environment matching the typing context, value scope and aggregation scope — to a value of type `t` (missing values and failed
operations inhabit every type). -/
theorem infer_sound (e : IR) (Γ : Ctx) (Δ : Option Ctx) (ρ : Env) (A : List Env) (t : HType)
    (h : inferType Γ Δ e = some t) (hρ : EnvTyped ρ Γ) (hA : AggTyped A Δ) : HasType (eval ρ A e) t :=
  ExprIR.infer_sound e Γ Δ ρ A t h hρ hA

/-- closed programs: no hypothesis on the environment is needed -/
theorem infer_sound_closed (e : IR) (t : HType) (h : inferType [] none e = some t) (ρ : Env) : HasType (eval ρ [] e) t :=
  ExprIR.infer_sound e [] none ρ [] t h (by intro x s hx; simp [lookupT] at hx) trivial

/-- int32 results are always in range (arithmetic wraps) -/
theorem int32_in_range (e : IR) (h : inferType [] none e = some .int32) (ρ : Env) (n : Int) (hv : eval ρ [] e = .i32 n) :
    -2147483648 ≤ n ∧ n ≤ 2147483647 := by
  have := infer_sound_closed e .int32 h ρ
  rw [hv] at this
  cases this
  assumption

/-- `ApplyBinaryPrimOp` with mixed operand types is not typable: the front end must insert a conversion -/
theorem no_mixed_arithmetic (Γ : Ctx) (op : BinOp) (a b : IR) (s s' : HType) (ha : inferType Γ none a = some s)
    (hb : inferType Γ none b = some s') (hne : s ≠ s') : inferType Γ none (.bin op a b) = none := by
  simp [inferType, ha, hb, hne]

/-- **Numeric promotion is sound for stored values**: a Python value that fits a numeric type fits every wider one
(`bool ≤ int32 ≤ int64 ≤ float32 ≤ float64`, the order `unify_types_limited` uses). -/
theorem promote_sound {s t : HType} {v : PyVal} (h : numLe s t = true) (hv : HasTypePy s v) : HasTypePy t v :=
  hasTypePy_promote h hv

/-- **`impute_type` is sound on lists of scalars** (`None`, `bool`, `int`, `float`, `str` in any mixture it accepts): every
element can be stored at the reported element type.  (Partial: the statement for arbitrarily nested values is false for the
real algorithm — next two theorems.) -/
theorem imputeType_sound_partial (xs : PyVals) (hs : ∀ x ∈ xs.toList, scalar x = true) (t : HType)
    (h : imputeType (.list xs) = some t) : HasTypePy t (.list xs) :=
  impute_scalar_list_sound xs hs t h

private def structA : PyVal := .struct (.cons "a" (.int 1) .nil)
private def structB : PyVal := .struct (.cons "b" (.int 2) .nil)

/-- REFUTATION of full soundness, witness 1: struct types are unified to the union of their fields —
`[Struct(a=1), Struct(b=2)]` is imputed `array<struct{a: int32, b: int32}>`, which neither element can be stored at. -/
theorem impute_unsound_struct_union :
    imputeType (.list (.cons structA (.cons structB .nil))) = some (.array (.struct (.cons "a" .int32 (.cons "b" .int32 .nil)))) ∧
      ¬ HasTypePy (.array (.struct (.cons "a" .int32 (.cons "b" .int32 .nil)))) (.list (.cons structA (.cons structB .nil))) := by
  constructor
  · decide
  · unfold HasTypePy; decide

private def l1 (v : PyVal) : PyVal := .list (.cons v .nil)

/-- REFUTATION, witness 2: a clash between element types is turned into a hole one level up, and a sibling fills the hole —
`[[[1], ['a']], [[2]]]` is imputed `array<array<array<int32>>>` although it contains the string `'a'`. -/
theorem impute_unsound_clash_refilled :
    imputeType (.list (.cons (.list (.cons (l1 (.int 1)) (.cons (l1 (.str "a")) .nil))) (.cons (l1 (l1 (.int 2))) .nil)))
        = some (.array (.array (.array .int32))) ∧
      ¬ HasTypePy (.array (.array (.array .int32)))
        (.list (.cons (.list (.cons (l1 (.int 1)) (.cons (l1 (.str "a")) .nil))) (.cons (l1 (l1 (.int 2))) .nil))) := by
  constructor
  · decide
  · unfold HasTypePy; decide

/-! ## Table API: keys -/

/-- `annotate` leaves the key, the globals and the types of the key fields alone -/
theorem annotate_preserves_key {t t' : TType} {named : FieldList} (h : annotate t named = some t') :
    t'.key = t.key ∧ t'.globals = t.globals ∧ keyType t' = keyType t := annotate_key h

/-- after `key_by(*fields)` the key is exactly `fields`, each of them a row field; the row type is unchanged -/
theorem keyBy_sets_key {t t' : TType} {fields : List String} (h : keyBy t fields = some t') :
    t'.key = fields ∧ t'.row = t.row ∧ t'.globals = t.globals ∧ WellKeyed t' := keyBy_spec h

theorem drop_preserves_key {t t' : TType} {fields : List String} (h : TableType.drop t fields = some t') :
    t'.key = t.key ∧ keyType t' = keyType t := drop_key h

theorem explode_preserves_key {t t' : TType} {n : String} (h : explode t n = some t') :
    t'.key = t.key ∧ keyType t' = keyType t := explode_key h

/-- **`TableUnion` is always well typed** (after the repair of `Table.union`, /repo e4a772c10): for every list of tables and either
value of `unify`, the type the emitted IR implies is the type the table reports … -/
theorem union_well_typed (unify : Bool) (ts : List TType) : unionIR unify ts = unionReported unify ts :=
  unionIR_eq_reported unify ts

/-- … and every child handed to `TableUnion` carries exactly that row type and key (no exclusion). -/
theorem union_children_agree {unify : Bool} {ts : List TType} {t : TType} (h : unionReported unify ts = some t) :
    ∃ cs, unionChildren unify ts = some (t :: cs) ∧ ∀ c ∈ cs, c.row = t.row ∧ c.key = t.key := by
  rw [← union_well_typed] at h
  exact (unionIR_spec h).2

/-- **`Table.join` emits a well-typed `TableJoin`, with the type the `Table` reports**: the engine's struct concatenations
(`left.globalType ++ right.globalType`, `leftKey ++ leftValue ++ rightValue`: fatal on a duplicate name) succeed and give what
`TableJoin._compute_type` computes with dict updates — because of the renaming `Table.join` performs first. -/
theorem join_well_typed (l r : TType) : joinIR l r = joinReported l r := joinIR_eq_reported l r

/-- what that renaming achieves (`deduplicate` against every field name of the left table, for the right table's row-value
fields AND its globals): the new names are pairwise distinct and none of them is a field name of the left table, so both
concatenations are duplicate-free -/
theorem join_renaming_duplicate_free {l r : TType} {vs gs : FieldList} (h : renameRight l r = some (vs, gs)) :
    (names vs ++ names gs).Nodup ∧ ∀ n ∈ names vs ++ names gs, n ∉ allNames l := renameRight_spec h

/-- the joined table keeps the left key; its globals are the left globals followed by the renamed right globals; its row is the
left key fields, the left value fields, the renamed right value fields -/
theorem join_keeps_left_key {l r t : TType} (h : joinIR l r = some t) :
    t.key = l.key ∧ ∃ kl vs gs, keyType l = some kl ∧ renameRight l r = some (vs, gs) ∧
      t.globals = l.globals ++ gs ∧ t.row = kl ++ valueFields l ++ vs := join_shape h

/-- the renaming of the GLOBALS is necessary: with a front end that renames only the right table's row-value fields, two tables
that both carry a global `source` give a `TableJoin` whose global struct concatenation is fatal in the engine, while the Python
dict update silently reports ONE field -/
theorem join_globals_must_be_renamed :
    let l : TType := ⟨[("source", .str)], [("idx", .int32), ("x", .int32)], ["idx"]⟩
    let r : TType := ⟨[("source", .str)], [("idx", .int32), ("x", .float64)], ["idx"]⟩
    (renameRightRowOnly l r).map (fun p => (concatStrict l.globals p.2, concatPy l.globals p.2))
      = some (none, some [("source", .str)]) ∧
    joinIR l r = some ⟨[("source", .str), ("source_1", .str)],
      [("idx", .int32), ("x", .int32), ("x_1", .float64)], ["idx"]⟩ := by
  decide

/-- **keyed lookups `right[exprs]` / `right.index(exprs, all_matches)`**: for BOTH values of `all_matches` (the `product` flag of the
emitted node) the type the front end attaches to the looked-up value is the type of the root field the emitted join node
(`TableLeftJoinRightDistinct`, `TableIntervalJoin(product)`, or the former on `collect_by_key`) inserts by the engine's rule. -/
theorem index_root_well_typed (r : TType) (exprTypes : List HType) (allMatches : Bool) :
    rootIR r exprTypes allMatches = rootReported r exprTypes allMatches := rootIR_eq_reported r exprTypes allMatches

/-- … hence the annotated table (value used as it is, or under `hl.len`) has the reported type -/
theorem index_annotate_well_typed (l r : TType) (exprTypes : List HType) (allMatches len : Bool) (m : String) :
    indexAnnotate rootIR l r exprTypes allMatches len m = indexAnnotate rootReported l r exprTypes allMatches len m := by
  unfold indexAnnotate; rw [index_root_well_typed]

theorem matrix_index_annotate_well_typed (m : MatrixType.MType) (a : MatrixType.Axis) (r : TType) (exprTypes : List HType)
    (allMatches len : Bool) (name : String) :
    MatrixType.indexAnnotate rootIR m a r exprTypes allMatches len name
      = MatrixType.indexAnnotate rootReported m a r exprTypes allMatches len name := by
  unfold MatrixType.indexAnnotate; rw [index_root_well_typed]

/-- the node choice matters: a `TableIntervalJoin` emitted without the product flag inserts a struct, not the reported array -/
theorem index_interval_needs_product (r : TType) : nodeRoot r (.intervalJoin false) ≠ .array (valueStruct r) :=
  intervalJoin_needs_product r

/-- an interval-keyed right table, `all_matches=True`: `TableIntervalJoin(product = true)`, an array of the value struct; a point
key with `all_matches=True`: the `collect_by_key` path -/
example : chooseNode ⟨[], [("iv", .interval .int32), ("w", .float64)], ["iv"]⟩ [.int32] true = some (.intervalJoin true)
    ∧ rootReported ⟨[], [("iv", .interval .int32), ("w", .float64)], ["iv"]⟩ [.int32] true
        = some (.array (.struct (.cons "w" .float64 .nil)))
    ∧ chooseNode ⟨[], [("idx", .int32), ("w", .float64)], ["idx"]⟩ [.int32] true = some (.leftJoinRightDistinct true)
    ∧ chooseNode ⟨[], [("idx", .int32), ("w", .float64)], ["idx"]⟩ [.str] false = none := by decide

theorem orderBy_clears_key (t : TType) : (orderBy t).key = [] ∧ (orderBy t).row = t.row := orderBy_key t

/-! ## MatrixTable API: keys -/

/-- `key_cols_by(*fields)`, also with NO field, sets the column key to exactly `fields`; `cols()` and `entries()` are keyed
accordingly (`MatrixMapCols`: `newKey.getOrElse(child.colKey)` — an empty new key is a key) -/
theorem keyColsBy_sets_key {m m' : MatrixType.MType} {fields : List String} (h : MatrixType.keyColsBy m fields = some m') :
    m'.colKey = fields ∧ m'.rowKey = m.rowKey ∧ m'.col = m.col ∧ (MatrixType.colsTable m').key = fields ∧
      (MatrixType.entriesTable m').key = m.rowKey ++ fields := MatrixType.keyColsBy_spec h

theorem keyRowsBy_sets_key {m m' : MatrixType.MType} {fields : List String} (h : MatrixType.keyRowsBy m fields = some m') :
    m'.rowKey = fields ∧ m'.row = m.row ∧ m'.colKey = m.colKey ∧ (MatrixType.rowsTable m').key = fields :=
  MatrixType.keyRowsBy_spec h

theorem matrix_annotate_preserves_keys {m m' : MatrixType.MType} {a : MatrixType.Axis} {named : FieldList}
    (h : MatrixType.annotate m a named = some m') : m'.colKey = m.colKey ∧ m'.rowKey = m.rowKey := MatrixType.annotate_keys h

theorem matrix_select_preserves_keys {m m' : MatrixType.MType} {a : MatrixType.Axis} {keep : List String} {named : FieldList}
    (h : MatrixType.select m a keep named = some m') : m'.colKey = m.colKey ∧ m'.rowKey = m.rowKey := MatrixType.select_keys h

theorem unionCols_keeps_left {l r m : MatrixType.MType} (h : MatrixType.unionCols l r = some m) :
    m.rowKey = l.rowKey ∧ m.colKey = l.colKey ∧ m.col = l.col ∧ m.entry = l.entry ∧ m.globals = l.globals :=
  MatrixType.unionCols_keeps h

/-- **`union_cols` emits a well-typed `MatrixUnionCols`**: the engine's row struct concatenation (left key ++ left value ++ right
value, fatal on a duplicate name) succeeds and gives the reported row type, thanks to the renaming of the right row fields
against EVERY field name of the left dataset. -/
theorem unionCols_well_typed (l r : MatrixType.MType) : MatrixType.unionColsStrict l r = MatrixType.unionCols l r :=
  MatrixType.unionColsStrict_eq l r

/-! ## non-vacuity -/

/-- a right row field named like the LEFT ROW KEY (`a`) and one named like a left value field (`b`): both renamed; the key keeps
its type (before the repair of `union_cols` in /repo the right `a : str` overwrote the key's `int32`) -/
example : (MatrixType.unionCols
      ⟨[], [("col_idx", .int32)], ["col_idx"], [("row_idx", .int32), ("a", .int32), ("b", .int32)], ["a"], []⟩
      ⟨[], [("col_idx", .int32)], ["col_idx"], [("row_idx", .int32), ("a", .str), ("b", .str)], ["row_idx"], []⟩).map (·.row)
    = some [("a", .int32), ("row_idx", .int32), ("b", .int32), ("a_1", .str), ("b_1", .str)] := by decide

/-- `key_cols_by()`: the entries table is keyed by the row key only -/
example : (MatrixType.keyColsBy MatrixType.range []).map (fun m => (MatrixType.entriesTable m).key) = some ["row_idx"] := by decide

/-- `union_cols` after `key_rows_by('a')`: the key field comes first in the row type (the engine's rule; repaired in /repo a90fb6872) -/
example : (MatrixType.unionCols ⟨[], [("col_idx", .int32)], ["col_idx"], [("row_idx", .int32), ("a", .int32)], ["a"], []⟩
      ⟨[], [("col_idx", .int32)], ["col_idx"], [("row_idx", .int32), ("q", .str)], ["row_idx"], []⟩).map (·.row)
    = some [("a", .int32), ("row_idx", .int32), ("q", .str)] := by decide


/-! ## Calls of registry functions (`Apply name () ret args…`): the engine's signature unification -/

/-- the registered `(array<T>, T) → array<T>` / `(set<T>, T) → …` signatures unify with a call exactly when the item argument has the
element type — the Python side must therefore coerce the item BEFORE it builds the `Apply` -/
theorem registry_item_calls (t : HType) :
    FnRegistry.applyOk "append" [.array t, t] (.array t) = true ∧ FnRegistry.applyOk "add" [.set t, t] (.set t) = true ∧
    FnRegistry.applyOk "remove" [.set t, t] (.set t) = true ∧ FnRegistry.applyOk "contains" [.array t, t] .bool = true ∧
    FnRegistry.applyOk "contains" [.set t, t] .bool = true := FnRegistry.item_call_ok t

theorem registry_item_calls_need_equal {t u : HType} (h : u ≠ t) :
    FnRegistry.applyOk "append" [.array t, u] (.array t) = false ∧ FnRegistry.applyOk "add" [.set t, u] (.set t) = false ∧
    FnRegistry.applyOk "remove" [.set t, u] (.set t) = false ∧ FnRegistry.applyOk "contains" [.array t, u] .bool = false :=
  ⟨(FnRegistry.item_call_needs_equal h).1, (FnRegistry.item_call_needs_equal h).2.1, (FnRegistry.item_call_needs_equal h).2.2,
    FnRegistry.array_contains_needs_equal h⟩

theorem registry_collection_calls (t : HType) :
    FnRegistry.applyOk "extend" [.array t, .array t] (.array t) = true ∧ FnRegistry.applyOk "union" [.set t, .set t] (.set t) = true ∧
    FnRegistry.applyOk "intersection" [.set t, .set t] (.set t) = true ∧
    FnRegistry.applyOk "difference" [.set t, .set t] (.set t) = true ∧ FnRegistry.applyOk "isSubset" [.set t, .set t] .bool = true :=
  FnRegistry.same_collection_ok t

theorem registry_dict_calls (k v : HType) :
    FnRegistry.applyOk "get" [.dict k v, k, v] v = true ∧ FnRegistry.applyOk "get" [.dict k v, k] v = true ∧
    FnRegistry.applyOk "contains" [.dict k v, k] .bool = true ∧ FnRegistry.applyOk "index" [.dict k v, k] v = true ∧
    FnRegistry.applyOk "keySet" [.dict k v] (.set k) = true ∧ FnRegistry.applyOk "keys" [.dict k v] (.array k) = true ∧
    FnRegistry.applyOk "values" [.dict k v] (.array v) = true := FnRegistry.dict_call_ok k v

/-- vectorised arithmetic on numeric arrays (scalar on either side, or two arrays): the return type is fixed by the implementation —
`**` always gives `array<float64>` -/
theorem registry_vectorised_calls (t : HType) (h : FnRegistry.isNum t = true) :
    FnRegistry.applyOk "pow" [t, .array t] (.array .float64) = true ∧ FnRegistry.applyOk "pow" [.array t, t] (.array .float64) = true ∧
    FnRegistry.applyOk "pow" [.array t, .array t] (.array .float64) = true ∧
    FnRegistry.applyOk "add" [t, .array t] (.array t) = true ∧ FnRegistry.applyOk "sub" [.array t, t] (.array t) = true ∧
    FnRegistry.applyOk "mul" [.array t, .array t] (.array t) = true ∧ FnRegistry.applyOk "floordiv" [t, .array t] (.array t) = true ∧
    FnRegistry.applyOk "mod" [.array t, t] (.array t) = true ∧
    FnRegistry.applyOk "div" [t, .array t] (.array (if t = .float32 then .float32 else .float64)) = true :=
  FnRegistry.vectorised_ok t h

theorem registry_pow_is_not_elementwise (t : HType) (h : FnRegistry.isNum t = true) (hne : t ≠ .float64) :
    FnRegistry.applyOk "pow" [t, .array t] (.array t) = false ∧ FnRegistry.applyOk "pow" [.array t, t] (.array t) = false :=
  FnRegistry.vectorised_pow_not_elementwise t h hne

/-- `NDArrayMatMul`: a vector times an n-dimensional array (either side) has rank n − 1 — it is 1 only for n = 2, so a front end
that reports rank 1 for every vector product disagrees with the engine from rank 3 on -/
theorem matmul_rank_vector (n : Nat) :
    FnRegistry.matMulNDims 1 (n + 2) = n + 1 ∧ FnRegistry.matMulNDims (n + 2) 1 = n + 1 ∧
    FnRegistry.matMulNDims (n + 2) (n + 2) = n + 2 ∧ FnRegistry.matMulNDims 1 1 = 0 := by
  refine ⟨?_, ?_, ?_, rfl⟩ <;> simp [FnRegistry.matMulNDims]

theorem matmul_rank_vector_not_one (n : Nat) (h : 3 ≤ n) :
    FnRegistry.matMulNDims 1 n ≠ 1 ∧ FnRegistry.matMulNDims n 1 ≠ 1 := by
  obtain ⟨k, rfl⟩ : ∃ k, n = k + 3 := ⟨n - 3, by omega⟩
  constructor <;> simp [FnRegistry.matMulNDims]

/-- **the coerced call is well typed**: `a.append(x)` emitted as `(Apply append Array[t] a (Cast x t))` — the item converted to the
element type first — is typable whenever `a : array<t>` and `x` is of a type that converts to `t`; … -/
theorem coerced_append_well_typed (Γ : Ctx) (Δ : Option Ctx) (a x : IR) (s t : HType)
    (ha : inferType Γ Δ a = some (.array t)) (hx : inferType Γ Δ x = some s)
    (hc : ((isNumeric s || decide (s = .bool)) && isNumeric t) = true) :
    inferType Γ Δ (.applyFn "append" (.tcons a (.tcons (.cast x t) .tnil)) (.array t)) = some (.array t) := by
  simp only [Bool.and_eq_true, Bool.or_eq_true, decide_eq_true_eq] at hc
  have h1 : (isNumeric s = true ∨ s = .bool) := hc.1
  simp [inferType, ha, hx, h1, hc.2, FnRegistry.typesToList, (FnRegistry.item_call_ok t).1]

/-- … while the same call with the item passed as it is (the seeded `ArrayExpression.append`, and `ArrayExpression.contains` of
/repo before its repair) has no function in the registry: the IR is ill typed whatever type the front end reports -/
theorem uncoerced_append_ill_typed (Γ : Ctx) (Δ : Option Ctx) (a x : IR) (s t : HType)
    (ha : inferType Γ Δ a = some (.array t)) (hx : inferType Γ Δ x = some s) (hne : s ≠ t) :
    inferType Γ Δ (.applyFn "append" (.tcons a (.tcons x .tnil)) (.array t)) = none ∧
    inferType Γ Δ (.applyFn "contains" (.tcons a (.tcons x .tnil)) .bool) = none := by
  simp [inferType, ha, hx, FnRegistry.typesToList, (FnRegistry.item_call_needs_equal hne).1,
    FnRegistry.array_contains_needs_equal hne]

/-- `hl.array([1.0]).append(hl.int32(1))` as the seeded front end emits it, and with the conversion -/
example : inferType [] none (.applyFn "append" (.tcons (.acons (.f64 1) (.anil .float64)) (.tcons (.i32 1) .tnil)) (.array .float64)) = none
    ∧ inferType [] none (.applyFn "append" (.tcons (.acons (.f64 1) (.anil .float64)) (.tcons (.cast (.i32 1) .float64) .tnil))
        (.array .float64)) = some (.array .float64) := by decide

/-- `hl.int32(3) + 4.5` as emitted: `(ApplyBinaryPrimOp + (Apply toFloat64 () Float64 (I32 3)) (F64 4.5))` -/
example : inferType [] none (.bin .add (.ascribe (.cast (.i32 3) .float64) .float64) (.f64 4)) = some .float64 := by decide

/-- a declared return type that disagrees with the rule of the function is rejected -/
example : inferType [] none (.ascribe (.cast (.i32 3) .float64) .int32) = none := by decide

/-- `[1, 2.5, None, True]` -/
example : imputeType (.list (.cons (.int 1) (.cons (.float 2) (.cons .none (.cons (.bool true) .nil))))) = some (.array .float64) := by
  decide

example : annotate range [("x", .int32)] = some ⟨[], [("idx", .int32), ("x", .int32)], ["idx"]⟩ := by decide
example : annotate range [("idx", .int64)] = none := by decide

/-- three tables, `a : int32`, `a : int64`, no `a`: with `unify=True` every child gets `a : int64` and the union is well typed -/
example : unionIR true [⟨[], [("idx", .int32), ("a", .int32)], ["idx"]⟩, ⟨[], [("idx", .int32), ("a", .int64)], ["idx"]⟩,
    ⟨[], [("idx", .int32)], ["idx"]⟩] = some ⟨[], [("idx", .int32), ("a", .int64)], ["idx"]⟩ := by decide

/-- regression shape of the repaired defect: two tables with the same value fields and key whose rows differ only in where the
key field sits — with `unify=True` both are now selected to the key-first row type and the union is well typed -/
example : unionIR true [⟨[], [("idx", .int32), ("a", .int32)], ["idx"]⟩, ⟨[], [("a", .int32), ("idx", .int32)], ["idx"]⟩]
      = some ⟨[], [("idx", .int32), ("a", .int32)], ["idx"]⟩ := by
  decide

end HailVerif.C36

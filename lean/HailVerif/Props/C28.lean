import HailVerif.Proofs.Names
/-!
# C28 — Usernames and credential secret names are validated exactly

Subject: `HailVerif.Names.validUsername` / `validSecretName` / `validSecretNameInput`, the models of
`auth.auth_utils.is_valid_username` and `auth.auth_utils.validate_credentials_secret_name_input`
(regular expression `^[a-z0-9]([.\-]?[a-z0-9])*[a-z0-9]?$` under `fullmatch`, kept as data and run by the matcher
`rmatch`), tied to the code by the correspondence check `harness/props/c28.py`.

Specification (`Proofs/Names.lean`): `Username = Labels {-}`, `Rfc1123Name = Labels {., -}` where `Labels Sep` is
"non-empty alphanumeric ([a-z0-9]) labels joined by single separators".  All theorems quantify over every string
(`List Char`: any Unicode scalar values, any length).
-/
namespace HailVerif.C28
open HailVerif.Names

/-- A username is accepted exactly when it is a non-empty string of ASCII lowercase letters, digits and single
interior hyphens. -/
theorem username_exact (s : List Char) : validUsername s = true ↔ Username s := by
  rw [validUsername_iff_plain, Username, labels_iff_plain]

/-- A credentials secret name is accepted exactly when it is a lowercase RFC-1123 style name. -/
theorem secret_name_exact (s : List Char) : validSecretName s = true ↔ Rfc1123Name s := by
  rw [validSecretName, rmatch_iff, lang_secretNameRe]

/-- The whole function, including the `None` convention: `None` (no secret name given) is accepted by design,
any string exactly when it is an RFC-1123 name. -/
theorem secret_name_input_exact (o : Option (List Char)) :
    validSecretNameInput o = true ↔ ∀ s, o = some s → Rfc1123Name s := by
  cases o with
  | none => simp [validSecretNameInput]
  | some s => simp [validSecretNameInput, secret_name_exact]

/-- The user-creation path of `auth.py`, for every kind of account (human / developer / service account, login id
`None` / empty / given): the INSERT is reached exactly when the flags are consistent (not developer and service
account at once; a login id unless it is a service account), the username is valid and the secret name is absent or
valid. -/
theorem user_creation_exact_for (u : List Char) (l : LoginId) (dev sa : Bool) (o : Option (List Char)) :
    insertReachedFor u l dev sa o = true ↔
      (¬ (dev = true ∧ sa = true) ∧ (sa = true ∨ l.truthy = true)) ∧ Username u ∧ ∀ s, o = some s → Rfc1123Name s := by
  simp only [insertReachedFor, Bool.and_eq_true, Bool.or_eq_true, Bool.not_eq_true', Bool.and_eq_false_imp, username_exact,
    secret_name_input_exact]
  constructor
  · rintro ⟨⟨⟨h1, h2⟩, h3⟩, h4⟩
    exact ⟨⟨fun ⟨a, b⟩ => by simp [h2 a] at b, h3⟩, h4, h1⟩
  · rintro ⟨⟨h2, h3⟩, h4, h1⟩
    refine ⟨⟨⟨h1, fun a => ?_⟩, h3⟩, h4⟩
    cases hsa : sa with
    | false => rfl
    | true => exact absurd ⟨a, hsa⟩ h2

/-- **Whatever reaches the INSERT satisfies the name languages — for every flag combination.**  (A service account, a
developer, a request without login id: none of them lets an invalid username or secret name through.) -/
theorem user_creation_safe (u : List Char) (l : LoginId) (dev sa : Bool) (o : Option (List Char))
    (h : insertReachedFor u l dev sa o = true) : Username u ∧ ∀ s, o = some s → Rfc1123Name s :=
  ((user_creation_exact_for u l dev sa o).1 h).2

/-- The ordinary sign-up (human account with a login id) reaches its INSERT exactly for a valid username together with
no secret name or a valid one. -/
theorem user_creation_exact (u : List Char) (o : Option (List Char)) :
    insertReached u o = true ↔ Username u ∧ ∀ s, o = some s → Rfc1123Name s := by
  rw [insertReached, user_creation_exact_for]
  simp [LoginId.truthy]

/-- The matcher used for the secret-name pattern decides the standard denotation of regular expressions, for every
expression and every string (so the model of the pattern is the pattern itself, not a hand-derived automaton). -/
theorem matcher_correct (r : Re) (s : List Char) : rmatch r s = true ↔ Lang r s := rmatch_iff s r

/-- The recursive grammar and the plain reading of the property text are the same language: non-empty, only
`[a-z0-9]` and separators, first and last character alphanumeric, never two separators in a row. -/
theorem grammar_plain (Sep : Char → Prop) (s : List Char) : Labels Sep s ↔ Plain Sep s := labels_iff_plain s

/-- Every accepted username is an accepted secret name (hyphen is one of the two separators). -/
theorem username_is_secret_name (s : List Char) (h : validUsername s = true) : validSecretName s = true := by
  rw [username_exact] at h
  rw [secret_name_exact]
  exact Labels.mono (fun d hd => Or.inr hd) h

/-- Every character of an accepted username is `a`–`z`, `0`–`9` or `-`. -/
theorem username_alphabet (s : List Char) (h : validUsername s = true) :
    ∀ c ∈ s, LowerAlnum c ∨ c = '-' :=
  ((validUsername_iff_plain s).1 h).chars

/-- Every character of an accepted secret name is `a`–`z`, `0`–`9`, `.` or `-`. -/
theorem secret_name_alphabet (s : List Char) (h : validSecretName s = true) :
    ∀ c ∈ s, LowerAlnum c ∨ (c = '.' ∨ c = '-') :=
  ((labels_iff_plain s).1 ((secret_name_exact s).1 h)).chars

private theorem bad_char_rejected {v : List Char → Bool} {Sep : Char → Prop}
    (hv : ∀ s, v s = true → ∀ c ∈ s, LowerAlnum c ∨ Sep c) (s : List Char) (c : Char) (hc : c ∈ s)
    (h1 : ¬ LowerAlnum c) (h2 : ¬ Sep c) : v s = false := by
  cases hs : v s with
  | false => rfl
  | true => rcases hv s hs c hc with h | h <;> contradiction

/-- Non-ASCII characters (accented letters, fullwidth digits, …) anywhere in the string: rejected by both. -/
theorem non_ascii_rejected (s : List Char) (c : Char) (hc : c ∈ s) (h : 128 ≤ c.toNat) :
    validUsername s = false ∧ validSecretName s = false := by
  have h1 : ¬ LowerAlnum c := fun hl => by have := lowerAlnum_ascii hl; omega
  have hne : ∀ d : Char, d.toNat < 128 → c ≠ d := fun d hd e => by subst e; omega
  exact ⟨bad_char_rejected username_alphabet s c hc h1 (hne '-' (by decide)),
    bad_char_rejected secret_name_alphabet s c hc h1
      (fun h => h.elim (hne '.' (by decide)) (hne '-' (by decide)))⟩

/-- Control characters (code point < 32: newline, carriage return, NUL, tab, …) anywhere in the string — in
particular a trailing newline — are rejected by both. -/
theorem control_char_rejected (s : List Char) (c : Char) (hc : c ∈ s) (h : c.toNat < 32) :
    validUsername s = false ∧ validSecretName s = false := by
  have h1 : ¬ LowerAlnum c := fun hl => by
    rw [← lowerAlnum_iff] at hl
    simp [lowerAlnum, inRange] at hl
    omega
  have hne : ∀ d : Char, 32 ≤ d.toNat → c ≠ d := fun d hd e => by subst e; omega
  exact ⟨bad_char_rejected username_alphabet s c hc h1 (hne '-' (by decide)),
    bad_char_rejected secret_name_alphabet s c hc h1
      (fun h => h.elim (hne '.' (by decide)) (hne '-' (by decide)))⟩

/-- The defect class that was found and repaired (`$` with `re.match` let `'abc\n'` through): no string with a
trailing newline is accepted. -/
theorem trailing_newline_rejected (s : List Char) :
    validUsername (s ++ ['\n']) = false ∧ validSecretName (s ++ ['\n']) = false :=
  control_char_rejected (s ++ ['\n']) '\n' (by simp) (by decide)

/-- Upper-case letters are rejected by both (names are lowercase). -/
theorem upper_case_rejected (s : List Char) (c : Char) (hc : c ∈ s) (h : 'A' ≤ c ∧ c ≤ 'Z') :
    validUsername s = false ∧ validSecretName s = false := by
  have hr := (inRange_iff 'A' 'Z' c).2 h
  simp [inRange] at hr
  have h1 : ¬ LowerAlnum c := fun hl => by
    rw [← lowerAlnum_iff] at hl
    simp [lowerAlnum, inRange] at hl
    omega
  have hne : ∀ d : Char, d.toNat < 65 → c ≠ d := fun d hd e => by subst e; omega
  exact ⟨bad_char_rejected username_alphabet s c hc h1 (hne '-' (by decide)),
    bad_char_rejected secret_name_alphabet s c hc h1
      (fun h => h.elim (hne '.' (by decide)) (hne '-' (by decide)))⟩

/-! Non-vacuity and boundary examples (evaluated by the kernel). -/

example : validUsername "a".toList = true := by decide
example : validUsername "ab-c9-d".toList = true := by decide
example : validUsername "".toList = false := by decide
example : validUsername "-ab".toList = false := by decide
example : validUsername "ab-".toList = false := by decide
example : validUsername "a--b".toList = false := by decide
example : validUsername "a.b".toList = false := by decide
example : validUsername "aB".toList = false := by decide
example : validUsername "ab\n".toList = false := by decide
example : validUsername "a１".toList = false := by decide          -- fullwidth digit: `'１'.isdigit()` is True in Python
example : validUsername "é".toList = false := by decide
example : validSecretName "a".toList = true := by decide
example : validSecretName "abc-gsa-key.v2".toList = true := by decide
example : validSecretName "".toList = false := by decide
example : validSecretName "abc\n".toList = false := by decide     -- the repaired witness
example : validSecretName "a..b".toList = false := by decide
example : validSecretName "a.-b".toList = false := by decide
example : validSecretName "a.".toList = false := by decide
example : validSecretName ".a".toList = false := by decide
example : validSecretName "aB".toList = false := by decide
example : validSecretNameInput none = true := by decide
example : insertReached "ab".toList (some "abc\n".toList) = false := by decide
example : insertReached "ab\n".toList none = false := by decide
example : insertReached "ab".toList none = true := by decide
example : insertReachedFor "CI_Bot".toList .none false true none = false := by decide      -- service account, invalid name
example : insertReachedFor "ci-bot".toList .none false true none = true := by decide       -- service account, no login id
example : insertReachedFor "ab".toList .empty false false none = false := by decide        -- EmptyLoginID
example : insertReachedFor "ab".toList .value true true none = false := by decide          -- MultipleUserTypes
example : insertReachedFor "ab".toList .value true false (some "k".toList) = true := by decide
example : Username "ab-c".toList := (username_exact _).1 (by decide)
example : Rfc1123Name "a.b-c".toList := (secret_name_exact _).1 (by decide)

end HailVerif.C28

import HailVerif.Proofs.BatchDBCancel
/-!
# C07 — Cancellation stops work in the cancelled subtree only

Subject: the BatchDB model (`HailVerif.BatchDB`, one `step` per transaction of the service), tied to the real SQL
procedures and Python transactions by the correspondence check of `harness/props/c07.py`.

A job is *cancelled* (`jobCancelled`) when it is not always-run and either carries the `cancelled` mark or lies in a
group with a cancelled ancestor-or-self — `is_job_cancelled` of migration 119.  `after s ops` is the state reached
from `s` by any history of transactions; `Reachable s` says `s` is reached from the empty database.
-/
namespace HailVerif.C07
open HailVerif.BatchDB

def after (s : State) (ops : List Op) : State := ops.foldl (fun s op => (step s op).1) s

/-- reachable from the empty database by a history of well-formed messages -/
def Reachable (s : State) : Prop := ∃ ops : List Op, s = after init ops

theorem after_snoc (s : State) (ops : List Op) (op : Op) : after s (ops ++ [op]) = (step (after s ops) op).1 := by
  simp [after, List.foldl_append]

/-- structural invariants of every reachable state: (batch, job) is a key; every group is its own ancestor -/
theorem reachable_inv {s : State} (h : Reachable s) : JobsUnique s ∧ GroupsSelf s := by
  obtain ⟨ops, rfl⟩ := h
  have hs := shape_run init ops
  exact ⟨hs.unique (by simp [JobsUnique, init]), groupsSelf_of_shape hs groupsSelf_init⟩

/-! ## (1) no start after cancel -/

/-- One transaction never moves a cancelled, non-always-run job into Creating or Running (it may stay there until
the canceller unschedules it). -/
theorem no_start_after_cancel_step (s : State) (hr : Reachable s) (op : Op) (hwf : op.WF) (x : Job) (hx : x ∈ s.jobs)
    (hc : jobCancelled s x = true) (x' : Job) (hx' : findJob (step s op).1 x.batch x.id = some x')
    (hst : x'.state = .Creating ∨ x'.state = .Running) : x'.state = x.state :=
  noStart_step s (reachable_inv hr).1 op hwf x hx hc x' hx' hst

/-- Every history: once a job is cancelled, if it is found in Creating or Running at any later time then it has
been in that very state ever since — it is never *moved into* Creating or Running. -/
theorem no_start_after_cancel (ops : List Op) (hwf : ∀ op ∈ ops, op.WF) :
    ∀ (s : State), Reachable s → ∀ (x : Job), x ∈ s.jobs → jobCancelled s x = true → ∀ (x' : Job),
      findJob (after s ops) x.batch x.id = some x' → (x'.state = .Creating ∨ x'.state = .Running) →
      x'.state = x.state := by
  induction ops with
  | nil =>
    intro s hr x hx _ x' hx' _
    simp only [after, List.foldl_nil] at hx'
    rw [findJob_of_mem (reachable_inv hr).1 x hx] at hx'
    cases hx'; rfl
  | cons op ops ih =>
    intro s hr x hx hc x' hx' hst
    have hop : op.WF := hwf op (by simp)
    have hwf' : ∀ o ∈ ops, o.WF := fun o ho => hwf o (by simp [ho])
    have hu := (reachable_inv hr).1
    have hreach1 : Reachable (step s op).1 := by
      obtain ⟨pre, rfl⟩ := hr
      exact ⟨pre ++ [op], by rw [after_snoc]⟩
    -- the row after the first transaction: still cancelled, and not moved into Creating / Running
    obtain ⟨y, hy, -⟩ := findJob_shape (shape_step s op) x.batch x.id x (findJob_of_mem hu x hx)
    have hyc := jobCancelled_mono (shape_step s op) x.batch x.id x y (findJob_of_mem hu x hx) hy hc
    obtain ⟨hym, hyb, hyi⟩ := mem_of_findJob hy
    have hrest := ih hwf' (step s op).1 hreach1 y hym hyc x' (by rw [hyb, hyi]; exact hx') hst
    rw [hrest]
    exact noStart_step s hu op hop x hx hc y hy (by rw [← hrest]; exact hst)

/-! ## (2) nothing can be added beneath a cancelled group -/

/-- a job bunch with a job in a cancelled group is refused and changes nothing (trigger `jobs_before_insert`):
every job row that an `insertJobs` transaction adds lies in a group that is not cancelled -/
theorem no_job_insert_under_cancelled (s : State) (b upd user : Nat) (specs : List JobSpec) (x : Job)
    (hnew : x ∈ (insertJobs s b upd user specs).1.jobs) (hold : x ∉ s.jobs) :
    groupCancelled s x.batch x.group = false := by
  unfold insertJobs at hnew
  split at hnew
  · exact absurd hnew hold
  · split at hnew
    · split at hnew
      · exact absurd hnew hold
      · rename_i hrej
        obtain ⟨hall, -⟩ := insertJobsReject_none hrej
        simp only [insertJobsApply, List.mem_append] at hnew
        rcases hnew with h | h
        · exact absurd h hold
        · have hb : x.batch = b := by
            rw [List.mem_map] at h; obtain ⟨sp, _, rfl⟩ := h; rfl
          rw [hb]; exact (hall x h).1
    · exact absurd hnew hold

/-- a sub-group is only created under a parent that is not cancelled, so it is not cancelled when created -/
theorem no_group_insert_under_cancelled (s s' : State) (b upd gid parent : Nat)
    (h : insertGroup s b upd gid parent = some s') : groupCancelled s b parent = false := by
  unfold insertGroup at h
  split_ifs at h with h1
  simpa using h1

/-- no new update can be opened on a cancelled batch (`hnew`: the request is not the re-send of an update the owner
opened before) -/
theorem no_update_on_cancelled_batch (s : State) (b token nJobs nGroups user : Nat)
    (hc : s.cancelled.contains (b, 0) = true)
    (hnew : s.updates.find? (fun u => u.batch = b ∧ u.token = token ∧ ownedBy s b user) = none) :
    ∃ e, createUpdate s b token nJobs nGroups user = (s, .err e) := by
  unfold createUpdate
  rw [hnew]
  simp only [hc, if_true]
  split_ifs
  · exact ⟨_, rfl⟩
  · split
    · exact ⟨_, rfl⟩
    · split_ifs <;> exact ⟨_, rfl⟩

/-! ## (3) repeating the cancellation changes nothing -/

theorem cancel_idempotent (s : State) (hr : Reachable s) (b g : Nat) :
    cancelGroup (cancelGroup s b g).1 b g = ((cancelGroup s b g).1, (cancelGroup s b g).2) := by
  rcases cancelGroup_cases s b g with ⟨_, h1⟩ | ⟨_, _, h1⟩ | ⟨hv, hnc, h1⟩
  · rw [h1]; exact h1
  · rw [h1]; exact h1
  · rw [h1]; simp only
    have hv' : cancelVisible (cancelApply s b g) b g = true := by
      rw [cancelVisible_congr (s := s) (s' := cancelApply s b g) rfl rfl rfl]; exact hv
    have hc' := groupCancelled_cancelApply (reachable_inv hr).2 hv
    unfold cancelGroup
    simp [hv', hc']

/-! ## (4) siblings and ancestors are unaffected -/

/-- cancelling touches no job row, no group row, no batch row, no update row, no attempt and no instance … -/
theorem cancel_touches_no_row (s : State) (b g : Nat) :
    (cancelGroup s b g).1.jobs = s.jobs ∧ (cancelGroup s b g).1.groups = s.groups ∧
    (cancelGroup s b g).1.batches = s.batches ∧ (cancelGroup s b g).1.updates = s.updates ∧
    (cancelGroup s b g).1.attempts = s.attempts ∧ (cancelGroup s b g).1.instances = s.instances := by
  rcases cancelGroup_cases s b g with ⟨_, h1⟩ | ⟨_, _, h1⟩ | ⟨_, _, h1⟩ <;> rw [h1] <;> simp [cancelApply]

/-- … and the cancelled status of a group changes only if `g` is one of its ancestors-or-self: groups in sibling
subtrees, ancestor groups and other batches keep their status. -/
theorem siblings_untouched (s : State) (b g b' d : Nat) (hd : b' ≠ b ∨ g ∉ ancestorsOf s b d) :
    groupCancelled (cancelGroup s b g).1 b' d = groupCancelled s b' d := by
  rcases cancelGroup_cases s b g with ⟨_, h1⟩ | ⟨_, _, h1⟩ | ⟨_, _, h1⟩
  · rw [h1]
  · rw [h1]
  · rw [h1]
    have hanc : ancestorsOf (cancelApply s b g) b' d = ancestorsOf s b' d := rfl
    unfold groupCancelled
    rw [hanc, Bool.eq_iff_iff, List.any_eq_true, List.any_eq_true]
    constructor
    · rintro ⟨a, ha, hca⟩
      refine ⟨a, ha, ?_⟩
      simp only [cancelApply, List.contains_eq_mem, List.mem_append, List.mem_singleton, Prod.mk.injEq,
        decide_eq_true_eq] at hca ⊢
      rcases hca with h | ⟨hb, hg⟩
      · exact h
      · exfalso
        rcases hd with hne | hnot
        · exact hne hb
        · apply hnot; rw [← hb, ← hg]; exact ha
    · rintro ⟨a, ha, hca⟩
      exact ⟨a, ha, by
        simp only [cancelApply, List.contains_eq_mem, List.mem_append, decide_eq_true_eq] at hca ⊢
        exact Or.inl hca⟩

/-- cancelling `g` does cancel every group below it (any group that lists `g` among its ancestors) -/
theorem cancel_covers_descendants (s : State) (b g d : Nat) (hd : g ∈ ancestorsOf s b d)
    (hv : cancelVisible s b g = true) (hnc : groupCancelled s b g = false) :
    groupCancelled (cancelGroup s b g).1 b d = true := by
  rcases cancelGroup_cases s b g with ⟨hv', _⟩ | ⟨_, hc, _⟩ | ⟨_, _, h1⟩
  · rw [hv] at hv'; exact absurd hv' (by simp)
  · rw [hnc] at hc; exact absurd hc (by simp)
  · rw [h1]
    have hanc : ancestorsOf (cancelApply s b g) b d = ancestorsOf s b d := rfl
    unfold groupCancelled
    rw [hanc, List.any_eq_true]
    exact ⟨g, hd, by simp [cancelApply]⟩

/-! ## (5) requests are answered normally under any combination of cancelled groups -/

/-- scheduling, creating and starting requests for an existing job on an existing instance (or for an attempt that is
already recorded) always get a procedure answer (`rc`), never an error, whatever groups are cancelled -/
theorem requests_answered (s : State) (b j a i : Nat) (ts : Int) (d : Nat) (job : Job) (hj : findJob s b j = some job)
    (hfk : attemptFkFails s b j (some a) (some i) = false) :
    (∃ rc, (schedule s b j a i).2 = .ok rc) ∧ (creating s b j a i ts d).2 = .ok 0 ∧ (started s b j a i ts d).2 = .ok 0 := by
  have hj' : findJobFk s b j (some a) (some i) = some job := by simp [findJobFk, hfk, hj]
  refine ⟨?_, ?_, ?_⟩
  · unfold schedule; rw [hj']; dsimp only; split_ifs <;> exact ⟨_, rfl⟩
  · unfold creating startLike; rw [hj']; dsimp only; split_ifs <;> rfl
  · unfold started startLike; rw [hj']; dsimp only; split_ifs <;> rfl

/-! ## non-vacuity -/

/-- a concrete reachable history: batch, update with a group and two jobs, commit, cancel the sub-group -/
def demo : List Op :=
  [.createBatch 1 1 100, .createUpdate 1 200 2 1 1, .insertGroups 1 1 1 [⟨1, some 0, 0⟩],
   .insertJobs 1 1 1 [⟨1, [], [], none, 1, false, 1000, 0⟩, ⟨2, [], [], some 0, 0, false, 1000, 0⟩],
   .commitUpdate 1 1, .cancelGroup 1 1]

-- the job in the cancelled sub-group is cancelled, its sibling in the root group is not
example : ((after init demo).jobs.map fun j => (j.id, jobCancelled (after init demo) j)) = [(1, true), (2, false)] := by
  decide
-- scheduling the cancelled job is answered with rc 1 and the job stays Ready
example : (step (step (step (after init demo) (.newInstance 7 4000 true)).1 (.activate 7)).1 (.schedule 1 1 11 7)).2 = .ok 1 := by
  decide
-- inserting a further job into the cancelled sub-group is refused
example : (step (step (after init demo) (.createUpdate 1 201 1 0 1)).1
    (.insertJobs 1 2 1 [⟨1, [], [], some 1, 0, false, 1000, 0⟩])).2 = .err "cancelled" := by decide

end HailVerif.C07

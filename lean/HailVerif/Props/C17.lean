import HailVerif.Proofs.BatchOrder
/-!
# C17 — Batch jobs run in dependency order with failure propagation

Subject: `HailVerif.BatchOrder` — `accept` (the `schedule_job` numbering, `assert len(seen) == len(self._jobs)` and the
`job_index` cycle check of `Batch._async_run`) and `runLocal` (the `cancelled_jobs` loop of `LocalBackend._async_run`),
tied to the code by `harness/props/c17.py`.

A pipeline is `g : Pipe`: jobs `0 … n-1` in creation order, `g.deps j` = the jobs `j` depends on (explicitly or through a
consumed resource) **in any iteration order**, `g.alwaysRun`.  All theorems quantify over every finite pipeline, every
iteration order of the dependency sets and every assignment `fails` of failing commands.
-/
namespace HailVerif.C17
open HailVerif.BatchOrder

/-- some job of the batch depends (transitively, in at least one step) on itself
(`Edge deps a b` : `b ∈ deps a`, i.e. `b` is a dependency of `a`) -/
def Cyclic (g : Pipe) : Prop := ∃ j, j < g.n ∧ Relation.TransGen (Edge g.deps) j j

/-- every dependency of a job of the batch is a job of the batch -/
def Closed (g : Pipe) : Prop := ∀ j, j < g.n → ∀ d ∈ g.deps j, d < g.n

/-- **Accepted numberings are topological.** If the pipeline is accepted with the order `ord` (job ids are the
positions in `ord`), then `ord` lists every job of the batch exactly once and every job comes strictly after every job
it depends on. -/
theorem accepted_is_topological (g : Pipe) (ord : List Nat) (h : accept g = .ok ord) :
    ord.Perm (List.range g.n) ∧ ∀ j ∈ ord, ∀ d ∈ g.deps j, d ∈ ord ∧ ord.idxOf d < ord.idxOf j := by
  obtain ⟨rfl, hlen, hfw⟩ := (accept_ok_iff g ord).1 h
  obtain ⟨htop, hall⟩ := dfs_top g
  refine ⟨?_, hfw⟩
  have hsub : List.range g.n ⊆ (dfs g).ord := fun j hj => hall j (List.mem_range.1 hj)
  have hsp := List.subperm_of_subset List.nodup_range hsub
  have hl : (dfs g).ord.length ≤ (List.range g.n).length := by
    rw [List.length_range, ← hlen, htop.2.length_eq]; exact Nat.le_refl _
  exact (hsp.perm_of_length_le hl).symm

/-- `Topo` form of the same fact (what the backend loop needs). -/
theorem accepted_topo (g : Pipe) (ord : List Nat) (h : accept g = .ok ord) : Topo g.deps ord := by
  obtain ⟨hp, hfw⟩ := accepted_is_topological g ord h
  exact ⟨(hp.nodup_iff).2 List.nodup_range, hfw⟩

/-- **Cyclic pipelines are rejected before anything runs**: no numbering of a cyclic graph passes the check
(positions would have to decrease strictly all the way around the cycle). -/
theorem cyclic_rejected (g : Pipe) (hc : Cyclic g) : ∀ ord, accept g ≠ .ok ord := by
  intro ord h
  obtain ⟨hp, hfw⟩ := accepted_is_topological g ord h
  obtain ⟨j, hj, hcyc⟩ := hc
  have hjo : j ∈ ord := hp.mem_iff.2 (List.mem_range.2 hj)
  have key : ∀ a b, Relation.TransGen (Edge g.deps) a b → a ∈ ord → b ∈ ord ∧ ord.idxOf b < ord.idxOf a := by
    intro a b hab
    induction hab with
    | single hab => intro ha; exact hfw a ha _ hab
    | tail _ hbc ih =>
      intro ha
      obtain ⟨hb, hlt⟩ := ih ha
      obtain ⟨hc', hlt'⟩ := hfw _ hb _ hbc
      exact ⟨hc', by omega⟩
  have := (key j j hcyc hjo).2
  omega

/-- **Every DAG-shaped pipeline is accepted**, whatever the creation order of the jobs and the iteration order of
the dependency sets: the depth-first post-order numbers every job after all jobs it depends on, the fuel of the model's
recursion never runs out, the `assert` holds and the cycle check passes. (`Closed`: dependencies are jobs of the same
batch — the DSL cannot express anything else for resource edges; `depends_on` with a foreign job trips the assert.) -/
theorem dag_accepted (g : Pipe) (hcl : Closed g) (hac : ¬ Cyclic g) : ∃ ord, accept g = .ok ord := by
  have hac' : ∀ j, j < g.n → ¬ Relation.TransGen (Edge g.deps) j j := fun j hj hc => hac ⟨j, hj, hc⟩
  have hg := dfs_good g hcl hac'
  obtain ⟨htop, hall⟩ := dfs_top g
  refine ⟨(dfs g).ord, (accept_ok_iff g _).2 ⟨rfl, ?_, hg.fw⟩⟩
  -- `seen` holds exactly the jobs of the batch
  have hsub : (dfs g).seen ⊆ List.range g.n := fun x hx => List.mem_range.2 (hg.seen_lt x hx)
  have h1 := (List.subperm_of_subset hg.seen_nd hsub).length_le
  have hsub2 : List.range g.n ⊆ (dfs g).seen := fun x hx => htop.2.mem_iff.2 (hall x (List.mem_range.1 hx))
  have h2 := (List.subperm_of_subset List.nodup_range hsub2).length_le
  rw [List.length_range] at h1 h2
  omega

/-- For closed pipelines the verdict is therefore decided by the graph alone: accepted iff acyclic. -/
theorem accepted_iff_acyclic (g : Pipe) (hcl : Closed g) : (∃ ord, accept g = .ok ord) ↔ ¬ Cyclic g :=
  ⟨fun ⟨ord, h⟩ hc => cyclic_rejected g hc ord h, dag_accepted g hcl⟩

/-! ### the local backend -/

/-- the jobs the local backend does not run -/
def skipped (g : Pipe) (fails : Nat → Bool) (ord : List Nat) (j : Nat) : Prop :=
  j ∈ ord ∧ j ∉ (runLocal g fails ord).1

/-- **Every non-skipped job is executed exactly once, in order**: the executed sequence is the accepted order with the
skipped jobs removed. -/
theorem executed_once_in_order (g : Pipe) (fails : Nat → Bool) (ord : List Nat) (h : accept g = .ok ord) :
    ∃ keep : Nat → Bool, (runLocal g fails ord).1 = ord.filter keep ∧ (runLocal g fails ord).1.Nodup ∧
      ∀ j ∈ ord, (keep j = false ↔ skipped g fails ord j) := by
  have ht := accepted_topo g ord h
  obtain ⟨_, he⟩ := runLoop_final g fails ord ht
  refine ⟨fun p => decide (p ∉ (runLoop g fails ord ord ([], [])).1), he, ?_, ?_⟩
  · show (runLoop g fails ord ord ([], [])).2.Nodup
    rw [he]; exact ht.1.filter _
  · intro j hj
    unfold skipped
    show _ ↔ j ∈ ord ∧ j ∉ (runLoop g fails ord ord ([], [])).2
    rw [he]
    simp [List.mem_filter, hj]

/-- **The skipped set is the least fixpoint of the propagation rule.**
(i) fixpoint: a job is skipped iff it is not `always_run` and one of its dependencies failed (ran and failed) or was
skipped — equivalently `fails p ∨ skipped p`, since a dependency that would fail but was itself skipped is covered by
the second disjunct; (ii) least: every set closed under the rule contains it. -/
theorem skip_set_is_lfp (g : Pipe) (fails : Nat → Bool) (ord : List Nat) (h : accept g = .ok ord) :
    (∀ j ∈ ord, skipped g fails ord j ↔
        g.alwaysRun j = false ∧ ∃ p ∈ g.deps j, (fails p = true ∧ ¬ skipped g fails ord p) ∨ skipped g fails ord p) ∧
    (∀ S : Nat → Prop,
        (∀ j ∈ ord, g.alwaysRun j = false → (∃ p ∈ g.deps j, fails p = true ∨ S p) → S j) →
        ∀ j, skipped g fails ord j → S j) := by
  have ht := accepted_topo g ord h
  obtain ⟨hc, he⟩ := runLoop_final g fails ord ht
  -- skipped ⇔ cancelled
  have hsk : ∀ j ∈ ord, (skipped g fails ord j ↔ j ∈ (runLoop g fails ord ord ([], [])).1) := by
    intro j hj
    unfold skipped
    show j ∈ ord ∧ j ∉ (runLoop g fails ord ord ([], [])).2 ↔ _
    rw [he]
    simp [List.mem_filter, hj]
  constructor
  · intro j hj
    rw [hsk j hj, hc j]
    constructor
    · rintro ⟨_, har, p, hp, hpd, hpc⟩
      refine ⟨har, p, hpd, ?_⟩
      by_cases hps : skipped g fails ord p
      · exact Or.inr hps
      · rcases hpc with hpc | hpc
        · exact absurd ((hsk p hp).2 hpc) hps
        · exact Or.inl ⟨hpc, hps⟩
    · rintro ⟨har, p, hpd, hpc⟩
      have hp : p ∈ ord := (ht.2 j hj p hpd).1
      refine ⟨hj, har, p, hp, hpd, ?_⟩
      rcases hpc with ⟨hf, _⟩ | hps
      · exact Or.inr hf
      · exact Or.inl ((hsk p hp).1 hps)
  · intro S hS
    have key : ∀ k j, j ∈ ord → ord.idxOf j < k → j ∈ (runLoop g fails ord ord ([], [])).1 → S j := by
      intro k
      induction k with
      | zero => intro j _ hk; omega
      | succ k ih =>
        intro j hj hk hjc
        obtain ⟨_, har, p, hp, hpd, hpc⟩ := (hc j).1 hjc
        apply hS j hj har
        refine ⟨p, hpd, ?_⟩
        rcases hpc with hpc | hpc
        · right
          have := (ht.2 j hj p hpd).2
          exact ih p hp (by omega) hpc
        · exact Or.inl hpc
    intro j hjs
    exact key (ord.idxOf j + 1) j hjs.1 (by omega) ((hsk j hjs.1).1 hjs)

/-- the run raises (`raise first_exc`) exactly when an executed job failed -/
theorem raises_iff (g : Pipe) (fails : Nat → Bool) (ord : List Nat) :
    (runLocal g fails ord).2 = true ↔ ∃ j ∈ (runLocal g fails ord).1, fails j = true := by
  unfold runLocal
  simp [List.any_eq_true]

/-! ### how the dependency sets are built: `depends_on`, bash commands, `PythonJob.call` arguments -/

/-- the pipeline declares `decl`: the dependency set of every job holds exactly the jobs its statements add
(`jobDeps`), in whatever order the set iterates -/
def Declares (g : Pipe) (decl : Nat → JobDecl) : Prop :=
  ∀ j, j < g.n → ∀ d, d ∈ g.deps j ↔ d ∈ jobDeps j (decl j)

/-- **Call-argument dependency rule.** One `call(f, *args, **kwargs)` makes the job depend on exactly the other jobs
whose resources occur in a positional argument **or in a keyword-argument value**, at any nesting depth of lists,
tuples and dict values. -/
theorem call_argument_dependencies (self : Nat) (args : List Arg) (kwargs : List (String × Arg)) (p : Nat) :
    p ∈ callDeps self args kwargs ↔
      p ≠ self ∧ ((∃ a ∈ args, Mentions a p) ∨ ∃ kv ∈ kwargs, Mentions kv.2 p) :=
  mem_callDeps self args kwargs p

/-- nesting: a resource inside a list inside a dict value inside a keyword argument still counts -/
example : 5 ∈ callDeps 0 [.value] [("path", .dict [.value, .seq [.res (some 5)]])] := by decide
/-- dict keys, plain values, input files (no source) and the job's own results add nothing -/
example : callDeps 0 [.res none, .value, .res (some 0)] [("n", .value)] = [] := by decide

/-- **A consumer is numbered after its producer and depends on it**: in an accepted pipeline, a job one of whose calls
mentions (positionally or by keyword, nested or not) a resource of another job `p` has `p` among its dependencies and
comes strictly later in the execution order. -/
theorem consumer_after_producer (g : Pipe) (decl : Nat → JobDecl) (ord : List Nat) (hd : Declares g decl)
    (h : accept g = .ok ord) (j : Nat) (hj : j < g.n) (c : List Arg × List (String × Arg)) (hc : c ∈ (decl j).calls)
    (p : Nat) (hp : p ≠ j) (hm : (∃ a ∈ c.1, Mentions a p) ∨ ∃ kv ∈ c.2, Mentions kv.2 p) :
    p ∈ g.deps j ∧ p ∈ ord ∧ ord.idxOf p < ord.idxOf j := by
  have hdep : p ∈ g.deps j := (hd j hj p).2 ((mem_jobDeps j (decl j) p).2 (Or.inr (Or.inr ⟨hp, c, hc, hm⟩)))
  obtain ⟨hperm, hfw⟩ := accepted_is_topological g ord h
  have hjo : j ∈ ord := hperm.mem_iff.2 (List.mem_range.2 hj)
  exact ⟨hdep, hfw j hjo p hdep⟩

/-- **… and is skipped when the producer failed or was skipped** (unless it is `always_run`). -/
theorem consumer_skipped_when_producer_fails (g : Pipe) (decl : Nat → JobDecl) (ord : List Nat) (fails : Nat → Bool)
    (hd : Declares g decl) (h : accept g = .ok ord) (j : Nat) (hj : j < g.n)
    (c : List Arg × List (String × Arg)) (hc : c ∈ (decl j).calls) (p : Nat) (hp : p ≠ j)
    (hm : (∃ a ∈ c.1, Mentions a p) ∨ ∃ kv ∈ c.2, Mentions kv.2 p) (har : g.alwaysRun j = false)
    (hf : (fails p = true ∧ ¬ skipped g fails ord p) ∨ skipped g fails ord p) : skipped g fails ord j := by
  obtain ⟨hdep, _, _⟩ := consumer_after_producer g decl ord hd h j hj c hc p hp hm
  obtain ⟨hperm, _⟩ := accepted_is_topological g ord h
  have hjo : j ∈ ord := hperm.mem_iff.2 (List.mem_range.2 hj)
  exact ((skip_set_is_lfp g fails ord h).1 j hjo).2 ⟨har, p, hdep, hf⟩

/-! ### non-vacuity -/

/-- diamond 0 → {1, 2} → 3 created in the order 3, 1, 2, 0 (so creation order is not an execution order) -/
def diamond : Pipe :=
  { n := 4, deps := fun j => if j = 0 then [1, 2] else if j = 1 then [3] else if j = 2 then [3] else [],
    alwaysRun := fun j => j == 0 }

example : accept diamond = .ok [3, 1, 2, 0] := by decide
-- job 1 fails: job 0 is always_run and still runs; nothing else depends on 1
example : runLocal diamond (fun j => j == 1) [3, 1, 2, 0] = ([3, 1, 2, 0], true) := by decide
-- job 3 fails: 1 and 2 are skipped, the always_run job 0 runs
example : runLocal diamond (fun j => j == 3) [3, 1, 2, 0] = ([3, 0], true) := by decide
example : accept { n := 2, deps := fun j => if j = 0 then [1] else [0], alwaysRun := fun _ => false } = .cycle := by
  decide
example : accept { n := 1, deps := fun _ => [0], alwaysRun := fun _ => false } = .cycle := by decide
example : Cyclic { n := 1, deps := fun _ => [0], alwaysRun := fun _ => false } :=
  ⟨0, by decide, Relation.TransGen.single (by simp [Edge])⟩
-- a command-less barrier (job 2) between the failing job 1 and its dependents 0 and 3 is a job like any other: it is
-- skipped and passes the skip on; the always_run job 4 still runs
example :
    let g : Pipe := { n := 5, deps := fun j => if j = 2 then [1] else if j = 0 then [2] else if j = 3 then [2]
                                     else if j = 4 then [3] else [], alwaysRun := fun j => j == 4 }
    accept g = .ok [2, 0, 1, 3, 4] → False := by decide
example :
    let g : Pipe := { n := 5, deps := fun j => if j = 2 then [1] else if j = 0 then [2] else if j = 3 then [2]
                                     else if j = 4 then [3] else [], alwaysRun := fun j => j == 4 }
    accept g = .ok [1, 2, 0, 3, 4] ∧ runLocal g (fun j => j == 1) [1, 2, 0, 3, 4] = ([1, 4], true) := by decide
example : Closed diamond := by unfold Closed; decide
example : ¬ Cyclic diamond := fun hc => cyclic_rejected diamond hc [3, 1, 2, 0] (by decide)

end HailVerif.C17

import HailVerif.Proofs.BatchDBAccounting
/-!
# C10 — Instance free-core accounting is exact

Subject: the BatchDB model (`HailVerif.BatchDB`, one `step` per transaction of the service).  `instances_free_cores_mcpu`
is the `free` column of the model's `instances`; it is written by `add_attempt` (from `schedule_job`, `mark_job_creating`,
`mark_job_started`, `mark_job_complete`), by the release branches of `mark_job_complete` and `unschedule_job`, and by
`deactivate_instance`.

`usedCores s i` is the recomputation the property asks for: the cores of the jobs of all attempts placed on `i` whose
`end_time` is NULL.  `FreeExact` is the full statement.  It is **false** on the model (faithfully to the SQL): see
`free_cores_exact_fails*`.  It is an invariant of every history whose reports satisfy `OpOK` (`free_cores_exact_partial`);
the half about inactive / deleted instances holds unconditionally (`inactive_all_free`).
-/
namespace HailVerif.C10
open HailVerif.BatchDB HailVerif.Generated.AttemptsTrigger

/-- cores of the attempts placed on instance `i` that have not ended (`jobs.cores_mcpu` of the attempt's job) -/
def usedCores (s : State) (i : Instance) : Int :=
  sumBy (fun a => if a.inst = some i.name ∧ a.row.end_time = none then jobCores s a.batch a.job else 0) s.attempts

theorem usedCores_eq (s : State) (i : Instance) : usedCores s i = usedOn s i.name := by
  unfold usedCores usedOn holdsOn
  apply sumBy_congr
  intro a _
  by_cases h1 : a.inst = some i.name <;> by_cases h2 : a.row.end_time = none <;> simp [h1, h2]

/-- **the full statement**: a live instance has `free = cores − used`, an inactive / deleted one has all cores free -/
def FreeExact (s : State) : Prop :=
  ∀ i ∈ s.instances,
    ((i.state = .pending ∨ i.state = .active) → i.free = i.cores - usedCores s i) ∧
    ((i.state = .inactive ∨ i.state = .deleted) → i.free = i.cores)

instance (s : State) : Decidable (FreeExact s) := by unfold FreeExact; infer_instance

/-! ## (1) the full statement fails -/

/-- a committed one-job batch and a job-private instance 7 that is still being created (pending) -/
def setup : List Op :=
  [.createBatch 1 1 100, .createUpdate 1 200 1 0 1,
   .insertJobs 1 1 1 [⟨1, [], [], some 0, 0, false, 1000, 0⟩], .commitUpdate 1 1, .newInstance 7 4000 false]

/-- `mark_job_creating` places attempt 11 on the pending instance; the canceller unschedules it before activation:
the attempt is ended but `unschedule_job` releases cores only `IF cur_instance_state = 'active'` -/
def witness : List Op := setup ++ [.creating 1 1 11 7 10 0, .unschedule 1 1 11 7 20 "cancelled" 0]

theorem free_cores_exact_fails : ¬ FreeExact (run witness) := by decide

/-- what the state looks like: no un-ended attempt, yet 1000 mcpu are missing -/
example : (run witness).instances = [⟨7, .pending, 4000, 3000, false⟩] ∧
    (run witness).attempts.map (fun a => (a.inst, a.row.end_time)) = [(some 7, some 20)] := by decide

/-- the discrepancy survives activation of the instance (and every later scheduling decision sees 3000) -/
theorem free_cores_exact_fails_after_activation : ¬ FreeExact (run (witness ++ [.activate 7])) := by decide

/-- second way: a completion report without end time on an active instance releases the cores of an attempt that stays
un-ended -/
theorem free_cores_exact_fails_complete_no_end :
    ¬ FreeExact (run (setup ++ [.activate 7, .schedule 1 1 11 7,
      .complete 1 1 (some 11) (some 7) .Failed none none "error" 0])) := by decide

/-- third way: `unschedule_job` for an attempt that does not exist (`cur_end_time IS NULL` holds for the missing row) adds
cores that were never taken -/
theorem free_cores_exact_fails_unschedule_unknown :
    ¬ FreeExact (run (setup ++ [.activate 7, .unschedule 1 1 99 7 20 "cancelled" 0])) := by decide

/-! ## (2) the invariant under well-formed reports -/

/-- every report of the history satisfies `OpOK` in the state it arrives in -/
def HistoryOK : State → List Op → Prop
  | _, [] => True
  | s, op :: rest => OpOK s op ∧ HistoryOK (step s op).1 rest

def HistoryOK.dec : (s : State) → (ops : List Op) → Decidable (HistoryOK s ops)
  | _, [] => isTrue trivial
  | s, op :: rest => @instDecidableAnd _ _ inferInstance (HistoryOK.dec (step s op).1 rest)

instance (s : State) (ops : List Op) : Decidable (HistoryOK s ops) := HistoryOK.dec s ops

theorem freeExact_of_acc {s : State} (h : Acc s) : FreeExact s := by
  intro i hi
  rw [usedCores_eq]
  constructor
  · intro hl
    exact h.live i hi (by rcases hl with hl | hl <;> simp [isLive, hl])
  · intro hd
    exact h.struct.dead i hi (by rcases hd with hd | hd <;> simp [isLive, hd])

/-- one transaction: exact accounting (with its auxiliary invariants `Acc`) is preserved by every well-formed report -/
theorem free_cores_exact_step (s : State) (h : Acc s) (op : Op) (hok : OpOK s op) :
    Acc (step s op).1 ∧ FreeExact (step s op).1 :=
  ⟨acc_step h op hok, freeExact_of_acc (acc_step h op hok)⟩

theorem acc_run (ops : List Op) : ∀ s, Acc s → HistoryOK s ops → Acc (ops.foldl (fun s op => (step s op).1) s) := by
  induction ops with
  | nil => intro s h _; exact h
  | cons op rest ih => intro s h hok; exact ih _ (acc_step h op hok.1) hok.2

/-- **Partial theorem.**  In every history from the empty database in which (h1) no attempt is ended by a completion or
unschedule report while its instance is pending, (h2) a completion naming an attempt and an instance carries an end time,
(h3) completion / unschedule reports name attempts on the instance they name (an `unschedule` of an unknown attempt
does not name an active instance, a completion without attempt id does not name an active instance) — together the
decidable predicate `OpOK`, evaluated in the state the report arrives in — every live instance has
`free = cores − Σ cores of un-ended attempts on it` and every inactive / deleted instance has all cores free, whatever
the order or repetition of schedule, creating, started, complete, unschedule, heartbeat, deactivate and all other
transactions. -/
theorem free_cores_exact_partial (ops : List Op) (h : HistoryOK init ops) : FreeExact (run ops) :=
  freeExact_of_acc (acc_run ops init acc_init h)

/-! ## (3) inactive instances report all cores free — unconditionally -/

/-- In every reachable state (no hypothesis on the reports) an inactive or deleted instance has `free = cores`:
`deactivate_instance` sets it, `add_attempt` skips instances that are not live, and both release branches require
`active`. -/
theorem inactive_all_free (ops : List Op) (i : Instance) (hi : i ∈ (run ops).instances)
    (hd : i.state = .inactive ∨ i.state = .deleted) : i.free = i.cores :=
  (struct_run ops init struct_init).dead i hi (by rcases hd with hd | hd <;> simp [isLive, hd])

/-- a successful `deactivate_instance` leaves the instance inactive with all cores free -/
theorem deactivate_frees_all (s : State) (n : Nat) (r : String) (ts : Int) (d : Nat)
    (hok : (deactivate s n r ts d).2 = .ok 0) (i : Instance) (hi : i ∈ (deactivate s n r ts d).1.instances)
    (hn : i.name = n) : i.state = .inactive ∧ i.free = i.cores := by
  unfold deactivate at hok hi
  cases hf : findInstance s n with
  | none => rw [hf] at hok; simp at hok
  | some i0 =>
    rw [hf] at hok hi
    dsimp only at hok hi
    split_ifs at hok hi
    · simp at hok
    · unfold deactivateApply at hi
      simp only [List.mem_map] at hi
      obtain ⟨x, _, rfl⟩ := hi
      split_ifs at hn ⊢ with hx
      · exact ⟨rfl, rfl⟩
      · exact absurd hn hx

/-- … and it stays that way: once an instance is inactive or deleted, after every later history the instance (same name,
same cores) is still inactive or deleted and its free cores are unchanged (= all its cores) -/
theorem inactive_stays_all_free (pre post : List Op) (i : Instance) (hi : i ∈ (run pre).instances)
    (hd : i.state = .inactive ∨ i.state = .deleted) :
    ∃ i' ∈ (run (pre ++ post)).instances, i'.name = i.name ∧ i'.cores = i.cores ∧ i'.free = i.free ∧
      (i'.state = .inactive ∨ i'.state = .deleted) := by
  have hpre := struct_run pre init struct_init
  have hdead : isLive i = false := by rcases hd with hd | hd <;> simp [isLive, hd]
  have e : run (pre ++ post) = post.foldl (fun s op => (step s op).1) (run pre) := by simp [run, List.foldl_append]
  obtain ⟨i', hi', hn, hc, hl⟩ := instStep_run post (run pre) hpre i hi
  have hpost := struct_run post (run pre) hpre
  refine ⟨i', by rw [e]; exact hi', hn, hc, ?_, ?_⟩
  · rw [hpost.dead i' hi' (hl hdead), hc, hpre.dead i hi hdead]
  · have := hl hdead
    cases hs : i'.state <;> simp [isLive, hs] at this ⊢

/-! ## auxiliary facts used above, of independent interest -/

/-- every stored attempt row with an end time has a reason … -/
theorem rows_ok (ops : List Op) (a : Attempt) (ha : a ∈ (run ops).attempts) (he : a.row.end_time ≠ none) :
    a.row.reason ≠ none :=
  (struct_run ops init struct_init).rows a ha he

/-- … hence an ended attempt never becomes un-ended: whatever report is applied to a stored row that has an end time,
the clamp trigger `attempts_before_update` stores an end time again -/
theorem ended_stays_ended (ops : List Op) (a : Attempt) (ha : a ∈ (run ops).attempts) (he : a.row.end_time ≠ none)
    (report : Row) : (attemptsBeforeUpdate a.row report).end_time ≠ none :=
  upd_end_mono a.row report ((struct_run ops init struct_init).rows a ha) he

/-- `(batch_id, job_id, attempt_id)` is a key of `attempts`, instance names are unique, every attempt has its job row -/
theorem keys_unique (ops : List Op) :
    ((run ops).attempts.map fun a => (a.batch, a.job, a.id)).Nodup ∧ ((run ops).instances.map (·.name)).Nodup ∧
    ∀ a ∈ (run ops).attempts, (findJob (run ops) a.batch a.job).isSome = true :=
  ⟨(struct_run ops init struct_init).attU, (struct_run ops init struct_init).instU, (struct_run ops init struct_init).attJob⟩

/-! ## non-vacuity -/

/-- real scheduling traffic on a pool instance 7 and a job-private instance 8: two jobs scheduled and started on 7, a
stale duplicate `started`, a completion with end time, an unschedule on the active instance, a duplicate completion,
`creating` on the pending instance 8, activation, completion there, deactivation of 7 with a running attempt -/
def traffic : List Op :=
  [.createBatch 1 1 100, .createUpdate 1 200 3 0 1,
   .insertJobs 1 1 1 [⟨1, [], [], some 0, 0, false, 1000, 0⟩, ⟨2, [], [], some 0, 0, false, 500, 0⟩,
     ⟨3, [], [], some 0, 0, false, 250, 0⟩],
   .commitUpdate 1 1, .newInstance 7 4000 true, .activate 7, .newInstance 8 1000 false,
   .schedule 1 1 11 7, .started 1 1 11 7 10 0, .schedule 1 2 21 7, .started 1 2 21 7 11 0, .started 1 1 11 7 12 0,
   .heartbeat [(1, 1, 11), (1, 2, 21)] 20 0,
   .complete 1 1 (some 11) (some 7) .Success (some 10) (some 30) "completed" 0,
   .unschedule 1 2 21 7 31 "cancelled" 0,
   .complete 1 1 (some 11) (some 7) .Success (some 10) (some 30) "completed" 0,
   .creating 1 3 31 8 32 0, .activate 8, .started 1 3 31 8 33 0,
   .schedule 1 2 22 7, .started 1 2 22 7 34 0,
   .complete 1 3 (some 31) (some 8) .Success (some 33) (some 40) "completed" 0,
   .deactivate 7 "preempted" 41 0]

example : HistoryOK init traffic := by decide

-- in the middle of the traffic both jobs hold cores on instance 7
example : (run (traffic.take 13)).instances.map (fun i => (i.name, i.free)) = [(7, 2500), (8, 1000)] := by decide

example : FreeExact (run traffic) := free_cores_exact_partial traffic (by decide)

-- the witnesses are excluded by the hypotheses, each by the clause it is meant to violate
example : ¬ HistoryOK init witness := by decide

end HailVerif.C10
